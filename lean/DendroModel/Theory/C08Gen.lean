import DendroModel.Theory.C08Base
/-! C08 — the leaf-removal loop for an ARBITRARY filter and ANY tree (no `NoneRej`, no `InnerNoTaxon`): it computes
`restrictA`, its fuel suffices, the removed nodes are the complement; the non-recursive call is exactly one pass. -/
namespace DendroModel.C08.Aux
open DendroModel

theorem rejected_restrictA {acc : Acc} {c : T} (h : rejected acc c = true) : restrictA acc c = none := by
  obtain ⟨i, x, l, s, cs⟩ := c
  cases cs with
  | nil => simp [rejected, T.isLeaf, T.cs, T.id, T.taxon] at h; simp [restrictA, h]
  | cons d ds => simp [rejected, T.isLeaf, T.cs] at h

mutual
theorem dropPass_restrictA (acc : Acc) : ∀ t : T, restrictA acc (dropPass acc t) = restrictA acc t
  | .node i x l s [] => by rw [dropPass_leaf]
  | .node i x l s (c :: cs) => by
      have hl := dropPassL_restrictA acc (c :: cs)
      simp only [dropPass]
      cases hd : dropPassL acc (c :: cs) with
      | nil =>
        rw [hd] at hl
        have hl' : restrictAL acc (c :: cs) = [] := by rw [← hl]; simp [restrictAL]
        simp only [restrictA, hl']
      | cons d ds =>
        rw [hd] at hl
        simp only [restrictA, hl]
theorem dropPassL_restrictA (acc : Acc) : ∀ cs : List T, restrictAL acc (dropPassL acc cs) = restrictAL acc cs
  | [] => rfl
  | c :: cs => by
      have h1 := dropPass_restrictA acc c
      have h2 := dropPassL_restrictA acc cs
      simp only [dropPassL]
      by_cases hr : rejected acc c = true
      · simp only [hr, if_true, restrictAL, rejected_restrictA hr, h2]
      · rw [if_neg hr]; simp only [restrictAL, h1, h2]
end

mutual
theorem fix_restrictA (acc : Acc) : ∀ t : T, rejLeaves acc t = [] → restrictA acc t = some t
  | .node i x l s [], h => by
      simp only [rejLeaves] at h
      by_cases ha : acc i x = true
      · simp [restrictA, ha]
      · simp [ha] at h
  | .node i x l s (c :: cs), h => by
      simp only [rejLeaves] at h
      have hl := fixL_restrictA acc (c :: cs) h
      simp only [restrictA, hl]
theorem fixL_restrictA (acc : Acc) : ∀ cs : List T, rejLeavesL acc cs = [] → restrictAL acc cs = cs
  | [], _ => rfl
  | c :: cs, h => by
      simp only [rejLeavesL, List.append_eq_nil_iff] at h
      simp [restrictAL, fix_restrictA acc c h.1, fixL_restrictA acc cs h.2]
end

theorem dropLoopA_spec (acc : Acc) : ∀ (fuel : Nat) (t : T) (rem : List Nat), t.size ≤ fuel →
    (∀ r, restrictA acc t = some r →
        ∃ rm, dropLoop acc true fuel t rem = some (r, rem ++ rm) ∧ (rm ++ ids r).Perm (ids t)) ∧
    (restrictA acc t = none → dropLoop acc true fuel t rem = none)
  | 0, t, _, hs => by have := size_pos t; omega
  | f + 1, t, rem, hs => by
      simp only [dropLoop]
      by_cases hb : rejLeaves acc t = []
      · have hfix := fix_restrictA acc t hb
        simp only [hb, List.isEmpty_nil, if_true, hfix]
        refine ⟨fun r hr => ⟨[], ?_, ?_⟩, fun h => by simp at h⟩
        · simp at hr; simp [hr]
        · simp at hr; simp [hr]
      · have hbe : (rejLeaves acc t).isEmpty = false := by
          cases hh : rejLeaves acc t with
          | nil => exact absurd hh hb
          | cons a b => rfl
        simp only [hbe]
        by_cases hleaf : t.isLeaf = true
        · obtain ⟨i, x, l, s, cs⟩ := t
          cases cs with
          | cons d ds => simp [T.isLeaf, T.cs] at hleaf
          | nil =>
            have ha : acc i x = false := by
              by_cases ha : acc i x = true
              · simp [rejLeaves, ha] at hb
              · simpa using ha
            simp [T.isLeaf, T.cs, restrictA, ha]
        · have hcs : t.cs ≠ [] := by
            intro h; apply hleaf; simp [T.isLeaf, h]
          have hlt := dropPass_size_lt acc t hcs hb
          have hrej : ¬ rejected acc t = true := by simp [rejected, hleaf]
          have ih := dropLoopA_spec acc f (dropPass acc t) (rem ++ rejLeaves acc t) (by omega)
          rw [dropPass_restrictA acc t] at ih
          simp only [hleaf, Bool.false_eq_true, if_false, if_true]
          refine ⟨fun r hr => ?_, fun h => ih.2 h⟩
          obtain ⟨rm, e, p⟩ := ih.1 r hr
          refine ⟨rejLeaves acc t ++ rm, by simpa [List.append_assoc] using e, ?_⟩
          have p2 := dropPass_perm acc t hrej
          calc (rejLeaves acc t ++ rm ++ ids r).Perm (rejLeaves acc t ++ (rm ++ ids r)) := by simp
            _ |>.Perm (rejLeaves acc t ++ ids (dropPass acc t)) := List.Perm.append_left _ p
            _ |>.Perm (ids t) := p2

/-- with enough fuel the loop never stops because of the fuel: whatever it returns has no rejected leaf -/
theorem dropLoop_fix_any (acc : Acc) : ∀ (fuel : Nat) (t : T) (rem : List Nat) (r : T) (rem' : List Nat), t.size ≤ fuel →
    dropLoop acc true fuel t rem = some (r, rem') → rejLeaves acc r = []
  | 0, t, _, _, _, hs, _ => by have := size_pos t; omega
  | f + 1, t, rem, r, rem', hs, h => by
      simp only [dropLoop] at h
      by_cases hb : rejLeaves acc t = []
      · simp [hb] at h; rw [← h.1]; exact hb
      · have hbe : (rejLeaves acc t).isEmpty = false := by
          cases hh : rejLeaves acc t with
          | nil => exact absurd hh hb
          | cons a b => rfl
        simp only [hbe, Bool.false_eq_true, if_false] at h
        by_cases hleaf : t.isLeaf = true
        · simp [hleaf] at h
        · have hcs : t.cs ≠ [] := by
            intro hc; apply hleaf; simp [T.isLeaf, hc]
          have hlt := dropPass_size_lt acc t hcs hb
          simp only [hleaf, Bool.false_eq_true, if_false, if_true] at h
          exact dropLoop_fix_any acc f (dropPass acc t) _ r rem' (by omega) h

mutual
theorem restrictA_eq (acc : Acc) (hN : NoneRej acc) : ∀ t : T, InnerNoTaxon t → restrictA acc t = restrict acc false t
  | .node i x l s [], _ => by simp [restrictA, restrict]
  | .node i x l s (c :: cs), h => by
      simp only [InnerNoTaxon] at h
      have hx : x = none := h.1 (by simp)
      have hl := restrictAL_eq acc hN (c :: cs) h.2
      simp only [restrictA, restrict, hl, hx, hN i]
      generalize restrictL acc false (c :: cs) = ks
      match ks with
      | [] => simp
      | [k] => simp
      | k1 :: k2 :: r => simp
theorem restrictAL_eq (acc : Acc) (hN : NoneRej acc) : ∀ cs : List T, InnerNoTaxonL cs → restrictAL acc cs = restrictL acc false cs
  | [], _ => rfl
  | c :: cs, h => by
      simp only [InnerNoTaxonL] at h
      simp only [restrictAL, restrictL, restrictA_eq acc hN c h.1, restrictAL_eq acc hN cs h.2]
end

end DendroModel.C08.Aux
