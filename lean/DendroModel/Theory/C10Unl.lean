import DendroModel.Model.C10
/-! C10 — `str.lower` never empties a label: the lower-cased form of a non-empty string is non-empty (so a query string never
matches the empty label that stands for "no label"). -/
namespace DendroModel.C10.Aux
open DendroModel DendroModel.C10

theorem lowerSpecial_nonempty : C10Lower.lowerSpecial.all (fun p => !p.2.isEmpty) = true := by decide

theorem lookup_nonempty : ∀ (tbl : List (Nat × List Nat)), tbl.all (fun p => !p.2.isEmpty) = true →
    ∀ n l, tbl.lookup n = some l → l ≠ [] := by
  intro tbl
  induction tbl with
  | nil => intro _ n l h; simp at h
  | cons p r ih =>
    intro hall n l h
    simp only [List.all_cons, Bool.and_eq_true] at hall
    obtain ⟨a, b⟩ := p
    rw [List.lookup_cons] at h
    by_cases e : (n == a) = true
    · simp [e] at h; subst h; intro hl; simp [hl] at hall
    · simp only [Bool.not_eq_true] at e; simp [e] at h; exact ih hall.2 n l h

theorem lowerCp_ne_nil (n : Nat) : lowerCp n ≠ [] := by
  unfold lowerCp
  split
  · next l h => exact lookup_nonempty _ lowerSpecial_nonempty n l h
  · split <;> simp

theorem lowerGo_ne_nil (pre : List Nat) (c : Nat) (rest : List Nat) : lowerGo pre (c :: rest) ≠ [] := by
  unfold lowerGo
  by_cases h : c = C10Lower.capitalSigma
  · simp [h]
  · simp only [if_neg h]; intro e
    exact lowerCp_ne_nil c (List.append_eq_nil_iff.1 e).1

theorem pyLower_ne_empty (q : String) (hq : q ≠ "") : pyLower q ≠ "" := by
  intro h
  have hl : q.toList ≠ [] := by
    intro e; apply hq; apply String.toList_inj.1; simpa using e
  cases hc : q.toList with
  | nil => exact hl hc
  | cons c rest =>
    have : (pyLower q).toList = [] := by rw [h]; rfl
    simp only [pyLower, String.toList_ofList, hc, List.map_cons, List.map_eq_nil_iff] at this
    exact lowerGo_ne_nil [] _ _ this

end DendroModel.C10.Aux
