import DendroModel.Theory.Hier
namespace DendroModel.Hier

-- well-formedness: nonempty masks, siblings pairwise disjoint
mutual
def Good : T → Prop
  | .leaf _ => True
  | .node cs => GoodL cs
def GoodL : List T → Prop
  | [] => True
  | c :: cs => Good c ∧ mask c ≠ 0 ∧ mask c &&& maskL cs = 0 ∧ GoodL cs
end

def Compat (S : Nat) (cl : List Nat) : Prop :=
  ∀ C ∈ cl, C &&& S = 0 ∨ C &&& S = C ∨ C &&& S = S


theorem maskL_append (a b : List T) : maskL (a ++ b) = maskL a ||| maskL b := by
  induction a with
  | nil => simp [maskL]
  | cons c cs ih => simp [maskL, ih, Nat.lor_assoc]

theorem cladesL_append (a b : List T) : cladesL (a ++ b) = cladesL a ++ cladesL b := by
  induction a with
  | nil => simp [cladesL]
  | cons c cs ih => simp [cladesL, ih]

theorem mask_mem_clades : ∀ t : T, mask t ∈ clades t
  | .leaf i => by simp [mask, clades]
  | .node cs => by simp [mask, clades]

theorem bits_maskL_subset_of_mem {c : T} {cs : List T} (h : c ∈ cs) : bits (mask c) ⊆ bits (maskL cs) := by
  induction cs with
  | nil => cases h
  | cons d ds ih =>
    simp [maskL]
    rcases List.mem_cons.mp h with rfl | h'
    · exact Set.subset_union_left
    · exact (ih h').trans Set.subset_union_right

theorem bits_maskL (cs : List T) : bits (maskL cs) = ⋃ c ∈ cs, bits (mask c) := by
  induction cs with
  | nil => simp [maskL]
  | cons d ds ih => simp [maskL, ih]

end DendroModel.Hier
