import DendroModel.Model.C15Ext
/-! C15 — helper lemmas for the in-order recursion and the parent chain of `ancestor_iter`. -/
namespace DendroModel.C15.ExtAux
open DendroModel DendroModel.C15

/-- the in-order recursion with the filter applied per yield = the defining order, filtered; the `TypeError`
cases coincide -/
theorem inRun_eq (keep : T → Bool) : ∀ t : T, inRun keep t = (inord t).map (List.filter keep)
  | .node i x l s [] => by
    by_cases hk : keep (.node i x l s []) <;> simp [inRun, inord, hk]
  | .node i x l s [a, b] => by
    simp only [inRun, inord, inRun_eq keep a, inRun_eq keep b]
    cases inord a <;> cases inord b <;>
      by_cases hk : keep (.node i x l s [a, b]) <;> simp [hk]
  | .node i x l s [a] => by simp [inRun, inord]
  | .node i x l s (a :: b :: c :: r) => by simp [inRun, inord]

theorem upChain_snoc (n : T) : ∀ (q : List T), UpChain q → (∀ c, q.getLast? = some c → c ∈ n.cs) → UpChain (q ++ [n])
  | [], _, _ => by simp [UpChain]
  | [a], _, h => by
    have := h a (by simp)
    simp [UpChain, this]
  | a :: b :: r, hq, h => by
    have ih := upChain_snoc n (b :: r) hq.2 (fun c hc => h c (by simpa using hc))
    exact ⟨hq.1, ih⟩

mutual
theorem ancPath_none (i : Nat) : ∀ t : T, ancPath i t = none → T.find? i t = none
  | .node j x l s cs, h => by
    simp only [ancPath] at h
    by_cases hij : (i == j) = true
    · simp [hij] at h
    · simp only [hij] at h
      cases hq : ancPathL i cs with
      | some q => rw [hq] at h; simp at h
      | none => simp [T.find?, hij, ancPathL_none i cs hq]
theorem ancPathL_none (i : Nat) : ∀ cs : List T, ancPathL i cs = none → T.findL? i cs = none
  | [], _ => by simp [T.findL?]
  | c :: cs, h => by
    simp only [ancPathL] at h
    cases hq : ancPath i c with
    | some q => rw [hq] at h; simp at h
    | none =>
      rw [hq] at h
      simp [T.findL?, ancPath_none i c hq, ancPathL_none i cs h]
end

mutual
theorem ancPath_some (i : Nat) : ∀ (t : T) (p : List T), ancPath i t = some p →
    p ≠ [] ∧ p.head? = T.find? i t ∧ p.getLast? = some t ∧ UpChain p
  | .node j x l s cs, p, h => by
    simp only [ancPath] at h
    by_cases hij : (i == j) = true
    · simp [hij] at h; subst h; simp [T.find?, hij, UpChain]
    · simp only [hij] at h
      cases hq : ancPathL i cs with
      | none => rw [hq] at h; simp at h
      | some q =>
        rw [hq] at h
        simp only [Bool.false_eq_true, if_false, Option.some.injEq] at h
        subst h
        obtain ⟨hne, hhead, ⟨c, hc, hlast⟩, hch⟩ := ancPathL_some i cs q hq
        refine ⟨by simp, ?_, by simp, ?_⟩
        · cases q with
          | nil => exact absurd rfl hne
          | cons a r =>
            simp only [List.head?_cons] at hhead
            simp [T.find?, hij, ← hhead]
        · refine upChain_snoc _ q hch (fun c' hc' => ?_)
          rw [hlast] at hc'
          cases hc'
          simpa [T.cs] using hc
theorem ancPathL_some (i : Nat) : ∀ (cs : List T) (p : List T), ancPathL i cs = some p →
    p ≠ [] ∧ p.head? = T.findL? i cs ∧ (∃ c, c ∈ cs ∧ p.getLast? = some c) ∧ UpChain p
  | [], p, h => by simp [ancPathL] at h
  | c :: cs, p, h => by
    simp only [ancPathL] at h
    cases hq : ancPath i c with
    | some q =>
      rw [hq] at h
      simp only [Option.some.injEq] at h
      subst h
      obtain ⟨hne, hhead, hlast, hch⟩ := ancPath_some i c q hq
      refine ⟨hne, ?_, ⟨c, by simp, hlast⟩, hch⟩
      cases q with
      | nil => exact absurd rfl hne
      | cons a r =>
        simp only [List.head?_cons] at hhead
        simp [T.findL?, ← hhead]
    | none =>
      rw [hq] at h
      obtain ⟨hne, hhead, ⟨c', hc', hlast⟩, hch⟩ := ancPathL_some i cs p h
      have hn := ancPath_none i c hq
      exact ⟨hne, by simp [T.findL?, hn, hhead], ⟨c', by simp [hc'], hlast⟩, hch⟩
end

end DendroModel.C15.ExtAux
