import DendroModel.Model.C15Ext
/-! C15 — level order as the concatenation of generations (explicit depths), and the bracket structure of `br`. -/
namespace DendroModel.C15.LevelAux
open DendroModel DendroModel.C15

theorem genL_nil : ∀ k, genL k [] = []
  | 0 => rfl
  | k + 1 => by simp [genL, genL_nil k]

/-- `bfs` is generation 0, then generation 1, … -/
theorem bfs_eq_gens : ∀ (n : Nat) (level : List T), bfs n level = (List.range n).flatMap (fun k => genL k level)
  | 0, level => by simp [bfs]
  | n + 1, [] => by
    have : ∀ (l : List Nat), l.flatMap (fun k => genL k ([] : List T)) = [] := by
      intro l; induction l with
      | nil => rfl
      | cons a l ih => simp [genL_nil]
    rw [this]; simp [bfs]
  | n + 1, t :: ts => by
    have h1 : bfs (n + 1) (t :: ts) = (t :: ts) ++ bfs n ((t :: ts).flatMap T.cs) := by
      rw [bfs]; simp
    have h2 : (List.range (n + 1)).flatMap (fun k => genL k (t :: ts))
        = genL 0 (t :: ts) ++ (List.range n).flatMap (fun k => genL (k + 1) (t :: ts)) := by
      rw [List.range_succ_eq_map, List.flatMap_cons, List.flatMap_map]
    rw [h1, h2, bfs_eq_gens n]
    rfl

/-- tagging every element of the k-th block with k gives non-decreasing tags when the block indices are non-decreasing -/
theorem tag_pairwise (g : Nat → List T) : ∀ ks : List Nat, ks.Pairwise (· ≤ ·) →
    (ks.flatMap (fun k => (g k).map (fun x => (k, x)))).Pairwise (fun a b => a.1 ≤ b.1)
  | [], _ => by simp
  | k :: ks, h => by
    have hk := List.pairwise_cons.mp h
    rw [List.flatMap_cons, List.pairwise_append]
    refine ⟨?_, tag_pairwise g ks hk.2, ?_⟩
    · rw [List.pairwise_map]
      exact List.pairwise_of_forall (fun _ _ => Nat.le_refl _)
    · intro a ha b hb
      obtain ⟨x, _, rfl⟩ := List.mem_map.mp ha
      obtain ⟨k', hk', hb'⟩ := List.mem_flatMap.mp hb
      obtain ⟨y, _, rfl⟩ := List.mem_map.mp hb'
      exact hk.1 k' hk'

theorem tag_snd (g : Nat → List T) : ∀ ks : List Nat,
    (ks.flatMap (fun k => (g k).map (fun x => (k, x)))).map Prod.snd = ks.flatMap g
  | [] => rfl
  | k :: ks => by simp [tag_snd g ks, Function.comp_def]

theorem tag_mem (g : Nat → List T) (ks : List Nat) (p : Nat × T)
    (h : p ∈ ks.flatMap (fun k => (g k).map (fun x => (k, x)))) : p.2 ∈ g p.1 := by
  obtain ⟨k, _, hp⟩ := List.mem_flatMap.mp h
  obtain ⟨x, hx, rfl⟩ := List.mem_map.mp hp
  exact hx

/-! brackets -/
mutual
theorem dyck_br : ∀ (t : T) (st : List Nat) (rest : List Ev), dyck st (br t ++ rest) = dyck st rest
  | .node i _ _ _ [], st, rest => by simp [br, dyck]
  | .node i _ _ _ (c :: cs), st, rest => by
    simp only [br, List.append_assoc, List.cons_append, List.nil_append, dyck]
    rw [dyck_brL (c :: cs) (i :: st) (Ev.after i :: rest)]
    simp [dyck]
theorem dyck_brL : ∀ (cs : List T) (st : List Nat) (rest : List Ev), dyck st (brL cs ++ rest) = dyck st rest
  | [], st, rest => by simp [brL]
  | c :: cs, st, rest => by
    simp only [brL, List.append_assoc]
    rw [dyck_br c st (brL cs ++ rest), dyck_brL cs st rest]
end

theorem opens_append : ∀ a b : List Ev, opens (a ++ b) = opens a ++ opens b
  | [], b => rfl
  | .before i :: a, b => by simp [opens, opens_append a b]
  | .leaf i :: a, b => by simp [opens, opens_append a b]
  | .after i :: a, b => by simp [opens, opens_append a b]

theorem closes_append : ∀ a b : List Ev, closes (a ++ b) = closes a ++ closes b
  | [], b => rfl
  | .before i :: a, b => by simp [closes, closes_append a b]
  | .leaf i :: a, b => by simp [closes, closes_append a b]
  | .after i :: a, b => by simp [closes, closes_append a b]

mutual
theorem opens_br : ∀ t : T, opens (br t) = (T.nodes t).map T.id
  | .node i x l s [] => by simp [br, opens, T.nodes, T.nodesL, T.id]
  | .node i x l s (c :: cs) => by
    simp only [br, opens_append, opens, T.nodes, List.map_cons, T.id]
    rw [opens_brL (c :: cs)]; simp
theorem opens_brL : ∀ cs : List T, opens (brL cs) = (T.nodesL cs).map T.id
  | [] => by simp [brL, opens, T.nodesL]
  | c :: cs => by simp [brL, opens_append, T.nodesL, opens_br c, opens_brL cs]
end

mutual
theorem closes_br : ∀ t : T, closes (br t) = (post t).map T.id
  | .node i x l s [] => by simp [br, closes, post, postL, T.id]
  | .node i x l s (c :: cs) => by
    simp only [br, closes_append, closes, post, List.map_append, List.map_cons, T.id]
    rw [closes_brL (c :: cs)]; simp
theorem closes_brL : ∀ cs : List T, closes (brL cs) = (postL cs).map T.id
  | [] => by simp [brL, closes, postL]
  | c :: cs => by simp [brL, closes_append, postL, closes_br c, closes_brL cs]
end


/-! zipper refinement of `applyRun` -/

/-- the closer list of `applyRun` is the part of the context the climb walks through -/
def closers : List (Nat × Bool) → List Nat
  | [] => []
  | (p, isLast) :: up => if isLast then p :: closers up else []

theorem climbZip_eq (ctx : List (Nat × Bool)) : climbZip ctx = (closers ctx).map Ev.after := by
  induction ctx with
  | nil => rfl
  | cons a up ih =>
    obtain ⟨p, isLast⟩ := a
    cases isLast <;> simp [climbZip, closers, ih]

def forget (st : List (T × List (Nat × Bool))) : List (T × List Nat) := st.map (fun e => (e.1, closers e.2))

theorem forget_pushZip (i : Nat) (ctx : List (Nat × Bool)) : ∀ cs : List T,
    forget (pushZip i ctx cs) = pushKids i (closers ctx) cs
  | [] => rfl
  | [c] => by simp [forget, pushZip, pushKids, closers]
  | c :: d :: cs => by
    have ih := forget_pushZip i ctx (d :: cs)
    simp only [forget, pushZip, pushKids, List.map_cons, closers] at ih ⊢
    rw [ih]; simp

theorem applyZipRun_eq : ∀ (f : Nat) (st : List (T × List (Nat × Bool))), applyZipRun f st = applyRun f (forget st)
  | 0, st => by simp [applyZipRun, applyRun]
  | f + 1, [] => by simp [applyZipRun, applyRun, forget]
  | f + 1, (.node i x l s [], ctx) :: rest => by
    have ih := applyZipRun_eq f rest
    simp only [forget, List.map_cons] at ih ⊢
    simp only [applyZipRun, applyRun, climbZip_eq, ih]
    simp
  | f + 1, (.node i x l s (c :: cs), ctx) :: rest => by
    have ih := applyZipRun_eq f (pushZip i ctx (c :: cs) ++ rest)
    have hp := forget_pushZip i ctx (c :: cs)
    simp only [forget, List.map_cons, List.map_append] at ih hp ⊢
    simp only [applyZipRun, applyRun, ih, hp]

end DendroModel.C15.LevelAux
