import DendroModel.Model.C01Canon
import DendroModel.Theory.C01Reseed
import Mathlib.Data.String.Basic
/-! C01 — `csort` (children in mask order) is a normal form for `Iso` on well-formed trees: `Iso a b → csort a = csort b`,
and `csort` keeps leafset and clade set, hence `csort a = csort b → Iso a b` on unifurcation-free trees. -/
namespace DendroModel.C01.Bridge
open DendroModel DendroModel.Hier DendroModel.C01

theorem insertByMask_perm (x : Hier.T) : ∀ l : List Hier.T, (insertByMask x l).Perm (x :: l)
  | [] => List.Perm.refl _
  | y :: ys => by
    simp only [insertByMask]; split
    · exact List.Perm.refl _
    · exact ((insertByMask_perm x ys).cons y).trans (List.Perm.swap x y ys)

theorem sortM_perm : ∀ l : List Hier.T, (sortM l).Perm l
  | [] => List.Perm.refl _
  | c :: l => by
    show (insertByMask c (sortM l)).Perm (c :: l)
    exact (insertByMask_perm c _).trans ((sortM_perm l).cons c)

theorem insertByMask_sorted (x : Hier.T) : ∀ l : List Hier.T, l.Pairwise (fun a b => mask a ≤ mask b) →
    (insertByMask x l).Pairwise (fun a b => mask a ≤ mask b)
  | [], _ => by simp [insertByMask]
  | y :: ys, h => by
    rw [List.pairwise_cons] at h
    simp only [insertByMask]; split
    · rename_i hxy
      rw [List.pairwise_cons]
      refine ⟨?_, List.pairwise_cons.mpr h⟩
      intro a ha
      rcases List.mem_cons.mp ha with rfl | ha
      · exact hxy
      · exact Nat.le_trans hxy (h.1 a ha)
    · rename_i hxy
      rw [List.pairwise_cons]
      refine ⟨?_, insertByMask_sorted x ys h.2⟩
      intro a ha
      rcases List.mem_cons.mp ((insertByMask_perm x ys).mem_iff.mp ha) with rfl | ha
      · omega
      · exact h.1 a ha

theorem sortM_sorted : ∀ l : List Hier.T, (sortM l).Pairwise (fun a b => mask a ≤ mask b)
  | [] => List.Pairwise.nil
  | c :: l => insertByMask_sorted c _ (sortM_sorted l)

theorem csortL_eq_map : ∀ cs : List Hier.T, csortL cs = cs.map csort
  | [] => rfl
  | c :: cs => by simp [csortL, csortL_eq_map cs]

theorem maskL_perm {l l' : List Hier.T} (h : l.Perm l') : maskL l = maskL l' := by
  apply bits_inj; rw [bits_maskL, bits_maskL]
  ext x; simp only [Set.mem_iUnion]
  exact ⟨fun ⟨c, hc, hx⟩ => ⟨c, h.mem_iff.mp hc, hx⟩, fun ⟨c, hc, hx⟩ => ⟨c, h.mem_iff.mpr hc, hx⟩⟩

theorem cladesL_perm {l l' : List Hier.T} (h : l.Perm l') (x : Nat) : x ∈ cladesL l ↔ x ∈ cladesL l' := by
  rw [mem_cladesL, mem_cladesL]
  exact ⟨fun ⟨c, hc, hx⟩ => ⟨c, h.mem_iff.mp hc, hx⟩, fun ⟨c, hc, hx⟩ => ⟨c, h.mem_iff.mpr hc, hx⟩⟩

mutual
theorem csort_mask : ∀ t : Hier.T, mask (csort t) = mask t
  | .leaf i => rfl
  | .node cs => by
    simp only [csort, mask]
    rw [maskL_perm (sortM_perm _)]; exact csortL_mask cs
theorem csortL_mask : ∀ cs : List Hier.T, maskL (csortL cs) = maskL cs
  | [] => rfl
  | c :: cs => by simp [csortL, maskL, csort_mask c, csortL_mask cs]
end

mutual
theorem csort_clades : ∀ (t : Hier.T) (x : Nat), x ∈ clades (csort t) ↔ x ∈ clades t
  | .leaf i, x => Iff.rfl
  | .node cs, x => by
    simp only [csort, clades, List.mem_cons]
    rw [maskL_perm (sortM_perm _), csortL_mask, cladesL_perm (sortM_perm _), csortL_clades cs x]
theorem csortL_clades : ∀ (cs : List Hier.T) (x : Nat), x ∈ cladesL (csortL cs) ↔ x ∈ cladesL cs
  | [], x => Iff.rfl
  | c :: cs, x => by simp only [csortL, cladesL, List.mem_append, csort_clades c x, csortL_clades cs x]
end

theorem forall2_map_eq {R : Hier.T → Hier.T → Prop} {f : Hier.T → Hier.T} : ∀ {l1 l2 : List Hier.T}, List.Forall₂ R l1 l2 →
    (∀ a ∈ l1, ∀ b ∈ l2, R a b → f a = f b) → l1.map f = l2.map f
  | _, _, .nil, _ => rfl
  | _, _, .cons (a := a) (b := b) hab hrest, h => by
    simp only [List.map_cons]
    rw [h a (by simp) b (by simp) hab, forall2_map_eq hrest (fun a' ha' b' hb' => h a' (by simp [ha']) b' (by simp [hb']))]

/-- between well-formed sibling lists, `IsoL` (every child has a partner) plus equal length is a matching: the second list
    can be re-ordered so that partners stand at the same position -/
theorem isoL_forall2 : ∀ (cs ds : List Hier.T), GoodL cs → GoodL ds → cs.length = ds.length → IsoL cs ds →
    ∃ ds', ds'.Perm ds ∧ List.Forall₂ Iso cs ds'
  | [], ds, _, _, hl, _ => by
    have : ds = [] := List.length_eq_zero_iff.mp hl.symm
    subst this; exact ⟨[], List.Perm.refl _, .nil⟩
  | c :: cs', ds, hgc, hgd, hl, hiso => by
    simp only [IsoL] at hiso
    obtain ⟨⟨d, hd, hcd⟩, hrest⟩ := hiso
    obtain ⟨l1, l2, rfl⟩ := List.append_of_mem hd
    simp only [GoodL] at hgc
    obtain ⟨g1, g2, g3⟩ := (goodL_append_iff _ _).mp hgd
    simp only [GoodL] at g2
    simp only [maskL] at g3
    have hd12 : maskL l1 &&& maskL l2 = 0 := by
      rw [and_eq_zero_iff, bits_or, Set.disjoint_union_right] at g3; exact (and_eq_zero_iff _ _).mpr g3.2
    have hg2 : GoodL (l1 ++ l2) := (goodL_append_iff _ _).mpr ⟨g1, g2.2.2.2, hd12⟩
    have hmcd : mask c = mask d := (iso_same c d hcd hgc.1 g2.1 hgc.2.1 g2.2.1).1
    have hiso2 : IsoL cs' (l1 ++ l2) := isoL_of_forall (fun c' hc' => by
      obtain ⟨d', hd', hi⟩ := isoL_mem hrest hc'
      refine ⟨d', ?_, hi⟩
      have gc' := goodL_mem hgc.2.2.2 hc'
      have gd' := goodL_mem hgd hd'
      have hm' : mask c' = mask d' := (iso_same c' d' hi gc'.1 gd'.1 gc'.2 gd'.2).1
      have hne : d' ≠ d := by
        intro e; subst e
        have hdis : Disjoint (bits (mask c)) (bits (mask c')) :=
          ((and_eq_zero_iff _ _).mp hgc.2.2.1).mono_right (bits_maskL_subset_of_mem hc')
        rw [hmcd, hm'] at hdis
        obtain ⟨y, hy⟩ := ne_zero_bits gd'.2
        exact (Set.disjoint_left.mp hdis) hy hy
      simp only [List.mem_append, List.mem_cons] at hd' ⊢
      rcases hd' with h | h | h
      · exact Or.inl h
      · exact absurd h hne
      · exact Or.inr h)
    obtain ⟨ds2, hp, hf⟩ := isoL_forall2 cs' (l1 ++ l2) hgc.2.2.2 hg2
      (by simp only [List.length_cons, List.length_append] at hl ⊢; omega) hiso2
    exact ⟨d :: ds2, (hp.cons d).trans List.perm_middle.symm, .cons hcd hf⟩

mutual
/-- `csort` does not see the child order: trees that are the same up to child order have the same normal form -/
theorem csort_iso : ∀ (a b : Hier.T), Iso a b → Good a → Good b → csort a = csort b
  | .leaf i, b, h, _, _ => by simp only [Iso] at h; subst h; rfl
  | .node cs, b, h, hga, hgb => by
    simp only [Iso] at h
    obtain ⟨ds, rfl, hlen, hL⟩ := h
    simp only [Good] at hga hgb
    obtain ⟨ds', hp, hf⟩ := isoL_forall2 cs ds hga hgb hlen hL
    have hmap : cs.map csort = ds'.map csort := forall2_map_eq hf (fun c hc d hd hi =>
      csort_isoL cs c hc d hi (goodL_mem hga hc).1 (goodL_mem hgb (hp.subset hd)).1)
    simp only [csort, csortL_eq_map]
    congr 1
    have hperm : (sortM (cs.map csort)).Perm (sortM (ds.map csort)) := by
      rw [hmap]
      exact (sortM_perm _).trans ((hp.map csort).trans (sortM_perm _).symm)
    apply List.Perm.eq_of_pairwise (le := fun x y => mask x ≤ mask y) ?_ (sortM_sorted _) (sortM_sorted _) hperm
    intro x y hx hy hxy hyx
    have hx' : x ∈ ds.map csort := (sortM_perm _).mem_iff.mp (hperm.mem_iff.mp hx)
    have hy' : y ∈ ds.map csort := (sortM_perm _).mem_iff.mp hy
    obtain ⟨d1, hd1, rfl⟩ := List.mem_map.mp hx'
    obtain ⟨d2, hd2, rfl⟩ := List.mem_map.mp hy'
    rw [csort_mask, csort_mask] at hxy hyx
    have hm : mask d1 = mask d2 := Nat.le_antisymm hxy hyx
    have : d1 = d2 := goodL_eq_of_inter hgb hd1 hd2 (by rw [hm, Nat.and_self]; exact (goodL_mem hgb hd2).2)
    rw [this]
theorem csort_isoL : ∀ (cs : List Hier.T), ∀ c ∈ cs, ∀ d : Hier.T, Iso c d → Good c → Good d → csort c = csort d
  | [], c, hc => by cases hc
  | c0 :: cs, c, hc => by
    intro d h1 h2 h3
    rcases List.mem_cons.mp hc with h | hc'
    · rw [h] at h1 h2 ⊢
      exact csort_iso c0 d h1 h2 h3
    · exact csort_isoL cs c hc' d h1 h2 h3
end

/-- … and conversely: equal normal forms mean equal clade sets, hence (well-formed, unifurcation-free) the same tree up to
    child order -/
theorem iso_of_csort_eq (a b : Hier.T) (hga : Good a) (hgb : Good b) (h0a : mask a ≠ 0) (h0b : mask b ≠ 0)
    (hna : NoUnif a) (hnb : NoUnif b) (h : csort a = csort b) : Iso a b := by
  apply clades_injective a b hga h0a hgb h0b hna hnb
  intro x
  rw [← csort_clades a x, h, csort_clades b x]

theorem csort_eq_iff_iso (a b : Hier.T) (hga : Good a) (hgb : Good b) (h0a : mask a ≠ 0) (h0b : mask b ≠ 0)
    (hna : NoUnif a) (hnb : NoUnif b) : csort a = csort b ↔ Iso a b :=
  ⟨iso_of_csort_eq a b hga hgb h0a h0b hna hnb, fun h => csort_iso a b h hga hgb⟩

/-! ### the string the op `ucanon` prints: insertion sort of the children's strings is permutation-invariant -/

theorem insertSortedStr_perm (x : String) : ∀ l : List String, (insertSortedStr x l).Perm (x :: l)
  | [] => List.Perm.refl _
  | y :: ys => by
    simp only [insertSortedStr]; split
    · exact List.Perm.refl _
    · exact ((insertSortedStr_perm x ys).cons y).trans (List.Perm.swap x y ys)

theorem sortStr_perm : ∀ l : List String, (l.foldr insertSortedStr []).Perm l
  | [] => List.Perm.refl _
  | c :: l => by
    show (insertSortedStr c (l.foldr insertSortedStr [])).Perm (c :: l)
    exact (insertSortedStr_perm c _).trans ((sortStr_perm l).cons c)

theorem insertSortedStr_sorted (x : String) : ∀ l : List String, l.Pairwise (· ≤ ·) → (insertSortedStr x l).Pairwise (· ≤ ·)
  | [], _ => by simp [insertSortedStr]
  | y :: ys, h => by
    rw [List.pairwise_cons] at h
    simp only [insertSortedStr]; split
    · rename_i hxy
      rw [List.pairwise_cons]
      refine ⟨?_, List.pairwise_cons.mpr h⟩
      intro a ha
      rcases List.mem_cons.mp ha with rfl | ha
      · exact hxy
      · exact le_trans hxy (h.1 a ha)
    · rename_i hxy
      rw [List.pairwise_cons]
      refine ⟨?_, insertSortedStr_sorted x ys h.2⟩
      intro a ha
      rcases List.mem_cons.mp ((insertSortedStr_perm x ys).mem_iff.mp ha) with rfl | ha
      · exact (le_total y a).resolve_right hxy
      · exact h.1 a ha

theorem sortStr_sorted : ∀ l : List String, (l.foldr insertSortedStr []).Pairwise (· ≤ ·)
  | [] => List.Pairwise.nil
  | c :: l => insertSortedStr_sorted c _ (sortStr_sorted l)

theorem sortStr_congr {l l' : List String} (h : l.Perm l') : l.foldr insertSortedStr [] = l'.foldr insertSortedStr [] :=
  List.Perm.eq_of_pairwise (le := (· ≤ ·)) (fun _ _ _ _ h1 h2 => le_antisymm h1 h2) (sortStr_sorted l) (sortStr_sorted l')
    ((sortStr_perm l).trans (h.trans (sortStr_perm l').symm))

theorem renderSortedL_eq_map : ∀ cs : List Hier.T, renderSortedL cs = cs.map renderSorted
  | [] => rfl
  | c :: cs => by simp [renderSortedL, renderSortedL_eq_map cs]

theorem forall2_map_eq' {β : Type} {R : Hier.T → Hier.T → Prop} {f : Hier.T → β} : ∀ {l1 l2 : List Hier.T}, List.Forall₂ R l1 l2 →
    (∀ a ∈ l1, ∀ b ∈ l2, R a b → f a = f b) → l1.map f = l2.map f
  | _, _, .nil, _ => rfl
  | _, _, .cons (a := a) (b := b) hab hrest, h => by
    simp only [List.map_cons]
    rw [h a (by simp) b (by simp) hab, forall2_map_eq' hrest (fun a' ha' b' hb' => h a' (by simp [ha']) b' (by simp [hb']))]

mutual
/-- the order-free rendering the driver prints for op `ucanon` does not see child order -/
theorem renderSorted_iso : ∀ (a b : Hier.T), Iso a b → Good a → Good b → renderSorted a = renderSorted b
  | .leaf i, b, h, _, _ => by simp only [Iso] at h; subst h; rfl
  | .node cs, b, h, hga, hgb => by
    simp only [Iso] at h
    obtain ⟨ds, rfl, hlen, hL⟩ := h
    simp only [Good] at hga hgb
    obtain ⟨ds', hp, hf⟩ := isoL_forall2 cs ds hga hgb hlen hL
    have hmap : cs.map renderSorted = ds'.map renderSorted := forall2_map_eq' hf (fun c hc d hd hi =>
      renderSorted_isoL cs c hc d hi (goodL_mem hga hc).1 (goodL_mem hgb (hp.subset hd)).1)
    simp only [renderSorted, renderSortedL_eq_map]
    rw [hmap, sortStr_congr (hp.map renderSorted)]
theorem renderSorted_isoL : ∀ (cs : List Hier.T), ∀ c ∈ cs, ∀ d : Hier.T, Iso c d → Good c → Good d →
    renderSorted c = renderSorted d
  | [], c, hc => by cases hc
  | c0 :: cs, c, hc => by
    intro d h1 h2 h3
    rcases List.mem_cons.mp hc with h | hc'
    · rw [h] at h1 h2 ⊢
      exact renderSorted_iso c0 d h1 h2 h3
    · exact renderSorted_isoL cs c hc' d h1 h2 h3
end

end DendroModel.C01.Bridge
