import DendroModel.Model.C15Gen
import DendroModel.Theory.C15Heap
/-! C15 — the post-order / leaf heap generators are `Local`: they keep their generator number, write only their own
private list and read only the node lists and their own list. -/
namespace DendroModel.C15.GenAux
open DendroModel DendroModel.C15 DendroModel.C15.HeapAux

/-- a filter test that reads node lists only -/
def KidsOnly (want : Heap → Nat → Bool) : Prop := ∀ h h' n, h.kids = h'.kids → want h n = want h' n

theorem poLoop_q (want : Heap → Nat → Bool) : ∀ (f : Nat) (h : Heap) (q : Nat), (poLoop want f h q).2.1.q = q
  | 0, _, _ => rfl
  | f + 1, h, q => by
    unfold poLoop
    split
    · rfl
    · split
      · split
        · rfl
        · exact poLoop_q want f _ q
      · exact poLoop_q want f _ q

theorem poLoop_frame (want : Heap → Nat → Bool) : ∀ (f : Nat) (h : Heap) (q : Nat) (v : List Nat),
    ((poLoop want f h q).1.kids = h.kids ∧ ∀ a, a ≠ q → (poLoop want f h q).1.priv a = h.priv a)
    ∧ ((poLoop want f (h.setPriv q v) q).1.kids = h.kids ∧ ∀ a, a ≠ q → (poLoop want f (h.setPriv q v) q).1.priv a = h.priv a)
  | 0, _, _, _ => ⟨⟨rfl, fun _ _ => rfl⟩, rfl, fun a ha => by simp [poLoop, Heap.setPriv, ha]⟩
  | f + 1, h, q, v => by
    have base : ∀ h : Heap, (poLoop want (f + 1) h q).1.kids = h.kids ∧ ∀ a, a ≠ q → (poLoop want (f + 1) h q).1.priv a = h.priv a := by
      intro h
      unfold poLoop
      split
      · exact ⟨rfl, fun _ _ => rfl⟩
      · split
        · split
          · exact ⟨rfl, fun a ha => by simp [Heap.setPriv, ha]⟩
          · exact (poLoop_frame want f h q _).2
        · exact (poLoop_frame want f h q _).2
    refine ⟨base h, ?_⟩
    have := base (h.setPriv q v)
    exact ⟨this.1, fun a ha => by rw [this.2 a ha]; simp [Heap.setPriv, ha]⟩

theorem poLoop_local (want : Heap → Nat → Bool) (hw : KidsOnly want) : ∀ (f : Nat) (h h' : Heap) (q : Nat),
    Agree q h h' → (poLoop want f h q).2 = (poLoop want f h' q).2 ∧ Agree q (poLoop want f h q).1 (poLoop want f h' q).1
  | 0, _, _, _, ha => ⟨rfl, ha⟩
  | f + 1, h, h', q, ha => by
    obtain ⟨hk, hp⟩ := ha
    unfold poLoop
    rw [← hp]
    split
    · exact ⟨rfl, hk, hp⟩
    · rename_i e rest _
      split
      · rw [← hw h h' (e / 2) hk]
        split
        · exact ⟨rfl, hk, by simp [Heap.setPriv]⟩
        · exact poLoop_local want hw f _ _ q ⟨hk, by simp [Heap.setPriv]⟩
      · exact poLoop_local want hw f _ _ q ⟨hk, by simp [Heap.setPriv, hk]⟩

theorem poNextW_local (want : Heap → Nat → Bool) (hw : KidsOnly want) (fuel : Nat) : Local (poNextW want fuel) := by
  refine ⟨?_, ?_, ?_⟩
  · intro h s; unfold poNextW; split <;> simp [poLoop_q]
  · intro h s
    unfold poNextW
    split
    · exact (poLoop_frame want fuel h s.q _).2
    · exact (poLoop_frame want fuel h s.q _).2
    · exact (poLoop_frame want fuel h s.q []).1
    · exact ⟨rfl, fun _ _ => rfl⟩
  · intro h h' s ha
    unfold poNextW
    split
    · exact poLoop_local want hw fuel _ _ s.q ⟨ha.1, by simp [Heap.setPriv]⟩
    · exact poLoop_local want hw fuel _ _ s.q ⟨ha.1, by simp [Heap.setPriv]⟩
    · exact poLoop_local want hw fuel h h' s.q ha
    · exact ⟨rfl, ha⟩

end DendroModel.C15.GenAux
