import DendroModel.Theory.Hier3
namespace DendroModel.Hier

def Spec (S : Nat) (t t' : T) : Prop :=
  mask t' = mask t ∧ Good t' ∧ ∀ x, x ∈ clades t' ↔ x = S ∨ x ∈ clades t
def SpecL (S : Nat) (cs cs' : List T) : Prop :=
  maskL cs' = maskL cs ∧ GoodL cs' ∧ ∀ x, x ∈ cladesL cs' ↔ x = S ∨ x ∈ cladesL cs

theorem goodL_snoc {out : List T} {d : T} (ho : GoodL out) (hd : Good d) (hd0 : mask d ≠ 0)
    (hdis : ∀ c ∈ out, mask c &&& mask d = 0) : GoodL (out ++ [d]) := by
  induction out with
  | nil => simp [GoodL, hd, hd0, maskL]
  | cons c cs ih =>
    simp [GoodL] at ho
    simp only [List.cons_append, GoodL]
    refine ⟨ho.1, ho.2.1, ?_, ih ho.2.2.2 (fun c' hc' => hdis c' (List.mem_cons_of_mem _ hc'))⟩
    rw [maskL_append, and_eq_zero_iff, bits_or]
    simp only [maskL, Nat.or_zero]
    rw [Set.disjoint_union_right]
    exact ⟨(and_eq_zero_iff _ _).mp ho.2.2.1, (and_eq_zero_iff _ _).mp (hdis c (List.mem_cons_self))⟩

theorem node_caseC (S : Nat) (h0 : S ≠ 0) (cs : List T) (hg : GoodL cs)
    (hsub : S &&& maskL cs = S) (hc : Compat S (clades (.node cs)))
    (hany : ¬ ∃ c ∈ cs, S &&& mask c = S) :
    let inn := cs.filter (fun c => mask c &&& S != 0)
    let out := cs.filter (fun c => mask c &&& S == 0)
    maskL inn = S ∧ Spec S (.node cs) (.node (out ++ [.node inn])) := by
  intro inn out
  have hchild : ∀ c ∈ cs, mask c &&& S = 0 ∨ mask c &&& S = mask c := by
    intro c hcm
    have hmem : mask c ∈ clades (.node cs) := by
      simp [clades]; right; exact (mem_cladesL _ _).mpr ⟨c, hcm, mask_mem_clades c⟩
    rcases hc _ hmem with h | h | h
    · exact Or.inl h
    · exact Or.inr h
    · exfalso; apply hany; exact ⟨c, hcm, by rw [Nat.and_comm]; exact h⟩
  have hinn_mem : ∀ c, c ∈ inn ↔ c ∈ cs ∧ mask c &&& S ≠ 0 := by
    intro c; simp [inn, List.mem_filter]
  have hout_mem : ∀ c, c ∈ out ↔ c ∈ cs ∧ mask c &&& S = 0 := by
    intro c; simp [out, List.mem_filter]
  have hinnS : maskL inn = S := by
    apply bits_inj
    rw [bits_maskL]
    apply Set.Subset.antisymm
    · intro x hx
      simp only [Set.mem_iUnion] at hx
      rcases hx with ⟨c, hci, hxc⟩
      have ⟨hcs, hne⟩ := (hinn_mem c).mp hci
      rcases hchild c hcs with h | h
      · exact absurd h hne
      · have := (and_eq_left_iff _ _).mp h
        exact this hxc
    · intro x hx
      have hx' : x ∈ bits (maskL cs) := (sub_of_and_eq hsub) hx
      rw [bits_maskL] at hx'
      simp only [Set.mem_iUnion] at hx' ⊢
      rcases hx' with ⟨c, hcs, hxc⟩
      refine ⟨c, (hinn_mem c).mpr ⟨hcs, ?_⟩, hxc⟩
      intro hz
      have hd := (and_eq_zero_iff _ _).mp hz
      exact (Set.disjoint_left.mp hd) hxc hx
  refine ⟨hinnS, ?_, ?_, ?_⟩
  · -- mask
    simp only [mask]
    apply bits_inj
    rw [maskL_append, bits_or]
    simp only [maskL, mask, Nat.or_zero]
    rw [bits_maskL, bits_maskL, bits_maskL]
    ext x
    simp only [Set.mem_union, Set.mem_iUnion]
    constructor
    · rintro (⟨c, hc', hx⟩ | ⟨c, hc', hx⟩)
      · exact ⟨c, ((hout_mem c).mp hc').1, hx⟩
      · exact ⟨c, ((hinn_mem c).mp hc').1, hx⟩
    · rintro ⟨c, hc', hx⟩
      by_cases hz : mask c &&& S = 0
      · exact Or.inl ⟨c, (hout_mem c).mpr ⟨hc', hz⟩, hx⟩
      · exact Or.inr ⟨c, (hinn_mem c).mpr ⟨hc', hz⟩, hx⟩
  · -- Good
    simp only [Good]
    apply goodL_snoc (goodL_filter _ hg)
    · simp only [Good]; exact goodL_filter _ hg
    · simp only [mask]; rw [hinnS]; exact h0
    · intro c hc'
      simp only [mask]; rw [hinnS]
      exact ((hout_mem c).mp hc').2
  · -- clades
    intro x
    simp only [clades, List.mem_cons]
    rw [cladesL_append]
    simp only [List.mem_append, cladesL, clades, List.append_nil, List.mem_cons]
    rw [hinnS]
    have hroot : maskL (out ++ [T.node inn]) = maskL cs := by
      apply bits_inj
      rw [maskL_append, bits_or]
      simp only [maskL, mask, Nat.or_zero]
      rw [bits_maskL, bits_maskL, bits_maskL]
      ext y
      simp only [Set.mem_union, Set.mem_iUnion]
      constructor
      · rintro (⟨c, hc', hx⟩ | ⟨c, hc', hx⟩)
        · exact ⟨c, ((hout_mem c).mp hc').1, hx⟩
        · exact ⟨c, ((hinn_mem c).mp hc').1, hx⟩
      · rintro ⟨c, hc', hx⟩
        by_cases hz : mask c &&& S = 0
        · exact Or.inl ⟨c, (hout_mem c).mpr ⟨hc', hz⟩, hx⟩
        · exact Or.inr ⟨c, (hinn_mem c).mpr ⟨hc', hz⟩, hx⟩
    rw [hroot]
    rw [mem_cladesL, mem_cladesL, mem_cladesL]
    constructor
    · rintro (h | ⟨c, hc', hx⟩ | h | ⟨c, hc', hx⟩)
      · exact Or.inr (Or.inl h)
      · exact Or.inr (Or.inr ⟨c, ((hout_mem c).mp hc').1, hx⟩)
      · exact Or.inl h
      · exact Or.inr (Or.inr ⟨c, ((hinn_mem c).mp hc').1, hx⟩)
    · rintro (h | h | ⟨c, hc', hx⟩)
      · exact Or.inr (Or.inr (Or.inl h))
      · exact Or.inl h
      · by_cases hz : mask c &&& S = 0
        · exact Or.inr (Or.inl ⟨c, (hout_mem c).mpr ⟨hc', hz⟩, hx⟩)
        · exact Or.inr (Or.inr (Or.inr ⟨c, (hinn_mem c).mpr ⟨hc', hz⟩, hx⟩))


theorem compat_sub {S : Nat} {a b : List Nat} (h : Compat S b) (hab : ∀ x ∈ a, x ∈ b) : Compat S a :=
  fun C hC => h C (hab C hC)

mutual
theorem ins_spec (S : Nat) (h0 : S ≠ 0) : ∀ t : T, Good t → S &&& mask t = S →
    Compat S (clades t) → S ∉ clades t → Spec S t (ins S t)
  | .leaf i => by
      intro _ hsub _ hnot
      exfalso; apply hnot
      simp only [mask] at hsub
      simp [clades, leaf_case S i h0 hsub]
  | .node cs => by
      intro hg hsub hc hnot
      simp only [Good] at hg
      simp only [mask] at hsub
      by_cases hany : ∃ c ∈ cs, S &&& mask c = S
      · have hany' : cs.any (fun c => S &&& mask c == S) = true := by
          simp only [List.any_eq_true, beq_iff_eq]; exact hany
        have hnotL : S ∉ cladesL cs := by
          intro h; apply hnot; simp [clades, h]
        have hcL : Compat S (cladesL cs) := compat_sub hc (by intro x hx; simp [clades, hx])
        have ⟨hm, hgd, hcl⟩ := insL_spec S h0 cs hg hany hcL hnotL
        simp only [ins, hany', if_true]
        refine ⟨by simp [mask, hm], by simpa [Good] using hgd, ?_⟩
        intro x
        simp only [clades, List.mem_cons, hm, hcl]
        tauto
      · have hany' : cs.any (fun c => S &&& mask c == S) = false := by
          rw [Bool.eq_false_iff]; intro h
          simp only [List.any_eq_true, beq_iff_eq] at h; exact hany h
        have hroot : ¬ (maskL cs = S) := by
          intro h; apply hnot; simp [clades, h]
        have hroot' : (maskL cs == S) = false := by simpa using hroot
        have ⟨hinn, hspec⟩ := node_caseC S h0 cs hg hsub hc hany
        simp only [ins, hany', hroot', hinn, beq_self_eq_true, if_true, Bool.false_eq_true, if_false]
        exact hspec
theorem insL_spec (S : Nat) (h0 : S ≠ 0) : ∀ cs : List T, GoodL cs → (∃ c ∈ cs, S &&& mask c = S) →
    Compat S (cladesL cs) → S ∉ cladesL cs → SpecL S cs (insL S cs)
  | [] => by intro _ h; rcases h with ⟨c, hc, _⟩; cases hc
  | c :: cs => by
      intro hg hex hc hnot
      simp only [GoodL] at hg
      by_cases hhd : S &&& mask c = S
      · have hhd' : (S &&& mask c == S) = true := by simpa using hhd
        have hcc : Compat S (clades c) := compat_sub hc (by intro x hx; simp [cladesL, hx])
        have hnc : S ∉ clades c := by intro h; apply hnot; simp [cladesL, h]
        have ⟨hm, hgd, hcl⟩ := ins_spec S h0 c hg.1 hhd hcc hnc
        simp only [insL, hhd', if_true]
        refine ⟨by simp [maskL, hm], ?_, ?_⟩
        · simp only [GoodL]; exact ⟨hgd, by rw [hm]; exact hg.2.1, by rw [hm]; exact hg.2.2.1, hg.2.2.2⟩
        · intro x; simp only [cladesL, List.mem_append, hcl]; tauto
      · have hhd' : (S &&& mask c == S) = false := by simpa using hhd
        have hex' : ∃ c' ∈ cs, S &&& mask c' = S := by
          rcases hex with ⟨d, hd, hds⟩
          rcases List.mem_cons.mp hd with rfl | hd'
          · exact absurd hds hhd
          · exact ⟨d, hd', hds⟩
        have hcc : Compat S (cladesL cs) := compat_sub hc (by intro x hx; simp [cladesL, hx])
        have hnc : S ∉ cladesL cs := by intro h; apply hnot; simp [cladesL, h]
        have ⟨hm, hgd, hcl⟩ := insL_spec S h0 cs hg.2.2.2 hex' hcc hnc
        simp only [insL, hhd', Bool.false_eq_true, if_false]
        refine ⟨by simp [maskL, hm], ?_, ?_⟩
        · simp only [GoodL]; exact ⟨hg.1, hg.2.1, by rw [hm]; exact hg.2.2.1, hgd⟩
        · intro x; simp only [cladesL, List.mem_append, hcl]; tauto
end

end DendroModel.Hier
