import DendroModel.Model.C11
import DendroModel.Theory.C11Fresh
import DendroModel.Theory.C11Pass
import DendroModel.Gen.C11Kernels
/-! C11 — theorems about the store model of `Model/C11.lean` (the definitions the driver `drv_c11` runs). -/
namespace DendroModel.C11.Aux
open DendroModel.C11

/-- only namespaces changed, and they only gained members -/
structure Grows (s s' : Store) : Prop where
  tree : s'.tree = s.tree
  nTree : s'.nTree = s.nTree
  tl : s'.tl = s.tl
  nTl : s'.nTl = s.nTl
  mat : s'.mat = s.mat
  nMat : s'.nMat = s.nMat
  ds : s'.ds = s.ds
  nDs : s'.nDs = s.nDs
  mem : ∀ n x, x ∈ mem s n → x ∈ mem s' n

theorem Grows.refl (s : Store) : Grows s s := ⟨rfl, rfl, rfl, rfl, rfl, rfl, rfl, rfl, fun _ _ h => h⟩

theorem Grows.trans {a b c : Store} (h1 : Grows a b) (h2 : Grows b c) : Grows a c :=
  ⟨h2.tree.trans h1.tree, h2.nTree.trans h1.nTree, h2.tl.trans h1.tl, h2.nTl.trans h1.nTl,
   h2.mat.trans h1.mat, h2.nMat.trans h1.nMat, h2.ds.trans h1.ds, h2.nDs.trans h1.nDs,
   fun n x h => h2.mem n x (h1.mem n x h)⟩

theorem mem_upd_members (s : Store) (n : Nat) (v : NS) (n' : Nat) :
    (upd s.ns n v n').members = if n' = n then v.members else (s.ns n').members := by
  unfold upd; split <;> rfl

theorem grows_addMember (s : Store) (n x : Nat) : Grows s (addMember s n x) := by
  unfold addMember
  split
  · exact Grows.refl s
  · refine ⟨rfl, rfl, rfl, rfl, rfl, rfl, rfl, rfl, ?_⟩
    intro n' y hy
    simp only [mem, mem_upd_members] at *
    split
    · subst_vars; simp [hy]
    · exact hy

theorem mem_addMember (s : Store) (n x : Nat) : x ∈ mem (addMember s n x) n := by
  unfold addMember
  split
  · assumption
  · simp [mem, upd]

theorem grows_newTaxon (s : Store) (n : Nat) (l : String) : Grows s (newTaxon s n l).1 := by
  unfold newTaxon
  refine ⟨rfl, rfl, rfl, rfl, rfl, rfl, rfl, rfl, ?_⟩
  intro n' y hy
  simp only [mem, mem_upd_members] at *
  split
  · subst_vars; simp [hy]
  · exact hy

theorem mem_newTaxon (s : Store) (n : Nat) (l : String) : (newTaxon s n l).2 ∈ mem (newTaxon s n l).1 n := by
  simp [newTaxon, mem, upd]

theorem lookupFirst_mem {s : Store} {n : Nat} {cs : Bool} {l : String} {x : Nat}
    (h : lookupFirst s n cs l = some x) : x ∈ mem s n := by
  unfold lookupFirst at h
  exact List.mem_of_find?_eq_some h

theorem grows_require (s : Store) (n : Nat) (cs : Bool) (l : String) : Grows s (require s n cs l).1 := by
  unfold require
  split
  · exact Grows.refl s
  · exact grows_newTaxon s n l

theorem mem_require (s : Store) (n : Nat) (cs : Bool) (l : String) :
    (require s n cs l).2 ∈ mem (require s n cs l).1 n := by
  unfold require
  split
  · next x h => exact lookupFirst_mem h
  · exact mem_newTaxon s n l

theorem grows_mapOne (s : Store) (n : Nat) (u : Bool) (m : Memo) (x : Nat) : Grows s (mapOne s n u m x).1 := by
  unfold mapOne
  split
  · split
    · exact grows_addMember _ _ _
    · split
      · exact grows_require _ _ _ _
      · exact grows_newTaxon _ _ _
  · exact Grows.refl s

theorem mem_mapOne (s : Store) (n : Nat) (u : Bool) (m : Memo) (x : Nat) :
    (mapOne s n u m x).2.2 ∈ mem (mapOne s n u m x).1 n := by
  unfold mapOne
  split
  · split
    · exact mem_addMember _ _ _
    · split
      · exact mem_require _ _ _ _
      · exact mem_newTaxon _ _ _
  · next h =>
    simp at h
    simpa using h.2

theorem grows_mapTaxa (n : Nat) (u : Bool) : ∀ (xs : List (Option Nat)) (s : Store) (m : Memo),
    Grows s (mapTaxa s n u m xs).1
  | [], s, m => Grows.refl s
  | none :: xs, s, m => by simpa [mapTaxa] using grows_mapTaxa n u xs s m
  | some x :: xs, s, m => by
    simp only [mapTaxa]
    exact (grows_mapOne s n u m x).trans (grows_mapTaxa n u xs _ _)

/-- every taxon a migrated tree refers to is a member of the target namespace -/
theorem mem_mapTaxa (n : Nat) (u : Bool) : ∀ (xs : List (Option Nat)) (s : Store) (m : Memo) (y : Nat),
    some y ∈ (mapTaxa s n u m xs).2.2 → y ∈ mem (mapTaxa s n u m xs).1 n
  | [], s, m, y => by simp [mapTaxa]
  | none :: xs, s, m, y => by
    simp only [mapTaxa]
    intro h
    simp at h
    exact mem_mapTaxa n u xs s m y h
  | some x :: xs, s, m, y => by
    simp only [mapTaxa]
    intro h
    simp at h
    rcases h with h | h
    · subst h
      exact (grows_mapTaxa n u xs _ _).mem _ _ (mem_mapOne s n u m x)
    · exact mem_mapTaxa n u xs _ _ y h


/-! ## the closure invariant -/

/-- clauses (a) and (c) of the statement on a store -/
structure Closed (s : Store) : Prop where
  /-- (c) every tree, member of a list or not, refers only to members of its own namespace -/
  treeOk : ∀ t x, some x ∈ (s.tree t).taxa → x ∈ mem s (s.tree t).ns
  /-- (a) every sequence key of a matrix is a member of the matrix's namespace -/
  matOk : ∀ m x, x ∈ (s.mat m).keys → x ∈ mem s (s.mat m).ns
  /-- (a) every tree of a tree list refers to the list's namespace object -/
  listOk : ∀ l t, t ∈ (s.tl l).trees → (s.tree t).ns = (s.tl l).ns
  /-- (a) every component of a data set with an attached namespace refers to it -/
  dsOk : ∀ d a, (s.ds d).att = some a →
    (∀ l, l ∈ (s.ds d).tls → (s.tl l).ns = a) ∧ (∀ m, m ∈ (s.ds d).mats → (s.mat m).ns = a)

/-- `Closed` + the allocation discipline (ids at or above a counter are blank / unreferenced) -/
structure Inv (s : Store) : Prop extends Closed s where
  tlBlank : ∀ l, s.nTl ≤ l → (s.tl l).trees = []
  dsBlank : ∀ d, s.nDs ≤ d → (s.ds d).tls = [] ∧ (s.ds d).mats = []
  treeLt : ∀ l t, t ∈ (s.tl l).trees → t < s.nTree
  dsLt : ∀ d, (∀ l, l ∈ (s.ds d).tls → l < s.nTl) ∧ (∀ m, m ∈ (s.ds d).mats → m < s.nMat)

theorem inv_init : Inv init := by
  refine ⟨⟨?_, ?_, ?_, ?_⟩, ?_, ?_, ?_, ?_⟩ <;> simp [init]

theorem inv_grows {s s' : Store} (g : Grows s s') (h : Inv s) : Inv s' := by
  obtain ⟨⟨h1, h2, h3, h4⟩, h5, h6, h7, h8⟩ := h
  refine ⟨⟨?_, ?_, ?_, ?_⟩, ?_, ?_, ?_, ?_⟩
  · intro t x hx; rw [g.tree] at hx ⊢; exact g.mem _ _ (h1 t x hx)
  · intro m x hx; rw [g.mat] at hx ⊢; exact g.mem _ _ (h2 m x hx)
  · intro l t ht; rw [g.tl] at ht ⊢; rw [g.tree]; exact h3 l t ht
  · intro d a ha; rw [g.ds] at ha ⊢; rw [g.tl, g.mat]; exact h4 d a ha
  · intro l hl; rw [g.tl]; rw [g.nTl] at hl; exact h5 l hl
  · intro d hd; rw [g.ds]; rw [g.nDs] at hd; exact h6 d hd
  · intro l t ht; rw [g.tl] at ht; rw [g.nTree]; exact h7 l t ht
  · intro d; rw [g.ds, g.nTl, g.nMat]; exact h8 d

/-- re-binding / rewriting tree `t`: allowed when its new taxa are members and every list holding it has that namespace -/
theorem inv_setTree {s : Store} (h : Inv s) (t : Nat) (v : Tree)
    (hv : ∀ x, some x ∈ v.taxa → x ∈ mem s v.ns)
    (hl : ∀ l, t ∈ (s.tl l).trees → (s.tl l).ns = v.ns) : Inv (setTree s t v) := by
  obtain ⟨⟨h1, h2, h3, h4⟩, h5, h6, h7, h8⟩ := h
  refine ⟨⟨?_, h2, ?_, h4⟩, h5, h6, h7, h8⟩
  · intro t' x hx
    simp only [setTree, upd] at hx ⊢
    split at hx
    · next e => simp only [e, if_true]; exact hv x hx
    · next e => simp only [e, if_false]; exact h1 t' x hx
  · intro l t' ht'
    simp only [setTree, upd] at ht' ⊢
    split
    · next e => subst e; exact (hl l ht').symm
    · exact h3 l t' ht'

theorem inv_allocTree {s : Store} (h : Inv s) (v : Tree)
    (hv : ∀ x, some x ∈ v.taxa → x ∈ mem s v.ns) : Inv (allocTree s v).1 := by
  have h7 := h.treeLt
  have := inv_setTree h s.nTree v hv (fun l hl => absurd (h7 l _ hl) (Nat.lt_irrefl _))
  obtain ⟨⟨h1, h2, h3, h4⟩, h5, h6, h7', h8⟩ := this
  exact ⟨⟨h1, h2, h3, h4⟩, h5, h6, fun l t ht => Nat.lt_succ_of_lt (h7' l t ht), h8⟩

theorem allocTree_grows_like (s : Store) (v : Tree) :
    (allocTree s v).1.tl = s.tl ∧ (allocTree s v).1.ns = s.ns ∧ (allocTree s v).1.nTl = s.nTl
    ∧ (allocTree s v).1.tree (allocTree s v).2 = v ∧ (allocTree s v).2 = s.nTree
    ∧ (allocTree s v).1.nTree = s.nTree + 1 ∧ (∀ t, t ≠ s.nTree → (allocTree s v).1.tree t = s.tree t) := by
  simp [allocTree, upd]
  intro t ht; simp [ht]

/-- editing the tree sequence of list `l` -/
theorem inv_setTrees {s : Store} (h : Inv s) (l : Nat) (ts : List Nat) (hl : l < s.nTl)
    (hts : ∀ t, t ∈ ts → (s.tree t).ns = (s.tl l).ns ∧ t < s.nTree) : Inv (setTrees s l ts) := by
  obtain ⟨⟨h1, h2, h3, h4⟩, h5, h6, h7, h8⟩ := h
  refine ⟨⟨h1, h2, ?_, ?_⟩, ?_, h6, ?_, h8⟩
  · intro l' t ht
    simp only [setTrees, upd] at ht ⊢
    split at ht
    · next e => simp only [e, if_true]; subst e; exact (hts t ht).1
    · next e => simp only [e, if_false]; exact h3 l' t ht
  · intro d a ha
    have := h4 d a ha
    refine ⟨fun l' hl' => ?_, this.2⟩
    simp only [setTrees, upd]
    split
    · next e => subst e; exact this.1 _ hl'
    · exact this.1 _ hl'
  · intro l' hl'
    simp only [setTrees, upd]
    split
    · next e => subst e; exact absurd hl (Nat.not_lt.mpr hl')
    · exact h5 l' hl'
  · intro l' t ht
    simp only [setTrees, upd] at ht ⊢
    split at ht
    · exact (hts t ht).2
    · exact h7 l' t ht

theorem mem_splice {xs new : List Nat} {a b t : Nat} (h : t ∈ splice xs a b new) : t ∈ xs ∨ t ∈ new := by
  simp only [splice, List.mem_append] at h
  rcases h with (h | h) | h
  · exact Or.inl (List.mem_of_mem_take h)
  · exact Or.inr h
  · exact Or.inl (List.mem_of_mem_drop h)


/-! ## importing original trees (`_import_tree_to_taxon_namespace`) -/

def addAll (n : Nat) (s : Store) (xs : List (Option Nat)) : Store :=
  xs.foldl (fun acc x => match x with | some x => addMember acc n x | none => acc) s

theorem grows_addAll (n : Nat) : ∀ (xs : List (Option Nat)) (s : Store), Grows s (addAll n s xs)
  | [], s => Grows.refl s
  | none :: xs, s => by simpa [addAll] using grows_addAll n xs s
  | some x :: xs, s => by
    simp only [addAll, List.foldl_cons]
    exact (grows_addMember s n x).trans (grows_addAll n xs _)

theorem mem_addAll (n : Nat) : ∀ (xs : List (Option Nat)) (s : Store) (y : Nat), some y ∈ xs → y ∈ mem (addAll n s xs) n
  | [], s, y => by simp
  | none :: xs, s, y => by
    intro h; simp at h
    simpa [addAll] using mem_addAll n xs s y h
  | some x :: xs, s, y => by
    intro h; simp at h
    simp only [addAll, List.foldl_cons]
    rcases h with h | h
    · subst h; exact (grows_addAll n xs _).mem _ _ (mem_addMember s n y)
    · exact mem_addAll n xs _ y h

/-- what a tree-import phase leaves untouched -/
structure TFrame (s s' : Store) : Prop where
  tl : s'.tl = s.tl
  nTl : s'.nTl = s.nTl
  nTree : s'.nTree = s.nTree

theorem TFrame.refl (s : Store) : TFrame s s := ⟨rfl, rfl, rfl⟩
theorem TFrame.trans {a b c : Store} (h1 : TFrame a b) (h2 : TFrame b c) : TFrame a c :=
  ⟨h2.tl.trans h1.tl, h2.nTl.trans h1.nTl, h2.nTree.trans h1.nTree⟩
theorem Grows.tframe {s s' : Store} (g : Grows s s') : TFrame s s' := ⟨g.tl, g.nTl, g.nTree⟩

theorem inv_importTree {s : Store} (h : Inv s) (n : Nat) (st : Strat) (t : Nat)
    (hok : (s.tree t).ns = n ∨ ∀ l, t ∉ (s.tl l).trees) :
    Inv (importTree s n st t) ∧ TFrame s (importTree s n st t) ∧ ((importTree s n st t).tree t).ns = n
      ∧ ∀ t', t' ≠ t → (importTree s n st t).tree t' = s.tree t' := by
  unfold importTree
  split
  · next e => exact ⟨h, TFrame.refl s, e, fun _ _ => rfl⟩
  · next ne =>
    have free : ∀ l, t ∉ (s.tl l).trees := by
      rcases hok with e | f
      · exact absurd e ne
      · exact f
    cases st with
    | migrate =>
      simp only [migrateTree]
      have g := grows_mapTaxa n true (s.tree t).taxa s []
      refine ⟨?_, ?_, ?_, ?_⟩
      · apply inv_setTree (inv_grows g h)
        · intro x hx; exact mem_mapTaxa n true _ s [] x hx
        · intro l hl; rw [g.tl] at hl; exact absurd hl (free l)
      · exact ⟨g.tl, g.nTl, g.nTree⟩
      · simp [setTree, upd]
      · intro t' ht'; simp [setTree, upd, ht', g.tree]
    | add =>
      simp only [addTree]
      have g := grows_addAll n (s.tree t).taxa s
      refine ⟨?_, ?_, ?_, ?_⟩
      · apply inv_setTree (inv_grows g h)
        · intro x hx; exact mem_addAll n _ s x hx
        · intro l hl
          rw [g.tl] at hl; exact absurd hl (free l)
      · exact ⟨g.tl, g.nTl, g.nTree⟩
      · simp [setTree, upd]
      · intro t' ht'
        simp only [setTree, upd, ht', if_false]
        exact congrFun g.tree t'

theorem inv_importTrees (n : Nat) (st : Strat) : ∀ (ts : List Nat) {s : Store}, Inv s →
    (∀ t, t ∈ ts → (s.tree t).ns = n ∨ ∀ l, t ∉ (s.tl l).trees) →
    Inv (importTrees s n st ts) ∧ TFrame s (importTrees s n st ts)
      ∧ (∀ t, t ∈ ts → ((importTrees s n st ts).tree t).ns = n)
      ∧ (∀ t, ((importTrees s n st ts).tree t).ns = (s.tree t).ns ∨ ((importTrees s n st ts).tree t).ns = n)
  | [], s, h, _ => ⟨h, TFrame.refl s, by simp, fun _ => Or.inl rfl⟩
  | t :: ts, s, h, hok => by
    simp only [importTrees]
    obtain ⟨i1, f1, e1, o1⟩ := inv_importTree h n st t (hok t (by simp))
    have hok' : ∀ t', t' ∈ ts → ((importTree s n st t).tree t').ns = n ∨ ∀ l, t' ∉ ((importTree s n st t).tl l).trees := by
      intro t' ht'
      by_cases e : t' = t
      · subst e; exact Or.inl e1
      · rw [o1 t' e, f1.tl]; exact hok t' (by simp [ht'])
    obtain ⟨i2, f2, e2, o2⟩ := inv_importTrees n st ts i1 hok'
    refine ⟨i2, f1.trans f2, ?_, ?_⟩
    · intro t' ht'
      simp at ht'
      rcases ht' with e | ht'
      · subst e
        rcases o2 t' with o | o
        · rw [o]; exact e1
        · exact o
      · exact e2 t' ht'
    · intro t'
      rcases o2 t' with o | o
      · by_cases e : t' = t
        · subst e; right; rw [o]; exact e1
        · left; rw [o, o1 t' e]
      · exact Or.inr o

/-- `append`, `insert`, `[]=`, slice assignment and `extend` with original trees -/
theorem inv_spliceT {s : Store} (h : Inv s) (l a b : Nat) (st : Strat) (ts : List Nat) (hl : l < s.nTl)
    (hok : ∀ t, t ∈ ts → ((s.tree t).ns = (s.tl l).ns ∨ ∀ l', t ∉ (s.tl l').trees) ∧ t < s.nTree) :
    Inv (spliceT s l a b st ts) := by
  simp only [spliceT]
  obtain ⟨i, f, e, o⟩ := inv_importTrees (s.tl l).ns st ts h (fun t ht => (hok t ht).1)
  apply inv_setTrees i l _ (by rw [f.nTl]; exact hl)
  intro t ht
  rw [f.tl, f.nTree]
  rcases mem_splice ht with ht | ht
  · rw [f.tl] at ht
    refine ⟨?_, h.treeLt l t ht⟩
    rcases o t with o | o
    · rw [o]; exact h.listOk l t ht
    · exact o
  · exact ⟨e t ht, (hok t ht).2⟩


/-! ## copies (`Tree(t, taxon_namespace=ns)`) -/

theorem grows_cloneMemo (tgt : Nat) : ∀ (xs : List Nat) (s : Store), Grows s (cloneMemo s tgt xs).1
  | [], s => Grows.refl s
  | x :: xs, s => by
    simp only [cloneMemo]
    exact (grows_require _ _ _ _).trans (grows_cloneMemo tgt xs _)

theorem mem_cloneMemo (tgt : Nat) : ∀ (xs : List Nat) (s : Store) (y : Nat), y ∈ xs →
    applyMemo (cloneMemo s tgt xs).2 y ∈ mem (cloneMemo s tgt xs).1 tgt
  | [], s, y => by simp
  | x :: xs, s, y => by
    intro hy
    simp only [cloneMemo, applyMemo, memoGet, List.find?_cons]
    by_cases e : x = y
    · subst e
      simp
      exact (grows_cloneMemo tgt xs _).mem _ _ (mem_require _ _ _ _)
    · have hy' : y ∈ xs := by
        simp at hy
        rcases hy with hy | hy
        · exact absurd hy.symm e
        · exact hy
      have : (x == y) = false := by simp [e]
      simp only [this]
      exact mem_cloneMemo tgt xs _ y hy'

/-- what a copying phase leaves untouched -/
structure CFrame (s s' : Store) : Prop where
  tl : s'.tl = s.tl
  nTl : s'.nTl = s.nTl
  nTree : s.nTree ≤ s'.nTree
  old : ∀ t, t < s.nTree → s'.tree t = s.tree t

theorem CFrame.refl (s : Store) : CFrame s s := ⟨rfl, rfl, Nat.le_refl _, fun _ _ => rfl⟩
theorem CFrame.trans {a b c : Store} (h1 : CFrame a b) (h2 : CFrame b c) : CFrame a c :=
  ⟨h2.tl.trans h1.tl, h2.nTl.trans h1.nTl, Nat.le_trans h1.nTree h2.nTree,
   fun t ht => (h2.old t (Nat.lt_of_lt_of_le ht h1.nTree)).trans (h1.old t ht)⟩

theorem cframe_allocTree (s : Store) (v : Tree) : CFrame s (allocTree s v).1 := by
  refine ⟨rfl, rfl, Nat.le_succ _, ?_⟩
  intro t ht
  simp [allocTree, upd, Nat.ne_of_lt ht]

theorem Grows.cframe {s s' : Store} (g : Grows s s') : CFrame s s' :=
  ⟨g.tl, g.nTl, Nat.le_of_eq g.nTree.symm, fun t _ => congrFun g.tree t⟩

theorem inv_cloneTree {s : Store} (h : Inv s) (src n : Nat) :
    Inv (cloneTree s src n).1 ∧ CFrame s (cloneTree s src n).1
      ∧ ((cloneTree s src n).1.tree (cloneTree s src n).2).ns = n
      ∧ (cloneTree s src n).2 < (cloneTree s src n).1.nTree := by
  unfold cloneTree
  simp only []
  split
  · next e =>
    refine ⟨inv_allocTree h _ (h.treeOk src), cframe_allocTree _ _, ?_, ?_⟩
    · simp [allocTree, upd, e]
    · simp [allocTree]
  · have g := grows_cloneMemo n (mem s (s.tree src).ns) s
    refine ⟨inv_allocTree (inv_grows g h) _ ?_, g.cframe.trans (cframe_allocTree _ _), ?_, ?_⟩
    · intro x hx
      simp only [List.mem_map] at hx
      obtain ⟨o, ho, e⟩ := hx
      cases o with
      | none => simp at e
      | some y =>
        simp at e
        subst e
        exact mem_cloneMemo n _ s y (h.treeOk src y ho)
    · simp [allocTree, upd]
    · simp [allocTree]

theorem inv_cloneTrees (n : Nat) : ∀ (ts : List Nat) {s : Store}, Inv s →
    Inv (cloneTrees s n ts).1 ∧ CFrame s (cloneTrees s n ts).1
      ∧ ∀ t, t ∈ (cloneTrees s n ts).2 → ((cloneTrees s n ts).1.tree t).ns = n ∧ t < (cloneTrees s n ts).1.nTree
  | [], s, h => ⟨h, CFrame.refl s, by simp [cloneTrees]⟩
  | t :: ts, s, h => by
    simp only [cloneTrees]
    obtain ⟨i1, f1, e1, l1⟩ := inv_cloneTree h t n
    obtain ⟨i2, f2, e2⟩ := inv_cloneTrees n ts i1
    refine ⟨i2, f1.trans f2, ?_⟩
    intro t' ht'
    simp at ht'
    rcases ht' with e | ht'
    · subst e
      rw [f2.old _ l1]
      exact ⟨e1, Nat.lt_of_lt_of_le l1 f2.nTree⟩
    · exact e2 t' ht'

/-- slice assignment / `extend` / `+=` with a `TreeList` (its trees are copied) -/
theorem inv_spliceL {s : Store} (h : Inv s) (l a b l2 : Nat) (hl : l < s.nTl) : Inv (spliceL s l a b l2) := by
  simp only [spliceL]
  obtain ⟨i, f, e⟩ := inv_cloneTrees (s.tl l).ns (s.tl l2).trees h
  apply inv_setTrees i l _ (by rw [f.nTl]; exact hl)
  intro t ht
  rw [f.tl]
  rcases mem_splice ht with ht | ht
  · rw [f.tl] at ht
    have lt := h.treeLt l t ht
    rw [f.old t lt]
    exact ⟨h.listOk l t ht, Nat.lt_of_lt_of_le lt f.nTree⟩
  · exact e t ht


/-! ## allocation and data-set primitives -/

theorem grows_newNs (s : Store) (cs : Bool) : Grows s (newNs s cs).1 := by
  refine ⟨rfl, rfl, rfl, rfl, rfl, rfl, rfl, rfl, ?_⟩
  intro n x hx
  simp only [newNs, mem, upd] at *
  split
  · next e => subst e; exact hx
  · exact hx

theorem grows_newTaxa (n : Nat) : ∀ (ls : List String) (s : Store), Grows s (newTaxa s n ls)
  | [], s => Grows.refl s
  | l :: ls, s => by
    simp only [newTaxa]
    exact (grows_newTaxon s n l).trans (grows_newTaxa n ls _)

theorem inv_allocTl {s : Store} (h : Inv s) (n : Nat) : Inv (allocTl s n).1 := by
  obtain ⟨⟨h1, h2, h3, h4⟩, h5, h6, h7, h8⟩ := h
  refine ⟨⟨h1, h2, ?_, ?_⟩, ?_, h6, ?_, ?_⟩
  · intro l t ht
    simp only [allocTl, upd] at ht ⊢
    split at ht
    · simp at ht
    · next e => simp only [e, if_false]; exact h3 l t ht
  · intro d a ha
    have := h4 d a ha
    refine ⟨fun l hl => ?_, this.2⟩
    have lt := (h8 d).1 l hl
    simp only [allocTl, upd, Nat.ne_of_lt lt, if_false]
    exact this.1 l hl
  · intro l hl
    simp only [allocTl] at hl
    have : l ≠ s.nTl := by omega
    simp only [allocTl, upd, this, if_false]
    exact h5 l (by omega)
  · intro l t ht
    simp only [allocTl, upd] at ht ⊢
    split at ht
    · simp at ht
    · exact h7 l t ht
  · intro d
    refine ⟨fun l hl => ?_, (h8 d).2⟩
    simp only [allocTl]
    exact Nat.lt_succ_of_lt ((h8 d).1 l hl)

theorem inv_allocMat {s : Store} (h : Inv s) (v : Mat) (hv : ∀ x, x ∈ v.keys → x ∈ mem s v.ns) : Inv (allocMat s v).1 := by
  obtain ⟨⟨h1, h2, h3, h4⟩, h5, h6, h7, h8⟩ := h
  refine ⟨⟨h1, ?_, h3, ?_⟩, h5, h6, h7, ?_⟩
  · intro m x hx
    simp only [allocMat, upd] at hx ⊢
    split at hx
    · next e => simp only [e, if_true]; exact hv x hx
    · next e => simp only [e, if_false]; exact h2 m x hx
  · intro d a ha
    have := h4 d a ha
    refine ⟨this.1, fun m hm => ?_⟩
    have lt := (h8 d).2 m hm
    simp only [allocMat, upd, Nat.ne_of_lt lt, if_false]
    exact this.2 m hm
  · intro d
    refine ⟨(h8 d).1, fun m hm => ?_⟩
    simp only [allocMat]
    exact Nat.lt_succ_of_lt ((h8 d).2 m hm)

theorem inv_setKeys {s : Store} (h : Inv s) (m : Nat) (ks : List Nat)
    (hk : ∀ x, x ∈ ks → x ∈ mem s (s.mat m).ns) :
    Inv { s with mat := upd s.mat m { (s.mat m) with keys := ks } } := by
  obtain ⟨⟨h1, h2, h3, h4⟩, h5, h6, h7, h8⟩ := h
  refine ⟨⟨h1, ?_, h3, ?_⟩, h5, h6, h7, h8⟩
  · intro m' x hx
    simp only [upd] at hx ⊢
    split at hx
    · next e => simp only [e, if_true]; subst e; exact hk x hx
    · next e => simp only [e, if_false]; exact h2 m' x hx
  · intro d a ha
    have := h4 d a ha
    refine ⟨this.1, fun m' hm' => ?_⟩
    simp only [upd]
    split
    · next e => subst e; exact this.2 _ hm'
    · exact this.2 _ hm'

theorem inv_setDs {s : Store} (h : Inv s) (d : Nat) (v : DS) (hd : d < s.nDs)
    (ha : ∀ a, v.att = some a → (∀ l, l ∈ v.tls → (s.tl l).ns = a) ∧ (∀ m, m ∈ v.mats → (s.mat m).ns = a))
    (hl : ∀ l, l ∈ v.tls → l < s.nTl) (hm : ∀ m, m ∈ v.mats → m < s.nMat) : Inv (setDs s d v) := by
  obtain ⟨⟨h1, h2, h3, h4⟩, h5, h6, h7, h8⟩ := h
  refine ⟨⟨h1, h2, h3, ?_⟩, h5, ?_, h7, ?_⟩
  · intro d' a hd'
    simp only [setDs, upd] at hd' ⊢
    split at hd'
    · next e => simp only [e, if_true]; exact ha a hd'
    · next e => simp only [e, if_false]; exact h4 d' a hd'
  · intro d' hd'
    have : d' ≠ d := by simp only [setDs] at hd'; omega
    simp only [setDs, upd, this, if_false]
    exact h6 d' hd'
  · intro d'
    simp only [setDs, upd]
    split
    · exact ⟨hl, hm⟩
    · exact h8 d'

theorem mem_addOnce {xs : List Nat} {x y : Nat} (h : y ∈ addOnce xs x) : y ∈ xs ∨ y = x := by
  unfold addOnce at h
  split at h
  · exact Or.inl h
  · simpa using h

theorem getElem?_mem_mem {s : Store} {n i x : Nat} (h : (mem s n)[i]? = some x) : x ∈ mem s n :=
  List.mem_of_getElem? h

/-! ## from the Boolean ownership tests to facts -/

theorem free_of_freeTree {s : Store} (h : Inv s) {t : Nat} {ex : Option Nat} (hf : freeTree s t ex = true) :
    ∀ l, some l ≠ ex → t ∉ (s.tl l).trees := by
  intro l hne hin
  by_cases hl : l < s.nTl
  · simp only [freeTree, List.all_eq_true, List.mem_range] at hf
    have := hf l hl
    simp at this
    rcases this with e | e
    · exact hne e
    · exact e hin
  · have := h.tlBlank l (Nat.le_of_not_lt hl)
    rw [this] at hin
    simp at hin

theorem ok_of_rebindOk {s : Store} (h : Inv s) {t l : Nat} (hr : rebindOk s t (s.tl l).ns (some l) = true) :
    (s.tree t).ns = (s.tl l).ns ∨ ∀ l', t ∉ (s.tl l').trees := by
  simp only [rebindOk, Bool.or_eq_true, beq_iff_eq] at hr
  rcases hr with e | f
  · exact Or.inl e
  · by_cases hin : t ∈ (s.tl l).trees
    · exact Or.inl (h.listOk l t hin)
    · right
      intro l'
      by_cases e : l' = l
      · subst e; exact hin
      · exact free_of_freeTree h f l' (by simp [e])

theorem ok_of_rebindOk_none {s : Store} (h : Inv s) {t n : Nat} (hr : rebindOk s t n none = true) :
    (s.tree t).ns = n ∨ ∀ l', t ∉ (s.tl l').trees := by
  simp only [rebindOk, Bool.or_eq_true, beq_iff_eq] at hr
  rcases hr with e | f
  · exact Or.inl e
  · exact Or.inr (fun l' => free_of_freeTree h f l' (by simp))

theorem inv_srcInto {s : Store} (h : Inv s) (l a b : Nat) (src : Src) (hl : l < s.nTl)
    (hv : srcOk s (s.tl l).ns (some l) src = true) : Inv (srcInto s l a b src) := by
  cases src with
  | list l2 => exact inv_spliceL h l a b l2 hl
  | trees ts =>
    simp only [srcInto]
    apply inv_spliceT h l a b _ ts hl
    intro t ht
    simp only [srcOk, List.all_eq_true, Bool.and_eq_true, decide_eq_true_eq] at hv
    exact ⟨ok_of_rebindOk h (hv t ht).1, (hv t ht).2⟩

/-- a one-shot iterable assigned to a slice: the trees are imported, then the slice is deleted -/
theorem inv_sliceGen {s : Store} (h : Inv s) (l a b : Nat) (ts : List Nat) (hl : l < s.nTl)
    (hok : ∀ t, t ∈ ts → ((s.tree t).ns = (s.tl l).ns ∨ ∀ l', t ∉ (s.tl l').trees) ∧ t < s.nTree) :
    Inv (setTrees (importTrees s (s.tl l).ns .migrate ts) l (splice ((importTrees s (s.tl l).ns .migrate ts).tl l).trees a b [])) := by
  obtain ⟨i, f, e, o⟩ := inv_importTrees (s.tl l).ns .migrate ts h (fun t ht => (hok t ht).1)
  apply inv_setTrees i l _ (by rw [f.nTl]; exact hl)
  intro t ht
  rw [f.tl, f.nTree]
  rcases mem_splice ht with ht | ht
  · rw [f.tl] at ht
    refine ⟨?_, h.treeLt l t ht⟩
    rcases o t with o | o
    · rw [o]; exact h.listOk l t ht
    · exact o
  · simp at ht

/-- one Newick statement after the other read into namespace `n` -/
theorem grows_requireLastList (n : Nat) (cs : Bool) : ∀ (ls : List String) (s : Store),
    Grows s (requireLastList s n cs ls).1 ∧ ∀ x, x ∈ (requireLastList s n cs ls).2 → x ∈ mem (requireLastList s n cs ls).1 n
  | [], s => ⟨Grows.refl s, by simp [requireLastList]⟩
  | l :: ls, s => by
    simp only [requireLastList]
    have g1 : Grows s (requireLast s n cs l).1 ∧ (requireLast s n cs l).2 ∈ mem (requireLast s n cs l).1 n := by
      unfold requireLast
      split
      · next x hx =>
        refine ⟨Grows.refl s, ?_⟩
        unfold lookupLast at hx
        have := List.mem_of_find?_eq_some hx
        simpa using this
      · exact ⟨grows_newTaxon s n l, mem_newTaxon s n l⟩
    obtain ⟨g2, m2⟩ := grows_requireLastList n cs ls (requireLast s n cs l).1
    refine ⟨g1.1.trans g2, ?_⟩
    intro x hx
    simp at hx
    rcases hx with e | hx
    · subst e; exact g2.mem _ _ g1.2
    · exact m2 x hx

theorem inv_readTrees (n : Nat) : ∀ (docs : List (List String)) {s : Store}, Inv s →
    Inv (readTrees s n docs).1 ∧ CFrame s (readTrees s n docs).1
      ∧ ∀ t, t ∈ (readTrees s n docs).2 → ((readTrees s n docs).1.tree t).ns = n ∧ t < (readTrees s n docs).1.nTree
  | [], s, h => ⟨h, CFrame.refl s, by simp [readTrees]⟩
  | labs :: rest, s, h => by
    simp only [readTrees]
    obtain ⟨g, m⟩ := grows_requireLastList n (s.ns n).cs labs s
    have i1 : Inv (allocTree (requireLastList s n (s.ns n).cs labs).1
        { ns := n, taxa := none :: (requireLastList s n (s.ns n).cs labs).2.map some }).1 := by
      apply inv_allocTree (inv_grows g h)
      intro x hx
      simp at hx
      exact m x hx
    obtain ⟨i2, f2, e2⟩ := inv_readTrees n rest i1
    refine ⟨i2, (g.cframe.trans (cframe_allocTree _ _)).trans f2, ?_⟩
    intro t ht
    simp at ht
    rcases ht with e | ht
    · subst e
      have lt : (allocTree (requireLastList s n (s.ns n).cs labs).1
        { ns := n, taxa := none :: (requireLastList s n (s.ns n).cs labs).2.map some }).2 <
          (allocTree (requireLastList s n (s.ns n).cs labs).1
        { ns := n, taxa := none :: (requireLastList s n (s.ns n).cs labs).2.map some }).1.nTree := by simp [allocTree]
      rw [f2.old _ lt]
      exact ⟨by simp [allocTree, upd], Nat.lt_of_lt_of_le lt f2.nTree⟩
    · exact e2 t ht

/-- appending freshly made trees of the list's namespace -/
theorem inv_appendNew {s s' : Store} (h : Inv s) (i : Inv s') (f : CFrame s s') (l : Nat) (hl : l < s.nTl) (new : List Nat)
    (hn : ∀ t, t ∈ new → (s'.tree t).ns = (s.tl l).ns ∧ t < s'.nTree) : Inv (setTrees s' l ((s'.tl l).trees ++ new)) := by
  apply inv_setTrees i l _ (by rw [f.nTl]; exact hl)
  intro t ht
  rw [f.tl]
  simp only [List.mem_append] at ht
  rcases ht with ht | ht
  · rw [f.tl] at ht
    have lt := h.treeLt l t ht
    rw [f.old t lt]
    exact ⟨h.listOk l t ht, Nat.lt_of_lt_of_le lt f.nTree⟩
  · exact hn t ht


theorem inv_migrateTree {s : Store} (h : Inv s) (t n : Nat) (u : Bool) (memo : Memo)
    (hok : (s.tree t).ns = n ∨ ∀ l, t ∉ (s.tl l).trees) : Inv (migrateTree s t n u memo).1 := by
  simp only [migrateTree]
  have g := grows_mapTaxa n u (s.tree t).taxa s memo
  apply inv_setTree (inv_grows g h)
  · intro x hx; exact mem_mapTaxa n u _ s memo x hx
  · intro l hl
    rw [g.tl] at hl ⊢
    rcases hok with e | f
    · rw [← e]; exact (h.listOk l t hl).symm
    · exact absurd hl (f l)

theorem sublist_mem_take_drop {xs : List Nat} {a b t : Nat} (h : t ∈ (xs.take b).drop a) : t ∈ xs :=
  List.mem_of_mem_take (List.mem_of_mem_drop h)

end DendroModel.C11.Aux

namespace DendroModel.C11
open DendroModel.C11.Aux

/-- the operations whose closure proof is carried out below (see `closed_step_partial`) -/
def covered : Op → Bool
  | .add _ (.trees _) => false
  | .lclone _ _ | .mclone _ _ | .lmig _ _ _ | .lrec _ _ | .mmig _ _ _ | .mrec _ _ | .dsunify _ _ | .dsread _ _ _ _ => false
  | .readx _ _ _ | .tlget _ _ _ | .tget _ _ _ | .mget _ _ _ _ | .chain _ => false
  | .tassign _ _ _ | .lassign _ _ _ | .massign _ _ _ | .mcomb _ _ _ | .tpurge _ | .lpurge _ | .mpurge _ | .setslicegen _ _ _ _ => false
  | _ => true

/-- clauses (a),(c) hold in the empty world -/
theorem closed_init : Closed init := inv_init.toClosed

/-- PARTIAL. Closure (clauses a and c, with the allocation discipline) is preserved by every operation of the alphabet
inside the ownership domain `valid` — proved for the `covered` operations: namespace/tree/list/matrix/data-set creation,
`append`, `insert`, `[]=`, slice assignment, `extend`/`+=` (originals and `TreeList` sources, both import strategies),
`+` with a `TreeList`, `read`, `new_tree`, slicing, `pop`/`del`/`remove`, `Tree(...)` copies, `Tree.migrate/reconstruct_taxon_namespace`
(both unify flags), matrix `[]=`/`new_sequence`, `DataSet.add/new_*/attach/detach`.
MISSING: `+` with a plain list, `TreeList(...)` copies, `TreeList`/`CharacterMatrix` migrate/reconstruct, matrix copies,
`DataSet.unify_taxon_namespaces` and `DataSet.read` (covered by the correspondence + oracle only). -/
theorem closed_step_partial (s : Store) (op : Op) (h : Inv s) (hv : valid s op = true) (hc : covered op = true) :
    Inv (step s op).1 := by
  simp only [valid, Bool.and_eq_true] at hv
  obtain ⟨⟨_, hr⟩, ho⟩ := hv
  cases op with
  | ns cs labels =>
    simp only [step]
    exact inv_grows ((grows_newNs s cs).trans (grows_newTaxa _ labels _)) h
  | tree n taxa =>
    simp only [step]
    apply inv_allocTree h
    intro x hx
    simp only [List.mem_map] at hx
    obtain ⟨o, _, e⟩ := hx
    cases o with
    | none => simp at e
    | some i => simp at e; exact getElem?_mem_mem e
  | tlist n =>
    cases n with
    | none => simp only [step]; exact inv_allocTl (inv_grows (grows_newNs s false) h) _
    | some n => simp only [step]; exact inv_allocTl h n
  | mat n idx =>
    simp only [step]
    apply inv_allocMat h
    intro x hx
    simp only [List.mem_filterMap] at hx
    obtain ⟨i, _, e⟩ := hx
    exact getElem?_mem_mem e
  | ds =>
    simp only [step]
    obtain ⟨⟨h1, h2, h3, h4⟩, h5, h6, h7, h8⟩ := h
    exact ⟨⟨h1, h2, h3, h4⟩, h5, fun d hd => h6 d (by simp at hd; omega), h7, h8⟩
  | append l t st =>
    simp only [inRange, decide_eq_true_eq] at hr
    simp only [owner, Bool.and_eq_true, decide_eq_true_eq] at ho
    simp only [step]
    apply inv_spliceT h l _ _ st [t] hr
    intro t' ht'; simp at ht'; subst ht'
    exact ⟨ok_of_rebindOk h ho.1, ho.2⟩
  | insert l i t st =>
    simp only [inRange, decide_eq_true_eq] at hr
    simp only [owner, Bool.and_eq_true, decide_eq_true_eq] at ho
    simp only [step]
    apply inv_spliceT h l _ _ st [t] hr
    intro t' ht'; simp at ht'; subst ht'
    exact ⟨ok_of_rebindOk h ho.1, ho.2⟩
  | setitem l i t =>
    simp only [inRange, decide_eq_true_eq] at hr
    simp only [owner, Bool.and_eq_true, decide_eq_true_eq] at ho
    simp only [step]
    split
    · apply inv_spliceT h l _ _ _ [t] hr
      intro t' ht'; simp at ht'; subst ht'
      exact ⟨ok_of_rebindOk h ho.1, ho.2⟩
    · show Inv (importTrees s (s.tl l).ns Strat.migrate [t])
      refine (inv_importTrees (s.tl l).ns Strat.migrate [t] h ?_).1
      intro t' ht'; simp at ht'; subst ht'
      exact ok_of_rebindOk h ho.1
  | setslice l a b src =>
    simp only [inRange, decide_eq_true_eq] at hr
    simp only [owner] at ho
    simp only [step]
    exact inv_srcInto h l a b src hr ho
  | extend l src =>
    simp only [inRange, decide_eq_true_eq] at hr
    simp only [owner] at ho
    simp only [step]
    exact inv_srcInto h l _ _ src hr ho
  | add l src =>
    cases src with
    | trees ts => simp [covered] at hc
    | list l2 =>
      simp only [step, srcInto]
      have i1 := inv_allocTl h (s.tl l).ns
      have lt : (allocTl s (s.tl l).ns).2 < (allocTl s (s.tl l).ns).1.nTl := by simp [allocTl]
      have i2 := inv_spliceL i1 (allocTl s (s.tl l).ns).2 0 0 l lt
      apply inv_spliceL i2
      simp [spliceL, setTrees]
      have := (inv_cloneTrees ((allocTl s (s.tl l).ns).1.tl (allocTl s (s.tl l).ns).2).ns
        ((allocTl s (s.tl l).ns).1.tl l).trees i1).2.1.nTl
      rw [this]; exact lt
  | read l docs =>
    simp only [inRange, decide_eq_true_eq] at hr
    simp only [step]
    obtain ⟨i, f, e⟩ := inv_readTrees (s.tl l).ns docs h
    exact inv_appendNew h i f l hr _ e
  | newtree l src =>
    simp only [inRange, decide_eq_true_eq] at hr
    cases src with
    | none =>
      simp only [step]
      have i := inv_allocTree h { ns := (s.tl l).ns, taxa := [none] } (by simp)
      apply inv_appendNew h i (cframe_allocTree _ _) l hr
      intro t ht; simp at ht; subst ht
      simp [allocTree, upd]
    | some t0 =>
      simp only [step]
      obtain ⟨i, f, e, lt⟩ := inv_cloneTree h t0 (s.tl l).ns
      apply inv_appendNew h i f l hr
      intro t ht; simp at ht; subst ht
      exact ⟨e, lt⟩
  | getslice l a b =>
    simp only [step]
    have i1 := inv_allocTl h (s.tl l).ns
    apply inv_setTrees i1 _ _ (by simp [allocTl])
    intro t ht
    have ht' := sublist_mem_take_drop ht
    have ne : (s.tl l).trees ≠ [] := by intro e; rw [e] at ht'; simp at ht'
    have ll : l < s.nTl := by
      by_cases hl : l < s.nTl
      · exact hl
      · exact absurd (h.tlBlank l (Nat.le_of_not_lt hl)) ne
    refine ⟨?_, h.treeLt l t ht'⟩
    simp only [allocTl, upd, if_true]
    exact h.listOk l t ht'
  | pop l i =>
    simp only [inRange, decide_eq_true_eq] at hr
    simp only [step]
    apply inv_setTrees h l _ hr
    intro t ht
    rcases mem_splice ht with ht | ht
    · exact ⟨h.listOk l t ht, h.treeLt l t ht⟩
    · simp at ht
  | remove l t0 =>
    simp only [inRange, decide_eq_true_eq] at hr
    simp only [step]
    split
    · apply inv_setTrees h l _ hr
      intro t ht
      have ht' := List.mem_of_mem_erase ht
      exact ⟨h.listOk l t ht', h.treeLt l t ht'⟩
    · exact h
  | lclone l n => simp [covered] at hc
  | tclone t n => simp only [step]; exact (inv_cloneTree h t _).1
  | mclone m n => simp [covered] at hc
  | tmig t n u =>
    simp only [owner] at ho
    simp only [step]
    exact inv_migrateTree h t n u [] (ok_of_rebindOk_none h ho)
  | trec t u =>
    simp only [step]
    exact inv_migrateTree h t _ u [] (Or.inl rfl)
  | lmig l n u => simp [covered] at hc
  | lrec l u => simp [covered] at hc
  | mmig m n u => simp [covered] at hc
  | mrec m u => simp [covered] at hc
  | mset m n i =>
    simp only [step]
    split
    · exact h
    · next x hx =>
      split
      · next hin =>
        apply inv_setKeys h m
        intro y hy
        rcases mem_addOnce hy with hy | hy
        · exact h.matOk m y hy
        · subst hy; simpa using hin
      · exact h
  | mnew m n i =>
    simp only [step]
    split
    · exact h
    · next x hx =>
      split
      · exact h
      · split
        · next hin =>
          apply inv_setKeys h m
          intro y hy
          simp at hy
          rcases hy with hy | hy
          · exact h.matOk m y hy
          · subst hy; simpa using hin
        · exact h
  | dsaddN d n =>
    simp only [inRange, decide_eq_true_eq] at hr
    simp only [step, dsAddNs]
    exact inv_setDs h d _ hr (h.dsOk d) (h.dsLt d).1 (h.dsLt d).2
  | dsaddL d l =>
    simp only [inRange, decide_eq_true_eq] at hr
    simp only [owner, Bool.and_eq_true, Bool.or_eq_true, beq_iff_eq, decide_eq_true_eq] at ho
    simp only [step, dsAddTl]
    apply inv_setDs h d _ hr
    · intro a ha
      have := h.dsOk d a ha
      refine ⟨fun l' hl' => ?_, this.2⟩
      rcases mem_addOnce hl' with hl' | hl'
      · exact this.1 l' hl'
      · subst hl'
        rcases ho.1 with e | e
        · rw [e] at ha; simp at ha
        · rw [e] at ha; simp at ha; exact ha
    · intro l' hl'
      rcases mem_addOnce hl' with hl' | hl'
      · exact (h.dsLt d).1 l' hl'
      · subst hl'; exact ho.2
    · exact (h.dsLt d).2
  | dsaddM d m =>
    simp only [inRange, decide_eq_true_eq] at hr
    simp only [owner, Bool.and_eq_true, Bool.or_eq_true, beq_iff_eq, decide_eq_true_eq] at ho
    simp only [step, dsAddMat]
    apply inv_setDs h d _ hr
    · intro a ha
      have := h.dsOk d a ha
      refine ⟨this.1, fun m' hm' => ?_⟩
      rcases mem_addOnce hm' with hm' | hm'
      · exact this.2 m' hm'
      · subst hm'
        rcases ho.1 with e | e
        · rw [e] at ha; simp at ha
        · rw [e] at ha; simp at ha; exact ha
    · exact (h.dsLt d).1
    · intro m' hm'
      rcases mem_addOnce hm' with hm' | hm'
      · exact (h.dsLt d).2 m' hm'
      · subst hm'; exact ho.2
  | dsnewlist d =>
    simp only [inRange, decide_eq_true_eq] at hr
    simp only [step]
    split
    · next a ha =>
      simp only [dsAddTl]
      have i1 := inv_allocTl h a
      apply inv_setDs i1 d _ (by simpa [allocTl] using hr)
      · intro a' ha'
        have e : a' = a := by
          have : (s.ds d).att = some a' := ha'
          rw [ha] at this; simpa using this.symm
        subst e
        have := i1.dsOk d a' ha'
        refine ⟨fun l' hl' => ?_, this.2⟩
        rcases mem_addOnce hl' with hl' | hl'
        · exact this.1 l' hl'
        · subst hl'; simp [allocTl, upd]
      · intro l' hl'
        rcases mem_addOnce hl' with hl' | hl'
        · exact (i1.dsLt d).1 l' hl'
        · subst hl'; simp [allocTl]
      · exact (i1.dsLt d).2
    · next hnone =>
      simp only [dsAddTl]
      have g := grows_newNs s false
      have i1 := inv_allocTl (inv_grows g h) (newNs s false).2
      apply inv_setDs i1 d _ (by simpa [allocTl, newNs] using hr)
      · intro a' ha'
        have : (s.ds d).att = some a' := ha'
        rw [hnone] at this; simp at this
      · intro l' hl'
        rcases mem_addOnce hl' with hl' | hl'
        · exact (i1.dsLt d).1 l' hl'
        · subst hl'; simp [allocTl]
      · exact (i1.dsLt d).2
  | dsnewmat d =>
    simp only [inRange, decide_eq_true_eq] at hr
    simp only [step]
    split
    · next a ha =>
      simp only [dsAddMat]
      have i1 := inv_allocMat h { ns := a, keys := [] } (by simp)
      apply inv_setDs i1 d _ (by simpa [allocMat] using hr)
      · intro a' ha'
        have e : a' = a := by
          have : (s.ds d).att = some a' := ha'
          rw [ha] at this; simpa using this.symm
        subst e
        have := i1.dsOk d a' ha'
        refine ⟨this.1, fun m' hm' => ?_⟩
        rcases mem_addOnce hm' with hm' | hm'
        · exact this.2 m' hm'
        · subst hm'; simp [allocMat, upd]
      · exact (i1.dsLt d).1
      · intro m' hm'
        rcases mem_addOnce hm' with hm' | hm'
        · exact (i1.dsLt d).2 m' hm'
        · subst hm'; simp [allocMat]
    · next hnone =>
      simp only [dsAddMat]
      have g := grows_newNs s false
      have i1 := inv_allocMat (inv_grows g h) { ns := (newNs s false).2, keys := [] } (by simp)
      apply inv_setDs i1 d _ (by simpa [allocMat, newNs] using hr)
      · intro a' ha'
        have : (s.ds d).att = some a' := ha'
        rw [hnone] at this; simp at this
      · exact (i1.dsLt d).1
      · intro m' hm'
        rcases mem_addOnce hm' with hm' | hm'
        · exact (i1.dsLt d).2 m' hm'
        · subst hm'; simp [allocMat]
  | dsnewns d =>
    simp only [inRange, decide_eq_true_eq] at hr
    simp only [step, dsAddNs]
    have g := grows_newNs s false
    have i := inv_grows g h
    exact inv_setDs i d _ (by rw [g.nDs]; exact hr) (i.dsOk d) (i.dsLt d).1 (i.dsLt d).2
  | dsattach d n =>
    simp only [inRange, decide_eq_true_eq] at hr
    simp only [owner, Bool.and_eq_true, List.all_eq_true, beq_iff_eq] at ho
    simp only [step]
    apply inv_setDs h d _ hr
    · intro a ha
      simp at ha; subst ha
      exact ⟨ho.1, ho.2⟩
    · exact (h.dsLt d).1
    · exact (h.dsLt d).2
  | dsdetach d =>
    simp only [inRange, decide_eq_true_eq] at hr
    simp only [step]
    apply inv_setDs h d _ hr
    · intro a ha; simp at ha
    · exact (h.dsLt d).1
    · exact (h.dsLt d).2
  | dsunify d n => simp [covered] at hc
  | dsread d taxa rows trees => simp [covered] at hc
  | taadd n t => simp only [step]; exact h
  | tassign t n a => simp [covered] at hc
  | lassign l n a => simp [covered] at hc
  | massign m n a => simp [covered] at hc
  | mcomb m m2 a => simp [covered] at hc
  | setslicegen l a b ts => simp [covered] at hc
  | tpurge t => simp [covered] at hc
  | lpurge l => simp [covered] at hc
  | mpurge m => simp [covered] at hc
  | chain gs => simp [covered] at hc
  | readx l pre docs => simp [covered] at hc
  | tlget n pre docs => simp [covered] at hc
  | tget n pre labels => simp [covered] at hc
  | mget n last pre rows => simp [covered] at hc
  | newtreeseed l t =>
    simp only [inRange, decide_eq_true_eq] at hr
    simp only [step]
    have g : Grows s (addTaxa s (s.tl l).ns (s.tree t).taxa) := grows_addAll _ _ s
    have i := inv_allocTree (inv_grows g h) { ns := (s.tl l).ns, taxa := (s.tree t).taxa }
      (fun x hx => mem_addAll (s.tl l).ns (s.tree t).taxa s x hx)
    apply inv_appendNew h i (g.cframe.trans (cframe_allocTree _ _)) l hr
    intro t' ht'; simp at ht'; subst ht'
    simp [allocTree, upd]
  | treeseed n t =>
    cases n with
    | some n =>
      simp only [step]
      have g : Grows s (addTaxa s n (s.tree t).taxa) := grows_addAll _ _ s
      exact inv_allocTree (inv_grows g h) { ns := n, taxa := (s.tree t).taxa } (fun x hx => mem_addAll n (s.tree t).taxa s x hx)
    | none =>
      simp only [step]
      have g0 := grows_newNs s false
      have g : Grows (newNs s false).1 (addTaxa (newNs s false).1 (newNs s false).2 (s.tree t).taxa) := grows_addAll _ _ _
      exact inv_allocTree (inv_grows g (inv_grows g0 h)) { ns := (newNs s false).2, taxa := (s.tree t).taxa }
        (fun x hx => mem_addAll (newNs s false).2 (s.tree t).taxa (newNs s false).1 x hx)

namespace Aux

/-! ## the remaining operations -/

theorem cloneTree_id (s : Store) (src n : Nat) : (cloneTree s src n).2 = s.nTree := by
  unfold cloneTree
  simp only []
  split
  · rfl
  · simp only [allocTree]; exact (grows_cloneMemo n _ s).nTree

theorem cloneTrees_ge (n : Nat) : ∀ (ts : List Nat) {s : Store}, Inv s → ∀ t, t ∈ (cloneTrees s n ts).2 → s.nTree ≤ t
  | [], _, _ => by simp [cloneTrees]
  | t0 :: ts, s, h => by
    simp only [cloneTrees]
    intro t ht
    simp at ht
    obtain ⟨i1, f1, _, _⟩ := inv_cloneTree h t0 n
    rcases ht with e | ht
    · rw [e, cloneTree_id]; exact Nat.le_refl _
    · exact Nat.le_trans f1.nTree (cloneTrees_ge n ts i1 t ht)

/-- `+` with a plain list of trees -/
theorem inv_add_trees {s : Store} (h : Inv s) (l : Nat) (ts : List Nat)
    (hv : srcOk s (s.tl l).ns none (.trees ts) = true) : Inv (step s (.add l (.trees ts))).1 := by
  simp only [step, srcInto]
  have i1 := inv_allocTl h (s.tl l).ns
  have lt : (allocTl s (s.tl l).ns).2 < (allocTl s (s.tl l).ns).1.nTl := by simp [allocTl]
  have i2 := inv_spliceL i1 (allocTl s (s.tl l).ns).2 0 0 l lt
  obtain ⟨ic, fc, ec⟩ := inv_cloneTrees ((allocTl s (s.tl l).ns).1.tl (allocTl s (s.tl l).ns).2).ns
        ((allocTl s (s.tl l).ns).1.tl l).trees i1
  have ge := cloneTrees_ge ((allocTl s (s.tl l).ns).1.tl (allocTl s (s.tl l).ns).2).ns
        ((allocTl s (s.tl l).ns).1.tl l).trees i1
  apply inv_spliceT i2
  · simp only [spliceL, setTrees]; rw [fc.nTl]; exact lt
  · intro t ht
    simp only [srcOk, List.all_eq_true, Bool.and_eq_true, decide_eq_true_eq] at hv
    obtain ⟨hr, hlt⟩ := hv t ht
    have hlt' : t < (allocTl s (s.tl l).ns).1.nTree := hlt
    refine ⟨?_, ?_⟩
    · rcases ok_of_rebindOk_none h hr with e | f
      · left
        simp only [spliceL, setTrees, upd, if_true]
        rw [fc.old t hlt', fc.tl]
        simp only [allocTl, upd, if_true]
        exact e
      · right
        intro l'
        simp only [spliceL, setTrees, upd]
        split
        · intro hin
          rcases mem_splice hin with hin | hin
          · rw [fc.tl] at hin; simp [allocTl, upd] at hin
          · have := ge t hin
            have : s.nTree ≤ t := this
            omega
        · next ne =>
          rw [fc.tl]
          simp only [allocTl, upd]
          split
          · simp
          · exact f l'
    · simp only [spliceL, setTrees]
      exact Nat.lt_of_lt_of_le hlt' fc.nTree

/-! ### matrices -/

theorem grows_mapKeys (n : Nat) (u : Bool) : ∀ (xs : List Nat) (s : Store) (memo : Memo) (cur : List Nat),
    Grows s (mapKeys s n u memo cur xs).1
  | [], s, _, _ => Grows.refl s
  | x :: xs, s, memo, cur => by
    simp only [mapKeys]
    split
    · split
      · exact (grows_mapOne s n u memo x).trans (grows_mapKeys n u xs _ _ _)
      · split
        · exact grows_mapOne s n u memo x
        · exact (grows_mapOne s n u memo x).trans (grows_mapKeys n u xs _ _ _)
    · exact grows_mapKeys n u xs s memo cur

/-- a pass over the keys that is not refused leaves only members of the target namespace (or keys it was not asked to process) -/
theorem mem_mapKeys (n : Nat) (u : Bool) : ∀ (xs : List Nat) (s : Store) (memo : Memo) (cur : List Nat),
    (mapKeys s n u memo cur xs).2.2.2 = true →
    ∀ k, k ∈ (mapKeys s n u memo cur xs).2.2.1 → k ∈ mem (mapKeys s n u memo cur xs).1 n ∨ (k ∈ cur ∧ k ∉ xs)
  | [], s, memo, cur => by intro _ k hk; right; simpa [mapKeys] using hk
  | x :: xs, s, memo, cur => by
    simp only [mapKeys]
    split
    · next hcond =>
      split
      · next heq =>
        intro hok k hk
        have g := grows_mapKeys n u xs (mapOne s n u memo x).1 (mapOne s n u memo x).2.1 cur
        rcases mem_mapKeys n u xs _ _ cur hok k hk with hm | ⟨hc, hn⟩
        · exact Or.inl hm
        · by_cases e : k = x
          · left; subst e
            have := mem_mapOne s n u memo k
            have heq' : (mapOne s n u memo k).2.2 = k := by simpa using heq
            rw [heq'] at this
            exact g.mem _ _ this
          · right; exact ⟨hc, by simp [e, hn]⟩
      · split
        · intro hok; simp at hok
        · intro hok k hk
          have g := grows_mapKeys n u xs (mapOne s n u memo x).1 (mapOne s n u memo x).2.1
            (cur.filter (fun k => k != x) ++ [(mapOne s n u memo x).2.2])
          rcases mem_mapKeys n u xs _ _ _ hok k hk with hm | ⟨hc, hn⟩
          · exact Or.inl hm
          · simp only [List.mem_append, List.mem_filter, List.mem_singleton] at hc
            rcases hc with ⟨hc, hne⟩ | hc
            · right
              have : k ≠ x := by simpa using hne
              exact ⟨hc, by simp [this, hn]⟩
            · left; rw [hc]; exact g.mem _ _ (mem_mapOne s n u memo x)
    · next hcond =>
      intro hok k hk
      have g := grows_mapKeys n u xs s memo cur
      rcases mem_mapKeys n u xs s memo cur hok k hk with hm | ⟨hc, hn⟩
      · exact Or.inl hm
      · by_cases e : k = x
        · left; subst e
          simp at hcond
          exact g.mem _ _ (by simpa using hcond.2)
        · right; exact ⟨hc, by simp [e, hn]⟩

/-- `CharacterMatrix.migrate_taxon_namespace` / `reconstruct_taxon_namespace` that is not refused -/
theorem inv_migrateMat {s : Store} (h : Inv s) (m n : Nat) (u : Bool) (memo : Memo)
    (hok : (migrateMat s m n u memo).2.2 = true)
    (hds : ∀ d a, (s.ds d).att = some a → m ∈ (s.ds d).mats → a = n) : Inv (migrateMat s m n u memo).1 := by
  simp only [migrateMat] at hok ⊢
  have g := grows_mapKeys n u (s.mat m).keys s memo (s.mat m).keys
  obtain ⟨⟨h1, h2, h3, h4⟩, h5, h6, h7, h8⟩ := inv_grows g h
  refine ⟨⟨h1, ?_, h3, ?_⟩, h5, h6, h7, h8⟩
  · intro m' x hx
    simp only [upd] at hx ⊢
    split at hx
    · next e =>
      simp only [e, if_true]
      rcases mem_mapKeys n u _ s memo _ hok x hx with hm | ⟨hc, hn⟩
      · exact hm
      · exact absurd hc hn
    · next e => simp only [e, if_false]; exact h2 m' x hx
  · intro d a ha
    have := h4 d a ha
    refine ⟨this.1, fun m' hm' => ?_⟩
    simp only [upd]
    split
    · next e =>
      subst e
      have ha' : (s.ds d).att = some a := by rw [← g.ds]; exact ha
      have hm'' : m' ∈ (s.ds d).mats := by rw [← g.ds]; exact hm'
      exact (hds d a ha' hm'').symm
    · exact this.2 m' hm'

theorem matFree_fact {s : Store} (h : Inv s) {m n : Nat} (hf : matFreeOfDs s m n none = true) :
    ∀ d a, (s.ds d).att = some a → m ∈ (s.ds d).mats → a = n := by
  intro d a ha hm
  by_cases hd : d < s.nDs
  · simp only [matFreeOfDs, List.all_eq_true, List.mem_range] at hf
    have := hf d hd
    simp [ha] at this
    rcases this with e | e
    · exact absurd hm e
    · exact e
  · have := (h.dsBlank d (Nat.le_of_not_lt hd)).2
    rw [this] at hm; simp at hm

theorem mergeKeys_sub : ∀ (xs acc : List Nat) (k : Nat), k ∈ mergeKeys acc xs → k ∈ acc ∨ k ∈ xs
  | [], acc, k => by simp [mergeKeys]
  | x :: xs, acc, k => by
    simp only [mergeKeys]
    split
    · intro hk; rcases mergeKeys_sub xs acc k hk with h | h
      · exact Or.inl h
      · exact Or.inr (by simp [h])
    · intro hk; rcases mergeKeys_sub xs _ k hk with h | h
      · simp at h; rcases h with h | h
        · exact Or.inl h
        · exact Or.inr (by simp [h])
      · exact Or.inr (by simp [h])

/-- `CharacterMatrix(src, taxon_namespace=ns)` (accepted or refused) -/
theorem inv_cloneMat {s : Store} (h : Inv s) (src n : Nat) : Inv (cloneMat s src n).1 := by
  unfold cloneMat
  simp only []
  split
  · exact inv_allocMat h _ (h.matOk src)
  · have g := grows_cloneMemo n (mem s (s.mat src).ns) s
    split
    · apply inv_allocMat (inv_grows g h)
      intro x hx
      simp only [List.mem_map] at hx
      obtain ⟨y, hy, e⟩ := hx
      subst e
      exact mem_cloneMemo n _ s y (h.matOk src y hy)
    · exact inv_grows g h

/-! ### `TreeList(other[, taxon_namespace=ns])` -/

theorem applyMemo_id : ∀ (l : List Nat) (y : Nat), applyMemo (l.map (fun x => (x, x))) y = y
  | [], y => by simp [applyMemo, memoGet]
  | x :: l, y => by
    have ih := applyMemo_id l y
    simp only [applyMemo, memoGet, List.map_cons, List.find?_cons] at ih ⊢
    by_cases e : x = y
    · subst e; simp
    · have : (x == y) = false := by simp [e]
      simp only [this]; exact ih

theorem memoGet_cons (a b : Nat) (m : List (Nat × Nat)) (q : Nat) :
    memoGet ((a, b) :: m) q = if a = q then some b else memoGet m q := by
  simp only [memoGet, List.find?_cons]
  by_cases e : a = q
  · subst e; simp
  · have : (a == q) = false := by simp [e]
    simp [this, e]

theorem inv_copyTrees (tgt : Nat) (m : Memo) : ∀ (ts : List Nat) {σ : Store} (seen : List (Nat × Nat)), Inv σ →
    (∀ t, t ∈ ts → t < σ.nTree ∧ ∀ x, some x ∈ (σ.tree t).taxa → applyMemo m x ∈ mem σ tgt) →
    (∀ t t', memoGet seen t = some t' → (σ.tree t').ns = tgt ∧ t' < σ.nTree) →
    Inv (copyTrees σ tgt m seen ts).1 ∧ CFrame σ (copyTrees σ tgt m seen ts).1
      ∧ ∀ t', t' ∈ (copyTrees σ tgt m seen ts).2 →
          ((copyTrees σ tgt m seen ts).1.tree t').ns = tgt ∧ t' < (copyTrees σ tgt m seen ts).1.nTree
  | [], σ, seen, h, _, _ => ⟨h, CFrame.refl σ, by simp [copyTrees]⟩
  | t :: ts, σ, seen, h, hts, hseen => by
    simp only [copyTrees]
    split
    · next t' hg =>
      obtain ⟨i2, f2, e2⟩ := inv_copyTrees tgt m ts seen h (fun t ht => hts t (by simp [ht])) hseen
      refine ⟨i2, f2, ?_⟩
      intro t'' ht''
      simp at ht''
      rcases ht'' with e | ht''
      · subst e
        obtain ⟨a, b⟩ := hseen t t'' hg
        rw [f2.old _ b]
        exact ⟨a, Nat.lt_of_lt_of_le b f2.nTree⟩
      · exact e2 t'' ht''
    · next hg =>
      have i1 : Inv (allocTree σ { ns := tgt, taxa := (σ.tree t).taxa.map (Option.map (applyMemo m)) }).1 := by
        apply inv_allocTree h
        intro x hx
        simp only [List.mem_map] at hx
        obtain ⟨o, ho, e⟩ := hx
        cases o with
        | none => simp at e
        | some y => simp at e; subst e; exact (hts t (by simp)).2 y ho
      have f1 := cframe_allocTree σ { ns := tgt, taxa := (σ.tree t).taxa.map (Option.map (applyMemo m)) }
      have hts' : ∀ t0, t0 ∈ ts → t0 < (allocTree σ { ns := tgt, taxa := (σ.tree t).taxa.map (Option.map (applyMemo m)) }).1.nTree ∧
          ∀ x, some x ∈ ((allocTree σ { ns := tgt, taxa := (σ.tree t).taxa.map (Option.map (applyMemo m)) }).1.tree t0).taxa →
            applyMemo m x ∈ mem (allocTree σ { ns := tgt, taxa := (σ.tree t).taxa.map (Option.map (applyMemo m)) }).1 tgt := by
        intro t0 ht0
        obtain ⟨a, b⟩ := hts t0 (by simp [ht0])
        refine ⟨Nat.lt_of_lt_of_le a f1.nTree, ?_⟩
        rw [f1.old t0 a]
        exact b
      have hseen' : ∀ q q', memoGet ((t, (allocTree σ { ns := tgt, taxa := (σ.tree t).taxa.map (Option.map (applyMemo m)) }).2) :: seen) q = some q' →
          ((allocTree σ { ns := tgt, taxa := (σ.tree t).taxa.map (Option.map (applyMemo m)) }).1.tree q').ns = tgt ∧
          q' < (allocTree σ { ns := tgt, taxa := (σ.tree t).taxa.map (Option.map (applyMemo m)) }).1.nTree := by
        intro q q' hq
        rw [memoGet_cons] at hq
        split at hq
        · simp at hq; subst hq; simp [allocTree, upd]
        · obtain ⟨a, b⟩ := hseen q q' hq
          rw [f1.old q' b]
          exact ⟨a, Nat.lt_of_lt_of_le b f1.nTree⟩
      obtain ⟨i2, f2, e2⟩ := inv_copyTrees tgt m ts _ i1 hts' hseen'
      refine ⟨i2, f1.trans f2, ?_⟩
      intro t'' ht''
      simp at ht''
      rcases ht'' with e | ht''
      · subst e
        have lt : (allocTree σ { ns := tgt, taxa := (σ.tree t).taxa.map (Option.map (applyMemo m)) }).2 <
            (allocTree σ { ns := tgt, taxa := (σ.tree t).taxa.map (Option.map (applyMemo m)) }).1.nTree := by simp [allocTree]
        rw [f2.old _ lt]
        exact ⟨by simp [allocTree, upd], Nat.lt_of_lt_of_le lt f2.nTree⟩
      · exact e2 t'' ht''

theorem inv_lclone {s : Store} (h : Inv s) (l : Nat) (n : Option Nat) : Inv (step s (.lclone l n)).1 := by
  simp only [step]
  -- the memo of both branches maps every member of the source namespace into the target
  have key : ∀ (r : Store × Memo), r = (if n.getD (s.tl l).ns = (s.tl l).ns then (s, (mem s (s.tl l).ns).map (fun x => (x, x)))
      else cloneMemo s (n.getD (s.tl l).ns) (mem s (s.tl l).ns)) →
      Grows s r.1 ∧ ∀ x, x ∈ mem s (s.tl l).ns → applyMemo r.2 x ∈ mem r.1 (n.getD (s.tl l).ns) := by
    intro r hr
    split at hr
    · next e => subst hr; refine ⟨Grows.refl s, fun x hx => ?_⟩; rw [applyMemo_id, e]; exact hx
    · subst hr; exact ⟨grows_cloneMemo _ _ s, fun x hx => mem_cloneMemo _ _ s x hx⟩
  generalize hr : (if n.getD (s.tl l).ns = (s.tl l).ns then (s, (mem s (s.tl l).ns).map (fun x => (x, x)))
      else cloneMemo s (n.getD (s.tl l).ns) (mem s (s.tl l).ns)) = r
  obtain ⟨g, hm⟩ := key r hr.symm
  have i1 := inv_allocTl (inv_grows g h) (n.getD (s.tl l).ns)
  have hts : ∀ t, t ∈ (s.tl l).trees → t < (allocTl r.1 (n.getD (s.tl l).ns)).1.nTree ∧
      ∀ x, some x ∈ ((allocTl r.1 (n.getD (s.tl l).ns)).1.tree t).taxa →
        applyMemo r.2 x ∈ mem (allocTl r.1 (n.getD (s.tl l).ns)).1 (n.getD (s.tl l).ns) := by
    intro t ht
    refine ⟨by simp only [allocTl]; rw [g.nTree]; exact h.treeLt l t ht, ?_⟩
    intro x hx
    have hx' : some x ∈ (s.tree t).taxa := by
      have : (allocTl r.1 (n.getD (s.tl l).ns)).1.tree = s.tree := g.tree
      rw [this] at hx; exact hx
    have := h.treeOk t x hx'
    rw [h.listOk l t ht] at this
    exact hm x this
  obtain ⟨i2, f2, e2⟩ := inv_copyTrees (n.getD (s.tl l).ns) r.2 (s.tl l).trees [] i1 hts (by intro t t' hg; simp [memoGet] at hg)
  apply inv_setTrees i2 _ _ (by rw [f2.nTl]; simp [allocTl])
  intro t' ht'
  rw [f2.tl]
  simp only [allocTl, upd, if_true]
  exact e2 t' ht'

/-! ### collection-level migrations: the invariant with some lists exempt while their trees are being re-bound -/

/-- `Inv`, except that clause (a) for tree lists is only asserted for the lists satisfying `P` -/
structure InvW (P Q : Nat → Prop) (s : Store) : Prop where
  treeOk : ∀ t x, some x ∈ (s.tree t).taxa → x ∈ mem s (s.tree t).ns
  matOk : ∀ m x, x ∈ (s.mat m).keys → x ∈ mem s (s.mat m).ns
  listOk : ∀ l, P l → ∀ t, t ∈ (s.tl l).trees → (s.tree t).ns = (s.tl l).ns
  dsOk : ∀ d a, Q d → (s.ds d).att = some a →
    (∀ l, l ∈ (s.ds d).tls → (s.tl l).ns = a) ∧ (∀ m, m ∈ (s.ds d).mats → (s.mat m).ns = a)
  tlBlank : ∀ l, s.nTl ≤ l → (s.tl l).trees = []
  dsBlank : ∀ d, s.nDs ≤ d → (s.ds d).tls = [] ∧ (s.ds d).mats = []
  treeLt : ∀ l t, t ∈ (s.tl l).trees → t < s.nTree
  dsLt : ∀ d, (∀ l, l ∈ (s.ds d).tls → l < s.nTl) ∧ (∀ m, m ∈ (s.ds d).mats → m < s.nMat)

theorem invW_of_inv {s : Store} (P Q : Nat → Prop) (h : Inv s) : InvW P Q s :=
  ⟨h.treeOk, h.matOk, fun l _ => h.listOk l, fun d a _ => h.dsOk d a, h.tlBlank, h.dsBlank, h.treeLt, h.dsLt⟩

theorem inv_of_invW {s : Store} {P Q : Nat → Prop} (h : InvW P Q s)
    (hl : ∀ l, ¬ P l → ∀ t, t ∈ (s.tl l).trees → (s.tree t).ns = (s.tl l).ns)
    (hd : ∀ d a, ¬ Q d → (s.ds d).att = some a →
      (∀ l, l ∈ (s.ds d).tls → (s.tl l).ns = a) ∧ (∀ m, m ∈ (s.ds d).mats → (s.mat m).ns = a)) : Inv s :=
  ⟨⟨h.treeOk, h.matOk, fun l t ht => by
      by_cases p : P l
      · exact h.listOk l p t ht
      · exact hl l p t ht, fun d a ha => by
      by_cases q : Q d
      · exact h.dsOk d a q ha
      · exact hd d a q ha⟩, h.tlBlank, h.dsBlank, h.treeLt, h.dsLt⟩

theorem invW_grows {P Q : Nat → Prop} {s s' : Store} (g : Grows s s') (h : InvW P Q s) : InvW P Q s' := by
  obtain ⟨h1, h2, h3, h4, h5, h6, h7, h8⟩ := h
  refine ⟨?_, ?_, ?_, ?_, ?_, ?_, ?_, ?_⟩
  · intro t x hx; rw [g.tree] at hx ⊢; exact g.mem _ _ (h1 t x hx)
  · intro m x hx; rw [g.mat] at hx ⊢; exact g.mem _ _ (h2 m x hx)
  · intro l p t ht; rw [g.tl] at ht ⊢; rw [g.tree]; exact h3 l p t ht
  · intro d a q ha; rw [g.ds] at ha ⊢; rw [g.tl, g.mat]; exact h4 d a q ha
  · intro l hl; rw [g.tl]; rw [g.nTl] at hl; exact h5 l hl
  · intro d hd; rw [g.ds]; rw [g.nDs] at hd; exact h6 d hd
  · intro l t ht; rw [g.tl] at ht; rw [g.nTree]; exact h7 l t ht
  · intro d; rw [g.ds, g.nTl, g.nMat]; exact h8 d

theorem invW_setTree {P Q : Nat → Prop} {s : Store} (h : InvW P Q s) (t : Nat) (v : Tree)
    (hv : ∀ x, some x ∈ v.taxa → x ∈ mem s v.ns)
    (hl : ∀ l, P l → t ∈ (s.tl l).trees → (s.tl l).ns = v.ns) : InvW P Q (setTree s t v) := by
  obtain ⟨h1, h2, h3, h4, h5, h6, h7, h8⟩ := h
  refine ⟨?_, h2, ?_, h4, h5, h6, h7, h8⟩
  · intro t' x hx
    simp only [setTree, upd] at hx ⊢
    split at hx
    · next e => simp only [e, if_true]; exact hv x hx
    · next e => simp only [e, if_false]; exact h1 t' x hx
  · intro l p t' ht'
    simp only [setTree, upd] at ht' ⊢
    split
    · next e => subst e; exact (hl l p ht').symm
    · exact h3 l p t' ht'

/-- what a pass over trees leaves untouched -/
structure MFrame (s s' : Store) : Prop where
  tl : s'.tl = s.tl
  nTl : s'.nTl = s.nTl
  nTree : s'.nTree = s.nTree
  mat : s'.mat = s.mat
  nMat : s'.nMat = s.nMat
  ds : s'.ds = s.ds
  nDs : s'.nDs = s.nDs
  nNs : s.nNs ≤ s'.nNs

theorem MFrame.refl (s : Store) : MFrame s s := ⟨rfl, rfl, rfl, rfl, rfl, rfl, rfl, Nat.le_refl _⟩
theorem MFrame.trans {a b c : Store} (h1 : MFrame a b) (h2 : MFrame b c) : MFrame a c :=
  ⟨h2.tl.trans h1.tl, h2.nTl.trans h1.nTl, h2.nTree.trans h1.nTree, h2.mat.trans h1.mat, h2.nMat.trans h1.nMat,
   h2.ds.trans h1.ds, h2.nDs.trans h1.nDs, Nat.le_trans h1.nNs h2.nNs⟩

theorem invW_migrateTree {P Q : Nat → Prop} {s : Store} (h : InvW P Q s) (t n : Nat) (u : Bool) (memo : Memo)
    (hl : ∀ l, P l → t ∈ (s.tl l).trees → (s.tl l).ns = n) :
    InvW P Q (migrateTree s t n u memo).1 ∧ (migrateTree s t n u memo).1.tl = s.tl
      ∧ (migrateTree s t n u memo).1.mat = s.mat ∧ (migrateTree s t n u memo).1.ds = s.ds
      ∧ (migrateTree s t n u memo).1.nTl = s.nTl ∧ (migrateTree s t n u memo).1.nDs = s.nDs
      ∧ (migrateTree s t n u memo).1.nMat = s.nMat ∧ (migrateTree s t n u memo).1.nTree = s.nTree
      ∧ ((migrateTree s t n u memo).1.tree t).ns = n
      ∧ (∀ t', t' ≠ t → (migrateTree s t n u memo).1.tree t' = s.tree t')
      ∧ (∀ k, mem s k ⊆ mem (migrateTree s t n u memo).1 k) := by
  simp only [migrateTree]
  have g := grows_mapTaxa n u (s.tree t).taxa s memo
  refine ⟨?_, g.tl, g.mat, g.ds, g.nTl, g.nDs, g.nMat, g.nTree, by simp [setTree, upd], ?_, fun k x hx => g.mem k x hx⟩
  · apply invW_setTree (invW_grows g h)
    · intro x hx; exact mem_mapTaxa n u _ s memo x hx
    · intro l p hin; rw [g.tl] at hin ⊢; exact hl l p hin
  · intro t' ht'; simp [setTree, upd, ht', g.tree]

theorem invW_migrateTrees {P Q : Nat → Prop} (n : Nat) (u : Bool) : ∀ (ts : List Nat) {s : Store} (memo : Memo), InvW P Q s →
    (∀ t, t ∈ ts → ∀ l, P l → t ∈ (s.tl l).trees → (s.tl l).ns = n) →
    InvW P Q (migrateTrees s n u memo ts).1 ∧ (migrateTrees s n u memo ts).1.tl = s.tl
      ∧ (migrateTrees s n u memo ts).1.mat = s.mat ∧ (migrateTrees s n u memo ts).1.ds = s.ds
      ∧ (migrateTrees s n u memo ts).1.nTl = s.nTl ∧ (migrateTrees s n u memo ts).1.nDs = s.nDs
      ∧ (migrateTrees s n u memo ts).1.nMat = s.nMat ∧ (migrateTrees s n u memo ts).1.nTree = s.nTree
      ∧ (∀ t, t ∈ ts → ((migrateTrees s n u memo ts).1.tree t).ns = n)
      ∧ (∀ t, ((migrateTrees s n u memo ts).1.tree t).ns = (s.tree t).ns ∨ ((migrateTrees s n u memo ts).1.tree t).ns = n)
      ∧ (∀ k, mem s k ⊆ mem (migrateTrees s n u memo ts).1 k)
  | [], s, memo, h, _ => ⟨h, rfl, rfl, rfl, rfl, rfl, rfl, rfl, by simp, fun _ => Or.inl rfl, fun _ _ hx => hx⟩
  | t :: ts, s, memo, h, hl => by
    simp only [migrateTrees]
    obtain ⟨i1, a1, b1, c1, d1, e1, f1, g1, n1, o1, m1⟩ := invW_migrateTree h t n u memo (hl t (by simp))
    obtain ⟨i2, a2, b2, c2, d2, e2, f2, g2, n2, o2, m2⟩ := invW_migrateTrees n u ts (migrateTree s t n u memo).2 i1
      (fun t' ht' l p hin => by rw [a1] at hin ⊢; exact hl t' (by simp [ht']) l p hin)
    refine ⟨i2, a2.trans a1, b2.trans b1, c2.trans c1, d2.trans d1, e2.trans e1, f2.trans f1, g2.trans g1, ?_, ?_,
      fun k x hx => m2 k (m1 k hx)⟩
    · intro t' ht'
      simp at ht'
      rcases ht' with e | ht'
      · subst e
        rcases o2 t' with o | o
        · rw [o]; exact n1
        · exact o
      · exact n2 t' ht'
    · intro t'
      rcases o2 t' with o | o
      · by_cases e : t' = t
        · subst e; right; rw [o]; exact n1
        · left; rw [o, o1 t' e]
      · exact Or.inr o

/-- `TreeList.migrate_taxon_namespace` with list `l` (and data sets failing `Q`) exempt while it runs -/
theorem invW_migrateTl {P Q : Nat → Prop} {s : Store} (h : InvW P Q s) (l n : Nat) (u : Bool) (memo : Memo)
    (hnP : ¬ P l)
    (hds : ∀ d a, Q d → (s.ds d).att = some a → l ∈ (s.ds d).tls → a = n)
    (hsh : ∀ t, t ∈ (s.tl l).trees → ∀ l', P l' → t ∈ (s.tl l').trees → (s.tl l').ns = n) :
    InvW P Q (migrateTl s l n u memo).1
      ∧ ((migrateTl s l n u memo).1.tl l).ns = n ∧ ((migrateTl s l n u memo).1.tl l).trees = (s.tl l).trees
      ∧ (∀ l', l' ≠ l → (migrateTl s l n u memo).1.tl l' = s.tl l')
      ∧ (migrateTl s l n u memo).1.mat = s.mat ∧ (migrateTl s l n u memo).1.ds = s.ds
      ∧ (migrateTl s l n u memo).1.nTl = s.nTl ∧ (migrateTl s l n u memo).1.nDs = s.nDs
      ∧ (migrateTl s l n u memo).1.nMat = s.nMat ∧ (migrateTl s l n u memo).1.nTree = s.nTree
      ∧ (∀ t, t ∈ (s.tl l).trees → ((migrateTl s l n u memo).1.tree t).ns = n)
      ∧ (∀ t, ((migrateTl s l n u memo).1.tree t).ns = (s.tree t).ns ∨ ((migrateTl s l n u memo).1.tree t).ns = n)
      ∧ (∀ k, mem s k ⊆ mem (migrateTl s l n u memo).1 k) := by
  simp only [migrateTl]
  have hw : InvW P Q { s with tl := upd s.tl l { (s.tl l) with ns := n } } := by
    obtain ⟨h1, h2, h3, h4, h5, h6, h7, h8⟩ := h
    refine ⟨h1, h2, ?_, ?_, ?_, h6, ?_, h8⟩
    · intro l' p t ht
      have ne : l' ≠ l := fun e => hnP (e ▸ p)
      simp only [upd, ne, if_false] at ht ⊢
      exact h3 l' p t ht
    · intro d a q ha
      have := h4 d a q ha
      refine ⟨fun l' hl' => ?_, this.2⟩
      simp only [upd]
      split
      · next e => subst e; exact (hds d a q ha hl').symm
      · exact this.1 l' hl'
    · intro l' hl'
      simp only [upd]
      split
      · next e => subst e; exact h5 l' hl'
      · exact h5 l' hl'
    · intro l' t ht
      simp only [upd] at ht
      split at ht
      · next e => subst e; exact h7 l' t ht
      · exact h7 l' t ht
  obtain ⟨i, a, b, c, d, e, f, g, nn, o, m⟩ := invW_migrateTrees (P := P) (Q := Q) n u (s.tl l).trees memo hw (by
    intro t ht l' p hin
    have ne : l' ≠ l := fun e => hnP (e ▸ p)
    simp only [upd, ne, if_false] at hin ⊢
    exact hsh t ht l' p hin)
  refine ⟨i, ?_, ?_, ?_, b, c, d, e, f, g, nn, o, m⟩
  · rw [a]; simp [upd]
  · rw [a]; simp [upd]
  · intro l' ne; rw [a]; simp [upd, ne]

theorem tlFree_fact {s : Store} (h : Inv s) {l n : Nat} {ex : Option Nat} (hf : tlFreeOfDs s l n ex = true) :
    ∀ d a, some d ≠ ex → (s.ds d).att = some a → l ∈ (s.ds d).tls → a = n := by
  intro d a hne ha hm
  by_cases hd : d < s.nDs
  · simp only [tlFreeOfDs, List.all_eq_true, List.mem_range] at hf
    have := hf d hd
    simp [ha] at this
    rcases this with (e | e) | e
    · exact absurd e hne
    · exact absurd hm e
    · exact e
  · have := (h.dsBlank d (Nat.le_of_not_lt hd)).1
    rw [this] at hm; simp at hm

/-- `TreeList.migrate_taxon_namespace` / `reconstruct_taxon_namespace` inside the ownership domain -/
theorem inv_migrateTl {s : Store} (h : Inv s) (l n : Nat) (u : Bool) (hv : tlRebindOk s l n none = true)
    (memo : Memo := []) : Inv (migrateTl s l n u memo).1 := by
  have hcase : (s.tl l).ns = n ∨ ((∀ t, t ∈ (s.tl l).trees → ∀ l', l' ≠ l → t ∉ (s.tl l').trees)
      ∧ ∀ d a, (s.ds d).att = some a → l ∈ (s.ds d).tls → a = n) := by
    simp only [tlRebindOk, Bool.or_eq_true, beq_iff_eq, Bool.and_eq_true, List.all_eq_true] at hv
    rcases hv with e | ⟨f, g⟩
    · exact Or.inl e
    · right
      refine ⟨fun t ht l' ne => free_of_freeTree h (f t ht) l' (by simp [ne]), ?_⟩
      intro d a ha hm
      exact tlFree_fact h g d a (by simp) ha hm
  obtain ⟨i, a, b, c, _, _, _, _, _, _, nn, _, _⟩ := invW_migrateTl (P := fun l' => l' ≠ l) (Q := fun _ => True)
    (invW_of_inv _ _ h) l n u memo (by simp)
    (by
      intro d a _ ha hm
      rcases hcase with e | ⟨_, g⟩
      · rw [← e]; exact ((h.dsOk d a ha).1 l hm).symm
      · exact g d a ha hm)
    (by
      intro t ht l' ne hin
      rcases hcase with e | ⟨f, _⟩
      · rw [← e, ← h.listOk l t ht]; exact (h.listOk l' t hin).symm
      · exact absurd hin (f t ht l' ne))
  apply inv_of_invW i
  · intro l' hn t ht
    have e : l' = l := by simpa using hn
    subst e
    rw [b] at ht
    rw [a]; exact nn t ht
  · intro d a q; exact absurd trivial q

/-! ### the `taxon_namespace` setter followed by `update_taxon_namespace()` (the 'add' strategy at tree, list and matrix level), matrix
combination, `purge_taxon_namespace` -/

theorem inv_addTree {s : Store} (h : Inv s) (t n : Nat)
    (hok : (s.tree t).ns = n ∨ ∀ l, t ∉ (s.tl l).trees) : Inv (addTree s t n) := by
  simp only [addTree]
  have g := grows_addAll n (s.tree t).taxa s
  apply inv_setTree (inv_grows g h)
  · intro x hx; exact mem_addAll n _ s x hx
  · intro l hl
    rw [g.tl] at hl ⊢
    rcases hok with e | f
    · rw [← e]; exact (h.listOk l t hl).symm
    · exact absurd hl (f l)

theorem invW_addTree {P Q : Nat → Prop} {s : Store} (h : InvW P Q s) (t n : Nat)
    (hl : ∀ l, P l → t ∈ (s.tl l).trees → (s.tl l).ns = n) :
    InvW P Q (addTree s t n) ∧ (addTree s t n).tl = s.tl
      ∧ (addTree s t n).mat = s.mat ∧ (addTree s t n).ds = s.ds
      ∧ (addTree s t n).nTl = s.nTl ∧ (addTree s t n).nDs = s.nDs
      ∧ (addTree s t n).nMat = s.nMat ∧ (addTree s t n).nTree = s.nTree
      ∧ ((addTree s t n).tree t).ns = n
      ∧ (∀ t', t' ≠ t → (addTree s t n).tree t' = s.tree t')
      ∧ (∀ k, mem s k ⊆ mem (addTree s t n) k) := by
  simp only [addTree]
  have g := grows_addAll n (s.tree t).taxa s
  refine ⟨?_, g.tl, g.mat, g.ds, g.nTl, g.nDs, g.nMat, g.nTree, by simp [setTree, upd], ?_, fun k x hx => g.mem k x hx⟩
  · apply invW_setTree (invW_grows g h)
    · intro x hx; exact mem_addAll n _ s x hx
    · intro l p hin; rw [g.tl] at hin ⊢; exact hl l p hin
  · intro t' ht'
    simp only [setTree, upd, ht', if_false]
    exact congrFun g.tree t'

theorem invW_addTrees {P Q : Nat → Prop} (n : Nat) : ∀ (ts : List Nat) {s : Store}, InvW P Q s →
    (∀ t, t ∈ ts → ∀ l, P l → t ∈ (s.tl l).trees → (s.tl l).ns = n) →
    InvW P Q (addTrees s n ts) ∧ (addTrees s n ts).tl = s.tl
      ∧ (addTrees s n ts).mat = s.mat ∧ (addTrees s n ts).ds = s.ds
      ∧ (addTrees s n ts).nTl = s.nTl ∧ (addTrees s n ts).nDs = s.nDs
      ∧ (addTrees s n ts).nMat = s.nMat ∧ (addTrees s n ts).nTree = s.nTree
      ∧ (∀ t, t ∈ ts → ((addTrees s n ts).tree t).ns = n)
      ∧ (∀ t, ((addTrees s n ts).tree t).ns = (s.tree t).ns ∨ ((addTrees s n ts).tree t).ns = n)
      ∧ (∀ k, mem s k ⊆ mem (addTrees s n ts) k)
  | [], s, h, _ => ⟨h, rfl, rfl, rfl, rfl, rfl, rfl, rfl, by simp, fun _ => Or.inl rfl, fun _ _ hx => hx⟩
  | t :: ts, s, h, hl => by
    simp only [addTrees]
    obtain ⟨i1, a1, b1, c1, d1, e1, f1, g1, n1, o1, m1⟩ := invW_addTree h t n (hl t (by simp))
    obtain ⟨i2, a2, b2, c2, d2, e2, f2, g2, n2, o2, m2⟩ := invW_addTrees n ts i1
      (fun t' ht' l p hin => by rw [a1] at hin ⊢; exact hl t' (by simp [ht']) l p hin)
    refine ⟨i2, a2.trans a1, b2.trans b1, c2.trans c1, d2.trans d1, e2.trans e1, f2.trans f1, g2.trans g1, ?_, ?_,
      fun k x hx => m2 k (m1 k hx)⟩
    · intro t' ht'
      simp at ht'
      rcases ht' with e | ht'
      · subst e
        rcases o2 t' with o | o
        · rw [o]; exact n1
        · exact o
      · exact n2 t' ht'
    · intro t'
      rcases o2 t' with o | o
      · by_cases e : t' = t
        · subst e; right; rw [o]; exact n1
        · left; rw [o, o1 t' e]
      · exact Or.inr o

/-- `tl.taxon_namespace = n; tl.update_taxon_namespace()` with list `l` (and data sets failing `Q`) exempt while it runs -/
theorem invW_addTl {P Q : Nat → Prop} {s : Store} (h : InvW P Q s) (l n : Nat)
    (hnP : ¬ P l)
    (hds : ∀ d a, Q d → (s.ds d).att = some a → l ∈ (s.ds d).tls → a = n)
    (hsh : ∀ t, t ∈ (s.tl l).trees → ∀ l', P l' → t ∈ (s.tl l').trees → (s.tl l').ns = n) :
    InvW P Q (addTl s l n)
      ∧ ((addTl s l n).tl l).ns = n ∧ ((addTl s l n).tl l).trees = (s.tl l).trees
      ∧ (∀ l', l' ≠ l → (addTl s l n).tl l' = s.tl l')
      ∧ (addTl s l n).mat = s.mat ∧ (addTl s l n).ds = s.ds
      ∧ (addTl s l n).nTl = s.nTl ∧ (addTl s l n).nDs = s.nDs
      ∧ (addTl s l n).nMat = s.nMat ∧ (addTl s l n).nTree = s.nTree
      ∧ (∀ t, t ∈ (s.tl l).trees → ((addTl s l n).tree t).ns = n)
      ∧ (∀ t, ((addTl s l n).tree t).ns = (s.tree t).ns ∨ ((addTl s l n).tree t).ns = n)
      ∧ (∀ k, mem s k ⊆ mem (addTl s l n) k) := by
  simp only [addTl]
  have hw : InvW P Q { s with tl := upd s.tl l { (s.tl l) with ns := n } } := by
    obtain ⟨h1, h2, h3, h4, h5, h6, h7, h8⟩ := h
    refine ⟨h1, h2, ?_, ?_, ?_, h6, ?_, h8⟩
    · intro l' p t ht
      have ne : l' ≠ l := fun e => hnP (e ▸ p)
      simp only [upd, ne, if_false] at ht ⊢
      exact h3 l' p t ht
    · intro d a q ha
      have := h4 d a q ha
      refine ⟨fun l' hl' => ?_, this.2⟩
      simp only [upd]
      split
      · next e => subst e; exact (hds d a q ha hl').symm
      · exact this.1 l' hl'
    · intro l' hl'
      simp only [upd]
      split
      · next e => subst e; exact h5 l' hl'
      · exact h5 l' hl'
    · intro l' t ht
      simp only [upd] at ht
      split at ht
      · next e => subst e; exact h7 l' t ht
      · exact h7 l' t ht
  obtain ⟨i, a, b, c, d, e, f, g, nn, o, m⟩ := invW_addTrees (P := P) (Q := Q) n (s.tl l).trees hw (by
    intro t ht l' p hin
    have ne : l' ≠ l := fun e => hnP (e ▸ p)
    simp only [upd, ne, if_false] at hin ⊢
    exact hsh t ht l' p hin)
  refine ⟨i, ?_, ?_, ?_, b, c, d, e, f, g, nn, o, m⟩
  · rw [a]; simp [upd]
  · rw [a]; simp [upd]
  · intro l' ne; rw [a]; simp [upd, ne]

/-- `tl.taxon_namespace = n; tl.update_taxon_namespace()` inside the ownership domain -/
theorem inv_addTl {s : Store} (h : Inv s) (l n : Nat) (hv : tlRebindOk s l n none = true) : Inv (addTl s l n) := by
  have hcase : (s.tl l).ns = n ∨ ((∀ t, t ∈ (s.tl l).trees → ∀ l', l' ≠ l → t ∉ (s.tl l').trees)
      ∧ ∀ d a, (s.ds d).att = some a → l ∈ (s.ds d).tls → a = n) := by
    simp only [tlRebindOk, Bool.or_eq_true, beq_iff_eq, Bool.and_eq_true, List.all_eq_true] at hv
    rcases hv with e | ⟨f, g⟩
    · exact Or.inl e
    · right
      refine ⟨fun t ht l' ne => free_of_freeTree h (f t ht) l' (by simp [ne]), ?_⟩
      intro d a ha hm
      exact tlFree_fact h g d a (by simp) ha hm
  obtain ⟨i, a, b, c, _, _, _, _, _, _, nn, _, _⟩ := invW_addTl (P := fun l' => l' ≠ l) (Q := fun _ => True)
    (invW_of_inv _ _ h) l n (by simp)
    (by
      intro d a _ ha hm
      rcases hcase with e | ⟨_, g⟩
      · rw [← e]; exact ((h.dsOk d a ha).1 l hm).symm
      · exact g d a ha hm)
    (by
      intro t ht l' ne hin
      rcases hcase with e | ⟨f, _⟩
      · rw [← e, ← h.listOk l t ht]; exact (h.listOk l' t hin).symm
      · exact absurd hin (f t ht l' ne))
  apply inv_of_invW i
  · intro l' hn t ht
    have e : l' = l := by simpa using hn
    subst e
    rw [b] at ht
    rw [a]; exact nn t ht
  · intro d a q; exact absurd trivial q


theorem grows_addKeys (n : Nat) : ∀ (xs : List Nat) (s : Store), Grows s (xs.foldl (fun acc x => addMember acc n x) s)
  | [], s => Grows.refl s
  | x :: xs, s => by
    simp only [List.foldl_cons]
    exact (grows_addMember s n x).trans (grows_addKeys n xs _)

theorem mem_addKeys (n : Nat) : ∀ (xs : List Nat) (s : Store) (y : Nat), y ∈ xs → y ∈ mem (xs.foldl (fun acc x => addMember acc n x) s) n
  | [], s, y => by simp
  | x :: xs, s, y => by
    intro h; simp at h
    simp only [List.foldl_cons]
    rcases h with h | h
    · subst h; exact (grows_addKeys n xs _).mem _ _ (mem_addMember s n y)
    · exact mem_addKeys n xs _ y h

/-- `m.taxon_namespace = n; m.update_taxon_namespace()` inside the ownership domain -/
theorem inv_addMat {s : Store} (h : Inv s) (m n : Nat)
    (hds : ∀ d a, (s.ds d).att = some a → m ∈ (s.ds d).mats → a = n) : Inv (addMat s m n) := by
  simp only [addMat]
  have g := grows_addKeys n (s.mat m).keys s
  obtain ⟨⟨h1, h2, h3, h4⟩, h5, h6, h7, h8⟩ := inv_grows g h
  refine ⟨⟨h1, ?_, h3, ?_⟩, h5, h6, h7, h8⟩
  · intro m' x hx
    simp only [upd] at hx ⊢
    split at hx
    · next e => simp only [e, if_true]; exact mem_addKeys n _ s x hx
    · next e => simp only [e, if_false]; exact h2 m' x hx
  · intro d a ha
    have := h4 d a ha
    refine ⟨this.1, fun m' hm' => ?_⟩
    simp only [upd]
    split
    · next e =>
      subst e
      have ha' : (s.ds d).att = some a := by rw [← g.ds]; exact ha
      have hm'' : m' ∈ (s.ds d).mats := by rw [← g.ds]; exact hm'
      exact (hds d a ha' hm'').symm
    · exact this.2 m' hm'

/-- `purge_taxon_namespace()`: closure survives exactly when every object bound to the purged namespace has all its taxa among the
kept ones (the caller is the only user of the namespace, or the others refer to a subset) -/
theorem inv_purge {s : Store} (h : Inv s) (n : Nat) (keep : List Nat)
    (ht : ∀ t x, (s.tree t).ns = n → some x ∈ (s.tree t).taxa → x ∈ keep)
    (hm : ∀ m x, (s.mat m).ns = n → x ∈ (s.mat m).keys → x ∈ keep) : Inv (purge s n keep) := by
  obtain ⟨⟨h1, h2, h3, h4⟩, h5, h6, h7, h8⟩ := h
  have hmem : ∀ k x, x ∈ mem s k → (k = n → x ∈ keep) → x ∈ mem (purge s n keep) k := by
    intro k x hx hk
    simp only [purge, mem, upd]
    split
    · next e =>
      subst e
      simp only [List.mem_filter, List.contains_iff_mem] 
      exact ⟨hx, by simpa using hk rfl⟩
    · exact hx
  refine ⟨⟨?_, ?_, h3, h4⟩, h5, h6, h7, h8⟩
  · intro t x hx
    exact hmem _ x (h1 t x hx) (fun e => ht t x e hx)
  · intro m x hx
    exact hmem _ x (h2 m x hx) (fun e => hm m x e hx)

/-! ### `DataSet.unify_taxon_namespaces` -/

/-- the static side conditions under which tree list `l` may be re-bound to `tgt` while the lists failing `P` and the data
sets failing `Q` are exempt -/
def HL (P Q : Nat → Prop) (tgt : Nat) (σ : Store) (l : Nat) : Prop :=
  (∀ d' a, Q d' → (σ.ds d').att = some a → l ∈ (σ.ds d').tls → a = tgt)
  ∧ (∀ t, t ∈ (σ.tl l).trees → ∀ l', P l' → t ∈ (σ.tl l').trees → (σ.tl l').ns = tgt)

theorem invW_migrateTls {P Q : Nat → Prop} (tgt : Nat) : ∀ (ls : List Nat) {σ : Store} (memo : Memo), InvW P Q σ →
    (∀ l, l ∈ ls → ¬ P l ∧ HL P Q tgt σ l) →
    InvW P Q (migrateTls σ tgt memo ls).1
      ∧ (migrateTls σ tgt memo ls).1.ds = σ.ds ∧ (migrateTls σ tgt memo ls).1.mat = σ.mat
      ∧ (migrateTls σ tgt memo ls).1.nTl = σ.nTl ∧ (migrateTls σ tgt memo ls).1.nDs = σ.nDs
      ∧ (migrateTls σ tgt memo ls).1.nMat = σ.nMat
      ∧ (∀ l, ((migrateTls σ tgt memo ls).1.tl l).trees = (σ.tl l).trees)
      ∧ (∀ l', P l' → (migrateTls σ tgt memo ls).1.tl l' = σ.tl l')
      ∧ (∀ l, l ∈ ls → ((migrateTls σ tgt memo ls).1.tl l).ns = tgt
            ∧ ∀ t, t ∈ (σ.tl l).trees → ((migrateTls σ tgt memo ls).1.tree t).ns = tgt)
      ∧ (∀ l, ((migrateTls σ tgt memo ls).1.tl l).ns = (σ.tl l).ns ∨ ((migrateTls σ tgt memo ls).1.tl l).ns = tgt)
      ∧ (∀ t, ((migrateTls σ tgt memo ls).1.tree t).ns = (σ.tree t).ns ∨ ((migrateTls σ tgt memo ls).1.tree t).ns = tgt)
  | [], σ, memo, h, _ => ⟨h, rfl, rfl, rfl, rfl, rfl, fun _ => rfl, fun _ _ => rfl, by simp, fun _ => Or.inl rfl, fun _ => Or.inl rfl⟩
  | l :: ls, σ, memo, h, hl => by
    simp only [migrateTls]
    obtain ⟨hnP, hd, hs⟩ := hl l (by simp)
    obtain ⟨i1, a1, b1, c1, m1, d1, t1, e1, f1, _, n1, o1, _⟩ := invW_migrateTl h l tgt true memo hnP hd hs
    have trees1 : ∀ l0, ((migrateTl σ l tgt true memo).1.tl l0).trees = (σ.tl l0).trees := by
      intro l0
      by_cases e : l0 = l
      · subst e; exact b1
      · rw [c1 l0 e]
    have tlP : ∀ l', P l' → (migrateTl σ l tgt true memo).1.tl l' = σ.tl l' := by
      intro l' p
      exact c1 l' (fun e => hnP (e ▸ p))
    have hl' : ∀ l0, l0 ∈ ls → ¬ P l0 ∧ HL P Q tgt (migrateTl σ l tgt true memo).1 l0 := by
      intro l0 h0
      obtain ⟨p0, hd0, hs0⟩ := hl l0 (by simp [h0])
      refine ⟨p0, ?_, ?_⟩
      · intro d' a q ha hm; rw [d1] at ha hm; exact hd0 d' a q ha hm
      · intro t ht l' p hin
        rw [trees1] at ht hin
        rw [tlP l' p]
        exact hs0 t ht l' p hin
    obtain ⟨i2, d2, m2, t2, e2, f2, tr2, p2, dn2, ln2, tn2⟩ := invW_migrateTls tgt ls (migrateTl σ l tgt true memo).2 i1 hl'
    refine ⟨i2, d2.trans d1, m2.trans m1, t2.trans t1, e2.trans e1, f2.trans f1, ?_, ?_, ?_, ?_, ?_⟩
    · intro l0; rw [tr2, trees1]
    · intro l' p; rw [p2 l' p, tlP l' p]
    · intro l0 h0
      simp at h0
      rcases h0 with e | h0
      · subst e
        refine ⟨?_, ?_⟩
        · rcases ln2 l0 with o | o
          · rw [o]; exact a1
          · exact o
        · intro t ht
          rcases tn2 t with o | o
          · rw [o]; exact n1 t ht
          · exact o
      · obtain ⟨x, y⟩ := dn2 l0 h0
        exact ⟨x, fun t ht => y t (by rw [trees1]; exact ht)⟩
    · intro l0
      rcases ln2 l0 with o | o
      · by_cases e : l0 = l
        · subst e; right; rw [o]; exact a1
        · left; rw [o, c1 l0 e]
      · exact Or.inr o
    · intro t
      rcases tn2 t with o | o
      · rcases o1 t with o' | o'
        · left; rw [o, o']
        · right; rw [o, o']
      · exact Or.inr o

theorem invW_migrateMat {P Q : Nat → Prop} {s : Store} (h : InvW P Q s) (m n : Nat) (u : Bool) (memo : Memo)
    (hok : (migrateMat s m n u memo).2.2 = true)
    (hds : ∀ d a, Q d → (s.ds d).att = some a → m ∈ (s.ds d).mats → a = n) :
    InvW P Q (migrateMat s m n u memo).1 ∧ (migrateMat s m n u memo).1.tl = s.tl ∧ (migrateMat s m n u memo).1.tree = s.tree
      ∧ (migrateMat s m n u memo).1.ds = s.ds ∧ (migrateMat s m n u memo).1.nTl = s.nTl
      ∧ (migrateMat s m n u memo).1.nDs = s.nDs ∧ (migrateMat s m n u memo).1.nMat = s.nMat
      ∧ ((migrateMat s m n u memo).1.mat m).ns = n
      ∧ (∀ m', m' ≠ m → (migrateMat s m n u memo).1.mat m' = s.mat m') := by
  simp only [migrateMat] at hok ⊢
  have g := grows_mapKeys n u (s.mat m).keys s memo (s.mat m).keys
  obtain ⟨h1, h2, h3, h4, h5, h6, h7, h8⟩ := invW_grows (P := P) (Q := Q) g h
  refine ⟨⟨h1, ?_, h3, ?_, h5, h6, h7, h8⟩, g.tl, g.tree, g.ds, g.nTl, g.nDs, g.nMat, by simp [upd], ?_⟩
  · intro m' x hx
    simp only [upd] at hx ⊢
    split at hx
    · next e =>
      simp only [e, if_true]
      rcases mem_mapKeys n u _ s memo _ hok x hx with hm | ⟨hc, hn⟩
      · exact hm
      · exact absurd hc hn
    · next e => simp only [e, if_false]; exact h2 m' x hx
  · intro d a q ha
    have := h4 d a q ha
    refine ⟨this.1, fun m' hm' => ?_⟩
    simp only [upd]
    split
    · next e =>
      subst e
      have ha' : (s.ds d).att = some a := by rw [← g.ds]; exact ha
      have hm'' : m' ∈ (s.ds d).mats := by rw [← g.ds]; exact hm'
      exact (hds d a q ha' hm'').symm
    · exact this.2 m' hm'
  · intro m' ne; simp [upd, ne, g.mat]

theorem invW_migrateMats {P Q : Nat → Prop} (tgt : Nat) : ∀ (ms : List Nat) {σ : Store} (memo : Memo), InvW P Q σ →
    (migrateMats σ tgt memo ms).2.2 = true →
    (∀ m, m ∈ ms → ∀ d a, Q d → (σ.ds d).att = some a → m ∈ (σ.ds d).mats → a = tgt) →
    InvW P Q (migrateMats σ tgt memo ms).1 ∧ (migrateMats σ tgt memo ms).1.tl = σ.tl
      ∧ (migrateMats σ tgt memo ms).1.tree = σ.tree ∧ (migrateMats σ tgt memo ms).1.ds = σ.ds
      ∧ (migrateMats σ tgt memo ms).1.nTl = σ.nTl ∧ (migrateMats σ tgt memo ms).1.nDs = σ.nDs
      ∧ (migrateMats σ tgt memo ms).1.nMat = σ.nMat
      ∧ (∀ m, m ∈ ms → ((migrateMats σ tgt memo ms).1.mat m).ns = tgt)
      ∧ (∀ m, ((migrateMats σ tgt memo ms).1.mat m).ns = (σ.mat m).ns ∨ ((migrateMats σ tgt memo ms).1.mat m).ns = tgt)
  | [], σ, memo, h, _, _ => ⟨h, rfl, rfl, rfl, rfl, rfl, rfl, by simp, fun _ => Or.inl rfl⟩
  | m :: ms, σ, memo, h, hok, hd => by
    simp only [migrateMats] at hok ⊢
    split at hok
    · next ok1 =>
      simp only [ok1, if_true]
      obtain ⟨i1, a1, b1, c1, d1, e1, f1, n1, o1⟩ := invW_migrateMat h m tgt true memo ok1 (hd m (by simp))
      obtain ⟨i2, a2, b2, c2, d2, e2, f2, n2, o2⟩ := invW_migrateMats tgt ms (migrateMat σ m tgt true memo).2.1 i1 hok
        (fun m' hm' d a q ha hin => by rw [c1] at ha hin; exact hd m' (by simp [hm']) d a q ha hin)
      refine ⟨i2, a2.trans a1, b2.trans b1, c2.trans c1, d2.trans d1, e2.trans e1, f2.trans f1, ?_, ?_⟩
      · intro m' hm'
        simp at hm'
        rcases hm' with e | hm'
        · subst e
          rcases o2 m' with o | o
          · rw [o]; exact n1
          · exact o
        · exact n2 m' hm'
      · intro m'
        rcases o2 m' with o | o
        · by_cases e : m' = m
          · subst e; right; rw [o]; exact n1
          · left; rw [o, o1 m' e]
        · exact Or.inr o
    · next ok1 => exact absurd hok ok1

theorem invW_setDs {P : Nat → Prop} {s : Store} (d : Nat) (h : InvW P (fun d' => d' ≠ d) s) (v : DS) (hd : d < s.nDs)
    (hl : ∀ l, l ∈ v.tls → l < s.nTl) (hm : ∀ m, m ∈ v.mats → m < s.nMat) : InvW P (fun d' => d' ≠ d) (setDs s d v) := by
  obtain ⟨h1, h2, h3, h4, h5, h6, h7, h8⟩ := h
  refine ⟨h1, h2, h3, ?_, h5, ?_, h7, ?_⟩
  · intro d' a q ha
    simp only [setDs, upd, q, if_false] at ha ⊢
    exact h4 d' a q ha
  · intro d' hd'
    have : d' ≠ d := by simp only [setDs] at hd'; omega
    simp only [setDs, upd, this, if_false]
    exact h6 d' hd'
  · intro d'
    simp only [setDs, upd]
    split
    · exact ⟨hl, hm⟩
    · exact h8 d'

theorem inv_of_invW_setDs {P : Nat → Prop} {s : Store} (d : Nat) (h : InvW P (fun d' => d' ≠ d) s)
    (hlist : ∀ l, ¬ P l → ∀ t, t ∈ (s.tl l).trees → (s.tree t).ns = (s.tl l).ns)
    (v : DS) (hd : d < s.nDs)
    (ha : ∀ a, v.att = some a → (∀ l, l ∈ v.tls → (s.tl l).ns = a) ∧ (∀ m, m ∈ v.mats → (s.mat m).ns = a))
    (hl : ∀ l, l ∈ v.tls → l < s.nTl) (hm : ∀ m, m ∈ v.mats → m < s.nMat) : Inv (setDs s d v) := by
  have w := invW_setDs d h v hd hl hm
  apply inv_of_invW w
  · intro l np t ht; exact hlist l np t ht
  · intro d' a nq hatt
    have e : d' = d := by simpa using nq
    subst e
    simp only [setDs, upd, if_true] at hatt ⊢
    exact ha a hatt

theorem matFree_fact' {s : Store} (h : Inv s) {m n : Nat} {ex : Option Nat} (hf : matFreeOfDs s m n ex = true) :
    ∀ d a, some d ≠ ex → (s.ds d).att = some a → m ∈ (s.ds d).mats → a = n := by
  intro d a hne ha hm
  by_cases hd : d < s.nDs
  · simp only [matFreeOfDs, List.all_eq_true, List.mem_range] at hf
    have := hf d hd
    simp [ha] at this
    rcases this with (e | e) | e
    · exact absurd e hne
    · exact absurd hm e
    · exact e
  · have := (h.dsBlank d (Nat.le_of_not_lt hd)).2
    rw [this] at hm; simp at hm

/-- the migrating part of `unify_taxon_namespaces`, from any store in which the data set's lists and the data set itself are exempt -/
theorem inv_unify_core {σ0 : Store} (d tgt : Nat) (tls mats : List Nat)
    (hw : InvW (fun l => l ∉ tls) (fun d' => d' ≠ d) σ0) (hd : d < σ0.nDs)
    (htls : (σ0.ds d).tls = tls) (hmats : (σ0.ds d).mats = mats)
    (hL : ∀ l, l ∈ tls → HL (fun l => l ∉ tls) (fun d' => d' ≠ d) tgt σ0 l)
    (hM : ∀ m, m ∈ mats → ∀ d' a, d' ≠ d → (σ0.ds d').att = some a → m ∈ (σ0.ds d').mats → a = tgt)
    (hok : (migrateMats (migrateTls σ0 tgt [] tls).1 tgt (migrateTls σ0 tgt [] tls).2 mats).2.2 = true)
    (nss' : List Nat) :
    Inv (setDs (migrateMats (migrateTls σ0 tgt [] tls).1 tgt (migrateTls σ0 tgt [] tls).2 mats).1 d
      { ((migrateMats (migrateTls σ0 tgt [] tls).1 tgt (migrateTls σ0 tgt [] tls).2 mats).1.ds d) with
          nss := nss', att := some tgt }) := by
  obtain ⟨i1, d1, m1, t1, e1, f1, tr1, p1, dn1, _, _⟩ := invW_migrateTls (P := fun l => l ∉ tls) (Q := fun d' => d' ≠ d)
    tgt tls [] hw (fun l hl => ⟨by simpa using hl, hL l hl⟩)
  obtain ⟨i2, a2, b2, c2, d2, e2, f2, n2, _⟩ := invW_migrateMats (P := fun l => l ∉ tls) (Q := fun d' => d' ≠ d)
    tgt mats (migrateTls σ0 tgt [] tls).2 i1 hok
    (fun m hm d' a q ha hin => by rw [d1] at ha hin; exact hM m hm d' a q ha hin)
  have dsd : (migrateMats (migrateTls σ0 tgt [] tls).1 tgt (migrateTls σ0 tgt [] tls).2 mats).1.ds d = σ0.ds d := by
    rw [c2, d1]
  apply inv_of_invW_setDs d i2
  · intro l np t ht
    have hl : l ∈ tls := by simpa using np
    rw [a2, b2] at *
    rw [tr1] at ht
    obtain ⟨x, y⟩ := dn1 l hl
    rw [x]; exact y t ht
  · rw [e2, e1]; exact hd
  · intro a ha
    simp only at ha
    have e : a = tgt := (Option.some.inj ha).symm
    subst e
    rw [dsd]
    refine ⟨fun l hl => ?_, fun m hm => ?_⟩
    · rw [htls] at hl; rw [a2]; exact (dn1 l hl).1
    · rw [hmats] at hm; exact n2 m hm
  · intro l hl
    rw [dsd, htls] at hl
    rw [d2, t1]
    have := (hw.dsLt d).1 l (by rw [htls]; exact hl)
    exact this
  · intro m hm
    rw [dsd, hmats] at hm
    rw [f2, f1]
    exact (hw.dsLt d).2 m (by rw [hmats]; exact hm)

theorem inv_dsunify {s : Store} (h : Inv s) (d : Nat) (n : Option Nat) (hd : d < s.nDs)
    (ho : owner s (.dsunify d n) = true) : Inv (step s (.dsunify d n)).1 := by
  simp only [owner, Bool.and_eq_true, List.all_eq_true, Bool.or_eq_true, beq_iff_eq] at ho
  obtain ⟨⟨hA, hB⟩, hC⟩ := ho
  -- static side conditions, in terms of `s`
  have hLs : ∀ l, l ∈ (s.ds d).tls →
      (∀ d' a, d' ≠ d → (s.ds d').att = some a → l ∈ (s.ds d').tls → a = n.getD s.nNs)
      ∧ (∀ t, t ∈ (s.tl l).trees → ∀ l', l' ∉ (s.ds d).tls → t ∈ (s.tl l').trees → (s.tl l').ns = n.getD s.nNs) := by
    intro l hl
    rcases hA l hl with e | ⟨f, g⟩
    · refine ⟨fun d' a _ ha hm => ?_, fun t ht l' _ hin => ?_⟩
      · rw [← e]; exact ((h.dsOk d' a ha).1 l hm).symm
      · rw [← e, ← h.listOk l t ht]; exact (h.listOk l' t hin).symm
    · refine ⟨fun d' a ne ha hm => tlFree_fact h g d' a (by simp [ne]) ha hm, fun t ht l' hn hin => ?_⟩
      by_cases hl' : l' < s.nTl
      · have := f t ht l' (by simpa using hl')
        simp at this
        rcases this with x | x
        · exact absurd hin x
        · exact absurd x hn
      · have := h.tlBlank l' (Nat.le_of_not_lt hl'); rw [this] at hin; simp at hin
  have hMs : ∀ m, m ∈ (s.ds d).mats → ∀ d' a, d' ≠ d → (s.ds d').att = some a → m ∈ (s.ds d').mats → a = n.getD s.nNs := by
    intro m hm d' a ne ha hin
    rcases hB m hm with e | g
    · rw [← e]; exact ((h.dsOk d' a ha).2 m hin).symm
    · exact matFree_fact' h g d' a (by simp [ne]) ha hin
  have hw0 : InvW (fun l => l ∉ (s.ds d).tls) (fun d' => d' ≠ d) (setDs s d { (s.ds d) with nss := [] }) :=
    invW_setDs d (invW_of_inv _ _ h) _ hd (h.dsLt d).1 (h.dsLt d).2
  cases n with
  | some n0 =>
    simp only [Option.getD] at hLs hMs
    simp only [step] at hC ⊢
    split
    · next hcond =>
      simp only [Bool.and_eq_true, List.isEmpty_iff] at hcond
      apply inv_setDs h d _ hd
      · intro a _; simp [hcond.1.2, hcond.2]
      · simp [hcond.1.2]
      · simp [hcond.2]
    · next hcond =>
      simp only [hcond] at hC
      split
      · next hok =>
        refine inv_unify_core d n0 (s.ds d).tls (s.ds d).mats hw0 hd (by simp [setDs, upd]) (by simp [setDs, upd]) ?_ ?_ hok _
        · intro l hl
          obtain ⟨x, y⟩ := hLs l hl
          refine ⟨fun d' a q ha hm => ?_, fun t ht l' p hin => y t ht l' p hin⟩
          simp only [setDs, upd, q, if_false] at ha hm
          exact x d' a q ha hm
        · intro m hm d' a q ha hin
          simp only [setDs, upd, q, if_false] at ha hin
          exact hMs m hm d' a q ha hin
      · next hok =>
        simp [hok] at hC
  | none =>
    simp only [Option.getD] at hLs hMs
    simp only [step] at hC ⊢
    split
    · next hcond => exact h
    · next hcond =>
      simp only [hcond] at hC
      split
      · next hok =>
        have g := grows_newNs (setDs s d { (s.ds d) with nss := [] }) false
        have hw1 := invW_setDs d (invW_grows g hw0)
          { ((newNs (setDs s d { (s.ds d) with nss := [] }) false).1.ds d) with
              nss := addOnce ((newNs (setDs s d { (s.ds d) with nss := [] }) false).1.ds d).nss
                (newNs (setDs s d { (s.ds d) with nss := [] }) false).2 }
          (by simpa [newNs, setDs] using hd)
          (by intro l hl; simp [newNs, setDs, upd] at hl ⊢; exact (h.dsLt d).1 l hl)
          (by intro m hm; simp [newNs, setDs, upd] at hm ⊢; exact (h.dsLt d).2 m hm)
        refine inv_unify_core d s.nNs (s.ds d).tls (s.ds d).mats hw1 (by simpa [dsAddNs, newNs, setDs] using hd)
          (by simp [dsAddNs, newNs, setDs, upd]) (by simp [dsAddNs, newNs, setDs, upd]) ?_ ?_ hok _
        · intro l hl
          obtain ⟨x, y⟩ := hLs l hl
          refine ⟨fun d' a q ha hm => ?_, fun t ht l' p hin => y t ht l' p hin⟩
          simp only [newNs, setDs, upd, q, if_false] at ha hm
          exact x d' a q ha hm
        · intro m hm d' a q ha hin
          simp only [newNs, setDs, upd, q, if_false] at ha hin
          exact hMs m hm d' a q ha hin
      · next hok =>
        simp [hok] at hC

/-! ### `DataSet.read` -/

theorem grows_requireList (n : Nat) (cs : Bool) : ∀ (ls : List String) (s : Store),
    Grows s (requireList s n cs ls).1 ∧ ∀ x, x ∈ (requireList s n cs ls).2 → x ∈ mem (requireList s n cs ls).1 n
  | [], s => ⟨Grows.refl s, by simp [requireList]⟩
  | l :: ls, s => by
    simp only [requireList]
    obtain ⟨g2, m2⟩ := grows_requireList n cs ls (require s n cs l).1
    refine ⟨(grows_require s n cs l).trans g2, ?_⟩
    intro x hx
    simp at hx
    rcases hx with e | hx
    · subst e; exact g2.mem _ _ (mem_require s n cs l)
    · exact m2 x hx

theorem inv_dsAddMat {s : Store} (h : Inv s) (d m : Nat) (hd : d < s.nDs) (hm : m < s.nMat)
    (hatt : ∀ a, (s.ds d).att = some a → (s.mat m).ns = a) : Inv (dsAddMat s d m) := by
  simp only [dsAddMat]
  apply inv_setDs h d _ hd
  · intro a ha
    have := h.dsOk d a ha
    refine ⟨this.1, fun m' hm' => ?_⟩
    rcases mem_addOnce hm' with hm' | hm'
    · exact this.2 m' hm'
    · subst hm'; exact hatt a ha
  · exact (h.dsLt d).1
  · intro m' hm'
    rcases mem_addOnce hm' with hm' | hm'
    · exact (h.dsLt d).2 m' hm'
    · subst hm'; exact hm

theorem inv_dsAddTl {s : Store} (h : Inv s) (d l : Nat) (hd : d < s.nDs) (hl : l < s.nTl)
    (hatt : ∀ a, (s.ds d).att = some a → (s.tl l).ns = a) : Inv (dsAddTl s d l) := by
  simp only [dsAddTl]
  apply inv_setDs h d _ hd
  · intro a ha
    have := h.dsOk d a ha
    refine ⟨fun l' hl' => ?_, this.2⟩
    rcases mem_addOnce hl' with hl' | hl'
    · exact this.1 l' hl'
    · subst hl'; exact hatt a ha
  · intro l' hl'
    rcases mem_addOnce hl' with hl' | hl'
    · exact (h.dsLt d).1 l' hl'
    · subst hl'; exact hl
  · exact (h.dsLt d).2

/-- data set `d` is detached or attached to exactly `n` -/
def AttOk (s : Store) (d n : Nat) : Prop := d < s.nDs ∧ ∀ a, (s.ds d).att = some a → a = n

theorem attOk_grows {s s' : Store} {d n : Nat} (g : Grows s s') (h : AttOk s d n) : AttOk s' d n := by
  refine ⟨by rw [g.nDs]; exact h.1, ?_⟩
  intro a ha; rw [g.ds] at ha; exact h.2 a ha

theorem inv_readMatrix {s : Store} (h : Inv s) (d n : Nat) (cs : Bool) (rows : List String) (ha : AttOk s d n) :
    Inv (dsAddMat (allocMat (requireList s n cs rows).1 { ns := n, keys := mergeKeys [] (requireList s n cs rows).2 }).1 d
          (allocMat (requireList s n cs rows).1 { ns := n, keys := mergeKeys [] (requireList s n cs rows).2 }).2)
    ∧ AttOk (dsAddMat (allocMat (requireList s n cs rows).1 { ns := n, keys := mergeKeys [] (requireList s n cs rows).2 }).1 d
          (allocMat (requireList s n cs rows).1 { ns := n, keys := mergeKeys [] (requireList s n cs rows).2 }).2) d n := by
  obtain ⟨g, m⟩ := grows_requireList n cs rows s
  have ha1 := attOk_grows g ha
  have i1 : Inv (allocMat (requireList s n cs rows).1 { ns := n, keys := mergeKeys [] (requireList s n cs rows).2 }).1 := by
    apply inv_allocMat (inv_grows g h)
    intro x hx
    rcases mergeKeys_sub _ _ x hx with hx | hx
    · simp at hx
    · exact m x hx
  refine ⟨?_, ?_⟩
  · apply inv_dsAddMat i1 d _ (by simp only [allocMat]; exact ha1.1) (by simp [allocMat])
    intro a hatt
    have : a = n := ha1.2 a hatt
    subst this
    simp [allocMat, upd]
  · refine ⟨by simp only [dsAddMat, setDs, allocMat]; exact ha1.1, ?_⟩
    intro a hatt
    simp only [dsAddMat, setDs, upd, if_true, allocMat] at hatt
    exact ha1.2 a hatt

theorem inv_readTreeBlock {s : Store} (h : Inv s) (d n : Nat) (docs : List (List String)) (ha : AttOk s d n) :
    Inv (setTrees (readTrees (dsAddTl (allocTl s n).1 d (allocTl s n).2) n docs).1 (allocTl s n).2
          (readTrees (dsAddTl (allocTl s n).1 d (allocTl s n).2) n docs).2) := by
  have i1 := inv_allocTl h n
  have i2 : Inv (dsAddTl (allocTl s n).1 d (allocTl s n).2) := by
    apply inv_dsAddTl i1 d _ (by simp only [allocTl]; exact ha.1) (by simp [allocTl])
    intro a hatt
    have : a = n := ha.2 a hatt
    subst this
    simp [allocTl, upd]
  obtain ⟨i3, f3, e3⟩ := inv_readTrees n docs i2
  apply inv_setTrees i3 _ _ (by rw [f3.nTl]; simp [dsAddTl, setDs, allocTl])
  intro t ht
  rw [f3.tl]
  have e : ((dsAddTl (allocTl s n).1 d (allocTl s n).2).tl (allocTl s n).2).ns = n := by
    simp [dsAddTl, setDs, allocTl, upd]
  rw [e]
  exact e3 t ht

/-- several migrations sharing one caller-supplied memo, each inside the ownership domain in the store it meets -/
theorem inv_chain : ∀ (gs : List Mig) {s : Store} (memo : Memo), Inv s → chainOk s memo gs = true → Inv (chain s memo gs).1
  | [], _, _, h, _ => h
  | g :: gs, s, memo, h, hv => by
    simp only [chain]
    simp only [chainOk] at hv
    split
    · next hk =>
      simp only [hk, Bool.and_eq_true] at hv
      exact inv_chain gs _ (inv_migrateTree h g.obj g.ns g.unify memo (ok_of_rebindOk_none h hv.1)) hv.2
    · next hk =>
      simp only [hk, Bool.and_eq_true, decide_eq_true_eq] at hv
      exact inv_chain gs _ (inv_migrateTl h g.obj g.ns g.unify hv.1.2 memo) hv.2
    · next hk =>
      simp only [hk, Bool.and_eq_true, Bool.or_eq_true, beq_iff_eq] at hv
      have i := inv_migrateMat h g.obj g.ns g.unify memo hv.1.2 (by
        rcases hv.1.1 with e | f
        · intro d a ha hm; rw [← e]; exact ((h.dsOk d a ha).2 g.obj hm).symm
        · exact matFree_fact h f)
      simp only [hv.1.2, if_true]
      exact inv_chain gs _ i hv.2

/-- trees read from a further source into list `l` (any schema: with or without a TAXA-like block) -/
theorem inv_readInto {s : Store} (h : Inv s) (l : Nat) (pre : List String) (docs : List (List String)) (hl : l < s.nTl) :
    Inv (readInto s l pre docs) := by
  simp only [readInto]
  obtain ⟨g, _⟩ := grows_requireList (s.tl l).ns (s.ns (s.tl l).ns).cs pre s
  have i1 := inv_grows g h
  obtain ⟨i2, f2, e2⟩ := inv_readTrees (s.tl l).ns docs i1
  apply inv_appendNew i1 i2 f2 l (by rw [g.nTl]; exact hl)
  intro t ht
  rw [g.tl]
  exact e2 t ht

/-- the four shapes of a document, read into namespace `n` of a data set that is detached or attached to `n` -/
theorem inv_dsread_core {σ : Store} (i0 : Inv σ) (d n : Nat) (cs : Bool) (taxa : List String) (a0 : AttOk σ d n) :
    Inv (requireList σ n cs taxa).1
    ∧ (∀ rows, Inv (dsAddMat (allocMat (requireList (requireList σ n cs taxa).1 n cs rows).1
          { ns := n, keys := mergeKeys [] (requireList (requireList σ n cs taxa).1 n cs rows).2 }).1 d
        (allocMat (requireList (requireList σ n cs taxa).1 n cs rows).1
          { ns := n, keys := mergeKeys [] (requireList (requireList σ n cs taxa).1 n cs rows).2 }).2))
    ∧ (∀ docs, Inv (setTrees (readTrees (dsAddTl (allocTl (requireList σ n cs taxa).1 n).1 d (allocTl (requireList σ n cs taxa).1 n).2) n docs).1
          (allocTl (requireList σ n cs taxa).1 n).2
          (readTrees (dsAddTl (allocTl (requireList σ n cs taxa).1 n).1 d (allocTl (requireList σ n cs taxa).1 n).2) n docs).2))
    ∧ (∀ rows docs s2, s2 = dsAddMat (allocMat (requireList (requireList σ n cs taxa).1 n cs rows).1
          { ns := n, keys := mergeKeys [] (requireList (requireList σ n cs taxa).1 n cs rows).2 }).1 d
        (allocMat (requireList (requireList σ n cs taxa).1 n cs rows).1
          { ns := n, keys := mergeKeys [] (requireList (requireList σ n cs taxa).1 n cs rows).2 }).2 →
        Inv (setTrees (readTrees (dsAddTl (allocTl s2 n).1 d (allocTl s2 n).2) n docs).1 (allocTl s2 n).2
          (readTrees (dsAddTl (allocTl s2 n).1 d (allocTl s2 n).2) n docs).2)) := by
  obtain ⟨g1, _⟩ := grows_requireList n cs taxa σ
  have i1 := inv_grows g1 i0
  have a1 := attOk_grows g1 a0
  refine ⟨i1, fun rows => (inv_readMatrix i1 d n cs rows a1).1, fun docs => inv_readTreeBlock i1 d n docs a1, ?_⟩
  intro rows docs s2 hs2
  obtain ⟨i2, a2⟩ := inv_readMatrix i1 d n cs rows a1
  rw [← hs2] at i2 a2
  exact inv_readTreeBlock i2 d n docs a2

theorem inv_dsread {s : Store} (h : Inv s) (d : Nat) (taxa : List String) (rows : Option (List String))
    (trees : Option (List (List String))) (hd : d < s.nDs) : Inv (step s (.dsread d taxa rows trees)).1 := by
  cases hatt : (s.ds d).att with
  | some a =>
    have a0 : AttOk s d a := ⟨hd, fun a' ha' => by rw [hatt] at ha'; exact (Option.some.inj ha').symm⟩
    obtain ⟨c1, c2, c3, c4⟩ := inv_dsread_core h d a (s.ns a).cs taxa a0
    cases rows with
    | none =>
      cases trees with
      | none => simp only [step, hatt]; exact c1
      | some docs => simp only [step, hatt]; exact c3 docs
    | some rows =>
      cases trees with
      | none => simp only [step, hatt]; exact c2 rows
      | some docs => simp only [step, hatt]; exact c4 rows docs _ rfl
  | none =>
    have g := grows_newNs s false
    have i := inv_grows g h
    have i0 : Inv (dsAddNs (newNs s false).1 d (newNs s false).2) := by
      simp only [dsAddNs]
      exact inv_setDs i d _ (by rw [g.nDs]; exact hd) (i.dsOk d) (i.dsLt d).1 (i.dsLt d).2
    have a0 : AttOk (dsAddNs (newNs s false).1 d (newNs s false).2) d (newNs s false).2 := by
      refine ⟨by simp only [dsAddNs, setDs, newNs]; exact hd, ?_⟩
      intro a ha
      simp only [dsAddNs, setDs, upd, if_true, newNs] at ha
      rw [hatt] at ha; simp at ha
    obtain ⟨c1, c2, c3, c4⟩ := inv_dsread_core i0 d (newNs s false).2
      (((dsAddNs (newNs s false).1 d (newNs s false).2).ns (newNs s false).2).cs) taxa a0
    cases rows with
    | none =>
      cases trees with
      | none => simp only [step, hatt]; exact c1
      | some docs => simp only [step, hatt]; exact c3 docs
    | some rows =>
      cases trees with
      | none => simp only [step, hatt]; exact c2 rows
      | some docs => simp only [step, hatt]; exact c4 rows docs _ rfl

end Aux

/-- CLOSURE, every operation.  Clauses (a) and (c) of the statement (with the allocation discipline) are preserved by EVERY
operation of the container alphabet inside the ownership domain `valid`: besides the operations of `closed_step_partial` also
`+` with a plain list, `TreeList(...)` copies, `TreeList`/`CharacterMatrix` `migrate_taxon_namespace`/`reconstruct_taxon_namespace`
(a matrix pass that is refused is outside `valid`: see the known finding), matrix copies, `DataSet.unify_taxon_namespaces`
and `DataSet.read`. -/
theorem closed_step (s : Store) (op : Op) (h : Inv s) (hv : valid s op = true) : Inv (step s op).1 := by
  cases hc : covered op with
  | true => exact closed_step_partial s op h hv hc
  | false =>
    have hv' := hv
    simp only [valid, Bool.and_eq_true] at hv'
    obtain ⟨⟨_, hr⟩, ho⟩ := hv'
    cases op with
    | add l src =>
      cases src with
      | list l2 => simp [covered] at hc
      | trees ts => simp only [owner] at ho; exact inv_add_trees h l ts ho
    | lclone l n => exact inv_lclone h l n
    | mclone m n => simp only [step]; exact inv_cloneMat h m _
    | lmig l n u => simp only [owner] at ho; simp only [step]; exact inv_migrateTl h l n u ho
    | lrec l u => simp only [step]; exact inv_migrateTl h l _ u (by simp [tlRebindOk])
    | mmig m n u =>
      simp only [owner, Bool.and_eq_true, Bool.or_eq_true, beq_iff_eq] at ho
      simp only [step]
      apply inv_migrateMat h m n u [] ho.2
      rcases ho.1 with e | f
      · intro d a ha hm; rw [← e]; exact ((h.dsOk d a ha).2 m hm).symm
      · exact matFree_fact h f
    | mrec m u =>
      simp only [owner] at ho
      simp only [step]
      apply inv_migrateMat h m _ u [] ho
      intro d a ha hm; exact ((h.dsOk d a ha).2 m hm).symm
    | dsunify d n =>
      simp only [inRange, decide_eq_true_eq] at hr
      exact inv_dsunify h d n hr ho
    | dsread d taxa rows trees =>
      simp only [inRange, decide_eq_true_eq] at hr
      exact inv_dsread h d taxa rows trees hr
    | chain gs => simp only [owner] at ho; simp only [step]; exact inv_chain gs [] h ho
    | readx l pre docs =>
      simp only [inRange, decide_eq_true_eq] at hr
      simp only [step]; exact inv_readInto h l pre docs hr
    | tlget n pre docs =>
      simp only [step]
      exact inv_readInto (inv_allocTl h n) _ pre docs (by simp [allocTl])
    | tget n pre labels =>
      simp only [step]
      obtain ⟨g1, _⟩ := grows_requireList n (s.ns n).cs pre s
      obtain ⟨g2, m2⟩ := grows_requireLastList n (s.ns n).cs labels (requireList s n (s.ns n).cs pre).1
      apply inv_allocTree (inv_grows (g1.trans g2) h)
      intro x hx
      simp at hx
      exact m2 x hx
    | mget n last pre rows =>
      simp only [step]
      obtain ⟨g1, _⟩ := grows_requireList n (s.ns n).cs pre s
      cases last with
      | true =>
        obtain ⟨g2, m2⟩ := grows_requireLastList n (s.ns n).cs rows (requireList s n (s.ns n).cs pre).1
        apply inv_allocMat (inv_grows (g1.trans g2) h)
        intro x hx
        rcases mergeKeys_sub _ _ x hx with hx | hx
        · simp at hx
        · exact m2 x hx
      | false =>
        obtain ⟨g2, m2⟩ := grows_requireList n (s.ns n).cs rows (requireList s n (s.ns n).cs pre).1
        apply inv_allocMat (inv_grows (g1.trans g2) h)
        intro x hx
        rcases mergeKeys_sub _ _ x hx with hx | hx
        · simp at hx
        · exact m2 x hx
    | tassign t n a =>
      simp only [owner] at ho
      cases a with
      | true =>
        simp only [step]
        split
        · exact h
        · exact inv_migrateTree h t n true [] (ok_of_rebindOk_none h ho)
      | false => simp only [step]; exact inv_addTree h t n (ok_of_rebindOk_none h ho)
    | lassign l n a =>
      simp only [owner] at ho
      cases a with
      | true =>
        simp only [step]
        split
        · exact h
        · exact inv_migrateTl h l n true ho
      | false => simp only [step]; exact inv_addTl h l n ho
    | massign m n a =>
      simp only [owner, Bool.or_eq_true, Bool.and_eq_true, beq_iff_eq] at ho
      have hds : ∀ d a', (s.ds d).att = some a' → m ∈ (s.ds d).mats → a' = n := by
        rcases ho with e | ⟨f, _⟩
        · intro d a' ha hm; rw [← e]; exact ((h.dsOk d a' ha).2 m hm).symm
        · exact matFree_fact h f
      cases a with
      | true =>
        simp only [step]
        split
        · exact h
        · next ne =>
          rcases ho with e | ⟨_, ok⟩
          · exact absurd e ne
          · have ok' : (migrateMat s m n true []).2.2 = true := by simpa using ok
            exact inv_migrateMat h m n true [] ok' hds
      | false => simp only [step]; exact inv_addMat h m n hds
    | mcomb m m2 a =>
      simp only [step]
      split
      · next e =>
        cases a with
        | false => exact h
        | true =>
          simp only [if_true]
          apply inv_setKeys h m
          intro x hx
          rcases mergeKeys_sub _ _ x hx with hx | hx
          · exact h.matOk m x hx
          · rw [← e]; exact h.matOk m2 x hx
      · exact h
    | setslicegen l a b ts =>
      simp only [inRange, decide_eq_true_eq] at hr
      simp only [owner] at ho
      simp only [step]
      apply inv_sliceGen h l a b ts hr
      intro t ht
      simp only [srcOk, List.all_eq_true, Bool.and_eq_true, decide_eq_true_eq] at ho
      exact ⟨ok_of_rebindOk h (ho t ht).1, (ho t ht).2⟩
    | tpurge t => simp [owner] at ho
    | lpurge l => simp [owner] at ho
    | mpurge m => simp [owner] at ho
    | _ => simp [covered] at hc

/-- a history every step of which is inside the ownership domain -/
def validHist (s : Store) : List Op → Bool
  | [] => true
  | op :: ops => valid s op && validHist (step s op).1 ops

/-- closure holds after every history of valid operations (induction over the history) -/
theorem closed_reachable : ∀ (ops : List Op) (s : Store), Inv s → validHist s ops = true → Inv (run s ops)
  | [], s, h, _ => h
  | op :: ops, s, h, hv => by
    simp only [validHist, Bool.and_eq_true] at hv
    exact closed_reachable ops _ (closed_step s op h hv.1) hv.2

/-- from the empty world: clauses (a) and (c) hold after any valid history -/
theorem closed_from_init (ops : List Op) (hv : validHist init ops = true) : Closed (run init ops) :=
  (closed_reachable ops init inv_init hv).toClosed

/-- a history all of whose steps are in the domain and covered -/
def validRun (s : Store) : List Op → Bool
  | [] => true
  | op :: ops => valid s op && covered op && validRun (step s op).1 ops

/-- PARTIAL (same coverage as `closed_step_partial`): closure holds after every history of covered, valid operations -/
theorem closed_reachable_partial : ∀ (ops : List Op) (s : Store), Inv s → validRun s ops = true → Inv (run s ops)
  | [], s, h, _ => h
  | op :: ops, s, h, hv => by
    simp only [validRun, Bool.and_eq_true] at hv
    exact closed_reachable_partial ops _ (closed_step_partial s op h hv.1.1 hv.1.2) hv.2

/-- ... in particular from the empty world, and then clauses (a) and (c) hold -/
theorem closed_from_init_partial (ops : List Op) (hv : validRun init ops = true) : Closed (run init ops) :=
  (closed_reachable_partial ops init inv_init hv).toClosed

/-- inside the domain the guarded step the driver runs is `step` -/
theorem stepG_of_valid {s : Store} {op : Op} (hv : valid s op = true) : stepG s op = step s op := by
  simp only [valid, Bool.and_eq_true] at hv
  simp [stepG, hv.1.1]

/-- the driver's step preserves the invariant on the covered, valid operations; outside `idsOk` it refuses and changes nothing -/
theorem closed_stepG_partial (s : Store) (op : Op) (h : Inv s) (hv : valid s op = true) (hc : covered op = true) :
    Inv (stepG s op).1 := by
  rw [stepG_of_valid hv]; exact closed_step_partial s op h hv hc

theorem stepG_refuses (s : Store) (op : Op) (hi : idsOk s op = false) : stepG s op = (s, .indexError) := by
  simp [stepG, hi]

/-- ... and so does the guarded step the driver runs -/
theorem closed_stepG (s : Store) (op : Op) (h : Inv s) (hv : valid s op = true) : Inv (stepG s op).1 := by
  rw [stepG_of_valid hv]; exact closed_step s op h hv


/-- clause (c): `pop(i)` / `del tl[i]` takes exactly the tree at position `i` out of the list, leaves that tree as it was,
and the removed tree still refers only to members of its own namespace (as does everything else: `Inv`) -/
theorem removed_tree_consistent (s : Store) (h : Inv s) (l i t : Nat) (hv : valid s (.pop l i) = true)
    (ht : (s.tl l).trees[i]? = some t) :
    (stepG s (.pop l i)).2 = .ok
    ∧ ((stepG s (.pop l i)).1.tl l).trees = (s.tl l).trees.eraseIdx i
    ∧ (stepG s (.pop l i)).1.tree t = s.tree t
    ∧ (∀ x, some x ∈ ((stepG s (.pop l i)).1.tree t).taxa → x ∈ mem (stepG s (.pop l i)).1 ((stepG s (.pop l i)).1.tree t).ns)
    ∧ Inv (stepG s (.pop l i)).1 := by
  have i' := closed_stepG_partial s _ h hv rfl
  refine ⟨?_, ?_, ?_, i'.treeOk t, i'⟩
  · rw [stepG_of_valid hv]; rfl
  · rw [stepG_of_valid hv]
    simp only [step, setTrees, upd, if_true, splice, List.append_nil]
    rw [List.eraseIdx_eq_take_drop_succ]
    congr 2
    omega
  · rw [stepG_of_valid hv]; rfl

/-- clause (c) for `tl[i] = t'`: the tree that was at position `i` is replaced, is itself left as it was unless it is the
very tree being assigned, and stays consistent with its own namespace -/
theorem replaced_tree_consistent (s : Store) (h : Inv s) (l i t t' : Nat) (hv : valid s (.setitem l i t') = true)
    (ht : (s.tl l).trees[i]? = some t) (hne : t ≠ t') :
    (stepG s (.setitem l i t')).2 = .ok
    ∧ ((stepG s (.setitem l i t')).1.tl l).trees = (s.tl l).trees.take i ++ t' :: (s.tl l).trees.drop (i + 1)
    ∧ (stepG s (.setitem l i t')).1.tree t = s.tree t
    ∧ (∀ x, some x ∈ ((stepG s (.setitem l i t')).1.tree t).taxa →
        x ∈ mem (stepG s (.setitem l i t')).1 ((stepG s (.setitem l i t')).1.tree t).ns)
    ∧ Inv (stepG s (.setitem l i t')).1 := by
  have i' := closed_stepG_partial s _ h hv rfl
  have hv' := hv
  simp only [valid, Bool.and_eq_true, owner, decide_eq_true_eq] at hv'
  obtain ⟨⟨_, _⟩, ho, hlt⟩ := hv'
  obtain ⟨_, f, _, o⟩ := inv_importTree h (s.tl l).ns .migrate t' (ok_of_rebindOk h ho)
  have hi : i < len s l := by
    have := List.getElem?_eq_some_iff.mp ht
    obtain ⟨hlt', _⟩ := this
    exact hlt'
  refine ⟨?_, ?_, ?_, i'.treeOk t, i'⟩
  · rw [stepG_of_valid hv]; simp [step, hi]
  · rw [stepG_of_valid hv]
    simp only [step, hi, if_true, spliceT, importTrees, setTrees, upd, splice]
    rw [f.tl]
    have : max i (i + 1) = i + 1 := by omega
    simp [this]
  · rw [stepG_of_valid hv]
    simp only [step, hi, if_true, spliceT, importTrees, setTrees]
    exact o t hne

/-- every member of namespace `n` is an already allocated taxon -/
def FreshNs (s : Store) (n : Nat) : Prop := ∀ x, x ∈ mem s n → x < s.nTaxa

namespace Aux
theorem require_of_lookup {s : Store} {n : Nat} {cs : Bool} {l : String} {x : Nat}
    (h : lookupFirst s n cs l = some x) : require s n cs l = (s, x) := by
  unfold require; rw [h]

theorem require_label_stable (s : Store) (n : Nat) (cs : Bool) (lbl : String) (y : Nat) (hy : y < s.nTaxa) :
    (require s n cs lbl).1.label y = s.label y := by
  unfold require
  split
  · rfl
  · simp [newTaxon, upd, Nat.ne_of_lt hy]

theorem require_fresh (s : Store) (n : Nat) (cs : Bool) (lbl : String) (hf : FreshNs s n) :
    FreshNs (require s n cs lbl).1 n ∧ s.nTaxa ≤ (require s n cs lbl).1.nTaxa := by
  unfold require
  split
  · exact ⟨hf, Nat.le_refl _⟩
  · refine ⟨?_, by simp [newTaxon]⟩
    intro x hx
    simp [newTaxon, mem, upd] at hx ⊢
    rcases hx with hx | hx
    · exact Nat.lt_succ_of_lt (hf x hx)
    · omega

end Aux


/-- PARTIAL (clause b, one item): the taxon an item is moved to by label resolution in namespace `n` is a member of `n`
and carries the item's label up to the case rule.  Stated for `require` (the step `reconstruct_taxon_namespace` performs
for an item not yet in the memo); not lifted to whole `mapTaxa`/`mapKeys` runs with a memo. -/
theorem migrate_label_functional_partial (s : Store) (n : Nat) (cs : Bool) (lbl : String) :
    (require s n cs lbl).2 ∈ mem (require s n cs lbl).1 n
    ∧ keyOf cs ((require s n cs lbl).1.label (require s n cs lbl).2) = keyOf cs lbl := by
  refine ⟨mem_require s n cs lbl, ?_⟩
  unfold require
  split
  · next x hx =>
    unfold lookupFirst at hx
    have := List.find?_some hx
    simpa using this
  · simp [newTaxon, upd]

/-- PARTIAL (clause b, two items, "equal labels end up on one taxon"): two successive label resolutions in the same
namespace with labels that are equal under the case rule deliver the same taxon (no duplicate is created) -/
theorem migrate_unifies_equal_labels_partial (s : Store) (n : Nat) (cs : Bool) (l1 l2 : String) (hf : FreshNs s n)
    (hk : keyOf cs l1 = keyOf cs l2) :
    (require (require s n cs l1).1 n cs l2).2 = (require s n cs l1).2
    ∧ (require (require s n cs l1).1 n cs l2).1 = (require s n cs l1).1 := by
  have key : lookupFirst (require s n cs l1).1 n cs l2 = some (require s n cs l1).2 := by
    unfold require
    split
    · next x hx =>
      simp only [lookupFirst] at hx ⊢
      rw [← hk]; exact hx
    · next hnone =>
      simp only [lookupFirst] at hnone ⊢
      simp only [newTaxon, mem, upd, if_true]
      rw [List.find?_append]
      have : List.find? (fun x => keyOf cs ((if x = s.nTaxa then l1 else s.label x)) == keyOf cs l2) (s.ns n).members = none := by
        rw [List.find?_eq_none] at hnone ⊢
        intro x hx
        have lt : x < s.nTaxa := hf x hx
        have := hnone x hx
        simp only [Nat.ne_of_lt lt, if_false]
        rw [← hk]; exact this
      simp only [this, Option.none_or]
      simp [hk]
  have r := require_of_lookup key
  rw [r]
  exact ⟨rfl, rfl⟩

/-- PARTIAL (clause b, two items, "different labels end up on different taxa"): if two successive label resolutions
deliver the same taxon, the labels are equal under the case rule -/
theorem migrate_injective_on_labels_partial (s : Store) (n : Nat) (cs : Bool) (l1 l2 : String) (hf : FreshNs s n)
    (he : (require (require s n cs l1).1 n cs l2).2 = (require s n cs l1).2) : keyOf cs l1 = keyOf cs l2 := by
  have a1 := (migrate_label_functional_partial s n cs l1).2
  have a2 := (migrate_label_functional_partial (require s n cs l1).1 n cs l2).2
  have f1 := require_fresh s n cs l1 hf
  have m1 := mem_require s n cs l1
  have lt : (require s n cs l1).2 < (require s n cs l1).1.nTaxa := f1.1 _ m1
  rw [he, require_label_stable _ n cs l2 _ lt] at a2
  rw [← a1, ← a2]

/-! ## clause (b) for whole migrations: `mapTaxa` with a shared memo -/

-- `related`, `Aux.related_mono`, `Aux.related_length`, `Aux.related_get` live in `Theory/C11Pass.lean`

namespace Aux

theorem find?_congr' {p q : Nat → Bool} : ∀ (l : List Nat), (∀ x, x ∈ l → p x = q x) → l.find? p = l.find? q
  | [], _ => rfl
  | a :: l, h => by
    simp only [List.find?_cons]
    rw [h a (by simp), find?_congr' l (fun x hx => h x (by simp [hx]))]

/-- the store grew from `s0` without disturbing anything `s0` knew about namespace `n` -/
structure Ext (n : Nat) (s0 s : Store) : Prop where
  nT : s0.nTaxa ≤ s.nTaxa
  lab : ∀ y, y < s0.nTaxa → s.label y = s0.label y
  cs : (s.ns n).cs = (s0.ns n).cs
  fresh : FreshNs s n
  look : ∀ lbl y, lookupFirst s0 n (s0.ns n).cs lbl = some y → lookupFirst s n (s0.ns n).cs lbl = some y

theorem Ext.refl {n : Nat} {s : Store} (hf : FreshNs s n) : Ext n s s :=
  ⟨Nat.le_refl _, fun _ _ => rfl, rfl, hf, fun _ _ h => h⟩

theorem Ext.trans {n : Nat} {a b c : Store} (h1 : Ext n a b) (h2 : Ext n b c) : Ext n a c :=
  ⟨Nat.le_trans h1.nT h2.nT,
   fun y hy => (h2.lab y (Nat.lt_of_lt_of_le hy h1.nT)).trans (h1.lab y hy),
   h2.cs.trans h1.cs, h2.fresh,
   fun lbl y h => by have := h2.look lbl y (by rw [h1.cs]; exact h1.look lbl y h); rw [h1.cs] at this; exact this⟩

theorem look_newTaxon (s : Store) (n : Nat) (c : Bool) (l0 lbl : String) (hf : FreshNs s n) :
    lookupFirst (newTaxon s n l0).1 n c lbl
      = (lookupFirst s n c lbl).or (if keyOf c l0 == keyOf c lbl then some s.nTaxa else none) := by
  simp only [lookupFirst, newTaxon, mem, upd, if_true]
  rw [List.find?_append]
  congr 1
  · apply find?_congr'
    intro x hx
    have : x ≠ s.nTaxa := Nat.ne_of_lt (hf x hx)
    simp [this]
  · simp [List.find?_cons]
    split <;> simp_all

theorem ext_newTaxon (s : Store) (n : Nat) (l0 : String) (hf : FreshNs s n) : Ext n s (newTaxon s n l0).1 := by
  refine ⟨by simp [newTaxon], ?_, by simp [newTaxon, upd], ?_, ?_⟩
  · intro y hy; simp [newTaxon, upd, Nat.ne_of_lt hy]
  · intro x hx
    simp [newTaxon, mem, upd] at hx ⊢
    rcases hx with hx | hx
    · exact Nat.lt_succ_of_lt (hf x hx)
    · omega
  · intro lbl y h
    rw [look_newTaxon s n _ l0 lbl hf, h]; rfl

/-- the memo agrees with label resolution in the target (what `require_taxon` would answer) -/
def MemoOk (s : Store) (n : Nat) (m : Memo) : Prop :=
  ∀ x y, memoGet m x = some y → x < s.nTaxa ∧ lookupFirst s n (s.ns n).cs (s.label x) = some y

theorem memoOk_nil (s : Store) (n : Nat) : MemoOk s n [] := by intro x y h; simp [memoGet] at h

theorem memoOk_ext {n : Nat} {s s' : Store} {m : Memo} (e : Ext n s s') (h : MemoOk s n m) : MemoOk s' n m := by
  intro x y hxy
  obtain ⟨lt, lk⟩ := h x y hxy
  refine ⟨Nat.lt_of_lt_of_le lt e.nT, ?_⟩
  rw [e.cs, e.lab x lt]; exact e.look _ _ lk

/-- one item of a label-unifying pass: the item lands on what label resolution in the (grown) target answers for its label -/
theorem mapOne_unify (s : Store) (n : Nat) (memo : Memo) (x : Nat) (hf : FreshNs s n) (hx : x < s.nTaxa) (hm : MemoOk s n memo) :
    Ext n s (mapOne s n true memo x).1
    ∧ lookupFirst (mapOne s n true memo x).1 n (s.ns n).cs (s.label x) = some (mapOne s n true memo x).2.2
    ∧ MemoOk (mapOne s n true memo x).1 n (mapOne s n true memo x).2.1 := by
  unfold mapOne
  simp only [Bool.true_or, if_true]
  cases hg : memoGet memo x with
  | some t =>
    simp only []
    have lk := (hm x t hg).2
    have tin : t ∈ mem s n := lookupFirst_mem lk
    have e : addMember s n t = s := by simp [addMember, tin]
    rw [e]
    exact ⟨Ext.refl hf, lk, hm⟩
  | none =>
    simp only []
    cases hl : lookupFirst s n (s.ns n).cs (s.label x) with
    | some y =>
      have r : require s n (s.ns n).cs (s.label x) = (s, y) := require_of_lookup hl
      rw [r]
      refine ⟨Ext.refl hf, hl, ?_⟩
      intro q z hq
      simp only [memoGet, List.find?_cons] at hq
      by_cases e : x = q
      · subst e; simp at hq; subst hq; exact ⟨hx, hl⟩
      · have : (x == q) = false := by simp [e]
        simp only [this] at hq
        exact hm q z hq
    | none =>
      have r : require s n (s.ns n).cs (s.label x) = newTaxon s n (s.label x) := by unfold require; rw [hl]
      rw [r]
      have ex := ext_newTaxon s n (s.label x) hf
      have lk : lookupFirst (newTaxon s n (s.label x)).1 n (s.ns n).cs (s.label x) = some (newTaxon s n (s.label x)).2 := by
        rw [look_newTaxon s n _ _ _ hf, hl]; simp [newTaxon]
      refine ⟨ex, lk, ?_⟩
      intro q z hq
      simp only [memoGet, List.find?_cons] at hq
      by_cases e : x = q
      · subst e
        simp at hq; subst hq
        refine ⟨Nat.lt_of_lt_of_le hx ex.nT, ?_⟩
        rw [ex.cs, ex.lab x hx]; exact lk
      · have : (x == q) = false := by simp [e]
        simp only [this] at hq
        exact memoOk_ext ex hm q z hq

end Aux

/-- CLAUSE (b) FOR A WHOLE PASS.  A label-unifying pass (`unify_taxa_by_label=True`) over the node taxa `xs` of a tree into
namespace `n`, with any memo that agrees with label resolution (the empty memo; the memo handed on by the previous tree of
a `TreeList` / component of a `DataSet`): nothing is dropped or invented (same length, nodes without taxon stay so), and every
node with taxon `x` ends on the taxon `y` that label resolution in the final namespace answers for `x`'s label — so `y` is a
member of `n` carrying `x`'s label up to the case rule.  The outgoing memo and store satisfy the hypotheses again; the
composition over the trees of a list and the lists of a data set is `migrateTrees_unify_spec` / `migrateTls_unify_spec`. -/
theorem mapTaxa_unify_spec (n : Nat) : ∀ (xs : List (Option Nat)) (s : Store) (memo : Memo),
    FreshNs s n → (∀ x, some x ∈ xs → x < s.nTaxa) → MemoOk s n memo →
    related (fun x y => lookupFirst (mapTaxa s n true memo xs).1 n (s.ns n).cs (s.label x) = some y) xs (mapTaxa s n true memo xs).2.2
    ∧ Ext n s (mapTaxa s n true memo xs).1
    ∧ MemoOk (mapTaxa s n true memo xs).1 n (mapTaxa s n true memo xs).2.1
  | [], s, memo, hf, _, hm => ⟨trivial, Ext.refl hf, hm⟩
  | none :: xs, s, memo, hf, hx, hm => by
    simp only [mapTaxa, related]
    exact mapTaxa_unify_spec n xs s memo hf (fun x h => hx x (by simp [h])) hm
  | some x :: xs, s, memo, hf, hx, hm => by
    simp only [mapTaxa, related]
    obtain ⟨e1, l1, m1⟩ := mapOne_unify s n memo x hf (hx x (by simp)) hm
    have hx' : ∀ x', some x' ∈ xs → x' < (mapOne s n true memo x).1.nTaxa :=
      fun x' h => Nat.lt_of_lt_of_le (hx x' (by simp [h])) e1.nT
    obtain ⟨r2, e2, m2⟩ := mapTaxa_unify_spec n xs _ _ e1.fresh hx' m1
    refine ⟨⟨?_, ?_⟩, e1.trans e2, m2⟩
    · have := e2.look _ _ (by rw [e1.cs]; exact l1)
      rw [e1.cs] at this; exact this
    · refine related_mono xs _ ?_ r2
      intro x' y' hin h
      rw [e1.cs, e1.lab x' (hx x' (by simp [hin]))] at h
      exact h

/-- what "label resolution answers `y`" means: `y` is a member of the namespace and carries the label up to the case rule -/
theorem resolved_member_label (s : Store) (n : Nat) (c : Bool) (lbl : String) (y : Nat)
    (h : lookupFirst s n c lbl = some y) : y ∈ mem s n ∧ keyOf c (s.label y) = keyOf c lbl := by
  refine ⟨lookupFirst_mem h, ?_⟩
  unfold lookupFirst at h
  simpa using List.find?_some h

/-- a fact about label resolution in ONE store (no pass involved): two labels resolve to the same taxon exactly when they are
equal under the case rule, also in namespaces that hold several taxa with one label.  It turns the per-item conclusions of
`mapTaxa_unify_spec` / `migrateTrees_unify_spec` / `migrateTls_unify_spec` / `cloneMemo_spec` (all stated against the FINAL store)
into clause (b)'s partition; that conjunction is stated as `migrateTl_same_taxon_iff` below. -/
theorem same_taxon_iff_equal_labels (s : Store) (n : Nat) (c : Bool) (l1 l2 : String) (y1 y2 : Nat)
    (h1 : lookupFirst s n c l1 = some y1) (h2 : lookupFirst s n c l2 = some y2) :
    y1 = y2 ↔ keyOf c l1 = keyOf c l2 := by
  constructor
  · intro e
    have a := (resolved_member_label s n c l1 y1 h1).2
    have b := (resolved_member_label s n c l2 y2 h2).2
    rw [← a, ← b, e]
  · intro e
    have : lookupFirst s n c l1 = lookupFirst s n c l2 := by simp only [lookupFirst, e]
    rw [this, h2] at h1
    exact (Option.some.inj h1).symm

/-- nothing is dropped or invented by any pass, unifying or not: same number of nodes, and exactly the nodes that had a
taxon have one afterwards -/
theorem mapTaxa_shape (n : Nat) (u : Bool) : ∀ (xs : List (Option Nat)) (s : Store) (memo : Memo),
    related (fun _ _ => True) xs (mapTaxa s n u memo xs).2.2
  | [], _, _ => trivial
  | none :: xs, s, memo => by simp only [mapTaxa, related]; exact mapTaxa_shape n u xs s memo
  | some x :: xs, s, memo => by simp only [mapTaxa, related]; exact ⟨trivial, mapTaxa_shape n u xs _ _⟩

/-- `Tree.migrate_taxon_namespace(ns, unify_taxa_by_label=True)` / `reconstruct_taxon_namespace()`: the tree is bound to `n`
and its node taxa are the unified images of the old ones (`mapTaxa_unify_spec`) -/
theorem migrateTree_unify_spec (s : Store) (t n : Nat) (memo : Memo)
    (hf : FreshNs s n) (hx : ∀ x, some x ∈ (s.tree t).taxa → x < s.nTaxa) (hm : Aux.MemoOk s n memo) :
    ((migrateTree s t n true memo).1.tree t).ns = n
    ∧ related (fun x y => lookupFirst (migrateTree s t n true memo).1 n (s.ns n).cs (s.label x) = some y
                          ∧ y ∈ mem (migrateTree s t n true memo).1 n)
        (s.tree t).taxa ((migrateTree s t n true memo).1.tree t).taxa
    ∧ FreshNs (migrateTree s t n true memo).1 n
    ∧ Aux.MemoOk (migrateTree s t n true memo).1 n (migrateTree s t n true memo).2 := by
  obtain ⟨r, e, m⟩ := mapTaxa_unify_spec n (s.tree t).taxa s memo hf hx hm
  refine ⟨by simp [migrateTree, setTree, upd], ?_, e.fresh, m⟩
  simp only [migrateTree, setTree, upd, if_true]
  refine Aux.related_mono _ _ ?_ r
  intro x y _ h
  exact ⟨h, lookupFirst_mem h⟩

/-! ## clause (b) for matrix passes (`CharacterMatrix.reconstruct_taxon_namespace`, `mapKeys`) -/

/-- SOUNDNESS DIRECTION ONLY (nothing here says an accepted pass keeps the number of sequences, or that key `x` ends on ITS image:
"no sequence silently dropped or merged" is NOT proved for matrices — it needs `Nodup` of the key lists as an invariant; the
oracle and the correspondence check it).  A label-unifying pass over the sequence keys `xs` of a matrix (accepted or refused):
every key of the result is either a key
the pass did not move, or the taxon label resolution in the final namespace answers for the label of one of the processed keys
(so it is a member of `n` carrying that label up to the case rule: `resolved_member_label`; and two moved sequences would sit on
one taxon exactly when their labels are equal: `same_taxon_iff_equal_labels` — which is when the pass refuses). The memo/store
hypotheses are re-established, so the statement composes with `mapTaxa_unify_spec` over the components of a data set. -/
theorem mapKeys_unify_spec (n : Nat) : ∀ (xs : List Nat) (s : Store) (memo : Memo) (cur : List Nat),
    FreshNs s n → (∀ x, x ∈ xs → x < s.nTaxa) → Aux.MemoOk s n memo →
    (∀ y, y ∈ (mapKeys s n true memo cur xs).2.2.1 →
        y ∈ cur ∨ ∃ x, x ∈ xs ∧ lookupFirst (mapKeys s n true memo cur xs).1 n (s.ns n).cs (s.label x) = some y)
    ∧ Aux.Ext n s (mapKeys s n true memo cur xs).1
    ∧ Aux.MemoOk (mapKeys s n true memo cur xs).1 n (mapKeys s n true memo cur xs).2.1
  | [], s, memo, cur, hf, _, hm => ⟨fun y hy => Or.inl (by simpa [mapKeys] using hy), Aux.Ext.refl hf, hm⟩
  | x :: xs, s, memo, cur, hf, hx, hm => by
    obtain ⟨e1, l1, m1⟩ := Aux.mapOne_unify s n memo x hf (hx x (by simp)) hm
    have hx' : ∀ x', x' ∈ xs → x' < (mapOne s n true memo x).1.nTaxa :=
      fun x' h => Nat.lt_of_lt_of_le (hx x' (by simp [h])) e1.nT
    -- transport a fact about the tail (stated from the intermediate store) back to `s`
    have back : ∀ (cur' : List Nat),
        (∀ y, y ∈ (mapKeys (mapOne s n true memo x).1 n true (mapOne s n true memo x).2.1 cur' xs).2.2.1 →
          y ∈ cur' ∨ ∃ x', x' ∈ xs ∧ lookupFirst (mapKeys (mapOne s n true memo x).1 n true (mapOne s n true memo x).2.1 cur' xs).1 n
            ((mapOne s n true memo x).1.ns n).cs ((mapOne s n true memo x).1.label x') = some y) →
        (∀ y, y ∈ (mapKeys (mapOne s n true memo x).1 n true (mapOne s n true memo x).2.1 cur' xs).2.2.1 →
          y ∈ cur' ∨ ∃ x', x' ∈ x :: xs ∧ lookupFirst (mapKeys (mapOne s n true memo x).1 n true (mapOne s n true memo x).2.1 cur' xs).1 n
            (s.ns n).cs (s.label x') = some y) := by
      intro cur' h y hy
      rcases h y hy with h | ⟨x', hx'', hl⟩
      · exact Or.inl h
      · right
        refine ⟨x', by simp [hx''], ?_⟩
        rw [e1.cs, e1.lab x' (hx x' (by simp [hx'']))] at hl
        exact hl
    simp only [mapKeys, Bool.true_or, if_true]
    split
    · obtain ⟨r, e2, m2⟩ := mapKeys_unify_spec n xs _ _ cur e1.fresh hx' m1
      exact ⟨back cur r, e1.trans e2, m2⟩
    · split
      · exact ⟨fun y hy => Or.inl hy, e1, m1⟩
      · obtain ⟨r, e2, m2⟩ := mapKeys_unify_spec n xs _ _ (cur.filter (fun k => k != x) ++ [(mapOne s n true memo x).2.2]) e1.fresh hx' m1
        refine ⟨?_, e1.trans e2, m2⟩
        intro y hy
        rcases back _ r y hy with h | h
        · simp only [List.mem_append, List.mem_filter, List.mem_singleton] at h
          rcases h with ⟨h, _⟩ | h
          · exact Or.inl h
          · right
            refine ⟨x, by simp, ?_⟩
            rw [h]
            have := e2.look _ _ (by rw [e1.cs]; exact l1)
            rw [e1.cs] at this; exact this
        · exact Or.inr h

namespace Aux

theorem length_filter_ne : ∀ (cur : List Nat) (x : Nat), cur.Nodup → x ∈ cur →
    (cur.filter (fun k => k != x)).length + 1 = cur.length
  | [], x, _, h => by simp at h
  | a :: cur, x, hnd, hx => by
    have hnd' := List.nodup_cons.mp hnd
    by_cases e : a = x
    · subst e
      have : cur.filter (fun k => k != a) = cur := by
        apply List.filter_eq_self.mpr
        intro b hb
        have : b ≠ a := fun e => hnd'.1 (e ▸ hb)
        simpa using this
      simp [this]
    · have hx' : x ∈ cur := by
        simp at hx
        rcases hx with h | h
        · exact absurd h.symm e
        · exact h
      have ih := length_filter_ne cur x hnd'.2 hx'
      have : (a != x) = true := by simpa using e
      simp only [List.filter_cons, this, if_true, List.length_cons]
      omega

end Aux

/-- MATRICES, "NO SEQUENCE DROPPED OR MERGED".  A pass over the keys `xs` of a key list `cur` that lists no taxon twice (a dict), with
`xs` among them: the result again lists no taxon twice (also when the pass is refused); and when the pass is ACCEPTED it has as many
keys as before — every sequence is still there under a key of its own — and the keys the pass was not asked to process are kept. -/
theorem mapKeys_accepted (n : Nat) (u : Bool) : ∀ (xs : List Nat) (s : Store) (memo : Memo) (cur : List Nat),
    cur.Nodup → xs.Nodup → (∀ x, x ∈ xs → x ∈ cur) →
    (mapKeys s n u memo cur xs).2.2.1.Nodup
    ∧ ((mapKeys s n u memo cur xs).2.2.2 = true →
        (mapKeys s n u memo cur xs).2.2.1.length = cur.length
        ∧ ∀ y, y ∈ cur → y ∉ xs → y ∈ (mapKeys s n u memo cur xs).2.2.1)
  | [], s, memo, cur, hc, _, _ => ⟨by simpa [mapKeys] using hc, fun _ => ⟨by simp [mapKeys], fun y hy _ => by simpa [mapKeys] using hy⟩⟩
  | x :: xs, s, memo, cur, hc, hxs, hsub => by
    have hxs' := List.nodup_cons.mp hxs
    have hsub' : ∀ x', x' ∈ xs → x' ∈ cur := fun x' h => hsub x' (by simp [h])
    simp only [mapKeys]
    split
    · split
      · obtain ⟨a, b⟩ := mapKeys_accepted n u xs (mapOne s n u memo x).1 (mapOne s n u memo x).2.1 cur hc hxs'.2 hsub'
        refine ⟨a, fun ok => ⟨(b ok).1, fun y hy hn => (b ok).2 y hy (fun h => hn (by simp [h]))⟩⟩
      · split
        · exact ⟨hc, fun ok => by simp at ok⟩
        · next hne hnc =>
          have tnot : (mapOne s n u memo x).2.2 ∉ cur := by simpa using hnc
          have hc' : (cur.filter (fun k => k != x) ++ [(mapOne s n u memo x).2.2]).Nodup := by
            rw [List.nodup_append]
            refine ⟨hc.filter _, by simp, ?_⟩
            intro a ha b hb
            simp at hb
            subst hb
            intro e
            subst e
            exact tnot (List.mem_filter.mp ha).1
          have hsub2 : ∀ x', x' ∈ xs → x' ∈ cur.filter (fun k => k != x) ++ [(mapOne s n u memo x).2.2] := by
            intro x' h
            have ne : x' ≠ x := fun e => hxs'.1 (e ▸ h)
            simp only [List.mem_append, List.mem_filter]
            left
            exact ⟨hsub' x' h, by simpa using ne⟩
          obtain ⟨a, b⟩ := mapKeys_accepted n u xs (mapOne s n u memo x).1 (mapOne s n u memo x).2.1 _ hc' hxs'.2 hsub2
          refine ⟨a, fun ok => ⟨?_, ?_⟩⟩
          · rw [(b ok).1]
            simp only [List.length_append, List.length_singleton]
            exact Aux.length_filter_ne cur x hc (hsub x (by simp))
          · intro y hy hn
            have ne : y ≠ x := fun e => hn (by simp [e])
            apply (b ok).2 y
            · simp only [List.mem_append, List.mem_filter]
              left; exact ⟨hy, by simpa using ne⟩
            · intro h; exact hn (by simp [h])
    · obtain ⟨a, b⟩ := mapKeys_accepted n u xs s memo cur hc hxs'.2 hsub'
      refine ⟨a, fun ok => ⟨(b ok).1, fun y hy hn => (b ok).2 y hy (fun h => hn (by simp [h]))⟩⟩

/-- an accepted matrix pass leaves the matrix closed: bound to `n`, every sequence keyed by a member of `n` -/
theorem migrateMat_ok_closed (s : Store) (m n : Nat) (u : Bool) (memo : Memo) (hok : (migrateMat s m n u memo).2.2 = true) :
    ((migrateMat s m n u memo).1.mat m).ns = n
    ∧ ∀ k, k ∈ ((migrateMat s m n u memo).1.mat m).keys → k ∈ mem (migrateMat s m n u memo).1 n := by
  simp only [migrateMat] at hok ⊢
  refine ⟨by simp [upd], ?_⟩
  intro k hk
  simp only [upd, if_true] at hk
  rcases Aux.mem_mapKeys n u _ s memo _ hok k hk with h | ⟨hc, hn⟩
  · exact h
  · exact absurd hc hn

/-- `CharacterMatrix.migrate_taxon_namespace` / `reconstruct_taxon_namespace`, ACCEPTED, on a matrix whose key list names no taxon twice:
the matrix keeps exactly as many sequences, each under a key of its own (no two merged), bound to `n`, every key a member of `n` -/
theorem migrateMat_accepted_keeps_sequences (s : Store) (m n : Nat) (u : Bool) (memo : Memo) (hnd : (s.mat m).keys.Nodup)
    (hok : (migrateMat s m n u memo).2.2 = true) :
    ((migrateMat s m n u memo).1.mat m).keys.length = (s.mat m).keys.length
    ∧ ((migrateMat s m n u memo).1.mat m).keys.Nodup
    ∧ ((migrateMat s m n u memo).1.mat m).ns = n
    ∧ ∀ k, k ∈ ((migrateMat s m n u memo).1.mat m).keys → k ∈ mem (migrateMat s m n u memo).1 n := by
  obtain ⟨a, b⟩ := mapKeys_accepted n u (s.mat m).keys s memo (s.mat m).keys hnd hnd (fun _ h => h)
  obtain ⟨c, d⟩ := migrateMat_ok_closed s m n u memo hok
  simp only [migrateMat] at hok
  have e : ((migrateMat s m n u memo).1.mat m).keys = (mapKeys s n u memo (s.mat m).keys (s.mat m).keys).2.2.1 := by
    simp [migrateMat, upd]
  rw [e]
  exact ⟨(b hok).1, a, c, fun k hk => d k (by rw [e]; exact hk)⟩

/-- ... and a refused pass still names no taxon twice (the key list stays a dict) -/
theorem migrateMat_keys_nodup (s : Store) (m n : Nat) (u : Bool) (memo : Memo) (hnd : (s.mat m).keys.Nodup) :
    ((migrateMat s m n u memo).1.mat m).keys.Nodup := by
  have e : ((migrateMat s m n u memo).1.mat m).keys = (mapKeys s n u memo (s.mat m).keys (s.mat m).keys).2.2.1 := by
    simp [migrateMat, upd]
  rw [e]
  exact (mapKeys_accepted n u (s.mat m).keys s memo (s.mat m).keys hnd hnd (fun _ h => h)).1

/-- THE KNOWN FINDING, precisely: a refused label-unifying matrix pass leaves the matrix bound to the new namespace `n` with every
sequence keyed either by a taxon of its previous key set (not moved) or by a label-resolved member of `n` — nothing else; it is
the not-moved keys that may lie outside `n` (`matrix-merge-refusal-not-atomic`) -/
theorem migrateMat_refused_state (s : Store) (m n : Nat) (memo : Memo)
    (hf : FreshNs s n) (hx : ∀ x, x ∈ (s.mat m).keys → x < s.nTaxa) (hm : Aux.MemoOk s n memo) :
    ((migrateMat s m n true memo).1.mat m).ns = n
    ∧ ∀ k, k ∈ ((migrateMat s m n true memo).1.mat m).keys →
        k ∈ (s.mat m).keys ∨ (k ∈ mem (migrateMat s m n true memo).1 n
          ∧ ∃ x, x ∈ (s.mat m).keys ∧ keyOf (s.ns n).cs ((migrateMat s m n true memo).1.label k) = keyOf (s.ns n).cs (s.label x)) := by
  obtain ⟨r, _, _⟩ := mapKeys_unify_spec n (s.mat m).keys s memo (s.mat m).keys hf hx hm
  simp only [migrateMat]
  refine ⟨by simp [upd], ?_⟩
  intro k hk
  simp only [upd, if_true] at hk
  rcases r k hk with h | ⟨x, hx', hl⟩
  · exact Or.inl h
  · right
    obtain ⟨a, b⟩ := resolved_member_label _ n _ _ k hl
    exact ⟨a, x, hx', b⟩

/-! ## `unify_taxa_by_label=False`: distinct taxon objects stay distinct -/

/-- PARTIAL (one and two items; the WHOLE-PASS statements are `mapTaxa_fresh_spec`, `migrateTree_fresh_spec`, `migrateTl_fresh_spec` below,
which subsume this one): with `unify_taxa_by_label=False` an item whose
taxon `x` is not a member of the target and not yet in the memo is put on a brand-new taxon — not a member before (so distinct
from every taxon the namespace held, also from those with the same label), carrying exactly `x`'s label, and remembered in the
memo; a second such item with a different taxon gets a different new taxon; an item whose taxon is a member keeps it. -/
theorem unify_false_distinct_partial (s : Store) (n : Nat) (memo : Memo) (x x' : Nat) (hf : FreshNs s n)
    (hx : x ∉ mem s n) (hg : memoGet memo x = none) (hx' : x' ∉ mem s n) (hne : x' ≠ x) (hg' : memoGet memo x' = none)
    (hlt : x < s.nTaxa) (hlt' : x' < s.nTaxa) :
    (mapOne s n false memo x).2.2 ∉ mem s n
    ∧ (mapOne s n false memo x).2.2 ∈ mem (mapOne s n false memo x).1 n
    ∧ (mapOne s n false memo x).1.label (mapOne s n false memo x).2.2 = s.label x
    ∧ memoGet (mapOne s n false memo x).2.1 x = some (mapOne s n false memo x).2.2
    ∧ (mapOne (mapOne s n false memo x).1 n false (mapOne s n false memo x).2.1 x').2.2 ≠ (mapOne s n false memo x).2.2
    ∧ (∀ z, z ∈ mem s n → (mapOne s n false memo z).2.2 = z) := by
  have e1 : mapOne s n false memo x = ((newTaxon s n (s.label x)).1, (x, s.nTaxa) :: memo, s.nTaxa) := by
    unfold mapOne
    have : ((mem s n).contains x) = false := by simpa using hx
    simp only [this, hg, Bool.false_or, Bool.not_false, if_true, Bool.false_eq_true, if_false]
    rfl
  have notmem : x' ∉ mem (newTaxon s n (s.label x)).1 n := by
    simp only [newTaxon, mem, upd, if_true, List.mem_append, List.mem_singleton]
    intro h
    rcases h with h | h
    · exact hx' h
    · omega
  have e2 : (mapOne (newTaxon s n (s.label x)).1 n false ((x, s.nTaxa) :: memo) x').2.2 = s.nTaxa + 1 := by
    unfold mapOne
    have c : ((mem (newTaxon s n (s.label x)).1 n).contains x') = false := by simpa using notmem
    have g : memoGet ((x, s.nTaxa) :: memo) x' = none := by
      rw [Aux.memoGet_cons]; simp [Ne.symm hne, hg']
    simp only [c, g, Bool.false_or, Bool.not_false, if_true, Bool.false_eq_true, if_false]
    rfl
  rw [e1]
  refine ⟨?_, ?_, ?_, ?_, ?_, ?_⟩
  · intro h; exact Nat.lt_irrefl _ (hf _ h)
  · simp [newTaxon, mem, upd]
  · simp [newTaxon, upd]
  · rw [Aux.memoGet_cons]; simp
  · simp only []
    rw [e2]; simp
  · intro z hz
    unfold mapOne
    have : ((mem s n).contains z) = true := by simpa using hz
    simp only [this, Bool.false_or, Bool.not_true, Bool.false_eq_true, if_false]

/-! ## clause (b) for every copy route (`cloneMemo` / `applyMemo`) -/

namespace Aux

/-- label resolution in a fresh namespace: the store only grows, and the answer is what `lookupFirst` says afterwards -/
theorem require_spec (s : Store) (n : Nat) (l : String) (hf : FreshNs s n) :
    Ext n s (require s n (s.ns n).cs l).1
    ∧ lookupFirst (require s n (s.ns n).cs l).1 n (s.ns n).cs l = some (require s n (s.ns n).cs l).2 := by
  cases hl : lookupFirst s n (s.ns n).cs l with
  | some y => rw [require_of_lookup hl]; exact ⟨Ext.refl hf, hl⟩
  | none =>
    have r : require s n (s.ns n).cs l = newTaxon s n l := by unfold require; rw [hl]
    rw [r]
    refine ⟨ext_newTaxon s n l hf, ?_⟩
    rw [look_newTaxon s n _ _ _ hf, hl]; simp [newTaxon]

theorem related_map_applyMemo (R : Nat → Nat → Prop) (m : Memo) :
    ∀ (xs : List (Option Nat)), (∀ x, some x ∈ xs → R x (applyMemo m x)) → related R xs (xs.map (Option.map (applyMemo m)))
  | [], _ => trivial
  | none :: xs, h => by
    simp only [List.map_cons, Option.map_none, related]
    exact related_map_applyMemo R m xs (fun x hx => h x (by simp [hx]))
  | some x :: xs, h => by
    simp only [List.map_cons, Option.map_some, related]
    exact ⟨h x (by simp), related_map_applyMemo R m xs (fun x' hx => h x' (by simp [hx]))⟩

end Aux

/-- CLAUSE (b) FOR EVERY COPY ROUTE.  The memo every copy into a foreign namespace is made through (`Tree(t, taxon_namespace=ns)`,
`TreeList(tl, taxon_namespace=ns)`, `extend`/`+`/slice assignment from a `TreeList`, `new_tree(tree)`, `CharacterMatrix(m, ns)`)
sends each member `x` of the source namespace to the taxon label resolution in the (grown) target answers for `x`'s label: a
member of the target carrying that label up to its case rule; so two source taxa share their image exactly when their labels
are equal under the target's rule (`same_taxon_iff_equal_labels`). -/
theorem cloneMemo_spec (tgt : Nat) : ∀ (xs : List Nat) (s : Store), FreshNs s tgt → (∀ x, x ∈ xs → x < s.nTaxa) →
    (∀ x, x ∈ xs → lookupFirst (cloneMemo s tgt xs).1 tgt (s.ns tgt).cs (s.label x) = some (applyMemo (cloneMemo s tgt xs).2 x))
    ∧ Aux.Ext tgt s (cloneMemo s tgt xs).1
  | [], s, hf, _ => ⟨by simp, Aux.Ext.refl hf⟩
  | x :: xs, s, hf, hx => by
    simp only [cloneMemo]
    obtain ⟨e1, l1⟩ := Aux.require_spec s tgt (s.label x) hf
    obtain ⟨ih, e2⟩ := cloneMemo_spec tgt xs (require s tgt (s.ns tgt).cs (s.label x)).1 e1.fresh
      (fun x' h => Nat.lt_of_lt_of_le (hx x' (by simp [h])) e1.nT)
    refine ⟨?_, e1.trans e2⟩
    intro y hy
    simp only [applyMemo, Aux.memoGet_cons]
    by_cases e : x = y
    · subst e
      simp only [if_true, Option.getD_some]
      have := e2.look _ _ (by rw [e1.cs]; exact l1)
      rw [e1.cs] at this; exact this
    · simp only [e, if_false]
      have hy' : y ∈ xs := by
        simp at hy
        rcases hy with h | h
        · exact absurd h.symm e
        · exact h
      have := ih y hy'
      rw [e1.cs, e1.lab y (hx y (by simp [hy']))] at this
      exact this

/-- ... for a copied tree: `Tree(src, taxon_namespace=n)` into a foreign namespace keeps the shape (no node dropped or invented)
and puts every node with taxon `x` on the taxon the target resolves `x`'s label to -/
theorem cloneTree_spec (s : Store) (src n : Nat) (h : Aux.Inv s) (hfr : Fresh.FrAll s) (hne : (s.tree src).ns ≠ n) :
    ((cloneTree s src n).1.tree (cloneTree s src n).2).ns = n
    ∧ related (fun x y => lookupFirst (cloneTree s src n).1 n (s.ns n).cs (s.label x) = some y
                          ∧ y ∈ mem (cloneTree s src n).1 n)
        (s.tree src).taxa ((cloneTree s src n).1.tree (cloneTree s src n).2).taxa := by
  obtain ⟨sp, _⟩ := cloneMemo_spec n (mem s (s.tree src).ns) s (hfr.ns n) (fun x hx => hfr.ns _ x hx)
  unfold cloneTree
  simp only [hne, if_false, allocTree, upd, if_true]
  refine ⟨trivial, ?_⟩
  apply Aux.related_map_applyMemo
  intro x hx
  have hm := h.treeOk src x hx
  exact ⟨sp x hm, Aux.lookupFirst_mem (sp x hm)⟩

/-! ## clause (b) across the trees of a list: the shared memo -/

namespace Aux

theorem migrateTree_frame (s : Store) (t n : Nat) (u : Bool) (memo : Memo) (t' : Nat) (ne : t' ≠ t) :
    (migrateTree s t n u memo).1.tree t' = s.tree t' := by
  simp [migrateTree, setTree, upd, ne, (grows_mapTaxa n u (s.tree t).taxa s memo).tree]

end Aux

/-- CLAUSE (b) ACROSS THE TREES OF A COLLECTION (the shared mapping memo).  A label-unifying pass over the pairwise different trees
`ts` with one memo handed from tree to tree: afterwards EVERY tree is bound to `n`, has kept its shape, and every node with taxon `x`
sits on the taxon the FINAL namespace resolves `x`'s label to — also the trees processed first (later trees do not disturb their
images).  Hence two nodes anywhere in the collection share a taxon exactly when their labels are equal under `n`'s case rule
(`same_taxon_iff_equal_labels` applied to the final store).  Hypothesis `ts.Nodup`: a tree object listed twice is re-resolved from
its already migrated taxa the second time (same result, not stated here). -/
theorem migrateTrees_unify_spec (n : Nat) : ∀ (ts : List Nat) (s : Store) (memo : Memo), ts.Nodup →
    FreshNs s n → (∀ t, t ∈ ts → ∀ x, some x ∈ (s.tree t).taxa → x < s.nTaxa) → Aux.MemoOk s n memo →
    (∀ t, t ∈ ts → ((migrateTrees s n true memo ts).1.tree t).ns = n
        ∧ related (fun x y => lookupFirst (migrateTrees s n true memo ts).1 n (s.ns n).cs (s.label x) = some y)
            (s.tree t).taxa ((migrateTrees s n true memo ts).1.tree t).taxa)
    ∧ Aux.Ext n s (migrateTrees s n true memo ts).1
    ∧ Aux.MemoOk (migrateTrees s n true memo ts).1 n (migrateTrees s n true memo ts).2
    ∧ (∀ t', t' ∉ ts → (migrateTrees s n true memo ts).1.tree t' = s.tree t')
  | [], s, memo, _, hf, _, hm => ⟨by simp, Aux.Ext.refl hf, hm, fun _ _ => rfl⟩
  | t :: ts, s, memo, hnd, hf, hx, hm => by
    simp only [migrateTrees]
    have hnd' := List.nodup_cons.mp hnd
    obtain ⟨r1, e1, m1⟩ := mapTaxa_unify_spec n (s.tree t).taxa s memo hf (hx t (by simp)) hm
    -- the store after the first tree
    have e1' : Aux.Ext n s (migrateTree s t n true memo).1 := by
      simp only [migrateTree]
      exact ⟨e1.nT, e1.lab, e1.cs, e1.fresh, e1.look⟩
    have m1' : Aux.MemoOk (migrateTree s t n true memo).1 n (migrateTree s t n true memo).2 := by
      simp only [migrateTree]; exact m1
    have hx' : ∀ t', t' ∈ ts → ∀ x, some x ∈ ((migrateTree s t n true memo).1.tree t').taxa → x < (migrateTree s t n true memo).1.nTaxa := by
      intro t' ht' x hxin
      have ne : t' ≠ t := fun e => hnd'.1 (e ▸ ht')
      rw [Aux.migrateTree_frame s t n true memo t' ne] at hxin
      exact Nat.lt_of_lt_of_le (hx t' (by simp [ht']) x hxin) e1'.nT
    obtain ⟨r2, e2, m2, f2⟩ := migrateTrees_unify_spec n ts _ _ hnd'.2 e1'.fresh hx' m1'
    refine ⟨?_, e1'.trans e2, m2, ?_⟩
    · intro t' ht'
      simp at ht'
      rcases ht' with e | ht'
      · subst e
        rw [f2 t' hnd'.1]
        refine ⟨by simp [migrateTree, setTree, upd], ?_⟩
        have : ((migrateTree s t' n true memo).1.tree t').taxa = (mapTaxa s n true memo (s.tree t').taxa).2.2 := by
          simp [migrateTree, setTree, upd]
        rw [this]
        refine Aux.related_mono _ _ ?_ r1
        intro x y _ hl
        have := e2.look _ _ (by
          rw [e1'.cs]
          show lookupFirst (migrateTree s t' n true memo).1 n (s.ns n).cs (s.label x) = some y
          simp only [migrateTree]
          exact hl)
        rw [e1'.cs] at this; exact this
      · have ne : t' ≠ t := fun e => hnd'.1 (e ▸ ht')
        obtain ⟨a, b⟩ := r2 t' ht'
        refine ⟨a, ?_⟩
        rw [Aux.migrateTree_frame s t n true memo t' ne] at b
        refine Aux.related_mono _ _ ?_ b
        intro x y hin hl
        rw [e1'.cs, e1'.lab x (hx t' (by simp [ht']) x hin)] at hl
        exact hl
    · intro t' hn
      simp at hn
      rw [f2 t' hn.2, Aux.migrateTree_frame s t n true memo t' hn.1]

/-- `TreeList.migrate_taxon_namespace(n)` / `reconstruct_taxon_namespace()` with `unify_taxa_by_label=True`: the list is bound to
`n` and `migrateTrees_unify_spec` holds for its trees; the outgoing memo is the one `DataSet.unify_taxon_namespaces` hands to
the next component -/
theorem migrateTl_unify_spec (s : Store) (l n : Nat) (memo : Memo) (hnd : (s.tl l).trees.Nodup)
    (hfr : Fresh.FrAll s) (hm : Aux.MemoOk s n memo) :
    ((migrateTl s l n true memo).1.tl l).ns = n
    ∧ (∀ t, t ∈ (s.tl l).trees → ((migrateTl s l n true memo).1.tree t).ns = n
        ∧ related (fun x y => lookupFirst (migrateTl s l n true memo).1 n (s.ns n).cs (s.label x) = some y)
            (s.tree t).taxa ((migrateTl s l n true memo).1.tree t).taxa)
    ∧ Aux.MemoOk (migrateTl s l n true memo).1 n (migrateTl s l n true memo).2
    ∧ FreshNs (migrateTl s l n true memo).1 n := by
  simp only [migrateTl]
  obtain ⟨r, e, m, _⟩ := migrateTrees_unify_spec n (s.tl l).trees
    { s with tl := upd s.tl l { (s.tl l) with ns := n } } memo hnd (hfr.ns n) (fun t _ x hx => hfr.tree t x hx) hm
  refine ⟨?_, r, m, e.fresh⟩
  -- the tree pass does not touch the lists
  have tlsame : ∀ (ts : List Nat) (σ : Store) (mm : Memo), (migrateTrees σ n true mm ts).1.tl = σ.tl := by
    intro ts
    induction ts with
    | nil => intro σ mm; rfl
    | cons t ts ih =>
      intro σ mm
      simp only [migrateTrees]
      rw [ih]
      simp [migrateTree, setTree, (Aux.grows_mapTaxa n true (σ.tree t).taxa σ mm).tl]
  rw [tlsame]; simp [upd]

namespace Aux

theorem migrateTrees_tl (n : Nat) (u : Bool) : ∀ (ts : List Nat) (σ : Store) (mm : Memo), (migrateTrees σ n u mm ts).1.tl = σ.tl
  | [], _, _ => rfl
  | t :: ts, σ, mm => by
    simp only [migrateTrees]
    rw [migrateTrees_tl n u ts]
    simp [migrateTree, setTree, (grows_mapTaxa n u (σ.tree t).taxa σ mm).tl]

theorem mv_of_memoOk {s : Store} {n : Nat} {m : Memo} (hfr : Fresh.FrAll s) (hm : MemoOk s n m) : Fresh.MV s m :=
  fun x y hxy => hfr.ns n y (lookupFirst_mem (hm x y hxy).2)

end Aux

/-- CLAUSE (b) ACROSS THE TREE LISTS OF A DATA SET (`unify_taxon_namespaces`: one memo through all components).  For tree lists `ls`
whose trees are pairwise different objects: after `migrateTls` every tree of every list is bound to `n`, has kept its shape, and
every node with taxon `x` sits on the taxon the FINAL namespace resolves `x`'s label to.  The outgoing memo agrees with label
resolution, which is the hypothesis `mapKeys_unify_spec` needs for the matrices processed next. -/
theorem migrateTls_unify_spec (n : Nat) : ∀ (ls : List Nat) (s : Store) (memo : Memo),
    (ls.flatMap (fun l => (s.tl l).trees)).Nodup → ls.Nodup → Fresh.FrAll s → Aux.MemoOk s n memo →
    (∀ l, l ∈ ls → ∀ t, t ∈ (s.tl l).trees → ((migrateTls s n memo ls).1.tree t).ns = n
        ∧ related (fun x y => lookupFirst (migrateTls s n memo ls).1 n (s.ns n).cs (s.label x) = some y)
            (s.tree t).taxa ((migrateTls s n memo ls).1.tree t).taxa)
    ∧ Aux.Ext n s (migrateTls s n memo ls).1
    ∧ Aux.MemoOk (migrateTls s n memo ls).1 n (migrateTls s n memo ls).2
    ∧ (∀ t', (∀ l, l ∈ ls → t' ∉ (s.tl l).trees) → (migrateTls s n memo ls).1.tree t' = s.tree t')
  | [], s, memo, _, _, hfr, hm => ⟨by simp, Aux.Ext.refl (hfr.ns n), hm, fun _ _ => rfl⟩
  | l :: ls, s, memo, hnd, hnl, hfr, hm => by
    simp only [migrateTls]
    simp only [List.flatMap_cons] at hnd
    have hnd' := List.nodup_append.mp hnd
    have hnl' := List.nodup_cons.mp hnl
    -- the first list
    obtain ⟨r1, e1, m1, f1⟩ := migrateTrees_unify_spec n (s.tl l).trees
      { s with tl := upd s.tl l { (s.tl l) with ns := n } } memo hnd'.1 (hfr.ns n) (fun t _ x hx => hfr.tree t x hx) hm
    have st1 : (migrateTl s l n true memo).1 = (migrateTrees { s with tl := upd s.tl l { (s.tl l) with ns := n } } n true memo (s.tl l).trees).1 := rfl
    have sm1 : (migrateTl s l n true memo).2 = (migrateTrees { s with tl := upd s.tl l { (s.tl l) with ns := n } } n true memo (s.tl l).trees).2 := rfl
    have fr1 := (Fresh.frAll_migrateTl hfr l n true memo (Aux.mv_of_memoOk hfr hm)).1
    -- tree-id lists of the other lists are untouched
    have trees1 : ∀ l', l' ≠ l → ((migrateTl s l n true memo).1.tl l').trees = (s.tl l').trees := by
      intro l' ne
      rw [st1, Aux.migrateTrees_tl]
      simp [upd, ne]
    have hflat : (ls.flatMap (fun l' => ((migrateTl s l n true memo).1.tl l').trees)) = ls.flatMap (fun l' => (s.tl l').trees) := by
      have gen : ∀ (xs : List Nat), (∀ l', l' ∈ xs → l' ≠ l) →
          xs.flatMap (fun l' => ((migrateTl s l n true memo).1.tl l').trees) = xs.flatMap (fun l' => (s.tl l').trees) := by
        intro xs
        induction xs with
        | nil => intro _; rfl
        | cons a xs ih =>
          intro hne
          simp only [List.flatMap_cons]
          rw [trees1 a (hne a (by simp)), ih (fun l' hl' => hne l' (by simp [hl']))]
      exact gen ls (fun l' hl' e => hnl'.1 (e ▸ hl'))
    obtain ⟨r2, e2, m2, f2⟩ := migrateTls_unify_spec n ls (migrateTl s l n true memo).1 (migrateTl s l n true memo).2
      (by rw [hflat]; exact hnd'.2.1) hnl'.2 fr1 (by rw [st1, sm1]; exact m1)
    have e1' : Aux.Ext n s (migrateTl s l n true memo).1 := by rw [st1]; exact ⟨e1.nT, e1.lab, e1.cs, e1.fresh, e1.look⟩
    refine ⟨?_, e1'.trans e2, m2, ?_⟩
    · intro l0 hl0 t ht
      simp at hl0
      rcases hl0 with e | hl0
      · subst e
        -- a tree of the first list: not touched by the later lists
        have notlater : ∀ l', l' ∈ ls → t ∉ ((migrateTl s l0 n true memo).1.tl l').trees := by
          intro l' hl' hin
          rw [trees1 l' (fun e => hnl'.1 (e ▸ hl'))] at hin
          exact hnd'.2.2 t ht t (List.mem_flatMap.mpr ⟨l', hl', hin⟩) rfl
        rw [f2 t notlater]
        obtain ⟨a, b⟩ := r1 t ht
        refine ⟨by rw [st1]; exact a, ?_⟩
        rw [st1]
        refine Aux.related_mono _ _ ?_ b
        intro x y _ hl
        have := e2.look _ _ (by rw [e1'.cs]; rw [st1]; exact hl)
        rw [e1'.cs] at this; exact this
      · have ne : l0 ≠ l := fun e => hnl'.1 (e ▸ hl0)
        have ht' : t ∈ ((migrateTl s l n true memo).1.tl l0).trees := by rw [trees1 l0 ne]; exact ht
        obtain ⟨a, b⟩ := r2 l0 hl0 t ht'
        have tn : t ∉ (s.tl l).trees := by
          intro hin
          exact hnd'.2.2 t hin t (List.mem_flatMap.mpr ⟨l0, hl0, ht⟩) rfl
        have same : (migrateTl s l n true memo).1.tree t = s.tree t := by rw [st1]; exact f1 t tn
        refine ⟨a, ?_⟩
        rw [same] at b
        refine Aux.related_mono _ _ ?_ b
        intro x y hin hl
        rw [e1'.cs, e1'.lab x (hfr.tree t x hin)] at hl
        exact hl
    · intro t' hn
      have h1 : t' ∉ (s.tl l).trees := hn l (by simp)
      have h2 : ∀ l', l' ∈ ls → t' ∉ ((migrateTl s l n true memo).1.tl l').trees := by
        intro l' hl'
        rw [trees1 l' (fun e => hnl'.1 (e ▸ hl'))]
        exact hn l' (by simp [hl'])
      rw [f2 t' h2, st1]; exact f1 t' h1

/-! ## the readers' last-match lookup and clause (b) for reads into a populated namespace -/

/-- what "the readers' symbol table answers `y`" means: `y` is a member of the namespace carrying the label up to the case rule -/
theorem resolvedLast_member_label (s : Store) (n : Nat) (c : Bool) (lbl : String) (y : Nat)
    (h : lookupLast s n c lbl = some y) : y ∈ mem s n ∧ keyOf c (s.label y) = keyOf c lbl := by
  unfold lookupLast at h
  refine ⟨by simpa using List.mem_of_find?_eq_some h, by simpa using List.find?_some h⟩

/-- two labels of a source are put on the same taxon exactly when they are equal under the case rule (readers) -/
theorem same_taxon_iff_equal_labels_last (s : Store) (n : Nat) (c : Bool) (l1 l2 : String) (y1 y2 : Nat)
    (h1 : lookupLast s n c l1 = some y1) (h2 : lookupLast s n c l2 = some y2) :
    y1 = y2 ↔ keyOf c l1 = keyOf c l2 := by
  constructor
  · intro e
    have a := (resolvedLast_member_label s n c l1 y1 h1).2
    have b := (resolvedLast_member_label s n c l2 y2 h2).2
    rw [← a, ← b, e]
  · intro e
    have : lookupLast s n c l1 = lookupLast s n c l2 := by simp only [lookupLast, e]
    rw [this, h2] at h1
    exact (Option.some.inj h1).symm

namespace Aux

theorem lookLast_newTaxon (s : Store) (n : Nat) (c : Bool) (l0 lbl : String) (hf : FreshNs s n) :
    lookupLast (newTaxon s n l0).1 n c lbl
      = if keyOf c l0 == keyOf c lbl then some s.nTaxa else lookupLast s n c lbl := by
  simp only [lookupLast, newTaxon, mem, upd, if_true, List.reverse_append, List.reverse_cons, List.reverse_nil, List.nil_append,
    List.singleton_append, List.find?_cons]
  by_cases e : (keyOf c l0 == keyOf c lbl) = true
  · simp [e]
  · have e' : (keyOf c l0 == keyOf c lbl) = false := by simpa using e
    simp only [e', if_true]
    simp only [Bool.false_eq_true, if_false]
    apply find?_congr'
    intro x hx
    have hx' : x ∈ (s.ns n).members := by simpa using hx
    have : x ≠ s.nTaxa := Nat.ne_of_lt (hf x hx')
    simp [this]

/-- no member carries the label: the same for first- and last-match lookup -/
theorem lookupLast_none_of_first {s : Store} {n : Nat} {c : Bool} {l : String} (h : lookupFirst s n c l = none) :
    lookupLast s n c l = none := by
  simp only [lookupFirst, lookupLast, List.find?_eq_none] at h ⊢
  intro x hx
  exact h x (by simpa using hx)

/-- the store grew from `s0` without disturbing what the readers' table of `s0` answered for namespace `n` -/
structure ExtL (n : Nat) (s0 s : Store) : Prop where
  nT : s0.nTaxa ≤ s.nTaxa
  cs : (s.ns n).cs = (s0.ns n).cs
  fresh : FreshNs s n
  lookL : ∀ lbl y, lookupLast s0 n (s0.ns n).cs lbl = some y → lookupLast s n (s0.ns n).cs lbl = some y

theorem ExtL.refl {n : Nat} {s : Store} (hf : FreshNs s n) : ExtL n s s := ⟨Nat.le_refl _, rfl, hf, fun _ _ h => h⟩

theorem ExtL.trans {n : Nat} {a b c : Store} (h1 : ExtL n a b) (h2 : ExtL n b c) : ExtL n a c :=
  ⟨Nat.le_trans h1.nT h2.nT, h2.cs.trans h1.cs, h2.fresh,
   fun lbl y h => by have := h2.lookL lbl y (by rw [h1.cs]; exact h1.lookL lbl y h); rw [h1.cs] at this; exact this⟩

theorem extL_newTaxon (s : Store) (n : Nat) (l0 : String) (hf : FreshNs s n) (hnone : lookupLast s n (s.ns n).cs l0 = none) :
    ExtL n s (newTaxon s n l0).1 := by
  refine ⟨by simp [newTaxon], by simp [newTaxon, upd], (ext_newTaxon s n l0 hf).fresh, ?_⟩
  intro lbl y h
  rw [lookLast_newTaxon s n _ l0 lbl hf]
  have ne : (keyOf (s.ns n).cs l0 == keyOf (s.ns n).cs lbl) = false := by
    cases e : (keyOf (s.ns n).cs l0 == keyOf (s.ns n).cs lbl) with
    | false => rfl
    | true =>
      have : keyOf (s.ns n).cs l0 = keyOf (s.ns n).cs lbl := by simpa using e
      have : lookupLast s n (s.ns n).cs l0 = lookupLast s n (s.ns n).cs lbl := by simp only [lookupLast, this]
      rw [this, h] at hnone; simp at hnone
  simp [ne, h]

theorem requireLast_spec (s : Store) (n : Nat) (l : String) (hf : FreshNs s n) :
    ExtL n s (requireLast s n (s.ns n).cs l).1
    ∧ lookupLast (requireLast s n (s.ns n).cs l).1 n (s.ns n).cs l = some (requireLast s n (s.ns n).cs l).2 := by
  cases hl : lookupLast s n (s.ns n).cs l with
  | some y =>
    have r : requireLast s n (s.ns n).cs l = (s, y) := by unfold requireLast; rw [hl]
    rw [r]; exact ⟨ExtL.refl hf, hl⟩
  | none =>
    have r : requireLast s n (s.ns n).cs l = newTaxon s n l := by unfold requireLast; rw [hl]
    rw [r]
    refine ⟨extL_newTaxon s n l hf hl, ?_⟩
    rw [lookLast_newTaxon s n _ l l hf]; simp [newTaxon]

/-- first-match `require_taxon` (a TAXA block) does not disturb the readers' table either -/
theorem require_extL (s : Store) (n : Nat) (l : String) (hf : FreshNs s n) : ExtL n s (require s n (s.ns n).cs l).1 := by
  cases hl : lookupFirst s n (s.ns n).cs l with
  | some y => rw [require_of_lookup hl]; exact ExtL.refl hf
  | none =>
    have r : require s n (s.ns n).cs l = newTaxon s n l := by unfold require; rw [hl]
    rw [r]; exact extL_newTaxon s n l hf (lookupLast_none_of_first hl)

theorem requireList_extL (n : Nat) : ∀ (ls : List String) (s : Store) (c : Bool), c = (s.ns n).cs → FreshNs s n →
    ExtL n s (requireList s n c ls).1
  | [], s, _, _, hf => ExtL.refl hf
  | l :: ls, s, c, hc, hf => by
    subst hc
    simp only [requireList]
    have e1 := require_extL s n l hf
    exact e1.trans (requireList_extL n ls _ _ e1.cs.symm e1.fresh)

end Aux

/-- position-wise relation between the labels of a source and the taxa they were put on -/
def relL (R : String → Nat → Prop) : List String → List Nat → Prop
  | [], [] => True
  | l :: ls, y :: ys => R l y ∧ relL R ls ys
  | _, _ => False

namespace Aux

theorem relL_mono {R R' : String → Nat → Prop} (h : ∀ l y, R l y → R' l y) : ∀ (ls : List String) (ys : List Nat),
    relL R ls ys → relL R' ls ys
  | [], [], _ => trivial
  | [], _ :: _, hr => by simp [relL] at hr
  | _ :: _, [], hr => by simp [relL] at hr
  | l :: ls, y :: ys, hr => by simp only [relL] at hr ⊢; exact ⟨h l y hr.1, relL_mono h ls ys hr.2⟩

theorem requireLastList_spec (n : Nat) : ∀ (ls : List String) (s : Store) (c : Bool), c = (s.ns n).cs → FreshNs s n →
    relL (fun l y => lookupLast (requireLastList s n c ls).1 n c l = some y) ls (requireLastList s n c ls).2
    ∧ ExtL n s (requireLastList s n c ls).1
  | [], s, _, _, hf => ⟨trivial, ExtL.refl hf⟩
  | l :: ls, s, c, hc, hf => by
    subst hc
    simp only [requireLastList, relL]
    obtain ⟨e1, l1⟩ := requireLast_spec s n l hf
    obtain ⟨r2, e2⟩ := requireLastList_spec n ls (requireLast s n (s.ns n).cs l).1 (s.ns n).cs e1.cs.symm e1.fresh
    refine ⟨⟨?_, r2⟩, e1.trans e2⟩
    have := e2.lookL _ _ (by rw [e1.cs]; exact l1)
    rw [e1.cs] at this; exact this

end Aux

/-- CLAUSE (b) FOR ONE TREE STATEMENT READ INTO A (POSSIBLY POPULATED) NAMESPACE: every label of the statement is put on the taxon
the readers' table of the grown namespace answers for it — a member carrying that label up to the case rule
(`resolvedLast_member_label`); two labels share a taxon exactly when they are equal under the rule
(`same_taxon_iff_equal_labels_last`); a label already present is never duplicated (the table answers an existing member). -/
theorem readLabels_spec (s : Store) (n : Nat) (labs : List String) (hf : FreshNs s n) :
    relL (fun l y => lookupLast (requireLastList s n (s.ns n).cs labs).1 n (s.ns n).cs l = some y
                      ∧ y ∈ mem (requireLastList s n (s.ns n).cs labs).1 n) labs (requireLastList s n (s.ns n).cs labs).2
    ∧ (∀ lbl y, lookupLast s n (s.ns n).cs lbl = some y →
        lookupLast (requireLastList s n (s.ns n).cs labs).1 n (s.ns n).cs lbl = some y) := by
  obtain ⟨r, e⟩ := Aux.requireLastList_spec n labs s (s.ns n).cs rfl hf
  refine ⟨Aux.relL_mono (fun l y h => ⟨h, (resolvedLast_member_label _ n _ l y h).1⟩) _ _ r, e.lookL⟩

/-- the tree statements of a source against the trees made from them: each new tree is a root without taxon over one leaf per
label, the leaf of label `l` sitting on the taxon `R l` names -/
def relDocs (σ : Store) (R : String → Nat → Prop) : List (List String) → List Nat → Prop
  | [], [] => True
  | labs :: ds, t :: ts => (∃ ys, (σ.tree t).taxa = none :: ys.map some ∧ relL R labs ys) ∧ relDocs σ R ds ts
  | _, _ => False

namespace Aux

theorem readTrees_frame (n : Nat) : ∀ (docs : List (List String)) (σ : Store) (t : Nat), t < σ.nTree →
    (readTrees σ n docs).1.tree t = σ.tree t ∧ σ.nTree ≤ (readTrees σ n docs).1.nTree
  | [], _, _, _ => ⟨rfl, Nat.le_refl _⟩
  | labs :: rest, σ, t, ht => by
    simp only [readTrees]
    have g := (grows_requireLastList n (σ.ns n).cs labs σ).1
    have lt : t < (allocTree (requireLastList σ n (σ.ns n).cs labs).1
        { ns := n, taxa := none :: (requireLastList σ n (σ.ns n).cs labs).2.map some }).1.nTree := by
      simp only [allocTree]; rw [g.nTree]; omega
    obtain ⟨a, b⟩ := readTrees_frame n rest _ t lt
    refine ⟨?_, ?_⟩
    · rw [a]
      have : t ≠ (requireLastList σ n (σ.ns n).cs labs).1.nTree := by rw [g.nTree]; omega
      simp only [allocTree, upd, this, if_false]
      exact congrFun g.tree t
    · have : σ.nTree ≤ (allocTree (requireLastList σ n (σ.ns n).cs labs).1
        { ns := n, taxa := none :: (requireLastList σ n (σ.ns n).cs labs).2.map some }).1.nTree := by
        simp only [allocTree]; rw [g.nTree]; omega
      exact Nat.le_trans this b

theorem relDocs_mono {σ σ' : Store} {R R' : String → Nat → Prop} (hR : ∀ l y, R l y → R' l y) :
    ∀ (ds : List (List String)) (ts : List Nat), (∀ t, t ∈ ts → σ'.tree t = σ.tree t) → relDocs σ R ds ts → relDocs σ' R' ds ts
  | [], [], _, _ => trivial
  | [], _ :: _, _, h => by simp [relDocs] at h
  | _ :: _, [], _, h => by simp [relDocs] at h
  | labs :: ds, t :: ts, hf, h => by
    simp only [relDocs] at h ⊢
    obtain ⟨⟨ys, e, r⟩, rest⟩ := h
    refine ⟨⟨ys, by rw [hf t (by simp)]; exact e, relL_mono hR _ _ r⟩, relDocs_mono hR ds ts (fun t' ht' => hf t' (by simp [ht'])) rest⟩

end Aux

/-- CLAUSE (b) FOR A WHOLE SOURCE OF TREES (Newick / NeXML / the TREES block of NEXUS) read into a possibly populated namespace:
every new tree is bound to `n` with a taxon-less root over one leaf per label, and every leaf sits on what the readers' table of
the FINAL namespace answers for its label; what the table answered before the read it still answers (existing taxa are reused,
never duplicated). -/
theorem readTrees_spec (n : Nat) : ∀ (docs : List (List String)) (s : Store), FreshNs s n →
    relDocs (readTrees s n docs).1 (fun l y => lookupLast (readTrees s n docs).1 n (s.ns n).cs l = some y) docs (readTrees s n docs).2
    ∧ Aux.ExtL n s (readTrees s n docs).1
    ∧ (∀ t, t ∈ (readTrees s n docs).2 → s.nTree ≤ t ∧ t < (readTrees s n docs).1.nTree)
  | [], s, hf => ⟨trivial, Aux.ExtL.refl hf, by simp [readTrees]⟩
  | labs :: rest, s, hf => by
    simp only [readTrees]
    obtain ⟨r1, e1⟩ := Aux.requireLastList_spec n labs s (s.ns n).cs rfl hf
    have g := (Aux.grows_requireLastList n (s.ns n).cs labs s).1
    -- the store after the first tree was allocated: same namespaces and labels as after its labels were resolved
    have e1a : Aux.ExtL n s (allocTree (requireLastList s n (s.ns n).cs labs).1
        { ns := n, taxa := none :: (requireLastList s n (s.ns n).cs labs).2.map some }).1 :=
      ⟨e1.nT, e1.cs, e1.fresh, e1.lookL⟩
    obtain ⟨r2, e2, b2⟩ := readTrees_spec n rest _ e1a.fresh
    have lt0 : (requireLastList s n (s.ns n).cs labs).1.nTree < (allocTree (requireLastList s n (s.ns n).cs labs).1
        { ns := n, taxa := none :: (requireLastList s n (s.ns n).cs labs).2.map some }).1.nTree := by simp [allocTree]
    obtain ⟨fr, le⟩ := Aux.readTrees_frame n rest _ _ lt0
    refine ⟨?_, e1a.trans e2, ?_⟩
    · simp only [relDocs]
      refine ⟨⟨(requireLastList s n (s.ns n).cs labs).2, ?_, ?_⟩, ?_⟩
      · show ((readTrees _ n rest).1.tree (requireLastList s n (s.ns n).cs labs).1.nTree).taxa = _
        rw [fr]; simp [allocTree, upd]
      · refine Aux.relL_mono ?_ _ _ r1
        intro l y h
        have := e2.lookL l y (by rw [e1a.cs]; exact h)
        rw [e1a.cs] at this; exact this
      · refine Aux.relDocs_mono ?_ _ _ (fun _ _ => rfl) r2
        intro l y h
        rw [e1a.cs] at h; exact h
    · intro t ht
      simp at ht
      rcases ht with e | ht
      · subst e
        refine ⟨by simp only [allocTree]; rw [g.nTree]; exact Nat.le_refl _, Nat.lt_of_lt_of_le lt0 le⟩
      · obtain ⟨x, y⟩ := b2 t ht
        refine ⟨?_, y⟩
        have : s.nTree ≤ (allocTree (requireLastList s n (s.ns n).cs labs).1
          { ns := n, taxa := none :: (requireLastList s n (s.ns n).cs labs).2.map some }).1.nTree := by
          simp only [allocTree]; rw [g.nTree]; omega
        exact Nat.le_trans this x

/-- `TreeList.read` / `TreeList.get(taxon_namespace=…)` of a further source (any schema; `pre` = the labels of a TAXA-like block,
resolved first): the trees appended to the list satisfy `readTrees_spec` against the final store, and everything the readers'
table answered before the read (the taxa the list's older trees sit on) it still answers afterwards -/
theorem readInto_spec (s : Store) (l : Nat) (pre : List String) (docs : List (List String)) (hf : FreshNs s (s.tl l).ns) :
    ∃ new, ((readInto s l pre docs).tl l).trees = (s.tl l).trees ++ new
      ∧ relDocs (readInto s l pre docs) (fun lb y => lookupLast (readInto s l pre docs) (s.tl l).ns (s.ns (s.tl l).ns).cs lb = some y) docs new
      ∧ (∀ lb y, lookupLast s (s.tl l).ns (s.ns (s.tl l).ns).cs lb = some y →
            lookupLast (readInto s l pre docs) (s.tl l).ns (s.ns (s.tl l).ns).cs lb = some y) := by
  have e0 := Aux.requireList_extL (s.tl l).ns pre s (s.ns (s.tl l).ns).cs rfl hf
  obtain ⟨r, e, _⟩ := readTrees_spec (s.tl l).ns docs (requireList s (s.tl l).ns (s.ns (s.tl l).ns).cs pre).1 e0.fresh
  have g0 := (Aux.grows_requireList (s.tl l).ns (s.ns (s.tl l).ns).cs pre s).1
  have tlsame : (readTrees (requireList s (s.tl l).ns (s.ns (s.tl l).ns).cs pre).1 (s.tl l).ns docs).1.tl = s.tl := by
    -- the readers allocate trees and taxa only
    have gen : ∀ (ds : List (List String)) (σ : Store), (readTrees σ (s.tl l).ns ds).1.tl = σ.tl := by
      intro ds
      induction ds with
      | nil => intro σ; rfl
      | cons a ds ih =>
        intro σ
        simp only [readTrees]
        rw [ih]
        simp only [allocTree]
        exact (Aux.grows_requireLastList (s.tl l).ns (σ.ns (s.tl l).ns).cs a σ).1.tl
    rw [gen]; exact g0.tl
  refine ⟨(readTrees (requireList s (s.tl l).ns (s.ns (s.tl l).ns).cs pre).1 (s.tl l).ns docs).2, ?_, ?_, ?_⟩
  · simp only [readInto, setTrees, upd, if_true]
    rw [tlsame]
  · simp only [readInto]
    refine Aux.relDocs_mono ?_ _ _ ?_ r
    · intro lb y h
      rw [e0.cs] at h
      exact h
    · intro t _; rfl
  · intro lb y h
    simp only [readInto]
    have := e.lookL lb y (by rw [e0.cs]; exact e0.lookL lb y h)
    rw [e0.cs] at this
    exact this

/-! ## freshness is a history invariant (not a hypothesis) -/

open DendroModel.C11.Fresh in
/-- every taxon id referred to anywhere (namespace members, node taxa, sequence keys) stays an allocated one under EVERY `step`,
inside or outside `valid` (and outside `idsOk`, where the driver's `stepG` refuses and `step` acts on blank objects: the
statement is about `step`, so it covers `stepG` a fortiori — `fresh_stepG`) -/
theorem fresh_step (s : Store) (op : Op) (h : FrAll s) : FrAll (step s op).1 := by
  cases op with
  | ns cs labels => simp only [step]; exact frAll_newTaxa _ labels (frAll_newNs h cs).1
  | tree n taxa =>
    simp only [step]
    apply frAll_allocTree h
    intro x hx
    simp only [List.mem_map] at hx
    obtain ⟨o, _, e⟩ := hx
    cases o with
    | none => simp at e
    | some i => simp at e; exact h.ns n x (List.mem_of_getElem? e)
  | tlist n =>
    cases n with
    | none => simp only [step]; exact frAll_allocTl (frAll_newNs h false).1 _
    | some n => simp only [step]; exact frAll_allocTl h n
  | mat n idx =>
    simp only [step]
    apply frAll_allocMat h
    intro x hx
    simp only [List.mem_filterMap] at hx
    obtain ⟨i, _, e⟩ := hx
    exact h.ns n x (List.mem_of_getElem? e)
  | ds => simp only [step]; exact frAll_of_eq h rfl rfl rfl rfl
  | append l t st => simp only [step]; exact frAll_spliceT h _ _ _ _ _
  | insert l i t st => simp only [step]; exact frAll_spliceT h _ _ _ _ _
  | setitem l i t =>
    simp only [step]
    split
    · exact frAll_spliceT h _ _ _ _ _
    · exact frAll_importTrees _ _ _ h
  | setslice l a b src => simp only [step]; exact frAll_srcInto h _ _ _ _
  | extend l src => simp only [step]; exact frAll_srcInto h _ _ _ _
  | add l src => simp only [step]; exact frAll_srcInto (frAll_spliceL (frAll_allocTl h _) _ _ _ _) _ _ _ _
  | read l docs => simp only [step]; exact frAll_setTrees (frAll_readTrees _ docs h) _ _
  | newtree l src =>
    cases src with
    | none => simp only [step]; exact frAll_setTrees (frAll_allocTree h _ (by simp)) _ _
    | some t => simp only [step]; exact frAll_setTrees (frAll_cloneTree h t _) _ _
  | getslice l a b => simp only [step]; exact frAll_setTrees (frAll_allocTl h _) _ _
  | pop l i => simp only [step]; exact frAll_setTrees h _ _
  | remove l t =>
    simp only [step]
    split
    · exact frAll_setTrees h _ _
    · exact h
  | lclone l n =>
    simp only [step]
    have key : ∀ (r : Store × Memo), r = (if n.getD (s.tl l).ns = (s.tl l).ns then (s, (mem s (s.tl l).ns).map (fun x => (x, x)))
        else cloneMemo s (n.getD (s.tl l).ns) (mem s (s.tl l).ns)) → FrAll r.1 ∧ MV r.1 r.2 := by
      intro r hr
      split at hr
      · subst hr
        refine ⟨h, ?_⟩
        intro x y hxy
        have : applyMemo ((mem s (s.tl l).ns).map (fun x => (x, x))) x = y := by simp [applyMemo, hxy]
        rw [Aux.applyMemo_id] at this
        subst this
        -- x is a key of the identity memo, hence a member
        simp only [memoGet] at hxy
        cases hf : List.find? (fun p => p.1 == x) ((mem s (s.tl l).ns).map (fun x => (x, x))) with
        | none => simp [hf] at hxy
        | some p =>
          have hm := List.mem_of_find?_eq_some hf
          have hp := List.find?_some hf
          simp only [List.mem_map] at hm
          obtain ⟨z, hz, e⟩ := hm
          subst e
          have : z = x := by simpa using hp
          subst this
          exact h.ns _ z hz
      · subst hr
        obtain ⟨a, _, c⟩ := frAll_cloneMemo (n.getD (s.tl l).ns) (mem s (s.tl l).ns) h
        exact ⟨a, c⟩
    generalize hr : (if n.getD (s.tl l).ns = (s.tl l).ns then (s, (mem s (s.tl l).ns).map (fun x => (x, x)))
        else cloneMemo s (n.getD (s.tl l).ns) (mem s (s.tl l).ns)) = r
    obtain ⟨a, c⟩ := key r hr.symm
    exact frAll_setTrees (frAll_copyTrees _ r.2 _ [] (frAll_allocTl a _) (fun x y hxy => c x y hxy)) _ _
  | tclone t n => simp only [step]; exact frAll_cloneTree h t _
  | mclone m n => simp only [step]; exact frAll_cloneMat h m _
  | tmig t n u => simp only [step]; exact (frAll_migrateTree h t n u [] (mv_nil s)).1
  | trec t u => simp only [step]; exact (frAll_migrateTree h t _ u [] (mv_nil s)).1
  | lmig l n u => simp only [step]; exact (frAll_migrateTl h l n u [] (mv_nil s)).1
  | lrec l u => simp only [step]; exact (frAll_migrateTl h l _ u [] (mv_nil s)).1
  | tassign t n a =>
    cases a with
    | true => simp only [step]; split; exact h; exact (frAll_migrateTree h t n true [] (mv_nil s)).1
    | false => simp only [step]; exact (frAll_addTree h t n).1
  | lassign l n a =>
    cases a with
    | true => simp only [step]; split; exact h; exact (frAll_migrateTl h l n true [] (mv_nil s)).1
    | false => simp only [step]; exact frAll_addTl h l n
  | massign m n a =>
    cases a with
    | true => simp only [step]; split; exact h; exact (frAll_migrateMat h m n true [] (mv_nil s)).1
    | false => simp only [step]; exact frAll_addMat h m n
  | mcomb m m2 a =>
    simp only [step]
    split
    · cases a with
      | false => exact h
      | true =>
        simp only [if_true]
        apply frAll_setMat h m
        intro x hx
        rcases mergeKeys_sub' _ _ x hx with hx | hx
        · exact h.mat m x hx
        · exact h.mat m2 x hx
    · exact h
  | setslicegen l a b ts => simp only [step]; exact frAll_setTrees (frAll_importTrees _ _ ts h) _ _
  | tpurge t => simp only [step]; exact frAll_purge h _ _
  | lpurge l => simp only [step]; exact frAll_purge h _ _
  | mpurge m => simp only [step]; exact frAll_purge h _ _
  | mmig m n u => simp only [step]; exact (frAll_migrateMat h m n u [] (mv_nil s)).1
  | mrec m u => simp only [step]; exact (frAll_migrateMat h m _ u [] (mv_nil s)).1
  | mset m n i =>
    simp only [step]
    split
    · exact h
    · next x hx =>
      split
      · apply frAll_setMat h
        intro y hy
        rcases Aux.mem_addOnce hy with hy | hy
        · exact h.mat m y hy
        · subst hy; exact h.ns n y (List.mem_of_getElem? hx)
      · exact h
  | mnew m n i =>
    simp only [step]
    split
    · exact h
    · next x hx =>
      split
      · exact h
      · split
        · apply frAll_setMat h
          intro y hy
          simp at hy
          rcases hy with hy | hy
          · exact h.mat m y hy
          · subst hy; exact h.ns n y (List.mem_of_getElem? hx)
        · exact h
  | dsaddN d n => simp only [step]; exact frAll_setDs h _ _
  | dsaddL d l => simp only [step]; exact frAll_setDs h _ _
  | dsaddM d m => simp only [step]; exact frAll_setDs h _ _
  | dsnewlist d =>
    simp only [step]
    split
    · exact frAll_setDs (frAll_allocTl h _) _ _
    · exact frAll_setDs (frAll_allocTl (frAll_newNs h false).1 _) _ _
  | dsnewmat d =>
    simp only [step]
    split
    · exact frAll_setDs (frAll_allocMat h _ (by simp)) _ _
    · exact frAll_setDs (frAll_allocMat (frAll_newNs h false).1 _ (by simp)) _ _
  | dsnewns d => simp only [step]; exact frAll_setDs (frAll_newNs h false).1 _ _
  | dsattach d n => simp only [step]; exact frAll_setDs h _ _
  | dsdetach d => simp only [step]; exact frAll_setDs h _ _
  | dsunify d n =>
    cases n with
    | some n0 =>
      simp only [step]
      split
      · exact frAll_setDs h _ _
      · have h0 : FrAll (setDs s d { (s.ds d) with nss := [] }) := frAll_setDs h _ _
        obtain ⟨a, b, c⟩ := frAll_migrateTls n0 (s.ds d).tls [] h0 (mv_nil _)
        have m := frAll_migrateMats n0 (s.ds d).mats _ a c
        split
        · exact frAll_setDs m _ _
        · exact m
    | none =>
      simp only [step]
      split
      · exact h
      · have h0 : FrAll (dsAddNs (newNs (setDs s d { (s.ds d) with nss := [] }) false).1 d
            (newNs (setDs s d { (s.ds d) with nss := [] }) false).2) :=
          frAll_setDs (frAll_newNs (frAll_setDs h _ _) false).1 _ _
        obtain ⟨a, b, c⟩ := frAll_migrateTls (newNs (setDs s d { (s.ds d) with nss := [] }) false).2 (s.ds d).tls [] h0 (mv_nil _)
        have m := frAll_migrateMats (newNs (setDs s d { (s.ds d) with nss := [] }) false).2 (s.ds d).mats _ a c
        split
        · exact frAll_setDs m _ _
        · exact m
  | dsread d taxa rows trees =>
    -- the three blocks, from any fresh store
    have core : ∀ (σ : Store) (n : Nat) (cs : Bool), FrAll σ →
        FrAll (requireList σ n cs taxa).1
        ∧ (∀ rws, FrAll (dsAddMat (allocMat (requireList (requireList σ n cs taxa).1 n cs rws).1
              { ns := n, keys := mergeKeys [] (requireList (requireList σ n cs taxa).1 n cs rws).2 }).1 d
            (allocMat (requireList (requireList σ n cs taxa).1 n cs rws).1
              { ns := n, keys := mergeKeys [] (requireList (requireList σ n cs taxa).1 n cs rws).2 }).2))
        ∧ (∀ (σ2 : Store), FrAll σ2 → ∀ docs, FrAll (setTrees (readTrees (dsAddTl (allocTl σ2 n).1 d (allocTl σ2 n).2) n docs).1
              (allocTl σ2 n).2 (readTrees (dsAddTl (allocTl σ2 n).1 d (allocTl σ2 n).2) n docs).2)) := by
      intro σ n cs hσ
      obtain ⟨a, _, _⟩ := frAll_requireList n cs taxa hσ
      refine ⟨a, ?_, ?_⟩
      · intro rws
        obtain ⟨a2, _, c2⟩ := frAll_requireList n cs rws a
        apply frAll_setDs
        apply frAll_allocMat a2
        intro x hx
        rcases Fresh.mergeKeys_sub _ _ x hx with hx | hx
        · simp at hx
        · exact c2 x hx
      · intro σ2 h2 docs
        exact frAll_setTrees (frAll_readTrees n docs (frAll_setDs (frAll_allocTl h2 n) _ _)) _ _
    cases hatt : (s.ds d).att with
    | some a =>
      obtain ⟨c1, c2, c3⟩ := core s a (s.ns a).cs h
      cases rows with
      | none =>
        cases trees with
        | none => simp only [step, hatt]; exact c1
        | some docs => simp only [step, hatt]; exact c3 _ c1 docs
      | some rws =>
        cases trees with
        | none => simp only [step, hatt]; exact c2 rws
        | some docs => simp only [step, hatt]; exact c3 _ (c2 rws) docs
    | none =>
      have h0 : FrAll (dsAddNs (newNs s false).1 d (newNs s false).2) := frAll_setDs (frAll_newNs h false).1 _ _
      obtain ⟨c1, c2, c3⟩ := core (dsAddNs (newNs s false).1 d (newNs s false).2) (newNs s false).2
        (((dsAddNs (newNs s false).1 d (newNs s false).2).ns (newNs s false).2).cs) h0
      cases rows with
      | none =>
        cases trees with
        | none => simp only [step, hatt]; exact c1
        | some docs => simp only [step, hatt]; exact c3 _ c1 docs
      | some rws =>
        cases trees with
        | none => simp only [step, hatt]; exact c2 rws
        | some docs => simp only [step, hatt]; exact c3 _ (c2 rws) docs
  | taadd n t => simp only [step]; exact h
  | chain gs => simp only [step]; exact frAll_chain gs [] h (mv_nil s)
  | readx l pre docs => simp only [step]; exact frAll_readInto h l pre docs
  | tlget n pre docs => simp only [step]; exact frAll_readInto (frAll_allocTl h n) _ pre docs
  | tget n pre labels =>
    simp only [step]
    obtain ⟨a1, _, _⟩ := frAll_requireList n (s.ns n).cs pre h
    obtain ⟨a2, _, c2⟩ := frAll_requireLastList n (s.ns n).cs labels a1
    apply frAll_allocTree a2
    intro x hx
    simp at hx
    exact c2 x hx
  | mget n last pre rows =>
    simp only [step]
    obtain ⟨a1, _, _⟩ := frAll_requireList n (s.ns n).cs pre h
    cases last with
    | true =>
      obtain ⟨a2, _, c2⟩ := frAll_requireLastList n (s.ns n).cs rows a1
      apply frAll_allocMat a2
      intro x hx
      rcases Fresh.mergeKeys_sub _ _ x hx with hx | hx
      · simp at hx
      · exact c2 x hx
    | false =>
      obtain ⟨a2, _, c2⟩ := frAll_requireList n (s.ns n).cs rows a1
      apply frAll_allocMat a2
      intro x hx
      rcases Fresh.mergeKeys_sub _ _ x hx with hx | hx
      · simp at hx
      · exact c2 x hx
  | newtreeseed l t =>
    simp only [step]
    obtain ⟨a, b⟩ := frAll_addTaxa (s.tl l).ns (s.tree t).taxa h (h.tree t)
    exact frAll_setTrees (frAll_allocTree a _ (fun x hx => by rw [b]; exact h.tree t x hx)) _ _
  | treeseed n t =>
    cases n with
    | some n =>
      simp only [step]
      obtain ⟨a, b⟩ := frAll_addTaxa n (s.tree t).taxa h (h.tree t)
      exact frAll_allocTree a _ (fun x hx => by rw [b]; exact h.tree t x hx)
    | none =>
      simp only [step]
      obtain ⟨a0, b0⟩ := frAll_newNs h false
      obtain ⟨a, b⟩ := frAll_addTaxa (newNs s false).2 (s.tree t).taxa a0 (fun x hx => by rw [b0]; exact h.tree t x hx)
      exact frAll_allocTree a _ (fun x hx => by rw [b, b0]; exact h.tree t x hx)

/-- ... hence along every history from the empty world, whatever the operations -/
theorem fresh_reachable : ∀ (ops : List Op) (s : Store), Fresh.FrAll s → Fresh.FrAll (run s ops)
  | [], _, h => h
  | op :: ops, s, h => fresh_reachable ops _ (fresh_step s op h)

/-- the hypotheses of `mapTaxa_unify_spec` / `migrateTree_unify_spec` are facts about every reachable world -/
theorem freshNs_reachable (ops : List Op) (n t : Nat) :
    FreshNs (run init ops) n ∧ (∀ x, some x ∈ ((run init ops).tree t).taxa → x < (run init ops).nTaxa) :=
  ⟨(fresh_reachable ops init Fresh.frAll_init).ns n, (fresh_reachable ops init Fresh.frAll_init).tree t⟩

/-- clause (b) for `Tree.migrate_taxon_namespace(ns)` / `reconstruct_taxon_namespace()` in ANY reachable world, no side conditions:
the tree is bound to `n`, no node is dropped or invented, and every node with taxon `x` sits on the member of `n` that label
resolution answers for `x`'s label (so: same taxon ⇔ equal labels under `n`'s case rule, by `same_taxon_iff_equal_labels`) -/
theorem migrateTree_unify_reachable (ops : List Op) (t n : Nat) :
    ((migrateTree (run init ops) t n true []).1.tree t).ns = n
    ∧ related (fun x y => lookupFirst (migrateTree (run init ops) t n true []).1 n ((run init ops).ns n).cs ((run init ops).label x) = some y
                          ∧ y ∈ mem (migrateTree (run init ops) t n true []).1 n)
        ((run init ops).tree t).taxa ((migrateTree (run init ops) t n true []).1.tree t).taxa := by
  obtain ⟨f, x⟩ := freshNs_reachable ops n t
  obtain ⟨a, b, _, _⟩ := migrateTree_unify_spec (run init ops) t n [] f x (Aux.memoOk_nil _ _)
  exact ⟨a, b⟩

theorem fresh_stepG (s : Store) (op : Op) (h : Fresh.FrAll s) : Fresh.FrAll (stepG s op).1 := by
  unfold stepG; split
  · exact fresh_step s op h
  · exact h

/-- clause (b) for `TreeList.migrate_taxon_namespace` / `reconstruct_taxon_namespace` as the statement words it: after the pass,
two nodes ANYWHERE in the list (same tree or not) whose old taxa were `x1`, `x2` and whose new taxa are `y1`, `y2` satisfy
`y1 = y2 ↔` the labels of `x1`, `x2` are equal under `n`'s case rule — given only that they are related positions
(`related` of `migrateTl_unify_spec` delivers exactly the two lookup facts used here) -/
theorem migrateTl_same_taxon_iff (s : Store) (l n : Nat) (memo : Memo) (x1 x2 y1 y2 : Nat)
    (h1 : lookupFirst (migrateTl s l n true memo).1 n (s.ns n).cs (s.label x1) = some y1)
    (h2 : lookupFirst (migrateTl s l n true memo).1 n (s.ns n).cs (s.label x2) = some y2) :
    (y1 = y2 ↔ keyOf (s.ns n).cs (s.label x1) = keyOf (s.ns n).cs (s.label x2))
    ∧ y1 ∈ mem (migrateTl s l n true memo).1 n ∧ y2 ∈ mem (migrateTl s l n true memo).1 n :=
  ⟨same_taxon_iff_equal_labels _ n _ _ _ y1 y2 h1 h2, Aux.lookupFirst_mem h1, Aux.lookupFirst_mem h2⟩

/-- the history the driver runs (`stepG` at every step) -/
def runG (s : Store) : List Op → Store
  | [] => s
  | op :: ops => runG (stepG s op).1 ops

/-- on a valid history the driver's run is `run`, so closure and freshness hold along what `drv_c11` actually executes -/
theorem runG_eq_run : ∀ (ops : List Op) (s : Store), validHist s ops = true → runG s ops = run s ops
  | [], _, _ => rfl
  | op :: ops, s, hv => by
    simp only [validHist, Bool.and_eq_true] at hv
    simp only [runG, run, stepG_of_valid hv.1]
    exact runG_eq_run ops _ hv.2

theorem closed_reachable_driver (ops : List Op) (hv : validHist init ops = true) :
    Aux.Inv (runG init ops) ∧ Fresh.FrAll (runG init ops) := by
  rw [runG_eq_run ops init hv]
  exact ⟨closed_reachable ops init Aux.inv_init hv, fresh_reachable ops init Fresh.frAll_init⟩

/-! ## `unify_taxa_by_label=False` over whole passes: distinct taxon objects stay distinct, shared ones stay shared -/

section FreshPass
open Pass

namespace Aux

/-- the trees of a collection under ONE non-unifying pass with a shared memo (pairwise different tree objects) -/
theorem migrateTrees_fresh {b : Nat} {M0 : List Nat} {L0 : Nat → String} (n : Nat) : ∀ (ts : List Nat) (s : Store) (m : Memo),
    ts.Nodup → PassF b M0 L0 n s m → (∀ t, t ∈ ts → ∀ x, some x ∈ (s.tree t).taxa → x < b) →
    PassF b M0 L0 n (migrateTrees s n false m ts).1 (migrateTrees s n false m ts).2
    ∧ (∀ t, t ∈ ts → ((migrateTrees s n false m ts).1.tree t).ns = n
        ∧ related (RF M0 (migrateTrees s n false m ts).2) (s.tree t).taxa ((migrateTrees s n false m ts).1.tree t).taxa)
    ∧ (∀ q z, memoGet m q = some z → memoGet (migrateTrees s n false m ts).2 q = some z)
    ∧ (∀ t', t' ∉ ts → (migrateTrees s n false m ts).1.tree t' = s.tree t')
  | [], s, m, _, P, _ => ⟨P, by simp, fun _ _ h => h, fun _ _ => rfl⟩
  | t :: ts, s, m, hnd, P, hx => by
    simp only [migrateTrees]
    have hnd' := List.nodup_cons.mp hnd
    obtain ⟨P1, r1, g1⟩ := mapTaxa_fresh n (s.tree t).taxa s m P (hx t (by simp))
    have P1' : PassF b M0 L0 n (migrateTree s t n false m).1 (migrateTree s t n false m).2 := by
      simp only [migrateTree]
      exact passF_of_eq P1 rfl rfl rfl
    have hx' : ∀ t', t' ∈ ts → ∀ x, some x ∈ ((migrateTree s t n false m).1.tree t').taxa → x < b := by
      intro t' ht' x hxin
      have ne : t' ≠ t := fun e => hnd'.1 (e ▸ ht')
      rw [migrateTree_frame s t n false m t' ne] at hxin
      exact hx t' (by simp [ht']) x hxin
    obtain ⟨P2, r2, g2, f2⟩ := migrateTrees_fresh n ts _ _ hnd'.2 P1' hx'
    refine ⟨P2, ?_, fun q z h => g2 q z (by simp only [migrateTree]; exact g1 q z h), ?_⟩
    · intro t' ht'
      simp at ht'
      rcases ht' with e | ht'
      · subst e
        rw [f2 t' hnd'.1]
        refine ⟨by simp [migrateTree, setTree, upd], ?_⟩
        have : ((migrateTree s t' n false m).1.tree t').taxa = (mapTaxa s n false m (s.tree t').taxa).2.2 := by
          simp [migrateTree, setTree, upd]
        rw [this]
        refine related_mono _ _ ?_ r1
        intro x y _ hr
        exact rf_mono (fun q z h => g2 q z (by simp only [migrateTree]; exact h)) hr
      · have ne : t' ≠ t := fun e => hnd'.1 (e ▸ ht')
        obtain ⟨a, c⟩ := r2 t' ht'
        rw [migrateTree_frame s t n false m t' ne] at c
        exact ⟨a, c⟩
    · intro t' hn
      simp at hn
      rw [f2 t' hn.2, migrateTree_frame s t n false m t' hn.1]

end Aux

/-- `unify_taxa_by_label=False`, A WHOLE PASS over the node taxa `xs` of a tree into namespace `n` (fresh memo, as `migrate_taxon_namespace`
/ `reconstruct_taxon_namespace` start it): nothing is dropped or invented; a node whose taxon is a member of `n` keeps it; a node whose
taxon `x` is foreign ends on a taxon CREATED by the pass (`≥ nTaxa`: not a member before, hence different from every taxon the
namespace held, also those with the same label), a member of `n` afterwards, carrying exactly `x`'s label; and any two nodes sit on
one taxon afterwards exactly when they sat on one taxon before — distinct taxon objects stay distinct (also with equal labels), one
taxon object is never split. -/
theorem mapTaxa_fresh_spec (s : Store) (n : Nat) (xs : List (Option Nat)) (hf : FreshNs s n) (hx : ∀ x, some x ∈ xs → x < s.nTaxa) :
    related (fun x y => (x ∈ mem s n → y = x) ∧
        (x ∉ mem s n → s.nTaxa ≤ y ∧ y ∉ mem s n ∧ y ∈ mem (mapTaxa s n false [] xs).1 n
          ∧ (mapTaxa s n false [] xs).1.label y = s.label x))
      xs (mapTaxa s n false [] xs).2.2
    ∧ (∀ (i j x x' y y' : Nat), xs[i]? = some (some x) → xs[j]? = some (some x') →
        (mapTaxa s n false [] xs).2.2[i]? = some (some y) → (mapTaxa s n false [] xs).2.2[j]? = some (some y') →
        (y = y' ↔ x = x')) := by
  obtain ⟨P, r, _⟩ := mapTaxa_fresh n xs s [] (passF_start s n hf) hx
  refine ⟨?_, ?_⟩
  · refine Aux.related_mono _ _ ?_ r
    intro x y _ hr
    exact passF_item P hr
  · intro i j x x' y y' h1 h2 h3 h4
    exact passF_pair P (hx x (List.mem_of_getElem? h1)) (hx x' (List.mem_of_getElem? h2))
      (Aux.related_get _ _ i x y r h1 h3) (Aux.related_get _ _ j x' y' r h2 h4)

/-- `Tree.migrate_taxon_namespace(ns, unify_taxa_by_label=False)` / `reconstruct_taxon_namespace(unify_taxa_by_label=False)` in any
store whose ids are allocated (`fresh_reachable`: every reachable store): the tree is bound to `n` and `mapTaxa_fresh_spec` holds
between its old and its new node taxa -/
theorem migrateTree_fresh_spec (s : Store) (t n : Nat) (hfr : Fresh.FrAll s) :
    ((migrateTree s t n false []).1.tree t).ns = n
    ∧ related (fun x y => (x ∈ mem s n → y = x) ∧
        (x ∉ mem s n → s.nTaxa ≤ y ∧ y ∉ mem s n ∧ y ∈ mem (migrateTree s t n false []).1 n
          ∧ (migrateTree s t n false []).1.label y = s.label x))
        (s.tree t).taxa ((migrateTree s t n false []).1.tree t).taxa
    ∧ (∀ (i j x x' y y' : Nat), (s.tree t).taxa[i]? = some (some x) → (s.tree t).taxa[j]? = some (some x') →
        ((migrateTree s t n false []).1.tree t).taxa[i]? = some (some y) →
        ((migrateTree s t n false []).1.tree t).taxa[j]? = some (some y') → (y = y' ↔ x = x')) := by
  obtain ⟨a, c⟩ := mapTaxa_fresh_spec s n (s.tree t).taxa (hfr.ns n) (hfr.tree t)
  have e : ((migrateTree s t n false []).1.tree t).taxa = (mapTaxa s n false [] (s.tree t).taxa).2.2 := by
    simp [migrateTree, setTree, upd]
  refine ⟨by simp [migrateTree, setTree, upd], ?_, ?_⟩
  · rw [e]
    exact a
  · rw [e]; exact c

/-- `unify_taxa_by_label=False` ACROSS THE TREES OF A COLLECTION (`TreeList.migrate_taxon_namespace(ns, unify_taxa_by_label=False)` /
`reconstruct_taxon_namespace`: one memo handed from tree to tree).  For a list of pairwise different tree objects: the list and every
tree are bound to `n`, every tree keeps its shape, members of `n` are kept, a foreign taxon lands on a taxon created by the pass (not a
member before, a member now, same label) — and two nodes ANYWHERE in the list sit on one taxon afterwards exactly when they sat on one
taxon before: a taxon object shared by two trees is still shared (the memo), distinct objects stay distinct. -/
theorem migrateTl_fresh_spec (s : Store) (l n : Nat) (hnd : (s.tl l).trees.Nodup) (hfr : Fresh.FrAll s) :
    ((migrateTl s l n false []).1.tl l).ns = n
    ∧ (∀ t, t ∈ (s.tl l).trees → ((migrateTl s l n false []).1.tree t).ns = n
        ∧ related (fun x y => (x ∈ mem s n → y = x) ∧
            (x ∉ mem s n → s.nTaxa ≤ y ∧ y ∉ mem s n ∧ y ∈ mem (migrateTl s l n false []).1 n
              ∧ (migrateTl s l n false []).1.label y = s.label x))
            (s.tree t).taxa ((migrateTl s l n false []).1.tree t).taxa)
    ∧ (∀ (t t' i j x x' y y' : Nat), t ∈ (s.tl l).trees → t' ∈ (s.tl l).trees →
        (s.tree t).taxa[i]? = some (some x) → (s.tree t').taxa[j]? = some (some x') →
        ((migrateTl s l n false []).1.tree t).taxa[i]? = some (some y) →
        ((migrateTl s l n false []).1.tree t').taxa[j]? = some (some y') → (y = y' ↔ x = x')) := by
  simp only [migrateTl]
  have P0 : PassF s.nTaxa (mem s n) s.label n { s with tl := upd s.tl l { (s.tl l) with ns := n } } [] :=
    passF_of_eq (passF_start s n (hfr.ns n)) rfl rfl rfl
  obtain ⟨P, r, _, _⟩ := Aux.migrateTrees_fresh n (s.tl l).trees _ [] hnd P0 (fun t _ x hx => hfr.tree t x hx)
  refine ⟨?_, ?_, ?_⟩
  · rw [Aux.migrateTrees_tl]; simp [upd]
  · intro t ht
    obtain ⟨a, c⟩ := r t ht
    refine ⟨a, Aux.related_mono _ _ ?_ c⟩
    intro x y _ hr
    exact passF_item P hr
  · intro t t' i j x x' y y' ht ht' h1 h2 h3 h4
    exact passF_pair P (hfr.tree t x (List.mem_of_getElem? h1)) (hfr.tree t' x' (List.mem_of_getElem? h2))
      (Aux.related_get _ _ i x y (r t ht).2 h1 h3) (Aux.related_get _ _ j x' y' (r t' ht').2 h2 h4)

/-- ... in any reachable world, with no side condition but that the list names no tree object twice -/
theorem migrateTl_fresh_reachable (ops : List Op) (l n : Nat) (hnd : ((run init ops).tl l).trees.Nodup) :
    ∀ (t t' i j x x' y y' : Nat), t ∈ ((run init ops).tl l).trees → t' ∈ ((run init ops).tl l).trees →
        ((run init ops).tree t).taxa[i]? = some (some x) → ((run init ops).tree t').taxa[j]? = some (some x') →
        ((migrateTl (run init ops) l n false []).1.tree t).taxa[i]? = some (some y) →
        ((migrateTl (run init ops) l n false []).1.tree t').taxa[j]? = some (some y') → (y = y' ↔ x = x') :=
  (migrateTl_fresh_spec (run init ops) l n hnd (fresh_reachable ops init Fresh.frAll_init)).2.2

end FreshPass

/-! ## Tie A: the decision kernels regenerated from the source (`Gen/C11Kernels.lean`) are the ones the model hard-wires -/

section Bridge
open DendroModel.Gen.C11Kernels

/-- the strategy names of the code -/
def stratName : Strat → String
  | .migrate => "migrate"
  | .add => "add"

/-- K1 + K2: `TreeList._import_tree_to_taxon_namespace` as regenerated from the source dispatches exactly as the model's `importTree`
(the same-object test first; `migrate` = `migrate_taxon_namespace` with ITS default unify flag and a fresh memo; `add` = re-bind +
`update_taxon_namespace`), and no strategy name the driver can send is refused -/
theorem importTree_bridge (s : Store) (n : Nat) (st : Strat) (t : Nat) :
    importTree s n st t =
      match importAct (decide ((s.tree t).ns = n)) (stratName st) with
      | .keep => s
      | .migrate => (migrateTree s t n migrateUnifyDefault []).1
      | .add => addTree s t n
      | .refuse => s := by
  unfold importTree
  by_cases e : (s.tree t).ns = n <;> cases st <;> simp [importAct, stratName, e, migrateUnifyDefault]

/-- `insert` / `append` / `tl[i] = t` / slice assignment without a strategy argument use the default, which is the strategy the model's
`setitem` / `srcInto` hard-wire -/
theorem importDefault_bridge : stratName .migrate = importDefault := by decide

/-- K3: the node guard of `Tree.reconstruct_taxon_namespace` is the guard of `mapOne` (nodes without taxon are skipped by `mapTaxa`) -/
theorem mapOne_guard_bridge (s : Store) (n : Nat) (u : Bool) (memo : Memo) (x : Nat) :
    (nodeGuard true u ((mem s n).contains x) = false → mapOne s n u memo x = (s, memo, x))
    ∧ (nodeGuard true u ((mem s n).contains x) = true → mapOne s n u memo x =
        match memoGet memo x with
        | some t => (addMember s n t, memo, t)
        | none =>
          let r := if u then require s n (s.ns n).cs (s.label x) else newTaxon s n (s.label x)
          (r.1, (x, r.2) :: memo, r.2))
    ∧ (∀ u' m', nodeGuard false u' m' = false) := by
  refine ⟨?_, ?_, by intro u' m'; simp [nodeGuard]⟩
  · intro h
    simp only [nodeGuard, Bool.not_true, Bool.not_false, Bool.true_and] at h
    unfold mapOne
    rw [h]; rfl
  · intro h
    simp only [nodeGuard, Bool.not_true, Bool.not_false, Bool.true_and] at h
    unfold mapOne
    rw [h]; rfl

/-- K3: the key guard of `CharacterMatrix.reconstruct_taxon_namespace` is the guard of `mapKeys` -/
theorem mapKeys_guard_bridge (s : Store) (n : Nat) (u : Bool) (memo : Memo) (cur : List Nat) (x : Nat) (xs : List Nat) :
    keyGuard u ((mem s n).contains x) = false → mapKeys s n u memo cur (x :: xs) = mapKeys s n u memo cur xs := by
  intro h
  simp only [keyGuard] at h
  simp only [mapKeys, h]
  simp

/-- K4: the `taxon_namespace` setter as regenerated from the source is what `tassign` / `lassign` / `massign` do: with automigrate a
`migrate_taxon_namespace` (default flag) unless the object already bound is assigned; without, a plain re-binding (which the ops follow
with `update_taxon_namespace()`) -/
theorem setter_bridge (s : Store) (t l m n : Nat) :
    ((step s (.tassign t n true)).1 = match setterAct true false (decide ((s.tree t).ns = n)) with
        | .migrate => (migrateTree s t n migrateUnifyDefault []).1 | _ => s)
    ∧ ((step s (.lassign l n true)).1 = match setterAct true false (decide ((s.tl l).ns = n)) with
        | .migrate => (migrateTl s l n migrateUnifyDefault []).1 | _ => s)
    ∧ ((step s (.massign m n true)).1 = match setterAct true false (decide ((s.mat m).ns = n)) with
        | .migrate => (migrateMat s m n migrateUnifyDefault []).1 | _ => s)
    ∧ (∀ same, setterAct false false same = .rebind) := by
  refine ⟨?_, ?_, ?_, by intro same; cases same <;> rfl⟩
  · by_cases e : (s.tree t).ns = n <;> simp [step, setterAct, e, migrateUnifyDefault]
  · by_cases e : (s.tl l).ns = n <;> simp [step, setterAct, e, migrateUnifyDefault]
  · by_cases e : (s.mat m).ns = n <;> simp [step, setterAct, e, migrateUnifyDefault]

/-- K5: `TreeList.reconstruct_taxon_namespace` hands ONE memo and its own flag from tree to tree, and `DataSet.unify_taxon_namespaces`
ONE memo through all tree lists and matrices with the literal flag — which is how `migrateTrees` / `migrateTls` / `migrateMats` thread
theirs -/
theorem shared_memo_bridge (s : Store) (n : Nat) (u : Bool) (memo : Memo) (t l m : Nat) (ts ls ms : List Nat) :
    migrateTrees s n u memo (t :: ts)
      = migrateTrees (migrateTree s t n (if listPassesUnify then u else reconstructUnifyDefault) memo).1 n u
          (if listMemoShared then (migrateTree s t n u memo).2 else []) ts
    ∧ migrateTls s n memo (l :: ls)
      = migrateTls (migrateTl s l n dsUnify memo).1 n (if dsMemoShared then (migrateTl s l n dsUnify memo).2 else []) ls
    ∧ ((migrateMat s m n dsUnify memo).2.2 = true → migrateMats s n memo (m :: ms)
      = migrateMats (migrateMat s m n dsUnify memo).1 n (if dsMemoShared then (migrateMat s m n dsUnify memo).2.1 else []) ms) := by
  refine ⟨by simp [migrateTrees, listPassesUnify, listMemoShared], by simp [migrateTls, dsUnify, dsMemoShared], ?_⟩
  intro h
  simp only [dsUnify] at h
  simp [migrateMats, dsUnify, dsMemoShared, h]

end Bridge

/-! ## `purge_taxon_namespace` -/

/-- `purge_taxon_namespace()` keeps closure (clauses a and c) when the purging object is the only user of its namespace: for a tree
list, when every tree bound to the list's namespace is one of its own and no matrix is bound to it.  (Documented to look at `self`
only; with other users their taxa are removed from under them, which is why the op is outside `valid`.)  What is kept is exactly the
members the list's trees refer to, in their old order — nothing referenced is dropped. -/
theorem purge_closed (s : Store) (l : Nat) (h : Aux.Inv s)
    (hown : ∀ t, (s.tree t).ns = (s.tl l).ns → (s.tree t).taxa ≠ [] → t ∈ (s.tl l).trees)
    (hmat : ∀ m, (s.mat m).ns = (s.tl l).ns → (s.mat m).keys = []) :
    Aux.Inv (step s (.lpurge l)).1
    ∧ mem (step s (.lpurge l)).1 (s.tl l).ns
        = (mem s (s.tl l).ns).filter (fun x => ((s.tl l).trees.flatMap (fun t => (s.tree t).taxa.filterMap id)).contains x)
    ∧ (∀ t x, t ∈ (s.tl l).trees → some x ∈ (s.tree t).taxa → x ∈ mem (step s (.lpurge l)).1 (s.tl l).ns) := by
  have keepOk : ∀ t x, t ∈ (s.tl l).trees → some x ∈ (s.tree t).taxa →
      x ∈ (s.tl l).trees.flatMap (fun t => (s.tree t).taxa.filterMap id) := by
    intro t x ht hx
    refine List.mem_flatMap.mpr ⟨t, ht, ?_⟩
    exact List.mem_filterMap.mpr ⟨some x, hx, rfl⟩
  have i : Aux.Inv (step s (.lpurge l)).1 := by
    simp only [step]
    apply Aux.inv_purge h
    · intro t x e hx
      exact keepOk t x (hown t e (by intro c; rw [c] at hx; simp at hx)) hx
    · intro m x e hx
      rw [hmat m e] at hx; simp at hx
  refine ⟨i, by simp [step, purge, mem, upd], ?_⟩
  intro t x ht hx
  have := i.treeOk t x (by simpa [step, purge] using hx)
  have e : ((step s (.lpurge l)).1.tree t).ns = (s.tl l).ns := by
    simp only [step, purge]; exact h.listOk l t ht
  rw [e] at this; exact this

/-! ## non-vacuity: the hypotheses are satisfiable and the conclusions are not trivial -/

/-- a foreign tree appended to a list of another namespace: valid, covered, and the world stays closed -/
example : validRun init [.ns false ["A", "b"], .ns true ["a", "C"], .tree 1 [none, some 0, some 1], .tlist (some 0),
    .append 0 0 .migrate, .pop 0 0] = true := by decide +kernel

/-- the ownership precondition is needed: re-binding a tree that sits in another list is rejected by `valid` -/
example : valid (run init [.ns false ["A"], .ns false ["B"], .tree 0 [some 0], .tlist (some 0), .tlist (some 1), .append 0 0 .migrate])
    (.append 1 0 .migrate) = false := by decide +kernel

example : FreshNs init 0 := by intro x hx; simp [init, mem] at hx

/-- a reachable, non-empty world: case-insensitive namespace 0 = [A, b], case-sensitive namespace 1 = [a, A, C], tree 0 in
namespace 1 on (C, a, A) -/
def demo : Store := run init [.ns false ["A", "b"], .ns true ["a", "A", "C"], .tree 1 [some 2, some 0, some 1]]

/-- the hypotheses of `mapTaxa_unify_spec` / `migrateTree_unify_spec` hold there (with the empty memo) ... -/
example : FreshNs demo 0 ∧ (∀ x, some x ∈ (demo.tree 0).taxa → x < demo.nTaxa) ∧ Aux.MemoOk demo 0 [] := by
  refine ⟨?_, ?_, Aux.memoOk_nil _ _⟩
  · intro x hx
    have : (mem demo 0).all (fun x => decide (x < demo.nTaxa)) = true := by decide +kernel
    exact of_decide_eq_true (List.all_eq_true.mp this x hx)
  · intro x hx
    have : (demo.tree 0).taxa.all (fun o => match o with | some x => decide (x < demo.nTaxa) | none => true) = true := by decide +kernel
    have := List.all_eq_true.mp this (some x) hx
    exact of_decide_eq_true this

/-- ... and the conclusion is not trivial: `a` and `A` of the case-sensitive source end on the ONE taxon `A` (0) of the
case-insensitive target, `C` on a new taxon (5) -/
example : ((migrateTree demo 0 0 true []).1.tree 0).taxa = [some 5, some 0, some 0]
    ∧ mem (migrateTree demo 0 0 true []).1 0 = [0, 1, 5] := by decide +kernel

/-- a reachable world with a list of two different trees on case-variant labels: case-sensitive namespace 1 = [a, A, C],
case-insensitive namespace 0 = [A, b]; list 0 (namespace 1) = [tree 0 on (C, a), tree 1 on (A, a)] -/
def demo2 : Store := run init [.ns false ["A", "b"], .ns true ["a", "A", "C"], .tree 1 [some 2, some 0], .tree 1 [some 1, some 0],
  .tlist (some 1), .append 0 0 .migrate, .append 0 1 .migrate]

/-- `migrateTl_unify_spec` applies to it with every hypothesis PROVED (freshness by `fresh_reachable`, the empty memo) ... -/
example := migrateTl_unify_spec demo2 0 0 [] (by decide +kernel) (fresh_reachable _ init Fresh.frAll_init) (Aux.memoOk_nil _ _)

/-- ... and the conclusion is not trivial: across the two trees `a`, `A` (three nodes) end on the one taxon `A` (0) of namespace 0 -/
example : ((migrateTl demo2 0 0 true []).1.tree 0).taxa = [some 5, some 0] ∧ ((migrateTl demo2 0 0 true []).1.tree 1).taxa = [some 0, some 0]
    ∧ mem (migrateTl demo2 0 0 true []).1 0 = [0, 1, 5] := by decide +kernel

/-- `migrateTl_fresh_spec` applies to `demo2` (two trees of namespace 1 sharing the taxon `a`) with every hypothesis PROVED ... -/
example := migrateTl_fresh_spec demo2 0 0 (by decide +kernel) (fresh_reachable _ init Fresh.frAll_init)

/-- ... and the conclusion is not trivial: `C`, `a`, `A` get three NEW taxa 5, 6, 7 in the case-insensitive namespace 0 that already
holds an `A` (nothing is unified), and the taxon `a` shared by the two trees is still shared (6) -/
example : ((migrateTl demo2 0 0 false []).1.tree 0).taxa = [some 5, some 6] ∧ ((migrateTl demo2 0 0 false []).1.tree 1).taxa = [some 7, some 6]
    ∧ mem (migrateTl demo2 0 0 false []).1 0 = [0, 1, 5, 6, 7] := by decide +kernel

/-- `cloneTree_spec` with its hypotheses proved for a reachable world (closure by `closed_reachable`, freshness by `fresh_reachable`) -/
example := cloneTree_spec demo2 1 0
  (closed_reachable _ init Aux.inv_init (by decide +kernel)) (fresh_reachable _ init Fresh.frAll_init) (by decide +kernel)

/-- a reachable world with a matrix on the case variants `a`, `A` and on `C` (case-sensitive namespace 0), an empty case-sensitive
namespace 1 and an empty case-insensitive namespace 2 -/
def demo3 : Store := run init [.ns true ["a", "A", "C"], .ns true [], .ns false [], .mat 0 [0, 1, 2]]

/-- `migrateMat_accepted_keeps_sequences`: hypotheses proved on it (keys name no taxon twice; the pass into namespace 1 is accepted) ... -/
example := migrateMat_accepted_keeps_sequences demo3 0 1 true [] (by decide +kernel) (by decide +kernel)

/-- ... while the pass into the case-insensitive namespace 2 is refused (`a` and `A` would share a taxon), so the hypothesis matters -/
example : (migrateMat demo3 0 2 true []).2.2 = false := by decide +kernel

/-- `readInto_spec` on the reachable world `demo2` (freshness proved by `freshNs_reachable`): a source with a known and a new label ... -/
example := readInto_spec demo2 0 [] [["A", "z"]] (freshNs_reachable _ _ 0).1

/-- ... the known label reuses the existing taxon `A` (3) of the case-sensitive namespace 1, only `z` is new (5) -/
example : mem (readInto demo2 0 [] [["A", "z"]]) 1 = [2, 3, 4, 5]
    ∧ ((readInto demo2 0 [] [["A", "z"]]).tree 2).taxa = [none, some 3, some 5] := by decide +kernel

/-- a valid history through the collection-level operations of `closed_step`: list migration, copy, `+` with a plain list,
matrix migration and copy, data-set read and unification -/
example : validHist init [.ns false ["A", "b"], .ns true ["a", "C"], .tree 1 [none, some 0, some 1], .tlist (some 0),
    .append 0 0 .migrate, .lmig 0 1 true, .lrec 0 false, .lclone 0 (some 0), .tree 1 [some 1], .add 0 (.trees [2]),
    .mat 1 [0, 1], .mmig 0 0 true, .mclone 0 (some 1), .ds, .dsaddL 0 0, .dsaddM 0 0, .dsunify 0 none,
    .dsread 0 ["C", "d"] (some ["C"]) (some [["d", "C"]])] = true := by decide +kernel

/-- the ownership hypothesis of `closed_step_partial` cannot be dropped: importing a tree that another list of a different
namespace still holds is what the code does (in-place migration) and it breaks clause (a) for the first list -/
example : ¬ Closed (run init [.ns false ["A"], .ns false ["B"], .tree 0 [some 0], .tlist (some 0), .tlist (some 1),
    .append 0 0 .migrate, .append 1 0 .migrate]) := by
  intro h
  have := h.listOk 0 0 (by decide +kernel)
  revert this
  decide +kernel

/-- a world for `purge_closed`: one namespace (0) with members 0, 1, 2; one tree on taxon 1; one list holding it -/
def demoP : Store :=
  { label := fun x => if x = 0 then "A" else if x = 1 then "b" else "C", nTaxa := 3,
    ns := fun n => if n = 0 then { members := [0, 1, 2] } else {}, nNs := 1,
    tree := fun t => if t = 0 then { ns := 0, taxa := [none, some 1] } else { ns := 1, taxa := [] }, nTree := 1,
    tl := fun l => if l = 0 then { ns := 0, trees := [0] } else { ns := 1, trees := [] }, nTl := 1,
    mat := fun _ => { ns := 1, keys := [] } }

theorem Aux.demoP_inv : Aux.Inv demoP := by
  refine ⟨⟨?_, ?_, ?_, ?_⟩, ?_, ?_, ?_, ?_⟩
  · intro t x hx
    by_cases e : t = 0
    · subst e; simp [demoP] at hx; subst hx; simp [demoP, mem]
    · simp [demoP, e] at hx
  · intro m x hx; simp [demoP] at hx
  · intro l t ht
    by_cases e : l = 0
    · subst e; simp [demoP] at ht; subst ht; simp [demoP]
    · simp [demoP, e] at ht
  · intro d a ha; simp [demoP] at ha
  · intro l hl
    have : l ≠ 0 := by simp [demoP] at hl; omega
    simp [demoP, this]
  · intro d _; simp [demoP]
  · intro l t ht
    by_cases e : l = 0
    · subst e; simp [demoP] at ht; subst ht; simp [demoP]
    · simp [demoP, e] at ht
  · intro d; simp [demoP]

example := purge_closed demoP 0 Aux.demoP_inv
  (by intro t e ne
      by_cases c : t = 0
      · subst c; simp [demoP]
      · simp [demoP, c] at ne)
  (by intro m _; simp [demoP])

example : mem (step demoP (.lpurge 0)).1 0 = [1] := by decide +kernel

/-! ## wave 2: caller-supplied memo under `unify_taxa_by_label=False`, slice assignment of any length / from a generator, unification after an
out-of-band migration -/

section W2
open Pass

/-- NON-UNIFYING PASS WITH A NON-EMPTY, CALLER-SUPPLIED MEMO.  Whatever memo is handed in (`taxon_mapping_memo=…`), as long as it is one
that non-unifying passes into `n` can have produced since a moment with `b` allocated taxa (`PassF`: its entries send taxa that were
foreign then to taxa created since, members of `n` with the same label, injectively — `passF_start` for the empty memo, and every pass
re-establishes it): members of `n` at that moment keep their taxon, a foreign taxon goes to what the FINAL memo holds for it (a taxon
created since `b`, so an entry already in the memo is reused, not duplicated), and two nodes share a taxon afterwards iff they did before. -/
theorem mapTaxa_fresh_memo_spec {b : Nat} {M0 : List Nat} {L0 : Nat → String} (s : Store) (n : Nat) (memo : Memo) (xs : List (Option Nat))
    (P : PassF b M0 L0 n s memo) (hx : ∀ x, some x ∈ xs → x < b) :
    PassF b M0 L0 n (mapTaxa s n false memo xs).1 (mapTaxa s n false memo xs).2.1
    ∧ related (fun x y => (x ∈ M0 → y = x) ∧ (x ∉ M0 → b ≤ y ∧ y ∉ M0 ∧ y ∈ mem (mapTaxa s n false memo xs).1 n
          ∧ (mapTaxa s n false memo xs).1.label y = L0 x) ∧ (∀ z, memoGet memo x = some z → y = z))
        xs (mapTaxa s n false memo xs).2.2
    ∧ (∀ (i j x x' y y' : Nat), xs[i]? = some (some x) → xs[j]? = some (some x') →
        (mapTaxa s n false memo xs).2.2[i]? = some (some y) → (mapTaxa s n false memo xs).2.2[j]? = some (some y') → (y = y' ↔ x = x')) := by
  obtain ⟨P', r, g⟩ := mapTaxa_fresh n xs s memo P hx
  refine ⟨P', ?_, ?_⟩
  · refine Aux.related_mono _ _ ?_ r
    intro x y _ hr
    obtain ⟨a, c⟩ := passF_item P' hr
    refine ⟨a, c, ?_⟩
    intro z hz
    have hM0 : x ∉ M0 := (P.memo x z hz).2.1
    have := hr.2 hM0
    rw [g x z hz] at this
    exact (Option.some.inj this).symm
  · intro i j x x' y y' h1 h2 h3 h4
    exact passF_pair P' (hx x (List.mem_of_getElem? h1)) (hx x' (List.mem_of_getElem? h2))
      (Aux.related_get _ _ i x y r h1 h3) (Aux.related_get _ _ j x' y' r h2 h4)

/-- ... for two trees migrated one after the other with ONE caller-supplied memo (a `chain` of two `Tree.migrate_taxon_namespace(n,
unify_taxa_by_label=False, taxon_mapping_memo=memo)` calls): the second pass meets the NON-EMPTY memo the first one left, and two nodes
of the two trees share a taxon afterwards exactly when they shared one before -/
theorem chain_fresh_spec (s : Store) (t1 t2 n : Nat) (hne : t1 ≠ t2) (hfr : Fresh.FrAll s) :
    (chain s [] [⟨.tree, t1, n, false⟩, ⟨.tree, t2, n, false⟩]).2 = true
    ∧ ∀ (i j x x' y y' : Nat), (s.tree t1).taxa[i]? = some (some x) → (s.tree t2).taxa[j]? = some (some x') →
        ((chain s [] [⟨.tree, t1, n, false⟩, ⟨.tree, t2, n, false⟩]).1.tree t1).taxa[i]? = some (some y) →
        ((chain s [] [⟨.tree, t1, n, false⟩, ⟨.tree, t2, n, false⟩]).1.tree t2).taxa[j]? = some (some y') → (y = y' ↔ x = x') := by
  have e : chain s [] [⟨.tree, t1, n, false⟩, ⟨.tree, t2, n, false⟩] = ((migrateTrees s n false [] [t1, t2]).1, true) := by
    simp [chain, migrateTrees]
  rw [e]
  refine ⟨rfl, ?_⟩
  obtain ⟨P, r, _, _⟩ := Aux.migrateTrees_fresh n [t1, t2] s [] (by simp [hne]) (passF_start s n (hfr.ns n))
    (fun t _ x hx => hfr.tree t x hx)
  intro i j x x' y y' h1 h2 h3 h4
  exact passF_pair P (hfr.tree t1 x (List.mem_of_getElem? h1)) (hfr.tree t2 x' (List.mem_of_getElem? h2))
    (Aux.related_get _ _ i x y (r t1 (by simp)).2 h1 h3) (Aux.related_get _ _ j x' y' (r t2 (by simp)).2 h2 h4)

end W2

/-- SLICE ASSIGNMENT `tl[a:b] = trees` FOR ANY BOUNDS AND ANY OPERAND LENGTH (longer or shorter than the slice, empty, `b < a`, bounds past
the end): inside the ownership domain the list becomes `old[:a] + trees + old[max a b:]`, EVERY tree of the operand — not only the first
`b - a` of them — is bound to the list's namespace, and the world stays closed -/
theorem setslice_any_length (s : Store) (l a b : Nat) (ts : List Nat) (h : Aux.Inv s) (hv : valid s (.setslice l a b (.trees ts)) = true) :
    Aux.Inv (stepG s (.setslice l a b (.trees ts))).1
    ∧ ((stepG s (.setslice l a b (.trees ts))).1.tl l).trees = (s.tl l).trees.take a ++ ts ++ (s.tl l).trees.drop (max a b)
    ∧ ∀ t, t ∈ ts → ((stepG s (.setslice l a b (.trees ts))).1.tree t).ns = (s.tl l).ns := by
  have i' := closed_stepG s _ h hv
  have hv' := hv
  simp only [valid, Bool.and_eq_true, owner] at hv'
  obtain ⟨_, ho⟩ := hv'
  have hok : ∀ t, t ∈ ts → (s.tree t).ns = (s.tl l).ns ∨ ∀ l', t ∉ (s.tl l').trees := by
    intro t ht
    simp only [srcOk, List.all_eq_true, Bool.and_eq_true, decide_eq_true_eq] at ho
    exact Aux.ok_of_rebindOk h (ho t ht).1
  obtain ⟨_, f, e, _⟩ := Aux.inv_importTrees (s.tl l).ns .migrate ts h hok
  refine ⟨i', ?_, ?_⟩
  · rw [stepG_of_valid hv]
    simp only [step, srcInto, spliceT, setTrees, upd, if_true, splice]
    rw [f.tl]
  · intro t ht
    rw [stepG_of_valid hv]
    simp only [step, srcInto, spliceT, setTrees]
    exact e t ht

/-- ... and with a ONE-SHOT iterable (a generator) as the operand: the trees are still imported into the list's namespace, but the
assignment finds the iterable exhausted — the slice is deleted and none of the trees is inserted; the world stays closed -/
theorem setslice_generator (s : Store) (l a b : Nat) (ts : List Nat) (h : Aux.Inv s) (hv : valid s (.setslicegen l a b ts) = true) :
    Aux.Inv (stepG s (.setslicegen l a b ts)).1
    ∧ ((stepG s (.setslicegen l a b ts)).1.tl l).trees = (s.tl l).trees.take a ++ (s.tl l).trees.drop (max a b)
    ∧ ∀ t, t ∈ ts → ((stepG s (.setslicegen l a b ts)).1.tree t).ns = (s.tl l).ns := by
  have i' := closed_stepG s _ h hv
  have hv' := hv
  simp only [valid, Bool.and_eq_true, owner] at hv'
  obtain ⟨_, ho⟩ := hv'
  have hok : ∀ t, t ∈ ts → (s.tree t).ns = (s.tl l).ns ∨ ∀ l', t ∉ (s.tl l').trees := by
    intro t ht
    simp only [srcOk, List.all_eq_true, Bool.and_eq_true, decide_eq_true_eq] at ho
    exact Aux.ok_of_rebindOk h (ho t ht).1
  obtain ⟨_, f, e, _⟩ := Aux.inv_importTrees (s.tl l).ns .migrate ts h hok
  refine ⟨i', ?_, ?_⟩
  · rw [stepG_of_valid hv]
    simp only [step, setTrees, upd, if_true, splice, List.append_nil]
    rw [f.tl]
  · intro t ht
    rw [stepG_of_valid hv]
    simp only [step, setTrees]
    exact e t ht

/-- the world of the examples below: a list (0, namespace 0) holding one tree, two free trees of namespace 1 -/
def demoS : Store := run init [.ns false ["A", "b"], .ns true ["a", "A", "C"], .tree 1 [some 2, some 0], .tree 1 [some 1, some 0],
  .tree 0 [some 1], .tlist (some 0), .append 0 2 .migrate]

/-- a LONGER operand (two trees into a slice of one) ... -/
example := setslice_any_length demoS 0 0 1 [0, 1] (closed_reachable _ init Aux.inv_init (by decide +kernel)) (by decide +kernel)
example : ((stepG demoS (.setslice 0 0 1 (.trees [0, 1]))).1.tl 0).trees = [0, 1]
    ∧ ((stepG demoS (.setslice 0 0 1 (.trees [0, 1]))).1.tree 1).ns = 0 := by decide +kernel
/-- ... a SHORTER one (nothing into a slice of one), and a generator -/
example := setslice_any_length demoS 0 0 1 [] (closed_reachable _ init Aux.inv_init (by decide +kernel)) (by decide +kernel)
example := setslice_generator demoS 0 0 1 [0, 1] (closed_reachable _ init Aux.inv_init (by decide +kernel)) (by decide +kernel)
example : ((stepG demoS (.setslicegen 0 0 1 [0, 1])).1.tl 0).trees = [] ∧ ((stepG demoS (.setslicegen 0 0 1 [0, 1])).1.tree 1).ns = 0 := by
  decide +kernel
example := chain_fresh_spec demoS 0 1 0 (by decide) (fresh_reachable _ init Fresh.frAll_init)

/-- `DataSet.unify_taxon_namespaces` AFTER AN OUT-OF-BAND MIGRATION: the data set's own namespace list still names namespace 1 only, while its
tree list was migrated to namespace 2 behind its back; the history is inside `valid`, so `closed_from_init` applies - and the data set ends
attached to ONE namespace (the new one, 3) that its list is bound to -/
example : validHist init [.ns false ["A", "b"], .ns true ["a", "A", "C"], .ns false [], .tree 1 [some 2, some 0], .tlist (some 1),
    .append 0 0 .migrate, .ds, .dsaddL 0 0, .lmig 0 2 true, .dsunify 0 none] = true := by decide +kernel
example : ((run init [.ns false ["A", "b"], .ns true ["a", "A", "C"], .ns false [], .tree 1 [some 2, some 0], .tlist (some 1),
    .append 0 0 .migrate, .ds, .dsaddL 0 0, .lmig 0 2 true, .dsunify 0 none]).ds 0).att = some 3
  ∧ ((run init [.ns false ["A", "b"], .ns true ["a", "A", "C"], .ns false [], .tree 1 [some 2, some 0], .tlist (some 1),
    .append 0 0 .migrate, .ds, .dsaddL 0 0, .lmig 0 2 true, .dsunify 0 none]).tl 0).ns = 3 := by decide +kernel


end DendroModel.C11
