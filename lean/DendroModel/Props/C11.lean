import DendroModel.Model.C11
/-! C11 — theorems about the store model of `Model/C11.lean` (the definitions the driver `drv_c11` runs). -/
namespace DendroModel.C11.Aux
open DendroModel.C11

/-- only namespaces changed, and they only gained members -/
structure Grows (s s' : Store) : Prop where
  tree : s'.tree = s.tree
  nTree : s'.nTree = s.nTree
  tl : s'.tl = s.tl
  nTl : s'.nTl = s.nTl
  mat : s'.mat = s.mat
  nMat : s'.nMat = s.nMat
  ds : s'.ds = s.ds
  nDs : s'.nDs = s.nDs
  mem : ∀ n x, x ∈ mem s n → x ∈ mem s' n

theorem Grows.refl (s : Store) : Grows s s := ⟨rfl, rfl, rfl, rfl, rfl, rfl, rfl, rfl, fun _ _ h => h⟩

theorem Grows.trans {a b c : Store} (h1 : Grows a b) (h2 : Grows b c) : Grows a c :=
  ⟨h2.tree.trans h1.tree, h2.nTree.trans h1.nTree, h2.tl.trans h1.tl, h2.nTl.trans h1.nTl,
   h2.mat.trans h1.mat, h2.nMat.trans h1.nMat, h2.ds.trans h1.ds, h2.nDs.trans h1.nDs,
   fun n x h => h2.mem n x (h1.mem n x h)⟩

theorem mem_upd_members (s : Store) (n : Nat) (v : NS) (n' : Nat) :
    (upd s.ns n v n').members = if n' = n then v.members else (s.ns n').members := by
  unfold upd; split <;> rfl

theorem grows_addMember (s : Store) (n x : Nat) : Grows s (addMember s n x) := by
  unfold addMember
  split
  · exact Grows.refl s
  · refine ⟨rfl, rfl, rfl, rfl, rfl, rfl, rfl, rfl, ?_⟩
    intro n' y hy
    simp only [mem, mem_upd_members] at *
    split
    · subst_vars; simp [hy]
    · exact hy

theorem mem_addMember (s : Store) (n x : Nat) : x ∈ mem (addMember s n x) n := by
  unfold addMember
  split
  · assumption
  · simp [mem, upd]

theorem grows_newTaxon (s : Store) (n : Nat) (l : String) : Grows s (newTaxon s n l).1 := by
  unfold newTaxon
  refine ⟨rfl, rfl, rfl, rfl, rfl, rfl, rfl, rfl, ?_⟩
  intro n' y hy
  simp only [mem, mem_upd_members] at *
  split
  · subst_vars; simp [hy]
  · exact hy

theorem mem_newTaxon (s : Store) (n : Nat) (l : String) : (newTaxon s n l).2 ∈ mem (newTaxon s n l).1 n := by
  simp [newTaxon, mem, upd]

theorem lookupFirst_mem {s : Store} {n : Nat} {cs : Bool} {l : String} {x : Nat}
    (h : lookupFirst s n cs l = some x) : x ∈ mem s n := by
  unfold lookupFirst at h
  exact List.mem_of_find?_eq_some h

theorem grows_require (s : Store) (n : Nat) (cs : Bool) (l : String) : Grows s (require s n cs l).1 := by
  unfold require
  split
  · exact Grows.refl s
  · exact grows_newTaxon s n l

theorem mem_require (s : Store) (n : Nat) (cs : Bool) (l : String) :
    (require s n cs l).2 ∈ mem (require s n cs l).1 n := by
  unfold require
  split
  · next x h => exact lookupFirst_mem h
  · exact mem_newTaxon s n l

theorem grows_mapOne (s : Store) (n : Nat) (u : Bool) (m : Memo) (x : Nat) : Grows s (mapOne s n u m x).1 := by
  unfold mapOne
  split
  · split
    · exact grows_addMember _ _ _
    · split
      · exact grows_require _ _ _ _
      · exact grows_newTaxon _ _ _
  · exact Grows.refl s

theorem mem_mapOne (s : Store) (n : Nat) (u : Bool) (m : Memo) (x : Nat) :
    (mapOne s n u m x).2.2 ∈ mem (mapOne s n u m x).1 n := by
  unfold mapOne
  split
  · split
    · exact mem_addMember _ _ _
    · split
      · exact mem_require _ _ _ _
      · exact mem_newTaxon _ _ _
  · next h =>
    simp at h
    simpa using h.2

theorem grows_mapTaxa (n : Nat) (u : Bool) : ∀ (xs : List (Option Nat)) (s : Store) (m : Memo),
    Grows s (mapTaxa s n u m xs).1
  | [], s, m => Grows.refl s
  | none :: xs, s, m => by simpa [mapTaxa] using grows_mapTaxa n u xs s m
  | some x :: xs, s, m => by
    simp only [mapTaxa]
    exact (grows_mapOne s n u m x).trans (grows_mapTaxa n u xs _ _)

/-- every taxon a migrated tree refers to is a member of the target namespace -/
theorem mem_mapTaxa (n : Nat) (u : Bool) : ∀ (xs : List (Option Nat)) (s : Store) (m : Memo) (y : Nat),
    some y ∈ (mapTaxa s n u m xs).2.2 → y ∈ mem (mapTaxa s n u m xs).1 n
  | [], s, m, y => by simp [mapTaxa]
  | none :: xs, s, m, y => by
    simp only [mapTaxa]
    intro h
    simp at h
    exact mem_mapTaxa n u xs s m y h
  | some x :: xs, s, m, y => by
    simp only [mapTaxa]
    intro h
    simp at h
    rcases h with h | h
    · subst h
      exact (grows_mapTaxa n u xs _ _).mem _ _ (mem_mapOne s n u m x)
    · exact mem_mapTaxa n u xs _ _ y h


/-! ## the closure invariant -/

/-- clauses (a) and (c) of the statement on a store -/
structure Closed (s : Store) : Prop where
  /-- (c) every tree, member of a list or not, refers only to members of its own namespace -/
  treeOk : ∀ t x, some x ∈ (s.tree t).taxa → x ∈ mem s (s.tree t).ns
  /-- (a) every sequence key of a matrix is a member of the matrix's namespace -/
  matOk : ∀ m x, x ∈ (s.mat m).keys → x ∈ mem s (s.mat m).ns
  /-- (a) every tree of a tree list refers to the list's namespace object -/
  listOk : ∀ l t, t ∈ (s.tl l).trees → (s.tree t).ns = (s.tl l).ns
  /-- (a) every component of a data set with an attached namespace refers to it -/
  dsOk : ∀ d a, (s.ds d).att = some a →
    (∀ l, l ∈ (s.ds d).tls → (s.tl l).ns = a) ∧ (∀ m, m ∈ (s.ds d).mats → (s.mat m).ns = a)

/-- `Closed` + the allocation discipline (ids at or above a counter are blank / unreferenced) -/
structure Inv (s : Store) : Prop extends Closed s where
  tlBlank : ∀ l, s.nTl ≤ l → (s.tl l).trees = []
  dsBlank : ∀ d, s.nDs ≤ d → (s.ds d).tls = [] ∧ (s.ds d).mats = []
  treeLt : ∀ l t, t ∈ (s.tl l).trees → t < s.nTree
  dsLt : ∀ d, (∀ l, l ∈ (s.ds d).tls → l < s.nTl) ∧ (∀ m, m ∈ (s.ds d).mats → m < s.nMat)

theorem inv_init : Inv init := by
  refine ⟨⟨?_, ?_, ?_, ?_⟩, ?_, ?_, ?_, ?_⟩ <;> simp [init]

theorem inv_grows {s s' : Store} (g : Grows s s') (h : Inv s) : Inv s' := by
  obtain ⟨⟨h1, h2, h3, h4⟩, h5, h6, h7, h8⟩ := h
  refine ⟨⟨?_, ?_, ?_, ?_⟩, ?_, ?_, ?_, ?_⟩
  · intro t x hx; rw [g.tree] at hx ⊢; exact g.mem _ _ (h1 t x hx)
  · intro m x hx; rw [g.mat] at hx ⊢; exact g.mem _ _ (h2 m x hx)
  · intro l t ht; rw [g.tl] at ht ⊢; rw [g.tree]; exact h3 l t ht
  · intro d a ha; rw [g.ds] at ha ⊢; rw [g.tl, g.mat]; exact h4 d a ha
  · intro l hl; rw [g.tl]; rw [g.nTl] at hl; exact h5 l hl
  · intro d hd; rw [g.ds]; rw [g.nDs] at hd; exact h6 d hd
  · intro l t ht; rw [g.tl] at ht; rw [g.nTree]; exact h7 l t ht
  · intro d; rw [g.ds, g.nTl, g.nMat]; exact h8 d

/-- re-binding / rewriting tree `t`: allowed when its new taxa are members and every list holding it has that namespace -/
theorem inv_setTree {s : Store} (h : Inv s) (t : Nat) (v : Tree)
    (hv : ∀ x, some x ∈ v.taxa → x ∈ mem s v.ns)
    (hl : ∀ l, t ∈ (s.tl l).trees → (s.tl l).ns = v.ns) : Inv (setTree s t v) := by
  obtain ⟨⟨h1, h2, h3, h4⟩, h5, h6, h7, h8⟩ := h
  refine ⟨⟨?_, h2, ?_, h4⟩, h5, h6, h7, h8⟩
  · intro t' x hx
    simp only [setTree, upd] at hx ⊢
    split at hx
    · next e => simp only [e, if_true]; exact hv x hx
    · next e => simp only [e, if_false]; exact h1 t' x hx
  · intro l t' ht'
    simp only [setTree, upd] at ht' ⊢
    split
    · next e => subst e; exact (hl l ht').symm
    · exact h3 l t' ht'

theorem inv_allocTree {s : Store} (h : Inv s) (v : Tree)
    (hv : ∀ x, some x ∈ v.taxa → x ∈ mem s v.ns) : Inv (allocTree s v).1 := by
  have h7 := h.treeLt
  have := inv_setTree h s.nTree v hv (fun l hl => absurd (h7 l _ hl) (Nat.lt_irrefl _))
  obtain ⟨⟨h1, h2, h3, h4⟩, h5, h6, h7', h8⟩ := this
  exact ⟨⟨h1, h2, h3, h4⟩, h5, h6, fun l t ht => Nat.lt_succ_of_lt (h7' l t ht), h8⟩

theorem allocTree_grows_like (s : Store) (v : Tree) :
    (allocTree s v).1.tl = s.tl ∧ (allocTree s v).1.ns = s.ns ∧ (allocTree s v).1.nTl = s.nTl
    ∧ (allocTree s v).1.tree (allocTree s v).2 = v ∧ (allocTree s v).2 = s.nTree
    ∧ (allocTree s v).1.nTree = s.nTree + 1 ∧ (∀ t, t ≠ s.nTree → (allocTree s v).1.tree t = s.tree t) := by
  simp [allocTree, upd]
  intro t ht; simp [ht]

/-- editing the tree sequence of list `l` -/
theorem inv_setTrees {s : Store} (h : Inv s) (l : Nat) (ts : List Nat) (hl : l < s.nTl)
    (hts : ∀ t, t ∈ ts → (s.tree t).ns = (s.tl l).ns ∧ t < s.nTree) : Inv (setTrees s l ts) := by
  obtain ⟨⟨h1, h2, h3, h4⟩, h5, h6, h7, h8⟩ := h
  refine ⟨⟨h1, h2, ?_, ?_⟩, ?_, h6, ?_, h8⟩
  · intro l' t ht
    simp only [setTrees, upd] at ht ⊢
    split at ht
    · next e => simp only [e, if_true]; subst e; exact (hts t ht).1
    · next e => simp only [e, if_false]; exact h3 l' t ht
  · intro d a ha
    have := h4 d a ha
    refine ⟨fun l' hl' => ?_, this.2⟩
    simp only [setTrees, upd]
    split
    · next e => subst e; exact this.1 _ hl'
    · exact this.1 _ hl'
  · intro l' hl'
    simp only [setTrees, upd]
    split
    · next e => subst e; exact absurd hl (Nat.not_lt.mpr hl')
    · exact h5 l' hl'
  · intro l' t ht
    simp only [setTrees, upd] at ht ⊢
    split at ht
    · exact (hts t ht).2
    · exact h7 l' t ht

theorem mem_splice {xs new : List Nat} {a b t : Nat} (h : t ∈ splice xs a b new) : t ∈ xs ∨ t ∈ new := by
  simp only [splice, List.mem_append] at h
  rcases h with (h | h) | h
  · exact Or.inl (List.mem_of_mem_take h)
  · exact Or.inr h
  · exact Or.inl (List.mem_of_mem_drop h)


/-! ## importing original trees (`_import_tree_to_taxon_namespace`) -/

def addAll (n : Nat) (s : Store) (xs : List (Option Nat)) : Store :=
  xs.foldl (fun acc x => match x with | some x => addMember acc n x | none => acc) s

theorem grows_addAll (n : Nat) : ∀ (xs : List (Option Nat)) (s : Store), Grows s (addAll n s xs)
  | [], s => Grows.refl s
  | none :: xs, s => by simpa [addAll] using grows_addAll n xs s
  | some x :: xs, s => by
    simp only [addAll, List.foldl_cons]
    exact (grows_addMember s n x).trans (grows_addAll n xs _)

theorem mem_addAll (n : Nat) : ∀ (xs : List (Option Nat)) (s : Store) (y : Nat), some y ∈ xs → y ∈ mem (addAll n s xs) n
  | [], s, y => by simp
  | none :: xs, s, y => by
    intro h; simp at h
    simpa [addAll] using mem_addAll n xs s y h
  | some x :: xs, s, y => by
    intro h; simp at h
    simp only [addAll, List.foldl_cons]
    rcases h with h | h
    · subst h; exact (grows_addAll n xs _).mem _ _ (mem_addMember s n y)
    · exact mem_addAll n xs _ y h

/-- what a tree-import phase leaves untouched -/
structure TFrame (s s' : Store) : Prop where
  tl : s'.tl = s.tl
  nTl : s'.nTl = s.nTl
  nTree : s'.nTree = s.nTree

theorem TFrame.refl (s : Store) : TFrame s s := ⟨rfl, rfl, rfl⟩
theorem TFrame.trans {a b c : Store} (h1 : TFrame a b) (h2 : TFrame b c) : TFrame a c :=
  ⟨h2.tl.trans h1.tl, h2.nTl.trans h1.nTl, h2.nTree.trans h1.nTree⟩
theorem Grows.tframe {s s' : Store} (g : Grows s s') : TFrame s s' := ⟨g.tl, g.nTl, g.nTree⟩

theorem inv_importTree {s : Store} (h : Inv s) (n : Nat) (st : Strat) (t : Nat)
    (hok : (s.tree t).ns = n ∨ ∀ l, t ∉ (s.tl l).trees) :
    Inv (importTree s n st t) ∧ TFrame s (importTree s n st t) ∧ ((importTree s n st t).tree t).ns = n
      ∧ ∀ t', t' ≠ t → (importTree s n st t).tree t' = s.tree t' := by
  unfold importTree
  split
  · next e => exact ⟨h, TFrame.refl s, e, fun _ _ => rfl⟩
  · next ne =>
    have free : ∀ l, t ∉ (s.tl l).trees := by
      rcases hok with e | f
      · exact absurd e ne
      · exact f
    cases st with
    | migrate =>
      simp only [migrateTree]
      have g := grows_mapTaxa n true (s.tree t).taxa s []
      refine ⟨?_, ?_, ?_, ?_⟩
      · apply inv_setTree (inv_grows g h)
        · intro x hx; exact mem_mapTaxa n true _ s [] x hx
        · intro l hl; rw [g.tl] at hl; exact absurd hl (free l)
      · exact ⟨g.tl, g.nTl, g.nTree⟩
      · simp [setTree, upd]
      · intro t' ht'; simp [setTree, upd, ht', g.tree]
    | add =>
      simp only [addTree]
      have g := grows_addAll n (s.tree t).taxa s
      refine ⟨?_, ?_, ?_, ?_⟩
      · apply inv_setTree (inv_grows g h)
        · intro x hx; exact mem_addAll n _ s x hx
        · intro l hl
          rw [g.tl] at hl; exact absurd hl (free l)
      · exact ⟨g.tl, g.nTl, g.nTree⟩
      · simp [setTree, upd]
      · intro t' ht'
        simp only [setTree, upd, ht', if_false]
        exact congrFun g.tree t'

theorem inv_importTrees (n : Nat) (st : Strat) : ∀ (ts : List Nat) {s : Store}, Inv s →
    (∀ t, t ∈ ts → (s.tree t).ns = n ∨ ∀ l, t ∉ (s.tl l).trees) →
    Inv (importTrees s n st ts) ∧ TFrame s (importTrees s n st ts)
      ∧ (∀ t, t ∈ ts → ((importTrees s n st ts).tree t).ns = n)
      ∧ (∀ t, ((importTrees s n st ts).tree t).ns = (s.tree t).ns ∨ ((importTrees s n st ts).tree t).ns = n)
  | [], s, h, _ => ⟨h, TFrame.refl s, by simp, fun _ => Or.inl rfl⟩
  | t :: ts, s, h, hok => by
    simp only [importTrees]
    obtain ⟨i1, f1, e1, o1⟩ := inv_importTree h n st t (hok t (by simp))
    have hok' : ∀ t', t' ∈ ts → ((importTree s n st t).tree t').ns = n ∨ ∀ l, t' ∉ ((importTree s n st t).tl l).trees := by
      intro t' ht'
      by_cases e : t' = t
      · subst e; exact Or.inl e1
      · rw [o1 t' e, f1.tl]; exact hok t' (by simp [ht'])
    obtain ⟨i2, f2, e2, o2⟩ := inv_importTrees n st ts i1 hok'
    refine ⟨i2, f1.trans f2, ?_, ?_⟩
    · intro t' ht'
      simp at ht'
      rcases ht' with e | ht'
      · subst e
        rcases o2 t' with o | o
        · rw [o]; exact e1
        · exact o
      · exact e2 t' ht'
    · intro t'
      rcases o2 t' with o | o
      · by_cases e : t' = t
        · subst e; right; rw [o]; exact e1
        · left; rw [o, o1 t' e]
      · exact Or.inr o

/-- `append`, `insert`, `[]=`, slice assignment and `extend` with original trees -/
theorem inv_spliceT {s : Store} (h : Inv s) (l a b : Nat) (st : Strat) (ts : List Nat) (hl : l < s.nTl)
    (hok : ∀ t, t ∈ ts → ((s.tree t).ns = (s.tl l).ns ∨ ∀ l', t ∉ (s.tl l').trees) ∧ t < s.nTree) :
    Inv (spliceT s l a b st ts) := by
  simp only [spliceT]
  obtain ⟨i, f, e, o⟩ := inv_importTrees (s.tl l).ns st ts h (fun t ht => (hok t ht).1)
  apply inv_setTrees i l _ (by rw [f.nTl]; exact hl)
  intro t ht
  rw [f.tl, f.nTree]
  rcases mem_splice ht with ht | ht
  · rw [f.tl] at ht
    refine ⟨?_, h.treeLt l t ht⟩
    rcases o t with o | o
    · rw [o]; exact h.listOk l t ht
    · exact o
  · exact ⟨e t ht, (hok t ht).2⟩


/-! ## copies (`Tree(t, taxon_namespace=ns)`) -/

theorem grows_cloneMemo (tgt : Nat) : ∀ (xs : List Nat) (s : Store), Grows s (cloneMemo s tgt xs).1
  | [], s => Grows.refl s
  | x :: xs, s => by
    simp only [cloneMemo]
    exact (grows_require _ _ _ _).trans (grows_cloneMemo tgt xs _)

theorem mem_cloneMemo (tgt : Nat) : ∀ (xs : List Nat) (s : Store) (y : Nat), y ∈ xs →
    applyMemo (cloneMemo s tgt xs).2 y ∈ mem (cloneMemo s tgt xs).1 tgt
  | [], s, y => by simp
  | x :: xs, s, y => by
    intro hy
    simp only [cloneMemo, applyMemo, memoGet, List.find?_cons]
    by_cases e : x = y
    · subst e
      simp
      exact (grows_cloneMemo tgt xs _).mem _ _ (mem_require _ _ _ _)
    · have hy' : y ∈ xs := by
        simp at hy
        rcases hy with hy | hy
        · exact absurd hy.symm e
        · exact hy
      have : (x == y) = false := by simp [e]
      simp only [this]
      exact mem_cloneMemo tgt xs _ y hy'

/-- what a copying phase leaves untouched -/
structure CFrame (s s' : Store) : Prop where
  tl : s'.tl = s.tl
  nTl : s'.nTl = s.nTl
  nTree : s.nTree ≤ s'.nTree
  old : ∀ t, t < s.nTree → s'.tree t = s.tree t

theorem CFrame.refl (s : Store) : CFrame s s := ⟨rfl, rfl, Nat.le_refl _, fun _ _ => rfl⟩
theorem CFrame.trans {a b c : Store} (h1 : CFrame a b) (h2 : CFrame b c) : CFrame a c :=
  ⟨h2.tl.trans h1.tl, h2.nTl.trans h1.nTl, Nat.le_trans h1.nTree h2.nTree,
   fun t ht => (h2.old t (Nat.lt_of_lt_of_le ht h1.nTree)).trans (h1.old t ht)⟩

theorem cframe_allocTree (s : Store) (v : Tree) : CFrame s (allocTree s v).1 := by
  refine ⟨rfl, rfl, Nat.le_succ _, ?_⟩
  intro t ht
  simp [allocTree, upd, Nat.ne_of_lt ht]

theorem Grows.cframe {s s' : Store} (g : Grows s s') : CFrame s s' :=
  ⟨g.tl, g.nTl, Nat.le_of_eq g.nTree.symm, fun t _ => congrFun g.tree t⟩

theorem inv_cloneTree {s : Store} (h : Inv s) (src n : Nat) :
    Inv (cloneTree s src n).1 ∧ CFrame s (cloneTree s src n).1
      ∧ ((cloneTree s src n).1.tree (cloneTree s src n).2).ns = n
      ∧ (cloneTree s src n).2 < (cloneTree s src n).1.nTree := by
  unfold cloneTree
  simp only []
  split
  · next e =>
    refine ⟨inv_allocTree h _ (h.treeOk src), cframe_allocTree _ _, ?_, ?_⟩
    · simp [allocTree, upd, e]
    · simp [allocTree]
  · have g := grows_cloneMemo n (mem s (s.tree src).ns) s
    refine ⟨inv_allocTree (inv_grows g h) _ ?_, g.cframe.trans (cframe_allocTree _ _), ?_, ?_⟩
    · intro x hx
      simp only [List.mem_map] at hx
      obtain ⟨o, ho, e⟩ := hx
      cases o with
      | none => simp at e
      | some y =>
        simp at e
        subst e
        exact mem_cloneMemo n _ s y (h.treeOk src y ho)
    · simp [allocTree, upd]
    · simp [allocTree]

theorem inv_cloneTrees (n : Nat) : ∀ (ts : List Nat) {s : Store}, Inv s →
    Inv (cloneTrees s n ts).1 ∧ CFrame s (cloneTrees s n ts).1
      ∧ ∀ t, t ∈ (cloneTrees s n ts).2 → ((cloneTrees s n ts).1.tree t).ns = n ∧ t < (cloneTrees s n ts).1.nTree
  | [], s, h => ⟨h, CFrame.refl s, by simp [cloneTrees]⟩
  | t :: ts, s, h => by
    simp only [cloneTrees]
    obtain ⟨i1, f1, e1, l1⟩ := inv_cloneTree h t n
    obtain ⟨i2, f2, e2⟩ := inv_cloneTrees n ts i1
    refine ⟨i2, f1.trans f2, ?_⟩
    intro t' ht'
    simp at ht'
    rcases ht' with e | ht'
    · subst e
      rw [f2.old _ l1]
      exact ⟨e1, Nat.lt_of_lt_of_le l1 f2.nTree⟩
    · exact e2 t' ht'

/-- slice assignment / `extend` / `+=` with a `TreeList` (its trees are copied) -/
theorem inv_spliceL {s : Store} (h : Inv s) (l a b l2 : Nat) (hl : l < s.nTl) : Inv (spliceL s l a b l2) := by
  simp only [spliceL]
  obtain ⟨i, f, e⟩ := inv_cloneTrees (s.tl l).ns (s.tl l2).trees h
  apply inv_setTrees i l _ (by rw [f.nTl]; exact hl)
  intro t ht
  rw [f.tl]
  rcases mem_splice ht with ht | ht
  · rw [f.tl] at ht
    have lt := h.treeLt l t ht
    rw [f.old t lt]
    exact ⟨h.listOk l t ht, Nat.lt_of_lt_of_le lt f.nTree⟩
  · exact e t ht


/-! ## allocation and data-set primitives -/

theorem grows_newNs (s : Store) (cs : Bool) : Grows s (newNs s cs).1 := by
  refine ⟨rfl, rfl, rfl, rfl, rfl, rfl, rfl, rfl, ?_⟩
  intro n x hx
  simp only [newNs, mem, upd] at *
  split
  · next e => subst e; exact hx
  · exact hx

theorem grows_newTaxa (n : Nat) : ∀ (ls : List String) (s : Store), Grows s (newTaxa s n ls)
  | [], s => Grows.refl s
  | l :: ls, s => by
    simp only [newTaxa]
    exact (grows_newTaxon s n l).trans (grows_newTaxa n ls _)

theorem inv_allocTl {s : Store} (h : Inv s) (n : Nat) : Inv (allocTl s n).1 := by
  obtain ⟨⟨h1, h2, h3, h4⟩, h5, h6, h7, h8⟩ := h
  refine ⟨⟨h1, h2, ?_, ?_⟩, ?_, h6, ?_, ?_⟩
  · intro l t ht
    simp only [allocTl, upd] at ht ⊢
    split at ht
    · simp at ht
    · next e => simp only [e, if_false]; exact h3 l t ht
  · intro d a ha
    have := h4 d a ha
    refine ⟨fun l hl => ?_, this.2⟩
    have lt := (h8 d).1 l hl
    simp only [allocTl, upd, Nat.ne_of_lt lt, if_false]
    exact this.1 l hl
  · intro l hl
    simp only [allocTl] at hl
    have : l ≠ s.nTl := by omega
    simp only [allocTl, upd, this, if_false]
    exact h5 l (by omega)
  · intro l t ht
    simp only [allocTl, upd] at ht ⊢
    split at ht
    · simp at ht
    · exact h7 l t ht
  · intro d
    refine ⟨fun l hl => ?_, (h8 d).2⟩
    simp only [allocTl]
    exact Nat.lt_succ_of_lt ((h8 d).1 l hl)

theorem inv_allocMat {s : Store} (h : Inv s) (v : Mat) (hv : ∀ x, x ∈ v.keys → x ∈ mem s v.ns) : Inv (allocMat s v).1 := by
  obtain ⟨⟨h1, h2, h3, h4⟩, h5, h6, h7, h8⟩ := h
  refine ⟨⟨h1, ?_, h3, ?_⟩, h5, h6, h7, ?_⟩
  · intro m x hx
    simp only [allocMat, upd] at hx ⊢
    split at hx
    · next e => simp only [e, if_true]; exact hv x hx
    · next e => simp only [e, if_false]; exact h2 m x hx
  · intro d a ha
    have := h4 d a ha
    refine ⟨this.1, fun m hm => ?_⟩
    have lt := (h8 d).2 m hm
    simp only [allocMat, upd, Nat.ne_of_lt lt, if_false]
    exact this.2 m hm
  · intro d
    refine ⟨(h8 d).1, fun m hm => ?_⟩
    simp only [allocMat]
    exact Nat.lt_succ_of_lt ((h8 d).2 m hm)

theorem inv_setKeys {s : Store} (h : Inv s) (m : Nat) (ks : List Nat)
    (hk : ∀ x, x ∈ ks → x ∈ mem s (s.mat m).ns) :
    Inv { s with mat := upd s.mat m { (s.mat m) with keys := ks } } := by
  obtain ⟨⟨h1, h2, h3, h4⟩, h5, h6, h7, h8⟩ := h
  refine ⟨⟨h1, ?_, h3, ?_⟩, h5, h6, h7, h8⟩
  · intro m' x hx
    simp only [upd] at hx ⊢
    split at hx
    · next e => simp only [e, if_true]; subst e; exact hk x hx
    · next e => simp only [e, if_false]; exact h2 m' x hx
  · intro d a ha
    have := h4 d a ha
    refine ⟨this.1, fun m' hm' => ?_⟩
    simp only [upd]
    split
    · next e => subst e; exact this.2 _ hm'
    · exact this.2 _ hm'

theorem inv_setDs {s : Store} (h : Inv s) (d : Nat) (v : DS) (hd : d < s.nDs)
    (ha : ∀ a, v.att = some a → (∀ l, l ∈ v.tls → (s.tl l).ns = a) ∧ (∀ m, m ∈ v.mats → (s.mat m).ns = a))
    (hl : ∀ l, l ∈ v.tls → l < s.nTl) (hm : ∀ m, m ∈ v.mats → m < s.nMat) : Inv (setDs s d v) := by
  obtain ⟨⟨h1, h2, h3, h4⟩, h5, h6, h7, h8⟩ := h
  refine ⟨⟨h1, h2, h3, ?_⟩, h5, ?_, h7, ?_⟩
  · intro d' a hd'
    simp only [setDs, upd] at hd' ⊢
    split at hd'
    · next e => simp only [e, if_true]; exact ha a hd'
    · next e => simp only [e, if_false]; exact h4 d' a hd'
  · intro d' hd'
    have : d' ≠ d := by simp only [setDs] at hd'; omega
    simp only [setDs, upd, this, if_false]
    exact h6 d' hd'
  · intro d'
    simp only [setDs, upd]
    split
    · exact ⟨hl, hm⟩
    · exact h8 d'

theorem mem_addOnce {xs : List Nat} {x y : Nat} (h : y ∈ addOnce xs x) : y ∈ xs ∨ y = x := by
  unfold addOnce at h
  split at h
  · exact Or.inl h
  · simpa using h

theorem getElem?_mem_mem {s : Store} {n i x : Nat} (h : (mem s n)[i]? = some x) : x ∈ mem s n :=
  List.mem_of_getElem? h

/-! ## from the Boolean ownership tests to facts -/

theorem free_of_freeTree {s : Store} (h : Inv s) {t : Nat} {ex : Option Nat} (hf : freeTree s t ex = true) :
    ∀ l, some l ≠ ex → t ∉ (s.tl l).trees := by
  intro l hne hin
  by_cases hl : l < s.nTl
  · simp only [freeTree, List.all_eq_true, List.mem_range] at hf
    have := hf l hl
    simp at this
    rcases this with e | e
    · exact hne e
    · exact e hin
  · have := h.tlBlank l (Nat.le_of_not_lt hl)
    rw [this] at hin
    simp at hin

theorem ok_of_rebindOk {s : Store} (h : Inv s) {t l : Nat} (hr : rebindOk s t (s.tl l).ns (some l) = true) :
    (s.tree t).ns = (s.tl l).ns ∨ ∀ l', t ∉ (s.tl l').trees := by
  simp only [rebindOk, Bool.or_eq_true, beq_iff_eq] at hr
  rcases hr with e | f
  · exact Or.inl e
  · by_cases hin : t ∈ (s.tl l).trees
    · exact Or.inl (h.listOk l t hin)
    · right
      intro l'
      by_cases e : l' = l
      · subst e; exact hin
      · exact free_of_freeTree h f l' (by simp [e])

theorem ok_of_rebindOk_none {s : Store} (h : Inv s) {t n : Nat} (hr : rebindOk s t n none = true) :
    (s.tree t).ns = n ∨ ∀ l', t ∉ (s.tl l').trees := by
  simp only [rebindOk, Bool.or_eq_true, beq_iff_eq] at hr
  rcases hr with e | f
  · exact Or.inl e
  · exact Or.inr (fun l' => free_of_freeTree h f l' (by simp))

theorem inv_srcInto {s : Store} (h : Inv s) (l a b : Nat) (src : Src) (hl : l < s.nTl)
    (hv : srcOk s (s.tl l).ns (some l) src = true) : Inv (srcInto s l a b src) := by
  cases src with
  | list l2 => exact inv_spliceL h l a b l2 hl
  | trees ts =>
    simp only [srcInto]
    apply inv_spliceT h l a b _ ts hl
    intro t ht
    simp only [srcOk, List.all_eq_true, Bool.and_eq_true, decide_eq_true_eq] at hv
    exact ⟨ok_of_rebindOk h (hv t ht).1, (hv t ht).2⟩

/-- one Newick statement after the other read into namespace `n` -/
theorem grows_requireLastList (n : Nat) (cs : Bool) : ∀ (ls : List String) (s : Store),
    Grows s (requireLastList s n cs ls).1 ∧ ∀ x, x ∈ (requireLastList s n cs ls).2 → x ∈ mem (requireLastList s n cs ls).1 n
  | [], s => ⟨Grows.refl s, by simp [requireLastList]⟩
  | l :: ls, s => by
    simp only [requireLastList]
    have g1 : Grows s (requireLast s n cs l).1 ∧ (requireLast s n cs l).2 ∈ mem (requireLast s n cs l).1 n := by
      unfold requireLast
      split
      · next x hx =>
        refine ⟨Grows.refl s, ?_⟩
        unfold lookupLast at hx
        have := List.mem_of_find?_eq_some hx
        simpa using this
      · exact ⟨grows_newTaxon s n l, mem_newTaxon s n l⟩
    obtain ⟨g2, m2⟩ := grows_requireLastList n cs ls (requireLast s n cs l).1
    refine ⟨g1.1.trans g2, ?_⟩
    intro x hx
    simp at hx
    rcases hx with e | hx
    · subst e; exact g2.mem _ _ g1.2
    · exact m2 x hx

theorem inv_readTrees (n : Nat) : ∀ (docs : List (List String)) {s : Store}, Inv s →
    Inv (readTrees s n docs).1 ∧ CFrame s (readTrees s n docs).1
      ∧ ∀ t, t ∈ (readTrees s n docs).2 → ((readTrees s n docs).1.tree t).ns = n ∧ t < (readTrees s n docs).1.nTree
  | [], s, h => ⟨h, CFrame.refl s, by simp [readTrees]⟩
  | labs :: rest, s, h => by
    simp only [readTrees]
    obtain ⟨g, m⟩ := grows_requireLastList n (s.ns n).cs labs s
    have i1 : Inv (allocTree (requireLastList s n (s.ns n).cs labs).1
        { ns := n, taxa := none :: (requireLastList s n (s.ns n).cs labs).2.map some }).1 := by
      apply inv_allocTree (inv_grows g h)
      intro x hx
      simp at hx
      exact m x hx
    obtain ⟨i2, f2, e2⟩ := inv_readTrees n rest i1
    refine ⟨i2, (g.cframe.trans (cframe_allocTree _ _)).trans f2, ?_⟩
    intro t ht
    simp at ht
    rcases ht with e | ht
    · subst e
      have lt : (allocTree (requireLastList s n (s.ns n).cs labs).1
        { ns := n, taxa := none :: (requireLastList s n (s.ns n).cs labs).2.map some }).2 <
          (allocTree (requireLastList s n (s.ns n).cs labs).1
        { ns := n, taxa := none :: (requireLastList s n (s.ns n).cs labs).2.map some }).1.nTree := by simp [allocTree]
      rw [f2.old _ lt]
      exact ⟨by simp [allocTree, upd], Nat.lt_of_lt_of_le lt f2.nTree⟩
    · exact e2 t ht

/-- appending freshly made trees of the list's namespace -/
theorem inv_appendNew {s s' : Store} (h : Inv s) (i : Inv s') (f : CFrame s s') (l : Nat) (hl : l < s.nTl) (new : List Nat)
    (hn : ∀ t, t ∈ new → (s'.tree t).ns = (s.tl l).ns ∧ t < s'.nTree) : Inv (setTrees s' l ((s'.tl l).trees ++ new)) := by
  apply inv_setTrees i l _ (by rw [f.nTl]; exact hl)
  intro t ht
  rw [f.tl]
  simp only [List.mem_append] at ht
  rcases ht with ht | ht
  · rw [f.tl] at ht
    have lt := h.treeLt l t ht
    rw [f.old t lt]
    exact ⟨h.listOk l t ht, Nat.lt_of_lt_of_le lt f.nTree⟩
  · exact hn t ht


theorem inv_migrateTree {s : Store} (h : Inv s) (t n : Nat) (u : Bool) (memo : Memo)
    (hok : (s.tree t).ns = n ∨ ∀ l, t ∉ (s.tl l).trees) : Inv (migrateTree s t n u memo).1 := by
  simp only [migrateTree]
  have g := grows_mapTaxa n u (s.tree t).taxa s memo
  apply inv_setTree (inv_grows g h)
  · intro x hx; exact mem_mapTaxa n u _ s memo x hx
  · intro l hl
    rw [g.tl] at hl ⊢
    rcases hok with e | f
    · rw [← e]; exact (h.listOk l t hl).symm
    · exact absurd hl (f l)

theorem sublist_mem_take_drop {xs : List Nat} {a b t : Nat} (h : t ∈ (xs.take b).drop a) : t ∈ xs :=
  List.mem_of_mem_take (List.mem_of_mem_drop h)

end DendroModel.C11.Aux

namespace DendroModel.C11
open DendroModel.C11.Aux

/-- the operations whose closure proof is carried out below (see `closed_step_partial`) -/
def covered : Op → Bool
  | .add _ (.trees _) => false
  | .lclone _ _ | .mclone _ _ | .lmig _ _ _ | .lrec _ _ | .mmig _ _ _ | .mrec _ _ | .dsunify _ _ | .dsread _ _ _ _ => false
  | _ => true

/-- clauses (a),(c) hold in the empty world -/
theorem closed_init : Closed init := inv_init.toClosed

/-- PARTIAL. Closure (clauses a and c, with the allocation discipline) is preserved by every operation of the alphabet
inside the ownership domain `valid` — proved for the `covered` operations: namespace/tree/list/matrix/data-set creation,
`append`, `insert`, `[]=`, slice assignment, `extend`/`+=` (originals and `TreeList` sources, both import strategies),
`+` with a `TreeList`, `read`, `new_tree`, slicing, `pop`/`del`/`remove`, `Tree(...)` copies, `Tree.migrate/reconstruct_taxon_namespace`
(both unify flags), matrix `[]=`/`new_sequence`, `DataSet.add/new_*/attach/detach`.
MISSING: `+` with a plain list, `TreeList(...)` copies, `TreeList`/`CharacterMatrix` migrate/reconstruct, matrix copies,
`DataSet.unify_taxon_namespaces` and `DataSet.read` (covered by the correspondence + oracle only). -/
theorem closed_step_partial (s : Store) (op : Op) (h : Inv s) (hv : valid s op = true) (hc : covered op = true) :
    Inv (step s op).1 := by
  simp only [valid, Bool.and_eq_true] at hv
  obtain ⟨⟨_, hr⟩, ho⟩ := hv
  cases op with
  | ns cs labels =>
    simp only [step]
    exact inv_grows ((grows_newNs s cs).trans (grows_newTaxa _ labels _)) h
  | tree n taxa =>
    simp only [step]
    apply inv_allocTree h
    intro x hx
    simp only [List.mem_map] at hx
    obtain ⟨o, _, e⟩ := hx
    cases o with
    | none => simp at e
    | some i => simp at e; exact getElem?_mem_mem e
  | tlist n =>
    cases n with
    | none => simp only [step]; exact inv_allocTl (inv_grows (grows_newNs s false) h) _
    | some n => simp only [step]; exact inv_allocTl h n
  | mat n idx =>
    simp only [step]
    apply inv_allocMat h
    intro x hx
    simp only [List.mem_filterMap] at hx
    obtain ⟨i, _, e⟩ := hx
    exact getElem?_mem_mem e
  | ds =>
    simp only [step]
    obtain ⟨⟨h1, h2, h3, h4⟩, h5, h6, h7, h8⟩ := h
    exact ⟨⟨h1, h2, h3, h4⟩, h5, fun d hd => h6 d (by simp at hd; omega), h7, h8⟩
  | append l t st =>
    simp only [inRange, decide_eq_true_eq] at hr
    simp only [owner, Bool.and_eq_true, decide_eq_true_eq] at ho
    simp only [step]
    apply inv_spliceT h l _ _ st [t] hr
    intro t' ht'; simp at ht'; subst ht'
    exact ⟨ok_of_rebindOk h ho.1, ho.2⟩
  | insert l i t st =>
    simp only [inRange, decide_eq_true_eq] at hr
    simp only [owner, Bool.and_eq_true, decide_eq_true_eq] at ho
    simp only [step]
    apply inv_spliceT h l _ _ st [t] hr
    intro t' ht'; simp at ht'; subst ht'
    exact ⟨ok_of_rebindOk h ho.1, ho.2⟩
  | setitem l i t =>
    simp only [inRange, decide_eq_true_eq] at hr
    simp only [owner, Bool.and_eq_true, decide_eq_true_eq] at ho
    simp only [step]
    split
    · apply inv_spliceT h l _ _ _ [t] hr
      intro t' ht'; simp at ht'; subst ht'
      exact ⟨ok_of_rebindOk h ho.1, ho.2⟩
    · show Inv (importTrees s (s.tl l).ns Strat.migrate [t])
      refine (inv_importTrees (s.tl l).ns Strat.migrate [t] h ?_).1
      intro t' ht'; simp at ht'; subst ht'
      exact ok_of_rebindOk h ho.1
  | setslice l a b src =>
    simp only [inRange, decide_eq_true_eq] at hr
    simp only [owner] at ho
    simp only [step]
    exact inv_srcInto h l a b src hr ho
  | extend l src =>
    simp only [inRange, decide_eq_true_eq] at hr
    simp only [owner] at ho
    simp only [step]
    exact inv_srcInto h l _ _ src hr ho
  | add l src =>
    cases src with
    | trees ts => simp [covered] at hc
    | list l2 =>
      simp only [step, srcInto]
      have i1 := inv_allocTl h (s.tl l).ns
      have lt : (allocTl s (s.tl l).ns).2 < (allocTl s (s.tl l).ns).1.nTl := by simp [allocTl]
      have i2 := inv_spliceL i1 (allocTl s (s.tl l).ns).2 0 0 l lt
      apply inv_spliceL i2
      simp [spliceL, setTrees]
      have := (inv_cloneTrees ((allocTl s (s.tl l).ns).1.tl (allocTl s (s.tl l).ns).2).ns
        ((allocTl s (s.tl l).ns).1.tl l).trees i1).2.1.nTl
      rw [this]; exact lt
  | read l docs =>
    simp only [inRange, decide_eq_true_eq] at hr
    simp only [step]
    obtain ⟨i, f, e⟩ := inv_readTrees (s.tl l).ns docs h
    exact inv_appendNew h i f l hr _ e
  | newtree l src =>
    simp only [inRange, decide_eq_true_eq] at hr
    cases src with
    | none =>
      simp only [step]
      have i := inv_allocTree h { ns := (s.tl l).ns, taxa := [none] } (by simp)
      apply inv_appendNew h i (cframe_allocTree _ _) l hr
      intro t ht; simp at ht; subst ht
      simp [allocTree, upd]
    | some t0 =>
      simp only [step]
      obtain ⟨i, f, e, lt⟩ := inv_cloneTree h t0 (s.tl l).ns
      apply inv_appendNew h i f l hr
      intro t ht; simp at ht; subst ht
      exact ⟨e, lt⟩
  | getslice l a b =>
    simp only [step]
    have i1 := inv_allocTl h (s.tl l).ns
    apply inv_setTrees i1 _ _ (by simp [allocTl])
    intro t ht
    have ht' := sublist_mem_take_drop ht
    have ne : (s.tl l).trees ≠ [] := by intro e; rw [e] at ht'; simp at ht'
    have ll : l < s.nTl := by
      by_cases hl : l < s.nTl
      · exact hl
      · exact absurd (h.tlBlank l (Nat.le_of_not_lt hl)) ne
    refine ⟨?_, h.treeLt l t ht'⟩
    simp only [allocTl, upd, if_true]
    exact h.listOk l t ht'
  | pop l i =>
    simp only [inRange, decide_eq_true_eq] at hr
    simp only [step]
    apply inv_setTrees h l _ hr
    intro t ht
    rcases mem_splice ht with ht | ht
    · exact ⟨h.listOk l t ht, h.treeLt l t ht⟩
    · simp at ht
  | remove l t0 =>
    simp only [inRange, decide_eq_true_eq] at hr
    simp only [step]
    split
    · apply inv_setTrees h l _ hr
      intro t ht
      have ht' := List.mem_of_mem_erase ht
      exact ⟨h.listOk l t ht', h.treeLt l t ht'⟩
    · exact h
  | lclone l n => simp [covered] at hc
  | tclone t n => simp only [step]; exact (inv_cloneTree h t _).1
  | mclone m n => simp [covered] at hc
  | tmig t n u =>
    simp only [owner] at ho
    simp only [step]
    exact inv_migrateTree h t n u [] (ok_of_rebindOk_none h ho)
  | trec t u =>
    simp only [step]
    exact inv_migrateTree h t _ u [] (Or.inl rfl)
  | lmig l n u => simp [covered] at hc
  | lrec l u => simp [covered] at hc
  | mmig m n u => simp [covered] at hc
  | mrec m u => simp [covered] at hc
  | mset m n i =>
    simp only [step]
    split
    · exact h
    · next x hx =>
      split
      · next hin =>
        apply inv_setKeys h m
        intro y hy
        rcases mem_addOnce hy with hy | hy
        · exact h.matOk m y hy
        · subst hy; simpa using hin
      · exact h
  | mnew m n i =>
    simp only [step]
    split
    · exact h
    · next x hx =>
      split
      · exact h
      · split
        · next hin =>
          apply inv_setKeys h m
          intro y hy
          simp at hy
          rcases hy with hy | hy
          · exact h.matOk m y hy
          · subst hy; simpa using hin
        · exact h
  | dsaddN d n =>
    simp only [inRange, decide_eq_true_eq] at hr
    simp only [step, dsAddNs]
    exact inv_setDs h d _ hr (h.dsOk d) (h.dsLt d).1 (h.dsLt d).2
  | dsaddL d l =>
    simp only [inRange, decide_eq_true_eq] at hr
    simp only [owner, Bool.and_eq_true, Bool.or_eq_true, beq_iff_eq, decide_eq_true_eq] at ho
    simp only [step, dsAddTl]
    apply inv_setDs h d _ hr
    · intro a ha
      have := h.dsOk d a ha
      refine ⟨fun l' hl' => ?_, this.2⟩
      rcases mem_addOnce hl' with hl' | hl'
      · exact this.1 l' hl'
      · subst hl'
        rcases ho.1 with e | e
        · rw [e] at ha; simp at ha
        · rw [e] at ha; simp at ha; exact ha
    · intro l' hl'
      rcases mem_addOnce hl' with hl' | hl'
      · exact (h.dsLt d).1 l' hl'
      · subst hl'; exact ho.2
    · exact (h.dsLt d).2
  | dsaddM d m =>
    simp only [inRange, decide_eq_true_eq] at hr
    simp only [owner, Bool.and_eq_true, Bool.or_eq_true, beq_iff_eq, decide_eq_true_eq] at ho
    simp only [step, dsAddMat]
    apply inv_setDs h d _ hr
    · intro a ha
      have := h.dsOk d a ha
      refine ⟨this.1, fun m' hm' => ?_⟩
      rcases mem_addOnce hm' with hm' | hm'
      · exact this.2 m' hm'
      · subst hm'
        rcases ho.1 with e | e
        · rw [e] at ha; simp at ha
        · rw [e] at ha; simp at ha; exact ha
    · exact (h.dsLt d).1
    · intro m' hm'
      rcases mem_addOnce hm' with hm' | hm'
      · exact (h.dsLt d).2 m' hm'
      · subst hm'; exact ho.2
  | dsnewlist d =>
    simp only [inRange, decide_eq_true_eq] at hr
    simp only [step]
    split
    · next a ha =>
      simp only [dsAddTl]
      have i1 := inv_allocTl h a
      apply inv_setDs i1 d _ (by simpa [allocTl] using hr)
      · intro a' ha'
        have e : a' = a := by
          have : (s.ds d).att = some a' := ha'
          rw [ha] at this; simpa using this.symm
        subst e
        have := i1.dsOk d a' ha'
        refine ⟨fun l' hl' => ?_, this.2⟩
        rcases mem_addOnce hl' with hl' | hl'
        · exact this.1 l' hl'
        · subst hl'; simp [allocTl, upd]
      · intro l' hl'
        rcases mem_addOnce hl' with hl' | hl'
        · exact (i1.dsLt d).1 l' hl'
        · subst hl'; simp [allocTl]
      · exact (i1.dsLt d).2
    · next hnone =>
      simp only [dsAddTl]
      have g := grows_newNs s false
      have i1 := inv_allocTl (inv_grows g h) (newNs s false).2
      apply inv_setDs i1 d _ (by simpa [allocTl, newNs] using hr)
      · intro a' ha'
        have : (s.ds d).att = some a' := ha'
        rw [hnone] at this; simp at this
      · intro l' hl'
        rcases mem_addOnce hl' with hl' | hl'
        · exact (i1.dsLt d).1 l' hl'
        · subst hl'; simp [allocTl]
      · exact (i1.dsLt d).2
  | dsnewmat d =>
    simp only [inRange, decide_eq_true_eq] at hr
    simp only [step]
    split
    · next a ha =>
      simp only [dsAddMat]
      have i1 := inv_allocMat h { ns := a, keys := [] } (by simp)
      apply inv_setDs i1 d _ (by simpa [allocMat] using hr)
      · intro a' ha'
        have e : a' = a := by
          have : (s.ds d).att = some a' := ha'
          rw [ha] at this; simpa using this.symm
        subst e
        have := i1.dsOk d a' ha'
        refine ⟨this.1, fun m' hm' => ?_⟩
        rcases mem_addOnce hm' with hm' | hm'
        · exact this.2 m' hm'
        · subst hm'; simp [allocMat, upd]
      · exact (i1.dsLt d).1
      · intro m' hm'
        rcases mem_addOnce hm' with hm' | hm'
        · exact (i1.dsLt d).2 m' hm'
        · subst hm'; simp [allocMat]
    · next hnone =>
      simp only [dsAddMat]
      have g := grows_newNs s false
      have i1 := inv_allocMat (inv_grows g h) { ns := (newNs s false).2, keys := [] } (by simp)
      apply inv_setDs i1 d _ (by simpa [allocMat, newNs] using hr)
      · intro a' ha'
        have : (s.ds d).att = some a' := ha'
        rw [hnone] at this; simp at this
      · exact (i1.dsLt d).1
      · intro m' hm'
        rcases mem_addOnce hm' with hm' | hm'
        · exact (i1.dsLt d).2 m' hm'
        · subst hm'; simp [allocMat]
  | dsnewns d =>
    simp only [inRange, decide_eq_true_eq] at hr
    simp only [step, dsAddNs]
    have g := grows_newNs s false
    have i := inv_grows g h
    exact inv_setDs i d _ (by rw [g.nDs]; exact hr) (i.dsOk d) (i.dsLt d).1 (i.dsLt d).2
  | dsattach d n =>
    simp only [inRange, decide_eq_true_eq] at hr
    simp only [owner, Bool.and_eq_true, List.all_eq_true, beq_iff_eq] at ho
    simp only [step]
    apply inv_setDs h d _ hr
    · intro a ha
      simp at ha; subst ha
      exact ⟨ho.1, ho.2⟩
    · exact (h.dsLt d).1
    · exact (h.dsLt d).2
  | dsdetach d =>
    simp only [inRange, decide_eq_true_eq] at hr
    simp only [step]
    apply inv_setDs h d _ hr
    · intro a ha; simp at ha
    · exact (h.dsLt d).1
    · exact (h.dsLt d).2
  | dsunify d n => simp [covered] at hc
  | dsread d taxa rows trees => simp [covered] at hc
  | taadd n t => simp only [step]; exact h
  | newtreeseed l t =>
    simp only [inRange, decide_eq_true_eq] at hr
    simp only [step]
    have g : Grows s (addTaxa s (s.tl l).ns (s.tree t).taxa) := grows_addAll _ _ s
    have i := inv_allocTree (inv_grows g h) { ns := (s.tl l).ns, taxa := (s.tree t).taxa }
      (fun x hx => mem_addAll (s.tl l).ns (s.tree t).taxa s x hx)
    apply inv_appendNew h i (g.cframe.trans (cframe_allocTree _ _)) l hr
    intro t' ht'; simp at ht'; subst ht'
    simp [allocTree, upd]
  | treeseed n t =>
    cases n with
    | some n =>
      simp only [step]
      have g : Grows s (addTaxa s n (s.tree t).taxa) := grows_addAll _ _ s
      exact inv_allocTree (inv_grows g h) { ns := n, taxa := (s.tree t).taxa } (fun x hx => mem_addAll n (s.tree t).taxa s x hx)
    | none =>
      simp only [step]
      have g0 := grows_newNs s false
      have g : Grows (newNs s false).1 (addTaxa (newNs s false).1 (newNs s false).2 (s.tree t).taxa) := grows_addAll _ _ _
      exact inv_allocTree (inv_grows g (inv_grows g0 h)) { ns := (newNs s false).2, taxa := (s.tree t).taxa }
        (fun x hx => mem_addAll (newNs s false).2 (s.tree t).taxa (newNs s false).1 x hx)

/-- a history all of whose steps are in the domain and covered -/
def validRun (s : Store) : List Op → Bool
  | [] => true
  | op :: ops => valid s op && covered op && validRun (step s op).1 ops

/-- PARTIAL (same coverage as `closed_step_partial`): closure holds after every history of covered, valid operations -/
theorem closed_reachable_partial : ∀ (ops : List Op) (s : Store), Inv s → validRun s ops = true → Inv (run s ops)
  | [], s, h, _ => h
  | op :: ops, s, h, hv => by
    simp only [validRun, Bool.and_eq_true] at hv
    exact closed_reachable_partial ops _ (closed_step_partial s op h hv.1.1 hv.1.2) hv.2

/-- ... in particular from the empty world, and then clauses (a) and (c) hold -/
theorem closed_from_init_partial (ops : List Op) (hv : validRun init ops = true) : Closed (run init ops) :=
  (closed_reachable_partial ops init inv_init hv).toClosed

/-- inside the domain the guarded step the driver runs is `step` -/
theorem stepG_of_valid {s : Store} {op : Op} (hv : valid s op = true) : stepG s op = step s op := by
  simp only [valid, Bool.and_eq_true] at hv
  simp [stepG, hv.1.1]

/-- the driver's step preserves the invariant on the covered, valid operations; outside `idsOk` it refuses and changes nothing -/
theorem closed_stepG_partial (s : Store) (op : Op) (h : Inv s) (hv : valid s op = true) (hc : covered op = true) :
    Inv (stepG s op).1 := by
  rw [stepG_of_valid hv]; exact closed_step_partial s op h hv hc

theorem stepG_refuses (s : Store) (op : Op) (hi : idsOk s op = false) : stepG s op = (s, .indexError) := by
  simp [stepG, hi]

/-- clause (c): `pop(i)` / `del tl[i]` takes exactly the tree at position `i` out of the list, leaves that tree as it was,
and the removed tree still refers only to members of its own namespace (as does everything else: `Inv`) -/
theorem removed_tree_consistent (s : Store) (h : Inv s) (l i t : Nat) (hv : valid s (.pop l i) = true)
    (ht : (s.tl l).trees[i]? = some t) :
    (stepG s (.pop l i)).2 = .ok
    ∧ ((stepG s (.pop l i)).1.tl l).trees = (s.tl l).trees.eraseIdx i
    ∧ (stepG s (.pop l i)).1.tree t = s.tree t
    ∧ (∀ x, some x ∈ ((stepG s (.pop l i)).1.tree t).taxa → x ∈ mem (stepG s (.pop l i)).1 ((stepG s (.pop l i)).1.tree t).ns)
    ∧ Inv (stepG s (.pop l i)).1 := by
  have i' := closed_stepG_partial s _ h hv rfl
  refine ⟨?_, ?_, ?_, i'.treeOk t, i'⟩
  · rw [stepG_of_valid hv]; rfl
  · rw [stepG_of_valid hv]
    simp only [step, setTrees, upd, if_true, splice, List.append_nil]
    rw [List.eraseIdx_eq_take_drop_succ]
    congr 2
    omega
  · rw [stepG_of_valid hv]; rfl

/-- clause (c) for `tl[i] = t'`: the tree that was at position `i` is replaced, is itself left as it was unless it is the
very tree being assigned, and stays consistent with its own namespace -/
theorem replaced_tree_consistent (s : Store) (h : Inv s) (l i t t' : Nat) (hv : valid s (.setitem l i t') = true)
    (ht : (s.tl l).trees[i]? = some t) (hne : t ≠ t') :
    (stepG s (.setitem l i t')).2 = .ok
    ∧ ((stepG s (.setitem l i t')).1.tl l).trees = (s.tl l).trees.take i ++ t' :: (s.tl l).trees.drop (i + 1)
    ∧ (stepG s (.setitem l i t')).1.tree t = s.tree t
    ∧ (∀ x, some x ∈ ((stepG s (.setitem l i t')).1.tree t).taxa →
        x ∈ mem (stepG s (.setitem l i t')).1 ((stepG s (.setitem l i t')).1.tree t).ns)
    ∧ Inv (stepG s (.setitem l i t')).1 := by
  have i' := closed_stepG_partial s _ h hv rfl
  have hv' := hv
  simp only [valid, Bool.and_eq_true, owner, decide_eq_true_eq] at hv'
  obtain ⟨⟨_, _⟩, ho, hlt⟩ := hv'
  obtain ⟨_, f, _, o⟩ := inv_importTree h (s.tl l).ns .migrate t' (ok_of_rebindOk h ho)
  have hi : i < len s l := by
    have := List.getElem?_eq_some_iff.mp ht
    obtain ⟨hlt', _⟩ := this
    exact hlt'
  refine ⟨?_, ?_, ?_, i'.treeOk t, i'⟩
  · rw [stepG_of_valid hv]; simp [step, hi]
  · rw [stepG_of_valid hv]
    simp only [step, hi, if_true, spliceT, importTrees, setTrees, upd, splice]
    rw [f.tl]
    have : max i (i + 1) = i + 1 := by omega
    simp [this]
  · rw [stepG_of_valid hv]
    simp only [step, hi, if_true, spliceT, importTrees, setTrees]
    exact o t hne

/-- every member of namespace `n` is an already allocated taxon -/
def FreshNs (s : Store) (n : Nat) : Prop := ∀ x, x ∈ mem s n → x < s.nTaxa

namespace Aux
theorem require_of_lookup {s : Store} {n : Nat} {cs : Bool} {l : String} {x : Nat}
    (h : lookupFirst s n cs l = some x) : require s n cs l = (s, x) := by
  unfold require; rw [h]

theorem require_label_stable (s : Store) (n : Nat) (cs : Bool) (lbl : String) (y : Nat) (hy : y < s.nTaxa) :
    (require s n cs lbl).1.label y = s.label y := by
  unfold require
  split
  · rfl
  · simp [newTaxon, upd, Nat.ne_of_lt hy]

theorem require_fresh (s : Store) (n : Nat) (cs : Bool) (lbl : String) (hf : FreshNs s n) :
    FreshNs (require s n cs lbl).1 n ∧ s.nTaxa ≤ (require s n cs lbl).1.nTaxa := by
  unfold require
  split
  · exact ⟨hf, Nat.le_refl _⟩
  · refine ⟨?_, by simp [newTaxon]⟩
    intro x hx
    simp [newTaxon, mem, upd] at hx ⊢
    rcases hx with hx | hx
    · exact Nat.lt_succ_of_lt (hf x hx)
    · omega

end Aux


/-- PARTIAL (clause b, one item): the taxon an item is moved to by label resolution in namespace `n` is a member of `n`
and carries the item's label up to the case rule.  Stated for `require` (the step `reconstruct_taxon_namespace` performs
for an item not yet in the memo); not lifted to whole `mapTaxa`/`mapKeys` runs with a memo. -/
theorem migrate_label_functional_partial (s : Store) (n : Nat) (cs : Bool) (lbl : String) :
    (require s n cs lbl).2 ∈ mem (require s n cs lbl).1 n
    ∧ keyOf cs ((require s n cs lbl).1.label (require s n cs lbl).2) = keyOf cs lbl := by
  refine ⟨mem_require s n cs lbl, ?_⟩
  unfold require
  split
  · next x hx =>
    unfold lookupFirst at hx
    have := List.find?_some hx
    simpa using this
  · simp [newTaxon, upd]

/-- PARTIAL (clause b, two items, "equal labels end up on one taxon"): two successive label resolutions in the same
namespace with labels that are equal under the case rule deliver the same taxon (no duplicate is created) -/
theorem migrate_unifies_equal_labels_partial (s : Store) (n : Nat) (cs : Bool) (l1 l2 : String) (hf : FreshNs s n)
    (hk : keyOf cs l1 = keyOf cs l2) :
    (require (require s n cs l1).1 n cs l2).2 = (require s n cs l1).2
    ∧ (require (require s n cs l1).1 n cs l2).1 = (require s n cs l1).1 := by
  have key : lookupFirst (require s n cs l1).1 n cs l2 = some (require s n cs l1).2 := by
    unfold require
    split
    · next x hx =>
      simp only [lookupFirst] at hx ⊢
      rw [← hk]; exact hx
    · next hnone =>
      simp only [lookupFirst] at hnone ⊢
      simp only [newTaxon, mem, upd, if_true]
      rw [List.find?_append]
      have : List.find? (fun x => keyOf cs ((if x = s.nTaxa then l1 else s.label x)) == keyOf cs l2) (s.ns n).members = none := by
        rw [List.find?_eq_none] at hnone ⊢
        intro x hx
        have lt : x < s.nTaxa := hf x hx
        have := hnone x hx
        simp only [Nat.ne_of_lt lt, if_false]
        rw [← hk]; exact this
      simp only [this, Option.none_or]
      simp [hk]
  have r := require_of_lookup key
  rw [r]
  exact ⟨rfl, rfl⟩

/-- PARTIAL (clause b, two items, "different labels end up on different taxa"): if two successive label resolutions
deliver the same taxon, the labels are equal under the case rule -/
theorem migrate_injective_on_labels_partial (s : Store) (n : Nat) (cs : Bool) (l1 l2 : String) (hf : FreshNs s n)
    (he : (require (require s n cs l1).1 n cs l2).2 = (require s n cs l1).2) : keyOf cs l1 = keyOf cs l2 := by
  have a1 := (migrate_label_functional_partial s n cs l1).2
  have a2 := (migrate_label_functional_partial (require s n cs l1).1 n cs l2).2
  have f1 := require_fresh s n cs l1 hf
  have m1 := mem_require s n cs l1
  have lt : (require s n cs l1).2 < (require s n cs l1).1.nTaxa := f1.1 _ m1
  rw [he, require_label_stable _ n cs l2 _ lt] at a2
  rw [← a1, ← a2]

/-! ## clause (b) for whole migrations: `mapTaxa` with a shared memo -/

/-- position-wise relation between the taxon references of an object before and after a pass: same length, a node without
taxon stays without, a node with taxon `x` gets a taxon `y` with `R x y` -/
def related (R : Nat → Nat → Prop) : List (Option Nat) → List (Option Nat) → Prop
  | [], [] => True
  | none :: xs, none :: ys => related R xs ys
  | some x :: xs, some y :: ys => R x y ∧ related R xs ys
  | _, _ => False

namespace Aux

theorem related_mono {R R' : Nat → Nat → Prop} :
    ∀ (xs ys : List (Option Nat)), (∀ x y, some x ∈ xs → R x y → R' x y) → related R xs ys → related R' xs ys
  | [], [], _, _ => trivial
  | [], _ :: _, _, hr => by simp [related] at hr
  | none :: xs, [], _, hr => by simp [related] at hr
  | some _ :: xs, [], _, hr => by simp [related] at hr
  | none :: xs, none :: ys, h, hr => by
    simp only [related] at hr ⊢; exact related_mono xs ys (fun x y hx => h x y (by simp [hx])) hr
  | none :: xs, some _ :: ys, _, hr => by simp [related] at hr
  | some _ :: xs, none :: ys, _, hr => by simp [related] at hr
  | some x :: xs, some y :: ys, h, hr => by
    simp only [related] at hr ⊢
    exact ⟨h x y (by simp) hr.1, related_mono xs ys (fun x y hx => h x y (by simp [hx])) hr.2⟩

theorem related_length {R : Nat → Nat → Prop} : ∀ (xs ys : List (Option Nat)), related R xs ys → xs.length = ys.length
  | [], [], _ => rfl
  | [], _ :: _, hr => by simp [related] at hr
  | none :: xs, [], hr => by simp [related] at hr
  | some _ :: xs, [], hr => by simp [related] at hr
  | none :: xs, none :: ys, hr => by simp only [related] at hr; simp [related_length xs ys hr]
  | none :: xs, some _ :: ys, hr => by simp [related] at hr
  | some _ :: xs, none :: ys, hr => by simp [related] at hr
  | some x :: xs, some y :: ys, hr => by simp only [related] at hr; simp [related_length xs ys hr.2]

theorem find?_congr' {p q : Nat → Bool} : ∀ (l : List Nat), (∀ x, x ∈ l → p x = q x) → l.find? p = l.find? q
  | [], _ => rfl
  | a :: l, h => by
    simp only [List.find?_cons]
    rw [h a (by simp), find?_congr' l (fun x hx => h x (by simp [hx]))]

/-- the store grew from `s0` without disturbing anything `s0` knew about namespace `n` -/
structure Ext (n : Nat) (s0 s : Store) : Prop where
  nT : s0.nTaxa ≤ s.nTaxa
  lab : ∀ y, y < s0.nTaxa → s.label y = s0.label y
  cs : (s.ns n).cs = (s0.ns n).cs
  fresh : FreshNs s n
  look : ∀ lbl y, lookupFirst s0 n (s0.ns n).cs lbl = some y → lookupFirst s n (s0.ns n).cs lbl = some y

theorem Ext.refl {n : Nat} {s : Store} (hf : FreshNs s n) : Ext n s s :=
  ⟨Nat.le_refl _, fun _ _ => rfl, rfl, hf, fun _ _ h => h⟩

theorem Ext.trans {n : Nat} {a b c : Store} (h1 : Ext n a b) (h2 : Ext n b c) : Ext n a c :=
  ⟨Nat.le_trans h1.nT h2.nT,
   fun y hy => (h2.lab y (Nat.lt_of_lt_of_le hy h1.nT)).trans (h1.lab y hy),
   h2.cs.trans h1.cs, h2.fresh,
   fun lbl y h => by have := h2.look lbl y (by rw [h1.cs]; exact h1.look lbl y h); rw [h1.cs] at this; exact this⟩

theorem look_newTaxon (s : Store) (n : Nat) (c : Bool) (l0 lbl : String) (hf : FreshNs s n) :
    lookupFirst (newTaxon s n l0).1 n c lbl
      = (lookupFirst s n c lbl).or (if keyOf c l0 == keyOf c lbl then some s.nTaxa else none) := by
  simp only [lookupFirst, newTaxon, mem, upd, if_true]
  rw [List.find?_append]
  congr 1
  · apply find?_congr'
    intro x hx
    have : x ≠ s.nTaxa := Nat.ne_of_lt (hf x hx)
    simp [this]
  · simp [List.find?_cons]
    split <;> simp_all

theorem ext_newTaxon (s : Store) (n : Nat) (l0 : String) (hf : FreshNs s n) : Ext n s (newTaxon s n l0).1 := by
  refine ⟨by simp [newTaxon], ?_, by simp [newTaxon, upd], ?_, ?_⟩
  · intro y hy; simp [newTaxon, upd, Nat.ne_of_lt hy]
  · intro x hx
    simp [newTaxon, mem, upd] at hx ⊢
    rcases hx with hx | hx
    · exact Nat.lt_succ_of_lt (hf x hx)
    · omega
  · intro lbl y h
    rw [look_newTaxon s n _ l0 lbl hf, h]; rfl

/-- the memo agrees with label resolution in the target (what `require_taxon` would answer) -/
def MemoOk (s : Store) (n : Nat) (m : Memo) : Prop :=
  ∀ x y, memoGet m x = some y → x < s.nTaxa ∧ lookupFirst s n (s.ns n).cs (s.label x) = some y

theorem memoOk_nil (s : Store) (n : Nat) : MemoOk s n [] := by intro x y h; simp [memoGet] at h

theorem memoOk_ext {n : Nat} {s s' : Store} {m : Memo} (e : Ext n s s') (h : MemoOk s n m) : MemoOk s' n m := by
  intro x y hxy
  obtain ⟨lt, lk⟩ := h x y hxy
  refine ⟨Nat.lt_of_lt_of_le lt e.nT, ?_⟩
  rw [e.cs, e.lab x lt]; exact e.look _ _ lk

/-- one item of a label-unifying pass: the item lands on what label resolution in the (grown) target answers for its label -/
theorem mapOne_unify (s : Store) (n : Nat) (memo : Memo) (x : Nat) (hf : FreshNs s n) (hx : x < s.nTaxa) (hm : MemoOk s n memo) :
    Ext n s (mapOne s n true memo x).1
    ∧ lookupFirst (mapOne s n true memo x).1 n (s.ns n).cs (s.label x) = some (mapOne s n true memo x).2.2
    ∧ MemoOk (mapOne s n true memo x).1 n (mapOne s n true memo x).2.1 := by
  unfold mapOne
  simp only [Bool.true_or, if_true]
  cases hg : memoGet memo x with
  | some t =>
    simp only []
    have lk := (hm x t hg).2
    have tin : t ∈ mem s n := lookupFirst_mem lk
    have e : addMember s n t = s := by simp [addMember, tin]
    rw [e]
    exact ⟨Ext.refl hf, lk, hm⟩
  | none =>
    simp only []
    cases hl : lookupFirst s n (s.ns n).cs (s.label x) with
    | some y =>
      have r : require s n (s.ns n).cs (s.label x) = (s, y) := require_of_lookup hl
      rw [r]
      refine ⟨Ext.refl hf, hl, ?_⟩
      intro q z hq
      simp only [memoGet, List.find?_cons] at hq
      by_cases e : x = q
      · subst e; simp at hq; subst hq; exact ⟨hx, hl⟩
      · have : (x == q) = false := by simp [e]
        simp only [this] at hq
        exact hm q z hq
    | none =>
      have r : require s n (s.ns n).cs (s.label x) = newTaxon s n (s.label x) := by unfold require; rw [hl]
      rw [r]
      have ex := ext_newTaxon s n (s.label x) hf
      have lk : lookupFirst (newTaxon s n (s.label x)).1 n (s.ns n).cs (s.label x) = some (newTaxon s n (s.label x)).2 := by
        rw [look_newTaxon s n _ _ _ hf, hl]; simp [newTaxon]
      refine ⟨ex, lk, ?_⟩
      intro q z hq
      simp only [memoGet, List.find?_cons] at hq
      by_cases e : x = q
      · subst e
        simp at hq; subst hq
        refine ⟨Nat.lt_of_lt_of_le hx ex.nT, ?_⟩
        rw [ex.cs, ex.lab x hx]; exact lk
      · have : (x == q) = false := by simp [e]
        simp only [this] at hq
        exact memoOk_ext ex hm q z hq

end Aux

/-- CLAUSE (b) FOR A WHOLE PASS.  A label-unifying pass (`unify_taxa_by_label=True`) over the node taxa `xs` of a tree into
namespace `n`, with any memo that agrees with label resolution (the empty memo; the memo handed on by the previous tree of
a `TreeList` / component of a `DataSet`): nothing is dropped or invented (same length, nodes without taxon stay so), and every
node with taxon `x` ends on the taxon `y` that label resolution in the final namespace answers for `x`'s label — so `y` is a
member of `n` carrying `x`'s label up to the case rule.  The outgoing memo and store satisfy the hypotheses again (composes
over `migrateTrees`/`migrateTls`). -/
theorem mapTaxa_unify_spec (n : Nat) : ∀ (xs : List (Option Nat)) (s : Store) (memo : Memo),
    FreshNs s n → (∀ x, some x ∈ xs → x < s.nTaxa) → MemoOk s n memo →
    related (fun x y => lookupFirst (mapTaxa s n true memo xs).1 n (s.ns n).cs (s.label x) = some y) xs (mapTaxa s n true memo xs).2.2
    ∧ Ext n s (mapTaxa s n true memo xs).1
    ∧ MemoOk (mapTaxa s n true memo xs).1 n (mapTaxa s n true memo xs).2.1
  | [], s, memo, hf, _, hm => ⟨trivial, Ext.refl hf, hm⟩
  | none :: xs, s, memo, hf, hx, hm => by
    simp only [mapTaxa, related]
    exact mapTaxa_unify_spec n xs s memo hf (fun x h => hx x (by simp [h])) hm
  | some x :: xs, s, memo, hf, hx, hm => by
    simp only [mapTaxa, related]
    obtain ⟨e1, l1, m1⟩ := mapOne_unify s n memo x hf (hx x (by simp)) hm
    have hx' : ∀ x', some x' ∈ xs → x' < (mapOne s n true memo x).1.nTaxa :=
      fun x' h => Nat.lt_of_lt_of_le (hx x' (by simp [h])) e1.nT
    obtain ⟨r2, e2, m2⟩ := mapTaxa_unify_spec n xs _ _ e1.fresh hx' m1
    refine ⟨⟨?_, ?_⟩, e1.trans e2, m2⟩
    · have := e2.look _ _ (by rw [e1.cs]; exact l1)
      rw [e1.cs] at this; exact this
    · refine related_mono xs _ ?_ r2
      intro x' y' hin h
      rw [e1.cs, e1.lab x' (hx x' (by simp [hin]))] at h
      exact h

/-- what "label resolution answers `y`" means: `y` is a member of the namespace and carries the label up to the case rule -/
theorem resolved_member_label (s : Store) (n : Nat) (c : Bool) (lbl : String) (y : Nat)
    (h : lookupFirst s n c lbl = some y) : y ∈ mem s n ∧ keyOf c (s.label y) = keyOf c lbl := by
  refine ⟨lookupFirst_mem h, ?_⟩
  unfold lookupFirst at h
  simpa using List.find?_some h

/-- clause (b), the partition: two items of one pass (or of passes sharing the final namespace) sit on the same taxon exactly
when their labels are equal under the namespace's case rule — equal labels are never spread over two taxa, different labels
never merged; also for namespaces that already hold several taxa with one label -/
theorem same_taxon_iff_equal_labels (s : Store) (n : Nat) (c : Bool) (l1 l2 : String) (y1 y2 : Nat)
    (h1 : lookupFirst s n c l1 = some y1) (h2 : lookupFirst s n c l2 = some y2) :
    y1 = y2 ↔ keyOf c l1 = keyOf c l2 := by
  constructor
  · intro e
    have a := (resolved_member_label s n c l1 y1 h1).2
    have b := (resolved_member_label s n c l2 y2 h2).2
    rw [← a, ← b, e]
  · intro e
    have : lookupFirst s n c l1 = lookupFirst s n c l2 := by simp only [lookupFirst, e]
    rw [this, h2] at h1
    exact (Option.some.inj h1).symm

/-- nothing is dropped or invented by any pass, unifying or not: same number of nodes, and exactly the nodes that had a
taxon have one afterwards -/
theorem mapTaxa_shape (n : Nat) (u : Bool) : ∀ (xs : List (Option Nat)) (s : Store) (memo : Memo),
    related (fun _ _ => True) xs (mapTaxa s n u memo xs).2.2
  | [], _, _ => trivial
  | none :: xs, s, memo => by simp only [mapTaxa, related]; exact mapTaxa_shape n u xs s memo
  | some x :: xs, s, memo => by simp only [mapTaxa, related]; exact ⟨trivial, mapTaxa_shape n u xs _ _⟩

/-- `Tree.migrate_taxon_namespace(ns, unify_taxa_by_label=True)` / `reconstruct_taxon_namespace()`: the tree is bound to `n`
and its node taxa are the unified images of the old ones (`mapTaxa_unify_spec`) -/
theorem migrateTree_unify_spec (s : Store) (t n : Nat) (memo : Memo)
    (hf : FreshNs s n) (hx : ∀ x, some x ∈ (s.tree t).taxa → x < s.nTaxa) (hm : Aux.MemoOk s n memo) :
    ((migrateTree s t n true memo).1.tree t).ns = n
    ∧ related (fun x y => lookupFirst (migrateTree s t n true memo).1 n (s.ns n).cs (s.label x) = some y
                          ∧ y ∈ mem (migrateTree s t n true memo).1 n)
        (s.tree t).taxa ((migrateTree s t n true memo).1.tree t).taxa
    ∧ FreshNs (migrateTree s t n true memo).1 n
    ∧ Aux.MemoOk (migrateTree s t n true memo).1 n (migrateTree s t n true memo).2 := by
  obtain ⟨r, e, m⟩ := mapTaxa_unify_spec n (s.tree t).taxa s memo hf hx hm
  refine ⟨by simp [migrateTree, setTree, upd], ?_, e.fresh, m⟩
  simp only [migrateTree, setTree, upd, if_true]
  refine Aux.related_mono _ _ ?_ r
  intro x y _ h
  exact ⟨h, lookupFirst_mem h⟩

/-! ## non-vacuity: the hypotheses are satisfiable and the conclusions are not trivial -/

/-- a foreign tree appended to a list of another namespace: valid, covered, and the world stays closed -/
example : validRun init [.ns false ["A", "b"], .ns true ["a", "C"], .tree 1 [none, some 0, some 1], .tlist (some 0),
    .append 0 0 .migrate, .pop 0 0] = true := by decide +kernel

/-- the ownership precondition is needed: re-binding a tree that sits in another list is rejected by `valid` -/
example : valid (run init [.ns false ["A"], .ns false ["B"], .tree 0 [some 0], .tlist (some 0), .tlist (some 1), .append 0 0 .migrate])
    (.append 1 0 .migrate) = false := by decide +kernel

example : FreshNs init 0 := by intro x hx; simp [init, mem] at hx

/-- a reachable, non-empty world: case-insensitive namespace 0 = [A, b], case-sensitive namespace 1 = [a, A, C], tree 0 in
namespace 1 on (C, a, A) -/
def demo : Store := run init [.ns false ["A", "b"], .ns true ["a", "A", "C"], .tree 1 [some 2, some 0, some 1]]

/-- the hypotheses of `mapTaxa_unify_spec` / `migrateTree_unify_spec` hold there (with the empty memo) ... -/
example : FreshNs demo 0 ∧ (∀ x, some x ∈ (demo.tree 0).taxa → x < demo.nTaxa) ∧ Aux.MemoOk demo 0 [] := by
  refine ⟨?_, ?_, Aux.memoOk_nil _ _⟩
  · intro x hx
    have : (mem demo 0).all (fun x => decide (x < demo.nTaxa)) = true := by decide +kernel
    exact of_decide_eq_true (List.all_eq_true.mp this x hx)
  · intro x hx
    have : (demo.tree 0).taxa.all (fun o => match o with | some x => decide (x < demo.nTaxa) | none => true) = true := by decide +kernel
    have := List.all_eq_true.mp this (some x) hx
    exact of_decide_eq_true this

/-- ... and the conclusion is not trivial: `a` and `A` of the case-sensitive source end on the ONE taxon `A` (0) of the
case-insensitive target, `C` on a new taxon (5) -/
example : ((migrateTree demo 0 0 true []).1.tree 0).taxa = [some 5, some 0, some 0]
    ∧ mem (migrateTree demo 0 0 true []).1 0 = [0, 1, 5] := by decide +kernel

/-- the ownership hypothesis of `closed_step_partial` cannot be dropped: importing a tree that another list of a different
namespace still holds is what the code does (in-place migration) and it breaks clause (a) for the first list -/
example : ¬ Closed (run init [.ns false ["A"], .ns false ["B"], .tree 0 [some 0], .tlist (some 0), .tlist (some 1),
    .append 0 0 .migrate, .append 1 0 .migrate]) := by
  intro h
  have := h.listOk 0 0 (by decide +kernel)
  revert this
  decide +kernel

end DendroModel.C11
