import DendroModel.Theory.C10Step
import DendroModel.Theory.C10Bits
import DendroModel.Theory.C10More
import DendroModel.Theory.C10Ext
import DendroModel.Theory.C10Esc
import DendroModel.Theory.C10Text
import DendroModel.Theory.C10Kw
import DendroModel.Theory.C10Bulk
import DendroModel.Theory.C10Unl
import DendroModel.Gen.C10Kernels
/-! C10 — property theorems about the namespace state machine `DendroModel.C10.step` (the definitions the driver
`drv_c10` runs).  `Aux.WInv w` is the invariant of a world: every namespace satisfies `Aux.Inv` (member list
duplicate-free; members = keys of the taxon→index map; every index below the counter; the two index maps inverse
of each other, hence the index injective; the `taxon_bitmask` memo coherent) and every member is an existing
`Taxon`.  Only property theorems live directly in this namespace; helpers are in `DendroModel.C10.Aux`. -/
namespace DendroModel.C10.Aux
open DendroModel DendroModel.C10

theorem winv_exec {w : World} (hw : WInv w) : ∀ ops, WInv (exec w ops) := by
  intro ops
  induction ops generalizing w with
  | nil => exact hw
  | cons op ops ih => exact ih (winv_step hw op)

theorem scanAll_eq (p : Nat → Bool) : ∀ (l acc : List Nat), scanAll p l acc = acc ++ l.filter p := by
  intro l
  induction l with
  | nil => intro acc; simp [scanAll]
  | cons x xs ih =>
    intro acc
    unfold scanAll
    by_cases h : p x = true
    · simp [h, ih]
    · simp [h, ih]

theorem scanFirst_eq (p : Nat → Bool) : ∀ (l : List Nat), scanFirst p l = l.find? p := by
  intro l
  induction l with
  | nil => rfl
  | cons x xs ih =>
    unfold scanFirst
    by_cases h : p x = true
    · simp [h]
    · simp [h, ih]

theorem two_pow_inj {i j : Nat} (h : 1 <<< i = 1 <<< j) : i = j := by
  simp only [Nat.one_shiftLeft] at h
  have h1 : (2 ^ i).testBit i = true := by simp
  rw [h] at h1
  simp [Nat.testBit_two_pow] at h1
  exact h1.symm

theorem pos_of_nodup : ∀ (l : List Nat) (k t : Nat), l.Nodup → l[k]? = some t → pos t l = some k := by
  intro l
  induction l with
  | nil => intro k t _ h; simp at h
  | cons x xs ih =>
    intro k t hn h
    rw [List.nodup_cons] at hn
    cases k with
    | zero => simp at h; simp [pos, h]
    | succ k =>
      simp at h
      have hm : t ∈ xs := List.mem_of_getElem? h
      have : x ≠ t := by intro e; subst e; exact hn.1 hm
      simp [pos, this, ih k t hn.2 h]

theorem filterMap_eq_map_of {f : Nat → Option Nat} {g : Nat → Nat} :
    ∀ (l : List Nat), (∀ t ∈ l, f t = some (g t)) → l.filterMap f = l.map g := by
  intro l
  induction l with
  | nil => intro _; rfl
  | cons x xs ih =>
    intro h
    simp [h x (by simp), ih (fun t ht => h t (by simp [ht]))]

theorem deepCopy_taxa {o : NS} (hn : o.taxa.Nodup) (base : Nat) :
    (o.deepCopy base).taxa = (List.range o.taxa.length).map (base + ·) := by
  show o.taxa.filterMap (fun t => (pos t o.taxa).map (base + ·)) = _
  apply List.ext_getElem?
  intro k
  by_cases hk : k < o.taxa.length
  · have h1 : pos o.taxa[k] o.taxa = some k := pos_of_nodup _ _ _ hn (List.getElem?_eq_getElem hk)
    have h2 : o.taxa.filterMap (fun t => (pos t o.taxa).map (base + ·))
        = o.taxa.map (fun t => base + (pos t o.taxa).getD 0) := by
      apply filterMap_eq_map_of
      intro t ht
      have := pos_isSome _ _ ht
      cases hp : pos t o.taxa with
      | none => rw [hp] at this; cases this
      | some j => simp
    rw [h2]
    simp [hk, h1]
  · have h2 : (o.taxa.filterMap (fun t => (pos t o.taxa).map (base + ·))).length ≤ o.taxa.length :=
      List.length_filterMap_le _ _
    rw [List.getElem?_eq_none (by omega), List.getElem?_eq_none (by simp; omega)]

end DendroModel.C10.Aux

namespace DendroModel.C10
open DendroModel DendroModel.C10.Aux

/-! ## (a) a stable one-to-one taxon/bit map, for every operation history -/

/-- the empty world satisfies the invariant -/
theorem inv_init : WInv World.init :=
  ⟨fun s h => by simp [World.init] at h, fun s h => by simp [World.init] at h⟩

/-- every operation of the alphabet preserves the invariant -/
theorem inv_step (w : World) (op : Op) (hw : WInv w) : WInv (step w op).1 := winv_step hw op

/-- hence it holds after every operation history -/
theorem inv_reachable (ops : List Op) : WInv (exec World.init ops) := winv_exec inv_init ops

/-- in a reachable world two different members of a namespace have different bits (accession indices) — stated on the
index map's answers (`some i ≠ …`); `t'` need not even be a member, a non-member has no index at all … -/
theorem bits_distinct (ops : List Op) (s : NS) (hs : s ∈ (exec World.init ops).nss) (t t' : Nat)
    (ht : t ∈ s.taxa) (_ht' : t' ∈ s.taxa) (hne : t ≠ t') : s.t2a.get t ≠ s.t2a.get t' := by
  have hi := (inv_reachable ops).ns s hs
  obtain ⟨i, h1⟩ := Option.isSome_iff_exists.1 ((hi.dom t).1 ht)
  intro e
  exact hne (inv_injective hi h1 (e ▸ h1))

/-- … and `taxon_bitmask` of a member is the single bit `1 <<< index`, whatever the state of the memo -/
theorem taxon_bitmask_spec (s : NS) (hi : Inv s) (t : Nat) (ht : t ∈ s.taxa) :
    ∃ i, s.t2a.get t = some i ∧ (s.taxonBitmask t).2 = .ok (1 <<< i) := by
  obtain ⟨i, h1⟩ := Option.isSome_iff_exists.1 ((hi.dom t).1 ht)
  refine ⟨i, h1, ?_⟩
  unfold NS.taxonBitmask
  cases hb : s.bm.get t with
  | some m =>
    obtain ⟨j, h2, h3⟩ := hi.memo t m hb
    rw [h1] at h2; cases h2; simp [h3]
  | none => simp [h1]

/-- the masks of two different members differ -/
theorem masks_distinct (s : NS) (hi : Inv s) (t t' : Nat) (ht : t ∈ s.taxa) (ht' : t' ∈ s.taxa) (hne : t ≠ t') :
    (s.taxonBitmask t).2 ≠ (s.taxonBitmask t').2 := by
  obtain ⟨i, h1, h2⟩ := taxon_bitmask_spec s hi t ht
  obtain ⟨j, h3, h4⟩ := taxon_bitmask_spec s hi t' ht'
  rw [h2, h4]
  intro e
  have : i = j := two_pow_inj (Except.ok.inj e)
  subst this
  exact hne (inv_injective hi h1 h3)

/-- a taxon that is a member of namespace `n` before and after an operation keeps its bit: additions, removal
of other taxa, sorting, reversing, relabelling, copying, lookups … never move it -/
theorem bit_stable (w : World) (op : Op) (n : Nat) (s s' : NS) (hw : WInv w) (hs : w.nss[n]? = some s)
    (hs' : (step w op).1.nss[n]? = some s') (t : Nat) (ht : t ∈ s.taxa) (ht' : t ∈ s'.taxa) :
    s'.t2a.get t = s.t2a.get t := by
  obtain ⟨s'', h1, r⟩ := step_rel w op n s hs
  rw [hs'] at h1; cases h1
  have hi := hw.ns s (List.mem_of_getElem? hs)
  have hi' := rel_inv r hi
  obtain ⟨i, hti⟩ := Option.isSome_iff_exists.1 ((hi.dom t).1 ht)
  obtain ⟨i', hti'⟩ := Option.isSome_iff_exists.1 ((hi'.dom t).1 ht')
  cases hg : op.grows with
  | true => rw [rel_grow r hg hti, hti]
  | false => rw [hti', rel_shrink r hg hti']

/-- the accession counter of a namespace never decreases (not by `remove_taxon`, not by `clear`) -/
theorem counter_monotone (w : World) (op : Op) (n : Nat) (s s' : NS) (hs : w.nss[n]? = some s)
    (hs' : (step w op).1.nss[n]? = some s') : s.count ≤ s'.count := by
  obtain ⟨s'', h1, r⟩ := step_rel w op n s hs
  rw [hs'] at h1; cases h1
  exact rel_count r

/-- a taxon that becomes a member gets an index that was never handed out before in that namespace -/
theorem no_reuse (w : World) (op : Op) (n : Nat) (s s' : NS) (hw : WInv w) (hs : w.nss[n]? = some s)
    (hs' : (step w op).1.nss[n]? = some s') (t : Nat) (ht : t ∉ s.taxa) (ht' : t ∈ s'.taxa) :
    ∃ i, s'.t2a.get t = some i ∧ s.count ≤ i := by
  obtain ⟨s'', h1, r⟩ := step_rel w op n s hs
  rw [hs'] at h1; cases h1
  have hi := hw.ns s (List.mem_of_getElem? hs)
  have hi' := rel_inv r hi
  obtain ⟨i', hti'⟩ := Option.isSome_iff_exists.1 ((hi'.dom t).1 ht')
  refine ⟨i', hti', ?_⟩
  rcases rel_new_idx r hti' with h | h
  · exact absurd ((hi.dom t).2 (by simp [h])) ht
  · exact h

/-- over whole histories: an index below the counter is never bound to another taxon later on (no reuse of the
bits of removed taxa, also across `clear`) -/
theorem index_never_rebound (ops : List Op) (w : World) (n : Nat) (s s' : NS) (hs : w.nss[n]? = some s)
    (hs' : (exec w ops).nss[n]? = some s') (i t : Nat) (hi : i < s.count) (ht : s'.a2t.get i = some t) :
    s.a2t.get i = some t := by
  induction ops generalizing w s with
  | nil => simp only [exec] at hs'; rw [hs] at hs'; cases hs'; exact ht
  | cons op ops ih =>
    obtain ⟨s1, h1, r⟩ := step_rel w op n s hs
    simp only [exec] at hs'
    exact rel_a2t r hi (ih (step w op).1 s1 h1 hs' (Nat.lt_of_lt_of_le hi (rel_count r)))

/-- sorting rearranges the member list (nothing is lost, nothing duplicated) … -/
theorem sort_perm (lab : Nat → String) (rev : Bool) (l : List Nat) : (sortBy lab rev l).Perm l :=
  sortBy_perm lab rev l

/-- … into label order (descending with `reverse=True`; `ordBy a b` for every earlier `a` and later `b`) … -/
theorem sort_sorted (lab : Nat → String) (rev : Bool) (l : List Nat) : (sortBy lab rev l).Pairwise (ordBy lab rev) :=
  sortBy_sorted lab rev l

/-- … stably: members carrying the same label keep their relative order, in both directions -/
theorem sort_stable (lab : Nat → String) (rev : Bool) (k : String) (l : List Nat) :
    (sortBy lab rev l).filter (fun t => lab t == k) = l.filter (fun t => lab t == k) :=
  sortBy_stable lab rev k l

/-- `sort` (unless `list.sort` refuses it: two or more members, one without a label — see `sort_refused_spec`) / `reverse` as
operations touch the member list only: index maps, memo, counter and flags are unchanged -/
theorem sort_ops_spec (w : World) (n : Nat) (s : NS) (hs : w.nss[n]? = some s) (rev : Bool) :
    (sortRefused w.lab s.taxa = false →
      step w (.sort n rev) = (w.setNs n { s with taxa := sortBy w.lab rev s.taxa }, .ok)) ∧
    step w (.rev n) = (w.setNs n { s with taxa := s.taxa.reverse }, .ok) := by
  constructor
  · intro h; rw [step_ns (n := n) rfl rfl, hs]; simp [stepNs, h]
  · rw [step_ns (n := n) rfl rfl, hs]; simp [stepNs]

example : sortBy (fun t => ["b", "a", "b", "a"].getD t "") true [0, 1, 2, 3] = [0, 2, 1, 3] := by decide

/-! ### history-level forms -/

/-- a taxon that stays a member of namespace `n` throughout a history keeps its bit over the whole history -/
theorem bit_stable_history (ops : List Op) (w : World) (hw : WInv w) (n t : Nat)
    (hmem : ∀ k, k ≤ ops.length → ∃ s, (exec w (ops.take k)).nss[n]? = some s ∧ t ∈ s.taxa)
    (s s' : NS) (hs : w.nss[n]? = some s) (hs' : (exec w ops).nss[n]? = some s') :
    s'.t2a.get t = s.t2a.get t := by
  induction ops generalizing w s with
  | nil => simp only [exec] at hs'; rw [hs] at hs'; cases hs'; rfl
  | cons op ops ih =>
    obtain ⟨s0, h0, m0⟩ := hmem 0 (Nat.zero_le _)
    simp only [List.take_zero, exec] at h0
    rw [hs] at h0; cases h0
    obtain ⟨s1, h1, m1⟩ := hmem 1 (by simp)
    simp only [List.take_succ_cons, List.take_zero, exec] at h1
    have hstep := bit_stable w op n s s1 hw hs h1 t m0 m1
    simp only [exec] at hs'
    rw [← hstep]
    refine ih (step w op).1 (winv_step hw op) ?_ s1 h1 hs'
    intro k hk
    have := hmem (k + 1) (by simp; omega)
    simpa only [List.take_succ_cons, exec] using this

/-- the counter never decreases over a history -/
theorem counter_monotone_history (ops : List Op) (w : World) (n : Nat) (s s' : NS) (hs : w.nss[n]? = some s)
    (hs' : (exec w ops).nss[n]? = some s') : s.count ≤ s'.count := by
  induction ops generalizing w s with
  | nil => simp only [exec] at hs'; rw [hs] at hs'; cases hs'; exact Nat.le_refl _
  | cons op ops ih =>
    obtain ⟨s1, h1, r⟩ := step_rel w op n s hs
    simp only [exec] at hs'
    exact Nat.le_trans (rel_count r) (ih (step w op).1 s1 h1 hs')

example : ∃ s', (exec World.init [.mkns false [.lab "A", .lab "B", .lab "C"], .rm 0 0, .sort 0 true, .new 0 "D", .deep 0]).nss[0]? = some s' ∧
    s'.t2a.get 1 = some 1 ∧ s'.taxa = [2, 1, 3] := by
  refine ⟨_, rfl, by decide, by decide⟩

/-! ## (b) taxa → bitmask → taxa, and the renderings -/

/-- for every list `S` of members: `taxa_bitmask(taxa=S)` succeeds with a mask whose set bits are exactly the bits of
the taxa in `S`, and `bitmask_taxa_list` of that mask succeeds and returns exactly the taxa of `S` -/
theorem mask_roundtrip (s : NS) (hi : Inv s) (S : List Nat) (hS : ∀ t ∈ S, t ∈ s.taxa) :
    ∃ s' m L, s.taxaBitmask S 0 = (s', .ok m) ∧ btl s'.a2t m 0 = .ok L ∧ (∀ t, t ∈ L ↔ t ∈ S) ∧
      (∀ i, m.testBit i = true ↔ ∃ t ∈ S, s.t2a.get t = some i) := by
  obtain ⟨s', m, e, _, _, _, g3, g4⟩ := taxaBitmask_spec S s 0 hi hS
  have g4' : ∀ i, m.testBit i = true ↔ ∃ t ∈ S, s.t2a.get t = some i := by
    intro i; rw [g4 i]; simp
  have hall : ∀ i, m.testBit i = true → ∃ t, s'.a2t.get (0 + i) = some t := by
    intro i h
    obtain ⟨t, _, ht⟩ := (g4' i).1 h
    exact ⟨t, by rw [g3, Nat.zero_add]; exact (hi.inverse t i).1 ht⟩
  obtain ⟨L, eL, hL⟩ := btl_spec s'.a2t m 0 hall
  refine ⟨s', m, L, e, eL, ?_, g4'⟩
  intro t
  rw [hL t]
  constructor
  · rintro ⟨i, hb, hg⟩
    obtain ⟨t', ht', hi'⟩ := (g4' i).1 hb
    rw [g3, Nat.zero_add] at hg
    have := (hi.inverse t' i).1 hi'
    rw [this] at hg; cases hg; exact ht'
  · intro ht
    obtain ⟨i, hti⟩ := Option.isSome_iff_exists.1 ((hi.dom t).1 (hS t ht))
    exact ⟨i, (g4' i).2 ⟨t, ht, hti⟩, by rw [g3, Nat.zero_add]; exact (hi.inverse t i).1 hti⟩

/-- the round trip, exactly: the list `bitmask_taxa_list` returns holds the taxa of `S`, each once, in ascending order
of their bits (so a repeat in `S` does not come back twice) -/
theorem mask_roundtrip_exact (s : NS) (hi : Inv s) (S : List Nat) (hS : ∀ t ∈ S, t ∈ s.taxa) :
    ∃ s' m L, s.taxaBitmask S 0 = (s', .ok m) ∧ btl s'.a2t m 0 = .ok L ∧ (∀ t, t ∈ L ↔ t ∈ S) ∧ L.Nodup ∧
      L.Pairwise (fun a b => ∃ i j, s.t2a.get a = some i ∧ s.t2a.get b = some j ∧ i < j) := by
  obtain ⟨s', m, e, _, _, _, g3, _⟩ := taxaBitmask_spec S s 0 hi hS
  obtain ⟨s'', m', L, e', eL, hL, _⟩ := mask_roundtrip s hi S hS
  rw [e] at e'; cases e'
  obtain ⟨p, _⟩ := btl_sorted s'.a2t m 0 L eL
  have hp : L.Pairwise (fun a b => ∃ i j, s.t2a.get a = some i ∧ s.t2a.get b = some j ∧ i < j) := by
    refine p.imp ?_
    rintro a b ⟨i, j, hij, ha, hb⟩
    rw [g3, Nat.zero_add] at ha hb
    exact ⟨i, j, (hi.inverse a i).2 ha, (hi.inverse b j).2 hb, hij⟩
  refine ⟨s', m, L, e, eL, hL, ?_, hp⟩
  refine hp.imp ?_
  rintro a b ⟨i, j, ha, hb, hij⟩ e
  subst e; rw [ha] at hb; cases hb; omega

/-- a state the driver produces (A,B,C,D; A removed; sorted descending): the list `[3, 1, 3]` has members only -/
example : ∃ s, (exec World.init [.mkns false [.lab "A", .lab "B", .lab "C", .lab "D"], .rm 0 0, .sort 0 true]).nss[0]? = some s ∧
    s.taxa = [3, 2, 1] ∧ ∀ t ∈ [3, 1, 3], t ∈ s.taxa := ⟨_, rfl, by decide, by decide⟩

/-- the (repaired) Newick rendering of the mask of a list `S` of members: unless the mask is 0 or the all-taxa mask
(flat list of all labels), the left group holds exactly the labels of the members in `S` and the right group the
labels of the other members, both in membership order -/
theorem newick_spec (s : NS) (hi : Inv s) (lab : Nat → String) (S : List Nat) (hS : ∀ t ∈ S, t ∈ s.taxa) (m : Nat)
    (hm : (s.taxaBitmask S 0).2 = .ok m) (ps qu : Bool) :
    (s.newick lab m ps qu).2 = .ok (
      if m = 0 ∨ m = s.allMask then .flat (s.taxa.map (fun t => escapeToken ps qu (lab t)))
      else .sides ((s.taxa.filter (fun t => S.contains t)).map (fun t => escapeToken ps qu (lab t)))
                  ((s.taxa.filter (fun t => !S.contains t)).map (fun t => escapeToken ps qu (lab t)))) := by
  obtain ⟨s', m', e, _, _, _, _, g4⟩ := taxaBitmask_spec S s 0 hi hS
  rw [e] at hm; cases hm
  unfold NS.newick
  simp only
  by_cases hf : m = 0 ∨ m = s.allMask
  · rw [if_pos hf, if_pos hf]
  · rw [if_neg hf, if_neg hf]
    have hz : ∀ p ∈ s.taxa.zip (s.taxa.map fun t => escapeToken ps qu (lab t)), p.1 ∈ s.taxa := by
      intro p hp; exact (List.of_mem_zip hp).1
    rw [nwkLoop_spec m _ s [] [] hi hz, zip_map_self]
    have hside : ∀ t ∈ s.taxa, onSide s m t = S.contains t := by
      intro t ht
      obtain ⟨i, hti⟩ := Option.isSome_iff_exists.1 ((hi.dom t).1 ht)
      simp only [onSide, hti]
      rw [Bool.eq_iff_iff, g4 i]
      simp only [Nat.zero_testBit, Bool.false_eq_true, false_or, List.contains_iff_mem]
      constructor
      · rintro ⟨t', ht', h⟩; rw [inv_injective hi hti h]; exact ht'
      · intro h; exact ⟨t, h, hti⟩
    have h1 : s.taxa.filter (fun t => onSide s m t) = s.taxa.filter (fun t => S.contains t) :=
      List.filter_congr hside
    have h2 : s.taxa.filter (fun t => !onSide s m t) = s.taxa.filter (fun t => !S.contains t) :=
      List.filter_congr (fun t ht => by rw [hside t ht])
    simp [List.filter_map, Function.comp_def, h1, h2]

/-- the rendering of an *arbitrary* mask (bits of removed taxa or beyond the counter included): a member is on the left
exactly when its own bit is set in the mask; bits that belong to no member name nothing -/
theorem newick_any_mask (s : NS) (hi : Inv s) (lab : Nat → String) (m : Nat) (ps qu : Bool) :
    (s.newick lab m ps qu).2 = .ok (
      if m = 0 ∨ m = s.allMask then .flat (s.taxa.map (fun t => escapeToken ps qu (lab t)))
      else .sides ((s.taxa.filter (fun t => onSide s m t)).map (fun t => escapeToken ps qu (lab t)))
                  ((s.taxa.filter (fun t => !onSide s m t)).map (fun t => escapeToken ps qu (lab t)))) :=
  newick_any s hi lab m ps qu

/-- the text the operation returns (what the driver prints and the harness compares): the two groups, each joined
by `", "`, inside `((` … `), (` … `));` — or all labels joined by `","` inside `(` … `);` for the two trivial masks.
Labels appear as NEXUS tokens (`escapeToken`), so taxa are named up to NEXUS token equivalence: e.g. without quoting of
underscores the labels `c d` and `c_d` are both written `c_d`. -/
theorem nwk_op_text (w : World) (hw : WInv w) (n : Nat) (s : NS) (hs : w.nss[n]? = some s) (m : Nat) (ps qu : Bool) :
    (step w (.nwk n m ps qu)).2 = .str (
      if m = 0 ∨ m = s.allMask then
        "(" ++ ",".intercalate (s.taxa.map (fun t => escapeToken ps qu (w.lab t))) ++ ");"
      else
        "((" ++ ", ".intercalate ((s.taxa.filter (fun t => onSide s m t)).map (fun t => escapeToken ps qu (w.lab t))) ++
        "), (" ++ ", ".intercalate ((s.taxa.filter (fun t => !onSide s m t)).map (fun t => escapeToken ps qu (w.lab t))) ++
        "));") := by
  have hi := hw.ns s (List.mem_of_getElem? hs)
  have key := newick_any s hi w.lab m ps qu
  rw [step_ns (n := n) rfl rfl, hs]
  simp only [stepNs]
  rcases hn : s.newick w.lab m ps qu with ⟨s', r⟩
  rw [hn] at key
  simp only at key
  subst key
  by_cases hf : m = 0 ∨ m = s.allMask
  · simp [exceptOut, hf, Rendering.text]
  · simp [exceptOut, hf, Rendering.text]

/-- a dead bit names nobody: namespace A,B,C with A removed, mask = the bit of A -/
example : (step (exec World.init [.mkns false [.lab "A", .lab "B", .lab "C"], .rm 0 0]) (.nwk 0 1 false true)).2
    matches .str "((), (B, C));" := by decide

/-! ### which labels can share a NEXUS token -/

/-- two labels with the same token agree once blanks and tabs are written as underscores (an unquoted NEXUS token
cannot tell `c d` from `c_d`) -/
theorem token_equivalence (ps qu : Bool) (a b : String) (h : escapeToken ps qu a = escapeToken ps qu b) :
    a.toList.map blankToUs = b.toList.map blankToUs :=
  escL_eq_imp ps qu _ _ ((escapeToken_eq_iff ps qu a b).1 h)

/-- with `preserve_spaces=True` or `quote_underscores=True` (the default) the token determines the label -/
theorem token_injective (ps qu : Bool) (hpq : ps = true ∨ qu = true) (a b : String)
    (h : escapeToken ps qu a = escapeToken ps qu b) : a = b :=
  String.toList_inj.1 (escL_inj ps qu hpq _ _ ((escapeToken_eq_iff ps qu a b).1 h))

/-- whatever the flags, labels without blanks and tabs never share a token -/
theorem token_injective_no_blank (ps qu : Bool) (a b : String) (ha : ' ' ∉ a.toList ∧ '\t' ∉ a.toList)
    (hb : ' ' ∉ b.toList ∧ '\t' ∉ b.toList) (h : escapeToken ps qu a = escapeToken ps qu b) : a = b := by
  have := token_equivalence ps qu a b h
  rw [map_blank_id ha.1 ha.2, map_blank_id hb.1 hb.2] at this
  exact String.toList_inj.1 this

/-- the clash is real: without quoting of underscores `c d` and `c_d` are written alike -/
example : escapeToken false false "c d" = escapeToken false false "c_d" ∧ escapeToken false true "c d" ≠ escapeToken false true "c_d" := by
  decide

/-- so, with `preserve_spaces` or `quote_underscores`, the rendering of the mask of a member list `S` names exactly the
taxa of `S`: the only label lists whose tokens are the two groups are the labels of `S` and of the other members -/
theorem newick_names_exactly (s : NS) (hi : Inv s) (lab : Nat → String) (S : List Nat) (hS : ∀ t ∈ S, t ∈ s.taxa) (m : Nat)
    (hm : (s.taxaBitmask S 0).2 = .ok m) (ps qu : Bool) (hpq : ps = true ∨ qu = true) (hne : ¬ (m = 0 ∨ m = s.allMask))
    (L R : List String)
    (h : (s.newick lab m ps qu).2 = .ok (.sides (L.map (escapeToken ps qu)) (R.map (escapeToken ps qu)))) :
    L = (s.taxa.filter (fun t => S.contains t)).map lab ∧ R = (s.taxa.filter (fun t => !S.contains t)).map lab := by
  have inj : ∀ (l1 l2 : List String), l1.map (escapeToken ps qu) = l2.map (escapeToken ps qu) → l1 = l2 := by
    intro l1
    induction l1 with
    | nil => intro l2 h; cases l2 with
      | nil => rfl
      | cons _ _ => simp at h
    | cons x xs ih =>
      intro l2 h
      cases l2 with
      | nil => simp at h
      | cons y ys =>
        simp only [List.map_cons, List.cons.injEq] at h
        rw [token_injective ps qu hpq x y h.1, ih ys h.2]
  rw [newick_spec s hi lab S hS m hm ps qu, if_neg hne] at h
  have h' := Except.ok.inj h
  simp only [Rendering.sides.injEq] at h'
  constructor
  · apply inj; rw [← h'.1]; simp [Function.comp_def]
  · apply inj; rw [← h'.2]; simp [Function.comp_def]

/-! ### the printed string determines the groups -/

/-- the printed two-group rendering determines its token lists: two renderings built from well-formed tokens (the tokens
of non-empty labels, `Tok`: quoted with doubled inner quotes, or a non-empty run without quote, comma and closing
parenthesis) are the same string only if the groups are the same token lists.  (Proved through a local tokenizer,
`lexTok`, that reads back exactly the token that was printed.) -/
theorem text_determines_tokens (l r l' r' : List String) (hl : ∀ t ∈ l, Tok t.toList) (hr : ∀ t ∈ r, Tok t.toList)
    (hl' : ∀ t ∈ l', Tok t.toList) (hr' : ∀ t ∈ r', Tok t.toList)
    (h : Rendering.text (.sides l r) = Rendering.text (.sides l' r')) : l = l' ∧ r = r' := by
  have h' := congrArg String.toList h
  rw [text_toList, text_toList] at h'
  have lift : ∀ (x : List String), (∀ t ∈ x, Tok t.toList) → ∀ t ∈ x.map String.toList, Tok t := by
    intro x hx t ht
    obtain ⟨y, hy, rfl⟩ := List.mem_map.1 ht
    exact hx y hy
  obtain ⟨e1, e2⟩ := sidesText_inj _ _ _ _ (lift l hl) (lift r hr) (lift l' hl') (lift r' hr') h'
  have inj : ∀ (a b : List String), a.map String.toList = b.map String.toList → a = b := by
    intro a
    induction a with
    | nil => intro b h; cases b with
      | nil => rfl
      | cons _ _ => simp at h
    | cons x xs ih =>
      intro b h
      cases b with
      | nil => simp at h
      | cons y ys =>
        simp only [List.map_cons, List.cons.injEq] at h
        rw [String.toList_inj.1 h.1, ih ys h.2]
  exact ⟨inj _ _ e1, inj _ _ e2⟩

/-- the same for the flat rendering of the two trivial masks (separator `,`) -/
theorem text_determines_tokens_flat (l l' : List String) (hl : ∀ t ∈ l, Tok t.toList) (hl' : ∀ t ∈ l', Tok t.toList)
    (h : Rendering.text (.flat l) = Rendering.text (.flat l')) : l = l' := by
  have h' := congrArg String.toList h
  simp only [Rendering.text, String.toList_append, String.toList_intercalate, intercalate_eq] at h'
  have h2 : renderItems [','] (l.map String.toList) ++ ')' :: [';'] = renderItems [','] (l'.map String.toList) ++ ')' :: [';'] := by
    simpa using h'
  have lift : ∀ (x : List String), (∀ t ∈ x, Tok t.toList) → ∀ t ∈ x.map String.toList, Tok t := by
    intro x hx t ht
    obtain ⟨y, hy, rfl⟩ := List.mem_map.1 ht
    exact hx y hy
  obtain ⟨e1, _⟩ := renderItems_inj [] _ _ _ _ (lift l hl) (lift l' hl') h2
  have inj : ∀ (a b : List String), a.map String.toList = b.map String.toList → a = b := by
    intro a
    induction a with
    | nil => intro b h; cases b with
      | nil => rfl
      | cons _ _ => simp at h
    | cons x xs ih =>
      intro b h
      cases b with
      | nil => simp at h
      | cons y ys =>
        simp only [List.map_cons, List.cons.injEq] at h
        rw [String.toList_inj.1 h.1, ih ys h.2]
  exact inj _ _ e1

/-- the token of a non-empty label is well-formed -/
theorem token_wellformed (ps qu : Bool) (l : String) (hne : l ≠ "") : Tok (escapeToken ps qu l).toList := by
  rw [escapeToken_eq, String.toList_ofList]
  exact escL_tok ps qu _ (toList_ne_nil hne)

/-- text level: with `preserve_spaces` or `quote_underscores`, for non-empty labels, the *string* the operation returns
for the mask of a member list `S` names exactly the taxa of `S` — the only non-empty label lists `L`, `R` whose
rendering is that string are the labels of the members in `S` and of the other members (in membership order) -/
theorem nwk_text_names_exactly (w : World) (hw : WInv w) (n : Nat) (s : NS) (hs : w.nss[n]? = some s) (S : List Nat)
    (hS : ∀ t ∈ S, t ∈ s.taxa) (m : Nat) (hm : (s.taxaBitmask S 0).2 = .ok m) (ps qu : Bool) (hpq : ps = true ∨ qu = true)
    (hne : ¬ (m = 0 ∨ m = s.allMask)) (hlab : ∀ t ∈ s.taxa, w.lab t ≠ "") (L R : List String)
    (hL : ∀ x ∈ L, x ≠ "") (hR : ∀ x ∈ R, x ≠ "")
    (h : (step w (.nwk n m ps qu)).2 =
      .str (Rendering.text (.sides (L.map (escapeToken ps qu)) (R.map (escapeToken ps qu))))) :
    L = (s.taxa.filter (fun t => S.contains t)).map w.lab ∧ R = (s.taxa.filter (fun t => !S.contains t)).map w.lab := by
  have hi := hw.ns s (List.mem_of_getElem? hs)
  have key := newick_spec s hi w.lab S hS m hm ps qu
  rw [if_neg hne] at key
  have hstep : (step w (.nwk n m ps qu)).2 = .str (Rendering.text (.sides
      ((s.taxa.filter (fun t => S.contains t)).map (fun t => escapeToken ps qu (w.lab t)))
      ((s.taxa.filter (fun t => !S.contains t)).map (fun t => escapeToken ps qu (w.lab t))))) := by
    rw [step_ns (n := n) rfl rfl, hs]
    simp only [stepNs]
    rcases hn : s.newick w.lab m ps qu with ⟨s', r⟩
    rw [hn] at key; simp only at key; subst key
    simp [exceptOut]
  rw [hstep] at h
  have htxt := Out.str.inj h
  have tokmap : ∀ (X : List String), (∀ x ∈ X, x ≠ "") → ∀ t ∈ X.map (escapeToken ps qu), Tok t.toList := by
    intro X hX t ht
    obtain ⟨x, hx, rfl⟩ := List.mem_map.1 ht
    exact token_wellformed ps qu x (hX x hx)
  have tokmem : ∀ (p : Nat → Bool), ∀ t ∈ (s.taxa.filter p).map (fun t => escapeToken ps qu (w.lab t)), Tok t.toList := by
    intro p t ht
    obtain ⟨x, hx, rfl⟩ := List.mem_map.1 ht
    exact token_wellformed ps qu _ (hlab x (List.mem_filter.1 hx).1)
  obtain ⟨e1, e2⟩ := text_determines_tokens _ _ _ _ (tokmem _) (tokmem _) (tokmap L hL) (tokmap R hR) htxt
  have inj : ∀ (l1 l2 : List String), l1.map (escapeToken ps qu) = l2.map (escapeToken ps qu) → l1 = l2 := by
    intro l1
    induction l1 with
    | nil => intro l2 h; cases l2 with
      | nil => rfl
      | cons _ _ => simp at h
    | cons x xs ih =>
      intro l2 h
      cases l2 with
      | nil => simp at h
      | cons y ys =>
        simp only [List.map_cons, List.cons.injEq] at h
        rw [token_injective ps qu hpq x y h.1, ih ys h.2]
  constructor
  · apply inj; rw [← e1]; simp [Function.comp_def]
  · apply inj; rw [← e2]; simp [Function.comp_def]

/-- non-vacuity at the level below the string parser: the tokens of `B` and of `x'y, z` are well-formed, and a state the
driver produces satisfies the hypotheses (A,B,C,D with A removed; mask of B; non-empty labels) -/
example : Tok ['B'] ∧ Tok ('\'' :: (['x', '\'', 'y', ',', ' ', 'z'].flatMap dbl ++ ['\''])) :=
  ⟨.bare _ (by simp) (by decide), .quoted _⟩
example : ∃ s, (exec World.init [.mkns false [.lab "A", .lab "B", .lab "C", .lab "D"], .rm 0 0]).nss[0]? = some s ∧
    (∀ t ∈ [1], t ∈ s.taxa) ∧ ¬ ((2 : Nat) = 0 ∨ 2 = s.allMask) ∧
    ∀ t ∈ s.taxa, (exec World.init [.mkns false [.lab "A", .lab "B", .lab "C", .lab "D"], .rm 0 0]).lab t ≠ "" :=
  ⟨_, rfl, by decide, by decide, by decide⟩

/-- `bitmask_as_bitstring`: read from the right, character `i` is `'1'` exactly when bit `i` of the mask is set (so,
by `mask_roundtrip`, exactly at the bits of the taxa the mask was built from); the string is at least as long as the
accession counter, so every member has a position -/
theorem bitstring_spec (s : NS) (b : Nat) :
    (∀ i, (s.bitstring b).reverse[i]? = some '1' ↔ b.testBit i = true) ∧ s.count ≤ (s.bitstring b).length := by
  refine ⟨bitstring_spec' s b, ?_⟩
  simp [NS.bitstring]; omega

/-! ## (c) label lookups -/

/-- the scan of `_lookup_label` returns exactly the members whose label matches under the effective case setting,
in membership order; with `first_match_only` the first of them -/
theorem lookup_spec (s : NS) (lab : Nat → String) (c : Option Bool) (l : String) :
    s.lookupAll lab c l = s.taxa.filter (labelMatches lab (s.effCs c) l) ∧
    s.lookupFirst lab c l = s.taxa.find? (labelMatches lab (s.effCs c) l) := by
  constructor
  · simp [NS.lookupAll, scanAll_eq]
  · simp [NS.lookupFirst, scanFirst_eq]

/-- what "matches" means: equality of the labels, or of their lower-cased forms when the effective setting is
case-insensitive.  "Lower-cased" is the model's `pyLower`: `str.lower` on all of Unicode over the tables regenerated from the
running interpreter (`Gen/C10Lower.lean`), Final_Sigma rule and `İ` included; that it equals CPython's `str.lower` is not
proved but tested, on every label the generators produce (ASCII, Latin-1, Greek with final sigma, dotted/dotless i, titlecase
digraphs, Cyrillic, CJK, combining marks), through the driver op `lower`. -/
theorem labelMatches_iff (lab : Nat → String) (cs : Bool) (l : String) (t : Nat) :
    labelMatches lab cs l t = true ↔ (if cs = true then l = lab t else pyLower l = pyLower (lab t)) := by
  unfold labelMatches labelMatchesO; cases cs <;> simp [pyStr]

/-- taxa without a label (`Taxon()`, label `None`) at the level of the comparison kernel: an unlabelled member matches no query
string, under either case setting (in particular not `"none"`); the query `None` matches case-sensitively exactly the unlabelled
members and case-insensitively the members whose label folds like `"None"`; on labelled taxa and string queries the kernel is the
machine's `labelMatches`; and an unlabelled taxon is rendered as the empty token -/
theorem unlabelled_spec (lab : Nat → String) (cs : Bool) (q : String) (tl : Option String) (l : String) (t : Nat) (ps qu : Bool) :
    labelMatchesO cs (some q) none = false ∧
    labelMatchesO true none tl = tl.isNone ∧
    labelMatchesO false none (some l) = (pyLower "None" == pyLower l) ∧
    labelMatchesO false none none = false ∧
    labelMatchesO cs (some q) (some (lab t)) = labelMatches lab cs q t ∧
    escapeTokenO ps qu none = "" ∧ escapeTokenO ps qu (some l) = escapeToken ps qu l := by
  refine ⟨?_, ?_, rfl, rfl, rfl, rfl, rfl⟩
  · cases cs <;> simp [labelMatchesO]
  · cases tl <;> simp [labelMatchesO]

set_option maxRecDepth 100000 in
example : labelMatchesO false none (some "NONE") = true ∧ labelMatchesO false (some "none") none = false ∧
    labelMatchesO true none none = true := by decide

/-! ### the case folding -/

/-- on ASCII / Latin-1 the case folding is the closed form: `A`–`Z`, `À`–`Þ` (without `×`) ↦ +32, every other character
stays; for labels over that repertoire it acts character by character, keeps the label in the repertoire and is idempotent (so
"same lower-cased form" is an equivalence on such labels).  `None` labels do not exist in the model. -/
theorem case_folding_latin1 :
    (∀ n : Fin 256, lowerCp n.val =
      [if (65 ≤ n.val ∧ n.val ≤ 90) ∨ (192 ≤ n.val ∧ n.val ≤ 222 ∧ n.val ≠ 215) then n.val + 32 else n.val]) ∧
    (∀ l : String, InScope l → (pyLower l).toList = l.toList.map latin1Lower) ∧
    (∀ l : String, InScope l → InScope (pyLower l)) ∧
    (∀ l : String, InScope l → pyLower (pyLower l) = pyLower l) :=
  ⟨lowerCp_latin1_table, pyLower_toList_latin1, inScope_pyLower, pyLower_idem_latin1⟩

/-- beyond Latin-1 the folding is the interpreter's: ranges with an offset, the one character that lowers to two (`İ`), and the
one context rule — a capital sigma becomes `ς` exactly when a cased letter precedes it and none follows (case-ignorable
characters such as the apostrophe skipped on both sides) -/
theorem case_folding_wide (pre post : List Nat) :
    lowerGo pre (C10Lower.capitalSigma :: post) =
      (if wordEdgeCased pre && !wordEdgeCased post then C10Lower.finalSigma else C10Lower.smallSigma)
        :: lowerGo (C10Lower.capitalSigma :: pre) post := by
  simp [lowerGo, sigmaFinal]

set_option maxRecDepth 100000 in
example : pyLower "ΑΣ" = "ας" ∧ pyLower "ΣΑ" = "σα" ∧ pyLower "Σ" = "σ" ∧ pyLower "aΣ'b" = "aσ'b" ∧ pyLower "İ" = "i̇" ∧
    pyLower "ǅ" = "ǆ" ∧ pyLower "Я中" = "я中" := by decide

/-- for labels over ASCII / Latin-1, a case-insensitive match is exactly equality of the character-wise folded labels -/
theorem in_scope_match (lab : Nat → String) (l : String) (t : Nat) (hl : InScope l) (ht : InScope (lab t)) :
    labelMatches lab false l t = true ↔ l.toList.map latin1Lower = (lab t).toList.map latin1Lower := by
  rw [labelMatches_iff]
  simp only [Bool.false_eq_true, if_false]
  rw [← String.toList_inj, pyLower_toList_latin1 l hl, pyLower_toList_latin1 _ ht]

example : InScope "Éa×" ∧ pyLower "ÉA×" = "éa×" := by
  refine ⟨by unfold InScope; decide, by decide⟩

/-- `get_taxa`: with `first_match_only`, the first match of each label that has one, in label order (repeats kept);
otherwise every member matching some label, each once, ordered by first matching label and then by membership -/
theorem get_taxa_spec (s : NS) (lab : Nat → String) (c : Option Bool) (ls : List String) :
    s.getTaxa lab c true ls [] = ls.filterMap (fun l => s.taxa.find? (labelMatches lab (s.effCs c) l)) ∧
    s.getTaxa lab c false ls [] =
      (ls.flatMap (fun l => s.taxa.filter (labelMatches lab (s.effCs c) l))).foldl
        (fun a t => if a.contains t then a else a ++ [t]) [] ∧
    (s.getTaxa lab c false ls []).Nodup ∧
    (∀ t, t ∈ s.getTaxa lab c false ls [] ↔ t ∈ s.taxa ∧ ∃ l ∈ ls, labelMatches lab (s.effCs c) l t = true) := by
  have h1 : ∀ l, s.lookupFirst lab c l = s.taxa.find? (labelMatches lab (s.effCs c) l) := fun l => (lookup_spec s lab c l).2
  have h2 : ∀ l, s.lookupAll lab c l = s.taxa.filter (labelMatches lab (s.effCs c) l) := fun l => (lookup_spec s lab c l).1
  refine ⟨?_, ?_, ?_, ?_⟩
  · rw [getTaxa_first]; simp [h1]
  · rw [getTaxa_all]; simp [h2]
  · rw [getTaxa_all]; exact nodup_foldl_dedup _ _ List.nodup_nil
  · intro t
    rw [getTaxa_all, mem_foldl_dedup]
    simp only [List.not_mem_nil, false_or, List.mem_flatMap, h2, List.mem_filter]
    constructor
    · rintro ⟨l, hl, ht, hm⟩; exact ⟨ht, l, hl, hm⟩
    · rintro ⟨ht, l, hl, hm⟩; exact ⟨l, hl, ht, hm⟩

/-- `get_taxa` / `has_taxa_labels` as operations: that answer, and no change of the world -/
theorem get_taxa_ops_spec (w : World) (n : Nat) (s : NS) (hs : w.nss[n]? = some s) (c : Option Bool) (first : Bool)
    (ls : List String) :
    step w (.gets n c first ls) = (w, .ids (s.getTaxa w.lab c first ls [])) ∧
    step w (.hasAll n c ls) = (w, .bool (ls.all (fun l => s.taxa.any (labelMatches w.lab (s.effCs c) l)))) := by
  constructor
  · rw [step_ns (n := n) rfl rfl, hs]; simp [stepNs]
  · rw [step_ns (n := n) rfl rfl, hs]; simp [stepNs, hasTaxaLabels_eq]

example : (NS.getTaxa ⟨[0, 1, 2], [], [], [], 3, true, false⟩ (fun t => ["a", "B", "A"].getD t "") none false ["A", "b", "a"] [])
    = [0, 2, 1] := by decide

/-- `taxa_bitmask(labels=…)`: succeeds, and the set bits of the result are exactly the bits of the members that match
one of the labels -/
theorem labels_mask_spec (w : World) (hw : WInv w) (n : Nat) (s : NS) (hs : w.nss[n]? = some s) (c : Option Bool)
    (ls : List String) :
    ∃ s' m, step w (.lbm n c ls) = (w.setNs n s', .nat m) ∧
      ∀ i, m.testBit i = true ↔
        ∃ t ∈ s.taxa, (∃ l ∈ ls, labelMatches w.lab (s.effCs c) l t = true) ∧ s.t2a.get t = some i := by
  have hi := hw.ns s (List.mem_of_getElem? hs)
  have hspec := (get_taxa_spec s w.lab c ls).2.2.2
  obtain ⟨s', m, L, e, _, _, hm⟩ := mask_roundtrip s hi (s.getTaxa w.lab c false ls []) (fun t ht => ((hspec t).1 ht).1)
  refine ⟨s', m, ?_, ?_⟩
  · rw [step_ns (n := n) rfl rfl, hs]; simp [stepNs, e, exceptOut]
  · intro i
    rw [hm i]
    constructor
    · rintro ⟨t, ht, hti⟩; exact ⟨t, ((hspec t).1 ht).1, ((hspec t).1 ht).2, hti⟩
    · rintro ⟨t, ht, hl, hti⟩; exact ⟨t, (hspec t).2 ⟨ht, hl⟩, hti⟩

/-- `discard_taxon_label` / `remove_taxon_label` (all matches): exactly the matching members leave, the others keep
their order and their bits; `remove_taxon_label` without a match is a `LookupError` and changes nothing -/
theorem remove_label_spec (w : World) (hw : WInv w) (n : Nat) (s : NS) (hs : w.nss[n]? = some s) (c : Option Bool)
    (l : String) :
    (∃ s', step w (.dl n c l) = (w.setNs n s', .ok) ∧
      s'.taxa = s.taxa.filter (fun t => !labelMatches w.lab (s.effCs c) l t) ∧
      ∀ t ∈ s'.taxa, s'.t2a.get t = s.t2a.get t) ∧
    (s.taxa.filter (labelMatches w.lab (s.effCs c) l) = [] → step w (.rml n c l) = (w, .err .lookupError)) ∧
    (s.taxa.filter (labelMatches w.lab (s.effCs c) l) ≠ [] →
      (step w (.rml n c l)).1 = (step w (.dl n c l)).1 ∧ (step w (.rml n c l)).2 = .ok) := by
  have hi := hw.ns s (List.mem_of_getElem? hs)
  have hl := (lookup_spec s w.lab c l).1
  have hmem : ∀ t ∈ s.taxa.filter (labelMatches w.lab (s.effCs c) l), t ∈ s.taxa := fun t ht => (List.mem_filter.1 ht).1
  have hnd : (s.taxa.filter (labelMatches w.lab (s.effCs c) l)).Nodup := hi.nodup.sublist List.filter_sublist
  obtain ⟨hnone, htaxa⟩ := removeAll_taxa _ s hmem hnd
  have hrel := removeAll_rel (c := ⟨false, false, 0⟩) rfl (s.taxa.filter (labelMatches w.lab (s.effCs c) l)) s
  rcases hra : s.removeAll (s.taxa.filter (labelMatches w.lab (s.effCs c) l)) with ⟨s', r⟩
  rw [hra] at hnone htaxa hrel
  simp only at hnone htaxa hrel
  subst hnone
  have hdl : step w (.dl n c l) = (w.setNs n s', .ok) := by
    rw [step_ns (n := n) rfl rfl, hs]; simp [stepNs, hl, hra]
  refine ⟨⟨s', hdl, ?_, ?_⟩, ?_, ?_⟩
  · rw [htaxa]
    apply List.filter_congr
    intro t _
    cases hm : labelMatches w.lab (s.effCs c) l t with
    | true =>
      have : t ∈ s.taxa.filter (labelMatches w.lab (s.effCs c) l) := List.mem_filter.2 ⟨‹_›, hm⟩
      simp [this]
    | false =>
      have : t ∉ s.taxa.filter (labelMatches w.lab (s.effCs c) l) := fun h => by
        have := (List.mem_filter.1 h).2; rw [hm] at this; cases this
      simp [this]
  · intro t ht
    have hi' := rel_inv hrel hi
    obtain ⟨i', hti'⟩ := Option.isSome_iff_exists.1 ((hi'.dom t).1 ht)
    rw [hti', rel_shrink hrel rfl hti']
  · intro he
    rw [step_ns (n := n) rfl rfl, hs]; simp [stepNs, hl, he]
  · intro hne
    rw [hdl]
    rw [step_ns (n := n) rfl rfl, hs]
    cases hf : s.taxa.filter (labelMatches w.lab (s.effCs c) l) with
    | nil => exact absurd hf hne
    | cons x xs =>
      rw [hf] at hra
      simp [stepNs, hl, hf, hra]

/-- `remove_taxon_label` / `discard_taxon_label` with `first_match_only=True`.  Without a match: `LookupError`
resp. nothing, and no change.  With a match the code as it is (`fixed = false`) refuses with `TypeError` and changes
nothing; the documented behaviour (`fixed = true`) is exactly `remove_taxon` of the first match in membership order —
so by `rm_spec` only that taxon leaves and every other member keeps its position and bit. -/
theorem remove_first_spec (w : World) (n : Nat) (s : NS) (hs : w.nss[n]? = some s) (c : Option Bool) (l : String)
    (fixed : Bool) :
    (s.taxa.find? (labelMatches w.lab (s.effCs c) l) = none →
      step w (.rmlf n c l fixed) = (w, .err .lookupError) ∧ step w (.dlf n c l fixed) = (w, .ok)) ∧
    (∀ t, s.taxa.find? (labelMatches w.lab (s.effCs c) l) = some t →
      step w (.rmlf n c l false) = (w, .err .typeError) ∧ step w (.dlf n c l false) = (w, .err .typeError) ∧
      step w (.rmlf n c l true) = step w (.rm n t) ∧ step w (.dlf n c l true) = step w (.rm n t)) := by
  have hl := (lookup_spec s w.lab c l).2
  constructor
  · intro h
    constructor <;> (rw [step_ns (n := n) rfl rfl, hs]; simp [stepNs, hl, h])
  · intro t h
    refine ⟨?_, ?_, ?_, ?_⟩
    · rw [step_ns (n := n) rfl rfl, hs]; simp [stepNs, hl, h]
    · rw [step_ns (n := n) rfl rfl, hs]; simp [stepNs, hl, h]
    · rw [step_ns (n := n) rfl rfl, hs, step_ns (n := n) rfl rfl, hs]; simp [stepNs, hl, h]
    · rw [step_ns (n := n) rfl rfl, hs, step_ns (n := n) rfl rfl, hs]; simp [stepNs, hl, h]

/-- both outcomes on a state the driver produces (members a, B, A; label "A", case-insensitive: first match is `a`) -/
example : (step (exec World.init [.mkns false [.lab "a", .lab "B", .lab "A"]]) (.dlf 0 none "A" false)).2 matches .err .typeError := by
  decide
example : (step (exec World.init [.mkns false [.lab "a", .lab "B", .lab "A"]]) (.dlf 0 none "A" true)).1.nss.map (·.taxa) = [[1, 2]] := by
  decide

/-- `findall` / `get_taxon` / `has_taxon_label` as operations: that answer, and no change of the world -/
theorem lookup_ops_spec (w : World) (n : Nat) (s : NS) (hs : w.nss[n]? = some s) (c : Option Bool) (l : String) :
    step w (.find n c l) = (w, .ids (s.taxa.filter (labelMatches w.lab (s.effCs c) l))) ∧
    step w (.get n c l) = (w, .optId (s.taxa.find? (labelMatches w.lab (s.effCs c) l))) ∧
    step w (.has n c l) = (w, .bool (s.taxa.any (labelMatches w.lab (s.effCs c) l))) := by
  refine ⟨?_, ?_, ?_⟩
  · rw [step_ns (n := n) rfl rfl, hs]; simp [stepNs, (lookup_spec s w.lab c l).1]
  · rw [step_ns (n := n) rfl rfl, hs]; simp [stepNs, (lookup_spec s w.lab c l).2]
  · rw [step_ns (n := n) rfl rfl, hs]; simp [stepNs, (lookup_spec s w.lab c l).2]
    rw [Bool.eq_iff_iff]; simp

/-- `require_taxon`: the first match if there is one (nothing changes); otherwise, on a mutable namespace, exactly
one new taxon with that label, appended to the members with the next fresh index; on an immutable one an error
and no change -/
theorem require_spec (w : World) (hw : WInv w) (n : Nat) (s : NS) (hs : w.nss[n]? = some s) (c : Option Bool) (l : String) :
    (∀ t, s.taxa.find? (labelMatches w.lab (s.effCs c) l) = some t → step w (.req n c l) = (w, .id t)) ∧
    (s.taxa.find? (labelMatches w.lab (s.effCs c) l) = none → s.mutable_ = false →
      step w (.req n c l) = (w, .err .immutable)) ∧
    (s.taxa.find? (labelMatches w.lab (s.effCs c) l) = none → s.mutable_ = true →
      ∃ s', step w (.req n c l) = (⟨w.labels ++ [l], w.nss.set n s'⟩, .id w.labels.length) ∧
        s'.taxa = s.taxa ++ [w.labels.length] ∧ s'.t2a.get w.labels.length = some s.count ∧
        s'.count = s.count + 1 ∧ (∀ t, t ≠ w.labels.length → s'.t2a.get t = s.t2a.get t) ∧
        World.lab ⟨w.labels ++ [l], w.nss.set n s'⟩ w.labels.length = l) := by
  have hl := (lookup_spec s w.lab c l).2
  refine ⟨?_, ?_, ?_⟩
  · intro t h
    rw [step_ns (n := n) rfl rfl, hs]; simp [stepNs, hl, h]
  · intro h hm
    rw [step_ns (n := n) rfl rfl, hs]; simp [stepNs, hl, h, hm]
  · intro h hm
    have hi := hw.ns s (List.mem_of_getElem? hs)
    have hfresh : s.contains w.labels.length = false := by
      cases hc : s.contains w.labels.length with
      | false => rfl
      | true =>
        have := hw.fresh s (List.mem_of_getElem? hs) _ ((hi.dom _).2 ((contains_iff s _).1 hc))
        omega
    refine ⟨{ s with taxa := s.taxa ++ [w.labels.length], a2t := s.a2t.put s.count w.labels.length,
                     t2a := s.t2a.put w.labels.length s.count, count := s.count + 1 }, ?_, rfl, ?_, rfl, ?_, ?_⟩
    · rw [step_ns (n := n) rfl rfl, hs]
      simp [stepNs, hl, h, hm, newTaxon, NS.addTaxon, hfresh, World.setNs, exceptOut]
    · simp [get_put_self]
    · intro t ht; simp [get_put_ne _ _ _ _ ht]
    · simp [World.lab]

/-- "creates exactly one new member": requiring the same label again — under the same case setting — returns the very
taxon the first call returned (found or created) and changes nothing any more -/
theorem require_idempotent (w : World) (hw : WInv w) (n : Nat) (s : NS) (hs : w.nss[n]? = some s) (c : Option Bool)
    (l : String) (t : Nat) (h : (step w (.req n c l)).2 = .id t) :
    step (step w (.req n c l)).1 (.req n c l) = ((step w (.req n c l)).1, .id t) := by
  have hi := hw.ns s (List.mem_of_getElem? hs)
  have hmem := List.mem_of_getElem? hs
  have hlt : n < w.nss.length := (List.getElem?_eq_some_iff.1 hs).1
  cases hf : s.taxa.find? (labelMatches w.lab (s.effCs c) l) with
  | some t0 =>
    have e := (require_spec w hw n s hs c l).1 t0 hf
    rw [e] at h ⊢
    simp only [Out.id.injEq] at h; subst h
    exact e
  | none =>
    cases hm : s.mutable_ with
    | false =>
      have e := (require_spec w hw n s hs c l).2.1 hf hm
      rw [e] at h; cases h
    | true =>
      have hfresh : s.contains w.labels.length = false := by
        cases hc : s.contains w.labels.length with
        | false => rfl
        | true => have := hw.fresh s hmem _ ((hi.dom _).2 ((contains_iff s _).1 hc)); omega
      obtain ⟨s1, hs1⟩ : ∃ s1 : NS, s1 = { s with taxa := s.taxa ++ [w.labels.length], a2t := s.a2t.put s.count w.labels.length, t2a := s.t2a.put w.labels.length s.count, count := s.count + 1 } :=
        ⟨_, rfl⟩
      have e : step w (.req n c l) = (⟨w.labels ++ [l], w.nss.set n s1⟩, .id w.labels.length) := by
        rw [step_ns (n := n) rfl rfl, hs, hs1]
        simp [stepNs, (lookup_spec s w.lab c l).2, hf, hm, newTaxon, NS.addTaxon, hfresh, World.setNs, exceptOut]
      have ht1 : s1.taxa = s.taxa ++ [w.labels.length] := by rw [hs1]
      have hc1 : s1.effCs c = s.effCs c := by rw [hs1]; cases c <;> rfl
      have hw1 : WInv (step w (.req n c l)).1 := winv_step hw _
      rw [e] at h hw1 ⊢
      simp only [Out.id.injEq] at h; subst h
      have hs1' : (World.mk (w.labels ++ [l]) (w.nss.set n s1)).nss[n]? = some s1 := by simp [hlt]
      refine (require_spec _ hw1 n s1 hs1' c l).1 _ ?_
      rw [ht1, hc1, List.find?_append]
      have hold : List.find? (labelMatches (World.lab ⟨w.labels ++ [l], w.nss.set n s1⟩) (s.effCs c) l) s.taxa = none := by
        rw [List.find?_eq_none] at hf ⊢
        intro x hx
        have hxl : x < w.labels.length := hw.fresh s hmem x hx
        have : World.lab ⟨w.labels ++ [l], w.nss.set n s1⟩ x = w.lab x := by
          simp [World.lab, List.getD_eq_getElem?_getD, List.getElem?_append_left hxl]
        have h0 := hf x hx
        simp only [labelMatches, this] at h0 ⊢
        exact h0
      have hnew : labelMatches (World.lab ⟨w.labels ++ [l], w.nss.set n s1⟩) (s.effCs c) l w.labels.length = true := by
        have hl : World.lab ⟨w.labels ++ [l], w.nss.set n s1⟩ w.labels.length = l := by simp [World.lab]
        have := labelMatches_self (World.lab ⟨w.labels ++ [l], w.nss.set n s1⟩) (s.effCs c) w.labels.length
        rwa [hl] at this
      rw [hold]; simp [hnew]

/-- both branches occur: "b" is found (case-insensitively) in A,B; "c" is created, then found -/
example : (step (exec World.init [.mkns false [.lab "A", .lab "B"]]) (.req 0 none "b")).2 matches .id 1 := by decide
example : (step (exec World.init [.mkns false [.lab "A", .lab "B"]]) (.req 0 none "c")).2 matches .id 2 := by decide
example : (exec World.init [.mkns false [.lab "A", .lab "B"], .req 0 none "c", .req 0 none "C"]).nss.map (·.taxa) = [[0, 1, 2]] := by decide

/-! ## (d) immutable namespaces never gain members -/

theorem immutable_spec (w : World) (op : Op) (n : Nat) (s s' : NS) (hs : w.nss[n]? = some s)
    (hs' : (step w op).1.nss[n]? = some s') (hm : s.mutable_ = false) (hop : ∀ b, op ≠ .setMut n b) :
    s'.mutable_ = false ∧ ∀ t ∈ s'.taxa, t ∈ s.taxa := by
  cases hsm : op.isSetMut with
  | false =>
    obtain ⟨s'', h1, r⟩ := step_rel w op n s hs
    rw [hs'] at h1; cases h1
    exact rel_immutable r hsm hm
  | true =>
    cases op <;> simp [Op.isSetMut] at hsm
    rename_i n' b
    have hne : n' ≠ n := by intro e; subst e; exact hop b rfl
    rw [step_ns (n := n') rfl rfl] at hs'
    cases hn' : w.nss[n']? with
    | none => rw [hn'] at hs'; simp only at hs'; rw [hs] at hs'; cases hs'; exact ⟨hm, fun _ h => h⟩
    | some x =>
      rw [hn'] at hs'
      simp only [stepNs, World.setNs, List.getElem?_set_ne hne] at hs'
      rw [hs] at hs'; cases hs'; exact ⟨hm, fun _ h => h⟩

/-- a namespace that is immutable stays immutable and never gains a member over a whole history in which
`is_mutable` is not assigned on it -/
theorem immutable_history (ops : List Op) (w : World) (n : Nat) (s s' : NS) (hs : w.nss[n]? = some s)
    (hs' : (exec w ops).nss[n]? = some s') (hm : s.mutable_ = false) (hops : ∀ op ∈ ops, ∀ b, op ≠ .setMut n b) :
    s'.mutable_ = false ∧ ∀ t ∈ s'.taxa, t ∈ s.taxa := by
  induction ops generalizing w s with
  | nil => simp only [exec] at hs'; rw [hs] at hs'; cases hs'; exact ⟨hm, fun _ h => h⟩
  | cons op ops ih =>
    obtain ⟨s1, h1, _⟩ := step_rel w op n s hs
    simp only [exec] at hs'
    obtain ⟨a, b⟩ := immutable_spec w op n s s1 hs h1 hm (hops op (by simp))
    obtain ⟨c, d⟩ := ih (step w op).1 s1 h1 hs' a (fun o ho => hops o (by simp [ho]))
    exact ⟨c, fun t ht => b t (d t ht)⟩

example : ∃ s', (exec World.init [.mkns false [.lab "A"], .setMut 0 false, .new 0 "B", .req 0 none "c", .add 0 0]).nss[0]? = some s' ∧
    s'.taxa = [0] ∧ s'.mutable_ = false := ⟨_, rfl, by decide, by decide⟩

/-! ## the constructor -/

/-- the constructor over a *mixed* iterable of label strings and existing `Taxon` objects: every string becomes a new
taxon (labels appended to the world in order), every object is taken as it is, repeats of an object are ignored; the
members are the items' taxa in item order without repeats, the `k`-th member gets bit `k`, the counter is the number of
members; an iterable naming a `Taxon` that does not exist is refused -/
theorem ctor_mixed_spec (w : World) (cs : Bool) (items : List Item) :
    (items.all (Item.refOk w.labels.length) = true →
      ∃ s', step w (.mkns cs items) = (⟨w.labels ++ labsOf items, w.nss ++ [s']⟩, .nat w.nss.length) ∧
        s'.taxa = (ctorIds w.labels.length items).foldl (fun a t => if a.contains t then a else a ++ [t]) [] ∧
        s'.count = s'.taxa.length ∧ (∀ k t, s'.taxa[k]? = some t → s'.t2a.get t = some k) ∧
        s'.mutable_ = true ∧ s'.caseSens = cs) ∧
    (items.all (Item.refOk w.labels.length) = false → step w (.mkns cs items) = (w, .bad)) := by
  constructor
  · intro hr
    have hr' : (Op.mkns cs items).refsOk w.labels.length = true := by simpa [Op.refsOk] using hr
    obtain ⟨a, b, c, d, e, f⟩ := ctorLoop_mixed items w (NS.empty cs) (inv_empty cs) (by simp [NS.empty]) rfl
      (dense_empty cs) hr
    refine ⟨(ctorLoop w (NS.empty cs) items).2, ?_, by simpa [NS.empty] using c, d.1, d.2, e, by simpa [NS.empty] using f⟩
    rw [step_mkns w cs _ hr']; simp only [a, b]
  · intro hr
    exact step_bad (by simpa [Op.refsOk] using hr)

example : (step (exec World.init [.mk "x"]) (.mkns false [.lab "a", .tax 0, .tax 0, .lab "b"])).1.nss.map
    (fun s => (s.taxa, s.count, s.taxa.map s.t2a.get)) = [([1, 0, 2], 3, [some 0, some 1, some 2])] := by decide


/-- `TaxonNamespace(labels, is_case_sensitive=cs)`: a new mutable namespace, appended to the world, whose members are
one new taxon per label string, in order, the `k`-th with label `ls[k]` and bit `k`; the counter is the number of
labels; existing namespaces and taxa are untouched -/
theorem ctor_labels_spec (w : World) (cs : Bool) (ls : List String) :
    ∃ s', step w (.mkns cs (ls.map .lab)) = (⟨w.labels ++ ls, w.nss ++ [s']⟩, .nat w.nss.length) ∧
      s'.taxa = (List.range ls.length).map (w.labels.length + ·) ∧ s'.count = ls.length ∧
      s'.mutable_ = true ∧ s'.caseSens = cs ∧
      ∀ k, k < ls.length → s'.t2a.get (w.labels.length + k) = some k := by
  have hr : (Op.mkns cs (ls.map Item.lab)).refsOk w.labels.length = true := by
    simp [Op.refsOk, Item.refOk]
  obtain ⟨a, b, c, d, e, _, g, h⟩ := ctorLoop_labels ls w (NS.empty cs) (inv_empty cs) (by simp [NS.empty]) rfl
  refine ⟨(ctorLoop w (NS.empty cs) (ls.map .lab)).2, ?_, by simpa [NS.empty] using c, by simpa [NS.empty] using d,
    g, by simpa [NS.empty] using h, ?_⟩
  · rw [step_mkns w cs _ hr]; simp only [a, b]
  · intro k hk; simpa [NS.empty] using e k hk

example : (step World.init (.mkns true [.lab "x", .lab "X"])).1.nss.map (fun s => (s.taxa, s.count, s.caseSens)) = [([0, 1], 2, true)] := by
  decide

/-! ## coherence of `accession_index`, `taxon_bitmask` and its memo, over all histories -/

/-- in every reachable world (whatever was added, removed, sorted, reversed, cleared, relabelled or copied before): the
keys of the taxon→index map are exactly the members, the index→taxon map is its inverse, every index is below the counter -/
theorem index_maps_coherent_reachable (ops : List Op) (s : NS) (hs : s ∈ (exec World.init ops).nss) :
    (∀ t, t ∈ s.taxa ↔ ∃ i, s.t2a.get t = some i) ∧ (∀ t i, s.t2a.get t = some i ↔ s.a2t.get i = some t) ∧
    (∀ t i, s.t2a.get t = some i → i < s.count) := by
  have hi := (inv_reachable ops).ns s hs
  refine ⟨fun t => ?_, hi.inverse, hi.lt⟩
  rw [hi.dom t, Option.isSome_iff_exists]

/-- … and every entry of the `taxon_bitmask` memo belongs to a current member and holds exactly `1 <<< accession_index` -/
theorem memo_coherent_reachable (ops : List Op) (s : NS) (hs : s ∈ (exec World.init ops).nss) (t m : Nat)
    (h : s.bm.get t = some m) : t ∈ s.taxa ∧ ∃ i, s.t2a.get t = some i ∧ m = 1 <<< i := by
  have hi := (inv_reachable ops).ns s hs
  obtain ⟨i, h1, h2⟩ := hi.memo t m h
  exact ⟨(hi.dom t).2 (by simp [h1]), i, h1, h2⟩

/-- the two observers agree: for a member `accession_index` answers `i` and `taxon_bitmask` answers `1 <<< i`; for a
non-member both refuse (`KeyError`) -/
theorem bm_acc_agree (w : World) (hw : WInv w) (n : Nat) (s : NS) (hs : w.nss[n]? = some s) (t : Nat) :
    (t ∈ s.taxa → ∃ i, s.t2a.get t = some i ∧ step w (.acc n t) = (w, .nat i) ∧ (step w (.bm n t)).2 = .nat (1 <<< i)) ∧
    (t ∉ s.taxa → step w (.acc n t) = (w, .err .keyError) ∧ (step w (.bm n t)).2 = .err .keyError) := by
  have hi := hw.ns s (List.mem_of_getElem? hs)
  constructor
  · intro ht
    obtain ⟨i, h1, h2⟩ := taxon_bitmask_spec s hi t ht
    refine ⟨i, h1, ?_, ?_⟩
    · rw [step_at rfl rfl hs]; simp [stepNs, h1]
    · rw [step_at rfl rfl hs]
      simp only [stepNs]
      rcases hx : s.taxonBitmask t with ⟨s', r⟩
      rw [hx] at h2; simp only at h2; subst h2
      simp [exceptOut]
  · intro ht
    have hnone : s.t2a.get t = none := by
      cases h : s.t2a.get t with
      | none => rfl
      | some i => exact absurd ((hi.dom t).2 (by simp [h])) ht
    have hbm : s.bm.get t = none := by
      cases h : s.bm.get t with
      | none => rfl
      | some m => obtain ⟨i, h1, _⟩ := hi.memo t m h; rw [hnone] at h1; cases h1
    constructor
    · rw [step_at rfl rfl hs]; simp [stepNs, hnone]
    · rw [step_at rfl rfl hs]; simp [stepNs, NS.taxonBitmask, hbm, hnone, exceptOut]

/-- the mask `taxon_bitmask` reports for a taxon is the same before and after any history during which it stays a member -/
theorem mask_stable_history (ops : List Op) (w : World) (hw : WInv w) (n t : Nat)
    (hmem : ∀ k, k ≤ ops.length → ∃ s, (exec w (ops.take k)).nss[n]? = some s ∧ t ∈ s.taxa) :
    (step (exec w ops) (.bm n t)).2 = (step w (.bm n t)).2 := by
  obtain ⟨s, hs, ht⟩ := hmem 0 (Nat.zero_le _)
  obtain ⟨s', hs', ht'⟩ := hmem ops.length (Nat.le_refl _)
  simp only [List.take_zero, exec] at hs
  simp only [List.take_length] at hs'
  have hst := bit_stable_history ops w hw n t hmem s s' hs hs'
  obtain ⟨i, h1, _, h3⟩ := (bm_acc_agree w hw n s hs t).1 ht
  obtain ⟨i', h1', _, h3'⟩ := (bm_acc_agree (exec w ops) (winv_exec hw ops) n s' hs' t).1 ht'
  rw [hst, h1] at h1'; cases h1'
  rw [h3, h3']

example : (step (exec World.init [.mkns false [.lab "A", .lab "B", .lab "C"], .bm 0 1, .rm 0 0, .sort 0 true, .rev 0,
    .new 0 "D", .relabel 1 "Z"]) (.bm 0 1)).2 matches .nat 2 := by decide

/-! ## the remaining operations of the alphabet -/

/-- `Taxon(label)`: a new object with that label, in no namespace -/
theorem mk_spec (w : World) (l : String) :
    step w (.mk l) = ({ w with labels := w.labels ++ [l] }, .id w.labels.length) := by
  simp [step, Op.refsOk]

/-- `taxon.label = l`: only the label of that one taxon changes — every namespace (members, order, bits, memo, counter)
is untouched, in particular the namespaces that share the taxon -/
theorem relabel_spec (w : World) (t : Nat) (l : String) :
    (t < w.labels.length → step w (.relabel t l) = ({ w with labels := w.labels.set t l }, .ok) ∧
      World.lab { w with labels := w.labels.set t l } t = l ∧
      ∀ t', t' ≠ t → World.lab { w with labels := w.labels.set t l } t' = w.lab t') ∧
    (¬ t < w.labels.length → step w (.relabel t l) = (w, .bad)) := by
  constructor
  · intro h
    refine ⟨by simp [step, Op.refsOk, h], by simp [World.lab, h], ?_⟩
    intro t' hne
    have : t ≠ t' := fun e => hne e.symm
    simp [World.lab, List.getD_eq_getElem?_getD, List.getElem?_set_ne this]
  · intro h; simp [step, Op.refsOk, h]

/-- `add_taxon` of an existing object: nothing happens for a member; an immutable namespace refuses a non-member and
stays as it is; a mutable one appends it with the next fresh bit, leaving every other bit alone -/
theorem add_spec (w : World) (hw : WInv w) (n : Nat) (s : NS) (hs : w.nss[n]? = some s) (t : Nat) (ht : t < w.labels.length) :
    (t ∈ s.taxa → step w (.add n t) = (w, .ok)) ∧
    (t ∉ s.taxa → s.mutable_ = false → step w (.add n t) = (w, .err .immutable)) ∧
    (t ∉ s.taxa → s.mutable_ = true →
      ∃ s', step w (.add n t) = (w.setNs n s', .ok) ∧ s'.taxa = s.taxa ++ [t] ∧ s'.t2a.get t = some s.count ∧
        s'.count = s.count + 1 ∧ ∀ x, x ≠ t → s'.t2a.get x = s.t2a.get x) := by
  have hi := hw.ns s (List.mem_of_getElem? hs)
  have hr : (Op.add n t).refsOk w.labels.length = true := by simpa [Op.refsOk] using ht
  have hcont : t ∉ s.taxa → s.contains t = false := by
    intro h
    cases hc : s.contains t with
    | false => rfl
    | true => exact absurd ((hi.dom t).2 ((contains_iff s t).1 hc)) h
  refine ⟨?_, ?_, ?_⟩
  · intro hm
    have hc : s.contains t = true := (contains_iff s t).2 ((hi.dom t).1 hm)
    rw [step_at hr rfl hs]; simp [stepNs, NS.addTaxon, hc, set_self hs]
  · intro hm himm
    rw [step_at hr rfl hs]; simp [stepNs, NS.addTaxon, hcont hm, himm]
  · intro hm hmut
    refine ⟨{ s with taxa := s.taxa ++ [t], a2t := s.a2t.put s.count t, t2a := s.t2a.put t s.count, count := s.count + 1 },
      ?_, rfl, by simp [get_put_self], rfl, fun x hx => by simp [get_put_ne _ _ _ _ hx]⟩
    rw [step_at hr rfl hs]; simp [stepNs, NS.addTaxon, hcont hm, hmut]

/-- `add_taxa`: on a mutable namespace the listed objects join in list order, repeats and members ignored, old bits kept;
on an immutable namespace nothing changes, and the call succeeds exactly when every listed taxon is already a member -/
theorem add_taxa_spec (w : World) (hw : WInv w) (n : Nat) (s : NS) (hs : w.nss[n]? = some s) (ts : List Nat)
    (hts : ∀ t ∈ ts, t < w.labels.length) :
    (s.mutable_ = true → ∃ s', step w (.addTaxa n ts) = (w.setNs n s', .ok) ∧
      s'.taxa = ts.foldl (fun a t => if a.contains t then a else a ++ [t]) s.taxa ∧
      ∀ x i, s.t2a.get x = some i → s'.t2a.get x = some i) ∧
    (s.mutable_ = false → (step w (.addTaxa n ts)).1 = w ∧
      ((step w (.addTaxa n ts)).2 = .ok ↔ ∀ t ∈ ts, t ∈ s.taxa) ∧
      ((step w (.addTaxa n ts)).2 = .ok ∨ (step w (.addTaxa n ts)).2 = .err .immutable)) := by
  have hi := hw.ns s (List.mem_of_getElem? hs)
  have hr : (Op.addTaxa n ts).refsOk w.labels.length = true := by
    simp only [Op.refsOk, List.all_eq_true, decide_eq_true_eq]; exact hts
  constructor
  · intro hm
    obtain ⟨a, b, c, _, _⟩ := addTaxa_mutable ts s hi hm
    rcases hx : s.addTaxa ts with ⟨s', r⟩
    rw [hx] at a b c; simp only at a b c; subst a
    exact ⟨s', by rw [step_at hr rfl hs]; simp [stepNs, hx], b, c⟩
  · intro hm
    obtain ⟨a, b, c⟩ := addTaxa_immutable ts s hm
    rcases hx : s.addTaxa ts with ⟨s', r⟩
    rw [hx] at a b c; simp only at a b c; subst a
    have hmem : (∀ t ∈ ts, s'.contains t = true) ↔ ∀ t ∈ ts, t ∈ s'.taxa := by
      constructor
      · intro h t ht; exact (hi.dom t).2 ((contains_iff s' t).1 (h t ht))
      · intro h t ht; exact (contains_iff s' t).2 ((hi.dom t).1 (h t ht))
    rw [step_at hr rfl hs]
    cases r with
    | none =>
      have e1 : stepNs w n s' (.addTaxa n ts) = (w, .ok) := by simp [stepNs, hx, set_self hs]
      rw [e1]
      exact ⟨rfl, ⟨fun _ => hmem.1 (b.1 rfl), fun _ => rfl⟩, Or.inl rfl⟩
    | some e =>
      have e1 : stepNs w n s' (.addTaxa n ts) = (w, .err e) := by simp [stepNs, hx, set_self hs]
      rw [e1]
      rcases c with c | c
      · cases c
      · cases c
        exact ⟨rfl, ⟨(fun h => by cases h), (fun h => by have := b.2 (hmem.2 h); cases this)⟩, Or.inr rfl⟩

/-- `new_taxon`: refused on an immutable namespace (nothing changes); otherwise exactly one new taxon with that label,
appended with the next fresh bit -/
theorem new_spec (w : World) (hw : WInv w) (n : Nat) (s : NS) (hs : w.nss[n]? = some s) (l : String) :
    (s.mutable_ = false → step w (.new n l) = (w, .err .immutable)) ∧
    (s.mutable_ = true →
      ∃ s', step w (.new n l) = (⟨w.labels ++ [l], w.nss.set n s'⟩, .id w.labels.length) ∧
        s'.taxa = s.taxa ++ [w.labels.length] ∧ s'.t2a.get w.labels.length = some s.count ∧ s'.count = s.count + 1 ∧
        ∀ t, t ≠ w.labels.length → s'.t2a.get t = s.t2a.get t) := by
  have hi := hw.ns s (List.mem_of_getElem? hs)
  constructor
  · intro hm; rw [step_at rfl rfl hs]; simp [stepNs, newTaxon, hm, exceptOut]
  · intro hm
    have hfresh : s.contains w.labels.length = false := by
      cases hc : s.contains w.labels.length with
      | false => rfl
      | true =>
        have := hw.fresh s (List.mem_of_getElem? hs) _ ((hi.dom _).2 ((contains_iff s _).1 hc)); omega
    refine ⟨{ s with taxa := s.taxa ++ [w.labels.length], a2t := s.a2t.put s.count w.labels.length,
                     t2a := s.t2a.put w.labels.length s.count, count := s.count + 1 }, ?_, rfl, by simp [get_put_self], rfl,
      fun t ht => by simp [get_put_ne _ _ _ _ ht]⟩
    rw [step_at rfl rfl hs]
    simp [stepNs, hm, newTaxon, NS.addTaxon, hfresh, World.setNs, exceptOut]

/-- `new_taxa`: refused as a whole on an immutable namespace; otherwise one new taxon per label, in order, appended with
consecutive fresh bits, the old bits untouched; the call returns the new taxa in order -/
theorem new_taxa_spec (w : World) (hw : WInv w) (n : Nat) (s : NS) (hs : w.nss[n]? = some s) (ls : List String) :
    (s.mutable_ = false → step w (.newTaxa n ls) = (w, .err .immutable)) ∧
    (s.mutable_ = true →
      ∃ s', step w (.newTaxa n ls) =
          (⟨w.labels ++ ls, w.nss.set n s'⟩, .ids ((List.range ls.length).map (w.labels.length + ·))) ∧
        s'.taxa = s.taxa ++ (List.range ls.length).map (w.labels.length + ·) ∧ s'.count = s.count + ls.length ∧
        (∀ k, k < ls.length → s'.t2a.get (w.labels.length + k) = some (s.count + k)) ∧
        (∀ t, t < w.labels.length → s'.t2a.get t = s.t2a.get t)) := by
  have hmem := List.mem_of_getElem? hs
  constructor
  · intro hm; rw [step_at rfl rfl hs]; simp [stepNs, hm]
  · intro hm
    obtain ⟨s', e, a, b, c, d, _, _⟩ := newTaxaLoop_spec n ls w s [] hs (hw.ns s hmem) (hw.fresh s hmem) hm
    refine ⟨s', ?_, a, b, c, d⟩
    rw [step_at rfl rfl hs]; simp [stepNs, hm, e]

/-- `remove_taxon`: a non-member is refused (`ValueError`, nothing changes); a member leaves, the others keep their
order and bits, the counter stays, and the memo forgets it -/
theorem rm_spec (w : World) (n : Nat) (s : NS) (hs : w.nss[n]? = some s) (t : Nat) :
    (t ∉ s.taxa → step w (.rm n t) = (w, .err .valueError)) ∧
    (t ∈ s.taxa → ∃ s', step w (.rm n t) = (w.setNs n s', .ok) ∧ s'.taxa = s.taxa.filter (fun x => x ≠ t) ∧
      s'.t2a.get t = none ∧ s'.bm.get t = none ∧ s'.count = s.count ∧ ∀ x, x ≠ t → s'.t2a.get x = s.t2a.get x) := by
  constructor
  · intro h; rw [step_at rfl rfl hs]; simp [stepNs, NS.removeTaxon, h]
  · intro h
    cases hr : s.removeTaxon t with
    | error e => simp [NS.removeTaxon, h] at hr
    | ok s1 =>
      obtain ⟨_, e⟩ := removeTaxon_cases hr
      refine ⟨s1, by rw [step_at rfl rfl hs]; simp [stepNs, hr], by rw [e], by rw [e]; exact get_erase_self _ _,
        by rw [e]; exact get_erase_self _ _, by rw [e], fun x hx => by rw [e]; exact get_erase_ne _ _ _ hx⟩

/-- `del tns[i]`: `IndexError` beyond the end, otherwise `remove_taxon` of the `i`-th member -/
theorem del_spec (w : World) (n : Nat) (s : NS) (hs : w.nss[n]? = some s) (i : Nat) :
    (s.taxa.length ≤ i → step w (.del n i) = (w, .err .indexError)) ∧
    (∀ t, s.taxa[i]? = some t → step w (.del n i) = step w (.rm n t)) := by
  constructor
  · intro h; rw [step_at rfl rfl hs]; simp [stepNs, List.getElem?_eq_none h]
  · intro t h; rw [step_at rfl rfl hs, step_at rfl rfl hs]; simp [stepNs, h]

/-- `clear`: no members, empty maps and memo; the counter is *not* reset (so no bit is ever handed out twice), flags stay -/
theorem clear_spec (w : World) (n : Nat) (s : NS) (hs : w.nss[n]? = some s) :
    step w (.clear n) = (w.setNs n { s with taxa := [], a2t := [], t2a := [], bm := [] }, .ok) := by
  rw [step_at rfl rfl hs]; simp [stepNs, NS.clear]

/-- assigning `is_mutable` / `is_case_sensitive` changes that flag and nothing else -/
theorem flags_spec (w : World) (n : Nat) (s : NS) (hs : w.nss[n]? = some s) (b : Bool) :
    step w (.setMut n b) = (w.setNs n { s with mutable_ := b }, .ok) ∧
    step w (.setCs n b) = (w.setNs n { s with caseSens := b }, .ok) := by
  constructor <;> (rw [step_at rfl rfl hs]; simp [stepNs])

/-- `taxa_bitmask(taxa=S)` followed by `bitmask_taxa_list`, as operations: for members `S` the first answers a mask `m`
whose set bits are exactly the bits of `S`, and in the resulting world the second answers exactly the taxa of `S` -/
theorem tbm_btl_ops_spec (w : World) (hw : WInv w) (n : Nat) (s : NS) (hs : w.nss[n]? = some s) (S : List Nat)
    (hS : ∀ t ∈ S, t ∈ s.taxa) :
    ∃ m L, (step w (.tbm n S)).2 = .nat m ∧ (step (step w (.tbm n S)).1 (.btl n m)).2 = .ids L ∧
      (∀ t, t ∈ L ↔ t ∈ S) ∧ (∀ i, m.testBit i = true ↔ ∃ t ∈ S, s.t2a.get t = some i) := by
  have hi := hw.ns s (List.mem_of_getElem? hs)
  obtain ⟨s', m, L, e, eL, hL, hm⟩ := mask_roundtrip s hi S hS
  have hlt : n < w.nss.length := (List.getElem?_eq_some_iff.1 hs).1
  have h1 : step w (.tbm n S) = (w.setNs n s', .nat m) := by
    rw [step_at rfl rfl hs]; simp [stepNs, e, exceptOut]
  refine ⟨m, L, by rw [h1], ?_, hL, hm⟩
  rw [h1]
  have hs2 : (w.setNs n s').nss[n]? = some s' := by simp [World.setNs, hlt]
  rw [step_at rfl rfl hs2]; simp [stepNs, eL, exceptOut]

/-- what the code refuses, the model refuses: `taxa_bitmask` of a list containing a non-member and `bitmask_taxa_list`
of a mask with a set bit that belongs to no current member (a removed taxon's bit, or a bit beyond the counter) are
`KeyError`s -/
theorem refusals_spec (w : World) (hw : WInv w) (n : Nat) (s : NS) (hs : w.nss[n]? = some s) :
    (∀ S : List Nat, (∃ t ∈ S, t ∉ s.taxa) → (step w (.tbm n S)).2 = .err .keyError) ∧
    (∀ m : Nat, (∃ i, m.testBit i = true ∧ s.a2t.get i = none) → step w (.btl n m) = (w, .err .keyError)) := by
  have hi := hw.ns s (List.mem_of_getElem? hs)
  constructor
  · intro S hex
    have := taxaBitmask_nonmember S s 0 hi hex
    rw [step_at rfl rfl hs]
    simp only [stepNs]
    rcases hx : s.taxaBitmask S 0 with ⟨s', r⟩
    rw [hx] at this; simp only at this; subst this
    simp [exceptOut]
  · intro m hex
    obtain ⟨i, h1, h2⟩ := hex
    have := btl_dead s.a2t m 0 ⟨i, h1, by rwa [Nat.zero_add]⟩
    rw [step_at rfl rfl hs]; simp [stepNs, this, exceptOut]

/-- the hypotheses are satisfiable: A,B with A removed — bit 0 of mask 3 is dead, and taxon 0 is no member any more -/
example : ∃ w s, WInv w ∧ w.nss[0]? = some s ∧ (∃ i, (3 : Nat).testBit i = true ∧ s.a2t.get i = none) ∧ (∃ t ∈ [0, 1], t ∉ s.taxa) :=
  ⟨exec World.init [.mkns false [.lab "A", .lab "B"], .rm 0 0], _, inv_reachable _, rfl, ⟨0, by decide, by decide⟩,
    ⟨0, by decide, by decide⟩⟩

/-- … and the list that comes back is duplicate-free and ascending by bit -/
theorem tbm_btl_ops_exact (w : World) (hw : WInv w) (n : Nat) (s : NS) (hs : w.nss[n]? = some s) (S : List Nat)
    (hS : ∀ t ∈ S, t ∈ s.taxa) :
    ∃ m L, (step w (.tbm n S)).2 = .nat m ∧ (step (step w (.tbm n S)).1 (.btl n m)).2 = .ids L ∧
      (∀ t, t ∈ L ↔ t ∈ S) ∧ L.Nodup ∧
      L.Pairwise (fun a b => ∃ i j, s.t2a.get a = some i ∧ s.t2a.get b = some j ∧ i < j) := by
  have hi := hw.ns s (List.mem_of_getElem? hs)
  obtain ⟨s', m, L, e, eL, hL, hnd, hp⟩ := mask_roundtrip_exact s hi S hS
  have hlt : n < w.nss.length := (List.getElem?_eq_some_iff.1 hs).1
  have h1 : step w (.tbm n S) = (w.setNs n s', .nat m) := by
    rw [step_at rfl rfl hs]; simp [stepNs, e, exceptOut]
  refine ⟨m, L, by rw [h1], ?_, hL, hnd, hp⟩
  rw [h1]
  have hs2 : (w.setNs n s').nss[n]? = some s' := by simp [World.setNs, hlt]
  rw [step_at rfl rfl hs2]; simp [stepNs, eL, exceptOut]

/-- the pure observers `all_taxa_bitmask`, `bitmask_taxa_list`, `bitmask_as_bitstring`, `in`: their answer and no change -/
theorem observers_spec (w : World) (n : Nat) (s : NS) (hs : w.nss[n]? = some s) (m t : Nat) :
    step w (.all n) = (w, .nat ((1 <<< s.count) - 1)) ∧
    step w (.btl n m) = (w, exceptOut .ids (btl s.a2t m 0)) ∧
    step w (.bits n m) = (w, .str (String.ofList (s.bitstring m))) ∧
    step w (.isIn n t) = (w, .bool (s.t2a.get t).isSome) := by
  refine ⟨?_, ?_, ?_, ?_⟩ <;> (rw [step_at rfl rfl hs]; simp [stepNs, NS.allMask, NS.contains])

/-- `t in tns` is membership in the ordered list (in every reachable state) -/
theorem in_op_spec (w : World) (hw : WInv w) (n : Nat) (s : NS) (hs : w.nss[n]? = some s) (t : Nat) :
    step w (.isIn n t) = (w, .bool (decide (t ∈ s.taxa))) := by
  have hi := hw.ns s (List.mem_of_getElem? hs)
  rw [(observers_spec w n s hs 0 t).2.2.2]
  congr 2
  rw [Bool.eq_iff_iff]; simp [hi.dom t]

example : (exec World.init [.mkns false [.lab "a", .lab "b"], .setMut 0 false, .newTaxa 0 ["c"], .addTaxa 0 [0, 1],
    .rm 0 0, .clear 0, .setMut 0 true, .new 0 "d"]).nss.map (fun s => (s.taxa, s.count, s.t2a.get 2)) = [([2], 3, some 2)] := by
  decide

/-! ## (e) copies keep the bit of each original -/

/-- `TaxonNamespace(other)` / `copy.copy`: the new namespace has the same members in the same order, each with the
bit of its original, the same counter, memo and flags; the original is untouched -/
theorem copy_bits (w : World) (hw : WInv w) (n : Nat) (s : NS) (hs : w.nss[n]? = some s) :
    step w (.copy n) = ({ w with nss := w.nss ++ [s] }, .nat w.nss.length) := by
  rw [step_copy, hs]
  simp only
  rw [copyCtor_eq (hw.ns s (List.mem_of_getElem? hs))]

/-- `copy.deepcopy`: the `k`-th member is cloned to a new taxon (id `base + k`) with the same label, which is the
`k`-th member of the copy and carries the same bit; counter and flags are copied; the original is untouched -/
theorem deepcopy_bits (w : World) (hw : WInv w) (n : Nat) (s : NS) (hs : w.nss[n]? = some s) :
    ∃ s', step w (.deep n) = (⟨w.labels ++ s.taxa.map w.lab, w.nss ++ [s']⟩, .nat w.nss.length) ∧
      s'.taxa = (List.range s.taxa.length).map (w.labels.length + ·) ∧
      s'.count = s.count ∧ s'.mutable_ = s.mutable_ ∧ s'.caseSens = s.caseSens ∧
      ∀ k (hk : k < s.taxa.length),
        s'.t2a.get (w.labels.length + k) = s.t2a.get s.taxa[k] ∧
        World.lab ⟨w.labels ++ s.taxa.map w.lab, w.nss ++ [s']⟩ (w.labels.length + k) = w.lab s.taxa[k] := by
  have hi := hw.ns s (List.mem_of_getElem? hs)
  refine ⟨s.deepCopy w.labels.length, ?_, deepCopy_taxa hi.nodup _, rfl, rfl, rfl, ?_⟩
  · rw [step_deep, hs]
  · intro k hk
    have hp : pos s.taxa[k] s.taxa = some k := pos_of_nodup _ _ _ hi.nodup (List.getElem?_eq_getElem hk)
    have hr : ren s w.labels.length s.taxa[k] = some (w.labels.length + k) := by simp [ren, hp]
    constructor
    · exact get_renKeys (ren s w.labels.length) (fun t t' x h h' => ren_inj s _ h h') s.t2a _ _ hr
    · simp [World.lab, List.getD_eq_getElem?_getD, hk]

/-! ## independence of namespaces (in particular of a copy and its original) -/

/-- an operation that does not address namespace `n` leaves it exactly as it is — members, order, bits, memo, counter,
flags.  (Only a relabel of a shared `Taxon` is seen by every namespace holding it, through the label store.)  So after
`TaxonNamespace(other)`, `copy.copy` or `copy.deepcopy`, additions to and removals from one of the two never affect
the other -/
theorem other_namespaces_untouched (w : World) (op : Op) (n : Nat) (x : NS) (hx : w.nss[n]? = some x)
    (hop : op.ns ≠ some n) : (step w op).1.nss[n]? = some x := by
  have hlt : n < w.nss.length := (List.getElem?_eq_some_iff.1 hx).1
  cases hr : op.refsOk w.labels.length with
  | false => rw [step_bad hr]; exact hx
  | true =>
    cases hn : op.ns with
    | none =>
      cases op <;> simp [Op.ns] at hn
      · simp only [step, hr]; exact hx
      · rename_i cs items
        rw [step_mkns w cs items hr]
        have hr' : items.all (Item.refOk w.labels.length) = true := by simpa [Op.refsOk] using hr
        obtain ⟨_, _, c, _⟩ := ctorLoop_spec items w (NS.empty cs) (inv_empty cs) (by simp [NS.empty]) hr'
        simp only; rw [c, List.getElem?_append_left hlt]; exact hx
      · rename_i t l
        simp only [step]
        by_cases h : t < w.labels.length
        · simp only [hr, h]; exact hx
        · simp only [hr, h]; exact hx
      · rename_i cs items
        rw [step_mknsImm w cs items hr]
        by_cases he : items = []
        · rw [if_pos he]; simp only; rw [List.getElem?_append_left hlt]; exact hx
        · rw [if_neg he]; exact hx
    | some n' =>
      have hne : n' ≠ n := fun e => hop (by rw [hn, e])
      rw [step_ns hr hn]
      cases hs : w.nss[n']? with
      | none => exact hx
      | some s => exact stepNs_frame hne hx op

example : (exec World.init [.mkns false [.lab "A", .lab "B"], .deep 0, .rm 1 2, .new 1 "C", .sort 1 true, .clear 1]).nss[0]?.map
    (fun s => (s.taxa, s.count)) = some ([0, 1], 2) := by decide

/-! ## non-vacuity: the hypotheses are satisfiable, and the machine does what the example in the statement says -/

/-- namespace `A B C D`, remove `A`: `B` keeps bit 1, and the Newick rendering of its mask names `B` -/
example :
    let w := exec World.init [.mkns false [.lab "A", .lab "B", .lab "C", .lab "D"], .rml 0 none "a"]
    WInv w ∧ (w.nss[0]?.map (·.taxa)) = some [1, 2, 3] ∧
      (step w (.nwk 0 2 false true)).2 matches .str "((B), (C, D));" := by
  refine ⟨inv_reachable _, by decide, by decide⟩

/-! ## extension round: custom sort keys -/

/-- `sort(key=f, reverse=rev)` with an arbitrary key function rearranges the member list … -/
theorem sort_key_perm {κ : Type} (le : κ → κ → Bool) (key : Nat → κ) (rev : Bool) (l : List Nat) :
    (sortByK le key rev l).Perm l := sortByK_perm le key rev l

theorem sort_key_sorted {κ : Type} {le : κ → κ → Bool} (hle : TotalPreorder le) (key : Nat → κ) (rev : Bool) (l : List Nat) :
    (sortByK le key rev l).Pairwise (ordByK le key rev) := sortByK_sorted hle key rev l

theorem sort_key_stable {κ : Type} [DecidableEq κ] {le : κ → κ → Bool} (hle : TotalPreorder le) (key : Nat → κ) (rev : Bool)
    (k : κ) (l : List Nat) :
    (sortByK le key rev l).filter (fun t => decide (key t = k)) = l.filter (fun t => decide (key t = k)) :=
  sortByK_stable hle key rev k l

example : TotalPreorder pairLe ∧
    sortByK pairLe (fun t => ([(2, "bb"), (1, "z"), (2, "ab"), (1, "z")] : List (Nat × String)).getD t (0, "")) true [0, 1, 2, 3] = [0, 2, 1, 3] :=
  ⟨pairLe_preorder, by decide⟩

theorem sort_key_kinds (w : World) (s : NS) (k : SortKey) (rev : Bool) (l : List Nat) :
    ∃ (κ : Type) (_ : DecidableEq κ) (le : κ → κ → Bool) (key : Nat → κ),
      TotalPreorder le ∧ sortWith w s k rev l = sortByK le key rev l := by
  cases k
  · exact ⟨String, inferInstance, strLe, w.lab, strLe_preorder, rfl⟩
  · exact ⟨String, inferInstance, strLe, fun t => pyLower (w.lab t), strLe_preorder, rfl⟩
  · exact ⟨Nat, inferInstance, Nat.ble, fun t => (w.lab t).length, natBle_preorder, rfl⟩
  · exact ⟨Nat, inferInstance, Nat.ble, fun t => (s.t2a.get t).getD 0, natBle_preorder, rfl⟩
  · exact ⟨Nat × String, inferInstance, pairLe, fun t => ((w.lab t).length, w.lab t), pairLe_preorder, rfl⟩
  · exact ⟨Nat, inferInstance, Nat.ble, fun _ => 0, natBle_preorder, rfl⟩

theorem sort_key_ops_spec (w : World) (n : Nat) (s : NS) (hs : w.nss[n]? = some s) (k : SortKey) (rev : Bool)
    (hk : k ≠ .label ∨ sortRefused w.lab s.taxa = false) :
    step w (.sortk n k rev) = (w.setNs n { s with taxa := sortWith w s k rev s.taxa }, .ok) ∧
    (sortWith w s k rev s.taxa).Perm s.taxa := by
  refine ⟨?_, sortWith_perm w s k rev s.taxa⟩
  rw [step_ns (n := n) rfl rfl, hs]
  simp only [stepNs]
  rw [if_neg]
  rintro ⟨h1, h2⟩
  rcases hk with h | h
  · exact h h1
  · rw [h] at h2; cases h2

theorem sort_default_key (w : World) (n : Nat) (rev : Bool) : step w (.sort n rev) = step w (.sortk n .label rev) := by
  rw [step_ns (n := n) rfl rfl, step_ns (n := n) rfl rfl]
  cases w.nss[n]? with
  | none => rfl
  | some s => simp only [stepNs, sortWith, sortBy_eq_sortByK, true_and]

theorem sort_const_identity (w : World) (s : NS) (rev : Bool) (l : List Nat) : sortWith w s .const rev l = l := by
  simp only [sortWith]
  induction l with
  | nil => rfl
  | cons x xs ih =>
    simp only [sortByK, List.foldr_cons] at *
    rw [ih]
    cases xs with
    | nil => rfl
    | cons y ys => cases rev <;> simp [insertByK, Nat.ble]

theorem sort_acc_bit_order (w : World) (s : NS) (hi : Inv s) (rev : Bool) :
    (sortWith w s .acc rev s.taxa).Pairwise (fun a b => ∃ i j, s.t2a.get a = some i ∧ s.t2a.get b = some j ∧
      (if rev then j < i else i < j)) := by
  have hs := sortByK_sorted natBle_preorder (fun t => (s.t2a.get t).getD 0) rev s.taxa
  have hp := sortByK_perm Nat.ble (fun t => (s.t2a.get t).getD 0) rev s.taxa
  have hn : (sortByK Nat.ble (fun t => (s.t2a.get t).getD 0) rev s.taxa).Nodup := hp.nodup_iff.2 hi.nodup
  simp only [sortWith]
  have := List.Pairwise.and hs hn
  refine this.imp_of_mem ?_
  intro a b ha hb ⟨hab, hne⟩
  have ha' := (hi.dom a).1 (hp.mem_iff.1 ha)
  have hb' := (hi.dom b).1 (hp.mem_iff.1 hb)
  obtain ⟨i, hi'⟩ := Option.isSome_iff_exists.1 ha'
  obtain ⟨j, hj'⟩ := Option.isSome_iff_exists.1 hb'
  refine ⟨i, j, hi', hj', ?_⟩
  have hij : i ≠ j := fun e => hne (inv_injective hi hi' (e ▸ hj'))
  unfold ordByK at hab
  simp only [hi', hj', Option.getD_some] at hab
  cases rev
  · simp only [Bool.false_eq_true, if_false] at hab ⊢
    have := Nat.le_of_ble_eq_true hab; omega
  · simp only [if_true] at hab ⊢
    have := Nat.le_of_ble_eq_true hab; omega

example : (exec World.init [.mkns false [.lab "b", .lab "A", .lab "a"], .rm 0 0, .new 0 "B", .sort 0 false, .sortk 0 .acc true]).nss.map (·.taxa)
    = [[3, 2, 1]] := by decide

/-! ## extension round: keyword forms and further entry points -/

/-- `bitmask_taxa_list(m, index=k)` reads the mask as if it were shifted left by `k`: the same answer as
`bitmask_taxa_list(m << k)`, and no change of the world -/
theorem btl_index_spec (w : World) (n : Nat) (s : NS) (hs : w.nss[n]? = some s) (m idx : Nat) :
    step w (.btli n m idx) = (w, exceptOut .ids (btl s.a2t m idx)) ∧
    step w (.btli n m idx) = step w (.btl n (m <<< idx)) ∧ step w (.btli n m 0) = step w (.btl n m) := by
  have h1 : step w (.btli n m idx) = (w, exceptOut .ids (btl s.a2t m idx)) := by rw [step_at rfl rfl hs]; rfl
  have h2 : ∀ m', step w (.btl n m') = (w, exceptOut .ids (btl s.a2t m' 0)) := fun m' => by rw [step_at rfl rfl hs]; rfl
  refine ⟨h1, ?_, ?_⟩
  · rw [h1, h2, btl_shift]; simp
  · rw [h2, step_at rfl rfl hs]; rfl

/-- a state the driver produces (A, B, C; A removed): bits 1 and 2 are alive, so `bitmask_taxa_list(3, index=1)` has an answer -/
example : ∃ s, (exec World.init [.mkns false [.lab "A", .lab "B", .lab "C"], .rm 0 0]).nss[0]? = some s ∧
    s.a2t.get 1 = some 1 ∧ s.a2t.get 2 = some 2 ∧ (3 : Nat) <<< 1 = 6 := ⟨_, rfl, by decide, by decide, by decide⟩

/-- `taxa_bitmask(**kwargs)`: `taxa=` wins (whatever `labels=`, `is_case_sensitive=`, `first_match_only=` say, the call is
`taxa_bitmask(taxa=ts)`); with `labels=` alone the taxa are those `get_taxa(labels, is_case_sensitive, first_match_only)` returns
(for `first_match_only=False` this is `taxa_bitmask(labels=ls)` as before); with neither keyword the call is refused with a
`TypeError` and nothing changes -/
theorem tbm_kw_spec (w : World) (n : Nat) (s : NS) (hs : w.nss[n]? = some s) (c : Option Bool) (first : Bool) :
    (∀ ts labels, step w (.tbmKw n (some ts) labels c first) = step w (.tbm n ts)) ∧
    (∀ ls, step w (.tbmKw n none (some ls) c first) = step w (.tbm n (s.getTaxa w.lab c first ls []))) ∧
    (∀ ls, step w (.tbmKw n none (some ls) c false) = step w (.lbm n c ls)) ∧
    step w (.tbmKw n none none c first) = (w, .err .typeError) := by
  refine ⟨?_, ?_, ?_, ?_⟩
  · intro ts labels; rw [step_at rfl rfl hs, step_at rfl rfl hs]; rfl
  · intro ls; rw [step_at rfl rfl hs, step_at rfl rfl hs]; rfl
  · intro ls; rw [step_at rfl rfl hs, step_at rfl rfl hs]; rfl
  · rw [step_at rfl rfl hs]; rfl

/-- members a, B, A (case-insensitive): the first matches of "A" and "b" are `a` and `B` — mask 3, not 7 -/
example : (step (exec World.init [.mkns false [.lab "a", .lab "B", .lab "A"]]) (.tbmKw 0 none (some ["A", "b"]) none true)).2
    matches .nat 3 := by decide

/-- `TaxonNamespace(items, is_case_sensitive=cs, is_mutable=False)`: the flag is in force while the iterable is consumed, so only
the empty iterable is accepted (an empty immutable namespace); otherwise the first item is refused and no namespace is created -/
theorem ctor_immutable_spec (w : World) (cs : Bool) (items : List Item)
    (hr : items.all (Item.refOk w.labels.length) = true) :
    step w (.mknsImm cs items) =
      if items = [] then ({ w with nss := w.nss ++ [⟨[], [], [], [], 0, false, cs⟩] }, .nat w.nss.length)
      else (w, .err .immutable) := by
  rw [step_mknsImm w cs items (by simpa [Op.refsOk] using hr)]; rfl

example : (step World.init (.mknsImm true [.lab "x"])).2 matches .err .immutable := by decide

/-- `TaxonNamespace(other, is_case_sensitive=…, is_mutable=…)`: with `is_mutable=False` a non-empty `other` is refused (nothing
changes); in every other case the keywords have no effect at all — the result is `TaxonNamespace(other)`, flags of `other` included -/
theorem copy_kw_spec (w : World) (hw : WInv w) (n : Nat) (s : NS) (hs : w.nss[n]? = some s) (cs mu : Option Bool) :
    (mu = some false ∧ s.taxa ≠ [] → step w (.copyKw n cs mu) = (w, .err .immutable)) ∧
    (¬ (mu = some false ∧ s.taxa ≠ []) → step w (.copyKw n cs mu) = step w (.copy n) ∧
      step w (.copyKw n cs mu) = ({ w with nss := w.nss ++ [s] }, .nat w.nss.length)) := by
  constructor
  · intro h; rw [step_copyKw, hs]; simp only; rw [if_pos h]
  · intro h
    have : step w (.copyKw n cs mu) = step w (.copy n) := by
      rw [step_copyKw, step_copy, hs]; simp only; rw [if_neg h]
    exact ⟨this, by rw [this]; exact copy_bits w hw n s hs⟩

example : (step (exec World.init [.mkns true [.lab "x"]]) (.copyKw 0 (some false) (some false))).2 matches .err .immutable := by decide
example : (step (exec World.init [.mkns true [.lab "x"]]) (.copyKw 0 (some false) none)).1.nss.map (·.caseSens) = [true, true] := by decide

/-- `taxon_namespace_scoped_copy`: the namespace itself, nothing changes -/
theorem scoped_copy_spec (w : World) (n : Nat) (s : NS) (hs : w.nss[n]? = some s) : step w (.scopedCopy n) = (w, .nat n) := by
  rw [step_at rfl rfl hs]; rfl

/-- `label_taxon_map(is_case_sensitive=c)[l]`: the *last* member (in membership order) whose label matches `l` under the effective
case setting — `None` iff no member matches; so it is the member `get_taxon` returns exactly when at most one member matches -/
theorem label_map_spec (w : World) (n : Nat) (s : NS) (hs : w.nss[n]? = some s) (c : Option Bool) (l : String) :
    step w (.ltm n c l) = (w, .optId (s.lookupAll w.lab c l).getLast?) ∧
    ((s.lookupAll w.lab c l).getLast? = none ↔ s.lookupFirst w.lab c l = none) ∧
    ((s.lookupAll w.lab c l).length ≤ 1 → (s.lookupAll w.lab c l).getLast? = s.lookupFirst w.lab c l) := by
  have hl := lookup_spec s w.lab c l
  refine ⟨?_, ?_, ?_⟩
  · rw [step_at rfl rfl hs]
    simp only [stepNs]
    rw [scanLast_eq, hl.1]
    cases (s.taxa.filter (labelMatches w.lab (s.effCs c) l)).getLast? <;> rfl
  · rw [hl.1, hl.2]
    simp
  · rw [hl.1, hl.2]
    intro hlen
    rw [← List.head?_filter]
    cases hf : s.taxa.filter (labelMatches w.lab (s.effCs c) l) with
    | nil => rfl
    | cons x xs =>
      rw [hf] at hlen
      cases xs with
      | nil => rfl
      | cons y ys => simp at hlen

example : (step (exec World.init [.mkns false [.lab "a", .lab "B", .lab "A"]]) (.ltm 0 none "a")).2 matches .optId (some 2) := by decide

/-! ## tie A: the closed-form kernels regenerated from the source (`Gen/C10Kernels.lean`) are the model's -/

theorem kernel_taxon_bitmask (i : Nat) : C10Kernels.taxon_bitmask (i : Int) = ((1 <<< i : Nat) : Int) := by
  simp [C10Kernels.taxon_bitmask, pyShl, Nat.one_shiftLeft]

theorem kernel_all_taxa_bitmask (s : NS) : C10Kernels.all_taxa_bitmask (s.count : Int) = (s.allMask : Int) := by
  have h : 1 ≤ 2 ^ s.count := Nat.one_le_two_pow
  simp only [C10Kernels.all_taxa_bitmask, NS.allMask, pyShl, Nat.one_shiftLeft, Int.toNat_natCast, Int.one_mul]
  rw [Int.natCast_sub h, Int.natCast_pow]
  rfl

theorem kernel_bitstring (s : NS) (b : Nat) : C10Kernels.bitmask_as_bitstring b s.count = s.bitstring b := by
  simp [C10Kernels.bitmask_as_bitstring, NS.bitstring, pyRjust, pyBin]

theorem kernel_btl (m idx : Nat) :
    C10Kernels.btl_continue (m : Int) = decide (m ≠ 0) ∧
    C10Kernels.btl_take (m : Int) = decide (m % 2 = 1) ∧
    C10Kernels.btl_next_mask (m : Int) = ((m / 2 : Nat) : Int) ∧
    C10Kernels.btl_next_index (idx : Int) = ((idx + 1 : Nat) : Int) ∧
    C10Kernels.btl_default_index = ((0 : Nat) : Int) := by
  refine ⟨?_, ?_, ?_, ?_, ?_⟩
  · simp [C10Kernels.btl_continue]
  · unfold C10Kernels.btl_take
    have : pyAnd (m : Int) (1 : Int) = ((m &&& 1 : Nat) : Int) := pyAnd_natCast m 1
    rw [this, Nat.and_one_is_mod]
    rcases Nat.mod_two_eq_zero_or_one m with h | h <;> simp [h]
  · simp [C10Kernels.btl_next_mask, pyShr]
  · simp [C10Kernels.btl_next_index]
  · rfl

/-- the regenerated pieces of `nexusprocessing.bitmask_as_newick_string` are the model's -/
theorem kernel_newick (s : NS) (lab : Nat → String) (split bm : Nat) (ps qu : Bool) (l r : List String) :
    (C10Kernels.nwk_trivial (split : Int) (s.allMask : Int) = decide (split = 0 ∨ split = s.allMask)) ∧
    (C10Kernels.nwk_left (split : Int) (bm : Int) = decide (split &&& bm ≠ 0)) ∧
    (Rendering.flat l).text = C10Kernels.nwk_flat_open ++ C10Kernels.nwk_flat_sep.intercalate l ++ C10Kernels.nwk_flat_close ∧
    (Rendering.sides l r).text = C10Kernels.nwk_sides_open ++ C10Kernels.nwk_sides_sep.intercalate l ++ C10Kernels.nwk_sides_mid
      ++ C10Kernels.nwk_sides_sep.intercalate r ++ C10Kernels.nwk_sides_close ∧
    ((s.newick lab split ps qu).2 = .ok (.flat (s.taxa.map fun t => escapeToken ps qu (lab t))) ∨
      C10Kernels.nwk_trivial (split : Int) (s.allMask : Int) = false) := by
  refine ⟨?_, ?_, rfl, rfl, ?_⟩
  · simp [C10Kernels.nwk_trivial, Int.natCast_inj]
  · unfold C10Kernels.nwk_left
    rw [pyAnd_natCast]
    simp
  · by_cases h : split = 0 ∨ split = s.allMask
    · left; simp [NS.newick, h]
    · right
      simp only [C10Kernels.nwk_trivial]
      simp at h ⊢
      omega

/-- the loop of the model's `btl` is the regenerated loop of `bitmask_taxa_list`: continue / take / next mask / next index -/
theorem kernel_btl_loop (a2t : Map) (m idx : Nat) :
    btl a2t m idx =
      if C10Kernels.btl_continue (m : Int) = false then .ok []
      else if C10Kernels.btl_take (m : Int) = true then
        (match a2t.get idx with
          | none => .error .keyError
          | some t => match btl a2t (C10Kernels.btl_next_mask (m : Int)).toNat (C10Kernels.btl_next_index (idx : Int)).toNat with
            | .ok r => .ok (t :: r)
            | .error e => .error e)
      else btl a2t (C10Kernels.btl_next_mask (m : Int)).toNat (C10Kernels.btl_next_index (idx : Int)).toNat := by
  have hc : C10Kernels.btl_continue (m : Int) = decide (m ≠ 0) := by simp [C10Kernels.btl_continue]
  have ht : C10Kernels.btl_take (m : Int) = decide (m % 2 = 1) := by
    unfold C10Kernels.btl_take
    have : pyAnd (m : Int) (1 : Int) = ((m &&& 1 : Nat) : Int) := pyAnd_natCast m 1
    rw [this, Nat.and_one_is_mod]
    rcases Nat.mod_two_eq_zero_or_one m with h | h <;> simp [h]
  have hm : (C10Kernels.btl_next_mask (m : Int)).toNat = m / 2 := by simp [C10Kernels.btl_next_mask, pyShr]; omega
  have hi : (C10Kernels.btl_next_index (idx : Int)).toNat = idx + 1 := by simp [C10Kernels.btl_next_index]
  rw [hc, ht, hm, hi]
  rw [btl]
  by_cases h0 : m = 0
  · simp [h0]
  · by_cases h1 : m % 2 = 1
    · simp only [h0, h1, dite_false, if_true, ne_eq, not_false_eq_true, decide_true, Bool.true_eq_false, if_false]
      cases a2t.get idx with
      | none => rfl
      | some t => cases btl a2t (m / 2) (idx + 1) <;> rfl
    · simp [h0, h1]


/-! ## wave 2: bulk additions with repeated mentions -/

/-- `add_taxa` with an iterable that mentions taxa more than once (the pooled leaf taxa of two trees that share taxa), on a mutable
namespace: the old members stay in place with their bits; the newcomers are exactly the mentioned non-members, each listed ONCE
(the member list stays duplicate-free), in order of first mention, and the `k`-th newcomer gets the one bit `count + k`; the counter
grows by the number of newcomers, not of mentions -/
theorem add_taxa_repeats_spec (w : World) (hw : WInv w) (n : Nat) (s : NS) (hs : w.nss[n]? = some s) (ts : List Nat)
    (hts : ∀ t ∈ ts, t < w.labels.length) (hm : s.mutable_ = true) :
    ∃ s' new, step w (.addTaxa n ts) = (w.setNs n s', .ok) ∧ s'.taxa = s.taxa ++ new ∧ s'.taxa.Nodup ∧
      (∀ t, t ∈ new ↔ t ∈ ts ∧ t ∉ s.taxa) ∧ s'.count = s.count + new.length ∧
      (∀ k t, new[k]? = some t → s'.t2a.get t = some (s.count + k)) ∧
      (∀ x i, s.t2a.get x = some i → s'.t2a.get x = some i) := by
  have hi := hw.ns s (List.mem_of_getElem? hs)
  have hr : (Op.addTaxa n ts).refsOk w.labels.length = true := by
    simp only [Op.refsOk, List.all_eq_true, decide_eq_true_eq]; exact hts
  obtain ⟨new, h1, h2, h3, h4, h5, h6⟩ := addTaxa_new ts s hi hm
  obtain ⟨a, _, c, _, _⟩ := addTaxa_mutable ts s hi hm
  have hinv : Inv (s.addTaxa ts).1 := by
    have := winv_step hw (.addTaxa n ts)
    have hstep : step w (.addTaxa n ts) = (w.setNs n (s.addTaxa ts).1, .ok) := by
      rw [step_ns hr rfl, hs]; simp only [stepNs]
      rcases hx : s.addTaxa ts with ⟨s', r⟩
      rw [hx] at a; simp only at a; subst a; rfl
    rw [hstep] at this
    have hlt : n < w.nss.length := (List.getElem?_eq_some_iff.1 hs).1
    exact this.ns _ (by simp [World.setNs]; exact List.mem_of_getElem? (by simp [hlt] : (w.nss.set n (s.addTaxa ts).1)[n]? = some _))
  refine ⟨(s.addTaxa ts).1, new, ?_, h1, hinv.nodup, ?_, h5, h6, c⟩
  · rw [step_ns hr rfl, hs]; simp only [stepNs]
    rcases hx : s.addTaxa ts with ⟨s', r⟩
    rw [hx] at a; simp only at a; subst a; rfl
  · intro t
    constructor
    · exact h3 t
    · rintro ⟨ht, hn⟩
      rcases h4 t ht with h | h
      · exact absurd h hn
      · exact h

/-- mentioning a taxon twice in a row is mentioning it once — for every namespace, mutable or not, member or not -/
theorem add_taxa_mention_twice (w : World) (n t : Nat) (r : List Nat) :
    step w (.addTaxa n (t :: t :: r)) = step w (.addTaxa n (t :: r)) := by
  have hr : (Op.addTaxa n (t :: t :: r)).refsOk w.labels.length = (Op.addTaxa n (t :: r)).refsOk w.labels.length := by
    simp [Op.refsOk]
  cases h : (Op.addTaxa n (t :: r)).refsOk w.labels.length with
  | false => rw [step_bad h, step_bad (hr ▸ h)]
  | true =>
    rw [step_ns (hr ▸ h) rfl, step_ns h rfl]
    cases w.nss[n]? with
    | none => rfl
    | some s => simp only [stepNs, addTaxa_twice]

/-- two fresh `Taxon` objects pooled as `[c, d, c, a, d]` into the namespace a, b: members a, b, c, d — counter 4, bits 2 and 3 -/
example : (exec World.init [.mkns false [.lab "a", .lab "b"], .mk "c", .mk "d", .addTaxa 0 [2, 3, 2, 0, 3]]).nss.map
    (fun s => (s.taxa, s.count, s.t2a.get 2, s.t2a.get 3)) = [([0, 1, 2, 3], 4, some 2, some 3)] := by decide

/-! ## wave 2: taxa without a label inside histories -/

/-- taxa without a label inside histories.  In the label store of the model the empty string stands for "no label" (`Taxon()`,
`new_taxon(None)`, `taxon.label = None`; labels that ARE the empty string are outside the scope).  For every non-empty query and
either case setting such a member matches nothing — exactly what the optional-label kernel says about the label `None` — so every
lookup operation (`findall`, and with it `get_taxon`, `has_taxon_label`, `get_taxa`, `require_taxon`, removal by label, which all
run the same scan) passes it over; and it is rendered as the empty token, as `escape_nexus_token(None)` is -/
theorem unlabelled_member_spec (w : World) (n : Nat) (s : NS) (hs : w.nss[n]? = some s) (c : Option Bool) (cs ps qu : Bool)
    (q : String) (hq : q ≠ "") :
    (∀ t, w.lab t = "" → labelMatches w.lab cs q t = false ∧ labelMatches w.lab cs q t = labelMatchesO cs (some q) none) ∧
    (∃ L, step w (.find n c q) = (w, .ids L) ∧ ∀ t ∈ L, w.lab t ≠ "") ∧
    (∀ t, w.lab t = "" → s.lookupFirst w.lab c q ≠ some t) ∧
    escapeToken ps qu "" = "" := by
  have key : ∀ cs' t, w.lab t = "" → labelMatches w.lab cs' q t = false := by
    intro cs' t ht
    cases hm : labelMatches w.lab cs' q t with
    | false => rfl
    | true =>
      have := (labelMatches_iff w.lab cs' q t).1 hm
      cases cs' with
      | true => simp at this; exact absurd (this.trans ht) hq
      | false =>
        simp at this
        rw [ht] at this
        have e : pyLower "" = "" := by decide
        exact absurd (this.trans e) (pyLower_ne_empty q hq)
  refine ⟨?_, ?_, ?_, by cases ps <;> cases qu <;> decide⟩
  · intro t ht
    refine ⟨key cs t ht, ?_⟩
    rw [key cs t ht]; cases cs <;> simp [labelMatchesO]
  · have hl := lookup_spec s w.lab c q
    refine ⟨s.lookupAll w.lab c q, by rw [step_at rfl rfl hs]; rfl, ?_⟩
    intro t ht e
    rw [hl.1] at ht
    have := (List.mem_filter.1 ht).2
    rw [key _ t e] at this; cases this
  · intro t ht e
    rw [(lookup_spec s w.lab c q).2] at e
    have := List.find?_some e
    rw [key _ t ht] at this; cases this

set_option maxRecDepth 100000 in
/-- members "none", (no label), "None": the unlabelled one is not found under "none"; it keeps bit 1 -/
example : (step (exec World.init [.mkns false [.lab "none", .lab "", .lab "None"]]) (.find 0 none "none")).2 matches .ids [0, 2] := by
  decide

/-! ## wave 2: a sort that `list.sort` refuses -/

/-- a sort by label that `list.sort` refuses: exactly when the namespace has two or more members and one of them has no label.
Then `sort` (and `sort(key=label)`) answers `TypeError`; the model's own `sort` leaves everything as it is, and `sortx` — the same
refusal together with the order CPython left behind, which may be any rearrangement of the members — changes the member order only:
index maps (every bit), memo, counter and flags stay; anything that is no rearrangement, or a `sortx` on a namespace whose sort
would not be refused, is not an operation -/
theorem sort_refused_spec (w : World) (n : Nat) (s : NS) (hs : w.nss[n]? = some s) (rev : Bool) (order : List Nat) :
    (sortRefused w.lab s.taxa = true ↔ 2 ≤ s.taxa.length ∧ ∃ t ∈ s.taxa, w.lab t = "") ∧
    (sortRefused w.lab s.taxa = true →
      step w (.sort n rev) = (w, .err .typeError) ∧ step w (.sortk n .label rev) = (w, .err .typeError) ∧
      (order.Perm s.taxa → step w (.sortx n order) = (w.setNs n { s with taxa := order }, .err .typeError)) ∧
      (¬ order.Perm s.taxa → step w (.sortx n order) = (w, .bad))) ∧
    (sortRefused w.lab s.taxa = false → step w (.sortx n order) = (w, .bad)) := by
  refine ⟨?_, ?_, ?_⟩
  · simp [sortRefused]
  · intro h
    refine ⟨?_, ?_, ?_, ?_⟩
    · rw [step_at rfl rfl hs]; simp [stepNs, h]
    · rw [step_at rfl rfl hs]; simp [stepNs, h]
    · intro hp; rw [step_at rfl rfl hs]; simp [stepNs, h, List.isPerm_iff.2 hp]
    · intro hp
      have : order.isPerm s.taxa = false := by
        cases hx : order.isPerm s.taxa with
        | false => rfl
        | true => exact absurd (List.isPerm_iff.1 hx) hp
      rw [step_at rfl rfl hs]; simp [stepNs, this]
  · intro h; rw [step_at rfl rfl hs]; simp [stepNs, h]

/-- members B, A, (no label): the sort is refused; told the order A, B, (no label), the model keeps every bit -/
example : (step (exec World.init [.mkns false [.lab "B", .lab "A", .lab ""]]) (.sort 0 false)).2 matches .err .typeError := by decide
example : (step (exec World.init [.mkns false [.lab "B", .lab "A", .lab ""]]) (.sortx 0 [1, 0, 2])).1.nss.map
    (fun s => (s.taxa, s.t2a.get 0, s.t2a.get 1, s.count)) = [([1, 0, 2], some 0, some 1, 3)] := by decide

end DendroModel.C10
