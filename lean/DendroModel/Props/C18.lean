import DendroModel.Model.C18
import DendroModel.Model.C18Rates
import DendroModel.Gen.C18Kernels
/-! C18 — property theorems about the event loops of `Model/C18.lean` (the definitions `drv_c18` runs).
"Well formed" and — for Kingman / contained gene trees — "bifurcating" are facts of the model's TYPES (`BT`, `GT` are
inductive trees, `GT.join` has exactly two children), not theorems; for birth–death trees "bifurcating" is the theorem
`noUn` (no unary node survives pruning + suppression) on top of the binary constructor.  On the implementation these
clauses are judged by the oracle (`arborescence_problems`, child counts).  Determinism is definitional in the model.
Every theorem quantifies over EVERY list of draws, i.e. every behaviour of the random number generator.
Obligations are the theorems directly in `DendroModel.C18`; helper lemmas live in `DendroModel.C18.Aux`. -/
namespace DendroModel.C18
open BT

namespace Aux

theorem wicLoop_spec (q : Int) : ∀ (ws : List Int) (rnd : Int) (k i : Nat), 0 ≤ rnd → wicLoop q rnd k ws = some i →
    k ≤ i ∧ i - k < ws.length ∧ (ws.take (i - k)).sum * q ≤ rnd ∧ rnd < (ws.take (i - k + 1)).sum * q := by
  intro ws
  induction ws with
  | nil => intro rnd k i _ h; simp [wicLoop] at h
  | cons w ws ih =>
    intro rnd k i h0 h
    simp only [wicLoop] at h
    split at h
    · rename_i hlt
      simp at h; subst h
      simp
      omega
    · rename_i hge
      have hge' : 0 ≤ rnd - w * q := by omega
      obtain ⟨h1, h2, h3, h4⟩ := ih _ _ _ hge' h
      have e : i - k = (i - (k + 1)) + 1 := by omega
      rw [e]
      simp only [List.take_succ_cons, List.sum_cons, Int.add_mul, List.length_cons]
      refine ⟨by omega, by omega, by omega, by omega⟩

theorem wicLoop_total (q : Int) : ∀ (ws : List Int) (rnd : Int) (k : Nat), 0 ≤ rnd → rnd < ws.sum * q →
    ∃ i, wicLoop q rnd k ws = some i := by
  intro ws
  induction ws with
  | nil => intro rnd k h0 h; simp at h; omega
  | cons w ws ih =>
    intro rnd k h0 h
    simp only [wicLoop]
    split
    · exact ⟨k, rfl⟩
    · apply ih
      · omega
      · simp only [List.sum_cons, Int.add_mul] at h
        omega

theorem sum_nonneg : ∀ (ws : List Int), (∀ w ∈ ws, 0 ≤ w) → 0 ≤ ws.sum := by
  intro ws
  induction ws with
  | nil => simp
  | cons w ws ih =>
    intro h
    simp only [List.sum_cons]
    have := h w (by simp)
    have := ih (fun x hx => h x (by simp [hx]))
    omega

end Aux

/-! ### `weighted_index_choice` -/

/-- the returned index is in range -/
theorem wic_lt_length (p q : Int) (ws : List Int) (i : Nat) (hp : 0 ≤ p) (hs : 0 ≤ ws.sum) (h : wic p q ws = some i) :
    i < ws.length := by
  have := Aux.wicLoop_spec q ws (p * ws.sum) 0 i (Int.mul_nonneg hp hs) h
  omega

/-- characterisation: index `i` is chosen iff `u * sum(weights)` lies in the half-open interval between the
cumulative sums before and after `i` (`u = p/q`) -/
theorem wic_spec (p q : Int) (ws : List Int) (i : Nat) (hp : 0 ≤ p) (hs : 0 ≤ ws.sum) (h : wic p q ws = some i) :
    (ws.take i).sum * q ≤ p * ws.sum ∧ p * ws.sum < (ws.take (i + 1)).sum * q := by
  have := Aux.wicLoop_spec q ws (p * ws.sum) 0 i (Int.mul_nonneg hp hs) h
  simpa using this.2.2

/-- an event of rate zero is never chosen (e.g. a death when `death_rate = 0`) -/
theorem wic_pos_weight (p q : Int) (ws : List Int) (i : Nat) (hp : 0 ≤ p) (hq : 0 < q) (hs : 0 ≤ ws.sum)
    (h : wic p q ws = some i) : ∃ w, ws[i]? = some w ∧ 0 < w := by
  have hlt := wic_lt_length p q ws i hp hs h
  obtain ⟨h1, h2⟩ := wic_spec p q ws i hp hs h
  refine ⟨ws[i], by simp [hlt], ?_⟩
  rw [List.take_add_one] at h2
  simp only [List.getElem?_eq_getElem hlt, Option.toList_some, List.sum_append, List.sum_cons, List.sum_nil, Int.add_zero, Int.add_mul] at h2
  have : 0 < ws[i] * q := by omega
  exact Int.pos_of_mul_pos_left this hq

/-- for a genuine uniform draw `0 ≤ u < 1` and non-negative rates that are not all zero a choice is always made:
the fall-through (`None`) of the loop is unreachable in exact arithmetic -/
theorem wic_total (p q : Int) (ws : List Int) (hp : 0 ≤ p) (hpq : p < q) (hs : 0 < ws.sum) :
    ∃ i, wic p q ws = some i := by
  apply Aux.wicLoop_total
  · exact Int.mul_nonneg hp (by omega)
  · have := Int.mul_lt_mul_of_pos_right hpq hs
    rw [Int.mul_comm q] at this
    exact this

example : wic 5 8 [2, 1, 2, 1] = some 2 := by decide

/-- for rates with a positive sum the code's normalised choice is `wic` on the raw rates -/
theorem wicN_pos (p q : Int) (ws : List Int) (h : 0 < ws.sum) : wicN p q ws = wic p q ws := by
  unfold wicN
  rw [if_neg (by omega), if_pos h]

/-- the choice fails exactly when the rates sum to zero — the code's `ZeroDivisionError` — for every draw `0 ≤ u < 1` -/
theorem wicN_none_iff (p q : Int) (ws : List Int) (hp : 0 ≤ p) (hpq : p < q) : wicN p q ws = none ↔ ws.sum = 0 := by
  unfold wicN
  constructor
  · intro h
    split at h
    · assumption
    · rename_i hne
      exfalso
      split at h
      · rename_i hpos
        obtain ⟨i, hi⟩ := Aux.wicLoop_total q ws (p * ws.sum) 0 (Int.mul_nonneg hp (by omega)) (by
          have := Int.mul_lt_mul_of_pos_right hpq hpos
          rw [Int.mul_comm q] at this; exact this)
        unfold wic at h; rw [hi] at h; simp at h
      · rename_i hnpos
        have hneg : 0 < (ws.map (fun w => -w)).sum := by
          have : (ws.map (fun w => -w)).sum = - ws.sum := by
            clear h hne hnpos
            induction ws with
            | nil => simp
            | cons a l ih => simp [ih]; omega
          omega
        obtain ⟨i, hi⟩ := Aux.wicLoop_total q _ (p * (ws.map (fun w => -w)).sum) 0 (Int.mul_nonneg hp (by omega)) (by
          have := Int.mul_lt_mul_of_pos_right hpq hneg
          rw [Int.mul_comm q] at this; exact this)
        unfold wic at h; rw [hi] at h; simp at h
  · intro h; simp [h]

example : wicN 1 2 [3, -3] = none ∧ wicN 1 8 [-1, -3] = some 0 ∧ wicN 7 8 [-1, -3] = some 1 ∧ wicN 1 2 [2, -1] = some 0 := by decide

/-! ### growing trees: bookkeeping lemmas -/
namespace Aux

theorem aliveCount_addAlive (w : Int) (t : BT) : (t.addAlive w).aliveCount = t.aliveCount := by
  induction t with
  | tip i l a => simp [BT.addAlive, BT.aliveCount]
  | un i l c ih => simp [BT.addAlive, BT.aliveCount, ih]
  | bin i l x y ihx ihy => simp [BT.addAlive, BT.aliveCount, ihx, ihy]

theorem aliveDepths_addAlive (w : Int) (t : BT) : (t.addAlive w).aliveDepths = t.aliveDepths.map (· + w) := by
  induction t with
  | tip i l a => cases a <;> simp [BT.addAlive, BT.aliveDepths]
  | un i l c ih => simp [BT.addAlive, BT.aliveDepths, ih, List.map_map, Function.comp_def]; intro a _; omega
  | bin i l x y ihx ihy =>
    have e : (fun x : Int => x + w + l) = (fun x : Int => x + l + w) := by funext x; omega
    simp [BT.addAlive, BT.aliveDepths, ihx, ihy, List.map_map, Function.comp_def, e]

theorem splitFirst_aliveCount (i a b : Nat) (l0 : Int) : ∀ (t t' : BT), splitFirst i a b l0 t = some t' →
    t'.aliveCount = t.aliveCount + 1 := by
  intro t
  induction t with
  | tip j l al =>
    intro t' h
    simp only [BT.splitFirst] at h
    split at h
    · rename_i hc
      simp at h; subst h
      simp at hc
      simp [BT.aliveCount, hc.1]
    · simp at h
  | un j l c ih =>
    intro t' h
    simp only [BT.splitFirst, Option.map_eq_some_iff] at h
    obtain ⟨c', hc, rfl⟩ := h
    simp [BT.aliveCount, ih c' hc]
  | bin j l x y ihx ihy =>
    intro t' h
    simp only [BT.splitFirst] at h
    split at h
    · rename_i x' hx
      simp at h; subst h
      simp [BT.aliveCount, ihx x' hx]; omega
    · simp only [Option.map_eq_some_iff] at h
      obtain ⟨y', hy, rfl⟩ := h
      simp [BT.aliveCount, ihy y' hy]; omega

theorem splitFirst_depths (i a b : Nat) : ∀ (t t' : BT), splitFirst i a b 0 t = some t' →
    ∀ d ∈ t'.aliveDepths, d ∈ t.aliveDepths := by
  intro t
  induction t with
  | tip j l al =>
    intro t' h
    simp only [BT.splitFirst] at h
    split at h
    · rename_i hc
      simp at h; subst h
      simp at hc
      simp [BT.aliveDepths, hc.1]
    · simp at h
  | un j l c ih =>
    intro t' h
    simp only [BT.splitFirst, Option.map_eq_some_iff] at h
    obtain ⟨c', hc, rfl⟩ := h
    intro d hd
    simp only [BT.aliveDepths, List.mem_map] at hd ⊢
    obtain ⟨e, he, rfl⟩ := hd
    exact ⟨e, ih c' hc e he, rfl⟩
  | bin j l x y ihx ihy =>
    intro t' h
    simp only [BT.splitFirst] at h
    split at h
    · rename_i x' hx
      simp at h; subst h
      intro d hd
      simp only [BT.aliveDepths, List.mem_map, List.mem_append] at hd ⊢
      obtain ⟨e, he, rfl⟩ := hd
      rcases he with he | he
      · exact ⟨e, Or.inl (ihx x' hx e he), rfl⟩
      · exact ⟨e, Or.inr he, rfl⟩
    · simp only [Option.map_eq_some_iff] at h
      obtain ⟨y', hy, rfl⟩ := h
      intro d hd
      simp only [BT.aliveDepths, List.mem_map, List.mem_append] at hd ⊢
      obtain ⟨e, he, rfl⟩ := hd
      rcases he with he | he
      · exact ⟨e, Or.inl he, rfl⟩
      · exact ⟨e, Or.inr (ihy y' hy e he), rfl⟩

theorem killFirst_aliveCount (i : Nat) : ∀ (t t' : BT), killFirst i t = some t' →
    t'.aliveCount + 1 = t.aliveCount := by
  intro t
  induction t with
  | tip j l al =>
    intro t' h
    simp only [BT.killFirst] at h
    split at h
    · rename_i hc
      simp at h; subst h
      simp at hc
      simp [BT.aliveCount, hc.1]
    · simp at h
  | un j l c ih =>
    intro t' h
    simp only [BT.killFirst, Option.map_eq_some_iff] at h
    obtain ⟨c', hc, rfl⟩ := h
    simp [BT.aliveCount, ih c' hc]
  | bin j l x y ihx ihy =>
    intro t' h
    simp only [BT.killFirst] at h
    split at h
    · rename_i x' hx
      simp at h; subst h
      have := ihx x' hx
      simp [BT.aliveCount]; omega
    · simp only [Option.map_eq_some_iff] at h
      obtain ⟨y', hy, rfl⟩ := h
      have := ihy y' hy
      simp [BT.aliveCount]; omega

theorem killFirst_depths (i : Nat) : ∀ (t t' : BT), killFirst i t = some t' →
    ∀ d ∈ t'.aliveDepths, d ∈ t.aliveDepths := by
  intro t
  induction t with
  | tip j l al =>
    intro t' h
    simp only [BT.killFirst] at h
    split at h
    · simp at h; subst h
      simp [BT.aliveDepths]
    · simp at h
  | un j l c ih =>
    intro t' h
    simp only [BT.killFirst, Option.map_eq_some_iff] at h
    obtain ⟨c', hc, rfl⟩ := h
    intro d hd
    simp only [BT.aliveDepths, List.mem_map] at hd ⊢
    obtain ⟨e, he, rfl⟩ := hd
    exact ⟨e, ih c' hc e he, rfl⟩
  | bin j l x y ihx ihy =>
    intro t' h
    simp only [BT.killFirst] at h
    split at h
    · rename_i x' hx
      simp at h; subst h
      intro d hd
      simp only [BT.aliveDepths, List.mem_map, List.mem_append] at hd ⊢
      obtain ⟨e, he, rfl⟩ := hd
      rcases he with he | he
      · exact ⟨e, Or.inl (ihx x' hx e he), rfl⟩
      · exact ⟨e, Or.inr he, rfl⟩
    · simp only [Option.map_eq_some_iff] at h
      obtain ⟨y', hy, rfl⟩ := h
      intro d hd
      simp only [BT.aliveDepths, List.mem_map, List.mem_append] at hd ⊢
      obtain ⟨e, he, rfl⟩ := hd
      rcases he with he | he
      · exact ⟨e, Or.inl he, rfl⟩
      · exact ⟨e, Or.inr (ihy y' hy e he), rfl⟩

end Aux

namespace Aux

theorem aliveDepths_length (t : BT) : t.aliveDepths.length = t.aliveCount := by
  induction t with
  | tip i l a => cases a <;> simp [BT.aliveDepths, BT.aliveCount]
  | un i l c ih => simp [BT.aliveDepths, BT.aliveCount, ih]
  | bin i l x y ihx ihy => simp [BT.aliveDepths, BT.aliveCount, ihx, ihy]

theorem prune_none : ∀ (t : BT), prune t = none → t.aliveCount = 0 ∧ t.aliveDepths = [] := by
  intro t
  induction t with
  | tip i l a => intro h; cases a <;> simp [BT.prune] at h; simp [BT.aliveCount, BT.aliveDepths]
  | un i l c ih => intro h; simp [BT.prune] at h; simp [BT.aliveCount, BT.aliveDepths, ih h]
  | bin i l x y ihx ihy =>
    intro h
    simp only [BT.prune] at h
    split at h <;> try (simp at h)
    rename_i hx hy
    simp [BT.aliveCount, BT.aliveDepths, ihx hx, ihy hy]

theorem prune_some : ∀ (t t' : BT), prune t = some t' →
    t'.nLeaves = t.aliveCount ∧ t'.aliveDepths = t.aliveDepths ∧ t'.aliveCount = t'.nLeaves := by
  intro t
  induction t with
  | tip i l a =>
    intro t' h
    cases a <;> simp [BT.prune] at h
    subst h; simp [BT.nLeaves, BT.aliveCount, BT.aliveDepths]
  | un i l c ih =>
    intro t' h
    simp only [BT.prune, Option.map_eq_some_iff] at h
    obtain ⟨c', hc, rfl⟩ := h
    obtain ⟨h1, h2, h3⟩ := ih c' hc
    simp [BT.nLeaves, BT.aliveCount, BT.aliveDepths, h1, h2, h3]
  | bin i l x y ihx ihy =>
    intro t' h
    simp only [BT.prune] at h
    split at h
    · rename_i x' y' hx hy
      simp at h; subst h
      obtain ⟨a1, a2, a3⟩ := ihx x' hx
      obtain ⟨b1, b2, b3⟩ := ihy y' hy
      simp [BT.nLeaves, BT.aliveCount, BT.aliveDepths, a1, a2, a3, b1, b2, b3]
    · rename_i x' hx hy
      simp at h; subst h
      obtain ⟨a1, a2, a3⟩ := ihx x' hx
      obtain ⟨b1, b2⟩ := prune_none y hy
      simp [BT.nLeaves, BT.aliveCount, BT.aliveDepths, a1, a2, a3, b1, b2]
    · rename_i y' hx hy
      simp at h; subst h
      obtain ⟨a1, a2⟩ := prune_none x hx
      obtain ⟨b1, b2, b3⟩ := ihy y' hy
      simp [BT.nLeaves, BT.aliveCount, BT.aliveDepths, a1, a2, b1, b2, b3]
    · simp at h

theorem addLen_props (w : Int) (t : BT) : (t.addLen w).nLeaves = t.nLeaves ∧ (t.addLen w).aliveCount = t.aliveCount ∧
    (t.addLen w).noUn = t.noUn ∧ (t.addLen w).aliveDepths = t.aliveDepths.map (· + w) := by
  cases t with
  | tip i l a => cases a <;> simp [BT.addLen, BT.nLeaves, BT.aliveCount, BT.noUn, BT.aliveDepths]
  | un i l c =>
    have e : (fun x : Int => x + (l + w)) = (fun x : Int => x + l + w) := by funext x; omega
    simp [BT.addLen, BT.nLeaves, BT.aliveCount, BT.noUn, BT.aliveDepths, List.map_map, Function.comp_def, e]
  | bin i l x y =>
    have e : (fun x : Int => x + (l + w)) = (fun x : Int => x + l + w) := by funext x; omega
    simp [BT.addLen, BT.nLeaves, BT.aliveCount, BT.noUn, BT.aliveDepths, List.map_map, Function.comp_def, e]

/-- `suppress_unifurcations` removes every unary node and changes neither the leaves nor their depths -/
theorem suppress_props (t : BT) : (suppress t).noUn = true ∧ (suppress t).nLeaves = t.nLeaves ∧
    (suppress t).aliveCount = t.aliveCount ∧ (suppress t).aliveDepths = t.aliveDepths := by
  induction t with
  | tip i l a => simp [BT.suppress, BT.noUn]
  | un i l c ih =>
    obtain ⟨h1, h2, h3, h4⟩ := ih
    obtain ⟨a1, a2, a3, a4⟩ := addLen_props l (suppress c)
    simp [BT.suppress, a1, a2, a3, a4, h1, h2, h3, h4, BT.nLeaves, BT.aliveCount, BT.aliveDepths]
  | bin i l x y ihx ihy =>
    obtain ⟨h1, h2, h3, h4⟩ := ihx
    obtain ⟨b1, b2, b3, b4⟩ := ihy
    simp [BT.suppress, BT.noUn, BT.nLeaves, BT.aliveCount, BT.aliveDepths, h1, h2, h3, h4, b1, b2, b3, b4]

theorem nodupB_nodup : ∀ (l : List Nat), nodupB l = true → l.Nodup := by
  intro l
  induction l with
  | nil => simp
  | cons x xs ih =>
    intro h
    simp [nodupB] at h
    exact List.nodup_cons.mpr ⟨h.1, ih h.2⟩

theorem assignLoop_fst : ∀ (ls pool : List Nat) (next : Nat), (assignLoop pool next ls).map Prod.fst = ls := by
  intro ls
  induction ls with
  | nil => intro pool next; cases pool <;> simp [assignLoop]
  | cons l ls ih =>
    intro pool next
    cases pool with
    | nil => simp [assignLoop, ih]
    | cons t pool => simp [assignLoop, ih]

theorem assignLoop_snd : ∀ (ls pool : List Nat) (next : Nat), pool.Nodup → (∀ x ∈ pool, x < next) →
    ((assignLoop pool next ls).map Prod.snd).Nodup ∧ ∀ t ∈ (assignLoop pool next ls).map Prod.snd, t ∈ pool ∨ next ≤ t := by
  intro ls
  induction ls with
  | nil => intro pool next _ _; cases pool <;> simp [assignLoop]
  | cons l ls ih =>
    intro pool next hnd hlt
    cases pool with
    | nil =>
      obtain ⟨h1, h2⟩ := ih [] (next + 1) (by simp) (by simp)
      simp only [assignLoop, List.map_cons]
      refine ⟨List.nodup_cons.mpr ⟨?_, h1⟩, ?_⟩
      · intro hm
        rcases h2 next hm with h | h
        · simp at h
        · omega
      · intro t ht
        simp at ht
        rcases ht with rfl | ht
        · right; omega
        · rcases h2 t (by simpa using ht) with h | h
          · simp at h
          · right; omega
    | cons t pool =>
      have hnd' := List.nodup_cons.mp hnd
      obtain ⟨h1, h2⟩ := ih pool next hnd'.2 (fun x hx => hlt x (by simp [hx]))
      simp only [assignLoop, List.map_cons]
      refine ⟨List.nodup_cons.mpr ⟨?_, h1⟩, ?_⟩
      · intro hm
        rcases h2 t hm with h | h
        · exact hnd'.1 h
        · have := hlt t (by simp); omega
      · intro x hx
        simp at hx
        rcases hx with rfl | hx
        · left; simp
        · rcases h2 x (by simpa using hx) with h | h
          · left; simp [h]
          · right; exact h

theorem assignTaxa_props (n0 m : Nat) (p1 p2 : List Nat) (a : List (Nat × Nat)) (h : assignTaxa n0 m p1 p2 = some a) :
    (a.map Prod.snd).Nodup ∧ a.map Prod.fst = p2 ∧ isPerm m p2 = true := by
  unfold assignTaxa at h
  split at h
  · rename_i hp
    simp at h; subst h
    simp only [Bool.and_eq_true] at hp
    obtain ⟨hp1, hp2⟩ := hp
    have hp1' := hp1
    simp only [isPerm, Bool.and_eq_true, List.all_eq_true, decide_eq_true_eq] at hp1'
    have hnd : p1.reverse.Nodup := (List.reverse_perm p1).nodup_iff.mpr (nodupB_nodup p1 hp1'.2)
    have hlt : ∀ x ∈ p1.reverse, x < n0 := by
      intro x hx
      exact hp1'.1.2 x (by simpa using hx)
    exact ⟨(assignLoop_snd p2 p1.reverse n0 hnd hlt).1, assignLoop_fst _ _ _, hp2⟩
  · simp at h
end Aux

namespace Aux
theorem birth_not_fuel (s : BDState) (nd : Tip) (rest : List Tip) (ds : List Draw) : bdBirth s nd rest ds ≠ .error .fuel := by
  unfold bdBirth
  split
  · split <;> simp
  · split <;> simp
theorem death_not_fuel (P : BDParams) (s : BDState) (nd : Tip) (rest : List Tip) (ds : List Draw) : bdDeath P s nd rest ds ≠ .error .fuel := by
  unfold bdDeath
  split
  · simp
  · split <;> simp
theorem event_not_fuel (P : BDParams) (s : BDState) (ds : List Draw) : bdEvent P s ds ≠ .error .fuel := by
  unfold bdEvent
  split
  · simp
  split
  · simp
  · split
    · simp
    · split
      · simp
      · split
        · simp
        · split
          · exact birth_not_fuel _ _ _ _
          · exact death_not_fuel _ _ _ _ _
  · simp
theorem iter_not_fuel (P : BDParams) (s : BDState) (ds : List Draw) : bdIter P s ds ≠ .error .fuel := by
  unfold bdIter
  split
  · simp
  · split
    · simp
    · split
      · simp
      · simp only
        split
        · exact event_not_fuel _ _ _
        · simp
    · simp
end Aux

/-! ### `birth_death_tree` -/
namespace Aux
theorem removeTip_length (i : Nat) : ∀ (l : List Tip), (∃ t ∈ l, t.id = i) → (removeTip i l).length + 1 = l.length := by
  intro l
  induction l with
  | nil => intro h; simp at h
  | cons t ts ih =>
    intro h
    simp only [removeTip]
    split
    · simp
    · rename_i hne
      simp at hne
      obtain ⟨x, hx, hxi⟩ := h
      simp at hx
      rcases hx with rfl | hx
      · exact absurd hxi hne
      · simp [ih ⟨x, hx, hxi⟩]

end Aux

/-- the loop invariant of `birth_death_tree` -/
structure Inv (P : BDParams) (s : BDState) : Prop where
  /-- `extant_tips` has one entry per tip flagged extant -/
  count : s.extant.length = s.tree.aliveCount
  /-- every extant tip is at depth `total_time + c` below the top of the seed's own edge, `c` fixed: the common depth of the
  extant tips of the start tree (`GoodStart.equi`; 0 for a fresh tree).  The restart returns to the start tree, so `c` survives it. -/
  depth : ∃ c, ∀ d ∈ s.tree.aliveDepths, d = s.total + c
  pos : 1 ≤ s.extant.length
  cap : ∀ n, P.nTips = some n → 1 ≤ n → s.extant.length ≤ n

/-- admissible `tree=` argument (start tree) for the given stopping rules: at least one extant tip, extant tips equidistant
and no extinct tip deeper, not more tips than the rules ask for, distinct ids on the extant tips, no unary node.
The default start (a single fresh seed node) is admissible: `goodStart_default`. -/
structure GoodStart (P : BDParams) : Prop where
  alive1 : 1 ≤ P.start.aliveCount
  equi : ∃ D, (∀ d ∈ P.start.aliveDepths, d = D) ∧ (∀ d ∈ P.start.deadDepths, d ≤ D)
  capN : ∀ n, P.nTips = some n → 1 ≤ n → P.start.aliveCount ≤ n
  capX : ∀ k, P.nExtinct = some k → 1 ≤ k → P.start.deadIds.length ≤ k
  capT : ∀ k, P.nTotal = some k → 1 ≤ k → P.start.aliveCount + P.start.deadIds.length ≤ k
  nodup : P.start.aliveIds.Nodup
  noUn : P.start.noUn = true

theorem goodStart_default (P : BDParams) (h : P.start = .tip 0 0 true) : GoodStart P := by
  refine ⟨by simp [h, BT.aliveCount], ⟨0, by simp [h, BT.aliveDepths], by simp [h, BT.deadDepths]⟩, ?_, by simp [h, BT.deadIds],
    ?_, by simp [h, BT.aliveIds], by simp [h, BT.noUn]⟩
  · intro n _ h1; simpa [h, BT.aliveCount] using h1
  · intro k _ h1; simpa [h, BT.aliveCount, BT.deadIds] using h1

namespace Aux
theorem aliveIds_length (t : BT) : t.aliveIds.length = t.aliveCount := by
  induction t with
  | tip i l a => cases a <;> simp [BT.aliveIds, BT.aliveCount]
  | un i l c ih => simpa [BT.aliveIds, BT.aliveCount] using ih
  | bin i l x y ihx ihy => simp [BT.aliveIds, BT.aliveCount, ihx, ihy]

theorem deadIds_length (t : BT) : t.deadIds.length + t.aliveCount = t.nLeaves := by
  induction t with
  | tip i l a => cases a <;> simp [BT.deadIds, BT.aliveCount, BT.nLeaves]
  | un i l c ih => simpa [BT.deadIds, BT.aliveCount, BT.nLeaves] using ih
  | bin i l x y ihx ihy => simp [BT.deadIds, BT.aliveCount, BT.nLeaves]; omega

theorem aliveIds_le (t : BT) : ∀ i ∈ t.aliveIds, i ≤ t.maxId := by
  induction t with
  | tip j l a => intro i hi; cases a <;> simp [BT.aliveIds] at hi; simp [BT.maxId, hi]
  | un j l c ih =>
    intro i hi
    exact Nat.le_trans (ih i (by simpa [BT.aliveIds] using hi)) (Nat.le_max_right _ _)
  | bin j l x y ihx ihy =>
    intro i hi
    simp only [BT.aliveIds, List.mem_append] at hi
    simp only [BT.maxId]
    rcases hi with h | h
    · exact Nat.le_trans (ihx i h) (Nat.le_trans (Nat.le_max_left _ _) (Nat.le_max_right _ _))
    · exact Nat.le_trans (ihy i h) (Nat.le_trans (Nat.le_max_right _ _) (Nat.le_max_right _ _))

theorem hasAlive_of_mem (t : BT) : ∀ i ∈ t.aliveIds, t.hasAlive i = true := by
  induction t with
  | tip j l a => intro i hi; cases a <;> simp [BT.aliveIds] at hi; simp [BT.hasAlive, hi]
  | un j l c ih => intro i hi; simpa [BT.hasAlive] using ih i (by simpa [BT.aliveIds] using hi)
  | bin j l x y ihx ihy =>
    intro i hi
    simp only [BT.aliveIds, List.mem_append] at hi
    simp only [BT.hasAlive, Bool.or_eq_true]
    rcases hi with h | h
    · exact Or.inl (ihx i h)
    · exact Or.inr (ihy i h)
end Aux

theorem bd_init_inv (P : BDParams) (hG : GoodStart P) : Inv P (bdInit P) := by
  obtain ⟨D, hD, _⟩ := hG.equi
  refine ⟨by simp [bdInit, Aux.aliveIds_length], ⟨D, by simpa [bdInit] using hD⟩, by simpa [bdInit, Aux.aliveIds_length] using hG.alive1, ?_⟩
  intro n hn h1; simpa [bdInit, Aux.aliveIds_length] using hG.capN n hn h1

/-- the restart after total extinction re-establishes the invariant from *any* state.  In the model this is immediate: `bdRestart`
IS the initial state again (only the id counter moves on) — the restart restores the start tree.  That the CODE does so is not a
theorem: it is what the correspondence compares on forced-extinction scripts (and what repository fix 915c8a5e made true). -/
theorem restart_resets (P : BDParams) (hG : GoodStart P) (s : BDState) : Inv P (bdRestart P s) := by
  have := bd_init_inv P hG
  exact ⟨this.count, this.depth, this.pos, this.cap⟩

namespace Aux
theorem stop_false_cap (P : BDParams) (k : Nat) (tot : Int) (h : bdStop P k tot = false) :
    ∀ n, P.nTips = some n → k < n := by
  intro n hn
  simp [bdStop, hn] at h
  omega
end Aux

namespace Aux
theorem birth_inv (P : BDParams) (s s' : BDState) (nd : Tip) (ds ds' : List Draw)
    (hcount : s.extant.length = s.tree.aliveCount) (c : Int) (hdepth : ∀ d ∈ s.tree.aliveDepths, d = s.total + c)
    (hmem : ∃ t ∈ s.extant, t.id = nd.id) (hlt : ∀ n, P.nTips = some n → s.extant.length < n)
    (h : bdBirth s nd (removeTip nd.id s.extant) ds = .ok (.cont s' ds')) : Inv P s' ∧ ds'.length < ds.length := by
  have hrm := removeTip_length nd.id s.extant hmem
  unfold bdBirth at h
  split at h
  · rename_i g1 g2 g3 g4 ds3
    split at h
    · simp at h
    · rename_i t ht
      simp at h
      obtain ⟨rfl, rfl⟩ := h
      refine ⟨⟨?_, ⟨c, ?_⟩, ?_, ?_⟩, ?_⟩
      · simp [splitFirst_aliveCount _ _ _ _ _ _ ht]; omega
      · intro d hd
        exact hdepth d (splitFirst_depths _ _ _ _ _ ht d hd)
      · simp
      · intro n hn h1
        have := hlt n hn
        simp; omega
      · simp; omega
  · simp at h

theorem death_inv (P : BDParams) (hG : GoodStart P) (s s' : BDState) (nd : Tip) (ds ds' : List Draw)
    (hcount : s.extant.length = s.tree.aliveCount) (c : Int) (hdepth : ∀ d ∈ s.tree.aliveDepths, d = s.total + c)
    (hmem : ∃ t ∈ s.extant, t.id = nd.id) (hlt : ∀ n, P.nTips = some n → s.extant.length < n)
    (h : bdDeath P s nd (removeTip nd.id s.extant) ds = .ok (.cont s' ds')) : Inv P s' ∧ ds'.length ≤ ds.length := by
  have hrm := removeTip_length nd.id s.extant hmem
  unfold bdDeath at h
  split at h
  · simp at h
    obtain ⟨rfl, rfl⟩ := h
    exact ⟨restart_resets P hG _, by simp⟩
  · rename_i hne
    split at h
    · simp at h
    · rename_i t ht
      simp at h
      obtain ⟨rfl, rfl⟩ := h
      refine ⟨⟨?_, ⟨c, ?_⟩, ?_, ?_⟩, ?_⟩
      · have := killFirst_aliveCount _ _ _ ht
        simp; omega
      · intro d hd
        exact hdepth d (killFirst_depths _ _ _ ht d hd)
      · simp at hne
        simp
        cases hr : removeTip nd.id s.extant with
        | nil => exact absurd hr hne
        | cons a b => simp
      · intro n hn h1
        have := hlt n hn
        simp; omega
      · simp

theorem event_inv (P : BDParams) (hG : GoodStart P) (s s' : BDState) (ds ds' : List Draw)
    (hcount : s.extant.length = s.tree.aliveCount) (c : Int) (hdepth : ∀ d ∈ s.tree.aliveDepths, d = s.total + c)
    (hlt : ∀ n, P.nTips = some n → s.extant.length < n)
    (h : bdEvent P s ds = .ok (.cont s' ds')) : Inv P s' ∧ ds'.length < ds.length := by
  unfold bdEvent at h
  split at h
  · simp at h
  split at h
  · simp at h
  · rename_i p q ds2
    split at h
    · simp at h
    split at h
    · simp at h
    · rename_i k hk
      split at h
      · simp at h
      · rename_i nd hnd
        have hmem : ∃ t ∈ s.extant, t.id = nd.id := ⟨nd, List.mem_of_getElem? hnd, rfl⟩
        split at h
        · have := birth_inv P s s' nd ds2 ds' hcount c hdepth hmem hlt h
          exact ⟨this.1, by simp; omega⟩
        · have := death_inv P hG s s' nd ds2 ds' hcount c hdepth hmem hlt h
          exact ⟨this.1, by simp; omega⟩
  · simp at h
end Aux

/-- one pass through the loop body keeps the invariant and consumes at least one draw -/
theorem bd_inv (P : BDParams) (hG : GoodStart P) (s s' : BDState) (ds ds' : List Draw) (hI : Inv P s)
    (h : bdIter P s ds = .ok (.cont s' ds')) : Inv P s' ∧ ds'.length < ds.length := by
  obtain ⟨hcount, ⟨c, hdepth⟩, hpos, hcap⟩ := hI
  unfold bdIter at h
  split at h
  · simp at h
  rename_i hstop
  simp at hstop
  have hlt := Aux.stop_false_cap P _ _ hstop.1
  split at h
  · simp at h
  · rename_i w ds1
    split at h
    · simp at h
    have hd1 : ∀ d ∈ (s.tree.addAlive w).aliveDepths, d = s.total + w + c := by
      intro d hd
      rw [Aux.aliveDepths_addAlive] at hd
      simp only [List.mem_map] at hd
      obtain ⟨e, he, rfl⟩ := hd
      have := hdepth e he
      omega
    simp only at h
    split at h
    · have := Aux.event_inv P hG _ s' ds1 ds' (by simpa [Aux.aliveCount_addAlive] using hcount) c (by simpa using hd1) (by simpa using hlt) h
      exact ⟨this.1, by simp; omega⟩
    · simp at h
      obtain ⟨rfl, rfl⟩ := h
      refine ⟨⟨?_, ⟨c, ?_⟩, ?_, ?_⟩, ?_⟩
      · simp [Aux.aliveCount_addAlive, hcount]
      · simpa using hd1
      · simpa using hpos
      · simpa using hcap
      · simp
  · simp at h

/-- leaving the loop: the state is unchanged and a termination test holds -/
theorem bd_done (P : BDParams) (s s' : BDState) (ds ds' : List Draw) (h : bdIter P s ds = .ok (.done s' ds')) :
    s' = s ∧ ds' = ds ∧ (bdStop P s.extant.length s.total || xStop P s.extant.length s.extinct.length) = true := by
  unfold bdIter at h
  split at h
  · rename_i hs
    simp at h
    exact ⟨h.1.symm, h.2.symm, hs⟩
  · split at h
    · simp at h
    · split at h
      · simp at h
      · simp only at h
        split at h
        · rename_i w ds1 _ _
          exfalso
          unfold bdEvent at h
          split at h
          · simp at h
          split at h
          · simp at h
          · split at h
            · simp at h
            split at h
            · simp at h
            · split at h
              · simp at h
              · split at h
                · unfold bdBirth at h
                  split at h
                  · split at h <;> simp at h
                  · simp at h
                · unfold bdDeath at h
                  split at h
                  · simp at h
                  · split at h <;> simp at h
          · simp at h
        · simp at h
    · simp at h

/-- the whole loop: on exit the invariant holds and a termination test fired -/
theorem bd_loop_inv (P : BDParams) (hG : GoodStart P) : ∀ (f : Nat) (s s' : BDState) (ds ds' : List Draw), Inv P s →
    bdLoop P f s ds = .ok (s', ds') → Inv P s' ∧ (bdStop P s'.extant.length s'.total || xStop P s'.extant.length s'.extinct.length) = true := by
  intro f
  induction f with
  | zero => intro s s' ds ds' _ h; simp [bdLoop] at h
  | succ f ih =>
    intro s s' ds ds' hI h
    simp only [bdLoop] at h
    split at h
    · simp at h
    · rename_i s1 ds1 hit
      simp at h
      obtain ⟨rfl, rfl⟩ := h
      obtain ⟨rfl, _, hs⟩ := bd_done P s s1 ds ds1 hit
      exact ⟨hI, hs⟩
    · rename_i s1 ds1 hit
      exact ih s1 s' ds1 ds' (bd_inv P hG s s1 ds ds1 hI hit).1 h



/-- the fuel `draws.length + 1` given by `bdRun` is never exhausted: every pass consumes a draw -/
theorem bd_fuel_suffices (P : BDParams) (hG : GoodStart P) : ∀ (f : Nat) (s : BDState) (ds : List Draw), Inv P s → ds.length < f →
    bdLoop P f s ds ≠ .error .fuel := by
  intro f
  induction f with
  | zero => intro s ds _ h; omega
  | succ f ih =>
    intro s ds hI hlen
    simp only [bdLoop]
    split
    · rename_i e he
      intro h
      simp at h
      subst h
      exact Aux.iter_not_fuel P s ds he
    · simp
    · rename_i s1 ds1 hit
      have := bd_inv P hG s s1 ds ds1 hI hit
      exact ih s1 ds1 this.1 (by omega)

namespace Aux
/-- what `finish` (pruning, suppression, assignment) guarantees, given the facts about the grown tree -/
theorem finish_props (n0 : Nat) (t : BT) (ds : List Draw) (r : SimResult) (h : finish n0 t ds = .ok r) :
    r.tree.noUn = true ∧ r.tree.nLeaves = t.aliveCount ∧ r.tree.aliveCount = r.tree.nLeaves ∧
    r.tree.aliveDepths = t.aliveDepths ∧ (r.taxa.map Prod.snd).Nodup ∧ isPerm r.tree.nLeaves (r.taxa.map Prod.fst) = true := by
  unfold finish at h
  split at h
  · simp at h
  · rename_i t1 ht1
    obtain ⟨a1, a2, a3⟩ := prune_some t t1 ht1
    obtain ⟨b1, b2, b3, b4⟩ := suppress_props t1
    simp only at h
    split at h
    · rename_i p1 p2
      split at h
      · rename_i a ha
        simp at h; subst h
        obtain ⟨c1, c2, c3⟩ := assignTaxa_props _ _ _ _ _ ha
        refine ⟨b1, by simp [b2, a1], by simp [b2, b3, a3], by simp [b4, a2], c1, by simpa [c2] using c3⟩
      · simp at h
    · simp at h
end Aux

/-- **birth–death trees, every stopping rule, every draw list, every admissible start tree** (`GoodStart P`: ultrametric, not
more extant tips than asked for; the default fresh tree is admissible by `goodStart_default`; the driver op `bdt` can also build
inadmissible starts, about which nothing is claimed), extinct tips pruned (`P.retain = false`): the returned tree has no unary node (with the binary
constructor: it is bifurcating), every leaf is an extant tip, all leaves lie at one and the same depth below the top of
the seed edge (hence at the same distance from the root), every leaf position `0..nLeaves-1` receives a taxon, and
the taxa are pairwise distinct. -/
theorem bd_result (P : BDParams) (hG : GoodStart P) (n0 : Nat) (ds : List Draw) (r : SimResult) (hr : P.retain = false) (h : bdRun P n0 ds = .ok r) :
    r.tree.noUn = true ∧ r.tree.aliveCount = r.tree.nLeaves ∧ r.tree.aliveDepths.length = r.tree.nLeaves ∧
    (∃ D, ∀ d ∈ r.tree.aliveDepths, d = D) ∧
    (r.taxa.map Prod.snd).Nodup ∧ isPerm r.tree.nLeaves (r.taxa.map Prod.fst) = true := by
  unfold bdRun at h
  split at h
  · simp at h
  · rename_i s rest hl
    obtain ⟨hI, _⟩ := bd_loop_inv P hG _ _ _ _ _ (bd_init_inv P hG) hl
    simp only [hr, Bool.false_eq_true, if_false] at h
    obtain ⟨f1, f2, f3, f4, f5, f6⟩ := Aux.finish_props n0 s.tree rest r h
    obtain ⟨c, hc⟩ := hI.depth
    refine ⟨f1, f3, by rw [Aux.aliveDepths_length, f3], ⟨s.total + c, by rw [f4]; exact hc⟩, f5, f6⟩

/-- **grown to N extant tips** (`num_extant_tips = N ≥ 1`, no `max_time`): exactly `N` leaves -/
theorem bd_result_count (P : BDParams) (hG : GoodStart P) (n0 n : Nat) (ds : List Draw) (r : SimResult) (h : bdRun P n0 ds = .ok r)
    (hn : P.nTips = some n) (h1 : 1 ≤ n) (hm : P.maxTime = none) (hx : P.nExtinct = none) (ht : P.nTotal = none)
    (hr : P.retain = false) : r.tree.nLeaves = n := by
  unfold bdRun at h
  split at h
  · simp at h
  · rename_i s rest hl
    obtain ⟨hI, hstop⟩ := bd_loop_inv P hG _ _ _ _ _ (bd_init_inv P hG) hl
    simp only [hr, Bool.false_eq_true, if_false] at h
    obtain ⟨f1, f2, f3, f4, f5, f6⟩ := Aux.finish_props n0 s.tree rest r h
    have hcap := hI.cap n hn h1
    simp [bdStop, xStop, hn, hm, hx, ht] at hstop
    rw [f2, ← hI.count]
    omega

/-- with `max_time` as well, the tip-count rule still caps the tree at `N` leaves -/
theorem bd_result_count_le (P : BDParams) (hG : GoodStart P) (n0 n : Nat) (ds : List Draw) (r : SimResult) (h : bdRun P n0 ds = .ok r)
    (hn : P.nTips = some n) (h1 : 1 ≤ n) (hr : P.retain = false) : 1 ≤ r.tree.nLeaves ∧ r.tree.nLeaves ≤ n := by
  unfold bdRun at h
  split at h
  · simp at h
  · rename_i s rest hl
    obtain ⟨hI, hstop⟩ := bd_loop_inv P hG _ _ _ _ _ (bd_init_inv P hG) hl
    simp only [hr, Bool.false_eq_true, if_false] at h
    obtain ⟨f1, f2, f3, f4, f5, f6⟩ := Aux.finish_props n0 s.tree rest r h
    have hcap := hI.cap n hn h1
    have := hI.pos
    rw [f2, ← hI.count]
    omega

/-- distances from the root node (the seed's own edge not counted) -/
def rootDists (t : BT) : List Int := t.aliveDepths.map (· - t.len)

/-- equidistance from the root, in the form the statement uses -/
theorem bd_result_root (P : BDParams) (hG : GoodStart P) (n0 : Nat) (ds : List Draw) (r : SimResult) (hr : P.retain = false) (h : bdRun P n0 ds = .ok r) :
    ∃ D, ∀ d ∈ rootDists r.tree, d = D := by
  obtain ⟨_, _, _, ⟨D, hD⟩, _⟩ := bd_result P hG n0 ds r hr h
  refine ⟨D - r.tree.len, ?_⟩
  intro d hd
  simp only [rootDists, List.mem_map] at hd
  obtain ⟨e, he, rfl⟩ := hd
  rw [hD e he]

/-- non-vacuity: a run with a death of one of two lineages, then a birth; 3 tips at equal depth, distinct taxa -/
example : (bdRun { nTips := some 3, maxTime := none, b := 2, d := 1 } 1
    [.w 4, .u 1 8, .g 0, .g 0, .g 0, .g 0, .w 2, .u 7 8, .w 1, .u 1 8, .g 0, .g 0, .g 0, .g 0,
     .w 3, .u 1 8, .g 0, .g 0, .g 0, .g 0, .perm [0], .perm [2, 0, 1]]).toOption.map
      (fun r => (r.tree.nLeaves, r.tree.aliveDepths, r.taxa)) = some (3, [10, 10, 10], [(2, 0), (0, 1), (1, 2)]) := by decide

/-- non-vacuity: total extinction of the single lineage, restart, then growth to two tips -/
example : (bdRun { nTips := some 2, maxTime := none, b := 2, d := 1 } 0 [.w 4, .u 7 8, .w 1, .u 1 8, .g 0, .g 0, .g 0, .g 0, .perm [], .perm [1, 0]]).toOption.map
      (fun r => (r.tree.nLeaves, r.tree.len, rootDists r.tree)) = some (2, 1, [0, 0]) := by decide

/-! ### `fast_birth_death_tree` -/

namespace Aux

theorem closeAlive_count (T : Int) (t : BT) : (t.closeAlive T).aliveCount = t.aliveCount := by
  induction t with
  | tip i l a => simp [BT.closeAlive, BT.aliveCount]
  | un i l c ih => simp [BT.closeAlive, BT.aliveCount, ih]
  | bin i l x y ihx ihy => simp [BT.closeAlive, BT.aliveCount, ihx, ihy]

/-- advancing the clock by `w` moves every open tip `w` further down -/
theorem closeAlive_shift (T w : Int) (t : BT) :
    (t.closeAlive (T + w)).aliveDepths = (t.closeAlive T).aliveDepths.map (· + w) := by
  induction t with
  | tip i l a => cases a <;> simp [BT.closeAlive, BT.aliveDepths]; omega
  | un i l c ih =>
    have e : (fun x : Int => x + w + l) = (fun x : Int => x + l + w) := by funext x; omega
    simp [BT.closeAlive, BT.aliveDepths, ih, List.map_map, Function.comp_def, e]
  | bin i l x y ihx ihy =>
    have e : (fun x : Int => x + w + l) = (fun x : Int => x + l + w) := by funext x; omega
    simp [BT.closeAlive, BT.aliveDepths, ihx, ihy, List.map_map, Function.comp_def, e]

theorem splitFast_aliveCount (i a b : Nat) (T : Int) : ∀ (t t' : BT), splitFast i a b T t = some t' →
    t'.aliveCount = t.aliveCount + 1 := by
  intro t
  induction t with
  | tip j l al =>
    intro t' h
    simp only [BT.splitFast] at h
    split at h
    · rename_i hc
      simp at h; subst h
      simp at hc
      simp [BT.aliveCount, hc.1]
    · simp at h
  | un j l c ih =>
    intro t' h
    simp only [BT.splitFast, Option.map_eq_some_iff] at h
    obtain ⟨c', hc, rfl⟩ := h
    simp [BT.aliveCount, ih c' hc]
  | bin j l x y ihx ihy =>
    intro t' h
    simp only [BT.splitFast] at h
    split at h
    · rename_i x' hx
      simp at h; subst h
      simp [BT.aliveCount, ihx x' hx]; omega
    · simp only [Option.map_eq_some_iff] at h
      obtain ⟨y', hy, rfl⟩ := h
      simp [BT.aliveCount, ihy y' hy]; omega

/-- closed at the time of the split, the daughters sit exactly where the split tip sat -/
theorem splitFast_depths (i a b : Nat) (T : Int) : ∀ (t t' : BT), splitFast i a b T t = some t' →
    ∀ d ∈ (t'.closeAlive T).aliveDepths, d ∈ (t.closeAlive T).aliveDepths := by
  intro t
  induction t with
  | tip j l al =>
    intro t' h
    simp only [BT.splitFast] at h
    split at h
    · rename_i hc
      simp at h; subst h
      simp at hc
      simp [BT.closeAlive, BT.aliveDepths, hc.1]
    · simp at h
  | un j l c ih =>
    intro t' h
    simp only [BT.splitFast, Option.map_eq_some_iff] at h
    obtain ⟨c', hc, rfl⟩ := h
    intro d hd
    simp only [BT.closeAlive, BT.aliveDepths, List.mem_map] at hd ⊢
    obtain ⟨e, he, rfl⟩ := hd
    exact ⟨e, ih c' hc e he, rfl⟩
  | bin j l x y ihx ihy =>
    intro t' h
    simp only [BT.splitFast] at h
    split at h
    · rename_i x' hx
      simp at h; subst h
      intro d hd
      simp only [BT.closeAlive, BT.aliveDepths, List.mem_map, List.mem_append] at hd ⊢
      obtain ⟨e, he, rfl⟩ := hd
      rcases he with he | he
      · exact ⟨e, Or.inl (ihx x' hx e he), rfl⟩
      · exact ⟨e, Or.inr he, rfl⟩
    · simp only [Option.map_eq_some_iff] at h
      obtain ⟨y', hy, rfl⟩ := h
      intro d hd
      simp only [BT.closeAlive, BT.aliveDepths, List.mem_map, List.mem_append] at hd ⊢
      obtain ⟨e, he, rfl⟩ := hd
      rcases he with he | he
      · exact ⟨e, Or.inl he, rfl⟩
      · exact ⟨e, Or.inr (ihy y' hy e he), rfl⟩

theorem killFirst_closed_depths (i : Nat) (T : Int) : ∀ (t t' : BT), killFirst i t = some t' →
    ∀ d ∈ (t'.closeAlive T).aliveDepths, d ∈ (t.closeAlive T).aliveDepths := by
  intro t
  induction t with
  | tip j l al =>
    intro t' h
    simp only [BT.killFirst] at h
    split at h
    · simp at h; subst h
      simp [BT.closeAlive, BT.aliveDepths]
    · simp at h
  | un j l c ih =>
    intro t' h
    simp only [BT.killFirst, Option.map_eq_some_iff] at h
    obtain ⟨c', hc, rfl⟩ := h
    intro d hd
    simp only [BT.closeAlive, BT.aliveDepths, List.mem_map] at hd ⊢
    obtain ⟨e, he, rfl⟩ := hd
    exact ⟨e, ih c' hc e he, rfl⟩
  | bin j l x y ihx ihy =>
    intro t' h
    simp only [BT.killFirst] at h
    split at h
    · rename_i x' hx
      simp at h; subst h
      intro d hd
      simp only [BT.closeAlive, BT.aliveDepths, List.mem_map, List.mem_append] at hd ⊢
      obtain ⟨e, he, rfl⟩ := hd
      rcases he with he | he
      · exact ⟨e, Or.inl (ihx x' hx e he), rfl⟩
      · exact ⟨e, Or.inr he, rfl⟩
    · simp only [Option.map_eq_some_iff] at h
      obtain ⟨y', hy, rfl⟩ := h
      intro d hd
      simp only [BT.closeAlive, BT.aliveDepths, List.mem_map, List.mem_append] at hd ⊢
      obtain ⟨e, he, rfl⟩ := hd
      rcases he with he | he
      · exact ⟨e, Or.inl he, rfl⟩
      · exact ⟨e, Or.inr (ihy y' hy e he), rfl⟩
end Aux

/-- the loop invariant of `fast_birth_death_tree`: were the open tips closed now (`length = total_time - length`),
every extant tip would be at depth `total_time` -/
structure FInv (P : BDParams) (s : FState) : Prop where
  count : s.extant.length = s.tree.aliveCount
  depth : ∀ d ∈ (s.tree.closeAlive s.total).aliveDepths, d = s.total
  pos : 1 ≤ s.extant.length
  cap : ∀ n, P.nTips = some n → 1 ≤ n → s.extant.length ≤ n

theorem fbd_init_inv (P : BDParams) : FInv P fInit := by
  refine ⟨by simp [fInit, BT.aliveCount], by simp [fInit, BT.closeAlive, BT.aliveDepths], by simp [fInit], ?_⟩
  intro n _ h; simpa [fInit] using h

namespace Aux
theorem fevent_inv (P : BDParams) (s s' : FState) (ds ds' : List Draw)
    (hcount : s.extant.length = s.tree.aliveCount) (hdepth : ∀ d ∈ (s.tree.closeAlive s.total).aliveDepths, d = s.total)
    (hlt : ∀ n, P.nTips = some n → s.extant.length < n)
    (h : fbdEvent P s ds = .ok (.cont s' ds')) : FInv P s' ∧ ds'.length < ds.length := by
  unfold fbdEvent at h
  split at h
  · rename_i ti p q ds2
    split at h
    · simp at h
    split at h
    · simp at h
    split at h
    · simp at h
    · rename_i nd hnd
      have hidx : ti.toNat < s.extant.length := by
        have := List.getElem?_eq_some_iff.mp hnd
        exact this.1
      split at h
      · split at h
        · simp at h
        · rename_i t ht
          simp at h
          obtain ⟨rfl, rfl⟩ := h
          refine ⟨⟨?_, ?_, ?_, ?_⟩, ?_⟩
          · simp [splitFast_aliveCount _ _ _ _ _ _ ht]; omega
          · intro d hd
            exact hdepth d (splitFast_depths _ _ _ _ _ _ ht d hd)
          · simp
          · intro n hn h1
            have := hlt n hn
            simp; omega
          · simp; omega
      · split at h
        · simp at h
          obtain ⟨rfl, rfl⟩ := h
          refine ⟨⟨by simp [BT.aliveCount], by simp [BT.closeAlive, BT.aliveDepths], by simp, ?_⟩, by simp; omega⟩
          intro n _ h1; simpa using h1
        · rename_i hne
          split at h
          · simp at h
          · rename_i t ht
            simp at h
            obtain ⟨rfl, rfl⟩ := h
            have hlen : (s.extant.eraseIdx ti.toNat).length = s.extant.length - 1 := by
              rw [List.length_eraseIdx]; simp [hidx]
            refine ⟨⟨?_, ?_, ?_, ?_⟩, ?_⟩
            · have := killFirst_aliveCount _ _ _ ht
              simp only [hlen]; omega
            · intro d hd
              exact hdepth d (killFirst_closed_depths _ _ _ _ ht d hd)
            · cases hr : s.extant.eraseIdx ti.toNat with
              | nil => rw [hr] at hne; simp at hne
              | cons a b => simp
            · intro n hn h1
              have := hlt n hn
              simp only [hlen]; omega
            · simp; omega
  · simp at h
end Aux

theorem fbd_inv (P : BDParams) (s s' : FState) (ds ds' : List Draw) (hI : FInv P s)
    (h : fbdIter P s ds = .ok (.cont s' ds')) : FInv P s' ∧ ds'.length < ds.length := by
  obtain ⟨hcount, hdepth, hpos, hcap⟩ := hI
  unfold fbdIter at h
  split at h
  · simp at h
  rename_i hstop
  simp at hstop
  have hlt := Aux.stop_false_cap P _ _ hstop
  split at h
  · simp at h
  · rename_i w ds1
    split at h
    · simp at h
    have hd1 : ∀ d ∈ (s.tree.closeAlive (s.total + w)).aliveDepths, d = s.total + w := by
      intro d hd
      rw [Aux.closeAlive_shift] at hd
      simp only [List.mem_map] at hd
      obtain ⟨e, he, rfl⟩ := hd
      rw [hdepth e he]
    simp only at h
    split at h
    · have := Aux.fevent_inv P _ s' ds1 ds' (by simpa using hcount) (by simpa using hd1) (by simpa using hlt) h
      exact ⟨this.1, by simp; omega⟩
    · simp at h
      obtain ⟨rfl, rfl⟩ := h
      exact ⟨⟨by simpa using hcount, by simpa using hd1, by simpa using hpos, by simpa using hcap⟩, by simp⟩
  · simp at h


theorem fbd_done (P : BDParams) (s s' : FState) (ds ds' : List Draw) (h : fbdIter P s ds = .ok (.done s' ds')) :
    s' = { s with tree := s.tree.closeAlive s.total } ∧ bdStop P s.extant.length s.total = true := by
  unfold fbdIter at h
  split at h
  · rename_i hs
    simp at h
    exact ⟨h.1.symm, hs⟩
  · split at h
    · simp at h
    · split at h
      · simp at h
      · simp only at h
        split at h
        · exfalso
          unfold fbdEvent at h
          split at h
          · split at h
            · simp at h
            split at h
            · simp at h
            split at h
            · simp at h
            · split at h
              · split at h <;> simp at h
              · split at h
                · simp at h
                · split at h <;> simp at h
          · simp at h
        · simp at h
    · simp at h

theorem fbd_loop_inv (P : BDParams) : ∀ (f : Nat) (s s' : FState) (ds ds' : List Draw), FInv P s →
    fbdLoop P f s ds = .ok (s', ds') →
    ∃ s0, FInv P s0 ∧ bdStop P s0.extant.length s0.total = true ∧ s' = { s0 with tree := s0.tree.closeAlive s0.total } := by
  intro f
  induction f with
  | zero => intro s s' ds ds' _ h; simp [fbdLoop] at h
  | succ f ih =>
    intro s s' ds ds' hI h
    simp only [fbdLoop] at h
    split at h
    · simp at h
    · rename_i s1 ds1 hit
      simp at h
      obtain ⟨rfl, rfl⟩ := h
      obtain ⟨e, hs⟩ := fbd_done P s s1 ds ds1 hit
      exact ⟨s, hI, hs, e⟩
    · rename_i s1 ds1 hit
      exact ih s1 s' ds1 ds' (fbd_inv P s s1 ds ds1 hI hit).1 h

/-- **fast birth–death trees**: same guarantees as `bd_result`, and with the tip-count rule alone exactly `N` leaves -/
theorem fbd_result (P : BDParams) (n0 : Nat) (ds : List Draw) (r : SimResult) (h : fbdRun P n0 ds = .ok r) :
    r.tree.noUn = true ∧ r.tree.aliveCount = r.tree.nLeaves ∧ r.tree.aliveDepths.length = r.tree.nLeaves ∧
    (∃ D, ∀ d ∈ r.tree.aliveDepths, d = D) ∧
    (r.taxa.map Prod.snd).Nodup ∧ isPerm r.tree.nLeaves (r.taxa.map Prod.fst) = true ∧
    (∀ n, P.nTips = some n → 1 ≤ n → P.maxTime = none → r.tree.nLeaves = n) := by
  unfold fbdRun at h
  split at h
  · simp at h
  split at h
  · simp at h
  · rename_i s rest hl
    obtain ⟨s0, hI, hstop, rfl⟩ := fbd_loop_inv P _ _ _ _ _ (fbd_init_inv P) hl
    obtain ⟨f1, f2, f3, f4, f5, f6⟩ := Aux.finish_props n0 _ rest r h
    simp only at f2 f4
    refine ⟨f1, f3, by rw [Aux.aliveDepths_length, f3], ⟨s0.total, by rw [f4]; exact hI.depth⟩, f5, f6, ?_⟩
    intro n hn h1 hm
    have hcap := hI.cap n hn h1
    simp [bdStop, hn, hm] at hstop
    rw [f2, Aux.closeAlive_count, ← hI.count]
    omega

example : (fbdRun { nTips := some 2, maxTime := none, b := 2, d := 1 } 0 [.w 4, .rint 0, .u 7 8, .w 1, .rint 0, .u 1 8, .perm [], .perm [1, 0]]).toOption.map
      (fun r => (r.tree.nLeaves, r.tree.aliveDepths)) = some (2, [1, 1]) := by decide

/-! ### `uniform_pure_birth_tree` -/
namespace Aux

theorem aliveCount_le (t : BT) : t.aliveCount ≤ t.nLeaves := by
  induction t with
  | tip i l a => cases a <;> simp [BT.aliveCount, BT.nLeaves]
  | un i l c ih => simpa [BT.aliveCount, BT.nLeaves] using ih
  | bin i l x y ihx ihy => simp [BT.aliveCount, BT.nLeaves]; omega

theorem nLeaves_addAlive (w : Int) (t : BT) : (t.addAlive w).nLeaves = t.nLeaves := by
  induction t with
  | tip i l a => simp [BT.addAlive, BT.nLeaves]
  | un i l c ih => simp [BT.addAlive, BT.nLeaves, ih]
  | bin i l x y ihx ihy => simp [BT.addAlive, BT.nLeaves, ihx, ihy]

theorem noUn_addAlive (w : Int) (t : BT) : (t.addAlive w).noUn = t.noUn := by
  induction t with
  | tip i l a => simp [BT.addAlive, BT.noUn]
  | un i l c ih => simp [BT.addAlive, BT.noUn]
  | bin i l x y ihx ihy => simp [BT.addAlive, BT.noUn, ihx, ihy]

/-- splitting the `k`-th leaf of a tree whose tips are all extant -/
theorem splitNth_props (a b : Nat) : ∀ (t t' : BT) (k : Nat), t.aliveCount = t.nLeaves → splitNth k a b t = some t' →
    t'.nLeaves = t.nLeaves + 1 ∧ t'.aliveCount = t'.nLeaves ∧ t'.noUn = t.noUn ∧ ∀ d ∈ t'.aliveDepths, d ∈ t.aliveDepths := by
  intro t
  induction t with
  | tip j l al =>
    intro t' k hal h
    simp only [BT.splitNth] at h
    split at h
    · simp at h; subst h
      cases al <;> simp [BT.aliveCount, BT.nLeaves] at hal
      simp [BT.nLeaves, BT.aliveCount, BT.noUn, BT.aliveDepths]
    · simp at h
  | un j l c ih =>
    intro t' k hal h
    simp only [BT.splitNth, Option.map_eq_some_iff] at h
    obtain ⟨c', hc, rfl⟩ := h
    simp only [BT.aliveCount, BT.nLeaves] at hal
    obtain ⟨h1, h2, h3, h4⟩ := ih c' k hal hc
    refine ⟨by simp [BT.nLeaves, h1], by simp [BT.nLeaves, BT.aliveCount, h2], by simp [BT.noUn], ?_⟩
    intro d hd
    simp only [BT.aliveDepths, List.mem_map] at hd ⊢
    obtain ⟨e, he, rfl⟩ := hd
    exact ⟨e, h4 e he, rfl⟩
  | bin j l x y ihx ihy =>
    intro t' k hal h
    simp only [BT.aliveCount, BT.nLeaves] at hal
    have hx := aliveCount_le x
    have hy := aliveCount_le y
    simp only [BT.splitNth] at h
    split at h
    · simp only [Option.map_eq_some_iff] at h
      obtain ⟨x', hx', rfl⟩ := h
      obtain ⟨h1, h2, h3, h4⟩ := ihx x' k (by omega) hx'
      refine ⟨by simp [BT.nLeaves, h1]; omega, by simp [BT.nLeaves, BT.aliveCount, h2]; omega, by simp [BT.noUn, h3], ?_⟩
      intro d hd
      simp only [BT.aliveDepths, List.mem_map, List.mem_append] at hd ⊢
      obtain ⟨e, he, rfl⟩ := hd
      rcases he with he | he
      · exact ⟨e, Or.inl (h4 e he), rfl⟩
      · exact ⟨e, Or.inr he, rfl⟩
    · simp only [Option.map_eq_some_iff] at h
      obtain ⟨y', hy', rfl⟩ := h
      obtain ⟨h1, h2, h3, h4⟩ := ihy y' _ (by omega) hy'
      refine ⟨by simp [BT.nLeaves, h1]; omega, by simp [BT.nLeaves, BT.aliveCount, h2]; omega, by simp [BT.noUn, h3], ?_⟩
      intro d hd
      simp only [BT.aliveDepths, List.mem_map, List.mem_append] at hd ⊢
      obtain ⟨e, he, rfl⟩ := hd
      rcases he with he | he
      · exact ⟨e, Or.inl he, rfl⟩
      · exact ⟨e, Or.inr (h4 e he), rfl⟩
end Aux

/-- invariant of the pure-birth loop: every tip is a live leaf, no unary node, all leaves at one depth, not more than `max n 1` leaves -/
structure PInv (n : Nat) (t : BT) : Prop where
  alive : t.aliveCount = t.nLeaves
  noUn : t.noUn = true
  depth : ∃ D, ∀ d ∈ t.aliveDepths, d = D
  pos : 1 ≤ t.nLeaves
  cap : 1 ≤ n → t.nLeaves ≤ n

theorem pb_loop_inv (n : Nat) : ∀ (f : Nat) (t t' : BT) (next : Nat) (ds ds' : List Draw), PInv n t →
    pbLoop n f t next ds = .ok (t', ds') → PInv n t' ∧ n ≤ t'.nLeaves := by
  intro f
  induction f with
  | zero => intro t t' next ds ds' _ h; simp [pbLoop] at h
  | succ f ih =>
    intro t t' next ds ds' hI h
    simp only [pbLoop] at h
    split at h
    · rename_i hge
      simp at h
      obtain ⟨rfl, rfl⟩ := h
      exact ⟨hI, hge⟩
    · rename_i hlt
      split at h
      · rename_i w k ds2
        split at h
        · simp at h
        split at h
        · simp at h
        · rename_i t1 ht1
          obtain ⟨D, hD⟩ := hI.depth
          obtain ⟨h1, h2, h3, h4⟩ := Aux.splitNth_props _ _ _ t1 k
            (by rw [Aux.aliveCount_addAlive, Aux.nLeaves_addAlive]; exact hI.alive) ht1
          rw [Aux.nLeaves_addAlive] at h1
          rw [Aux.noUn_addAlive] at h3
          apply ih t1 t' _ ds2 ds' _ h
          refine ⟨h2, by rw [h3]; exact hI.noUn, ⟨D + w, ?_⟩, by omega, by intro hn; omega⟩
          intro d hd
          have := h4 d hd
          rw [Aux.aliveDepths_addAlive] at this
          simp only [List.mem_map] at this
          obtain ⟨e, he, rfl⟩ := this
          rw [hD e he]
      · simp at h

/-- **pure-birth trees**: a namespace of `n ≥ 1` taxa yields exactly `n` leaves, all extant, no unary node, all at one
depth.  (The last conjunct, leaf `j` carries taxon `j`, merely restates `pbRun`'s assignment `leaf.taxon = taxon_namespace[idx]`
with the proved leaf count substituted; distinctness of the taxa is immediate from it.) -/
theorem pb_result (n : Nat) (ds : List Draw) (r : SimResult) (h1 : 1 ≤ n) (h : pbRun n ds = .ok r) :
    r.tree.nLeaves = n ∧ r.tree.aliveCount = n ∧ r.tree.noUn = true ∧ (∃ D, ∀ d ∈ r.tree.aliveDepths, d = D) ∧
    r.taxa = (List.range n).map (fun j => (j, j)) := by
  unfold pbRun at h
  rw [if_neg (by simp; omega)] at h
  split at h
  · simp at h
  · rename_i t rest hl
    have h0 : PInv n (.tip 0 0 true) :=
      ⟨by simp [BT.aliveCount, BT.nLeaves], by simp [BT.noUn], ⟨0, by simp [BT.aliveDepths]⟩, by simp [BT.nLeaves], by simp [BT.nLeaves]⟩
    obtain ⟨hI, hge⟩ := pb_loop_inv n _ _ _ _ _ _ h0 hl
    have hn : t.nLeaves = n := by have := hI.cap h1; omega
    split at h
    · rename_i w
      split at h
      · simp at h
      · simp at h
        subst h
        obtain ⟨D, hD⟩ := hI.depth
        refine ⟨by simp [Aux.nLeaves_addAlive, hn], by simp [Aux.aliveCount_addAlive, hI.alive, hn],
                by simp [Aux.noUn_addAlive, hI.noUn], ⟨D + w, ?_⟩, by simp [Aux.nLeaves_addAlive, hn]⟩
        intro d hd
        simp only [Aux.aliveDepths_addAlive, List.mem_map] at hd
        obtain ⟨e, he, rfl⟩ := hd
        rw [hD e he]
    · simp at h
    · simp at h

example : (pbRun 3 [.w 1, .choice 0, .w 2, .choice 1, .w 3]).toOption.map (fun r => (r.tree.nLeaves, r.tree.aliveDepths)) =
    some (3, [6, 6, 6]) := by decide


/-! ### the coalescent: `coalesce_nodes`, `pure_kingman_tree` -/
namespace Aux

theorem GT.depths_addLen (w : Int) (t : GT) : (t.addLen w).depths = t.depths.map (fun p => (p.1, p.2 + w)) := by
  cases t with
  | leaf a b l => simp [GT.addLen, GT.depths]
  | join l x y =>
    have e : ∀ z : Int, z + (l + w) = z + l + w := by intro z; omega
    simp [GT.addLen, GT.depths, List.map_map, Function.comp_def, e]

theorem GT.leaves_addLen (w : Int) (t : GT) : (t.addLen w).leaves = t.leaves := by
  cases t <;> simp [GT.addLen, GT.leaves]

theorem GT.depths_fst (t : GT) : t.depths.map Prod.fst = t.leaves := by
  induction t with
  | leaf a b l => simp [GT.depths, GT.leaves]
  | join l x y ihx ihy => simp [GT.depths, GT.leaves, List.map_map, Function.comp_def, ← ihx, ← ihy]

theorem eraseIdx_perm {α : Type} : ∀ (l : List α) (i : Nat) (a : α), l[i]? = some a → (a :: l.eraseIdx i).Perm l := by
  intro l
  induction l with
  | nil => intro i a h; simp at h
  | cons x xs ih =>
    intro i a h
    cases i with
    | zero => simp at h; subst h; simp
    | succ i =>
      simp at h
      simp only [List.eraseIdx_cons_succ]
      exact (List.Perm.swap x a _).trans ((ih i a h).cons x)

theorem removeTwo_perm (i j : Nat) (l : List GT) (a b : GT) (hi : l[i]? = some a) (hj : l[j]? = some b) (hne : i ≠ j) :
    (a :: b :: removeTwo i j l).Perm l := by
  unfold removeTwo
  split
  · rename_i hlt
    have h1 : (l.eraseIdx j)[i]? = some a := by rw [List.getElem?_eraseIdx_of_lt hlt]; exact hi
    have p1 := eraseIdx_perm (l.eraseIdx j) i a h1
    have p2 := eraseIdx_perm l j b hj
    exact (List.Perm.swap b a _).trans ((p1.cons b).trans p2)
  · rename_i hnlt
    have hlt : j < i := by omega
    have h1 : (l.eraseIdx i)[j]? = some b := by rw [List.getElem?_eraseIdx_of_lt hlt]; exact hj
    have p1 := eraseIdx_perm (l.eraseIdx i) j b h1
    have p2 := eraseIdx_perm l i a hi
    exact (p1.cons a).trans p2

theorem mem_removeTwo (i j : Nat) (l : List GT) (t : GT) (h : t ∈ removeTwo i j l) : t ∈ l := by
  unfold removeTwo at h
  split at h <;> exact List.mem_of_mem_eraseIdx (List.mem_of_mem_eraseIdx h)

theorem length_removeTwo (i j : Nat) (l : List GT) (a b : GT) (hi : l[i]? = some a) (hj : l[j]? = some b) (hne : i ≠ j) :
    (removeTwo i j l).length + 2 = l.length := by
  have := (removeTwo_perm i j l a b hi hj hne).length_eq
  simp at this; omega

theorem timeUnits_nonneg (pop : Nat) : 0 ≤ timeUnits pop := by
  unfold timeUnits; split <;> omega

end Aux

namespace Aux
theorem coalEvent_shape (τ : Int) (nodes nodes1 : List GT) (ds ds1 : List Draw) (h : coalEvent τ nodes ds = .ok (nodes1, ds1)) :
    ∃ i j a b, (nodes.map (GT.addLen τ))[i]? = some a ∧ (nodes.map (GT.addLen τ))[j]? = some b ∧ i ≠ j ∧
      nodes1 = removeTwo i j (nodes.map (GT.addLen τ)) ++ [GT.join 0 a b] ∧ ds1.length < ds.length := by
  unfold coalEvent at h
  simp only at h
  split at h
  · simp at h
  · rename_i i j ds2
    split at h
    · rename_i a b ha hb
      split at h
      · simp at h
      · rename_i hij
        simp at hij
        simp at h
        obtain ⟨rfl, rfl⟩ := h
        exact ⟨i, j, a, b, ha, hb, hij, rfl, by simp⟩
    · simp at h
  · simp at h

/-- one coalescence on a forest whose leaves all sit at depth `H`: afterwards all at `H + τ`, leaves permuted, one lineage fewer -/
theorem coalEvent_ultra (τ : Int) (nodes nodes1 : List GT) (ds ds1 : List Draw) (H : Int)
    (hU : ∀ t ∈ nodes, ∀ p ∈ t.depths, p.2 = H) (h : coalEvent τ nodes ds = .ok (nodes1, ds1)) :
    (∀ t ∈ nodes1, ∀ p ∈ t.depths, p.2 = H + τ) ∧ (nodes1.flatMap GT.leaves).Perm (nodes.flatMap GT.leaves) ∧
    nodes1.length + 1 = nodes.length := by
  obtain ⟨i, j, a, b, ha, hb, hij, rfl, _⟩ := coalEvent_shape τ nodes nodes1 ds ds1 h
  have hUs : ∀ t ∈ nodes.map (GT.addLen τ), ∀ p ∈ t.depths, p.2 = H + τ := by
    intro t ht p hp
    simp only [List.mem_map] at ht
    obtain ⟨t0, ht0, rfl⟩ := ht
    rw [GT.depths_addLen] at hp
    simp only [List.mem_map] at hp
    obtain ⟨p0, hp0, rfl⟩ := hp
    simp [hU t0 ht0 p0 hp0]
  refine ⟨?_, ?_, ?_⟩
  · intro t ht p hp
    simp only [List.mem_append, List.mem_singleton] at ht
    rcases ht with ht | rfl
    · exact hUs t (mem_removeTwo _ _ _ _ ht) p hp
    · simp only [GT.depths, List.mem_map, List.mem_append] at hp
      obtain ⟨p0, hp0, rfl⟩ := hp
      rcases hp0 with hp0 | hp0
      · simp [hUs a (List.mem_of_getElem? ha) p0 hp0]
      · simp [hUs b (List.mem_of_getElem? hb) p0 hp0]
  · have hp := removeTwo_perm i j _ a b ha hb hij
    have hp2 := (hp.flatMap_right GT.leaves)
    simp only [List.flatMap_cons] at hp2
    have e1 : (nodes.map (GT.addLen τ)).flatMap GT.leaves = nodes.flatMap GT.leaves := by
      rw [List.flatMap_map]; simp [GT.leaves_addLen]
    rw [e1] at hp2
    simp only [List.flatMap_append, List.flatMap_cons, List.flatMap_nil, GT.leaves, List.append_nil]
    refine List.Perm.trans ?_ hp2
    refine List.perm_append_comm.trans ?_
    simp [List.append_assoc]
  · have := length_removeTwo i j _ a b ha hb hij
    simp at this ⊢
    omega

/-- the coalescence loop on a forest whose leaves all sit at depth `H`: afterwards they all sit at `H + e`, `e ≥ 0` the
time elapsed; no leaf is lost or duplicated; without a period the loop only stops at a single lineage -/
theorem coalLoop_ultra (pop : Nat) : ∀ (f : Nat) (nodes : List GT) (rem : Option Int) (ds : List Draw)
    (nodes' : List GT) (rem' : Option Int) (ds' : List Draw) (H : Int),
    (∀ t ∈ nodes, ∀ p ∈ t.depths, p.2 = H) → coalLoop pop f nodes rem ds = .ok (nodes', rem', ds') →
    ∃ e, 0 ≤ e ∧ (∀ t ∈ nodes', ∀ p ∈ t.depths, p.2 = H + e) ∧
      (nodes'.flatMap GT.leaves).Perm (nodes.flatMap GT.leaves) ∧ (rem = none → nodes'.length ≤ 1) ∧
      (∀ r, rem = some r → rem' = some (r - e) ∧ (0 ≤ r → e ≤ r)) ∧ (rem = none → rem' = none) ∧ (nodes ≠ [] → nodes' ≠ []) := by
  intro f
  induction f with
  | zero =>
    intro nodes rem ds nodes' rem' ds' H hU h
    simp only [coalLoop] at h
    split at h
    · simp at h
    · rename_i hle
      simp at h
      obtain ⟨rfl, rfl, rfl⟩ := h
      exact ⟨0, by omega, by simpa using hU, List.Perm.refl _, fun _ => by omega, by intro r hr; simp [hr], by simp, by simp⟩
  | succ f ih =>
    intro nodes rem ds nodes' rem' ds' H hU h
    simp only [coalLoop] at h
    split at h
    · rename_i hle
      simp at h
      obtain ⟨rfl, rfl, rfl⟩ := h
      exact ⟨0, by omega, by simpa using hU, List.Perm.refl _, fun _ => hle, by intro r hr; simp [hr], by simp, by simp⟩
    · rename_i hgt
      split at h
      · simp at h
      · rename_i w ds1
        split at h
        · simp at h
        rename_i hw
        have hτ : 0 ≤ w * timeUnits pop := Int.mul_nonneg (by omega) (timeUnits_nonneg pop)
        split at h
        · split at h
          · simp at h
          · rename_i nodes1 ds2 hev
            obtain ⟨u1, u2, u3⟩ := coalEvent_ultra _ _ _ _ _ H hU hev
            obtain ⟨e, he0, he1, he2, he3, he4, he5, he6⟩ := ih _ _ _ _ _ _ _ u1 h
            refine ⟨w * timeUnits pop + e, by omega, ?_, he2.trans u2, ?_, ?_, ?_, ?_⟩
            · intro t ht p hp
              have := he1 t ht p hp
              omega
            · intro hr
              exact he3 (by simp [hr])
            · intro r hr
              subst hr
              rename_i hwp
              simp [withinPeriod] at hwp
              obtain ⟨h4a, h4b⟩ := he4 (r - w * timeUnits pop) (by simp)
              refine ⟨by rw [h4a]; congr 1; omega, ?_⟩
              intro h0
              have := h4b (by omega)
              omega
            · intro hr
              exact he5 (by simp [hr])
            · intro _
              apply he6
              intro hn
              rw [hn] at u3
              simp at u3
              omega
        · rename_i hcond
          simp at h
          obtain ⟨rfl, rfl, rfl⟩ := h
          refine ⟨0, by omega, by simpa using hU, List.Perm.refl _, ?_, by intro r hr; simp [hr], by simp, by simp⟩
          intro hr
          subst hr
          simp [withinPeriod] at hcond
      · simp at h

/-- `coalesce_nodes` on a forest whose leaves all sit at depth `H` -/
theorem coalesce_ultra (pop : Nat) (nodes out : List GT) (period : Option Int) (ds ds' : List Draw) (H : Int)
    (hU : ∀ t ∈ nodes, ∀ p ∈ t.depths, p.2 = H) (h : coalesce pop nodes period ds = .ok (out, ds')) :
    (∃ H', ∀ t ∈ out, ∀ p ∈ t.depths, p.2 = H') ∧ (out.flatMap GT.leaves).Perm (nodes.flatMap GT.leaves) ∧
    (period = none → out.length ≤ 1) ∧ (nodes ≠ [] → out ≠ []) ∧
    (∀ r, period = some r → 0 ≤ r → ∀ t ∈ out, ∀ p ∈ t.depths, p.2 = H + r) := by
  unfold coalesce at h
  split at h
  · rename_i hemp
    simp at h
    obtain ⟨rfl, rfl⟩ := h
    simp at hemp
    subst hemp
    exact ⟨⟨H, by simp⟩, List.Perm.refl _, by simp, by simp, by simp⟩
  · split at h
    · simp at h
    · rename_i nodes' rem' ds1 hl
      obtain ⟨e, he0, he1, he2, he3, he4, he5, he6⟩ := coalLoop_ultra pop _ _ _ _ _ _ _ H hU hl
      split at h
      · rename_i r'
        split at h
        · rename_i hr'
          simp at h
          obtain ⟨rfl, rfl⟩ := h
          have hs : ∀ t ∈ nodes'.map (GT.addLen r'), ∀ p ∈ t.depths, p.2 = H + e + r' := by
            intro t ht p hp
            simp only [List.mem_map] at ht
            obtain ⟨t0, ht0, rfl⟩ := ht
            rw [GT.depths_addLen] at hp
            simp only [List.mem_map] at hp
            obtain ⟨p0, hp0, rfl⟩ := hp
            simp [he1 t0 ht0 p0 hp0]
          refine ⟨⟨_, hs⟩, ?_, ?_, ?_, ?_⟩
          · rw [List.flatMap_map]; simpa [GT.leaves_addLen] using he2
          · intro hp; simpa using he3 hp
          · intro hn; simpa using he6 hn
          · intro r hr h0 t ht p hp
            have := (he4 r hr).1
            simp at this
            have := hs t ht p hp
            omega
        · rename_i hr'
          simp at h
          obtain ⟨rfl, rfl⟩ := h
          refine ⟨⟨_, he1⟩, he2, he3, he6, ?_⟩
          intro r hr h0 t ht p hp
          obtain ⟨h4, h4b⟩ := he4 r hr
          simp at h4
          have := he1 t ht p hp
          have := h4b h0
          omega
      · simp at h
        obtain ⟨rfl, rfl⟩ := h
        refine ⟨⟨_, he1⟩, he2, he3, he6, ?_⟩
        intro r hr
        have := (he4 r hr).1
        simp at this
end Aux

/-- all leaves of a genealogy lie at the same distance from its root (top of the root edge) -/
def Ultrametric (t : GT) : Prop := ∃ H, ∀ p ∈ t.depths, p.2 = H

/-- **Kingman trees**: exactly one leaf per taxon `0..n-1` (the leaf list is a permutation of the taxa), every internal
node is a `join` of exactly two subtrees (by construction of `GT`), and the tree is ultrametric — for every draw list -/
theorem kingman_result (n pop : Nat) (ds : List Draw) (t : GT) (h : kingman n pop ds = .ok t) :
    (t.leaves.map Prod.fst).Perm (List.range n) ∧ Ultrametric t := by
  unfold kingman at h
  split at h
  · simp at h
  · rename_i t' hc
    simp at h; subst h
    have hU : ∀ x ∈ (List.range n).map (fun k => GT.leaf k 0 0), ∀ p ∈ x.depths, p.2 = 0 := by
      intro x hx p hp
      simp only [List.mem_map] at hx
      obtain ⟨k, _, rfl⟩ := hx
      simp [GT.depths] at hp
      simp [hp]
    obtain ⟨⟨H', hH'⟩, hperm, _, _, _⟩ := Aux.coalesce_ultra pop _ _ none ds [] 0 hU hc
    refine ⟨?_, ⟨H', hH' _ (by simp)⟩⟩
    have : ((List.range n).map (fun k => GT.leaf k 0 0)).flatMap GT.leaves = (List.range n).map (fun k => (k, 0)) := by
      rw [List.flatMap_map]
      simp only [GT.leaves]
      induction (List.range n) with
      | nil => simp
      | cons a l ih => simp [ih]
    rw [this] at hperm
    simp only [List.flatMap_cons, List.flatMap_nil, List.append_nil] at hperm
    have := hperm.map Prod.fst
    simpa [List.map_map, Function.comp_def] using this
  all_goals simp at h

/-- a constrained coalescence (`period = L ≥ 0`) moves every lineage up by exactly `L`: lineages that enter a branch of
the containing tree aligned leave it aligned -/
theorem coalesce_period_aligned (pop : Nat) (nodes out : List GT) (L : Int) (ds ds' : List Draw) (H : Int) (hL : 0 ≤ L)
    (hU : ∀ t ∈ nodes, ∀ p ∈ t.depths, p.2 = H) (h : coalesce pop nodes (some L) ds = .ok (out, ds')) :
    (∀ t ∈ out, ∀ p ∈ t.depths, p.2 = H + L) ∧ (out.flatMap GT.leaves).Perm (nodes.flatMap GT.leaves) :=
  let r := Aux.coalesce_ultra pop nodes out (some L) ds ds' H hU h
  ⟨r.2.2.2.2 L rfl hL, r.2.1⟩

example : (kingman 3 2 [.w 1, .samp 2 0, .w 3, .samp 1 0]).toOption.map (fun t => (t.leaves, t.depths.map Prod.snd)) =
    some ([(2, 0), (0, 0), (1, 0)], [8, 8, 8]) := by decide

/-! ### gene trees inside a population tree: `contained_coalescent_tree`, `constrained_kingman_tree` -/

/-- length of the edge above a node of the population tree (`None` counts as 0) -/
def ST.elen : ST → Int
  | .node _ len _ _ _ => len.getD 0

/-- `Below S a d`: the population-tree leaf with index `a` lies below node `S`, `d` below it -/
inductive Below : ST → Nat → Int → Prop
  | leaf (i : Nat) (len : Option Int) (pop : Nat) (genes : List (Nat × Nat)) : Below (.node i len pop genes []) i 0
  | step (i : Nat) (len : Option Int) (pop : Nat) (genes : List (Nat × Nat)) (cs : List ST) (c : ST) (a : Nat) (d : Int) :
      c ∈ cs → Below c a d → Below (.node i len pop genes cs) a (d + c.elen)

/-- `Div S a b d`: inside `S`, populations `a` and `b` diverged (their most recent common ancestor lies) `d` above leaf `a` -/
inductive Div : ST → Nat → Nat → Int → Prop
  | inside (i : Nat) (len : Option Int) (pop : Nat) (genes : List (Nat × Nat)) (cs : List ST) (c : ST) (a b : Nat) (d : Int) :
      c ∈ cs → Div c a b d → Div (.node i len pop genes cs) a b d
  | here (i : Nat) (len : Option Int) (pop : Nat) (genes : List (Nat × Nat)) (cs : List ST) (k1 k2 : Nat) (c1 c2 : ST)
      (a b : Nat) (d1 d2 : Int) : cs[k1]? = some c1 → cs[k2]? = some c2 → k1 ≠ k2 → Below c1 a d1 → Below c2 b d2 →
      Div (.node i len pop genes cs) a b (d1 + c1.elen)

/-- admissible population tree: non-negative edge lengths, genes sampled at the leaves only and tagged with their
population's index, and no leaf index occurring below two different children of a node -/
inductive Good : ST → Prop
  | mk (i : Nat) (len : Option Int) (pop : Nat) (genes : List (Nat × Nat)) (cs : List ST) :
      (∀ c ∈ cs, Good c) → (∀ c ∈ cs, 0 ≤ c.elen) →
      (cs = [] → ∀ g ∈ genes, g.1 = i) → (cs ≠ [] → genes = []) →
      (∀ (k1 k2 : Nat) (c1 c2 : ST) (a : Nat) (d1 d2 : Int), cs[k1]? = some c1 → cs[k2]? = some c2 → Below c1 a d1 → Below c2 a d2 → k1 = k2) →
      Good (.node i len pop genes cs)

/-- every join of lineages from different populations happened no more recently than those populations diverged:
for a join of subtrees `x`, `y`, a leaf `p` of `x` and a leaf `q` of `y` from populations `a ≠ b`, the join lies at least
`d` above `p` whenever `a` and `b` diverged `d` above `a` (and symmetrically for `q`) -/
def JK (Dv : Nat → Nat → Int → Prop) : GT → Prop
  | .leaf _ _ _ => True
  | .join _ x y => JK Dv x ∧ JK Dv y ∧ ∀ p ∈ x.depths, ∀ q ∈ y.depths, p.1.1 ≠ q.1.1 →
      (∀ d, Dv p.1.1 q.1.1 d → d ≤ p.2) ∧ (∀ d, Dv q.1.1 p.1.1 d → d ≤ q.2)

namespace Aux
/-- every leaf sits at least `e` higher than its population's leaf is below the reference node -/
def Fl (B : Nat → Int → Prop) (e : Int) (t : GT) : Prop := ∀ p ∈ t.depths, ∀ d, B p.1.1 d → d + e ≤ p.2
def Lv (Q : Nat → Prop) (t : GT) : Prop := ∀ p ∈ t.depths, Q p.1.1

theorem Fl_mono (B : Nat → Int → Prop) (e e' : Int) (t : GT) (h : e' ≤ e) (hf : Fl B e t) : Fl B e' t := by
  intro p hp d hd; have := hf p hp d hd; omega

theorem Fl_addLen (B : Nat → Int → Prop) (e τ : Int) (t : GT) (hf : Fl B e t) : Fl B (e + τ) (t.addLen τ) := by
  intro p hp d hd
  rw [GT.depths_addLen] at hp
  simp only [List.mem_map] at hp
  obtain ⟨p0, hp0, rfl⟩ := hp
  have := hf p0 hp0 d hd
  simp; omega

theorem Lv_addLen (Q : Nat → Prop) (τ : Int) (t : GT) (hf : Lv Q t) : Lv Q (t.addLen τ) := by
  intro p hp
  rw [GT.depths_addLen] at hp
  simp only [List.mem_map] at hp
  obtain ⟨p0, hp0, rfl⟩ := hp
  exact hf p0 hp0

theorem JK_addLen (Dv : Nat → Nat → Int → Prop) (τ : Int) (t : GT) (h : JK Dv t) : JK Dv (t.addLen τ) := by
  cases t with
  | leaf a b l => simp [GT.addLen, JK]
  | join l x y => simpa [GT.addLen, JK] using h

theorem join_ok (B : Nat → Int → Prop) (Dv : Nat → Nat → Int → Prop) (Q : Nat → Prop) (e : Int) (a b : GT) (he : 0 ≤ e)
    (link : ∀ x y d, Dv x y d → ∃ d', B x d' ∧ d ≤ d')
    (ha : Fl B e a ∧ JK Dv a ∧ Lv Q a) (hb : Fl B e b ∧ JK Dv b ∧ Lv Q b) :
    Fl B e (GT.join 0 a b) ∧ JK Dv (GT.join 0 a b) ∧ Lv Q (GT.join 0 a b) := by
  refine ⟨?_, ⟨ha.2.1, hb.2.1, ?_⟩, ?_⟩
  · intro p hp d hd
    simp only [GT.depths, List.mem_map, List.mem_append] at hp
    obtain ⟨p0, hp0, rfl⟩ := hp
    rcases hp0 with h | h
    · have := ha.1 p0 h d hd; simp; omega
    · have := hb.1 p0 h d hd; simp; omega
  · intro p hp q hq _
    constructor
    · intro d hd
      obtain ⟨d', h1, h2⟩ := link _ _ d hd
      have := ha.1 p hp d' h1
      omega
    · intro d hd
      obtain ⟨d', h1, h2⟩ := link _ _ d hd
      have := hb.1 q hq d' h1
      omega
  · intro p hp
    simp only [GT.depths, List.mem_map, List.mem_append] at hp
    obtain ⟨p0, hp0, rfl⟩ := hp
    rcases hp0 with h | h
    · exact ha.2.2 p0 h
    · exact hb.2.2 p0 h

theorem coalEvent_ok (B : Nat → Int → Prop) (Dv : Nat → Nat → Int → Prop) (Q : Nat → Prop) (e τ : Int)
    (nodes nodes1 : List GT) (ds ds1 : List Draw) (he : 0 ≤ e) (hτ : 0 ≤ τ)
    (link : ∀ x y d, Dv x y d → ∃ d', B x d' ∧ d ≤ d')
    (hN : ∀ t ∈ nodes, Fl B e t ∧ JK Dv t ∧ Lv Q t) (h : coalEvent τ nodes ds = .ok (nodes1, ds1)) :
    ∀ t ∈ nodes1, Fl B (e + τ) t ∧ JK Dv t ∧ Lv Q t := by
  obtain ⟨i, j, a, b, ha, hb, hij, rfl, _⟩ := coalEvent_shape τ nodes nodes1 ds ds1 h
  have hS : ∀ t ∈ nodes.map (GT.addLen τ), Fl B (e + τ) t ∧ JK Dv t ∧ Lv Q t := by
    intro t ht
    simp only [List.mem_map] at ht
    obtain ⟨t0, ht0, rfl⟩ := ht
    obtain ⟨h1, h2, h3⟩ := hN t0 ht0
    exact ⟨Fl_addLen B e τ t0 h1, JK_addLen Dv τ t0 h2, Lv_addLen Q τ t0 h3⟩
  intro t ht
  simp only [List.mem_append, List.mem_singleton] at ht
  rcases ht with ht | rfl
  · exact hS t (mem_removeTwo _ _ _ _ ht)
  · exact join_ok B Dv Q (e + τ) a b (by omega) link (hS a (List.mem_of_getElem? ha)) (hS b (List.mem_of_getElem? hb))

theorem coalLoop_ok (B : Nat → Int → Prop) (Dv : Nat → Nat → Int → Prop) (Q : Nat → Prop) (pop : Nat)
    (link : ∀ x y d, Dv x y d → ∃ d', B x d' ∧ d ≤ d') :
    ∀ (f : Nat) (nodes : List GT) (rem : Option Int) (ds : List Draw) (nodes' : List GT) (rem' : Option Int)
      (ds' : List Draw) (e : Int), 0 ≤ e → (∀ t ∈ nodes, Fl B e t ∧ JK Dv t ∧ Lv Q t) →
      coalLoop pop f nodes rem ds = .ok (nodes', rem', ds') →
      ∃ el, 0 ≤ el ∧ (∀ t ∈ nodes', Fl B (e + el) t ∧ JK Dv t ∧ Lv Q t) ∧
        (∀ r, rem = some r → rem' = some (r - el) ∧ (0 ≤ r → el ≤ r)) ∧ (rem = none → rem' = none ∧ nodes'.length ≤ 1) := by
  intro f
  induction f with
  | zero =>
    intro nodes rem ds nodes' rem' ds' e he hN h
    simp only [coalLoop] at h
    split at h
    · simp at h
    · rename_i hle
      simp at h
      obtain ⟨rfl, rfl, rfl⟩ := h
      exact ⟨0, by omega, by simpa using hN, by intro r hr; simp [hr], by intro hr; exact ⟨hr, by omega⟩⟩
  | succ f ih =>
    intro nodes rem ds nodes' rem' ds' e he hN h
    simp only [coalLoop] at h
    split at h
    · rename_i hle
      simp at h
      obtain ⟨rfl, rfl, rfl⟩ := h
      exact ⟨0, by omega, by simpa using hN, by intro r hr; simp [hr], by intro hr; exact ⟨hr, hle⟩⟩
    · split at h
      · simp at h
      · rename_i w ds1
        split at h
        · simp at h
        rename_i hw
        have hτ : 0 ≤ w * timeUnits pop := Int.mul_nonneg (by omega) (timeUnits_nonneg pop)
        split at h
        · rename_i hwp
          split at h
          · simp at h
          · rename_i nodes1 ds2 hev
            have h1 := coalEvent_ok B Dv Q e _ _ _ _ _ he hτ link hN hev
            obtain ⟨el, hel0, hel1, hel2, hel3⟩ := ih _ _ _ _ _ _ (e + w * timeUnits pop) (by omega) h1 h
            refine ⟨w * timeUnits pop + el, by omega, ?_, ?_, ?_⟩
            · intro t ht
              obtain ⟨a1, a2, a3⟩ := hel1 t ht
              exact ⟨by rw [← Int.add_assoc]; exact a1, a2, a3⟩
            · intro r hr
              subst hr
              simp [withinPeriod] at hwp
              obtain ⟨h4a, h4b⟩ := hel2 (r - w * timeUnits pop) (by simp)
              refine ⟨by rw [h4a]; congr 1; omega, ?_⟩
              intro h0
              have := h4b (by omega)
              omega
            · intro hr
              exact hel3 (by simp [hr])
        · rename_i hcond
          simp at h
          obtain ⟨rfl, rfl, rfl⟩ := h
          refine ⟨0, by omega, by simpa using hN, by intro r hr; simp [hr], ?_⟩
          intro hr
          subst hr
          simp [withinPeriod] at hcond
      · simp at h

/-- `coalesce_nodes` along a branch: lineages rise by the branch length (`None`: by something non-negative), every
old and new join respects the divergence bound -/
theorem coalesce_ok (B : Nat → Int → Prop) (Dv : Nat → Nat → Int → Prop) (Q : Nat → Prop) (pop : Nat)
    (link : ∀ x y d, Dv x y d → ∃ d', B x d' ∧ d ≤ d')
    (nodes out : List GT) (period : Option Int) (ds ds' : List Draw) (hp : 0 ≤ period.getD 0)
    (hN : ∀ t ∈ nodes, Fl B 0 t ∧ JK Dv t ∧ Lv Q t) (h : coalesce pop nodes period ds = .ok (out, ds')) :
    (∀ t ∈ out, Fl B (period.getD 0) t ∧ JK Dv t ∧ Lv Q t) ∧ (period = none → out.length ≤ 1) := by
  unfold coalesce at h
  split at h
  · simp at h
    obtain ⟨rfl, rfl⟩ := h
    simp
  · split at h
    · simp at h
    · rename_i nodes' rem' ds1 hl
      obtain ⟨el, hel0, hel1, hel2, hel3⟩ := coalLoop_ok B Dv Q pop link _ _ _ _ _ _ _ 0 (by omega) hN hl
      split at h
      · rename_i r'
        cases period with
        | none => have := (hel3 rfl).1; simp at this
        | some r =>
          obtain ⟨h4, h4b⟩ := hel2 r rfl
          simp at h4
          simp at hp
          have := h4b hp
          split at h
          · simp at h
            obtain ⟨rfl, rfl⟩ := h
            refine ⟨?_, by simp⟩
            intro t ht
            simp only [List.mem_map] at ht
            obtain ⟨t0, ht0, rfl⟩ := ht
            obtain ⟨a1, a2, a3⟩ := hel1 t0 ht0
            have := Fl_addLen B _ r' t0 a1
            refine ⟨?_, JK_addLen Dv r' t0 a2, Lv_addLen Q r' t0 a3⟩
            simp only [Option.getD_some]
            have e : r = 0 + el + r' := by omega
            rw [e]; exact this
          · simp at h
            obtain ⟨rfl, rfl⟩ := h
            refine ⟨?_, by simp⟩
            intro t ht
            obtain ⟨a1, a2, a3⟩ := hel1 t ht
            refine ⟨?_, a2, a3⟩
            simp only [Option.getD_some]
            have e : r = 0 + el := by omega
            rw [e]; exact a1
      · simp at h
        obtain ⟨rfl, rfl⟩ := h
        cases period with
        | some r => have := (hel2 r rfl).1; simp at this
        | none =>
          refine ⟨?_, fun _ => (hel3 rfl).2⟩
          intro t ht
          obtain ⟨a1, a2, a3⟩ := hel1 t ht
          exact ⟨Fl_mono B _ _ t (by simp; omega) a1, a2, a3⟩
end Aux

namespace Aux
theorem good_kids {i : Nat} {len : Option Int} {pop : Nat} {genes : List (Nat × Nat)} {cs : List ST}
    (h : Good (.node i len pop genes cs)) :
    (∀ c ∈ cs, Good c) ∧ (∀ c ∈ cs, 0 ≤ c.elen) ∧ (cs = [] → ∀ g ∈ genes, g.1 = i) ∧ (cs ≠ [] → genes = []) ∧
    (∀ (k1 k2 : Nat) (c1 c2 : ST) (a : Nat) (d1 d2 : Int), cs[k1]? = some c1 → cs[k2]? = some c2 → Below c1 a d1 → Below c2 a d2 → k1 = k2) := by
  cases h with
  | mk _ _ _ _ _ h1 h2 h3 h4 h5 => exact ⟨h1, h2, h3, h4, h5⟩

/-- the divergence of `a` from `b` inside `S` is never more than `a`'s distance below `S` -/
theorem div_le_below : ∀ (S : ST) (a b : Nat) (d : Int), Good S → Div S a b d → ∃ d', Below S a d' ∧ d ≤ d' := by
  intro S a b d hG h
  induction h with
  | inside i len pop genes cs c a b d hc _ ih =>
    obtain ⟨g1, g2, _, _, _⟩ := good_kids hG
    obtain ⟨d', hb, hle⟩ := ih (g1 c hc)
    exact ⟨d' + c.elen, Below.step i len pop genes cs c a d' hc hb, by have := g2 c hc; omega⟩
  | «here» i len pop genes cs k1 k2 c1 c2 a b d1 d2 h1 h2 hne hb1 hb2 =>
    exact ⟨d1 + c1.elen, Below.step i len pop genes cs c1 a d1 (List.mem_of_getElem? h1) hb1, by omega⟩

theorem div_below : ∀ (S : ST) (a b : Nat) (d : Int), Div S a b d → (∃ d1, Below S a d1) ∧ (∃ d2, Below S b d2) := by
  intro S a b d h
  induction h with
  | inside i len pop genes cs c a b d hc _ ih =>
    obtain ⟨⟨d1, h1⟩, ⟨d2, h2⟩⟩ := ih
    exact ⟨⟨_, Below.step i len pop genes cs c a d1 hc h1⟩, ⟨_, Below.step i len pop genes cs c b d2 hc h2⟩⟩
  | «here» i len pop genes cs k1 k2 c1 c2 a b d1 d2 h1 h2 hne hb1 hb2 =>
    exact ⟨⟨_, Below.step i len pop genes cs c1 a d1 (List.mem_of_getElem? h1) hb1⟩,
           ⟨_, Below.step i len pop genes cs c2 b d2 (List.mem_of_getElem? h2) hb2⟩⟩

theorem Lv_join_left (Q : Nat → Prop) (l : Int) (x y : GT) (h : Lv Q (.join l x y)) : Lv Q x ∧ Lv Q y := by
  constructor
  · intro p hp
    exact h (p.1, p.2 + l) (by simp only [GT.depths, List.mem_map, List.mem_append]; exact ⟨p, Or.inl hp, rfl⟩)
  · intro p hp
    exact h (p.1, p.2 + l) (by simp only [GT.depths, List.mem_map, List.mem_append]; exact ⟨p, Or.inr hp, rfl⟩)

/-- joins that respect the divergences inside child `c` respect those inside the parent, as long as all the leaves
involved lie below `c` -/
theorem JK_lift (i : Nat) (len : Option Int) (pop : Nat) (genes : List (Nat × Nat)) (cs : List ST) (k : Nat) (c : ST)
    (hG : Good (.node i len pop genes cs)) (hk : cs[k]? = some c) :
    ∀ (t : GT), JK (Div c) t → Lv (fun a => ∃ d, Below c a d) t → JK (Div (.node i len pop genes cs)) t := by
  obtain ⟨_, _, _, _, sep⟩ := good_kids hG
  intro t
  induction t with
  | leaf a b l => intro _ _; simp [JK]
  | join l x y ihx ihy =>
    intro hj hl
    obtain ⟨hlx, hly⟩ := Lv_join_left _ l x y hl
    obtain ⟨jx, jy, jp⟩ := hj
    refine ⟨ihx jx hlx, ihy jy hly, ?_⟩
    intro p hp q hq hne
    obtain ⟨da, hba⟩ := hlx p hp
    obtain ⟨db, hbb⟩ := hly q hq
    obtain ⟨j1, j2⟩ := jp p hp q hq hne
    -- any divergence recorded at the parent is one recorded inside `c`
    have key : ∀ (a b : Nat) (da db : Int), Below c a da → Below c b db → ∀ d, Div (.node i len pop genes cs) a b d → Div c a b d := by
      intro a b da db hba hbb d hd
      cases hd with
      | inside _ _ _ _ _ c' _ _ _ hc' hdv =>
        obtain ⟨k', hk'⟩ := List.getElem?_of_mem hc'
        obtain ⟨⟨d1, hb1⟩, _⟩ := div_below c' a b d hdv
        have := sep k' k c' c a d1 da hk' hk hb1 hba
        subst this
        rw [hk] at hk'
        simp at hk'
        subst hk'
        exact hdv
      | «here» _ _ _ _ _ k1 k2 c1 c2 _ _ d1 d2 h1 h2 hne hb1 hb2 =>
        have e1 := sep k1 k c1 c a d1 da h1 hk hb1 hba
        have e2 := sep k2 k c2 c b d2 db h2 hk hb2 hbb
        omega
    exact ⟨fun d hd => j1 d (key _ _ _ _ hba hbb d hd), fun d hd => j2 d (key _ _ _ _ hbb hba d hd)⟩

/-- a lineage is *at* node `S` correctly: leaves below `S`, each at least as high as its population is below `S`,
joins respecting the divergences inside `S` -/
def AtOK (S : ST) (t : GT) : Prop := Fl (Below S) 0 t ∧ JK (Div S) t ∧ Lv (fun a => ∃ d, Below S a d) t
/-- the same at the top of the edge above `S` -/
def LinOK (S : ST) (t : GT) : Prop := Fl (Below S) S.elen t ∧ JK (Div S) t ∧ Lv (fun a => ∃ d, Below S a d) t

/-- the pool of lineages at a node: the node's own sampled genes and what the children hand up -/
theorem node_pool_ok (i : Nat) (len : Option Int) (pop : Nat) (genes : List (Nat × Nat)) (cs : List ST) (inc : List GT)
    (hG : Good (.node i len pop genes cs)) (hinc : ∀ t ∈ inc, ∃ (k : Nat) (c : ST), cs[k]? = some c ∧ LinOK c t) :
    ∀ t ∈ genes.map (fun g => GT.leaf g.1 g.2 0) ++ inc, AtOK (.node i len pop genes cs) t := by
  obtain ⟨_, _, tag, nog, sep⟩ := good_kids hG
  intro t ht
  simp only [List.mem_append, List.mem_map] at ht
  rcases ht with ⟨g, hg, rfl⟩ | ht
  · -- an own gene: only leaves carry genes
    have hcs : cs = [] := by
      cases cs with
      | nil => rfl
      | cons c cs' => have := nog (by simp); rw [this] at hg; simp at hg
    subst hcs
    have hgi := tag rfl g hg
    refine ⟨?_, by simp [JK], ?_⟩
    · intro p hp d hd
      simp [GT.depths] at hp
      subst hp
      simp only at hd
      cases hd with
      | leaf => simp
      | step _ _ _ _ _ c _ _ hc _ => simp at hc
    · intro p hp
      simp [GT.depths] at hp
      subst hp
      simp only [hgi]
      exact ⟨0, Below.leaf i len pop genes⟩
  · obtain ⟨k, c, hk, hfl, hjk, hlv⟩ := hinc t ht
    have hc : c ∈ cs := List.mem_of_getElem? hk
    refine ⟨?_, JK_lift i len pop genes cs k c hG hk t hjk hlv, ?_⟩
    · intro p hp d hd
      obtain ⟨da, hba⟩ := hlv p hp
      cases hd with
      | leaf => simp at hc
      | step _ _ _ _ _ c' _ d' hc' hb' =>
        obtain ⟨k', hk'⟩ := List.getElem?_of_mem hc'
        have := sep k' k c' c _ d' da hk' hk hb' hba
        subst this
        rw [hk] at hk'
        simp at hk'
        subst hk'
        have := hfl p hp d' hb'
        omega
    · intro p hp
      obtain ⟨da, hba⟩ := hlv p hp
      exact ⟨_, Below.step i len pop genes cs c _ da hc hba⟩

mutual
theorem edge_ok : ∀ (S : ST) (ds : List Draw) (out : List GT) (ds' : List Draw), Good S → 0 ≤ S.elen →
    containedEdge S ds = .ok (out, ds') → ∀ t ∈ out, LinOK S t
  | .node i len pop genes cs, ds, out, ds', hG, hlen, h => by
    simp only [containedEdge] at h
    split at h
    · simp at h
    · rename_i inc ds1 hk
      obtain ⟨g1, g2, _, _, _⟩ := good_kids hG
      have hinc := kids_ok cs ds inc ds1 (fun c hc => ⟨g1 c hc, g2 c hc⟩) hk
      have hpool := node_pool_ok i len pop genes cs inc hG hinc
      have := (coalesce_ok (Below (.node i len pop genes cs)) (Div (.node i len pop genes cs)) _ pop
        (fun x y d hd => div_le_below _ x y d hG hd) _ out len ds1 ds' (by simpa [ST.elen] using hlen) hpool h).1
      intro t ht
      simpa [LinOK, ST.elen] using this t ht
theorem kids_ok : ∀ (cs : List ST) (ds : List Draw) (out : List GT) (ds' : List Draw), (∀ c ∈ cs, Good c ∧ 0 ≤ c.elen) →
    containedKids cs ds = .ok (out, ds') → ∀ t ∈ out, ∃ (k : Nat) (c : ST), cs[k]? = some c ∧ LinOK c t
  | [], ds, out, ds', _, h => by
    simp [containedKids] at h
    intro t ht
    rw [h.1] at ht
    simp at ht
  | c :: cs, ds, out, ds', hG, h => by
    simp only [containedKids] at h
    split at h
    · simp at h
    · rename_i up ds1 he
      split at h
      · simp at h
      · rename_i ups ds2 hk
        simp at h
        obtain ⟨rfl, rfl⟩ := h
        have h1 := edge_ok c ds up ds1 (hG c (by simp)).1 (hG c (by simp)).2 he
        have h2 := kids_ok cs ds1 ups ds2 (fun x hx => hG x (by simp [hx])) hk
        intro t ht
        simp only [List.mem_append] at ht
        rcases ht with ht | ht
        · exact ⟨0, c, by simp, h1 t ht⟩
        · obtain ⟨k, c', hk', hl⟩ := h2 t ht
          exact ⟨k + 1, c', by simpa using hk', hl⟩
end
end Aux

/-- **no early joins**: in the gene tree returned by the contained coalescent on an admissible population tree `S`,
for EVERY draw list, every join of lineages sampled from different populations lies at least as far above each of the
two gene leaves as those populations' divergence lies above the corresponding population leaf (`JK (Div S)`). -/
theorem contained_no_early_join (S : ST) (ds : List Draw) (g : GT) (hG : Good S) (h : contained S ds = .ok g) :
    JK (Div S) g := by
  cases S with
  | node i len pop genes cs =>
    simp only [contained] at h
    split at h
    · simp at h
    · rename_i inc ds1 hk
      obtain ⟨g1, g2, _, _, _⟩ := Aux.good_kids hG
      have hinc := Aux.kids_ok cs ds inc ds1 (fun c hc => ⟨g1 c hc, g2 c hc⟩) hk
      have hpool := Aux.node_pool_ok i len pop genes cs inc hG hinc
      split at h
      · simp at h
      · rename_i t' hc
        simp at h; subst h
        have := (Aux.coalesce_ok (Below (.node i len pop genes cs)) (Div (.node i len pop genes cs)) _ pop
          (fun x y d hd => Aux.div_le_below _ x y d hG hd) _ _ none ds1 [] (by simp) hpool hc).1
        exact (this _ (by simp)).2.1
      all_goals simp at h

/-- unfolded reading of `JK` at the root join, for the record: leaves `p ∈ x`, `q ∈ y` of different populations -/
theorem JK_root_reading (Dv : Nat → Nat → Int → Prop) (l : Int) (x y : GT) (h : JK Dv (.join l x y))
    (p q : (Nat × Nat) × Int) (hp : p ∈ x.depths) (hq : q ∈ y.depths) (hne : p.1.1 ≠ q.1.1) (d : Int)
    (hd : Dv p.1.1 q.1.1 d) : d ≤ p.2 := (h.2.2 p hp q hq hne).1 d hd

namespace Aux
theorem coalEvent_length (τ : Int) (nodes nodes1 : List GT) (ds ds1 : List Draw) (h : coalEvent τ nodes ds = .ok (nodes1, ds1)) :
    nodes1.length + 1 = nodes.length := by
  obtain ⟨i, j, a, b, ha, hb, hij, rfl, _⟩ := coalEvent_shape τ nodes nodes1 ds ds1 h
  have := length_removeTwo i j _ a b ha hb hij
  simp at this ⊢
  omega

theorem coalEvent_not_fuel (τ : Int) (nodes : List GT) (ds : List Draw) : coalEvent τ nodes ds ≠ .error .fuel := by
  unfold coalEvent
  simp only
  split
  · simp
  · split
    · split <;> simp
    · simp
  · simp

theorem coalLoop_not_fuel (pop : Nat) : ∀ (f : Nat) (nodes : List GT) (rem : Option Int) (ds : List Draw),
    nodes.length ≤ f + 1 → coalLoop pop f nodes rem ds ≠ .error .fuel := by
  intro f
  induction f with
  | zero =>
    intro nodes rem ds hl
    simp only [coalLoop]
    split
    · omega
    · simp
  | succ f ih =>
    intro nodes rem ds hl
    simp only [coalLoop]
    split
    · simp
    · split
      · simp
      · split
        · simp
        · split
          · split
            · rename_i e he
              intro h
              simp at h
              subst h
              exact coalEvent_not_fuel _ _ _ he
            · rename_i nodes1 ds1 hev
              have := coalEvent_length _ _ _ _ _ hev
              exact ih _ _ _ (by omega)
          · simp
      · simp
end Aux

/-- the fuel `len(nodes)` handed to the coalescence loop is never exhausted: every event removes one lineage -/
theorem coalesce_fuel_suffices (pop : Nat) (nodes : List GT) (period : Option Int) (ds : List Draw) :
    coalesce pop nodes period ds ≠ .error .fuel := by
  unfold coalesce
  split
  · simp
  · split
    · rename_i e he
      intro h
      simp at h
      subst h
      exact Aux.coalLoop_not_fuel pop _ _ _ _ (by omega) he
    · split
      · split <;> simp
      · simp

/-- non-vacuity of `Good`: two populations (indices 1, 2) that diverged 4 resp. 6 time units ago, one resp. two genes -/
def exampleST : ST :=
  .node 0 none 1 [] [.node 1 (some 4) 1 [(1, 1)] [], .node 2 (some 6) 2 [(2, 1), (2, 2)] []]

theorem exampleST_good : Good exampleST := by
  unfold exampleST
  refine Good.mk _ _ _ _ _ ?_ ?_ (by simp) (by simp) ?_
  · intro c hc
    simp at hc
    rcases hc with rfl | rfl
    · exact Good.mk _ _ _ _ _ (by simp) (by simp) (by simp) (by simp) (by simp)
    · exact Good.mk _ _ _ _ _ (by simp) (by simp) (by simp) (by simp) (by simp)
  · intro c hc
    simp at hc
    rcases hc with rfl | rfl <;> simp [ST.elen]
  · intro k1 k2 c1 c2 a d1 d2 h1 h2 hb1 hb2
    match k1, k2 with
    | 0, 0 => rfl
    | 1, 1 => rfl
    | 0, 1 =>
      simp at h1 h2; subst h1; subst h2
      cases hb1 with
      | leaf => cases hb2 with
        | step _ _ _ _ _ c _ _ hc _ => simp at hc
      | step _ _ _ _ _ c _ _ hc _ => simp at hc
    | 1, 0 =>
      simp at h1 h2; subst h1; subst h2
      cases hb1 with
      | leaf => cases hb2 with
        | step _ _ _ _ _ c _ _ hc _ => simp at hc
      | step _ _ _ _ _ c _ _ hc _ => simp at hc
    | k + 2, _ => simp at h1
    | _, k + 2 => simp at h2

/-- on it: the two genes of population 2 coalesce inside their branch (1·2 ≤ 6), the survivor meets population 1's gene
above the root, 7 above population 1's leaf and 9 above population 2's — not below the divergences 4 and 6 -/
example : (contained exampleST [.w 1, .samp 0 1, .w 3, .samp 0 1]).toOption.map (fun g => g.depths) =
    some [((1, 1), 7), ((2, 1), 9), ((2, 2), 9)] := by decide

/-! ### `constrained_kingman_tree(gene_sampling_strategy="random_uniform")`: gene placement does not matter -/
namespace Aux

theorem JK_mono (Dv Dv' : Nat → Nat → Int → Prop) (h : ∀ a b d, Dv' a b d → Dv a b d) : ∀ (t : GT), JK Dv t → JK Dv' t := by
  intro t
  induction t with
  | leaf a b l => intro _; simp [JK]
  | join l x y ihx ihy =>
    intro hj
    obtain ⟨jx, jy, jp⟩ := hj
    refine ⟨ihx jx, ihy jy, ?_⟩
    intro p hp q hq hne
    obtain ⟨j1, j2⟩ := jp p hp q hq hne
    exact ⟨fun d hd => j1 d (h _ _ d hd), fun d hd => j2 d (h _ _ d hd)⟩

theorem below_node_iff (i : Nat) (len : Option Int) (pop : Nat) (genes : List (Nat × Nat)) (cs : List ST) (a : Nat) (d : Int) :
    Below (.node i len pop genes cs) a d ↔ (cs = [] ∧ a = i ∧ d = 0) ∨ (∃ c ∈ cs, ∃ d', Below c a d' ∧ d = d' + c.elen) := by
  constructor
  · intro h
    cases h with
    | leaf => left; simp
    | step _ _ _ _ _ c _ d' hc hb => right; exact ⟨c, hc, d', hb, rfl⟩
  · intro h
    rcases h with ⟨rfl, rfl, rfl⟩ | ⟨c, hc, d', hb, rfl⟩
    · exact Below.leaf _ _ _ _
    · exact Below.step _ _ _ _ _ c a d' hc hb

theorem elen_setGenes (f : Nat → List (Nat × Nat)) (S : ST) : (S.setGenes f).elen = S.elen := by
  cases S with
  | node i l p g cs => cases cs <;> simp [ST.setGenes, ST.elen]

theorem getElem?_setGenesL (f : Nat → List (Nat × Nat)) : ∀ (cs : List ST) (k : Nat),
    (ST.setGenesL f cs)[k]? = (cs[k]?).map (ST.setGenes f) := by
  intro cs
  induction cs with
  | nil => intro k; simp [ST.setGenesL]
  | cons c cs ih =>
    intro k
    cases k with
    | zero => simp [ST.setGenesL]
    | succ k => simp [ST.setGenesL, ih]

theorem mem_setGenesL (f : Nat → List (Nat × Nat)) (cs : List ST) (c' : ST) :
    c' ∈ ST.setGenesL f cs ↔ ∃ c ∈ cs, c' = ST.setGenes f c := by
  induction cs with
  | nil => simp [ST.setGenesL]
  | cons c cs ih => simp [ST.setGenesL, ih]

mutual
theorem below_set (f : Nat → List (Nat × Nat)) : ∀ (S : ST) (a : Nat) (d : Int), Below (S.setGenes f) a d ↔ Below S a d
  | .node i l p g [], a, d => by
    simp only [ST.setGenes]
    rw [below_node_iff, below_node_iff]
  | .node i l p g (c :: cs), a, d => by
    simp only [ST.setGenes]
    rw [below_node_iff, below_node_iff]
    have := below_setL f (c :: cs) a d
    have e1 : ST.setGenesL f (c :: cs) ≠ [] := by simp [ST.setGenesL]
    have e2 : (c :: cs) ≠ [] := by simp
    simp only [e1, e2, false_and, false_or]
    exact this
theorem below_setL (f : Nat → List (Nat × Nat)) : ∀ (cs : List ST) (a : Nat) (d : Int),
    (∃ c ∈ ST.setGenesL f cs, ∃ d', Below c a d' ∧ d = d' + c.elen) ↔ (∃ c ∈ cs, ∃ d', Below c a d' ∧ d = d' + c.elen)
  | [], a, d => by simp [ST.setGenesL]
  | c :: cs, a, d => by
    have h1 := below_set f c a
    have h2 := below_setL f cs a d
    simp only [ST.setGenesL, List.mem_cons, exists_eq_or_imp, elen_setGenes, h1, h2]
end

end Aux

namespace Aux
/-- re-sampling the genes at the leaves (with correct tags) keeps a population tree admissible -/
theorem good_set (f : Nat → List (Nat × Nat)) (hf : ∀ i, ∀ x ∈ f i, x.1 = i) : ∀ (S : ST), Good S → Good (S.setGenes f)
  | .node i l p g [], _ => by
    simp only [ST.setGenes]
    exact Good.mk _ _ _ _ _ (by simp) (by simp) (fun _ => hf i) (by simp) (by simp)
  | .node i l p g (c :: cs), hG => by
    obtain ⟨g1, g2, _, g4, sep⟩ := good_kids hG
    simp only [ST.setGenes]
    refine Good.mk _ _ _ _ _ ?_ ?_ (by simp [ST.setGenesL]) (fun _ => g4 (by simp)) ?_
    · intro c' hc'
      obtain ⟨c0, hc0, rfl⟩ := (mem_setGenesL f _ c').mp hc'
      have : sizeOf c0 < sizeOf (ST.node i l p g (c :: cs)) := by
        have := List.sizeOf_lt_of_mem hc0
        simp only [ST.node.sizeOf_spec]; omega
      exact good_set f hf c0 (g1 c0 hc0)
    · intro c' hc'
      obtain ⟨c0, hc0, rfl⟩ := (mem_setGenesL f _ c').mp hc'
      rw [elen_setGenes]; exact g2 c0 hc0
    · intro k1 k2 c1 c2 a d1 d2 h1 h2 hb1 hb2
      rw [getElem?_setGenesL] at h1 h2
      simp only [Option.map_eq_some_iff] at h1 h2
      obtain ⟨c1', h1', rfl⟩ := h1
      obtain ⟨c2', h2', rfl⟩ := h2
      exact sep k1 k2 c1' c2' a d1 d2 h1' h2' ((below_set f c1' a d1).mp hb1) ((below_set f c2' a d2).mp hb2)
termination_by S => sizeOf S

/-- divergences are a matter of the tree's shape and lengths only, not of the genes sampled at its leaves -/
theorem div_set (f : Nat → List (Nat × Nat)) : ∀ (S : ST) (a b : Nat) (d : Int), Div S a b d → Div (S.setGenes f) a b d := by
  intro S a b d h
  induction h with
  | inside i len pop genes cs c a b d hc _ ih =>
    cases cs with
    | nil => simp at hc
    | cons c0 cs0 =>
      simp only [ST.setGenes]
      exact Div.inside _ _ _ _ _ (c.setGenes f) a b d ((mem_setGenesL f _ _).mpr ⟨c, hc, rfl⟩) ih
  | «here» i len pop genes cs k1 k2 c1 c2 a b d1 d2 h1 h2 hne hb1 hb2 =>
    cases cs with
    | nil => simp at h1
    | cons c0 cs0 =>
      simp only [ST.setGenes]
      have := Div.here i len pop genes (ST.setGenesL f (c0 :: cs0)) k1 k2 (c1.setGenes f) (c2.setGenes f) a b d1 d2
        (by rw [getElem?_setGenesL, h1]; rfl) (by rw [getElem?_setGenesL, h2]; rfl) hne
        ((below_set f c1 a d1).mpr hb1) ((below_set f c2 b d2).mpr hb2)
      rwa [elen_setGenes] at this
end Aux

/-- **no early joins, `constrained_kingman_tree` with `random_uniform` gene placement**: wherever the `rng.choice` draws
put the genes, the gene tree respects the divergences of the population tree -/
theorem containedRU_no_early_join (S : ST) (numGenes : Nat) (ds : List Draw) (g : GT) (hG : Good S)
    (h : containedRU S numGenes ds = .ok g) : JK (Div S) g := by
  unfold containedRU at h
  split at h
  · simp at h
  · rename_i gs ds1 _
    have hf : ∀ i, ∀ x ∈ (fun i => gs.filter (fun g => g.1 == i)) i, x.1 = i := by
      intro i x hx
      simp at hx
      exact hx.2
    have := contained_no_early_join _ ds1 g (Aux.good_set _ hf S hG) h
    exact Aux.JK_mono _ _ (fun a b d hd => Aux.div_set _ S a b d hd) g this

/-! ### no internal failure, progress, leaf sets (added after the audit) -/



namespace Aux
theorem hasAlive_addAlive (i : Nat) (w : Int) (t : BT) : (t.addAlive w).hasAlive i = t.hasAlive i := by
  induction t with
  | tip j l a => simp [BT.addAlive, BT.hasAlive]
  | un j l c ih => simp [BT.addAlive, BT.hasAlive, ih]
  | bin j l x y ihx ihy => simp [BT.addAlive, BT.hasAlive, ihx, ihy]

theorem splitFirst_none (i a b : Nat) (l0 : Int) : ∀ (t : BT), splitFirst i a b l0 t = none → t.hasAlive i = false := by
  intro t
  induction t with
  | tip j l al =>
    intro h
    simp only [BT.splitFirst] at h
    split at h
    · simp at h
    · rename_i hc; simpa [BT.hasAlive] using hc
  | un j l c ih => intro h; simp [BT.splitFirst] at h; simp [BT.hasAlive, ih h]
  | bin j l x y ihx ihy =>
    intro h
    simp only [BT.splitFirst] at h
    split at h
    · simp at h
    · rename_i hx
      simp at h
      simp [BT.hasAlive, ihx hx, ihy h]

theorem splitFirst_some (i a b : Nat) (l0 : Int) (t : BT) (h : t.hasAlive i = true) : ∃ t', splitFirst i a b l0 t = some t' := by
  cases hs : splitFirst i a b l0 t with
  | some t' => exact ⟨t', rfl⟩
  | none => rw [splitFirst_none i a b l0 t hs] at h; simp at h

/-- after a birth the two daughters are alive tips and every other alive tip is untouched -/
theorem splitFirst_hasAlive (i a b : Nat) (l0 : Int) : ∀ (t t' : BT), splitFirst i a b l0 t = some t' →
    (∀ j, j ≠ i → t.hasAlive j = true → t'.hasAlive j = true) ∧ t'.hasAlive a = true ∧ t'.hasAlive b = true := by
  intro t
  induction t with
  | tip j l al =>
    intro t' h
    simp only [BT.splitFirst] at h
    split at h
    · rename_i hc
      simp at h; subst h
      simp at hc
      refine ⟨?_, by simp [BT.hasAlive], by simp [BT.hasAlive]⟩
      intro k hk hal
      simp [BT.hasAlive, hc.2] at hal
      exact absurd hal.2.symm hk
    · simp at h
  | un j l c ih =>
    intro t' h
    simp only [BT.splitFirst, Option.map_eq_some_iff] at h
    obtain ⟨c', hc, rfl⟩ := h
    simpa [BT.hasAlive] using ih c' hc
  | bin j l x y ihx ihy =>
    intro t' h
    simp only [BT.splitFirst] at h
    split at h
    · rename_i x' hx
      simp at h; subst h
      obtain ⟨h1, h2, h3⟩ := ihx x' hx
      refine ⟨?_, by simp [BT.hasAlive, h2], by simp [BT.hasAlive, h3]⟩
      intro k hk hal
      simp only [BT.hasAlive, Bool.or_eq_true] at hal ⊢
      rcases hal with hal | hal
      · exact Or.inl (h1 k hk hal)
      · exact Or.inr hal
    · simp only [Option.map_eq_some_iff] at h
      obtain ⟨y', hy, rfl⟩ := h
      obtain ⟨h1, h2, h3⟩ := ihy y' hy
      refine ⟨?_, by simp [BT.hasAlive, h2], by simp [BT.hasAlive, h3]⟩
      intro k hk hal
      simp only [BT.hasAlive, Bool.or_eq_true] at hal ⊢
      rcases hal with hal | hal
      · exact Or.inl hal
      · exact Or.inr (h1 k hk hal)

theorem killFirst_none (i : Nat) : ∀ (t : BT), killFirst i t = none → t.hasAlive i = false := by
  intro t
  induction t with
  | tip j l al =>
    intro h
    simp only [BT.killFirst] at h
    split at h
    · simp at h
    · rename_i hc; simpa [BT.hasAlive] using hc
  | un j l c ih => intro h; simp [BT.killFirst] at h; simp [BT.hasAlive, ih h]
  | bin j l x y ihx ihy =>
    intro h
    simp only [BT.killFirst] at h
    split at h
    · simp at h
    · rename_i hx
      simp at h
      simp [BT.hasAlive, ihx hx, ihy h]

theorem killFirst_some (i : Nat) (t : BT) (h : t.hasAlive i = true) : ∃ t', killFirst i t = some t' := by
  cases hs : killFirst i t with
  | some t' => exact ⟨t', rfl⟩
  | none => rw [killFirst_none i t hs] at h; simp at h

theorem killFirst_hasAlive (i : Nat) : ∀ (t t' : BT), killFirst i t = some t' →
    ∀ j, j ≠ i → t.hasAlive j = true → t'.hasAlive j = true := by
  intro t
  induction t with
  | tip j l al =>
    intro t' h
    simp only [BT.killFirst] at h
    split at h
    · rename_i hc
      simp at h; subst h
      simp at hc
      intro k hk hal
      simp [BT.hasAlive, hc.2] at hal
      exact absurd hal.2.symm hk
    · simp at h
  | un j l c ih =>
    intro t' h
    simp only [BT.killFirst, Option.map_eq_some_iff] at h
    obtain ⟨c', hc, rfl⟩ := h
    simpa [BT.hasAlive] using ih c' hc
  | bin j l x y ihx ihy =>
    intro t' h
    simp only [BT.killFirst] at h
    split at h
    · rename_i x' hx
      simp at h; subst h
      intro k hk hal
      simp only [BT.hasAlive, Bool.or_eq_true] at hal ⊢
      rcases hal with hal | hal
      · exact Or.inl (ihx x' hx k hk hal)
      · exact Or.inr hal
    · simp only [Option.map_eq_some_iff] at h
      obtain ⟨y', hy, rfl⟩ := h
      intro k hk hal
      simp only [BT.hasAlive, Bool.or_eq_true] at hal ⊢
      rcases hal with hal | hal
      · exact Or.inl hal
      · exact Or.inr (ihy y' hy k hk hal)

theorem removeTip_sublist (i : Nat) : ∀ (l : List Tip), (removeTip i l).Sublist l := by
  intro l
  induction l with
  | nil => simp [removeTip]
  | cons t ts ih =>
    simp only [removeTip]
    split
    · exact List.sublist_cons_self t ts
    · exact ih.cons_cons t

theorem removeTip_ne (i : Nat) : ∀ (l : List Tip), (l.map Tip.id).Nodup → ∀ t ∈ removeTip i l, t.id ≠ i := by
  intro l
  induction l with
  | nil => intro _ t ht; simp [removeTip] at ht
  | cons x xs ih =>
    intro hnd t ht
    simp only [List.map_cons, List.nodup_cons] at hnd
    simp only [removeTip] at ht
    split at ht
    · rename_i hx
      simp at hx
      intro hti
      exact hnd.1 (by rw [hx, ← hti]; exact List.mem_map.mpr ⟨t, ht, rfl⟩)
    · rename_i hx
      simp at hx
      simp at ht
      rcases ht with rfl | ht
      · exact hx
      · exact ih hnd.2 t ht

theorem rates_length : ∀ (l : List Tip), (rates l).length = 2 * l.length := by
  intro l
  induction l with
  | nil => simp [rates]
  | cons t ts ih => simp [rates, ih]; omega

theorem rates_props : ∀ (l : List Tip), (∀ t ∈ l, 0 < t.br ∧ 0 ≤ t.dr) → (∀ w ∈ rates l, 0 ≤ w) ∧ 0 ≤ (rates l).sum ∧ (l ≠ [] → 0 < (rates l).sum) := by
  intro l
  induction l with
  | nil => intro _; simp [rates]
  | cons t ts ih =>
    intro h
    obtain ⟨h1, h2, _⟩ := ih (fun x hx => h x (by simp [hx]))
    obtain ⟨hb, hd⟩ := h t (by simp)
    refine ⟨?_, ?_, ?_⟩
    · intro w hw
      simp [rates] at hw
      rcases hw with rfl | rfl | hw
      · omega
      · omega
      · exact h1 w hw
    · simp [rates]; omega
    · intro _; simp [rates]; omega
end Aux

/-- the part of the loop invariant of `birth_death_tree` that guarantees every internal lookup succeeds: the entries
of `extant_tips` have pairwise distinct fresh ids, each names an alive tip of the tree, and no rate is below the initial one -/
structure SInv (P : BDParams) (s : BDState) : Prop where
  nodup : (s.extant.map Tip.id).Nodup
  fresh : ∀ t ∈ s.extant, t.id < s.next
  alive : ∀ t ∈ s.extant, s.tree.hasAlive t.id = true
  rates : ∀ t ∈ s.extant, P.b ≤ t.br ∧ P.d ≤ t.dr
  ne : s.extant ≠ []
  nextLB : P.start.maxId < s.next

namespace Aux
theorem init_sinv_at (P : BDParams) (hG : GoodStart P) (nx : Nat) (h : P.start.maxId < nx) : SInv P { bdInit P with next := nx } := by
  refine ⟨?_, ?_, ?_, ?_, ?_, h⟩
  · simpa [bdInit, List.map_map, Function.comp_def] using hG.nodup
  · intro t ht
    simp only [bdInit, List.mem_map] at ht
    obtain ⟨i, hi, rfl⟩ := ht
    have := aliveIds_le P.start i hi
    show i < nx; omega
  · intro t ht
    simp only [bdInit, List.mem_map] at ht
    obtain ⟨i, hi, rfl⟩ := ht
    exact hasAlive_of_mem P.start i hi
  · intro t ht
    simp only [bdInit, List.mem_map] at ht
    obtain ⟨i, hi, rfl⟩ := ht
    simp
  · have := hG.alive1
    rw [← aliveIds_length] at this
    intro he
    simp only [bdInit, List.map_eq_nil_iff] at he
    rw [he] at this; simp at this
end Aux

theorem bd_init_sinv (P : BDParams) (hG : GoodStart P) : SInv P (bdInit P) :=
  Aux.init_sinv_at P hG _ (by simp [bdInit])


/-- draws the scripted generator can serve for `gauss`: never lowering a rate -/
def GaussNonneg (ds : List Draw) : Prop := ∀ v, Draw.g v ∈ ds → 0 ≤ v

namespace Aux
theorem sbirth (P : BDParams) (s : BDState) (nd : Tip) (ds : List Draw) (hS : SInv P s) (hnd : nd ∈ s.extant) (hg : GaussNonneg ds) :
    bdBirth s nd (removeTip nd.id s.extant) ds ≠ .error .state ∧
    ∀ s' ds', bdBirth s nd (removeTip nd.id s.extant) ds = .ok (.cont s' ds') → SInv P s' ∧ (∀ x ∈ ds', x ∈ ds) := by
  obtain ⟨t, ht⟩ := splitFirst_some nd.id s.next (s.next + 1) 0 s.tree (hS.alive nd hnd)
  obtain ⟨a1, a2, a3⟩ := splitFirst_hasAlive _ _ _ _ _ _ ht
  have hsub := removeTip_sublist nd.id s.extant
  unfold bdBirth
  split
  · rename_i g1 g2 g3 g4 ds3
    rw [ht]
    refine ⟨by simp, ?_⟩
    intro s' ds' h
    simp at h
    obtain ⟨rfl, rfl⟩ := h
    have hrn := hS.rates nd hnd
    have hg1 := hg g1 (by simp)
    have hg2 := hg g2 (by simp)
    have hg3 := hg g3 (by simp)
    have hg4 := hg g4 (by simp)
    refine ⟨⟨?_, ?_, ?_, ?_, by simp, by have := hS.nextLB; show P.start.maxId < s.next + 2; omega⟩, by intro x hx; simp [hx]⟩
    · simp only [List.map_append, List.map_cons, List.map_nil]
      rw [List.nodup_append]
      refine ⟨(hS.nodup.sublist (hsub.map Tip.id)), by simp, ?_⟩
      intro x hx y hy
      simp only [List.mem_map] at hx
      obtain ⟨t0, ht0, rfl⟩ := hx
      have := hS.fresh t0 (hsub.subset ht0)
      simp at hy
      omega
    · intro t0 ht0
      simp only [List.mem_append, List.mem_cons, List.mem_nil_iff, or_false] at ht0
      rcases ht0 with h | rfl | rfl
      · have := hS.fresh t0 (hsub.subset h); show t0.id < s.next + 2; omega
      · simp
      · simp
    · intro t0 ht0
      simp only [List.mem_append, List.mem_cons, List.mem_nil_iff, or_false] at ht0
      rcases ht0 with h | rfl | rfl
      · exact a1 t0.id (removeTip_ne nd.id s.extant hS.nodup t0 h) (hS.alive t0 (hsub.subset h))
      · exact a2
      · exact a3
    · intro t0 ht0
      simp only [List.mem_append, List.mem_cons, List.mem_nil_iff, or_false] at ht0
      rcases ht0 with h | rfl | rfl
      · exact hS.rates t0 (hsub.subset h)
      · simp; omega
      · simp; omega
  · refine ⟨by split <;> simp, ?_⟩
    intro s' ds' h
    simp at h

theorem sdeath (P : BDParams) (hG : GoodStart P) (s : BDState) (nd : Tip) (ds : List Draw) (hS : SInv P s) (hnd : nd ∈ s.extant) :
    bdDeath P s nd (removeTip nd.id s.extant) ds ≠ .error .state ∧
    ∀ s' ds', bdDeath P s nd (removeTip nd.id s.extant) ds = .ok (.cont s' ds') → SInv P s' ∧ (∀ x ∈ ds', x ∈ ds) := by
  obtain ⟨t, ht⟩ := killFirst_some nd.id s.tree (hS.alive nd hnd)
  have a1 := killFirst_hasAlive _ _ _ ht
  have hsub := removeTip_sublist nd.id s.extant
  unfold bdDeath
  split
  · refine ⟨by simp, ?_⟩
    intro s' ds' h
    simp at h
    obtain ⟨rfl, rfl⟩ := h
    exact ⟨init_sinv_at P hG s.next hS.nextLB, fun x hx => hx⟩
  · rename_i hne
    rw [ht]
    refine ⟨by simp, ?_⟩
    intro s' ds' h
    simp at h
    obtain ⟨rfl, rfl⟩ := h
    refine ⟨⟨hS.nodup.sublist (hsub.map Tip.id), fun t0 h0 => hS.fresh t0 (hsub.subset h0), ?_, fun t0 h0 => hS.rates t0 (hsub.subset h0), ?_, hS.nextLB⟩, fun x hx => hx⟩
    · intro t0 h0
      exact a1 t0.id (removeTip_ne nd.id s.extant hS.nodup t0 h0) (hS.alive t0 (hsub.subset h0))
    · intro he; simp at he; simp [he] at hne

theorem sevent (P : BDParams) (hG : GoodStart P) (s : BDState) (ds : List Draw) (hb : 0 < P.b) (hd : 0 ≤ P.d) (hS : SInv P s) (hg : GaussNonneg ds) :
    bdEvent P s ds ≠ .error .state ∧
    ∀ s' ds', bdEvent P s ds = .ok (.cont s' ds') → SInv P s' ∧ (∀ x ∈ ds', x ∈ ds) := by
  unfold bdEvent
  split
  · rename_i hz
    have hr0 := rates_props s.extant (fun t ht => by have := hS.rates t ht; omega)
    have := hr0.2.2 hS.ne
    simp at hz; omega
  split
  · exact ⟨by simp, by intro s' ds' h; simp at h⟩
  · rename_i p q ds2
    split
    · exact ⟨by simp, by intro s' ds' h; simp at h⟩
    · rename_i hpq
      simp at hpq
      have hr := rates_props s.extant (fun t ht => by have := hS.rates t ht; omega)
      obtain ⟨k, hk⟩ := wic_total p q (rates s.extant) (by omega) (by omega) (hr.2.2 hS.ne)
      have hklt := wic_lt_length p q _ k (by omega) hr.2.1 hk
      rw [rates_length] at hklt
      rw [wicN_pos p q _ (hr.2.2 hS.ne), hk]
      simp only
      have hidx : k / 2 < s.extant.length := by omega
      rw [List.getElem?_eq_getElem hidx]
      simp only
      have hnd : s.extant[k / 2] ∈ s.extant := List.getElem_mem hidx
      have hg2 : GaussNonneg ds2 := fun v hv => hg v (by simp [hv])
      split
      · obtain ⟨h1, h2⟩ := sbirth P s _ ds2 hS hnd hg2
        refine ⟨h1, ?_⟩
        intro s' ds' h
        obtain ⟨a, b⟩ := h2 s' ds' h
        exact ⟨a, fun x hx => by simp [b x hx]⟩
      · obtain ⟨h1, h2⟩ := sdeath P hG s _ ds2 hS hnd
        refine ⟨h1, ?_⟩
        intro s' ds' h
        obtain ⟨a, b⟩ := h2 s' ds' h
        exact ⟨a, fun x hx => by simp [b x hx]⟩
  · exact ⟨by simp, by intro s' ds' h; simp at h⟩

theorem siter (P : BDParams) (hG : GoodStart P) (s : BDState) (ds : List Draw) (hb : 0 < P.b) (hd : 0 ≤ P.d) (hS : SInv P s) (hg : GaussNonneg ds) :
    bdIter P s ds ≠ .error .state ∧
    ∀ s' ds', bdIter P s ds = .ok (.cont s' ds') → SInv P s' ∧ (∀ x ∈ ds', x ∈ ds) := by
  unfold bdIter
  split
  · exact ⟨by simp, by intro s' ds' h; simp at h⟩
  · split
    · exact ⟨by simp, by intro s' ds' h; simp at h⟩
    · rename_i w ds1
      split
      · exact ⟨by simp, by intro s' ds' h; simp at h⟩
      · simp only
        have hS1 : SInv P { s with tree := s.tree.addAlive w, total := s.total + w } :=
          ⟨hS.nodup, hS.fresh, fun t ht => by simp [hasAlive_addAlive, hS.alive t ht], hS.rates, hS.ne, hS.nextLB⟩
        split
        · obtain ⟨h1, h2⟩ := sevent P hG _ ds1 hb hd hS1 (fun v hv => hg v (by simp [hv]))
          refine ⟨h1, ?_⟩
          intro s' ds' h
          obtain ⟨a, b⟩ := h2 s' ds' h
          exact ⟨a, fun x hx => by simp [b x hx]⟩
        · refine ⟨by simp, ?_⟩
          intro s' ds' h
          simp at h
          obtain ⟨rfl, rfl⟩ := h
          exact ⟨hS1, fun x hx => by simp [hx]⟩
    · exact ⟨by simp, by intro s' ds' h; simp at h⟩

theorem sloop (P : BDParams) (hG : GoodStart P) (hb : 0 < P.b) (hd : 0 ≤ P.d) : ∀ (f : Nat) (s : BDState) (ds : List Draw), SInv P s → GaussNonneg ds →
    bdLoop P f s ds ≠ .error .state := by
  intro f
  induction f with
  | zero => intro s ds _ _; simp [bdLoop]
  | succ f ih =>
    intro s ds hS hg
    obtain ⟨h1, h2⟩ := siter P hG s ds hb hd hS hg
    simp only [bdLoop]
    split
    · rename_i e he
      intro h
      simp at h
      subst h
      exact h1 he
    · simp
    · rename_i s1 ds1 hit
      obtain ⟨a, b⟩ := h2 s1 ds1 hit
      exact ih s1 ds1 a (fun v hv => hg v (b _ hv))

theorem birth_not_arg (s : BDState) (nd : Tip) (rest : List Tip) (ds : List Draw) : bdBirth s nd rest ds ≠ .error .arg := by
  unfold bdBirth
  split
  · split <;> simp
  · split <;> simp
theorem death_not_arg (P : BDParams) (s : BDState) (nd : Tip) (rest : List Tip) (ds : List Draw) : bdDeath P s nd rest ds ≠ .error .arg := by
  unfold bdDeath
  split
  · simp
  · split <;> simp
theorem event_not_arg (P : BDParams) (s : BDState) (ds : List Draw) : bdEvent P s ds ≠ .error .arg := by
  unfold bdEvent
  split
  · simp
  split
  · simp
  · split
    · simp
    · split
      · simp
      · split
        · simp
        · split
          · exact birth_not_arg _ _ _ _
          · exact death_not_arg _ _ _ _ _
  · simp
theorem iter_not_arg (P : BDParams) (s : BDState) (ds : List Draw) : bdIter P s ds ≠ .error .arg := by
  unfold bdIter
  split
  · simp
  · split
    · simp
    · split
      · simp
      · simp only
        split
        · exact event_not_arg _ _ _
        · simp
    · simp
theorem loop_not_arg (P : BDParams) : ∀ (f : Nat) (s : BDState) (ds : List Draw), bdLoop P f s ds ≠ .error .arg := by
  intro f
  induction f with
  | zero => intro s ds; simp [bdLoop]
  | succ f ih =>
    intro s ds
    simp only [bdLoop]
    split
    · rename_i e he
      intro h; simp at h; subst h
      exact iter_not_arg P s ds he
    · simp
    · exact ih _ _

theorem finishRetain_errors (n0 : Nat) (t : BT) (ds : List Draw) (e : Err) (h : finishRetain n0 t ds = .error e) :
    e = .draws ∨ e = .kind := by
  unfold finishRetain at h
  simp only at h
  split at h
  · split at h <;> simp at h
    simp [← h]
  · split at h <;> (simp at h; simp [← h])

theorem finish_errors (n0 : Nat) (t : BT) (ds : List Draw) (e : Err) (h1 : 1 ≤ t.aliveCount) (h : finish n0 t ds = .error e) :
    e = .draws ∨ e = .kind := by
  unfold finish at h
  split at h
  · rename_i hp
    have := (prune_none t hp).1
    omega
  · simp only at h
    split at h
    · split at h <;> simp at h
      simp [← h]
    · split at h <;> (simp at h; simp [← h])

theorem finish_not_state (n0 : Nat) (t : BT) (ds : List Draw) (h : 1 ≤ t.aliveCount) : finish n0 t ds ≠ .error .state := by
  unfold finish
  split
  · rename_i hp
    have := (prune_none t hp).1
    omega
  · simp only
    split
    · split <;> simp
    · split <;> simp
end Aux

/-- **no internal failure**: with admissible rates (`birth > 0`, `death ≥ 0`) and `gauss` draws that never lower a rate
(in particular `birth_rate_sd = death_rate_sd = 0`), a run of `birth_death_tree` can only stop early because the draw
script is too short (`draws`) or serves a draw of the wrong kind / an impossible value (`kind`): every lookup of the
code (the weighted choice, `extant_tips.remove`, the node to split or kill, the pruning) succeeds and the fuel suffices -/
theorem bd_only_script_errors (P : BDParams) (hG : GoodStart P) (n0 : Nat) (ds : List Draw) (e : Err) (hb : 0 < P.b) (hd : 0 ≤ P.d)
    (hg : GaussNonneg ds) (h : bdRun P n0 ds = .error e) : e = .draws ∨ e = .kind := by
  have hfuel := bd_fuel_suffices P hG (ds.length + 1) (bdInit P) ds (bd_init_inv P hG) (by omega)
  have hstate := Aux.sloop P hG hb hd (ds.length + 1) (bdInit P) ds (bd_init_sinv P hG) hg
  unfold bdRun at h
  split at h
  · rename_i e' he
    simp at h; subst h
    -- errors of the loop
    cases e' with
    | draws => simp
    | kind => simp
    | fuel => exact absurd he hfuel
    | state => exact absurd he hstate
    | arg => exact absurd he (Aux.loop_not_arg P _ _ _)
  · rename_i s rest hl
    obtain ⟨hI, _⟩ := bd_loop_inv P hG _ _ _ _ _ (bd_init_inv P hG) hl
    have h1 : 1 ≤ s.tree.aliveCount := by rw [← hI.count]; exact hI.pos
    split at h
    · exact Aux.finishRetain_errors n0 s.tree rest e h
    · exact Aux.finish_errors n0 s.tree rest e h1 h

/-- **progress of the loop body**: from a state satisfying the invariant, one waiting time `w ≥ 0`, one uniform draw
`0 ≤ p/q < 1` and four non-negative `gauss` draws always let a pass through the body of `birth_death_tree` complete
(whatever it does: stop, no event because of `max_time`, birth, death, restart) -/
theorem bd_iter_progress (P : BDParams) (hG : GoodStart P) (s : BDState) (w p q g1 g2 g3 g4 : Int) (rest : List Draw)
    (hb : 0 < P.b) (hd : 0 ≤ P.d) (hS : SInv P s) (hw : 0 ≤ w) (hp : 0 ≤ p) (hpq : p < q) :
    ∃ st, bdIter P s (.w w :: .u p q :: .g g1 :: .g g2 :: .g g3 :: .g g4 :: rest) = .ok st := by
  unfold bdIter
  split
  · exact ⟨_, rfl⟩
  · simp only
    rw [if_neg (by omega)]
    split
    · have hS1 : SInv P { s with tree := s.tree.addAlive w, total := s.total + w } :=
        ⟨hS.nodup, hS.fresh, fun t ht => by simp [Aux.hasAlive_addAlive, hS.alive t ht], hS.rates, hS.ne, hS.nextLB⟩
      generalize hs1 : ({ s with tree := s.tree.addAlive w, total := s.total + w } : BDState) = s1 at hS1
      unfold bdEvent
      split
      · rename_i hz
        have hr0 := Aux.rates_props s1.extant (fun t ht => by have := hS1.rates t ht; omega)
        have := hr0.2.2 hS1.ne
        simp at hz; omega
      simp only
      have hcond : (decide (q ≤ 0) || decide (p < 0) || decide (p ≥ q)) = false := by simp; omega
      rw [hcond]
      simp only [Bool.false_eq_true, if_false]
      have hr := Aux.rates_props s1.extant (fun t ht => by have := hS1.rates t ht; omega)
      obtain ⟨k, hk⟩ := wic_total p q (rates s1.extant) hp hpq (hr.2.2 hS1.ne)
      have hklt := wic_lt_length p q _ k hp hr.2.1 hk
      rw [Aux.rates_length] at hklt
      rw [wicN_pos p q _ (hr.2.2 hS1.ne), hk]
      simp only
      have hidx : k / 2 < s1.extant.length := by omega
      rw [List.getElem?_eq_getElem hidx]
      simp only
      have hnd : s1.extant[k / 2] ∈ s1.extant := List.getElem_mem hidx
      split
      · obtain ⟨t, ht⟩ := Aux.splitFirst_some s1.extant[k / 2].id s1.next (s1.next + 1) 0 s1.tree (hS1.alive _ hnd)
        unfold bdBirth
        simp only [ht]
        exact ⟨_, rfl⟩
      · unfold bdDeath
        split
        · exact ⟨_, rfl⟩
        · obtain ⟨t, ht⟩ := Aux.killFirst_some s1.extant[k / 2].id s1.tree (hS1.alive _ hnd)
          simp only [ht]
          exact ⟨_, rfl⟩
    · exact ⟨_, rfl⟩

/-- **progress of the tail**: once the loop has stopped (at least one extant tip), two valid shuffles complete the run -/
theorem finish_progress (n0 : Nat) (t : BT) (p1 p2 : List Nat) (h1 : 1 ≤ t.aliveCount) (hp1 : isPerm n0 p1 = true)
    (hp2 : isPerm t.aliveCount p2 = true) : ∃ r, finish n0 t [.perm p1, .perm p2] = .ok r := by
  unfold finish
  split
  · rename_i hp
    have := (Aux.prune_none t hp).1
    omega
  · rename_i t1 ht1
    obtain ⟨a1, _, _⟩ := Aux.prune_some t t1 ht1
    obtain ⟨_, b2, _, _⟩ := Aux.suppress_props t1
    simp only
    unfold assignTaxa
    rw [b2, a1, hp1, hp2]
    exact ⟨_, rfl⟩

namespace Aux
theorem set_perm {α : Type} (v : α) : ∀ (l : List α) (k : Nat), k < l.length → (l.set k v).Perm (v :: l.eraseIdx k) := by
  intro l
  induction l with
  | nil => intro k h; simp at h
  | cons x xs ih =>
    intro k h
    cases k with
    | zero => simp
    | succ k =>
      simp only [List.set_cons_succ, List.eraseIdx_cons_succ]
      exact ((ih k (by simpa using h)).cons x).trans (List.Perm.swap v x _)

theorem splitFast_none (i a b : Nat) (T : Int) : ∀ (t : BT), splitFast i a b T t = none → t.hasAlive i = false := by
  intro t
  induction t with
  | tip j l al =>
    intro h
    simp only [BT.splitFast] at h
    split at h
    · simp at h
    · rename_i hc; simpa [BT.hasAlive] using hc
  | un j l c ih => intro h; simp [BT.splitFast] at h; simp [BT.hasAlive, ih h]
  | bin j l x y ihx ihy =>
    intro h
    simp only [BT.splitFast] at h
    split at h
    · simp at h
    · rename_i hx
      simp at h
      simp [BT.hasAlive, ihx hx, ihy h]

theorem splitFast_some (i a b : Nat) (T : Int) (t : BT) (h : t.hasAlive i = true) : ∃ t', splitFast i a b T t = some t' := by
  cases hs : splitFast i a b T t with
  | some t' => exact ⟨t', rfl⟩
  | none => rw [splitFast_none i a b T t hs] at h; simp at h

theorem splitFast_hasAlive (i a b : Nat) (T : Int) : ∀ (t t' : BT), splitFast i a b T t = some t' →
    (∀ j, j ≠ i → t.hasAlive j = true → t'.hasAlive j = true) ∧ t'.hasAlive a = true ∧ t'.hasAlive b = true := by
  intro t
  induction t with
  | tip j l al =>
    intro t' h
    simp only [BT.splitFast] at h
    split at h
    · rename_i hc
      simp at h; subst h
      simp at hc
      refine ⟨?_, by simp [BT.hasAlive], by simp [BT.hasAlive]⟩
      intro k hk hal
      simp [BT.hasAlive, hc.2] at hal
      exact absurd hal.2.symm hk
    · simp at h
  | un j l c ih =>
    intro t' h
    simp only [BT.splitFast, Option.map_eq_some_iff] at h
    obtain ⟨c', hc, rfl⟩ := h
    simpa [BT.hasAlive] using ih c' hc
  | bin j l x y ihx ihy =>
    intro t' h
    simp only [BT.splitFast] at h
    split at h
    · rename_i x' hx
      simp at h; subst h
      obtain ⟨h1, h2, h3⟩ := ihx x' hx
      refine ⟨?_, by simp [BT.hasAlive, h2], by simp [BT.hasAlive, h3]⟩
      intro k hk hal
      simp only [BT.hasAlive, Bool.or_eq_true] at hal ⊢
      rcases hal with hal | hal
      · exact Or.inl (h1 k hk hal)
      · exact Or.inr hal
    · simp only [Option.map_eq_some_iff] at h
      obtain ⟨y', hy, rfl⟩ := h
      obtain ⟨h1, h2, h3⟩ := ihy y' hy
      refine ⟨?_, by simp [BT.hasAlive, h2], by simp [BT.hasAlive, h3]⟩
      intro k hk hal
      simp only [BT.hasAlive, Bool.or_eq_true] at hal ⊢
      rcases hal with hal | hal
      · exact Or.inl hal
      · exact Or.inr (h1 k hk hal)

/-- under `Nodup`, what is left after erasing position `k` differs from the erased element -/
theorem eraseIdx_ne (l : List Nat) (k : Nat) (a : Nat) (hk : l[k]? = some a) (hnd : l.Nodup) : ∀ x ∈ l.eraseIdx k, x ≠ a := by
  have hp := eraseIdx_perm l k a hk
  have := (hp.nodup_iff).mpr hnd
  intro x hx hxa
  subst hxa
  exact (List.nodup_cons.mp this).1 hx
end Aux

/-- lookup part of the invariant of `fast_birth_death_tree` -/
structure FSInv (s : FState) : Prop where
  nodup : s.extant.Nodup
  fresh : ∀ i ∈ s.extant, i < s.next
  alive : ∀ i ∈ s.extant, s.tree.hasAlive i = true
  ne : s.extant ≠ []

theorem fbd_init_sinv : FSInv fInit := by
  refine ⟨by simp [fInit], by simp [fInit], by simp [fInit, BT.hasAlive], by simp [fInit]⟩

namespace Aux
theorem fsevent (P : BDParams) (s : FState) (ds : List Draw) (hS : FSInv s) :
    fbdEvent P s ds ≠ .error .state ∧ fbdEvent P s ds ≠ .error .fuel ∧ fbdEvent P s ds ≠ .error .arg ∧
    ∀ s' ds', fbdEvent P s ds = .ok (.cont s' ds') → FSInv s' := by
  unfold fbdEvent
  split
  · rename_i ti p q ds2
    split
    · simp
    split
    · simp
    split
    · simp
    · rename_i nd hnd
      have hidx : ti.toNat < s.extant.length := (List.getElem?_eq_some_iff.mp hnd).1
      have hmem : nd ∈ s.extant := List.mem_of_getElem? hnd
      have hne := eraseIdx_ne s.extant ti.toNat nd hnd hS.nodup
      have hsub := List.eraseIdx_sublist s.extant ti.toNat
      split
      · obtain ⟨t, ht⟩ := splitFast_some nd s.next (s.next + 1) s.total s.tree (hS.alive nd hmem)
        obtain ⟨a1, a2, a3⟩ := splitFast_hasAlive _ _ _ _ _ _ ht
        rw [ht]
        refine ⟨by simp, by simp, by simp, ?_⟩
        intro s' ds' h
        simp at h
        obtain ⟨rfl, _⟩ := h
        have hperm := set_perm s.next s.extant ti.toNat hidx
        have hfr : ∀ x ∈ s.extant.eraseIdx ti.toNat, x < s.next := fun x hx => hS.fresh x (hsub.subset hx)
        have hnd2 : (s.next :: s.extant.eraseIdx ti.toNat).Nodup :=
          List.nodup_cons.mpr ⟨fun hm => by have := hfr _ hm; omega, hS.nodup.sublist hsub⟩
        refine ⟨?_, ?_, ?_, by simp⟩
        · show (s.extant.set ti.toNat s.next ++ [s.next + 1]).Nodup
          rw [List.nodup_append]
          refine ⟨hperm.nodup_iff.mpr hnd2, by simp, ?_⟩
          intro x hx y hy
          have := hperm.subset hx
          simp at this hy
          rcases this with rfl | h
          · omega
          · have := hfr x h; omega
        · intro x hx
          show x < s.next + 2
          simp only [List.mem_append, List.mem_singleton] at hx
          rcases hx with hx | rfl
          · have := hperm.subset hx
            simp at this
            rcases this with rfl | h
            · omega
            · have := hfr x h; omega
          · omega
        · intro x hx
          simp only [List.mem_append, List.mem_singleton] at hx
          rcases hx with hx | rfl
          · have := hperm.subset hx
            simp at this
            rcases this with rfl | h
            · exact a2
            · exact a1 x (hne x h) (hS.alive x (hsub.subset h))
          · exact a3
      · split
        · refine ⟨by simp, by simp, by simp, ?_⟩
          intro s' ds' h
          simp at h
          obtain ⟨rfl, _⟩ := h
          have hpos : 0 < s.next := by have := hS.fresh nd hmem; omega
          exact ⟨by simp, by simpa using hpos, by simp [BT.hasAlive], by simp⟩
        · rename_i hnemp
          obtain ⟨t, ht⟩ := killFirst_some nd s.tree (hS.alive nd hmem)
          have a1 := killFirst_hasAlive _ _ _ ht
          rw [ht]
          refine ⟨by simp, by simp, by simp, ?_⟩
          intro s' ds' h
          simp at h
          obtain ⟨rfl, _⟩ := h
          refine ⟨hS.nodup.sublist hsub, fun x hx => hS.fresh x (hsub.subset hx), fun x hx => a1 x (hne x hx) (hS.alive x (hsub.subset hx)), ?_⟩
          intro he
          simp at he
          simp [he] at hnemp
  · refine ⟨by split <;> simp, by split <;> simp, by split <;> simp, ?_⟩
    intro s' ds' h
    simp at h

theorem fsiter (P : BDParams) (s : FState) (ds : List Draw) (hS : FSInv s) :
    fbdIter P s ds ≠ .error .state ∧ fbdIter P s ds ≠ .error .fuel ∧ fbdIter P s ds ≠ .error .arg ∧
    ∀ s' ds', fbdIter P s ds = .ok (.cont s' ds') → FSInv s' := by
  unfold fbdIter
  split
  · exact ⟨by simp, by simp, by simp, by intro s' ds' h; simp at h⟩
  · split
    · exact ⟨by simp, by simp, by simp, by intro s' ds' h; simp at h⟩
    · rename_i w ds1
      split
      · exact ⟨by simp, by simp, by simp, by intro s' ds' h; simp at h⟩
      · simp only
        have hS1 : FSInv { s with total := s.total + w } := ⟨hS.nodup, hS.fresh, hS.alive, hS.ne⟩
        split
        · exact fsevent P _ ds1 hS1
        · refine ⟨by simp, by simp, by simp, ?_⟩
          intro s' ds' h
          simp at h
          obtain ⟨rfl, _⟩ := h
          exact hS1
    · exact ⟨by simp, by simp, by simp, by intro s' ds' h; simp at h⟩

theorem fsloop (P : BDParams) : ∀ (f : Nat) (s : FState) (ds : List Draw), FSInv s → FInv P s → ds.length < f →
    ∀ e, fbdLoop P f s ds = .error e → e = .draws ∨ e = .kind := by
  intro f
  induction f with
  | zero => intro s ds _ _ h; omega
  | succ f ih =>
    intro s ds hS hI hlen e h
    obtain ⟨h1, h2, h3, h4⟩ := fsiter P s ds hS
    simp only [fbdLoop] at h
    split at h
    · rename_i e' he
      simp at h; subst h
      cases e' with
      | draws => simp
      | kind => simp
      | fuel => exact absurd he h2
      | state => exact absurd he h1
      | arg => exact absurd he h3
    · simp at h
    · rename_i s1 ds1 hit
      have := fbd_inv P s s1 ds ds1 hI hit
      exact ih s1 ds1 (h4 s1 ds1 hit) this.1 (by omega) e h
end Aux

/-- **no internal failure, fast variant**: with `birth + death > 0` a run of `fast_birth_death_tree` can only fail on its
draw script (too short, wrong kind, `randint` out of range): the fuel suffices and every lookup succeeds -/
theorem fbd_only_script_errors (P : BDParams) (n0 : Nat) (ds : List Draw) (e : Err) (hbd : 0 < P.b + P.d)
    (h : fbdRun P n0 ds = .error e) : e = .draws ∨ e = .kind := by
  unfold fbdRun at h
  rw [if_neg (by omega)] at h
  split at h
  · rename_i e' he
    simp at h; subst h
    exact Aux.fsloop P (ds.length + 1) fInit ds fbd_init_sinv (fbd_init_inv P) (by omega) e' he
  · rename_i s rest hl
    obtain ⟨s0, hI, _, rfl⟩ := fbd_loop_inv P _ _ _ _ _ (fbd_init_inv P) hl
    have h1 : 1 ≤ (s0.tree.closeAlive s0.total).aliveCount := by
      rw [Aux.closeAlive_count, ← hI.count]; exact hI.pos
    have := Aux.finish_not_state n0 _ rest h1
    cases e with
    | draws => simp
    | kind => simp
    | state => exact absurd h this
    | fuel =>
      exfalso
      unfold finish at h
      split at h
      · simp at h
      · simp only at h
        split at h
        · split at h <;> simp at h
        · split at h <;> simp at h
    | arg =>
      exfalso
      unfold finish at h
      split at h
      · simp at h
      · simp only at h
        split at h
        · split at h <;> simp at h
        · split at h <;> simp at h

namespace Aux
theorem pbLoop_errors (n : Nat) : ∀ (f : Nat) (t : BT) (next : Nat) (ds : List Draw) (e : Err), ds.length < f →
    pbLoop n f t next ds = .error e → e = .draws ∨ e = .kind := by
  intro f
  induction f with
  | zero => intro t next ds e h; omega
  | succ f ih =>
    intro t next ds e hlen h
    simp only [pbLoop] at h
    split at h
    · simp at h
    · split at h
      · rename_i w k ds2
        split at h
        · simp at h; simp [← h]
        split at h
        · simp at h; simp [← h]
        · exact ih _ _ ds2 e (by simp at hlen; omega) h
      · split at h <;> (simp at h; simp [← h])

theorem coalEvent_errors (τ : Int) (nodes : List GT) (ds : List Draw) (e : Err) (h : coalEvent τ nodes ds = .error e) :
    e = .draws ∨ e = .kind := by
  unfold coalEvent at h
  simp only at h
  split at h
  · simp at h; simp [← h]
  · split at h
    · split at h <;> simp at h
      simp [← h]
    · simp at h; simp [← h]
  · simp at h; simp [← h]

theorem coalLoop_errors (pop : Nat) : ∀ (f : Nat) (nodes : List GT) (rem : Option Int) (ds : List Draw) (e : Err),
    coalLoop pop f nodes rem ds = .error e → e = .draws ∨ e = .kind ∨ e = .fuel := by
  intro f
  induction f with
  | zero =>
    intro nodes rem ds e h
    simp only [coalLoop] at h
    split at h <;> simp at h
    simp [← h]
  | succ f ih =>
    intro nodes rem ds e h
    simp only [coalLoop] at h
    split at h
    · simp at h
    · split at h
      · simp at h; simp [← h]
      · split at h
        · simp at h; simp [← h]
        · split at h
          · split at h
            · rename_i e' he
              simp at h; subst h
              rcases coalEvent_errors _ _ _ _ he with h | h <;> simp [h]
            · exact ih _ _ _ _ h
          · simp at h
      · simp at h; simp [← h]

/-- without a period the loop only stops at a single lineage (or none) -/
theorem coalLoop_none_len (pop : Nat) : ∀ (f : Nat) (nodes : List GT) (ds : List Draw) (nodes' : List GT) (rem' : Option Int) (ds' : List Draw),
    coalLoop pop f nodes none ds = .ok (nodes', rem', ds') → nodes'.length ≤ 1 ∧ rem' = none := by
  intro f
  induction f with
  | zero =>
    intro nodes ds nodes' rem' ds' h
    simp only [coalLoop] at h
    split at h <;> simp at h
    obtain ⟨rfl, rfl, _⟩ := h
    exact ⟨by omega, rfl⟩
  | succ f ih =>
    intro nodes ds nodes' rem' ds' h
    simp only [coalLoop] at h
    split at h
    · rename_i hle
      simp at h
      obtain ⟨rfl, rfl, _⟩ := h
      exact ⟨hle, rfl⟩
    · split at h
      · simp at h
      · split at h
        · simp at h
        · simp only [withinPeriod, if_true, Option.map_none] at h
          split at h
          · simp at h
          · exact ih _ _ _ _ _ h
      · simp at h

theorem coalesce_errors (pop : Nat) (nodes : List GT) (period : Option Int) (ds : List Draw) (e : Err)
    (h : coalesce pop nodes period ds = .error e) : e = .draws ∨ e = .kind := by
  have hf := coalesce_fuel_suffices pop nodes period ds
  unfold coalesce at h
  split at h
  · simp at h
  · rename_i hne
    split at h
    · rename_i e' he
      simp at h; subst h
      rcases coalLoop_errors pop _ _ _ _ _ he with h | h | h
      · simp [h]
      · simp [h]
      · subst h
        exfalso
        apply hf
        unfold coalesce
        rw [if_neg hne, he]
    · exfalso
      split at h
      · split at h <;> simp at h
      · simp at h

theorem coalesce_none_len (pop : Nat) (nodes out : List GT) (ds ds' : List Draw)
    (h : coalesce pop nodes none ds = .ok (out, ds')) : out.length ≤ 1 := by
  unfold coalesce at h
  split at h
  · simp at h
    obtain ⟨rfl, _⟩ := h
    simp
  · split at h
    · simp at h
    · rename_i nodes' rem' ds1 hl
      obtain ⟨h1, rfl⟩ := coalLoop_none_len pop _ _ _ _ _ _ hl
      simp at h
      obtain ⟨rfl, _⟩ := h
      exact h1

mutual
theorem edge_errors : ∀ (S : ST) (ds : List Draw) (e : Err), containedEdge S ds = .error e → e = .draws ∨ e = .kind
  | .node i len pop genes cs, ds, e, h => by
    simp only [containedEdge] at h
    split at h
    · rename_i e' he
      simp at h; subst h
      exact kids_errors cs ds e' he
    · exact coalesce_errors _ _ _ _ _ h
theorem kids_errors : ∀ (cs : List ST) (ds : List Draw) (e : Err), containedKids cs ds = .error e → e = .draws ∨ e = .kind
  | [], ds, e, h => by simp [containedKids] at h
  | c :: cs, ds, e, h => by
    simp only [containedKids] at h
    split at h
    · rename_i e' he
      simp at h; subst h
      exact edge_errors c ds e' he
    · split at h
      · rename_i e' he
        simp at h; subst h
        exact kids_errors cs _ e' he
      · simp at h
end
end Aux

/-- `uniform_pure_birth_tree` over a non-empty namespace can only fail on its draw script (an empty namespace is refused: `arg`) -/
theorem pb_only_script_errors (n : Nat) (ds : List Draw) (e : Err) (hn : 1 ≤ n) (h : pbRun n ds = .error e) : e = .draws ∨ e = .kind := by
  unfold pbRun at h
  rw [if_neg (by simp; omega)] at h
  split at h
  · rename_i e' he
    simp at h; subst h
    exact Aux.pbLoop_errors n _ _ _ ds e' (by omega) he
  · split at h
    · split at h <;> simp at h
      simp [← h]
    · simp at h; simp [← h]
    · simp at h; simp [← h]

/-- `pure_kingman_tree` over `n ≥ 1` taxa can only fail on its draw script (too short, wrong kind, or draws left over):
the unconstrained coalescence always ends with a single lineage and the fuel suffices -/
theorem kingman_only_script_errors (n pop : Nat) (ds : List Draw) (e : Err) (hn : 1 ≤ n) (h : kingman n pop ds = .error e) :
    e = .draws ∨ e = .kind := by
  unfold kingman at h
  split at h
  · rename_i e' he
    simp at h; subst h
    exact Aux.coalesce_errors _ _ _ _ _ he
  · simp at h
  · rename_i a b l ds' hc
    have := Aux.coalesce_none_len _ _ _ _ _ hc
    simp at this
  · rename_i ds' hc
    exfalso
    have := (Aux.coalesce_ultra pop _ _ none ds ds' 0 (by
      intro x hx p hp
      simp only [List.mem_map] at hx
      obtain ⟨k, _, rfl⟩ := hx
      simp [GT.depths] at hp
      simp [hp]) hc).2.2.2.1
    apply this
    · cases n with
      | zero => omega
      | succ m => simp [List.range_succ]
    · rfl
  · simp at h; simp [← h]

/-- the contained coalescent never fails internally: `state` / `fuel` are unreachable, `arg` only reports a tree without genes -/
theorem contained_never_internal_error (S : ST) (ds : List Draw) (e : Err) (h : contained S ds = .error e) :
    e = .draws ∨ e = .kind ∨ e = .arg := by
  cases S with
  | node i len pop genes cs =>
    simp only [contained] at h
    split at h
    · rename_i e' he
      simp at h; subst h
      rcases Aux.kids_errors cs ds e' he with h | h <;> simp [h]
    · split at h
      · rename_i e' he
        simp at h; subst h
        rcases Aux.coalesce_errors _ _ _ _ _ he with h | h <;> simp [h]
      · simp at h
      · simp at h; simp [← h]
      · rename_i a b l ds' hc
        have := Aux.coalesce_none_len _ _ _ _ _ hc
        simp at this
      · simp at h; simp [← h]

mutual
/-- every gene sampled in the population tree, own genes first, then the children's in order -/
def ST.allGenes : ST → List (Nat × Nat)
  | .node _ _ _ genes cs => genes ++ ST.allGenesL cs
def ST.allGenesL : List ST → List (Nat × Nat)
  | [] => []
  | c :: cs => ST.allGenes c ++ ST.allGenesL cs
end

namespace Aux
theorem coalEvent_perm (τ : Int) (nodes nodes1 : List GT) (ds ds1 : List Draw) (h : coalEvent τ nodes ds = .ok (nodes1, ds1)) :
    (nodes1.flatMap GT.leaves).Perm (nodes.flatMap GT.leaves) := by
  obtain ⟨i, j, a, b, ha, hb, hij, rfl, _⟩ := coalEvent_shape τ nodes nodes1 ds ds1 h
  have hp := removeTwo_perm i j _ a b ha hb hij
  have hp2 := (hp.flatMap_right GT.leaves)
  simp only [List.flatMap_cons] at hp2
  have e1 : (nodes.map (GT.addLen τ)).flatMap GT.leaves = nodes.flatMap GT.leaves := by
    rw [List.flatMap_map]; simp [GT.leaves_addLen]
  rw [e1] at hp2
  simp only [List.flatMap_append, List.flatMap_cons, List.flatMap_nil, GT.leaves, List.append_nil]
  refine List.Perm.trans ?_ hp2
  refine List.perm_append_comm.trans ?_
  simp [List.append_assoc]

theorem coalLoop_perm (pop : Nat) : ∀ (f : Nat) (nodes : List GT) (rem : Option Int) (ds : List Draw)
    (nodes' : List GT) (rem' : Option Int) (ds' : List Draw),
    coalLoop pop f nodes rem ds = .ok (nodes', rem', ds') → (nodes'.flatMap GT.leaves).Perm (nodes.flatMap GT.leaves) := by
  intro f
  induction f with
  | zero =>
    intro nodes rem ds nodes' rem' ds' h
    simp only [coalLoop] at h
    split at h <;> simp at h
    obtain ⟨rfl, _, _⟩ := h
    exact List.Perm.refl _
  | succ f ih =>
    intro nodes rem ds nodes' rem' ds' h
    simp only [coalLoop] at h
    split at h
    · simp at h
      obtain ⟨rfl, _, _⟩ := h
      exact List.Perm.refl _
    · split at h
      · simp at h
      · split at h
        · simp at h
        · split at h
          · split at h
            · simp at h
            · rename_i nodes1 ds1 hev
              exact (ih _ _ _ _ _ _ h).trans (coalEvent_perm _ _ _ _ _ hev)
          · simp at h
            obtain ⟨rfl, _, _⟩ := h
            exact List.Perm.refl _
      · simp at h

theorem coalesce_perm (pop : Nat) (nodes out : List GT) (period : Option Int) (ds ds' : List Draw)
    (h : coalesce pop nodes period ds = .ok (out, ds')) : (out.flatMap GT.leaves).Perm (nodes.flatMap GT.leaves) := by
  unfold coalesce at h
  split at h
  · rename_i hemp
    simp at h
    obtain ⟨rfl, _⟩ := h
    simp at hemp
    subst hemp
    exact List.Perm.refl _
  · split at h
    · simp at h
    · rename_i nodes' rem' ds1 hl
      have hp := coalLoop_perm pop _ _ _ _ _ _ _ hl
      split at h
      · split at h
        · simp at h
          obtain ⟨rfl, _⟩ := h
          rw [List.flatMap_map]
          simpa [GT.leaves_addLen] using hp
        · simp at h
          obtain ⟨rfl, _⟩ := h
          exact hp
      · simp at h
        obtain ⟨rfl, _⟩ := h
        exact hp

theorem own_genes_leaves (genes : List (Nat × Nat)) :
    (genes.map (fun g => GT.leaf g.1 g.2 0)).flatMap GT.leaves = genes := by
  induction genes with
  | nil => simp
  | cons g gs ih => simp [GT.leaves, ih]

mutual
theorem edge_leaves : ∀ (S : ST) (ds : List Draw) (out : List GT) (ds' : List Draw),
    containedEdge S ds = .ok (out, ds') → (out.flatMap GT.leaves).Perm S.allGenes
  | .node i len pop genes cs, ds, out, ds', h => by
    simp only [containedEdge] at h
    split at h
    · simp at h
    · rename_i inc ds1 hk
      have h1 := kids_leaves cs ds inc ds1 hk
      have h2 := coalesce_perm _ _ _ _ _ _ h
      refine h2.trans ?_
      simp only [List.flatMap_append, own_genes_leaves, ST.allGenes]
      exact List.Perm.append_left _ h1
theorem kids_leaves : ∀ (cs : List ST) (ds : List Draw) (out : List GT) (ds' : List Draw),
    containedKids cs ds = .ok (out, ds') → (out.flatMap GT.leaves).Perm (ST.allGenesL cs)
  | [], ds, out, ds', h => by
    simp [containedKids] at h
    obtain ⟨rfl, _⟩ := h
    simp [ST.allGenesL]
  | c :: cs, ds, out, ds', h => by
    simp only [containedKids] at h
    split at h
    · simp at h
    · rename_i up ds1 he
      split at h
      · simp at h
      · rename_i ups ds2 hk
        simp at h
        obtain ⟨rfl, _⟩ := h
        simp only [List.flatMap_append, ST.allGenesL]
        exact (edge_leaves c ds up ds1 he).append (kids_leaves cs ds1 ups ds2 hk)
end
end Aux

/-- **one leaf per sampled gene**: the gene tree returned by the contained coalescent carries exactly the genes sampled
in the population tree, each once (its leaf list is a permutation of them) — for every draw list -/
theorem contained_leaves (S : ST) (ds : List Draw) (g : GT) (h : contained S ds = .ok g) : g.leaves.Perm S.allGenes := by
  cases S with
  | node i len pop genes cs =>
    simp only [contained] at h
    split at h
    · simp at h
    · rename_i inc ds1 hk
      have h1 := Aux.kids_leaves cs ds inc ds1 hk
      split at h
      · simp at h
      · rename_i t' hc
        simp at h; subst h
        have h2 := Aux.coalesce_perm _ _ _ _ _ _ hc
        simp only [List.flatMap_cons, List.flatMap_nil, List.append_nil] at h2
        refine h2.trans ?_
        simp only [List.flatMap_append, Aux.own_genes_leaves, ST.allGenes]
        exact List.Perm.append_left _ h1
      all_goals simp at h

example : (contained exampleST [.w 1, .samp 0 1, .w 3, .samp 0 1]).toOption.map GT.leaves = some [(1, 1), (2, 1), (2, 2)] ∧
    exampleST.allGenes = [(1, 1), (2, 1), (2, 2)] := by decide

/-- non-vacuity of the progress theorems: the initial state satisfies both invariants, so by `bd_iter_progress`
*any* six well-kinded draws let the first pass complete; here a concrete one -/
example : ∃ st, bdIter { nTips := some 3, maxTime := none, b := 2, d := 1 } (bdInit { nTips := some 3, maxTime := none, b := 2, d := 1 }) [.w 4, .u 1 8, .g 0, .g 0, .g 0, .g 0] = .ok st :=
  bd_iter_progress _ (goodStart_default _ rfl) _ 4 1 8 0 0 0 0 [] (by decide) (by decide) (bd_init_sinv _ (goodStart_default _ rfl)) (by decide) (by decide) (by decide)

/-- the lookup invariant is kept by every pass through the loop body (with `Inv` this is the full loop invariant) -/
theorem bd_sinv_step (P : BDParams) (hG : GoodStart P) (s s' : BDState) (ds ds' : List Draw) (hb : 0 < P.b) (hd : 0 ≤ P.d) (hS : SInv P s)
    (hg : GaussNonneg ds) (h : bdIter P s ds = .ok (.cont s' ds')) : SInv P s' ∧ GaussNonneg ds' := by
  obtain ⟨a, b⟩ := (Aux.siter P hG s ds hb hd hS hg).2 s' ds' h
  exact ⟨a, fun v hv => hg v (b _ hv)⟩

/-- non-vacuity of the error characterisations: the two script errors do occur -/
example : (match bdRun { nTips := some 2, maxTime := none, b := 2, d := 1 } 0 [.w 4] with | .error e => some e | .ok _ => none) = some Err.draws := by decide
example : (match bdRun { nTips := some 2, maxTime := none, b := 2, d := 1 } 0 [.u 1 2] with | .error e => some e | .ok _ => none) = some Err.kind := by decide
example : (match kingman 2 1 [.w 1, .samp 0 0] with | .error e => some e | .ok _ => none) = some Err.kind := by decide
example : (match fbdRun { nTips := some 2, maxTime := none, b := 2, d := 1 } 0 [.w 4, .rint 5, .u 1 2] with | .error e => some e | .ok _ => none) = some Err.kind := by decide

example : (match pbRun 0 [.w 1] with | .error e => some e | .ok _ => none) = some Err.arg := by decide


/-! ### extension round: `num_extinct_tips` / `num_total_tips` stops, retained extinct tips -/
open BT



namespace Aux
theorem suppress_noUn_id : ∀ (t : BT), t.noUn = true → suppress t = t := by
  intro t
  induction t with
  | tip i l a => intro _; rfl
  | un i l c ih => intro h; simp [BT.noUn] at h
  | bin i l x y ihx ihy =>
    intro h
    simp [BT.noUn] at h
    simp [BT.suppress, ihx h.1, ihy h.2]

theorem deadDepths_addAlive (w : Int) (t : BT) : (t.addAlive w).deadDepths = t.deadDepths := by
  induction t with
  | tip i l a => cases a <;> simp [BT.addAlive, BT.deadDepths]
  | un i l c ih => simp [BT.addAlive, BT.deadDepths, ih]
  | bin i l x y ihx ihy => simp [BT.addAlive, BT.deadDepths, ihx, ihy]

theorem deadDepths_length (t : BT) : t.deadDepths.length + t.aliveCount = t.nLeaves := by
  induction t with
  | tip i l a => cases a <;> simp [BT.deadDepths, BT.aliveCount, BT.nLeaves]
  | un i l c ih => simpa [BT.deadDepths, BT.aliveCount, BT.nLeaves] using ih
  | bin i l x y ihx ihy => simp [BT.deadDepths, BT.aliveCount, BT.nLeaves]; omega

theorem splitFirst_more (i a b : Nat) : ∀ (t t' : BT), splitFirst i a b 0 t = some t' →
    t'.nLeaves = t.nLeaves + 1 ∧ t'.noUn = t.noUn ∧ t'.deadDepths = t.deadDepths := by
  intro t
  induction t with
  | tip j l al =>
    intro t' h
    simp only [BT.splitFirst] at h
    split at h
    · rename_i hc
      simp at h; subst h
      simp at hc
      simp [BT.nLeaves, BT.noUn, BT.deadDepths, hc.1]
    · simp at h
  | un j l c ih =>
    intro t' h
    simp only [BT.splitFirst, Option.map_eq_some_iff] at h
    obtain ⟨c', hc, rfl⟩ := h
    obtain ⟨h1, h2, h3⟩ := ih c' hc
    simp [BT.nLeaves, BT.noUn, BT.deadDepths, h1, h3]
  | bin j l x y ihx ihy =>
    intro t' h
    simp only [BT.splitFirst] at h
    split at h
    · rename_i x' hx
      simp at h; subst h
      obtain ⟨h1, h2, h3⟩ := ihx x' hx
      simp [BT.nLeaves, BT.noUn, BT.deadDepths, h1, h2, h3]; omega
    · simp only [Option.map_eq_some_iff] at h
      obtain ⟨y', hy, rfl⟩ := h
      obtain ⟨h1, h2, h3⟩ := ihy y' hy
      simp [BT.nLeaves, BT.noUn, BT.deadDepths, h1, h2, h3]; omega

theorem killFirst_more (i : Nat) : ∀ (t t' : BT), killFirst i t = some t' →
    t'.nLeaves = t.nLeaves ∧ t'.noUn = t.noUn ∧ ∀ d ∈ t'.deadDepths, d ∈ t.deadDepths ∨ d ∈ t.aliveDepths := by
  intro t
  induction t with
  | tip j l al =>
    intro t' h
    simp only [BT.killFirst] at h
    split at h
    · rename_i hc
      simp at h; subst h
      simp at hc
      simp [BT.nLeaves, BT.noUn, BT.deadDepths, BT.aliveDepths, hc.1]
    · simp at h
  | un j l c ih =>
    intro t' h
    simp only [BT.killFirst, Option.map_eq_some_iff] at h
    obtain ⟨c', hc, rfl⟩ := h
    obtain ⟨h1, h2, h3⟩ := ih c' hc
    refine ⟨by simp [BT.nLeaves, h1], by simp [BT.noUn], ?_⟩
    intro d hd
    simp only [BT.deadDepths, BT.aliveDepths, List.mem_map] at hd ⊢
    obtain ⟨e, he, rfl⟩ := hd
    rcases h3 e he with h | h
    · exact Or.inl ⟨e, h, rfl⟩
    · exact Or.inr ⟨e, h, rfl⟩
  | bin j l x y ihx ihy =>
    intro t' h
    simp only [BT.killFirst] at h
    split at h
    · rename_i x' hx
      simp at h; subst h
      obtain ⟨h1, h2, h3⟩ := ihx x' hx
      refine ⟨by simp [BT.nLeaves, h1], by simp [BT.noUn, h2], ?_⟩
      intro d hd
      simp only [BT.deadDepths, BT.aliveDepths, List.mem_map, List.mem_append] at hd ⊢
      obtain ⟨e, he, rfl⟩ := hd
      rcases he with he | he
      · rcases h3 e he with h | h
        · exact Or.inl ⟨e, Or.inl h, rfl⟩
        · exact Or.inr ⟨e, Or.inl h, rfl⟩
      · exact Or.inl ⟨e, Or.inr he, rfl⟩
    · simp only [Option.map_eq_some_iff] at h
      obtain ⟨y', hy, rfl⟩ := h
      obtain ⟨h1, h2, h3⟩ := ihy y' hy
      refine ⟨by simp [BT.nLeaves, h1], by simp [BT.noUn, h2], ?_⟩
      intro d hd
      simp only [BT.deadDepths, BT.aliveDepths, List.mem_map, List.mem_append] at hd ⊢
      obtain ⟨e, he, rfl⟩ := hd
      rcases he with he | he
      · exact Or.inl ⟨e, Or.inl he, rfl⟩
      · rcases h3 e he with h | h
        · exact Or.inl ⟨e, Or.inr h, rfl⟩
        · exact Or.inr ⟨e, Or.inr h, rfl⟩
end Aux

/-- invariant of `birth_death_tree` concerning the extinct tips and the two further stopping rules: `extinct_tips` has one
entry per extinct tip of the tree, the growing tree has no unary node, no extinct tip lies deeper than the extant ones
(all at `total_time + c`), and the counts never overshoot `num_extinct_tips` / `num_total_tips` -/
structure XInv (P : BDParams) (s : BDState) : Prop where
  leaves : s.extinct.length + s.tree.aliveCount = s.tree.nLeaves
  noUn : s.tree.noUn = true
  depth : ∃ c, (∀ d ∈ s.tree.aliveDepths, d = s.total + c) ∧ (∀ d ∈ s.tree.deadDepths, d ≤ s.total + c)
  capX : ∀ k, P.nExtinct = some k → 1 ≤ k → s.extinct.length ≤ k
  capT : ∀ k, P.nTotal = some k → 1 ≤ k → s.extant.length + s.extinct.length ≤ k

namespace Aux
theorem init_xinv_at (P : BDParams) (hG : GoodStart P) (nx : Nat) : XInv P { bdInit P with next := nx } := by
  obtain ⟨D, hD1, hD2⟩ := hG.equi
  refine ⟨by simpa [bdInit] using deadIds_length P.start, by simpa [bdInit] using hG.noUn,
    ⟨D, by simpa [bdInit] using hD1, by simpa [bdInit] using hD2⟩, by simpa [bdInit] using hG.capX, ?_⟩
  intro k hk h1
  simpa [bdInit, aliveIds_length] using hG.capT k hk h1
end Aux

theorem bd_init_xinv (P : BDParams) (hG : GoodStart P) : XInv P (bdInit P) := Aux.init_xinv_at P hG _

namespace Aux
theorem xstop_false (P : BDParams) (a x : Nat) (h : xStop P a x = false) :
    (∀ k, P.nExtinct = some k → x < k) ∧ (∀ k, P.nTotal = some k → a + x < k) := by
  constructor
  · intro k hk; simp [xStop, hk] at h; omega
  · intro k hk; simp [xStop, hk] at h; omega

theorem xbirth (P : BDParams) (s s' : BDState) (nd : Tip) (ds ds' : List Draw) (hX : XInv P s) (hc : s.extant.length = s.tree.aliveCount)
    (hmem : ∃ t ∈ s.extant, t.id = nd.id) (hlt : ∀ k, P.nTotal = some k → s.extant.length + s.extinct.length < k)
    (h : bdBirth s nd (removeTip nd.id s.extant) ds = .ok (.cont s' ds')) : XInv P s' := by
  have hrm := removeTip_length nd.id s.extant hmem
  obtain ⟨c, hc1, hc2⟩ := hX.depth
  unfold bdBirth at h
  split at h
  · split at h
    · simp at h
    · rename_i t ht
      simp at h
      obtain ⟨rfl, _⟩ := h
      obtain ⟨m1, m2, m3⟩ := splitFirst_more _ _ _ _ _ ht
      have ac := splitFirst_aliveCount _ _ _ _ _ _ ht
      refine ⟨by simp [m1, ac]; have := hX.leaves; omega, by simp [m2, hX.noUn], ⟨c, ?_, by simpa [m3] using hc2⟩, by simpa using hX.capX, ?_⟩
      · intro d hd
        exact hc1 d (splitFirst_depths _ _ _ _ _ ht d hd)
      · intro k hk h1
        have := hlt k hk
        simp; omega
  · simp at h

theorem xdeath (P : BDParams) (hG : GoodStart P) (s s' : BDState) (nd : Tip) (ds ds' : List Draw) (hX : XInv P s) (hc : s.extant.length = s.tree.aliveCount)
    (hmem : ∃ t ∈ s.extant, t.id = nd.id) (hltx : ∀ k, P.nExtinct = some k → s.extinct.length < k)
    (hlt : ∀ k, P.nTotal = some k → s.extant.length + s.extinct.length < k)
    (h : bdDeath P s nd (removeTip nd.id s.extant) ds = .ok (.cont s' ds')) : XInv P s' := by
  have hrm := removeTip_length nd.id s.extant hmem
  obtain ⟨c, hc1, hc2⟩ := hX.depth
  unfold bdDeath at h
  split at h
  · simp at h
    obtain ⟨rfl, _⟩ := h
    exact init_xinv_at P hG s.next
  · split at h
    · simp at h
    · rename_i t ht
      simp at h
      obtain ⟨rfl, _⟩ := h
      obtain ⟨m1, m2, m3⟩ := killFirst_more _ _ _ ht
      have ac := killFirst_aliveCount _ _ _ ht
      refine ⟨by simp [m1]; have := hX.leaves; omega, by simp [m2, hX.noUn], ⟨c, ?_, ?_⟩, ?_, ?_⟩
      · intro d hd
        exact hc1 d (killFirst_depths _ _ _ ht d hd)
      · intro d hd
        rcases m3 d hd with h | h
        · exact hc2 d h
        · have := hc1 d h; simp; omega
      · intro k hk h1
        have := hltx k hk
        simp; omega
      · intro k hk h1
        have := hlt k hk
        simp; omega
end Aux


namespace Aux
theorem xevent (P : BDParams) (hG : GoodStart P) (s s' : BDState) (ds ds' : List Draw) (hX : XInv P s) (hc : s.extant.length = s.tree.aliveCount)
    (hltx : ∀ k, P.nExtinct = some k → s.extinct.length < k)
    (hlt : ∀ k, P.nTotal = some k → s.extant.length + s.extinct.length < k)
    (h : bdEvent P s ds = .ok (.cont s' ds')) : XInv P s' := by
  unfold bdEvent at h
  split at h
  · simp at h
  split at h
  · simp at h
  · split at h
    · simp at h
    split at h
    · simp at h
    · split at h
      · simp at h
      · rename_i nd hnd
        have hmem : ∃ t ∈ s.extant, t.id = nd.id := ⟨nd, List.mem_of_getElem? hnd, rfl⟩
        split at h
        · exact xbirth P s s' nd _ ds' hX hc hmem hlt h
        · exact xdeath P hG s s' nd _ ds' hX hc hmem hltx hlt h
  · simp at h
end Aux

/-- every pass through the loop body keeps the extinct-tip invariant -/
theorem bd_xinv (P : BDParams) (hG : GoodStart P) (s s' : BDState) (ds ds' : List Draw) (hI : Inv P s) (hX : XInv P s)
    (h : bdIter P s ds = .ok (.cont s' ds')) : XInv P s' := by
  obtain ⟨c, hc1, hc2⟩ := hX.depth
  unfold bdIter at h
  split at h
  · simp at h
  rename_i hstop
  simp at hstop
  obtain ⟨x1, x2⟩ := Aux.xstop_false P _ _ hstop.2
  split at h
  · simp at h
  · rename_i w ds1
    split at h
    · simp at h
    rename_i hw
    have hX1 : XInv P { s with tree := s.tree.addAlive w, total := s.total + w } := by
      refine ⟨by simp [Aux.aliveCount_addAlive, Aux.nLeaves_addAlive]; exact hX.leaves, by simp [Aux.noUn_addAlive, hX.noUn], ⟨c, ?_, ?_⟩,
        by simpa using hX.capX, by simpa using hX.capT⟩
      · intro d hd
        simp only [Aux.aliveDepths_addAlive, List.mem_map] at hd
        obtain ⟨e, he, rfl⟩ := hd
        have := hc1 e he
        simp; omega
      · intro d hd
        simp only [Aux.deadDepths_addAlive] at hd
        have := hc2 d hd
        simp; omega
    simp only at h
    split at h
    · exact Aux.xevent P hG _ s' ds1 ds' hX1 (by simpa [Aux.aliveCount_addAlive] using hI.count) (by simpa using x1) (by simpa using x2) h
    · simp at h
      obtain ⟨rfl, _⟩ := h
      exact hX1
  · simp at h

theorem bd_loop_xinv (P : BDParams) (hG : GoodStart P) : ∀ (f : Nat) (s s' : BDState) (ds ds' : List Draw), Inv P s → XInv P s →
    bdLoop P f s ds = .ok (s', ds') → XInv P s' := by
  intro f
  induction f with
  | zero => intro s s' ds ds' _ _ h; simp [bdLoop] at h
  | succ f ih =>
    intro s s' ds ds' hI hX h
    simp only [bdLoop] at h
    split at h
    · simp at h
    · rename_i s1 ds1 hit
      simp at h
      obtain ⟨rfl, rfl⟩ := h
      obtain ⟨rfl, _, _⟩ := bd_done P s s1 ds ds1 hit
      exact hX
    · rename_i s1 ds1 hit
      exact ih s1 s' ds1 ds' (bd_inv P hG s s1 ds ds1 hI hit).1 (bd_xinv P hG s s1 ds ds1 hI hX hit) h

/-- number of extinct tips of a tree -/
def BT.deadCount (t : BT) : Nat := t.deadDepths.length

/-- **retained extinct tips** (`is_retain_extinct_tips=True`), every stopping rule, every draw list: the returned tree has no
unary node; its extant tips all lie at one depth `D` and no extinct tip lies deeper; every leaf (extant or extinct)
receives a taxon and the taxa are pairwise distinct -/
theorem bd_result_retained (P : BDParams) (hG : GoodStart P) (n0 : Nat) (ds : List Draw) (r : SimResult) (hr : P.retain = true)
    (h : bdRun P n0 ds = .ok r) :
    r.tree.noUn = true ∧ r.tree.deadCount + r.tree.aliveCount = r.tree.nLeaves ∧
    (∃ D, (∀ d ∈ r.tree.aliveDepths, d = D) ∧ (∀ d ∈ r.tree.deadDepths, d ≤ D)) ∧
    (r.taxa.map Prod.snd).Nodup ∧ isPerm r.tree.nLeaves (r.taxa.map Prod.fst) = true := by
  unfold bdRun at h
  split at h
  · simp at h
  · rename_i s rest hl
    have hX := bd_loop_xinv P hG _ _ _ _ _ (bd_init_inv P hG) (bd_init_xinv P hG) hl
    simp only [hr, if_true] at h
    unfold finishRetain at h
    rw [Aux.suppress_noUn_id s.tree hX.noUn] at h
    simp only at h
    split at h
    · split at h
      · rename_i a ha
        simp at h; subst h
        obtain ⟨c1, c2, c3⟩ := Aux.assignTaxa_props _ _ _ _ _ ha
        obtain ⟨c, hc1, hc2⟩ := hX.depth
        exact ⟨hX.noUn, Aux.deadDepths_length s.tree, ⟨s.total + c, hc1, hc2⟩, c1, by simpa [c2] using c3⟩
      · simp at h
    · simp at h

/-- the counts under each stopping rule taken alone (retained extinct tips make them visible in the result):
`num_extant_tips = n`: exactly `n` extant leaves; `num_extinct_tips = k`: exactly `k` extinct leaves; `num_total_tips = k`:
exactly `k` leaves (`n, k ≥ 1`) -/
theorem bd_result_retained_counts (P : BDParams) (hG : GoodStart P) (n0 : Nat) (ds : List Draw) (r : SimResult) (hr : P.retain = true)
    (h : bdRun P n0 ds = .ok r) (hm : P.maxTime = none) :
    (∀ n, P.nTips = some n → 1 ≤ n → P.nExtinct = none → P.nTotal = none → r.tree.aliveCount = n) ∧
    (∀ k, P.nExtinct = some k → 1 ≤ k → P.nTips = none → P.nTotal = none → r.tree.deadCount = k) ∧
    (∀ k, P.nTotal = some k → 1 ≤ k → P.nTips = none → P.nExtinct = none → r.tree.nLeaves = k) := by
  unfold bdRun at h
  split at h
  · simp at h
  · rename_i s rest hl
    have hX := bd_loop_xinv P hG _ _ _ _ _ (bd_init_inv P hG) (bd_init_xinv P hG) hl
    obtain ⟨hI, hstop⟩ := bd_loop_inv P hG _ _ _ _ _ (bd_init_inv P hG) hl
    simp only [hr, if_true] at h
    unfold finishRetain at h
    rw [Aux.suppress_noUn_id s.tree hX.noUn] at h
    simp only at h
    split at h
    · split at h
      · simp at h; subst h
        have hl := hX.leaves
        have hdl := Aux.deadDepths_length s.tree
        refine ⟨?_, ?_, ?_⟩
        · intro n hn h1 hx ht
          have := hI.cap n hn h1
          simp [bdStop, xStop, hn, hm, hx, ht] at hstop
          simp only; rw [← hI.count]; omega
        · intro k hk h1 hn ht
          have := hX.capX k hk h1
          simp [bdStop, xStop, hn, hm, hk, ht] at hstop
          simp only [BT.deadCount]; omega
        · intro k hk h1 hn hx
          have := hX.capT k hk h1
          simp [bdStop, xStop, hn, hm, hk, hx] at hstop
          simp only; have := hI.count; omega
      · simp at h
    · simp at h

/-- the same counts hold at the end of the loop whether or not the extinct tips are retained -/
theorem bd_stop_counts (P : BDParams) (hG : GoodStart P) (f : Nat) (s : BDState) (ds ds' : List Draw) (h : bdLoop P f (bdInit P) ds = .ok (s, ds'))
    (hm : P.maxTime = none) :
    (∀ k, P.nExtinct = some k → 1 ≤ k → P.nTips = none → P.nTotal = none → s.extinct.length = k) ∧
    (∀ k, P.nTotal = some k → 1 ≤ k → P.nTips = none → P.nExtinct = none → s.extant.length + s.extinct.length = k) := by
  have hX := bd_loop_xinv P hG _ _ _ _ _ (bd_init_inv P hG) (bd_init_xinv P hG) h
  obtain ⟨hI, hstop⟩ := bd_loop_inv P hG _ _ _ _ _ (bd_init_inv P hG) h
  constructor
  · intro k hk h1 hn ht
    have := hX.capX k hk h1
    simp [bdStop, xStop, hn, hm, hk, ht] at hstop
    omega
  · intro k hk h1 hn hx
    have := hX.capT k hk h1
    simp [bdStop, xStop, hn, hm, hk, hx] at hstop
    omega

/-- non-vacuity: two extinct tips retained under `num_extinct_tips = 2`; a death, births, another death -/
example : (bdRun { nTips := none, maxTime := none, b := 2, d := 1, nExtinct := some 2, retain := true } 0
    [.w 4, .u 1 8, .g 0, .g 0, .g 0, .g 0, .w 2, .u 7 8, .w 1, .u 1 8, .g 0, .g 0, .g 0, .g 0, .w 3, .u 7 8,
     .perm [], .perm [0, 1, 2]]).toOption.map
      (fun r => (r.tree.nLeaves, r.tree.aliveDepths, r.tree.deadDepths)) = some (3, [10], [10, 6]) := by decide


/-! ### extension round: the General Sampling Approach (`gsa_ntax`) -/


namespace Aux
theorem selectSlice_last (q : Int) : ∀ (sl : List (Int × List (Nat × Int))) (r : Int) (sel : Option (Int × List (Nat × Int))),
    sl ≠ [] → r - (sl.map (·.1)).sum * q < 0 → selectSlice q r sl sel = sl.getLast? := by
  intro sl
  induction sl with
  | nil => intro r sel h; exact absurd rfl h
  | cons a rest ih =>
    intro r sel _ hr
    simp only [selectSlice]
    cases rest with
    | nil =>
      simp only [List.map_cons, List.map_nil, List.sum_cons, List.sum_nil, Int.add_zero] at hr
      simp [selectSlice, hr]
    | cons b rest' =>
      have := ih (r - a.1 * q) (if r - a.1 * q < 0 then some a else sel) (by simp) (by
        simp only [List.map_cons, List.sum_cons, Int.add_mul] at hr ⊢
        omega)
      rw [this]
      simp
end Aux

/-- **the GSA slice selection always returns the last slice** (the loop has no `break`): whatever the uniform draw
`0 ≤ p/q < 1`, as soon as the recorded durations have a positive sum.  (The General Sampling Approach intends a slice chosen
with probability proportional to its duration; this is what the code does instead.) -/
theorem gsa_selects_last (p q : Int) (sl : List (Int × List (Nat × Int))) (hne : sl ≠ []) (_hp : 0 ≤ p) (hpq : p < q)
    (htot : 0 < (sl.map (·.1)).sum) : selectSlice q (p * (sl.map (·.1)).sum) sl none = sl.getLast? := by
  apply Aux.selectSlice_last q sl _ none hne
  have : p * (sl.map (·.1)).sum < q * (sl.map (·.1)).sum := Int.mul_lt_mul_of_pos_right hpq htot
  rw [Int.mul_comm _ q]
  omega

example : selectSlice 8 (1 * 9) [(4, []), (3, [(1, 0)]), (2, [(7, 5)])] none = some (2, [(7, 5)]) := by decide

/-- non-vacuity: N = 1, G = 2: the only slice is the first waiting time; the tree is cut back to the seed -/
example : (match gsaRun { nTips := some 1, maxTime := none, b := 2, d := 1 } 1 2 0
    [.w 4, .u 1 8, .g 0, .g 0, .g 0, .g 0, .u 1 2, .perm [], .perm [0]] with
    | .ok (some r) => some (r.tree.nLeaves, r.tree.aliveDepths) | _ => none) = some (1, [4]) := by decide

/-- the predicted crash: a clade cut away by the slice went entirely extinct -/
example : gsaCrashAt (.bin 0 4 (.bin 1 2 (.tip 3 1 false) (.tip 4 1 false)) (.tip 2 5 true)) 0 = true := by decide


/-! ### extension round: continuing a given tree (`tree=`) -/

/-- a two-tip ultrametric start tree is admissible for `num_extant_tips = 3` -/
def exampleStart : BDParams :=
  { nTips := some 3, maxTime := none, b := 2, d := 1, start := .bin 0 0 (.tip 1 4 true) (.tip 2 4 true) }

theorem exampleStart_good : GoodStart exampleStart := by
  refine ⟨by decide, ⟨4, by decide, by decide⟩, ?_, by decide, ?_, by decide, by decide⟩
  · intro n hn _; simp [exampleStart] at hn; subst hn; decide
  · intro k hk _; simp [exampleStart] at hk

/-- continuation with a restart: both start lineages die, the start tree is restored, then one birth: three tips, equidistant -/
example : (bdRun exampleStart 2 [.w 4, .u 7 8, .w 1, .u 7 8, .w 2, .u 1 8, .g 0, .g 0, .g 0, .g 0, .perm [1, 0], .perm [2, 0, 1]]).toOption.map
    (fun r => (r.tree.nLeaves, rootDists r.tree)) = some (3, [6, 6, 6]) := by decide


/-! ### extension round: GSA — cutting back to a slice restores the tree as it stood (full result) -/


/-- all node ids, pre-order (the root's first) -/
def BT.ids : BT → List Nat
  | .tip i _ _ => [i]
  | .un i _ c => i :: ids c
  | .bin i _ x y => i :: (ids x ++ ids y)

/-- `Ext N0 t u`: `u` is `t` except that every extant tip of `t` may have been replaced by an arbitrary subtree with the same
root id all of whose other ids are `≥ N0` (everything the process did after the time slice at which the tree was `t`) -/
def Ext (N0 : Nat) : BT → BT → Prop
  | .tip i _ true, u => u.rootId = i ∧ ∀ j ∈ u.ids.tail, N0 ≤ j
  | .tip i l false, u => u = .tip i l false
  | .un _ _ _, _ => False
  | .bin i l x y, .bin i' l' x' y' => i = i' ∧ l = l' ∧ Ext N0 x x' ∧ Ext N0 y y'
  | .bin _ _ _ _, _ => False

namespace Aux
theorem ids_addAlive (w : Int) (t : BT) : (t.addAlive w).ids = t.ids ∧ (t.addAlive w).rootId = t.rootId := by
  induction t with
  | tip i l a => simp [BT.addAlive, BT.ids, BT.rootId]
  | un i l c ih => simp [BT.addAlive, BT.ids, BT.rootId, ih.1]
  | bin i l x y ihx ihy => simp [BT.addAlive, BT.ids, BT.rootId, ihx.1, ihy.1]

theorem splitFirst_ids (i a b : Nat) (l0 : Int) : ∀ (u u' : BT), splitFirst i a b l0 u = some u' →
    u'.rootId = u.rootId ∧ (∀ j ∈ u'.ids, j ∈ u.ids ∨ j = a ∨ j = b) ∧ (∀ j ∈ u'.ids.tail, j ∈ u.ids.tail ∨ j = a ∨ j = b) := by
  intro u
  induction u with
  | tip j l al =>
    intro u' h
    simp only [BT.splitFirst] at h
    split at h
    · simp at h; subst h
      simp [BT.rootId, BT.ids]
    · simp at h
  | un j l c ih =>
    intro u' h
    simp only [BT.splitFirst, Option.map_eq_some_iff] at h
    obtain ⟨c', hc, rfl⟩ := h
    obtain ⟨_, h2, _⟩ := ih c' hc
    refine ⟨rfl, ?_, ?_⟩
    · intro k hk
      simp only [BT.ids, List.mem_cons] at hk ⊢
      rcases hk with rfl | hk
      · simp
      · rcases h2 k hk with h | h | h <;> simp [h]
    · intro k hk
      simp only [BT.ids, List.tail_cons] at hk ⊢
      exact h2 k hk
  | bin j l x y ihx ihy =>
    intro u' h
    simp only [BT.splitFirst] at h
    split at h
    · rename_i x' hx
      simp at h; subst h
      obtain ⟨_, h2, _⟩ := ihx x' hx
      have key : ∀ k ∈ x'.ids ++ y.ids, k ∈ x.ids ++ y.ids ∨ k = a ∨ k = b := by
        intro k hk
        simp only [List.mem_append] at hk ⊢
        rcases hk with hk | hk
        · rcases h2 k hk with h | h | h <;> simp [h]
        · simp [hk]
      refine ⟨rfl, ?_, ?_⟩
      · intro k hk
        simp only [BT.ids, List.mem_cons] at hk ⊢
        rcases hk with rfl | hk
        · simp
        · rcases key k hk with h | h | h <;> simp [h]
      · intro k hk
        simp only [BT.ids, List.tail_cons] at hk ⊢
        exact key k hk
    · simp only [Option.map_eq_some_iff] at h
      obtain ⟨y', hy, rfl⟩ := h
      obtain ⟨_, h2, _⟩ := ihy y' hy
      have key : ∀ k ∈ x.ids ++ y'.ids, k ∈ x.ids ++ y.ids ∨ k = a ∨ k = b := by
        intro k hk
        simp only [List.mem_append] at hk ⊢
        rcases hk with hk | hk
        · simp [hk]
        · rcases h2 k hk with h | h | h <;> simp [h]
      refine ⟨rfl, ?_, ?_⟩
      · intro k hk
        simp only [BT.ids, List.mem_cons] at hk ⊢
        rcases hk with rfl | hk
        · simp
        · rcases key k hk with h | h | h <;> simp [h]
      · intro k hk
        simp only [BT.ids, List.tail_cons] at hk ⊢
        exact key k hk

theorem killFirst_ids (i : Nat) : ∀ (u u' : BT), killFirst i u = some u' → u'.rootId = u.rootId ∧ u'.ids = u.ids := by
  intro u
  induction u with
  | tip j l al =>
    intro u' h
    simp only [BT.killFirst] at h
    split at h
    · simp at h; subst h; simp [BT.rootId, BT.ids]
    · simp at h
  | un j l c ih =>
    intro u' h
    simp only [BT.killFirst, Option.map_eq_some_iff] at h
    obtain ⟨c', hc, rfl⟩ := h
    simp [BT.rootId, BT.ids, (ih c' hc).2]
  | bin j l x y ihx ihy =>
    intro u' h
    simp only [BT.killFirst] at h
    split at h
    · rename_i x' hx
      simp at h; subst h
      simp [BT.rootId, BT.ids, (ihx x' hx).2]
    · simp only [Option.map_eq_some_iff] at h
      obtain ⟨y', hy, rfl⟩ := h
      simp [BT.rootId, BT.ids, (ihy y' hy).2]

theorem ext_self_addAlive (N0 : Nat) (w : Int) : ∀ (t : BT), t.noUn = true → Ext N0 t (t.addAlive w) := by
  intro t
  induction t with
  | tip i l a => intro _; cases a <;> simp [Ext, BT.addAlive, BT.rootId, BT.ids]
  | un i l c ih => intro h; simp [BT.noUn] at h
  | bin i l x y ihx ihy =>
    intro h
    simp [BT.noUn] at h
    simp only [BT.addAlive, Ext]
    exact ⟨trivial, trivial, ihx h.1, ihy h.2⟩

theorem ext_addAlive (N0 : Nat) (w : Int) : ∀ (t u : BT), Ext N0 t u → Ext N0 t (u.addAlive w) := by
  intro t
  induction t with
  | tip i l a =>
    intro u h
    cases a
    · simp only [Ext] at h ⊢; subst h; simp [BT.addAlive]
    · simp only [Ext] at h ⊢
      obtain ⟨h1, h2⟩ := ids_addAlive w u
      rw [h1, h2]; exact h
  | un i l c ih => intro u h; simp [Ext] at h
  | bin i l x y ihx ihy =>
    intro u h
    cases u with
    | tip _ _ _ => simp [Ext] at h
    | un _ _ _ => simp [Ext] at h
    | bin i' l' x' y' =>
      simp only [Ext] at h
      obtain ⟨rfl, rfl, hx, hy⟩ := h
      simp only [BT.addAlive, Ext]
      exact ⟨trivial, trivial, ihx x' hx, ihy y' hy⟩

theorem ext_splitFirst (N0 i a b : Nat) (ha : N0 ≤ a) (hb : N0 ≤ b) : ∀ (t u u' : BT), Ext N0 t u →
    splitFirst i a b 0 u = some u' → Ext N0 t u' := by
  intro t
  induction t with
  | tip j l al =>
    intro u u' h hs
    cases al
    · simp only [Ext] at h; subst h
      simp [BT.splitFirst] at hs
    · simp only [Ext] at h ⊢
      obtain ⟨s1, _, s3⟩ := splitFirst_ids _ _ _ _ _ _ hs
      refine ⟨by rw [s1]; exact h.1, ?_⟩
      intro k hk
      rcases s3 k hk with hh | hh | hh
      · exact h.2 k hh
      · omega
      · omega
  | un j l c ih => intro u u' h; simp [Ext] at h
  | bin j l x y ihx ihy =>
    intro u u' h hs
    cases u with
    | tip _ _ _ => simp [Ext] at h
    | un _ _ _ => simp [Ext] at h
    | bin j' l' x' y' =>
      simp only [Ext] at h
      obtain ⟨rfl, rfl, hx, hy⟩ := h
      simp only [BT.splitFirst] at hs
      split at hs
      · rename_i x'' hx''
        simp at hs; subst hs
        simp only [Ext]
        exact ⟨trivial, trivial, ihx x' x'' hx hx'', hy⟩
      · simp only [Option.map_eq_some_iff] at hs
        obtain ⟨y'', hy'', rfl⟩ := hs
        simp only [Ext]
        exact ⟨trivial, trivial, hx, ihy y' y'' hy hy''⟩

theorem ext_killFirst (N0 i : Nat) : ∀ (t u u' : BT), Ext N0 t u → killFirst i u = some u' → Ext N0 t u' := by
  intro t
  induction t with
  | tip j l al =>
    intro u u' h hs
    cases al
    · simp only [Ext] at h; subst h
      simp [BT.killFirst] at hs
    · simp only [Ext] at h ⊢
      obtain ⟨s1, s2⟩ := killFirst_ids _ _ _ hs
      rw [s1, s2]; exact h
  | un j l c ih => intro u u' h; simp [Ext] at h
  | bin j l x y ihx ihy =>
    intro u u' h hs
    cases u with
    | tip _ _ _ => simp [Ext] at h
    | un _ _ _ => simp [Ext] at h
    | bin j' l' x' y' =>
      simp only [Ext] at h
      obtain ⟨rfl, rfl, hx, hy⟩ := h
      simp only [BT.killFirst] at hs
      split at hs
      · rename_i x'' hx''
        simp at hs; subst hs
        simp only [Ext]
        exact ⟨trivial, trivial, ihx x' x'' hx hx'', hy⟩
      · simp only [Option.map_eq_some_iff] at hs
        obtain ⟨y'', hy'', rfl⟩ := hs
        simp only [Ext]
        exact ⟨trivial, trivial, hx, ihy y' y'' hy hy''⟩
end Aux

namespace Aux
theorem ids_head (u : BT) : u.ids = u.rootId :: u.ids.tail := by
  cases u <;> simp [BT.ids, BT.rootId]

theorem cutBack_root (i : Nat) (l : Int) (u : BT) (h : u.rootId = i) : u.cutBack i l = some (.tip i l true) := by
  cases u <;> simp [BT.rootId] at h <;> simp [BT.cutBack, h]

theorem cutBack_notin (i : Nat) (l : Int) : ∀ (u : BT), i ∉ u.ids → u.cutBack i l = none := by
  intro u
  induction u with
  | tip j l0 a => intro h; simp [BT.ids] at h; simp [BT.cutBack]; omega
  | un j l0 c ih =>
    intro h
    simp [BT.ids] at h
    simp [BT.cutBack, ih h.2]; omega
  | bin j l0 x y ihx ihy =>
    intro h
    simp [BT.ids] at h
    have : ¬ j = i := by omega
    simp [BT.cutBack, this, ihx h.2.1, ihy h.2.2]

theorem aliveTips_ids : ∀ (t : BT), ∀ p ∈ t.aliveTips, p.1 ∈ t.ids := by
  intro t
  induction t with
  | tip i l a => intro p hp; cases a <;> simp [BT.aliveTips] at hp; simp [BT.ids, hp]
  | un i l c ih => intro p hp; simp [BT.ids]; right; exact ih p (by simpa [BT.aliveTips] using hp)
  | bin i l x y ihx ihy =>
    intro p hp
    simp only [BT.aliveTips, List.mem_append] at hp
    simp only [BT.ids, List.mem_cons, List.mem_append]
    rcases hp with h | h
    · exact Or.inr (Or.inl (ihx p h))
    · exact Or.inr (Or.inr (ihy p h))

theorem cutBackAll_append (w : Int) : ∀ (L1 L2 : List (Nat × Int)) (u : BT),
    cutBackAll w (L1 ++ L2) u = (cutBackAll w L1 u).bind (cutBackAll w L2) := by
  intro L1
  induction L1 with
  | nil => intro L2 u; simp [cutBackAll]
  | cons p L1 ih =>
    intro L2 u
    obtain ⟨i, l⟩ := p
    simp only [List.cons_append, cutBackAll]
    cases u.cutBack i (l + w) with
    | none => simp
    | some u' => simpa using ih L2 u'

theorem cutBackAll_binL (w : Int) (j : Nat) (l0 : Int) (y' : BT) : ∀ (L : List (Nat × Int)) (x' x'' : BT),
    (∀ p ∈ L, p.1 ≠ j) → cutBackAll w L x' = some x'' → cutBackAll w L (.bin j l0 x' y') = some (.bin j l0 x'' y') := by
  intro L
  induction L with
  | nil => intro x' x'' _ h; simp [cutBackAll] at h ⊢; exact h
  | cons p L ih =>
    intro x' x'' hne h
    obtain ⟨i, l⟩ := p
    have hij : ¬ j = i := fun e => hne (i, l) (by simp) e.symm
    simp only [cutBackAll] at h ⊢
    cases hc : x'.cutBack i (l + w) with
    | none => rw [hc] at h; simp at h
    | some x1 =>
      rw [hc] at h
      simp only [BT.cutBack, hij, beq_iff_eq, if_false, hc]
      exact ih x1 x'' (fun p hp => hne p (by simp [hp])) h

theorem cutBackAll_binR (w : Int) (j : Nat) (l0 : Int) (x'' : BT) : ∀ (L : List (Nat × Int)) (y' y'' : BT),
    (∀ p ∈ L, p.1 ≠ j ∧ p.1 ∉ x''.ids) → cutBackAll w L y' = some y'' → cutBackAll w L (.bin j l0 x'' y') = some (.bin j l0 x'' y'') := by
  intro L
  induction L with
  | nil => intro y' y'' _ h; simp [cutBackAll] at h ⊢; exact h
  | cons p L ih =>
    intro y' y'' hne h
    obtain ⟨i, l⟩ := p
    obtain ⟨h1, h2⟩ := hne (i, l) (by simp)
    have hij : ¬ j = i := fun e => h1 e.symm
    simp only [cutBackAll] at h ⊢
    cases hc : y'.cutBack i (l + w) with
    | none => rw [hc] at h; simp at h
    | some y1 =>
      rw [hc] at h
      simp only [BT.cutBack, hij, beq_iff_eq, if_false, cutBack_notin i (l + w) x'' h2, hc, Option.map_some]
      exact ih y1 y'' (fun p hp => hne p (by simp [hp])) h

/-- **cutting back to a slice restores the tree as it stood at that slice**, lengthened by the slice's waiting time -/
theorem cutBackAll_ext (N0 : Nat) (w : Int) : ∀ (t u : BT), t.ids.Nodup → Ext N0 t u →
    cutBackAll w t.aliveTips u = some (t.addAlive w) := by
  intro t
  induction t with
  | tip i l a =>
    intro u _ h
    cases a
    · simp only [Ext] at h; subst h
      simp [BT.aliveTips, cutBackAll, BT.addAlive]
    · simp only [Ext] at h
      simp [BT.aliveTips, cutBackAll, BT.addAlive, cutBack_root i (l + w) u h.1]
  | un i l c ih => intro u _ h; simp [Ext] at h
  | bin i l x y ihx ihy =>
    intro u hnd h
    cases u with
    | tip _ _ _ => simp [Ext] at h
    | un _ _ _ => simp [Ext] at h
    | bin i' l' x' y' =>
      simp only [Ext] at h
      obtain ⟨rfl, rfl, hx, hy⟩ := h
      simp only [BT.ids, List.nodup_cons, List.mem_append, not_or] at hnd
      obtain ⟨⟨hix, hiy⟩, hxy⟩ := hnd
      have hxy' := List.nodup_append.mp hxy
      have e1 := ihx x' hxy'.1 hx
      have e2 := ihy y' hxy'.2.1 hy
      simp only [BT.aliveTips, BT.addAlive]
      rw [cutBackAll_append]
      rw [cutBackAll_binL w i l y' _ x' _ (fun p hp e => hix (e ▸ aliveTips_ids x p hp)) e1]
      simp only [Option.bind_some]
      apply cutBackAll_binR w i l _ _ y' _ _ e2
      intro p hp
      have hpy := aliveTips_ids y p hp
      refine ⟨fun e => hiy (e ▸ hpy), ?_⟩
      rw [(ids_addAlive w x).1]
      intro hpx
      exact hxy'.2.2 p.1 hpx p.1 hpy rfl
end Aux

namespace Aux
theorem splitFirst_ids_nodup (i a b : Nat) (l0 : Int) (hab : a ≠ b) : ∀ (u u' : BT), splitFirst i a b l0 u = some u' →
    u.ids.Nodup → a ∉ u.ids → b ∉ u.ids → u'.ids.Nodup := by
  intro u
  induction u with
  | tip j l al =>
    intro u' h hn ha hb
    simp only [BT.splitFirst] at h
    split at h
    · simp at h; subst h
      simp [BT.ids] at ha hb ⊢
      omega
    · simp at h
  | un j l c ih =>
    intro u' h hn ha hb
    simp only [BT.splitFirst, Option.map_eq_some_iff] at h
    obtain ⟨c', hc, rfl⟩ := h
    simp only [BT.ids, List.nodup_cons, List.mem_cons, not_or] at hn ha hb ⊢
    obtain ⟨_, m2, _⟩ := splitFirst_ids _ _ _ _ _ _ hc
    refine ⟨?_, ih c' hc hn.2 ha.2 hb.2⟩
    intro hm
    rcases m2 j hm with h | h | h
    · exact hn.1 h
    · exact ha.1 h.symm
    · exact hb.1 h.symm
  | bin j l x y ihx ihy =>
    intro u' h hn ha hb
    simp only [BT.ids, List.nodup_cons, List.mem_cons, List.mem_append, not_or] at hn ha hb
    obtain ⟨⟨hjx, hjy⟩, hxy⟩ := hn
    obtain ⟨nx, ny, dxy⟩ := List.nodup_append.mp hxy
    simp only [BT.splitFirst] at h
    split at h
    · rename_i x' hx
      simp at h; subst h
      obtain ⟨_, m2, _⟩ := splitFirst_ids _ _ _ _ _ _ hx
      simp only [BT.ids, List.nodup_cons, List.mem_append, not_or]
      refine ⟨⟨?_, hjy⟩, List.nodup_append.mpr ⟨ihx x' hx nx ha.2.1 hb.2.1, ny, ?_⟩⟩
      · intro hm
        rcases m2 j hm with h | h | h
        · exact hjx h
        · exact ha.1 h.symm
        · exact hb.1 h.symm
      · intro k hk k' hk' e
        subst e
        rcases m2 k hk with h | h | h
        · exact dxy k h k hk' rfl
        · exact ha.2.2 (h ▸ hk')
        · exact hb.2.2 (h ▸ hk')
    · simp only [Option.map_eq_some_iff] at h
      obtain ⟨y', hy, rfl⟩ := h
      obtain ⟨_, m2, _⟩ := splitFirst_ids _ _ _ _ _ _ hy
      simp only [BT.ids, List.nodup_cons, List.mem_append, not_or]
      refine ⟨⟨hjx, ?_⟩, List.nodup_append.mpr ⟨nx, ihy y' hy ny ha.2.2 hb.2.2, ?_⟩⟩
      · intro hm
        rcases m2 j hm with h | h | h
        · exact hjy h
        · exact ha.1 h.symm
        · exact hb.1 h.symm
      · intro k hk k' hk' e
        subst e
        rcases m2 k hk' with h | h | h
        · exact dxy k hk k h rfl
        · exact ha.2.1 (h ▸ hk)
        · exact hb.2.1 (h ▸ hk)

theorem selectSlice_mem (q : Int) : ∀ (sl : List (Int × List (Nat × Int))) (r : Int) (_sel res : Int × List (Nat × Int)) ,
    True → ∀ (o : Option (Int × List (Nat × Int))), selectSlice q r sl o = some res → res ∈ sl ∨ o = some res := by
  intro sl
  induction sl with
  | nil => intro r _ res _ o h; simp [selectSlice] at h; exact Or.inr h
  | cons a rest ih =>
    intro r _sel res _ o h
    simp only [selectSlice] at h
    rcases ih _ _sel res trivial _ h with h1 | h1
    · exact Or.inl (by simp [h1])
    · split at h1
      · simp at h1; exact Or.inl (by simp [h1])
      · exact Or.inr h1
end Aux

/-- what the loop keeps true about every recorded time slice `(w, snap)`: `snap` lists the extant tips of the tree `T` as it
stood when the slice began, `T` had exactly `N` extant tips, all at one depth, with distinct node ids, and the current tree
extends `T` only below `T`'s extant tips -/
def SliceOK (N : Nat) (next : Nat) (tree : BT) (sl : Int × List (Nat × Int)) : Prop :=
  ∃ T N0, sl.2 = T.aliveTips ∧ T.aliveCount = N ∧ (∃ D, ∀ d ∈ T.aliveDepths, d = D) ∧ T.ids.Nodup ∧ N0 ≤ next ∧ Ext N0 T tree

structure GInv (N : Nat) (g : GState) : Prop where
  count : g.st.extant.length = g.st.tree.aliveCount
  depth : ∃ c, ∀ d ∈ g.st.tree.aliveDepths, d = g.st.total + c
  ids : g.st.tree.ids.Nodup
  fresh : ∀ i ∈ g.st.tree.ids, i < g.st.next
  noUn : g.st.tree.noUn = true
  slices : ∀ sl ∈ g.slices, SliceOK N g.st.next g.st.tree sl

namespace Aux
theorem sliceOK_step (N : Nat) (nx nx' : Nat) (t t' : BT) (sl : Int × List (Nat × Int)) (hnx : nx ≤ nx')
    (hext : ∀ T N0, N0 ≤ nx → Ext N0 T t → Ext N0 T t') (h : SliceOK N nx t sl) : SliceOK N nx' t' sl := by
  obtain ⟨T, N0, h1, h2, h3, h4, h5, h6⟩ := h
  exact ⟨T, N0, h1, h2, h3, h4, by omega, hext T N0 h5 h6⟩

theorem bdBirth_shape (s : BDState) (nd : Tip) (rest : List Tip) (ds : List Draw) (st : Step BDState)
    (h : bdBirth s nd rest ds = .ok st) : ∃ t s' ds', st = .cont s' ds' ∧ s.tree.splitFirst nd.id s.next (s.next + 1) 0 = some t ∧
      s'.tree = t ∧ s'.next = s.next + 2 ∧ s'.total = s.total ∧ s'.extant.length = rest.length + 2 := by
  unfold bdBirth at h
  split at h
  · split at h
    · simp at h
    · rename_i t ht
      simp at h
      subst h
      exact ⟨t, _, _, rfl, ht, rfl, rfl, rfl, by simp⟩
  · simp at h
end Aux

/-- what is needed of the final state: every recorded slice is still a faithful past of the final tree -/
def GFin (N : Nat) (g : GState) : Prop := ∀ sl ∈ g.slices, SliceOK N g.st.next g.st.tree sl

namespace Aux
theorem ginv_wait (N : Nat) (g : GState) (w : Int) (hI : GInv N g) :
    GInv N { st := { g.st with tree := g.st.tree.addAlive w, total := g.st.total + w },
             slices := if g.st.extant.length == N then g.slices ++ [(w, g.st.tree.aliveTips)] else g.slices } := by
  obtain ⟨c, hc⟩ := hI.depth
  refine ⟨by simp [aliveCount_addAlive, hI.count], ⟨c, ?_⟩, by simp [(ids_addAlive w _).1, hI.ids],
    by simpa [(ids_addAlive w _).1] using hI.fresh, by simp [noUn_addAlive, hI.noUn], ?_⟩
  · intro d hd
    simp only [aliveDepths_addAlive, List.mem_map] at hd
    obtain ⟨e, he, rfl⟩ := hd
    have := hc e he
    simp; omega
  · intro sl hsl
    have old : ∀ sl ∈ g.slices, SliceOK N g.st.next (g.st.tree.addAlive w) sl := fun sl h =>
      sliceOK_step N _ _ _ _ sl (Nat.le_refl _) (fun T N0 _ hE => ext_addAlive N0 w T _ hE) (hI.slices sl h)
    split at hsl
    · rename_i hN
      simp at hN
      simp only [List.mem_append, List.mem_singleton] at hsl
      rcases hsl with h | rfl
      · exact old sl h
      · exact ⟨g.st.tree, g.st.next, rfl, by rw [← hI.count]; exact hN, ⟨g.st.total + c, hc⟩, hI.ids, Nat.le_refl _,
          ext_self_addAlive _ w _ hI.noUn⟩
    · exact old sl hsl

theorem ginv_event (P : BDParams) (N : Nat) (g : GState) (ds : List Draw) (hst : P.start = .tip 0 0 true) (hI : GInv N g) :
    (∀ g' ds', gsaEvent P g ds = .ok (.cont g' ds') → GInv N g') ∧ (∀ g' ds', gsaEvent P g ds = .ok (.done g' ds') → GFin N g') := by
  unfold gsaEvent
  split
  · simp
  split
  · simp
  · split
    · simp
    split
    · simp
    · split
      · simp
      · rename_i nd hnd
        have hmem : ∃ t ∈ g.st.extant, t.id = nd.id := ⟨nd, List.mem_of_getElem? hnd, rfl⟩
        have hrm := removeTip_length nd.id g.st.extant hmem
        obtain ⟨c, hc⟩ := hI.depth
        split
        · -- birth
          split
          · simp
          · rename_i s ds2 hb
            obtain ⟨t, s', ds'', e1, ht, e2, e3, e4, e5⟩ := bdBirth_shape _ _ _ _ _ hb
            simp at e1
            obtain ⟨rfl, rfl⟩ := e1
            refine ⟨?_, by simp⟩
            intro g' ds' h
            simp at h
            obtain ⟨rfl, _⟩ := h
            obtain ⟨_, m2, _⟩ := splitFirst_ids _ _ _ _ _ _ ht
            have hfa : g.st.next ∉ g.st.tree.ids := fun hm => by have := hI.fresh _ hm; omega
            have hfb : g.st.next + 1 ∉ g.st.tree.ids := fun hm => by have := hI.fresh _ hm; omega
            refine ⟨?_, ⟨c, ?_⟩, ?_, ?_, ?_, ?_⟩
            · simp only [e2, e5, splitFirst_aliveCount _ _ _ _ _ _ ht]; have := hI.count; omega
            · intro d hd
              simp only [e2, e4] at hd ⊢
              exact hc d (splitFirst_depths _ _ _ _ _ ht d hd)
            · simp only [e2]
              exact splitFirst_ids_nodup _ _ _ _ (by omega) _ _ ht hI.ids hfa hfb
            · intro i hi
              simp only [e2, e3] at hi ⊢
              rcases m2 i hi with h | h | h
              · have := hI.fresh i h; omega
              · omega
              · omega
            · simp only [e2, (splitFirst_more _ _ _ _ _ ht).2.1, hI.noUn]
            · intro sl hsl
              simp only [e2, e3]
              exact sliceOK_step N _ _ _ _ sl (by omega)
                (fun T N0 h0 hE => ext_splitFirst N0 _ _ _ (by omega) (by omega) T _ _ hE ht) (hI.slices sl hsl)
          · rename_i s ds2 hb
            obtain ⟨t, s', ds'', e1, _⟩ := bdBirth_shape _ _ _ _ _ hb
            simp at e1
        · -- death
          unfold gsaDeath
          split
          · split
            · refine ⟨by simp, ?_⟩
              intro g' ds' h
              simp at h
              obtain ⟨rfl, _⟩ := h
              exact fun sl hsl => hI.slices sl hsl
            · rename_i hse
              refine ⟨?_, by simp⟩
              intro g' ds' h
              simp at h
              obtain ⟨rfl, _⟩ := h
              have hpos : 0 < g.st.next := by
                have := hI.fresh g.st.tree.rootId (by rw [ids_head]; simp)
                omega
              simp at hse
              refine ⟨by simp [bdRestart, bdInit, hst, BT.aliveIds, BT.aliveCount], ⟨0, by simp [bdRestart, bdInit, hst, BT.aliveDepths]⟩,
                by simp [bdRestart, bdInit, hst, BT.ids], by simpa [bdRestart, bdInit, hst, BT.ids] using hpos,
                by simp [bdRestart, bdInit, hst, BT.noUn], by simp [hse]⟩
          · split
            · simp
            · rename_i t ht
              refine ⟨?_, by simp⟩
              intro g' ds' h
              simp at h
              obtain ⟨rfl, _⟩ := h
              obtain ⟨k1, k2⟩ := killFirst_ids _ _ _ ht
              refine ⟨?_, ⟨c, ?_⟩, by simpa [k2] using hI.ids, by simpa [k2] using hI.fresh,
                by simp [(killFirst_more _ _ _ ht).2.1, hI.noUn], ?_⟩
              · have := killFirst_aliveCount _ _ _ ht
                have := hI.count
                simp; omega
              · intro d hd
                exact hc d (killFirst_depths _ _ _ ht d hd)
              · intro sl hsl
                exact sliceOK_step N _ _ _ _ sl (Nat.le_refl _)
                  (fun T N0 _ hE => ext_killFirst N0 _ T _ _ hE ht) (hI.slices sl hsl)
  · simp

theorem ginv_iter (P : BDParams) (N G : Nat) (g : GState) (ds : List Draw) (hst : P.start = .tip 0 0 true) (hI : GInv N g) :
    (∀ g' ds', gsaIter P N G g ds = .ok (.cont g' ds') → GInv N g') ∧ (∀ g' ds', gsaIter P N G g ds = .ok (.done g' ds') → GFin N g') := by
  unfold gsaIter
  split
  · refine ⟨by simp, ?_⟩
    intro g' ds' h
    simp at h
    obtain ⟨rfl, _⟩ := h
    exact fun sl hsl => hI.slices sl hsl
  · split
    · simp
    · rename_i w ds1
      split
      · simp
      · have h1 := ginv_wait N g w hI
        simp only
        split
        · exact ginv_event P N _ ds1 hst h1
        · refine ⟨?_, by simp⟩
          intro g' ds' h
          simp at h
          obtain ⟨rfl, _⟩ := h
          simpa using h1
    · simp

theorem ginv_loop (P : BDParams) (N G : Nat) (hst : P.start = .tip 0 0 true) : ∀ (f : Nat) (g g' : GState) (ds ds' : List Draw),
    GInv N g → gsaLoop P N G f g ds = .ok (g', ds') → GFin N g' := by
  intro f
  induction f with
  | zero => intro g g' ds ds' _ h; simp [gsaLoop] at h
  | succ f ih =>
    intro g g' ds ds' hI h
    obtain ⟨h1, h2⟩ := ginv_iter P N G g ds hst hI
    simp only [gsaLoop] at h
    split at h
    · simp at h
    · rename_i g1 ds1 hit
      simp at h
      obtain ⟨rfl, _⟩ := h
      exact h2 g1 ds1 hit
    · rename_i g1 ds1 hit
      exact ih g1 g' ds1 ds' (h1 g1 ds1 hit) h
end Aux

/-- **GSA result** (fresh start tree; conditional on a tree being returned — that the code raises exactly when `gsaCrashAt` says is the
model's prediction, compared per case but neither a theorem nor judged by the oracle, GSA being outside the property statement; a
zero total slice duration makes `selectSlice` return nothing, `.error .state`, which is the code's `assert selected_slice`): the tree has
exactly `N` leaves, all extant and all at one depth, no unary node, and pairwise distinct taxa — for every draw list.
The proof shows that cutting the final tree back to the selected slice yields the tree exactly as it stood at that slice, plus
the slice's waiting time (`Aux.cutBackAll_ext`). -/
theorem gsa_result (P : BDParams) (N G n0 : Nat) (ds : List Draw) (r : SimResult) (hst : P.start = .tip 0 0 true)
    (h : gsaRun P N G n0 ds = .ok (some r)) :
    r.tree.nLeaves = N ∧ r.tree.aliveCount = N ∧ r.tree.noUn = true ∧ (∃ D, ∀ d ∈ r.tree.aliveDepths, d = D) ∧
    (r.taxa.map Prod.snd).Nodup ∧ isPerm r.tree.nLeaves (r.taxa.map Prod.fst) = true := by
  unfold gsaRun at h
  split at h
  · simp at h
  split at h
  · simp at h
  · rename_i g rest hl
    have h0 : GInv N { st := bdInit P, slices := [] } :=
      ⟨by simp [bdInit, hst, BT.aliveIds, BT.aliveCount], ⟨0, by simp [bdInit, hst, BT.aliveDepths]⟩, by simp [bdInit, hst, BT.ids],
       by simp [bdInit, hst, BT.ids, BT.maxId], by simp [bdInit, hst, BT.noUn], by simp⟩
    have hfin := Aux.ginv_loop P N G hst _ _ _ _ _ h0 hl
    split at h
    · split at h
      · simp at h
      simp only at h
      split at h
      · simp at h
      · rename_i w snap hsel
        split at h
        · simp at h
        split at h
        · simp at h
        · rename_i t hcut
          split at h
          · simp at h
          · rename_i r' hf
            simp at h; subst h
            have hmem : (w, snap) ∈ g.slices := by
              rcases Aux.selectSlice_mem _ _ _ (w, snap) (w, snap) trivial none hsel with h | h
              · exact h
              · simp at h
            obtain ⟨T, N0, e1, e2, ⟨D, e3⟩, e4, _, e6⟩ := hfin (w, snap) hmem
            simp only at e1
            subst e1
            rw [Aux.cutBackAll_ext N0 w T g.st.tree e4 e6] at hcut
            simp at hcut; subst hcut
            obtain ⟨f1, f2, f3, f4, f5, f6⟩ := Aux.finish_props _ _ _ _ hf
            refine ⟨by rw [f2, Aux.aliveCount_addAlive, e2], by rw [f3, f2, Aux.aliveCount_addAlive, e2], f1, ⟨D + w, ?_⟩, f5, f6⟩
            intro d hd
            rw [f4, Aux.aliveDepths_addAlive] at hd
            simp only [List.mem_map] at hd
            obtain ⟨e, he, rfl⟩ := hd
            rw [e3 e he]
    · simp at h
    · simp at h

/-- non-vacuity: N = 2, G = 3: two slices (waiting times 2 and 3 with two extant tips), a death in between; cut back to the last -/
example : (match gsaRun { nTips := some 2, maxTime := none, b := 2, d := 1 } 2 3 0
    [.w 4, .u 1 8, .g 0, .g 0, .g 0, .g 0, .w 2, .u 1 8, .g 0, .g 0, .g 0, .g 0, .u 1 2, .perm [], .perm [0, 1]] with
    | .ok (some r) => some (r.tree.nLeaves, r.tree.aliveDepths) | _ => none) = some (2, [6, 6]) := by decide


/-! ### extension round: `discrete_birth_death_tree` -/


/-- what a generation keeps true of a (sub)tree: every tip is a live leaf, no unary node, all leaves at one depth -/
structure DOK (D : Int) (t : BT) : Prop where
  alive : t.aliveCount = t.nLeaves
  noUn : t.noUn = true
  depth : ∀ d ∈ t.aliveDepths, d = D

namespace Aux
theorem dok_addLen (D l : Int) (t : BT) (h : DOK D t) : DOK (D + l) (t.addLen l) := by
  obtain ⟨a1, a2, a3, a4⟩ := addLen_props l t
  refine ⟨by rw [a2, a1]; exact h.alive, by rw [a3]; exact h.noUn, ?_⟩
  intro d hd
  rw [a4] at hd
  simp only [List.mem_map] at hd
  obtain ⟨e, he, rfl⟩ := hd
  rw [h.depth e he]

theorem dok_bin_inv (D : Int) (i : Nat) (l : Int) (x y : BT) (h : DOK D (.bin i l x y)) : DOK (D - l) x ∧ DOK (D - l) y := by
  obtain ⟨ha, hn, hd⟩ := h
  simp only [BT.aliveCount, BT.nLeaves] at ha
  simp [BT.noUn] at hn
  have hx := aliveCount_le x
  have hy := aliveCount_le y
  refine ⟨⟨by omega, hn.1, ?_⟩, ⟨by omega, hn.2, ?_⟩⟩
  · intro d hdx
    have := hd (d + l) (by simp only [BT.aliveDepths, List.mem_map, List.mem_append]; exact ⟨d, Or.inl hdx, rfl⟩)
    omega
  · intro d hdy
    have := hd (d + l) (by simp only [BT.aliveDepths, List.mem_map, List.mem_append]; exact ⟨d, Or.inr hdy, rfl⟩)
    omega

theorem dok_bin (D : Int) (i : Nat) (l : Int) (x y : BT) (hx : DOK (D - l) x) (hy : DOK (D - l) y) : DOK D (.bin i l x y) := by
  refine ⟨by simp [BT.aliveCount, BT.nLeaves, hx.alive, hy.alive], by simp [BT.noUn, hx.noUn, hy.noUn], ?_⟩
  intro d hd
  simp only [BT.aliveDepths, List.mem_map, List.mem_append] at hd
  obtain ⟨e, he, rfl⟩ := hd
  rcases he with h | h
  · rw [hx.depth e h]; omega
  · rw [hy.depth e h]; omega

/-- one generation moves every leaf exactly one generation down, whatever the draws -/
theorem genPass_ok (P : DParams) : ∀ (t : BT) (outside : Bool) (next : Nat) (ds : List Draw) (t' : BT) (r : Bool) (next' : Nat)
    (ds' : List Draw) (D : Int), genPass P outside t next ds = .ok (.tree (some t') r, next', ds') → DOK D t →
    DOK (D + 1) t' := by
  intro t
  induction t with
  | tip i l a =>
    intro outside next ds t' r next' ds' D h hD
    have ha : a = true := by
      have := hD.alive
      cases a <;> simp [BT.aliveCount, BT.nLeaves] at this ⊢
    subst ha
    have hl : l = D := hD.depth l (by simp [BT.aliveDepths])
    simp only [genPass] at h
    split at h
    · simp at h
    · split at h
      · simp at h
      split at h
      · split at h
        · simp at h
          obtain ⟨⟨rfl, _⟩, _, rfl⟩ := h
          refine ⟨by simp [BT.aliveCount, BT.nLeaves], by simp [BT.noUn], ?_⟩
          intro d hd
          simp [BT.aliveDepths] at hd
          omega
        · simp at h
      · split at h
        · split at h
          · simp at h
          · split at h
            · simp at h
              obtain ⟨⟨rfl, _⟩, _, rfl⟩ := h
              refine ⟨by simp [BT.aliveCount, BT.nLeaves], by simp [BT.noUn], ?_⟩
              intro d hd
              simp [BT.aliveDepths] at hd
              omega
            · simp at h
        · simp at h
          obtain ⟨⟨rfl, _⟩, _, rfl⟩ := h
          refine ⟨by simp [BT.aliveCount, BT.nLeaves], by simp [BT.noUn], ?_⟩
          intro d hd
          simp [BT.aliveDepths] at hd
          omega
    · simp at h
  | un i l c ih =>
    intro outside next ds t' r next' ds' D h hD
    have := hD.noUn
    simp [BT.noUn] at this
  | bin i l x y ihx ihy =>
    intro outside next ds t' r next' ds' D h hD
    obtain ⟨hx, hy⟩ := dok_bin_inv D i l x y hD
    simp only [genPass] at h
    split at h
    · simp at h
    · simp at h
    · rename_i x' r1 n1 ds1 hpx
      split at h
      · simp at h
      · simp at h
      · rename_i y' r2 n2 ds2 hpy
        simp at h
        obtain ⟨⟨hcomb, _⟩, _, rfl⟩ := h
        have e : D - l + 1 + l = D + 1 := by omega
        have e2 : D + 1 - l = D - l + 1 := by omega
        cases x' with
        | none =>
          cases y' with
          | none => simp at hcomb
          | some b =>
            simp at hcomb; subst hcomb
            have k1 := ihy _ _ _ _ _ _ _ (D - l) hpy hy
            have := dok_addLen (D - l + 1) l b k1
            rw [e] at this
            exact this
        | some a =>
          have j1 := ihx _ _ _ _ _ _ _ (D - l) hpx hx
          cases y' with
          | none =>
            simp at hcomb; subst hcomb
            have := dok_addLen (D - l + 1) l a j1
            rw [e] at this
            exact this
          | some b =>
            simp at hcomb; subst hcomb
            have k1 := ihy _ _ _ _ _ _ _ (D - l) hpy hy
            exact dok_bin (D + 1) i l a b (by rw [e2]; exact j1) (by rw [e2]; exact k1)
end Aux

namespace Aux
theorem dbdLoop_ok (P : DParams) : ∀ (f : Nat) (s s' : DState) (ds ds' : List Draw) (D : Int), DOK D s.tree →
    dbdLoop P f s ds = .ok (some s', ds') →
    (∃ D', DOK D' s'.tree) ∧ dbdGo P s' = false := by
  intro f
  induction f with
  | zero => intro s s' ds ds' D _ h; simp [dbdLoop] at h
  | succ f ih =>
    intro s s' ds ds' D hD h
    simp only [dbdLoop] at h
    split at h
    · split at h
      · simp at h
      · simp at h
      · simp at h
      · rename_i t r next ds1 hp
        exact ih _ s' ds1 ds' (D + 1) (genPass_ok P _ _ _ _ _ _ _ _ D hp hD) h
    · rename_i hstop
      simp at h
      obtain ⟨rfl, _⟩ := h
      exact ⟨⟨D, hD⟩, by simpa using hstop⟩
end Aux

/-- **discrete birth–death trees** (constant rates), every draw list: whenever a tree is returned (the alternative is the
documented `TreeSimTotalExtinctionException`), every leaf is a live tip, no node is unary, all leaves are at one depth
(the same number of generations from the root); and with `ntax = n` as the only stopping
rule the tree has AT LEAST `n` leaves (several lineages may split in the last generation — exactly `n` is not guaranteed).
(The conjunct `r.taxa = …`, leaf `j` carries taxon `j`, merely restates `dbdRun`'s assignment for the default empty namespace.) -/
theorem dbd_result (P : DParams) (ds : List Draw) (r : SimResult) (h : dbdRun P ds = .ok (some r)) :
    r.tree.aliveCount = r.tree.nLeaves ∧ r.tree.noUn = true ∧ (∃ D, ∀ d ∈ r.tree.aliveDepths, d = D) ∧
    r.taxa = (List.range r.tree.nLeaves).map (fun j => (j, j)) ∧
    (∀ n, P.ntax = some n → P.maxGens = none → n ≤ r.tree.nLeaves) := by
  unfold dbdRun at h
  split at h
  · simp at h
  · simp at h
  · rename_i s rest hl
    have h0 : DOK 0 (BT.tip 0 0 true) := ⟨by simp [BT.aliveCount, BT.nLeaves], by simp [BT.noUn], by simp [BT.aliveDepths]⟩
    obtain ⟨⟨D, hD⟩, hstop⟩ := Aux.dbdLoop_ok P _ _ s ds rest 0 h0 hl
    split at h
    · simp at h
    · rename_i k hk
      simp at h; subst h
      refine ⟨by simp [Aux.aliveCount_addAlive, Aux.nLeaves_addAlive, hD.alive], by simp [Aux.noUn_addAlive, hD.noUn], ⟨D + k, ?_⟩, rfl, ?_⟩
      · intro d hd
        simp only [Aux.aliveDepths_addAlive, List.mem_map] at hd
        obtain ⟨e, he, rfl⟩ := hd
        rw [hD.depth e he]
      · intro n hn hm
        simp [dbdGo, hn, hm] at hstop
        simpa [Aux.nLeaves_addAlive] using hstop
    · simp at h

/-- non-vacuity: birth 1/2, death 1/4: a birth, then one daughter splits and the other dies (its sister clade absorbs the
parent's edge), then nothing happens; 3 ≥ `ntax = 3` leaves after 3 generations … here 2 generations suffice -/
example : (match dbdRun { b := 2, d := 1, rs := 4, ntax := some 3, maxGens := none, repeatOK := false }
    [.u 1 8, .g 0, .g 0, .g 0, .g 0, .u 1 8, .g 0, .g 0, .g 0, .g 0, .u 1 8, .g 0, .g 0, .g 0, .g 0, .u 1 8] with
    | .ok (some r) => some (r.tree.nLeaves, r.tree.aliveDepths) | _ => none) = some (4, [2, 2, 2, 2]) := by decide

example : (match dbdRun { b := 2, d := 1, rs := 4, ntax := some 3, maxGens := none, repeatOK := false } [.u 5 8] with
    | .ok none => true | _ => false) = true := by decide


/-! ### final round: namespace use, success on well-formed scripts, discrete error characterisation -/


namespace Aux
theorem assignLoop_range : ∀ (ls pool : List Nat) (next : Nat), ∀ x ∈ (assignLoop pool next ls).map Prod.snd,
    x ∈ pool ∨ (next ≤ x ∧ x + pool.length < next + ls.length) := by
  intro ls
  induction ls with
  | nil => intro pool next x hx; cases pool <;> simp [assignLoop] at hx
  | cons l ls ih =>
    intro pool next x hx
    cases pool with
    | nil =>
      simp only [assignLoop, List.map_cons, List.mem_cons] at hx
      rcases hx with rfl | hx
      · right; simp
      · rcases ih [] (next + 1) x hx with h | h
        · simp at h
        · right; simp at h ⊢; omega
    | cons t pool =>
      simp only [assignLoop, List.map_cons, List.mem_cons] at hx
      rcases hx with rfl | hx
      · left; simp
      · rcases ih pool next x hx with h | h
        · left; simp [h]
        · right; simp at h ⊢; omega

/-- taxon use of the common tail: members of the supplied namespace (accession indices `< n0`) are used first, new taxa are
numbered on from `n0`; so every assigned index is below `max n0 m`, and below `n0` when the namespace is large enough -/
theorem assignTaxa_range (n0 m : Nat) (p1 p2 : List Nat) (a : List (Nat × Nat)) (h : assignTaxa n0 m p1 p2 = some a) :
    (∀ x ∈ a, x.2 < max n0 m) ∧ (m ≤ n0 → ∀ x ∈ a, x.2 < n0) := by
  unfold assignTaxa at h
  split at h
  · rename_i hp
    simp at h; subst h
    simp only [Bool.and_eq_true] at hp
    obtain ⟨hp1, hp2⟩ := hp
    simp only [isPerm, Bool.and_eq_true, List.all_eq_true, decide_eq_true_eq, beq_iff_eq] at hp1 hp2
    have key : ∀ x ∈ assignLoop p1.reverse n0 p2, x.2 < n0 ∨ (n0 ≤ x.2 ∧ x.2 < m) := by
      intro x hx
      rcases assignLoop_range p2 p1.reverse n0 x.2 (List.mem_map.mpr ⟨x, hx, rfl⟩) with h | h
      · left; exact hp1.1.2 x.2 (by simpa using h)
      · right; simp [hp1.1.1, hp2.1.1] at h; omega
    constructor
    · intro x hx
      rcases key x hx with h | h
      · exact Nat.lt_of_lt_of_le h (Nat.le_max_left _ _)
      · exact Nat.lt_of_lt_of_le h.2 (Nat.le_max_right _ _)
    · intro hm x hx
      rcases key x hx with h | h
      · exact h
      · omega
  · simp at h
end Aux

/-- **use of the supplied namespace** (`n0` members): in the tree returned by `birth_death_tree` every leaf's taxon is either a
member of the supplied namespace or one of the new taxa numbered on from `n0` without gaps; if the namespace has at least as
many members as the tree has leaves, only existing members are used (and by `bd_result` no member twice) -/
theorem bd_taxa_range (P : BDParams) (n0 : Nat) (ds : List Draw) (r : SimResult) (h : bdRun P n0 ds = .ok r) :
    (∀ x ∈ r.taxa, x.2 < max n0 r.tree.nLeaves) ∧ (r.tree.nLeaves ≤ n0 → ∀ x ∈ r.taxa, x.2 < n0) := by
  unfold bdRun at h
  split at h
  · simp at h
  · split at h
    · unfold finishRetain at h
      simp only at h
      split at h
      · split at h
        · rename_i a ha
          simp at h; subst h
          exact Aux.assignTaxa_range _ _ _ _ _ ha
        · simp at h
      · simp at h
    · unfold finish at h
      split at h
      · simp at h
      · simp only at h
        split at h
        · split at h
          · rename_i a ha
            simp at h; subst h
            exact Aux.assignTaxa_range _ _ _ _ _ ha
          · simp at h
        · simp at h

/-- the same for `fast_birth_death_tree` -/
theorem fbd_taxa_range (P : BDParams) (n0 : Nat) (ds : List Draw) (r : SimResult) (h : fbdRun P n0 ds = .ok r) :
    (∀ x ∈ r.taxa, x.2 < max n0 r.tree.nLeaves) ∧ (r.tree.nLeaves ≤ n0 → ∀ x ∈ r.taxa, x.2 < n0) := by
  unfold fbdRun at h
  split at h
  · simp at h
  split at h
  · simp at h
  · unfold finish at h
    split at h
    · simp at h
    · simp only at h
      split at h
      · split at h
        · rename_i a ha
          simp at h; subst h
          exact Aux.assignTaxa_range _ _ _ _ _ ha
        · simp at h
      · simp at h

/-- non-vacuity: a namespace of two members, three leaves: the members 1, 0 are used, then the new taxon 2 -/
example : (bdRun { nTips := some 3, maxTime := none, b := 2, d := 0 } 2
    [.w 1, .u 1 8, .g 0, .g 0, .g 0, .g 0, .w 1, .u 1 8, .g 0, .g 0, .g 0, .g 0, .perm [0, 1], .perm [0, 1, 2]]).toOption.map
      (fun r => r.taxa) = some [(0, 1), (1, 0), (2, 2)] := by decide

/-- a script of coalescence events `(waiting time, i, j)` is valid for a pool of `m` lineages: non-negative times, two
distinct positions inside the pool, which shrinks by one per event -/
def ValidCoal : Nat → List (Int × Nat × Nat) → Prop
  | _, [] => True
  | m, e :: es => 0 ≤ e.1 ∧ e.2.1 ≠ e.2.2 ∧ e.2.1 < m ∧ e.2.2 < m ∧ ValidCoal (m - 1) es

def coalScript (ev : List (Int × Nat × Nat)) : List Draw := ev.flatMap (fun e => [.w e.1, .samp e.2.1 e.2.2])

namespace Aux
theorem coalLoop_succeeds (pop : Nat) : ∀ (ev : List (Int × Nat × Nat)) (nodes : List GT) (f : Nat),
    nodes.length = ev.length + 1 → ev.length ≤ f → ValidCoal nodes.length ev →
    ∃ t, coalLoop pop f nodes none (coalScript ev) = .ok ([t], none, []) := by
  intro ev
  induction ev with
  | nil =>
    intro nodes f hl _ _
    match nodes, hl with
    | [t], _ =>
      refine ⟨t, ?_⟩
      cases f <;> simp [coalLoop, coalScript]
  | cons e ev ih =>
    intro nodes f hl hf hv
    obtain ⟨w, i, j⟩ := e
    obtain ⟨hw, hij, hi, hj, hrest⟩ := hv
    simp only at hw hij hi hj
    cases f with
    | zero => simp at hf
    | succ f =>
      have hlen : ¬ nodes.length ≤ 1 := by simp at hl; omega
      have hi' : i < (nodes.map (GT.addLen (w * timeUnits pop))).length := by simpa using hi
      have hj' : j < (nodes.map (GT.addLen (w * timeUnits pop))).length := by simpa using hj
      have hev : ∃ nodes1, coalEvent (w * timeUnits pop) nodes (.samp i j :: coalScript ev) = .ok (nodes1, coalScript ev) := by
        unfold coalEvent
        simp only [List.getElem?_eq_getElem hi', List.getElem?_eq_getElem hj']
        have : (i == j) = false := by simpa using hij
        simp [this]
      obtain ⟨nodes1, hev⟩ := hev
      have hl1 := coalEvent_length _ _ _ _ _ hev
      obtain ⟨t, ht⟩ := ih nodes1 f (by simp at hl; omega) (by simp at hf; omega) (by
        have : nodes1.length = nodes.length - 1 := by omega
        rw [this]; exact hrest)
      refine ⟨t, ?_⟩
      have hw' : ¬ w < 0 := by omega
      simp only [coalScript, List.flatMap_cons, List.cons_append, List.nil_append, coalLoop, hlen, if_false, hw', withinPeriod, if_true]
      simp only [coalScript] at hev ht
      rw [hev]
      simpa using ht
end Aux

/-- **`pure_kingman_tree` succeeds on every well-formed script**: for `n ≥ 1` taxa, ANY `n − 1` events with non-negative
waiting times and two distinct positions inside the shrinking pool yield a tree (with `kingman_result`: one leaf per taxon,
ultrametric).  A model that always failed would not satisfy this. -/
theorem kingman_succeeds (n pop : Nat) (hn : 1 ≤ n) (ev : List (Int × Nat × Nat)) (hl : ev.length + 1 = n) (hv : ValidCoal n ev) :
    ∃ t, kingman n pop (coalScript ev) = .ok t := by
  have hlen : ((List.range n).map (fun k => GT.leaf k 0 0)).length = ev.length + 1 := by simp; omega
  obtain ⟨t, ht⟩ := Aux.coalLoop_succeeds pop ev _ ((List.range n).map (fun k => GT.leaf k 0 0)).length hlen (by omega)
    (by simpa using hv)
  refine ⟨t, ?_⟩
  unfold kingman coalesce
  have hne : ((List.range n).map (fun k => GT.leaf k 0 0)).isEmpty = false := by
    cases n with
    | zero => omega
    | succ m => simp [List.range_succ]
  simp only [hne, Bool.false_eq_true, if_false, ht]

/-- non-vacuity: four taxa, three events at positions that are only valid because the pool shrinks as stated -/
example : ValidCoal 4 [(1, 3, 0), (0, 2, 1), (5, 0, 1)] := by simp [ValidCoal]
example : (kingman 4 3 (coalScript [(1, 3, 0), (0, 2, 1), (5, 0, 1)])).toOption.map (fun t => t.leaves.map Prod.fst) = some [1, 3, 0, 2] := by decide

/-- a script of pure-birth events `(waiting time, chosen leaf)` is valid from `m` leaves on -/
def ValidPb : Nat → List (Int × Nat) → Prop
  | _, [] => True
  | m, e :: es => 0 ≤ e.1 ∧ e.2 < m ∧ ValidPb (m + 1) es

def pbScript (ev : List (Int × Nat)) (wLast : Int) : List Draw := ev.flatMap (fun e => [.w e.1, .choice e.2]) ++ [.w wLast]

namespace Aux
theorem splitNth_some (a b : Nat) : ∀ (t : BT) (k : Nat), k < t.nLeaves → ∃ t', splitNth k a b t = some t' := by
  intro t
  induction t with
  | tip j l al => intro k hk; simp [BT.nLeaves] at hk; subst hk; simp [BT.splitNth]
  | un j l c ih =>
    intro k hk
    obtain ⟨c', hc⟩ := ih k (by simpa [BT.nLeaves] using hk)
    exact ⟨.un j l c', by simp [BT.splitNth, hc]⟩
  | bin j l x y ihx ihy =>
    intro k hk
    simp only [BT.nLeaves] at hk
    simp only [BT.splitNth]
    split
    · rename_i hlt
      obtain ⟨x', hx⟩ := ihx k hlt
      exact ⟨.bin j l x' y, by simp [hx]⟩
    · obtain ⟨y', hy⟩ := ihy (k - x.nLeaves) (by omega)
      exact ⟨.bin j l x y', by simp [hy]⟩

theorem pbLoop_succeeds (n : Nat) (tail : List Draw) : ∀ (ev : List (Int × Nat)) (t : BT) (next f : Nat),
    t.nLeaves + ev.length = n → ev.length < f → ValidPb t.nLeaves ev → t.aliveCount = t.nLeaves →
    ∃ t', pbLoop n f t next (ev.flatMap (fun e => [.w e.1, .choice e.2]) ++ tail) = .ok (t', tail) ∧ t'.nLeaves = n := by
  intro ev
  induction ev with
  | nil =>
    intro t next f hn hf _ _
    cases f with
    | zero => omega
    | succ f => exact ⟨t, by simp at hn; simp [pbLoop, hn], by simpa using hn⟩
  | cons e ev ih =>
    intro t next f hn hf hv hal
    obtain ⟨w, k⟩ := e
    obtain ⟨hw, hk, hrest⟩ := hv
    simp only at hw hk
    cases f with
    | zero => omega
    | succ f =>
      obtain ⟨t1, ht1⟩ := splitNth_some next (next + 1) (t.addAlive w) k (by rw [nLeaves_addAlive]; exact hk)
      obtain ⟨p1, p2, _, _⟩ := splitNth_props _ _ _ t1 k (by rw [aliveCount_addAlive, nLeaves_addAlive]; exact hal) ht1
      rw [nLeaves_addAlive] at p1
      obtain ⟨t', h1, h2⟩ := ih t1 (next + 2) f (by simp at hn; omega) (by simp at hf; omega) (by rw [p1]; exact hrest) p2
      refine ⟨t', ?_, h2⟩
      have hlt : ¬ t.nLeaves ≥ n := by simp at hn; omega
      have hw' : ¬ w < 0 := by omega
      simp only [List.flatMap_cons, List.cons_append, List.nil_append, pbLoop, hlt, if_false, hw', ht1]
      exact h1
end Aux

/-- **`uniform_pure_birth_tree` succeeds on every well-formed script**: `n − 1` events `(waiting time ≥ 0, a leaf position
that exists at that moment)` and a final waiting time always yield a tree (with `pb_result`: `n` equidistant leaves) -/
theorem pb_succeeds (n : Nat) (hn : 1 ≤ n) (ev : List (Int × Nat)) (wLast : Int) (hl : ev.length + 1 = n) (hv : ValidPb 1 ev)
    (hw : 0 ≤ wLast) : ∃ r, pbRun n (pbScript ev wLast) = .ok r := by
  have hlen : ∀ (l : List (Int × Nat)), l.length ≤ (l.flatMap (fun e => [Draw.w e.1, Draw.choice e.2])).length := by
    intro l
    induction l with
    | nil => simp
    | cons a l ih => simp only [List.flatMap_cons, List.length_append, List.length_cons, List.length_nil]; omega
  obtain ⟨t', h1, _⟩ := Aux.pbLoop_succeeds n [.w wLast] ev (.tip 0 0 true) 1 ((pbScript ev wLast).length + 1)
    (by simp [BT.nLeaves]; omega) (by have := hlen ev; simp only [pbScript, List.length_append, List.length_cons, List.length_nil]; omega) (by simpa [BT.nLeaves] using hv)
    (by simp [BT.aliveCount, BT.nLeaves])
  have hn0 : (n == 0) = false := by simp; omega
  have hw' : ¬ wLast < 0 := by omega
  unfold pbRun
  rw [hn0]
  simp only [Bool.false_eq_true, if_false]
  unfold pbScript at h1 ⊢
  rw [h1]
  simp only [hw', if_false]
  exact ⟨_, rfl⟩

example : ValidPb 1 [(2, 0), (0, 1), (3, 2)] := by simp [ValidPb]
example : (pbRun 4 (pbScript [(2, 0), (0, 1), (3, 2)] 1)).toOption.map (fun r => r.tree.nLeaves) = some 4 := by decide

namespace Aux
theorem genPass_facts (P : DParams) : ∀ (t : BT) (outside : Bool) (next : Nat) (ds : List Draw),
    (∀ e, genPass P outside t next ds = .error e → e = .draws ∨ e = .kind) ∧
    (∀ out n' ds', genPass P outside t next ds = .ok (out, n', ds') → ds'.length < ds.length ∧
       (outside = false → ∀ r, out ≠ .tree none r)) := by
  intro t
  induction t with
  | tip i l a =>
    intro outside next ds
    simp only [genPass]
    split
    · simp
    · split
      · simp
      split
      · split
        · refine ⟨by simp, ?_⟩
          intro out n' ds' h
          simp at h
          obtain ⟨rfl, _, rfl⟩ := h
          exact ⟨by simp; omega, by simp⟩
        · refine ⟨?_, by simp⟩
          intro e h
          split at h <;> (simp at h; simp [← h])
      · split
        · split
          · rename_i ho
            refine ⟨by simp, ?_⟩
            intro out n' ds' h
            simp at h
            obtain ⟨rfl, _, rfl⟩ := h
            exact ⟨by simp, by intro hf; simp [hf] at ho⟩
          · split
            · refine ⟨by simp, ?_⟩
              intro out n' ds' h
              simp at h
              obtain ⟨rfl, _, rfl⟩ := h
              exact ⟨by simp, by simp⟩
            · refine ⟨by simp, ?_⟩
              intro out n' ds' h
              simp at h
              obtain ⟨rfl, _, rfl⟩ := h
              exact ⟨by simp, by simp⟩
        · refine ⟨by simp, ?_⟩
          intro out n' ds' h
          simp at h
          obtain ⟨rfl, _, rfl⟩ := h
          exact ⟨by simp, by simp⟩
    · simp
  | un i l c ih =>
    intro outside next ds
    obtain ⟨e1, e2⟩ := ih outside next ds
    simp only [genPass]
    split
    · rename_i e he
      exact ⟨by intro e' h; simp at h; subst h; exact e1 e he, by simp⟩
    · rename_i n1 ds1 hp
      refine ⟨by simp, ?_⟩
      intro out n' ds' h
      simp at h
      obtain ⟨rfl, _, rfl⟩ := h
      exact ⟨(e2 _ _ _ hp).1, by simp⟩
    · rename_i r n1 ds1 hp
      refine ⟨by simp, ?_⟩
      intro out n' ds' h
      simp at h
      obtain ⟨rfl, _, rfl⟩ := h
      exact ⟨(e2 _ _ _ hp).1, fun hf => by have := (e2 _ _ _ hp).2 hf r; simp at this⟩
    · rename_i c' r n1 ds1 hp
      refine ⟨by simp, ?_⟩
      intro out n' ds' h
      simp at h
      obtain ⟨rfl, _, rfl⟩ := h
      exact ⟨(e2 _ _ _ hp).1, by simp⟩
  | bin i l x y ihx ihy =>
    intro outside next ds
    obtain ⟨x1, x2⟩ := ihx true next ds
    simp only [genPass]
    split
    · rename_i e he
      exact ⟨by intro e' h; simp at h; subst h; exact x1 e he, by simp⟩
    · rename_i n1 ds1 hp
      refine ⟨by simp, ?_⟩
      intro out n' ds' h
      simp at h
      obtain ⟨rfl, _, rfl⟩ := h
      exact ⟨(x2 _ _ _ hp).1, by simp⟩
    · rename_i x' r1 n1 ds1 hpx
      have hlx := (x2 _ _ _ hpx).1
      obtain ⟨y1, y2⟩ := ihy (outside || x'.isSome) n1 ds1
      split
      · rename_i e he
        exact ⟨by intro e' h; simp at h; subst h; exact y1 e he, by simp⟩
      · rename_i n2 ds2 hpy
        refine ⟨by simp, ?_⟩
        intro out n' ds' h
        simp at h
        obtain ⟨rfl, _, rfl⟩ := h
        exact ⟨by have := (y2 _ _ _ hpy).1; omega, by simp⟩
      · rename_i y' r2 n2 ds2 hpy
        refine ⟨by simp, ?_⟩
        intro out n' ds' h
        simp at h
        obtain ⟨rfl, _, rfl⟩ := h
        refine ⟨by have := (y2 _ _ _ hpy).1; omega, ?_⟩
        intro hf r
        subst hf
        cases x' with
        | some a => cases y' <;> simp
        | none =>
          cases y' with
          | some b => simp
          | none =>
            have := (y2 _ _ _ hpy).2 (by simp) r2
            simp at this

theorem dbdLoop_errors (P : DParams) : ∀ (f : Nat) (s : DState) (ds : List Draw) (e : Err), ds.length < f →
    dbdLoop P f s ds = .error e → e = .draws ∨ e = .kind := by
  intro f
  induction f with
  | zero => intro s ds e h; omega
  | succ f ih =>
    intro s ds e hlen h
    obtain ⟨g1, g2⟩ := genPass_facts P s.tree false s.next ds
    simp only [dbdLoop] at h
    split at h
    · split at h
      · rename_i e' he
        simp at h; subst h
        exact g1 e' he
      · simp at h
      · rename_i r n1 ds1 hp
        have := (g2 _ _ _ hp).2 rfl r
        simp at this
      · rename_i t r n1 ds1 hp
        exact ih _ ds1 e (by have := (g2 _ _ _ hp).1; omega) h
    · simp at h

theorem addGens_errors (P : DParams) (gens : Nat) : ∀ (ds : List Draw) (acc : Nat) (e : Err),
    addGens P gens ds acc = .error e → e = .draws ∨ e = .kind := by
  intro ds
  induction ds with
  | nil =>
    intro acc e h
    simp only [addGens] at h
    split at h
    · simp at h; simp [← h]
    · simp at h
  | cons d ds ih =>
    intro acc e h
    simp only [addGens] at h
    split at h
    · split at h
      · split at h
        · simp at h; simp [← h]
        · split at h
          · simp at h
          · exact ih _ e h
      · simp at h; simp [← h]
    · simp at h
end Aux

/-- **no internal failure, discrete simulator**: a run of `discrete_birth_death_tree` can only stop early on its draw script
(too short, wrong kind, a non-zero `gauss` draw — the model covers constant rates —, draws left over): the fuel suffices and the
"whole tree pruned away" state is unreachable, because the last lineage is never pruned (it raises or survives) -/
theorem dbd_only_script_errors (P : DParams) (ds : List Draw) (e : Err) (h : dbdRun P ds = .error e) : e = .draws ∨ e = .kind := by
  unfold dbdRun at h
  split at h
  · rename_i e' he
    simp at h; subst h
    exact Aux.dbdLoop_errors P _ _ ds e' (by omega) he
  · simp at h
  · split at h
    · rename_i e' he
      simp at h; subst h
      exact Aux.addGens_errors P _ _ _ e' he
    · simp at h
    · simp at h; simp [← h]

example : (match dbdRun { b := 2, d := 1, rs := 4, ntax := some 3, maxGens := none, repeatOK := false } [.u 1 8, .g 0] with
    | .error e => some e | _ => none) = some Err.draws := by decide


/-! ### last round: error characterisation of the GSA run -/


/-- "only a script error": the run stopped because the draw list was too short or served a draw of the wrong kind -/
def Err.script (e : Err) : Prop := e = .draws ∨ e = .kind

namespace Aux
/-- one pass of the GSA loop from a state satisfying the lookup invariant: never an internal failure, a continued pass keeps
the invariant and consumes a draw -/
theorem gs_death (P : BDParams) (hG : GoodStart P) (g : GState) (nd : Tip) (ds : List Draw) (hS : SInv P g.st) (hnd : nd ∈ g.st.extant) :
    (∀ e, gsaDeath P g nd (removeTip nd.id g.st.extant) ds = .error e → False) ∧
    ∀ g' ds', gsaDeath P g nd (removeTip nd.id g.st.extant) ds = .ok (.cont g' ds') → SInv P g'.st ∧ ds' = ds := by
  obtain ⟨t, ht⟩ := killFirst_some nd.id g.st.tree (hS.alive nd hnd)
  have a1 := killFirst_hasAlive _ _ _ ht
  have hsub := removeTip_sublist nd.id g.st.extant
  unfold gsaDeath
  split
  · split
    · exact ⟨by simp, by simp⟩
    · refine ⟨by simp, ?_⟩
      intro g' ds' h
      simp at h
      obtain ⟨rfl, rfl⟩ := h
      exact ⟨init_sinv_at P hG g.st.next hS.nextLB, rfl⟩
  · rename_i hne
    rw [ht]
    refine ⟨by simp, ?_⟩
    intro g' ds' h
    simp at h
    obtain ⟨rfl, rfl⟩ := h
    refine ⟨⟨hS.nodup.sublist (hsub.map Tip.id), fun t0 h0 => hS.fresh t0 (hsub.subset h0), ?_, fun t0 h0 => hS.rates t0 (hsub.subset h0), ?_, hS.nextLB⟩, rfl⟩
    · intro t0 h0
      exact a1 t0.id (removeTip_ne nd.id g.st.extant hS.nodup t0 h0) (hS.alive t0 (hsub.subset h0))
    · intro he; simp at he; simp [he] at hne

theorem gs_event (P : BDParams) (hG : GoodStart P) (g : GState) (ds : List Draw) (hb : 0 < P.b) (hd : 0 ≤ P.d) (hS : SInv P g.st)
    (hg : GaussNonneg ds) :
    (∀ e, gsaEvent P g ds = .error e → Err.script e) ∧
    ∀ g' ds', gsaEvent P g ds = .ok (.cont g' ds') → SInv P g'.st ∧ (∀ x ∈ ds', x ∈ ds) ∧ ds'.length < ds.length := by
  unfold gsaEvent
  split
  · rename_i hz
    have hr0 := rates_props g.st.extant (fun t ht => by have := hS.rates t ht; omega)
    have := hr0.2.2 hS.ne
    simp at hz; omega
  split
  · exact ⟨by intro e h; simp at h; simp [Err.script, ← h], by simp⟩
  · rename_i p q ds2
    split
    · exact ⟨by intro e h; simp at h; simp [Err.script, ← h], by simp⟩
    · rename_i hpq
      simp at hpq
      have hr := rates_props g.st.extant (fun t ht => by have := hS.rates t ht; omega)
      obtain ⟨k, hk⟩ := wic_total p q (rates g.st.extant) (by omega) (by omega) (hr.2.2 hS.ne)
      have hklt := wic_lt_length p q _ k (by omega) hr.2.1 hk
      rw [rates_length] at hklt
      rw [wicN_pos p q _ (hr.2.2 hS.ne), hk]
      simp only
      have hidx : k / 2 < g.st.extant.length := by omega
      rw [List.getElem?_eq_getElem hidx]
      simp only
      have hnd : g.st.extant[k / 2] ∈ g.st.extant := List.getElem_mem hidx
      have hg2 : GaussNonneg ds2 := fun v hv => hg v (by simp [hv])
      split
      · obtain ⟨h1, h2⟩ := sbirth P g.st _ ds2 hS hnd hg2
        split
        · rename_i e he
          refine ⟨?_, by simp⟩
          intro e' h
          simp at h; subst h
          -- bdBirth errors: draws / kind / state; state excluded
          have hns := h1
          unfold bdBirth at he
          split at he
          · split at he
            · simp at he; subst he; exact absurd (by unfold bdBirth; simp_all) hns
            · simp at he
          · split at he <;> (simp at he; simp [Err.script, ← he])
        · rename_i s ds3 hb'
          refine ⟨by simp, ?_⟩
          intro g' ds' h
          simp at h
          obtain ⟨rfl, rfl⟩ := h
          obtain ⟨a, b⟩ := h2 s ds3 hb'
          obtain ⟨_, _, ds4, e1, _⟩ := bdBirth_shape _ _ _ _ _ hb'
          refine ⟨a, fun x hx => by simp [b x hx], ?_⟩
          -- four gauss draws were consumed
          unfold bdBirth at hb'
          split at hb'
          · split at hb'
            · simp at hb'
            · simp at hb'
              obtain ⟨_, rfl⟩ := hb'
              simp; omega
          · simp at hb'
        · rename_i s ds3 hb'
          obtain ⟨_, _, _, e1, _⟩ := bdBirth_shape _ _ _ _ _ hb'
          simp at e1
      · obtain ⟨h1, h2⟩ := gs_death P hG g _ ds2 hS hnd
        refine ⟨fun e h => (h1 e h).elim, ?_⟩
        intro g' ds' h
        obtain ⟨a, rfl⟩ := h2 g' ds' h
        exact ⟨a, fun x hx => by simp [hx], by simp⟩
  · exact ⟨by intro e h; simp at h; simp [Err.script, ← h], by simp⟩
end Aux

namespace Aux
theorem gs_iter (P : BDParams) (hG : GoodStart P) (N G : Nat) (g : GState) (ds : List Draw) (hb : 0 < P.b) (hd : 0 ≤ P.d)
    (hS : SInv P g.st) (hg : GaussNonneg ds) :
    (∀ e, gsaIter P N G g ds = .error e → Err.script e) ∧
    ∀ g' ds', gsaIter P N G g ds = .ok (.cont g' ds') → SInv P g'.st ∧ GaussNonneg ds' ∧ ds'.length < ds.length := by
  unfold gsaIter
  split
  · exact ⟨by simp, by simp⟩
  · split
    · exact ⟨by intro e h; simp at h; simp [Err.script, ← h], by simp⟩
    · rename_i w ds1
      split
      · exact ⟨by intro e h; simp at h; simp [Err.script, ← h], by simp⟩
      · simp only
        have hS1 : SInv P { g.st with tree := g.st.tree.addAlive w, total := g.st.total + w } :=
          ⟨hS.nodup, hS.fresh, fun t ht => by simp [hasAlive_addAlive, hS.alive t ht], hS.rates, hS.ne, hS.nextLB⟩
        have hg1 : GaussNonneg ds1 := fun v hv => hg v (by simp [hv])
        split
        · obtain ⟨h1, h2⟩ := gs_event P hG
            { st := { g.st with tree := g.st.tree.addAlive w, total := g.st.total + w },
              slices := if g.st.extant.length == N then g.slices ++ [(w, g.st.tree.aliveTips)] else g.slices } ds1 hb hd hS1 hg1
          refine ⟨h1, ?_⟩
          intro g' ds' h
          obtain ⟨a, b, c⟩ := h2 g' ds' h
          exact ⟨a, fun v hv => hg1 v (b _ hv), by simp; omega⟩
        · refine ⟨by simp, ?_⟩
          intro g' ds' h
          simp at h
          obtain ⟨rfl, rfl⟩ := h
          exact ⟨hS1, hg1, by simp⟩
    · exact ⟨by intro e h; simp at h; simp [Err.script, ← h], by simp⟩

theorem gs_loop (P : BDParams) (hG : GoodStart P) (N G : Nat) (hb : 0 < P.b) (hd : 0 ≤ P.d) : ∀ (f : Nat) (g : GState) (ds : List Draw),
    SInv P g.st → GaussNonneg ds → ds.length < f → ∀ e, gsaLoop P N G f g ds = .error e → Err.script e := by
  intro f
  induction f with
  | zero => intro g ds _ _ h; omega
  | succ f ih =>
    intro g ds hS hg hlen e h
    obtain ⟨h1, h2⟩ := gs_iter P hG N G g ds hb hd hS hg
    simp only [gsaLoop] at h
    split at h
    · rename_i e' he
      simp at h; subst h
      exact h1 e' he
    · simp at h
    · rename_i g1 ds1 hit
      obtain ⟨a, b, c⟩ := h2 g1 ds1 hit
      exact ih g1 ds1 a b (by omega) e h

/-- when every recorded duration is zero no slice is ever selected -/
theorem selectSlice_zero (q : Int) : ∀ (sl : List (Int × List (Nat × Int))) (r : Int), 0 ≤ r → (∀ s ∈ sl, s.1 = 0) →
    selectSlice q r sl none = none := by
  intro sl
  induction sl with
  | nil => intro r _ _; simp [selectSlice]
  | cons a rest ih =>
    intro r hr hz
    have ha : a.1 = 0 := hz a (by simp)
    simp only [selectSlice, ha, Int.zero_mul, Int.sub_zero]
    rw [if_neg (by omega)]
    exact ih r hr (fun s hs => hz s (by simp [hs]))
end Aux

/-- **errors of a GSA run**: with admissible rates (`birth > 0`, `death ≥ 0`), `gauss` draws that never lower a rate, a fresh
start tree and `1 ≤ N ≤ G`, a run of `birth_death_tree(num_extant_tips=N, gsa_ntax=G)` fails either on its draw script
(`draws` / `kind`) or — the single internal failure — with `state` because the recorded time slices have total duration `≤ 0`
(no slice at all, or only zero waiting times): this is the code's own `assert(selected_slice is not None)`.  Every other lookup
(weighted choice, node to split / kill, cutting back to the selected slice, pruning) succeeds and the fuel suffices. -/
theorem gsa_only_script_errors_or_assert (P : BDParams) (N G n0 : Nat) (ds : List Draw) (e : Err) (hst : P.start = .tip 0 0 true)
    (hb : 0 < P.b) (hd : 0 ≤ P.d) (hg : GaussNonneg ds) (hN : 1 ≤ N) (hNG : N ≤ G) (h : gsaRun P N G n0 ds = .error e) :
    e = .draws ∨ e = .kind ∨
    (e = .state ∧ ∃ g rest, gsaLoop P N G (ds.length + 1) { st := bdInit P, slices := [] } ds = .ok (g, rest) ∧
       (g.slices.map (·.1)).sum ≤ 0) := by
  have hG := goodStart_default P hst
  unfold gsaRun at h
  rw [if_neg (by omega)] at h
  split at h
  · rename_i e' he
    simp at h; subst h
    rcases Aux.gs_loop P hG N G hb hd _ _ ds (bd_init_sinv P hG) hg (by omega) e' he with h | h
    · exact Or.inl h
    · exact Or.inr (Or.inl h)
  · rename_i g rest hl
    have h0 : GInv N { st := bdInit P, slices := [] } :=
      ⟨by simp [bdInit, hst, BT.aliveIds, BT.aliveCount], ⟨0, by simp [bdInit, hst, BT.aliveDepths]⟩, by simp [bdInit, hst, BT.ids],
       by simp [bdInit, hst, BT.ids, BT.maxId], by simp [bdInit, hst, BT.noUn], by simp⟩
    have hfin := Aux.ginv_loop P N G hst _ _ _ _ _ h0 hl
    split at h
    · rename_i p q rest'
      split at h
      · simp at h; exact Or.inr (Or.inl h.symm)
      rename_i hpq
      simp at hpq
      simp only at h
      split at h
      · -- no slice selected: the assert
        rename_i hsel
        simp at h; subst h
        refine Or.inr (Or.inr ⟨rfl, g, _, hl, ?_⟩)
        by_cases hpos : 0 < (g.slices.map (·.1)).sum
        · exfalso
          have hne : g.slices ≠ [] := by intro he; simp [he] at hpos
          have := gsa_selects_last p q g.slices hne (by omega) (by omega) hpos
          rw [hsel] at this
          cases hgl : g.slices.getLast? with
          | none => simp [List.getLast?_eq_none_iff] at hgl; exact hne hgl
          | some x => rw [hgl] at this; simp at this
        · omega
      · rename_i w snap hsel
        split at h
        · simp at h
        have hmem : (w, snap) ∈ g.slices := by
          rcases Aux.selectSlice_mem _ _ _ (w, snap) (w, snap) trivial none hsel with h | h
          · exact h
          · simp at h
        obtain ⟨T, N0, e1, e2, _, e4, _, e6⟩ := hfin (w, snap) hmem
        simp only at e1
        subst e1
        rw [Aux.cutBackAll_ext N0 w T g.st.tree e4 e6] at h
        simp only at h
        split at h
        · rename_i e' hf
          simp at h; subst h
          rcases Aux.finish_errors n0 _ _ e' (by rw [Aux.aliveCount_addAlive, e2]; exact hN) hf with h | h
          · exact Or.inl h
          · exact Or.inr (Or.inl h)
        · simp at h
    · simp at h; exact Or.inl h.symm
    · simp at h; exact Or.inr (Or.inl h.symm)

/-- the assert does occur: one slice of zero duration (N = 1, G = 2, first waiting time 0) -/
example : (match gsaRun { nTips := some 1, maxTime := none, b := 2, d := 1 } 1 2 0
    [.w 0, .u 1 8, .g 0, .g 0, .g 0, .g 0, .u 1 2, .perm [], .perm [0]] with | .error e => some e | .ok _ => none) = some Err.state := by decide

/-- the converse: when every recorded slice has zero duration no slice is selected, whatever the uniform draw -/
theorem gsa_assert_when_zero_duration (p q : Int) (sl : List (Int × List (Nat × Int))) (hz : ∀ s ∈ sl, s.1 = 0) :
    selectSlice q (p * (sl.map (·.1)).sum) sl none = none := by
  have : (sl.map (·.1)).sum = 0 := by
    induction sl with
    | nil => simp
    | cons a rest ih => simp [hz a (by simp), ih (fun s hs => hz s (by simp [hs]))]
  rw [this, Int.mul_zero]
  exact Aux.selectSlice_zero q sl 0 (by omega) hz


/-! ### last round: progress of the fast variant and of `coalesce_nodes` -/


/-- **progress of the loop body, fast variant**: from a state satisfying the lookup invariant, a waiting time `w ≥ 0`, an index
of an extant tip and a uniform draw `0 ≤ p/q < 1` always let a pass through the body of `fast_birth_death_tree` complete -/
theorem fbd_iter_progress (P : BDParams) (s : FState) (w ti p q : Int) (rest : List Draw) (hS : FSInv s) (hw : 0 ≤ w)
    (hti : 0 ≤ ti) (hti' : ti.toNat < s.extant.length) (hp : 0 ≤ p) (hpq : p < q) :
    ∃ st, fbdIter P s (.w w :: .rint ti :: .u p q :: rest) = .ok st := by
  unfold fbdIter
  split
  · exact ⟨_, rfl⟩
  · simp only
    rw [if_neg (by omega)]
    split
    · unfold fbdEvent
      simp only
      have hcond : (decide (q ≤ 0) || decide (p < 0) || decide (p ≥ q)) = false := by simp; omega
      rw [hcond]
      simp only [Bool.false_eq_true, if_false]
      rw [if_neg (by omega)]
      rw [List.getElem?_eq_getElem hti']
      simp only
      have hmem : s.extant[ti.toNat] ∈ s.extant := List.getElem_mem hti'
      split
      · obtain ⟨t, ht⟩ := Aux.splitFast_some s.extant[ti.toNat] s.next (s.next + 1) (s.total + w) s.tree (hS.alive _ hmem)
        simp only [ht]
        exact ⟨_, rfl⟩
      · split
        · exact ⟨_, rfl⟩
        · obtain ⟨t, ht⟩ := Aux.killFirst_some s.extant[ti.toNat] s.tree (hS.alive _ hmem)
          simp only [ht]
          exact ⟨_, rfl⟩
    · exact ⟨_, rfl⟩

/-- the lookup invariant of the fast variant is kept by every pass (public form of `Aux.fsiter`) -/
theorem fbd_sinv_step (P : BDParams) (s s' : FState) (ds ds' : List Draw) (hS : FSInv s)
    (h : fbdIter P s ds = .ok (.cont s' ds')) : FSInv s' := (Aux.fsiter P s ds hS).2.2.2 s' ds' h

example : ∃ st, fbdIter { nTips := some 3, maxTime := none, b := 2, d := 1 } fInit [.w 4, .rint 0, .u 1 8] = .ok st :=
  fbd_iter_progress _ _ 4 0 1 8 [] fbd_init_sinv (by decide) (by decide) (by decide) (by decide) (by decide)

/-- the events of a script stay within the period: each waiting time (in time units) fits into what remains -/
def Within (u : Int) : Option Int → List (Int × Nat × Nat) → Prop
  | none, _ => True
  | some _, [] => True
  | some r, e :: es => e.1 * u ≤ r ∧ Within u (some (r - e.1 * u)) es

/-- `time_remaining` after the events of a script -/
def remAfter (u : Int) : Option Int → List (Int × Nat × Nat) → Option Int
  | rem, [] => rem
  | rem, e :: es => remAfter u (rem.map (· - e.1 * u)) es

namespace Aux
theorem coalLoop_events (pop : Nat) (tail : List Draw) : ∀ (ev : List (Int × Nat × Nat)) (nodes : List GT) (f : Nat) (rem : Option Int),
    ev.length + 1 ≤ nodes.length → ev.length ≤ f → ValidCoal nodes.length ev → Within (timeUnits pop) rem ev →
    ∃ nodes', nodes'.length + ev.length = nodes.length ∧
      coalLoop pop f nodes rem (coalScript ev ++ tail) = coalLoop pop (f - ev.length) nodes' (remAfter (timeUnits pop) rem ev) tail := by
  intro ev
  induction ev with
  | nil => intro nodes f rem _ _ _ _; exact ⟨nodes, by simp, by simp [coalScript, remAfter]⟩
  | cons e ev ih =>
    intro nodes f rem hl hf hv hwi
    obtain ⟨w, i, j⟩ := e
    obtain ⟨hw, hij, hi, hj, hrest⟩ := hv
    simp only at hw hij hi hj
    cases f with
    | zero => simp at hf
    | succ f =>
      have hlen : ¬ nodes.length ≤ 1 := by simp at hl; omega
      have hi' : i < (nodes.map (GT.addLen (w * timeUnits pop))).length := by simpa using hi
      have hj' : j < (nodes.map (GT.addLen (w * timeUnits pop))).length := by simpa using hj
      have hev : ∃ nodes1, coalEvent (w * timeUnits pop) nodes (.samp i j :: (coalScript ev ++ tail)) = .ok (nodes1, coalScript ev ++ tail) := by
        unfold coalEvent
        simp only [List.getElem?_eq_getElem hi', List.getElem?_eq_getElem hj']
        have : (i == j) = false := by simpa using hij
        simp [this]
      obtain ⟨nodes1, hev⟩ := hev
      have hl1 := coalEvent_length _ _ _ _ _ hev
      have hwp : withinPeriod rem (w * timeUnits pop) = true := by
        cases rem with
        | none => rfl
        | some r => simp only [Within] at hwi; simp [withinPeriod, hwi.1]
      have hwi' : Within (timeUnits pop) (rem.map (· - w * timeUnits pop)) ev := by
        cases rem with
        | none => simp [Within]
        | some r => simp only [Within] at hwi; simpa using hwi.2
      obtain ⟨nodes', h1, h2⟩ := ih nodes1 f (rem.map (· - w * timeUnits pop)) (by simp at hl; omega) (by simp at hf; omega)
        (by have : nodes1.length = nodes.length - 1 := by omega
            rw [this]; exact hrest) hwi'
      refine ⟨nodes', by simp; omega, ?_⟩
      have hw' : ¬ w < 0 := by omega
      simp only [coalScript, List.flatMap_cons, List.cons_append, List.nil_append, coalLoop, hlen, if_false, hw', hwp, if_true]
      simp only [coalScript] at hev h2
      rw [hev]
      simp only [remAfter, List.length_cons, Nat.add_sub_add_right]
      exact h2
end Aux

/-- **`coalesce_nodes` succeeds when the script lets every lineage coalesce**: `len(nodes) − 1` valid events, each within what
remains of the period (no condition without a period), leave exactly one lineage and the rest of the draws untouched -/
theorem coalesce_succeeds_all (pop : Nat) (nodes : List GT) (period : Option Int) (ev : List (Int × Nat × Nat)) (tail : List Draw)
    (hl : ev.length + 1 = nodes.length) (hv : ValidCoal nodes.length ev) (hw : Within (timeUnits pop) period ev) :
    ∃ out, coalesce pop nodes period (coalScript ev ++ tail) = .ok (out, tail) ∧ out.length = 1 := by
  obtain ⟨nodes', h1, h2⟩ := Aux.coalLoop_events pop tail ev nodes nodes.length period (by omega) (by omega) hv hw
  have hne : nodes.isEmpty = false := by cases nodes <;> simp at hl ⊢
  have hlen1 : nodes'.length = 1 := by omega
  have hfin : coalLoop pop (nodes.length - ev.length) nodes' (remAfter (timeUnits pop) period ev) tail
      = .ok (nodes', remAfter (timeUnits pop) period ev, tail) := by
    cases hf : nodes.length - ev.length with
    | zero => simp [coalLoop, hlen1]
    | succ k => simp [coalLoop, hlen1]
  unfold coalesce
  simp only [hne, Bool.false_eq_true, if_false, h2, hfin]
  split
  · split
    · exact ⟨_, rfl, by simpa using hlen1⟩
    · exact ⟨_, rfl, hlen1⟩
  · exact ⟨_, rfl, hlen1⟩

/-- **`coalesce_nodes` succeeds when the period cuts the script**: some valid events within the period, then a waiting time that
overshoots what remains: the uncoalesced lineages (`len(nodes) −` number of events) are handed up, the rest of the draws untouched -/
theorem coalesce_succeeds_cut (pop : Nat) (nodes : List GT) (L : Int) (ev : List (Int × Nat × Nat)) (w' : Int) (tail : List Draw)
    (hl : ev.length + 1 < nodes.length) (hv : ValidCoal nodes.length ev) (hw : Within (timeUnits pop) (some L) ev) (hw' : 0 ≤ w')
    (hover : ∀ r, remAfter (timeUnits pop) (some L) ev = some r → r < w' * timeUnits pop) :
    ∃ out, coalesce pop nodes (some L) (coalScript ev ++ .w w' :: tail) = .ok (out, tail) ∧ out.length + ev.length = nodes.length := by
  obtain ⟨nodes', h1, h2⟩ := Aux.coalLoop_events pop (.w w' :: tail) ev nodes nodes.length (some L) (by omega) (by omega) hv hw
  have hne : nodes.isEmpty = false := by cases nodes <;> simp at hl ⊢
  have hrem : ∃ r, remAfter (timeUnits pop) (some L) ev = some r := by
    have : ∀ (es : List (Int × Nat × Nat)) (r : Int), ∃ r', remAfter (timeUnits pop) (some r) es = some r' := by
      intro es
      induction es with
      | nil => intro r; exact ⟨r, rfl⟩
      | cons e es ih => intro r; simpa [remAfter] using ih (r - e.1 * timeUnits pop)
    exact this ev L
  obtain ⟨r, hr⟩ := hrem
  have hov := hover r hr
  have hfin : coalLoop pop (nodes.length - ev.length) nodes' (some r) (.w w' :: tail) = .ok (nodes', some r, tail) := by
    have hk : nodes.length - ev.length = (nodes.length - ev.length - 1) + 1 := by omega
    rw [hk]
    have h2' : ¬ nodes'.length ≤ 1 := by omega
    have h3 : ¬ w' < 0 := by omega
    have h4 : withinPeriod (some r) (w' * timeUnits pop) = false := by simp [withinPeriod]; omega
    simp [coalLoop, h2', h3, h4]
  unfold coalesce
  rw [hr] at h2
  simp only [hne, Bool.false_eq_true, if_false, h2, hfin]
  split
  · exact ⟨_, rfl, by simp; omega⟩
  · exact ⟨_, rfl, by omega⟩

/-- non-vacuity: three lineages, period 10 in a population of 2: one event at 2·2 = 4 ≤ 10, then a waiting time 4·2 = 8 > 6 -/
example : (coalesce 2 [.leaf 0 1 0, .leaf 0 2 0, .leaf 0 3 0] (some 10) (coalScript [(2, 0, 2)] ++ [.w 4, .w 99])).toOption.map
    (fun r => (r.1.length, r.2)) = some (2, [.w 99]) := by decide


/-! ### last round: the contained coalescent succeeds on well-formed trees and scripts -/


/-- a draw script shaped like the containing tree: for the edge above each node the coalescence events that happen inside it and,
if the period cuts the process short, the waiting time that overshoots it (`stop`) -/
inductive SScr where
  | node (ev : List (Int × Nat × Nat)) (stop : Option Int) (kids : List SScr)

mutual
/-- the draws in the order the contained coalescent consumes them: the children's edges first, then the node's own edge -/
def SScr.flat : SScr → List Draw
  | .node ev stop kids => SScr.flatL kids ++ (coalScript ev ++ (match stop with | some w => [.w w] | none => []))
def SScr.flatL : List SScr → List Draw
  | [] => []
  | k :: ks => SScr.flat k ++ SScr.flatL ks
end

mutual
/-- number of lineages the edge above a node hands up under a script -/
def outN : ST → SScr → Nat
  | .node _ _ _ genes cs, .node ev _ kids => (genes.length + outNL cs kids) - ev.length
def outNL : List ST → List SScr → Nat
  | [], _ => 0
  | c :: cs, ks => (match ks with | k :: _ => outN c k | [] => 0) + outNL cs ks.tail
end

mutual
/-- the script is well formed for the (non-root) edge above a node: the children's scripts are, the events are valid for the pool
that gathers at the node (own genes + what the children hand up) and stay within the edge's period, and either every lineage
coalesces (`stop = none`) or a final waiting time overshoots what remains of the period -/
def OKEdge : ST → SScr → Prop
  | .node _ len pop genes cs, .node ev stop kids =>
    OKKids cs kids ∧ ValidCoal (genes.length + outNL cs kids) ev ∧ Within (timeUnits pop) len ev ∧
    (match stop with
     | none => ev.length + 1 = genes.length + outNL cs kids
     | some w' => ∃ L, len = some L ∧ ev.length + 1 < genes.length + outNL cs kids ∧ 0 ≤ w' ∧
                    ∀ r, remAfter (timeUnits pop) (some L) ev = some r → r < w' * timeUnits pop)
def OKKids : List ST → List SScr → Prop
  | [], ks => ks = []
  | c :: cs, ks => (match ks with | k :: _ => OKEdge c k | [] => False) ∧ OKKids cs ks.tail
end

/-- well formed for the whole containing tree: at the root everything that arrives coalesces, without a period -/
def OKRoot : ST → SScr → Prop
  | .node _ _ _ genes cs, .node ev stop kids =>
    OKKids cs kids ∧ ValidCoal (genes.length + outNL cs kids) ev ∧ stop = none ∧ ev.length + 1 = genes.length + outNL cs kids

namespace Aux
mutual
theorem edge_succeeds : ∀ (S : ST) (k : SScr) (tail : List Draw), OKEdge S k →
    ∃ out, containedEdge S (k.flat ++ tail) = .ok (out, tail) ∧ out.length = outN S k
  | .node i len pop genes cs, .node ev stop kids, tail, h => by
    simp only [OKEdge] at h
    obtain ⟨hk, hv, hw, hs⟩ := h
    cases stop with
    | none =>
      simp only at hs
      obtain ⟨inc, e1, e2⟩ := kids_succeeds cs kids (coalScript ev ++ [] ++ tail) hk
      simp only [containedEdge, SScr.flat, List.append_assoc, List.nil_append] at e1 ⊢
      rw [e1]
      simp only
      have hlen : (genes.map (fun g => GT.leaf g.1 g.2 0) ++ inc).length = genes.length + outNL cs kids := by simp [e2]
      obtain ⟨out, o1, o2⟩ := coalesce_succeeds_all pop _ len ev tail (by rw [hlen]; exact hs) (by rw [hlen]; exact hv) hw
      refine ⟨out, o1, ?_⟩
      simp only [outN]; omega
    | some w' =>
      simp only at hs
      obtain ⟨L, rfl, h1, h2, h3⟩ := hs
      obtain ⟨inc, e1, e2⟩ := kids_succeeds cs kids (coalScript ev ++ [Draw.w w'] ++ tail) hk
      simp only [containedEdge, SScr.flat, List.append_assoc, List.cons_append, List.nil_append] at e1 ⊢
      rw [e1]
      simp only
      have hlen : (genes.map (fun g => GT.leaf g.1 g.2 0) ++ inc).length = genes.length + outNL cs kids := by simp [e2]
      obtain ⟨out, o1, o2⟩ := coalesce_succeeds_cut pop _ L ev w' tail (by rw [hlen]; exact h1) (by rw [hlen]; exact hv) hw h2 h3
      refine ⟨out, o1, ?_⟩
      simp only [outN]; omega
theorem kids_succeeds : ∀ (cs : List ST) (ks : List SScr) (tail : List Draw), OKKids cs ks →
    ∃ out, containedKids cs (SScr.flatL ks ++ tail) = .ok (out, tail) ∧ out.length = outNL cs ks
  | [], ks, tail, h => by
    simp only [OKKids] at h
    subst h
    exact ⟨[], by simp [containedKids, SScr.flatL], by simp [outNL]⟩
  | c :: cs, ks, tail, h => by
    simp only [OKKids] at h
    cases ks with
    | nil => simp at h
    | cons k ks' =>
      simp only [List.tail_cons] at h
      obtain ⟨hc, hr⟩ := h
      obtain ⟨up, u1, u2⟩ := edge_succeeds c k (SScr.flatL ks' ++ tail) hc
      obtain ⟨ups, v1, v2⟩ := kids_succeeds cs ks' tail hr
      refine ⟨up ++ ups, ?_, by simp [outNL, u2, v2]⟩
      simp only [containedKids, SScr.flatL, List.append_assoc]
      rw [u1]
      simp only
      rw [v1]
end
end Aux

/-- **the contained coalescent succeeds on every well-formed containing tree and script**: if the script is well formed for the
containing tree (`OKRoot`: in every branch valid coalescence events within the branch's period, followed — unless all lineages
have coalesced — by a waiting time that overshoots it; at the root everything coalesces), `contained` returns a gene tree.
With `contained_no_early_join` and `contained_leaves` that tree respects the divergences and carries every sampled gene once. -/
theorem contained_succeeds (S : ST) (k : SScr) (h : OKRoot S k) : ∃ g, contained S k.flat = .ok g := by
  match S, k, h with
  | .node i len pop genes cs, .node ev stop kids, h =>
    simp only [OKRoot] at h
    obtain ⟨hk, hv, rfl, hs⟩ := h
    obtain ⟨inc, e1, e2⟩ := Aux.kids_succeeds cs kids (coalScript ev ++ []) hk
    have hlen : (genes.map (fun g => GT.leaf g.1 g.2 0) ++ inc).length = genes.length + outNL cs kids := by simp [e2]
    obtain ⟨out, o1, o2⟩ := coalesce_succeeds_all pop _ none ev [] (by rw [hlen]; exact hs) (by rw [hlen]; exact hv) (by simp [Within])
    simp only [contained, SScr.flat, List.append_nil] at e1 ⊢
    rw [e1]
    simp only
    simp only [List.append_nil] at o1
    rw [o1]
    match out, o2 with
    | [t], _ => exact ⟨t, rfl⟩

/-- non-vacuity: the two-population tree of `exampleST`; the two genes of population 2 coalesce inside their branch
(2·1 ≤ 6, nothing left to overshoot), the single gene of population 1 needs no draw, the root joins the two survivors -/
def exampleScr : SScr := .node [(3, 0, 1)] none [.node [] none [], .node [(1, 0, 1)] none []]

example : OKRoot exampleST exampleScr := by
  simp [OKRoot, OKKids, OKEdge, exampleST, exampleScr, outNL, outN, ValidCoal, Within, timeUnits]
example : exampleScr.flat = [.w 1, .samp 0 1, .w 3, .samp 0 1] := by decide

/-- a script in which the period cuts a branch short: population 2's two genes do not coalesce within 6 (waiting time 4·2 = 8),
so three lineages meet at the root and two events join them -/
def exampleScrCut : SScr := .node [(1, 0, 1), (2, 0, 1)] none [.node [] none [], .node [] (some 4) []]

example : OKRoot exampleST exampleScrCut := by
  simp [OKRoot, OKKids, OKEdge, exampleST, exampleScrCut, outNL, outN, ValidCoal, Within, timeUnits, remAfter]
example : (contained exampleST exampleScrCut.flat).toOption.map (fun g => g.leaves) = some [(2, 2), (1, 1), (2, 1)] := by decide


/-! ### last round: evolving rates below zero — the `state` failure is the code's ZeroDivisionError -/
open BT


/-- the lookup invariant of `birth_death_tree` WITHOUT any assumption on the rates (they may have evolved below zero): distinct
fresh ids on the entries of `extant_tips`, each naming an alive tip -/
structure LInv (P : BDParams) (s : BDState) : Prop where
  nodup : (s.extant.map Tip.id).Nodup
  fresh : ∀ t ∈ s.extant, t.id < s.next
  alive : ∀ t ∈ s.extant, s.tree.hasAlive t.id = true
  ne : s.extant ≠ []
  nextLB : P.start.maxId < s.next

theorem SInv.toLInv {P : BDParams} {s : BDState} (h : SInv P s) : LInv P s :=
  ⟨h.nodup, h.fresh, h.alive, h.ne, h.nextLB⟩

/-- `Reach P s ds s' ds'`: the loop gets from state `s` with draws `ds` to state `s'` with draws `ds'` by continued passes -/
inductive Reach (P : BDParams) : BDState → List Draw → BDState → List Draw → Prop
  | refl (s : BDState) (ds : List Draw) : Reach P s ds s ds
  | step (s s1 s2 : BDState) (ds ds1 ds2 : List Draw) : bdIter P s ds = .ok (.cont s1 ds1) → Reach P s1 ds1 s2 ds2 → Reach P s ds s2 ds2

namespace Aux
theorem lbirth (P : BDParams) (s : BDState) (nd : Tip) (ds : List Draw) (hS : LInv P s) (hnd : nd ∈ s.extant) :
    bdBirth s nd (removeTip nd.id s.extant) ds ≠ .error .state ∧
    ∀ s' ds', bdBirth s nd (removeTip nd.id s.extant) ds = .ok (.cont s' ds') → LInv P s' := by
  obtain ⟨t, ht⟩ := splitFirst_some nd.id s.next (s.next + 1) 0 s.tree (hS.alive nd hnd)
  obtain ⟨a1, a2, a3⟩ := splitFirst_hasAlive _ _ _ _ _ _ ht
  have hsub := removeTip_sublist nd.id s.extant
  unfold bdBirth
  split
  · rw [ht]
    refine ⟨by simp, ?_⟩
    intro s' ds' h
    simp at h
    obtain ⟨rfl, rfl⟩ := h
    refine ⟨?_, ?_, ?_, by simp, by have := hS.nextLB; show P.start.maxId < s.next + 2; omega⟩
    · simp only [List.map_append, List.map_cons, List.map_nil]
      rw [List.nodup_append]
      refine ⟨(hS.nodup.sublist (hsub.map Tip.id)), by simp, ?_⟩
      intro x hx y hy
      simp only [List.mem_map] at hx
      obtain ⟨t0, ht0, rfl⟩ := hx
      have := hS.fresh t0 (hsub.subset ht0)
      simp at hy
      omega
    · intro t0 ht0
      simp only [List.mem_append, List.mem_cons, List.mem_nil_iff, or_false] at ht0
      rcases ht0 with h | rfl | rfl
      · have := hS.fresh t0 (hsub.subset h); show t0.id < s.next + 2; omega
      · simp
      · simp
    · intro t0 ht0
      simp only [List.mem_append, List.mem_cons, List.mem_nil_iff, or_false] at ht0
      rcases ht0 with h | rfl | rfl
      · exact a1 t0.id (removeTip_ne nd.id s.extant hS.nodup t0 h) (hS.alive t0 (hsub.subset h))
      · exact a2
      · exact a3
  · refine ⟨by split <;> simp, ?_⟩
    intro s' ds' h
    simp at h

theorem linit_at (P : BDParams) (hG : GoodStart P) (nx : Nat) (h : P.start.maxId < nx) : LInv P { bdInit P with next := nx } :=
  (init_sinv_at P hG nx h).toLInv

theorem ldeath (P : BDParams) (hG : GoodStart P) (s : BDState) (nd : Tip) (ds : List Draw) (hS : LInv P s) (hnd : nd ∈ s.extant) :
    bdDeath P s nd (removeTip nd.id s.extant) ds ≠ .error .state ∧
    ∀ s' ds', bdDeath P s nd (removeTip nd.id s.extant) ds = .ok (.cont s' ds') → LInv P s' := by
  obtain ⟨t, ht⟩ := killFirst_some nd.id s.tree (hS.alive nd hnd)
  have a1 := killFirst_hasAlive _ _ _ ht
  have hsub := removeTip_sublist nd.id s.extant
  unfold bdDeath
  split
  · refine ⟨by simp, ?_⟩
    intro s' ds' h
    simp at h
    obtain ⟨rfl, rfl⟩ := h
    exact linit_at P hG s.next hS.nextLB
  · rename_i hne
    rw [ht]
    refine ⟨by simp, ?_⟩
    intro s' ds' h
    simp at h
    obtain ⟨rfl, rfl⟩ := h
    refine ⟨hS.nodup.sublist (hsub.map Tip.id), fun t0 h0 => hS.fresh t0 (hsub.subset h0), ?_, ?_, hS.nextLB⟩
    · intro t0 h0
      exact a1 t0.id (removeTip_ne nd.id s.extant hS.nodup t0 h0) (hS.alive t0 (hsub.subset h0))
    · intro he; simp at he; simp [he] at hne

/-- the event step under arbitrary rates: the only internal failure is the choice itself, exactly when the rates sum to zero -/
theorem levent (P : BDParams) (hG : GoodStart P) (s : BDState) (ds : List Draw) (hS : LInv P s) :
    (bdEvent P s ds = .error .state → (rates s.extant).sum = 0) ∧
    ∀ s' ds', bdEvent P s ds = .ok (.cont s' ds') → LInv P s' := by
  unfold bdEvent
  split
  · rename_i hz
    exact ⟨fun _ => by simpa using hz, by simp⟩
  split
  · exact ⟨by simp, by simp⟩
  · rename_i p q ds2
    split
    · exact ⟨by simp, by simp⟩
    · rename_i hpq
      simp at hpq
      split
      · rename_i hnone
        exact ⟨fun _ => (wicN_none_iff p q _ (by omega) (by omega)).mp hnone, by simp⟩
      · rename_i k hk
        have hsum : (rates s.extant).sum ≠ 0 := by
          intro h0
          have := (wicN_none_iff p q (rates s.extant) (by omega) (by omega)).mpr h0
          rw [this] at hk; simp at hk
        -- the chosen index is in range: `wicN` is `wic` on the rates or on their negation
        have hklt : k < 2 * s.extant.length := by
          unfold wicN at hk
          rw [if_neg hsum] at hk
          split at hk
          · rename_i hpos
            have := wic_lt_length p q _ k (by omega) (by omega) hk
            rwa [rates_length] at this
          · rename_i hnpos
            have hneg : 0 ≤ ((rates s.extant).map (fun w => -w)).sum := by
              have : ∀ (l : List Int), (l.map (fun w => -w)).sum = - l.sum := by
                intro l
                induction l with
                | nil => simp
                | cons a l ih => simp [ih]; omega
              rw [this]; omega
            have := wic_lt_length p q _ k (by omega) hneg hk
            simpa [rates_length] using this
        have hidx : k / 2 < s.extant.length := by omega
        rw [List.getElem?_eq_getElem hidx]
        simp only
        have hnd : s.extant[k / 2] ∈ s.extant := List.getElem_mem hidx
        split
        · obtain ⟨h1, h2⟩ := lbirth P s _ ds2 hS hnd
          exact ⟨fun h => absurd h h1, h2⟩
        · obtain ⟨h1, h2⟩ := ldeath P hG s _ ds2 hS hnd
          exact ⟨fun h => absurd h h1, h2⟩
  · exact ⟨by simp, by simp⟩

theorem liter (P : BDParams) (hG : GoodStart P) (s : BDState) (ds : List Draw) (hS : LInv P s) :
    (bdIter P s ds = .error .state → (rates s.extant).sum = 0) ∧
    ∀ s' ds', bdIter P s ds = .ok (.cont s' ds') → LInv P s' := by
  unfold bdIter
  split
  · exact ⟨by simp, by simp⟩
  · split
    · exact ⟨by simp, by simp⟩
    · rename_i w ds1
      split
      · exact ⟨by simp, by simp⟩
      · simp only
        have hS1 : LInv P { s with tree := s.tree.addAlive w, total := s.total + w } :=
          ⟨hS.nodup, hS.fresh, fun t ht => by simp [hasAlive_addAlive, hS.alive t ht], hS.ne, hS.nextLB⟩
        split
        · exact levent P hG _ ds1 hS1
        · refine ⟨by simp, ?_⟩
          intro s' ds' h
          simp at h
          obtain ⟨rfl, _⟩ := h
          exact hS1
    · exact ⟨by simp, by simp⟩
end Aux

/-- **the `state` failure under evolving rates, one pass**: whatever the rates have become (negative ones included), every lookup
of a pass through `birth_death_tree` succeeds; the pass fails internally only in the event choice and only when the rates of the
extant lineages sum to zero — where the code raises `ZeroDivisionError` (`event_rates[i] / rate_of_any_event`) -/
theorem bd_iter_state_error (P : BDParams) (hG : GoodStart P) (s : BDState) (ds : List Draw) (hS : LInv P s)
    (h : bdIter P s ds = .error .state) : (rates s.extant).sum = 0 := (Aux.liter P hG s ds hS).1 h

/-- and conversely: with rates summing to zero, an event that is attempted (`w ≥ 0`, event allowed by `max_time`, a uniform draw
`0 ≤ p/q < 1`) fails -/
theorem bd_iter_zero_sum_fails (P : BDParams) (s : BDState) (w p q : Int) (rest : List Draw) (h0 : (rates s.extant).sum = 0)
    (hstop : (bdStop P s.extant.length s.total || xStop P s.extant.length s.extinct.length) = false) (hw : 0 ≤ w)
    (hev : eventAllowed P (s.total + w) = true) (hp : 0 ≤ p) (hpq : p < q) :
    bdIter P s (.w w :: .u p q :: rest) = .error .state := by
  unfold bdIter
  rw [hstop]
  simp only [Bool.false_eq_true, if_false]
  rw [if_neg (by omega)]
  simp only [hev, if_true]
  unfold bdEvent
  simp [h0]

/-- **the `state` failure under evolving rates, whole loop**: if the loop of `birth_death_tree` fails internally (gauss draws of
either sign, any rates), it has reached a state in which the rates of the extant lineages sum to zero: the model's `state` is
exactly the code's `ZeroDivisionError`.  (Fuel is excluded by `bd_fuel_suffices`.) -/
theorem bd_state_error_iff_zero_rate_sum (P : BDParams) (hG : GoodStart P) : ∀ (f : Nat) (s : BDState) (ds : List Draw), LInv P s →
    bdLoop P f s ds = .error .state → ∃ s' ds', Reach P s ds s' ds' ∧ LInv P s' ∧ (rates s'.extant).sum = 0 := by
  intro f
  induction f with
  | zero => intro s ds _ h; simp [bdLoop] at h
  | succ f ih =>
    intro s ds hS h
    obtain ⟨h1, h2⟩ := Aux.liter P hG s ds hS
    simp only [bdLoop] at h
    split at h
    · rename_i e he
      simp at h; subst h
      exact ⟨s, ds, Reach.refl s ds, hS, h1 he⟩
    · simp at h
    · rename_i s1 ds1 hit
      obtain ⟨s', ds', r, l, z⟩ := ih s1 ds1 (h2 s1 ds1 hit) h
      exact ⟨s', ds', Reach.step s s1 s' ds ds1 ds' hit r, l, z⟩

/-- non-vacuity: death rate 1, birth rate 2; the first birth gives both daughters birth-rate mutation −3 and death-rate mutation 0
(rates −1, 1, −1, 1: sum 0); the next event attempt is the code's ZeroDivisionError -/
example : (match bdRun { nTips := some 3, maxTime := none, b := 2, d := 1 } 0
    [.w 1, .u 1 8, .g (-3), .g 0, .g (-3), .g 0, .w 1, .u 1 2] with | .error e => some e | .ok _ => none) = some Err.state := by decide

/-- and rates gone negative with a non-zero sum do not fail: daughters with rates (−1, 2), (−1, 2), sum 2; both die (a negative
birth rate is never chosen while the sum is positive), the process restarts and grows to three tips -/
example : (match bdRun { nTips := some 3, maxTime := none, b := 2, d := 1 } 0
    [.w 1, .u 1 8, .g (-3), .g 1, .g (-3), .g 1, .w 1, .u 1 8, .w 1, .u 1 8,
     .w 1, .u 1 8, .g 0, .g 0, .g 0, .g 0, .w 1, .u 1 8, .g 0, .g 0, .g 0, .g 0, .perm [], .perm [0, 1, 2]] with
    | .error _ => false | .ok r => r.tree.nLeaves == 3) = true := by decide



/-- **errors of a `birth_death_tree` run under arbitrary rate evolution** (gauss draws of either sign; this is
`bd_only_script_errors` without its `GaussNonneg` hypothesis): the run fails on its draw script, or — the single internal
failure — it has reached a state whose rates sum to zero, where the code raises `ZeroDivisionError` -/
theorem bd_errors_any_rates (P : BDParams) (hG : GoodStart P) (n0 : Nat) (ds : List Draw) (e : Err) (h : bdRun P n0 ds = .error e) :
    e = .draws ∨ e = .kind ∨
    (e = .state ∧ ∃ s' ds', Reach P (bdInit P) ds s' ds' ∧ LInv P s' ∧ (rates s'.extant).sum = 0) := by
  have hfuel := bd_fuel_suffices P hG (ds.length + 1) (bdInit P) ds (bd_init_inv P hG) (by omega)
  unfold bdRun at h
  split at h
  · rename_i e' he
    simp at h; subst h
    cases e' with
    | draws => simp
    | kind => simp
    | fuel => exact absurd he hfuel
    | arg => exact absurd he (Aux.loop_not_arg P _ _ _)
    | state =>
      exact Or.inr (Or.inr ⟨rfl, bd_state_error_iff_zero_rate_sum P hG _ _ _ (bd_init_sinv P hG).toLInv he⟩)
  · rename_i s rest hl
    obtain ⟨hI, _⟩ := bd_loop_inv P hG _ _ _ _ _ (bd_init_inv P hG) hl
    have h1 : 1 ≤ s.tree.aliveCount := by rw [← hI.count]; exact hI.pos
    split at h
    · rcases Aux.finishRetain_errors n0 s.tree rest e h with h | h
      · exact Or.inl h
      · exact Or.inr (Or.inl h)
    · rcases Aux.finish_errors n0 s.tree rest e h1 h with h | h
      · exact Or.inl h
      · exact Or.inr (Or.inl h)


/-! ## extension round 3: generator threading, rate traces, `mean_kingman_tree`, kernels regenerated from the source -/

/-! ### reproducibility as a theorem of the scripted-generator model: a run reads a prefix of the generator's stream -/

/-- the draws a pass leaves for the rest of the run -/
def Step.rest {σ : Type} : Step σ → List Draw
  | .done _ r => r
  | .cont _ r => r

def Step.setRest {σ : Type} (tl : List Draw) : Step σ → Step σ
  | .done s _ => .done s tl
  | .cont s _ => .cont s tl

namespace Aux

theorem bdBirth_stream (s : BDState) (nd : Tip) (rest : List Tip) (ds : List Draw) (st : Step BDState)
    (h : bdBirth s nd rest ds = .ok st) :
    ∃ pre, ds = pre ++ st.rest ∧ ∀ tl, bdBirth s nd rest (pre ++ tl) = .ok (st.setRest tl) := by
  unfold bdBirth at h
  split at h
  · rename_i g1 g2 g3 g4 ds'
    split at h
    · simp at h
    · rename_i t ht
      simp at h
      subst h
      refine ⟨[.g g1, .g g2, .g g3, .g g4], by simp [Step.rest], ?_⟩
      intro tl
      simp [bdBirth, ht, Step.setRest]
  · simp at h

theorem bdDeath_stream (P : BDParams) (s : BDState) (nd : Tip) (rest : List Tip) (ds : List Draw) (st : Step BDState)
    (h : bdDeath P s nd rest ds = .ok st) :
    ds = st.rest ∧ ∀ tl, bdDeath P s nd rest tl = .ok (st.setRest tl) := by
  unfold bdDeath at h
  split at h
  · rename_i he
    simp at h; subst h
    refine ⟨rfl, ?_⟩
    intro tl; simp [bdDeath, he, Step.setRest]
  · rename_i he
    split at h
    · simp at h
    · rename_i t ht
      simp at h; subst h
      refine ⟨rfl, ?_⟩
      intro tl; simp [bdDeath, he, ht, Step.setRest]

theorem bdEvent_stream (P : BDParams) (s : BDState) (ds : List Draw) (st : Step BDState)
    (h : bdEvent P s ds = .ok st) :
    ∃ pre, ds = pre ++ st.rest ∧ ∀ tl, bdEvent P s (pre ++ tl) = .ok (st.setRest tl) := by
  unfold bdEvent at h
  split at h
  · simp at h
  · rename_i hsum
    split at h
    · simp at h
    · rename_i p q ds'
      split at h
      · simp at h
      · rename_i hpq
        split at h
        · simp at h
        · rename_i k hk
          split at h
          · simp at h
          · rename_i nd hnd
            split at h
            · rename_i hk2
              obtain ⟨pre, hp, hall⟩ := bdBirth_stream _ _ _ _ _ h
              refine ⟨.u p q :: pre, by simp [hp], ?_⟩
              intro tl
              simp only [List.cons_append, bdEvent, hsum, hpq, hk, hnd, hk2, if_true, if_false, hall tl]
              simp
            · rename_i hk2
              obtain ⟨hp, hall⟩ := bdDeath_stream _ _ _ _ _ _ h
              refine ⟨[.u p q], by simp [hp], ?_⟩
              intro tl
              simp only [List.cons_append, List.nil_append, bdEvent, hsum, hpq, hk, hnd, hk2, if_true, if_false, hall tl]
              simp
    · simp at h


theorem bdIter_stream (P : BDParams) (s : BDState) (ds : List Draw) (st : Step BDState)
    (h : bdIter P s ds = .ok st) :
    ∃ pre, ds = pre ++ st.rest ∧ ∀ tl, bdIter P s (pre ++ tl) = .ok (st.setRest tl) := by
  unfold bdIter at h
  split at h
  · rename_i hstop
    simp at h; subst h
    refine ⟨[], by simp [Step.rest], ?_⟩
    intro tl; simp [bdIter, hstop, Step.setRest]
  · rename_i hstop
    split at h
    · simp at h
    · rename_i w ds'
      split at h
      · simp at h
      · rename_i hw
        simp only at h
        split at h
        · rename_i hal
          obtain ⟨pre, hp, hall⟩ := bdEvent_stream _ _ _ _ h
          refine ⟨.w w :: pre, by simp [hp], ?_⟩
          intro tl
          simp only [List.cons_append, bdIter, hstop, hw, hal, hall tl]
          simp
        · rename_i hal
          simp at h; subst h
          refine ⟨[.w w], by simp [Step.rest], ?_⟩
          intro tl
          simp [bdIter, hstop, hw, hal, Step.setRest]
    · simp at h

theorem bdLoop_stream (P : BDParams) : ∀ (f : Nat) (s s' : BDState) (ds ds' : List Draw), bdLoop P f s ds = .ok (s', ds') →
    ∃ pre, ds = pre ++ ds' ∧ ∀ tl f', f ≤ f' → bdLoop P f' s (pre ++ tl) = .ok (s', tl) := by
  intro f
  induction f with
  | zero => intro s s' ds ds' h; simp [bdLoop] at h
  | succ f ih =>
    intro s s' ds ds' h
    unfold bdLoop at h
    split at h
    · simp at h
    · rename_i s1 ds1 hit
      simp at h
      obtain ⟨rfl, rfl⟩ := h
      obtain ⟨pre, hp, hall⟩ := bdIter_stream _ _ _ _ hit
      refine ⟨pre, by simpa [Step.rest] using hp, ?_⟩
      intro tl f' hf
      obtain ⟨f'', rfl⟩ : ∃ f'', f' = f'' + 1 := ⟨f' - 1, by omega⟩
      unfold bdLoop
      simp [hall tl, Step.setRest]
    · rename_i s1 ds1 hit
      obtain ⟨pre1, hp1, hall1⟩ := bdIter_stream _ _ _ _ hit
      obtain ⟨pre2, hp2, hall2⟩ := ih _ _ _ _ h
      simp only [Step.rest] at hp1
      refine ⟨pre1 ++ pre2, by rw [hp1, hp2, List.append_assoc], ?_⟩
      intro tl f' hf
      obtain ⟨f'', rfl⟩ : ∃ f'', f' = f'' + 1 := ⟨f' - 1, by omega⟩
      unfold bdLoop
      rw [List.append_assoc, hall1 (pre2 ++ tl)]
      simp only [Step.setRest]
      exact hall2 tl f'' (by omega)

end Aux

/-- **generator threading of `birth_death_tree`** (clause d in the model): whenever the event loop ends, it has read a prefix `used` of
the generator's stream and left exactly the rest — monotone consumption, no draw from anywhere else — and its outcome is a function
of `used` alone: with ANY other future of the stream (and any larger fuel) the loop ends in the same state, leaving that future
untouched for the caller.  Two runs from equal generator states therefore agree in the tree and in the state they leave behind. -/
theorem bd_stream_independent (P : BDParams) (f : Nat) (s s' : BDState) (ds rest : List Draw) (h : bdLoop P f s ds = .ok (s', rest)) :
    ∃ used, ds = used ++ rest ∧ ∀ future f', f ≤ f' → bdLoop P f' s (used ++ future) = .ok (s', future) :=
  Aux.bdLoop_stream P f s s' ds rest h

namespace Aux

theorem fbdEvent_stream (P : BDParams) (s : FState) (ds : List Draw) (st : Step FState)
    (h : fbdEvent P s ds = .ok st) :
    ∃ pre, ds = pre ++ st.rest ∧ ∀ tl, fbdEvent P s (pre ++ tl) = .ok (st.setRest tl) := by
  unfold fbdEvent at h
  split at h
  · rename_i ti p q ds'
    refine ⟨[.rint ti, .u p q], ?_⟩
    split at h
    · simp at h
    · rename_i hpq
      split at h
      · simp at h
      · rename_i hti
        split at h
        · simp at h
        · rename_i nd hnd
          split at h
          · rename_i hb
            split at h
            · simp at h
            · rename_i t ht
              simp at h; subst h
              exact ⟨by simp [Step.rest], fun tl => by simp [fbdEvent, hpq, hti, hnd, hb, ht, Step.setRest]⟩
          · rename_i hb
            split at h
            · rename_i he
              simp at h; subst h
              exact ⟨by simp [Step.rest], fun tl => by simp [fbdEvent, hpq, hti, hnd, hb, he, Step.setRest]⟩
            · rename_i he
              split at h
              · simp at h
              · rename_i t ht
                simp at h; subst h
                exact ⟨by simp [Step.rest], fun tl => by simp [fbdEvent, hpq, hti, hnd, hb, he, ht, Step.setRest]⟩
  · simp at h

theorem fbdIter_stream (P : BDParams) (s : FState) (ds : List Draw) (st : Step FState)
    (h : fbdIter P s ds = .ok st) :
    ∃ pre, ds = pre ++ st.rest ∧ ∀ tl, fbdIter P s (pre ++ tl) = .ok (st.setRest tl) := by
  unfold fbdIter at h
  split at h
  · rename_i hstop
    simp at h; subst h
    refine ⟨[], by simp [Step.rest], ?_⟩
    intro tl; simp [fbdIter, hstop, Step.setRest]
  · rename_i hstop
    split at h
    · simp at h
    · rename_i w ds'
      split at h
      · simp at h
      · rename_i hw
        simp only at h
        split at h
        · rename_i hal
          obtain ⟨pre, hp, hall⟩ := fbdEvent_stream _ _ _ _ h
          refine ⟨.w w :: pre, by simp [hp], ?_⟩
          intro tl
          simp only [List.cons_append, fbdIter, hstop, hw, hal, hall tl]
          simp
        · rename_i hal
          simp at h; subst h
          refine ⟨[.w w], by simp [Step.rest], ?_⟩
          intro tl
          simp [fbdIter, hstop, hw, hal, Step.setRest]
    · simp at h

theorem fbdLoop_stream (P : BDParams) : ∀ (f : Nat) (s s' : FState) (ds ds' : List Draw), fbdLoop P f s ds = .ok (s', ds') →
    ∃ pre, ds = pre ++ ds' ∧ ∀ tl f', f ≤ f' → fbdLoop P f' s (pre ++ tl) = .ok (s', tl) := by
  intro f
  induction f with
  | zero => intro s s' ds ds' h; simp [fbdLoop] at h
  | succ f ih =>
    intro s s' ds ds' h
    unfold fbdLoop at h
    split at h
    · simp at h
    · rename_i s1 ds1 hit
      simp at h
      obtain ⟨rfl, rfl⟩ := h
      obtain ⟨pre, hp, hall⟩ := fbdIter_stream _ _ _ _ hit
      refine ⟨pre, by simpa [Step.rest] using hp, ?_⟩
      intro tl f' hf
      obtain ⟨f'', rfl⟩ : ∃ f'', f' = f'' + 1 := ⟨f' - 1, by omega⟩
      unfold fbdLoop
      simp [hall tl, Step.setRest]
    · rename_i s1 ds1 hit
      obtain ⟨pre1, hp1, hall1⟩ := fbdIter_stream _ _ _ _ hit
      obtain ⟨pre2, hp2, hall2⟩ := ih _ _ _ _ h
      simp only [Step.rest] at hp1
      refine ⟨pre1 ++ pre2, by rw [hp1, hp2, List.append_assoc], ?_⟩
      intro tl f' hf
      obtain ⟨f'', rfl⟩ : ∃ f'', f' = f'' + 1 := ⟨f' - 1, by omega⟩
      unfold fbdLoop
      rw [List.append_assoc, hall1 (pre2 ++ tl)]
      simp only [Step.setRest]
      exact hall2 tl f'' (by omega)

theorem pbLoop_stream (n : Nat) : ∀ (f : Nat) (t t' : BT) (next : Nat) (ds ds' : List Draw), pbLoop n f t next ds = .ok (t', ds') →
    ∃ pre, ds = pre ++ ds' ∧ ∀ tl f', f ≤ f' → pbLoop n f' t next (pre ++ tl) = .ok (t', tl) := by
  intro f
  induction f with
  | zero => intro t t' next ds ds' h; simp [pbLoop] at h
  | succ f ih =>
    intro t t' next ds ds' h
    unfold pbLoop at h
    split at h
    · rename_i hge
      simp at h
      obtain ⟨rfl, rfl⟩ := h
      refine ⟨[], by simp, ?_⟩
      intro tl f' hf
      obtain ⟨f'', rfl⟩ : ∃ f'', f' = f'' + 1 := ⟨f' - 1, by omega⟩
      simp [pbLoop, hge]
    · rename_i hge
      split at h
      · rename_i w k ds1
        split at h
        · simp at h
        · rename_i hw
          split at h
          · simp at h
          · rename_i t1 ht1
            obtain ⟨pre2, hp2, hall2⟩ := ih _ _ _ _ _ h
            refine ⟨.w w :: .choice k :: pre2, by simp [hp2], ?_⟩
            intro tl f' hf
            obtain ⟨f'', rfl⟩ : ∃ f'', f' = f'' + 1 := ⟨f' - 1, by omega⟩
            simp only [List.cons_append, pbLoop, hge, hw, ht1, if_false]
            exact hall2 tl f'' (by omega)
      · simp at h

theorem coalEvent_stream (τ : Int) (nodes nodes1 : List GT) (ds ds1 : List Draw) (h : coalEvent τ nodes ds = .ok (nodes1, ds1)) :
    ∃ i j, ds = .samp i j :: ds1 ∧ ∀ tl, coalEvent τ nodes (.samp i j :: tl) = .ok (nodes1, tl) := by
  unfold coalEvent at h
  simp only at h
  split at h
  · simp at h
  · rename_i i j ds'
    split at h
    · rename_i a b ha hb
      split at h
      · simp at h
      · rename_i hij
        simp at h
        obtain ⟨rfl, rfl⟩ := h
        refine ⟨i, j, rfl, ?_⟩
        intro tl
        simp [coalEvent, ha, hb, hij]
    · simp at h
  · simp at h

theorem coalLoop_stream (pop : Nat) : ∀ (f : Nat) (nodes nodes' : List GT) (rem rem' : Option Int) (ds ds' : List Draw),
    coalLoop pop f nodes rem ds = .ok (nodes', rem', ds') →
    ∃ pre, ds = pre ++ ds' ∧ ∀ tl, coalLoop pop f nodes rem (pre ++ tl) = .ok (nodes', rem', tl) := by
  intro f
  induction f with
  | zero =>
    intro nodes nodes' rem rem' ds ds' h
    unfold coalLoop at h
    split at h
    · simp at h
    · rename_i hl
      simp at h
      obtain ⟨rfl, rfl, rfl⟩ := h
      exact ⟨[], by simp, fun tl => by simp [coalLoop, hl]⟩
  | succ f ih =>
    intro nodes nodes' rem rem' ds ds' h
    unfold coalLoop at h
    split at h
    · rename_i hl
      simp at h
      obtain ⟨rfl, rfl, rfl⟩ := h
      exact ⟨[], by simp, fun tl => by simp [coalLoop, hl]⟩
    · rename_i hl
      split at h
      · simp at h
      · rename_i w ds1
        split at h
        · simp at h
        · rename_i hw
          split at h
          · rename_i hwi
            split at h
            · simp at h
            · rename_i nodes1 ds2 hev
              obtain ⟨i, j, rfl, hall1⟩ := coalEvent_stream _ _ _ _ _ hev
              obtain ⟨pre2, hp2, hall2⟩ := ih _ _ _ _ _ _ h
              refine ⟨.w w :: .samp i j :: pre2, by simp [hp2], ?_⟩
              intro tl
              simp only [List.cons_append, coalLoop, hl, hw, hwi, if_true, if_false, hall1 (pre2 ++ tl)]
              exact hall2 tl
          · rename_i hwi
            simp at h
            obtain ⟨rfl, rfl, rfl⟩ := h
            exact ⟨[.w w], by simp, fun tl => by simp [coalLoop, hl, hw, hwi]⟩
      · simp at h

theorem coalesce_stream (pop : Nat) (nodes out : List GT) (period : Option Int) (ds ds' : List Draw)
    (h : coalesce pop nodes period ds = .ok (out, ds')) :
    ∃ pre, ds = pre ++ ds' ∧ ∀ tl, coalesce pop nodes period (pre ++ tl) = .ok (out, tl) := by
  unfold coalesce at h
  split at h
  · rename_i he
    simp at h
    obtain ⟨rfl, rfl⟩ := h
    exact ⟨[], by simp, fun tl => by simp [coalesce, he]⟩
  · rename_i he
    split at h
    · simp at h
    · rename_i nodes' rem dsr hl
      obtain ⟨pre, hp, hall⟩ := coalLoop_stream _ _ _ _ _ _ _ _ hl
      refine ⟨pre, ?_, ?_⟩
      · split at h
        · split at h <;> (simp at h; obtain ⟨_, rfl⟩ := h; exact hp)
        · simp at h; obtain ⟨_, rfl⟩ := h; exact hp
      · intro tl
        simp only [coalesce, he, hall tl]
        split at h
        · split at h <;> (rename_i hr; simp at h; obtain ⟨rfl, _⟩ := h; simp [hr])
        · simp at h; obtain ⟨rfl, _⟩ := h; simp

end Aux

/-- **generator threading of `fast_birth_death_tree`**: as `bd_stream_independent` -/
theorem fbd_stream_independent (P : BDParams) (f : Nat) (s s' : FState) (ds rest : List Draw) (h : fbdLoop P f s ds = .ok (s', rest)) :
    ∃ used, ds = used ++ rest ∧ ∀ future f', f ≤ f' → fbdLoop P f' s (used ++ future) = .ok (s', future) :=
  Aux.fbdLoop_stream P f s s' ds rest h

/-- **generator threading of `uniform_pure_birth_tree`** -/
theorem pb_stream_independent (n f : Nat) (t t' : BT) (next : Nat) (ds rest : List Draw) (h : pbLoop n f t next ds = .ok (t', rest)) :
    ∃ used, ds = used ++ rest ∧ ∀ future f', f ≤ f' → pbLoop n f' t next (used ++ future) = .ok (t', future) :=
  Aux.pbLoop_stream n f t t' next ds rest h

/-- **generator threading of `coalesce_nodes`** (hence of every Kingman / contained-coalescent simulator, which only call it): the
lineages returned and the draws left depend on the consumed prefix alone -/
theorem coalesce_stream_independent (pop : Nat) (nodes out : List GT) (period : Option Int) (ds rest : List Draw)
    (h : coalesce pop nodes period ds = .ok (out, rest)) :
    ∃ used, ds = used ++ rest ∧ ∀ future, coalesce pop nodes period (used ++ future) = .ok (out, future) :=
  Aux.coalesce_stream pop nodes out period ds rest h

namespace Aux
mutual
theorem edge_stream : ∀ (S : ST) (ds : List Draw) (out : List GT) (ds' : List Draw), containedEdge S ds = .ok (out, ds') →
    ∃ pre, ds = pre ++ ds' ∧ ∀ tl, containedEdge S (pre ++ tl) = .ok (out, tl)
  | .node i len pop genes cs, ds, out, ds', h => by
    simp only [containedEdge] at h
    split at h
    · simp at h
    · rename_i inc ds1 hk
      obtain ⟨pre1, hp1, hall1⟩ := kids_stream cs ds inc ds1 hk
      obtain ⟨pre2, hp2, hall2⟩ := coalesce_stream _ _ _ _ _ _ h
      refine ⟨pre1 ++ pre2, by rw [hp1, hp2, List.append_assoc], ?_⟩
      intro tl
      simp only [containedEdge, List.append_assoc, hall1 (pre2 ++ tl)]
      exact hall2 tl
theorem kids_stream : ∀ (cs : List ST) (ds : List Draw) (out : List GT) (ds' : List Draw), containedKids cs ds = .ok (out, ds') →
    ∃ pre, ds = pre ++ ds' ∧ ∀ tl, containedKids cs (pre ++ tl) = .ok (out, tl)
  | [], ds, out, ds', h => by
    simp [containedKids] at h
    obtain ⟨rfl, rfl⟩ := h
    exact ⟨[], by simp, fun tl => by simp [containedKids]⟩
  | c :: cs, ds, out, ds', h => by
    simp only [containedKids] at h
    split at h
    · simp at h
    · rename_i up ds1 he
      split at h
      · simp at h
      · rename_i ups ds2 hk
        simp at h
        obtain ⟨rfl, rfl⟩ := h
        obtain ⟨pre1, hp1, hall1⟩ := edge_stream c ds up ds1 he
        obtain ⟨pre2, hp2, hall2⟩ := kids_stream cs ds1 ups ds2 hk
        refine ⟨pre1 ++ pre2, by rw [hp1, hp2, List.append_assoc], ?_⟩
        intro tl
        simp only [containedKids, List.append_assoc, hall1 (pre2 ++ tl), hall2 tl]
end
end Aux

/-- **generator threading of `contained_coalescent_tree` / `constrained_kingman_tree`** below the root: what climbs out of the children
of a node of the containing tree, and the draws left, depend on the consumed prefix alone (the root then runs one more
`coalesce`, `coalesce_stream_independent`, and must find the script used up) -/
theorem contained_kids_stream_independent (cs : List ST) (ds rest : List Draw) (out : List GT) (h : containedKids cs ds = .ok (out, rest)) :
    ∃ used, ds = used ++ rest ∧ ∀ future, containedKids cs (used ++ future) = .ok (out, future) :=
  Aux.kids_stream cs ds out rest h


/-- non-vacuity of the threading theorems: a run that ends after one birth, leaving the two shuffles for the tail of the call -/
example : (bdLoop { nTips := some 2, maxTime := none, b := 2, d := 1 } 9 (bdInit { nTips := some 2, maxTime := none, b := 2, d := 1 })
    [.w 1, .u 1 8, .g 0, .g 0, .g 0, .g 0, .perm [], .perm [1, 0]]).toOption.map (fun r => (r.1.extant.length, r.2)) =
    some (2, [.perm [], .perm [1, 0]]) := by decide
example : (coalesce 2 [.leaf 0 0 0, .leaf 1 0 0, .leaf 2 0 0] (some 3) [.w 1, .samp 0 2, .w 1, .samp 0 1, .w 5]).toOption.map
    (fun r => (r.1.length, r.2)) = some (2, [.samp 0 1, .w 5]) := by decide

/-! ### what the simulators hand to `rng.expovariate` -/

/-- every extant tip carries the rates the caller gave (no rate evolution so far) -/
def ConstRates (P : BDParams) (s : BDState) : Prop := ∀ t ∈ s.extant, t.br = P.b ∧ t.dr = P.d

/-- `birth_rate_sd = death_rate_sd = 0`: every `gauss(0, 0)` draw is 0 -/
def GaussZero (ds : List Draw) : Prop := ∀ v, Draw.g v ∈ ds → v = 0

namespace Aux
theorem rates_sum_const (b d : Int) : ∀ (l : List Tip), (∀ t ∈ l, t.br = b ∧ t.dr = d) → (rates l).sum = l.length * (b + d) := by
  intro l
  induction l with
  | nil => intro _; simp [rates]
  | cons t ts ih =>
    intro h
    obtain ⟨h1, h2⟩ := h t (by simp)
    have := ih (fun x hx => h x (by simp [hx]))
    simp only [rates, List.sum_cons, List.length_cons, this, h1, h2]
    push_cast
    grind

theorem mem_of_getElem? {α : Type} (l : List α) (k : Nat) (a : α) (h : l[k]? = some a) : a ∈ l := by
  exact List.mem_of_getElem? h

theorem const_birth (P : BDParams) (s s' : BDState) (nd : Tip) (ds ds' : List Draw) (hC : ConstRates P s) (hnd : nd ∈ s.extant)
    (hg : GaussZero ds) (h : bdBirth s nd (removeTip nd.id s.extant) ds = .ok (.cont s' ds')) : ConstRates P s' := by
  unfold bdBirth at h
  split at h
  · rename_i g1 g2 g3 g4 dsr
    split at h
    · simp at h
    · simp at h
      obtain ⟨rfl, _⟩ := h
      have e1 := hg g1 (by simp)
      have e2 := hg g2 (by simp)
      have e3 := hg g3 (by simp)
      have e4 := hg g4 (by simp)
      obtain ⟨hb, hd⟩ := hC nd hnd
      intro t ht
      simp only [List.mem_append, List.mem_cons, List.mem_nil_iff, or_false] at ht
      rcases ht with ht | rfl | rfl
      · exact hC t ((removeTip_sublist nd.id s.extant).subset ht)
      · simp [e1, e2, hb, hd]
      · simp [e3, e4, hb, hd]
  · simp at h

theorem const_init (P : BDParams) (nx : Nat) : ConstRates P { bdInit P with next := nx } := by
  intro t ht
  simp only [bdInit, List.mem_map] at ht
  obtain ⟨i, _, rfl⟩ := ht
  simp

theorem const_death (P : BDParams) (s s' : BDState) (nd : Tip) (ds ds' : List Draw) (hC : ConstRates P s)
    (h : bdDeath P s nd (removeTip nd.id s.extant) ds = .ok (.cont s' ds')) : ConstRates P s' := by
  unfold bdDeath at h
  split at h
  · simp at h
    obtain ⟨rfl, _⟩ := h
    exact const_init P _
  · split at h
    · simp at h
    · simp at h
      obtain ⟨rfl, _⟩ := h
      intro t ht
      exact hC t ((removeTip_sublist nd.id s.extant).subset ht)

theorem const_event (P : BDParams) (s s' : BDState) (ds ds' : List Draw) (hC : ConstRates P s) (hg : GaussZero ds)
    (h : bdEvent P s ds = .ok (.cont s' ds')) : ConstRates P s' := by
  unfold bdEvent at h
  split at h
  · simp at h
  · split at h
    · simp at h
    · rename_i p q dsr
      split at h
      · simp at h
      · split at h
        · simp at h
        · rename_i k hk
          split at h
          · simp at h
          · rename_i nd hnd
            have hmem : nd ∈ s.extant := List.mem_of_getElem? hnd
            have hg' : GaussZero dsr := fun v hv => hg v (by simp [hv])
            split at h
            · exact const_birth P s s' nd dsr ds' hC hmem hg' h
            · exact const_death P s s' nd dsr ds' hC h
    · simp at h

theorem const_iter (P : BDParams) (s s' : BDState) (ds ds' : List Draw) (hC : ConstRates P s) (hg : GaussZero ds)
    (h : bdIter P s ds = .ok (.cont s' ds')) : ConstRates P s' ∧ GaussZero ds' := by
  obtain ⟨pre, hp, _⟩ := bdIter_stream P s ds _ h
  have hg2 : GaussZero ds' := by
    intro v hv
    apply hg v
    rw [hp]; simp [Step.rest, hv]
  refine ⟨?_, hg2⟩
  unfold bdIter at h
  split at h
  · simp at h
  · split at h
    · simp at h
    · rename_i w dsr
      split at h
      · simp at h
      · simp only at h
        have hg' : GaussZero dsr := fun v hv => hg v (by simp [hv])
        split at h
        · exact const_event P _ s' dsr ds' (by simpa [ConstRates] using hC) hg' h
        · simp at h
          obtain ⟨rfl, _⟩ := h
          simpa [ConstRates] using hC
    · simp at h
end Aux

/-- **the waiting-time rate of `birth_death_tree`** without rate evolution: the argument of `rng.expovariate` in a pass is
`len(extant_tips) * (birth_rate + death_rate)` -/
theorem bd_rate_arg_const (P : BDParams) (s : BDState) (r : Int) (hC : ConstRates P s) (h : bdRateArg P s = some r) :
    r = s.extant.length * (P.b + P.d) := by
  unfold bdRateArg at h
  split at h
  · simp at h
  · simp at h; subst h
    exact Aux.rates_sum_const P.b P.d s.extant hC

/-- … along a whole run: every rate in the trace is (a number of extant tips) × (birth + death) -/
theorem bd_rate_trace_const (P : BDParams) : ∀ (f : Nat) (s : BDState) (ds : List Draw), ConstRates P s → GaussZero ds →
    ∀ r ∈ bdRateTrace P f s ds, ∃ n : Nat, r = n * (P.b + P.d) := by
  intro f
  induction f with
  | zero => intro s ds _ _ r hr; simp [bdRateTrace] at hr
  | succ f ih =>
    intro s ds hC hg r hr
    unfold bdRateTrace at hr
    split at hr
    · simp at hr
    · rename_i r0 h0
      simp only [List.mem_cons] at hr
      rcases hr with rfl | hr
      · exact ⟨s.extant.length, bd_rate_arg_const P s _ hC h0⟩
      · split at hr
        · rename_i s' ds' hit
          obtain ⟨hC', hg'⟩ := Aux.const_iter P s s' ds ds' hC hg hit
          exact ih s' ds' hC' hg' r hr
        · simp at hr

theorem bd_rates_const (P : BDParams) (ds : List Draw) (hg : GaussZero ds) : ∀ r ∈ bdRates P ds, ∃ n : Nat, r = n * (P.b + P.d) :=
  bd_rate_trace_const P _ _ ds (Aux.const_init P _) hg

/-- for admissible rates the rate handed to `expovariate` is positive (no `ZeroDivisionError` inside the generator) -/
theorem bd_rate_arg_pos (P : BDParams) (s : BDState) (r : Int) (hb : 0 < P.b) (hd : 0 ≤ P.d) (hS : SInv P s) (h : bdRateArg P s = some r) : 0 < r := by
  unfold bdRateArg at h
  split at h
  · simp at h
  · simp at h; subst h
    have := (Aux.rates_props s.extant (fun t ht => by have := hS.rates t ht; omega)).2.2 hS.ne
    exact this

/-- the trace of `fast_birth_death_tree`: always `len(extant_tips) * (birth + death)` -/
theorem fbd_rate_trace (P : BDParams) : ∀ (f : Nat) (s : FState) (ds : List Draw), ∀ r ∈ fbdRateTrace P f s ds, ∃ n : Nat, r = n * (P.b + P.d) := by
  intro f
  induction f with
  | zero => intro s ds r hr; simp [fbdRateTrace] at hr
  | succ f ih =>
    intro s ds r hr
    unfold fbdRateTrace at hr
    split at hr
    · simp at hr
    · rename_i r0 h0
      simp only [List.mem_cons] at hr
      rcases hr with rfl | hr
      · unfold fbdRateArg at h0
        split at h0
        · simp at h0
        · simp at h0; exact ⟨s.extant.length, by rw [← h0]; rfl⟩
      · split at hr
        · exact ih _ _ r hr
        · simp at hr

example : bdRates { nTips := some 3, maxTime := none, b := 64, d := 32 }
    [.w 16, .u 1 8, .g 0, .g 0, .g 0, .g 0, .w 16, .u 1 8, .g 0, .g 0, .g 0, .g 0, .perm [], .perm [2, 0, 1]] = [96, 192] := by decide
example : GaussZero [.w 16, .u 1 8, .g 0, .g 0, .g 0, .g 0, .perm []] := by intro v hv; simp at hv; exact hv


/-! ### `mean_kingman_tree` -/

/-- **`mean_kingman_tree`**: as for `pure_kingman_tree` — one leaf per taxon, binary joins (type), ultrametric — for every draw list -/
theorem mean_kingman_result (n pop : Nat) (L : Int) (ds : List Draw) (t : GT) (h : meanKingman n pop L ds = .ok t) :
    (t.leaves.map Prod.fst).Perm (List.range n) ∧ Ultrametric t := by
  unfold meanKingman at h
  split at h
  · simp at h
  · split at h
    · simp at h
    · exact kingman_result n 1 _ t h

/-- sample pairs valid for a pool of `m` lineages that shrinks by one per event -/
def ValidSamp : Nat → List (Nat × Nat) → Prop
  | _, [] => True
  | m, e :: es => e.1 ≠ e.2 ∧ e.1 < m ∧ e.2 < m ∧ ValidSamp (m - 1) es

/-- the events `mean_kingman_tree` goes through: the expected waiting time of the current pool size, then the sampled pair -/
def meanEvents (L : Int) (pop : Nat) : Nat → List (Nat × Nat) → List (Int × Nat × Nat)
  | _, [] => []
  | k, e :: es => (meanWait L pop k, e.1, e.2) :: meanEvents L pop (k - 1) es

namespace Aux
theorem choose2_nonneg (k : Nat) : 0 ≤ choose2 k := by
  unfold choose2
  apply Int.ediv_nonneg _ (by decide)
  cases k with
  | zero => simp
  | succ m => apply Int.mul_nonneg <;> omega

theorem meanWait_nonneg (L : Int) (pop k : Nat) (hL : 0 ≤ L) : 0 ≤ meanWait L pop k := by
  unfold meanWait
  exact Int.ediv_nonneg (Int.mul_nonneg hL (by omega)) (choose2_nonneg k)

theorem meanScript_samples (L : Int) (pop : Nat) : ∀ (sm : List (Nat × Nat)) (k : Nat),
    meanScript L pop k (sm.map (fun p => Draw.samp p.1 p.2)) = coalScript (meanEvents L pop k sm) := by
  intro sm
  induction sm with
  | nil => intro k; simp [meanScript, meanEvents, coalScript]
  | cons e es ih =>
    intro k
    simp only [List.map_cons, meanScript, meanEvents, coalScript, List.flatMap_cons]
    rw [ih (k - 1)]
    simp [coalScript]

theorem meanEvents_valid (L : Int) (pop : Nat) (hL : 0 ≤ L) : ∀ (sm : List (Nat × Nat)) (k : Nat), ValidSamp k sm →
    ValidCoal k (meanEvents L pop k sm) ∧ (meanEvents L pop k sm).length = sm.length := by
  intro sm
  induction sm with
  | nil => intro k _; simp [meanEvents, ValidCoal]
  | cons e es ih =>
    intro k hv
    obtain ⟨h1, h2, h3, h4⟩ := hv
    obtain ⟨i1, i2⟩ := ih (k - 1) h4
    exact ⟨⟨meanWait_nonneg L pop k hL, h1, h2, h3, i1⟩, by simp [meanEvents, i2]⟩
end Aux

/-- **`mean_kingman_tree` succeeds on every well-formed sample script** (`n − 1` pairs of distinct positions inside the shrinking
pool), and the run is `pure_kingman_tree`'s on the events `meanEvents`: the `k`-lineage interval is `L·pop / choose(k, 2)` -/
theorem mean_kingman_succeeds (n pop : Nat) (L : Int) (hn : 1 ≤ n) (hL : 0 < L) (hu : meanUnitOK L pop n = true) (sm : List (Nat × Nat))
    (hl : sm.length + 1 = n) (hv : ValidSamp n sm) :
    ∃ t, meanKingman n pop L (sm.map (fun p => Draw.samp p.1 p.2)) = .ok t ∧
         kingman n 1 (coalScript (meanEvents L pop n sm)) = .ok t := by
  obtain ⟨hv', hlen⟩ := Aux.meanEvents_valid L pop (Int.le_of_lt hL) sm n hv
  obtain ⟨t, ht⟩ := kingman_succeeds n 1 hn (meanEvents L pop n sm) (by omega) hv'
  refine ⟨t, ?_, ht⟩
  unfold meanKingman
  have h1 : (L ≤ 0 || !meanUnitOK L pop n) = false := by simp [hu]; omega
  have h2 : (sm.map (fun p => Draw.samp p.1 p.2)).all Draw.isSamp = true := by
    simp [List.all_eq_true, Draw.isSamp]
  rw [Aux.meanScript_samples]
  rw [if_neg (by simp [h1]), if_neg (by rw [h2]; simp)]
  exact ht

example : ValidSamp 3 [(2, 0), (1, 0)] := by simp [ValidSamp]
example : meanUnitOK 3 2 3 = true := by decide
example : (meanKingman 3 2 3 [.samp 2 0, .samp 1 0]).toOption.map (fun t => (t.leaves.map Prod.fst, t.depths.map Prod.snd)) =
    some ([2, 0, 1], [8, 8, 8]) := by decide


/-! ### tie A: the kernels regenerated from the source (`Gen/C18Kernels.lean`) are the model's -/

namespace Aux
theorem fracLt_pos (an ad bn bd : Int) (ha : 0 < ad) (hb : 0 < bd) : C18Kernels.fracLt an ad bn bd = decide (an * bd < bn * ad) := by
  unfold C18Kernels.fracLt
  rw [Int.sign_eq_one_of_pos ha, Int.sign_eq_one_of_pos hb]
  simp
end Aux

/-- tie A: birth_death_tree hands `rng.expovariate` exactly the sum of the event rates (regenerated `bdRate`) -/
theorem kernel_bd_rate (S : Int) : (C18Kernels.bdRate S).1 = S * (C18Kernels.bdRate S).2 ∧ (C18Kernels.bdRate S).2 ≠ 0 := by
  simp [C18Kernels.bdRate]

/-- tie A: … which is what the model's rate trace records (`bdRateArg`) -/
theorem kernel_bd_rate_arg (P : BDParams) (s : BDState) (r : Int) (h : bdRateArg P s = some r) :
    r * (C18Kernels.bdRate (rates s.extant).sum).2 = (C18Kernels.bdRate (rates s.extant).sum).1 := by
  unfold bdRateArg at h
  split at h
  · simp at h
  · simp at h; subst h; simp [C18Kernels.bdRate]

/-- tie A: the regenerated slot order of `event_rates` / `event_nodes`: birth rate + birth event, then death rate + death event -/
theorem kernel_bd_slots : C18Kernels.bdEventSlots = [(true, true), (false, false)] := by decide

/-- tie A: the model's `rates` list has that layout: slot `k` belongs to tip `k / 2`, even = birth rate, odd = death rate (so `k % 2 == 0` in `bdEvent` is the birth test) -/
theorem rates_getElem : ∀ (l : List Tip) (k : Nat), (rates l)[k]? = (l[k / 2]?).map (fun t => if k % 2 = 0 then t.br else t.dr) := by
  intro l
  induction l with
  | nil => intro k; simp [rates]
  | cons t ts ih =>
    intro k
    match k with
    | 0 => simp [rates]
    | 1 => simp [rates]
    | k + 2 =>
      have h1 : (k + 2) / 2 = k / 2 + 1 := by omega
      have h2 : (k + 2) % 2 = k % 2 := by omega
      simp [rates, ih, h1, h2]

/-- tie A: a daughter's rate is the parent's plus the gauss draw (regenerated `bdDaughter`) -/
theorem kernel_bd_daughter (r g : Int) : (C18Kernels.bdDaughter r g).1 = (r + g) * (C18Kernels.bdDaughter r g).2 ∧ (C18Kernels.bdDaughter r g).2 ≠ 0 := by
  simp [C18Kernels.bdDaughter]; try grind

/-- tie A: the four gauss draws are consumed in the order c1.birth, c1.death, c2.birth, c2.death -/
theorem kernel_bd_gauss_order : C18Kernels.bdGaussOrder = [(1, true), (1, false), (2, true), (2, false)] := by decide

/-- tie A: the model's birth step appends exactly the daughters the regenerated formula and draw order give -/
theorem kernel_bd_birth (s s' : BDState) (nd : Tip) (rest : List Tip) (g1 g2 g3 g4 : Int) (ds ds' : List Draw)
    (h : bdBirth s nd rest (.g g1 :: .g g2 :: .g g3 :: .g g4 :: ds) = .ok (.cont s' ds')) :
    s'.extant = rest ++ [⟨s.next, (C18Kernels.bdDaughter nd.br g1).1, (C18Kernels.bdDaughter nd.dr g2).1⟩,
                          ⟨s.next + 1, (C18Kernels.bdDaughter nd.br g3).1, (C18Kernels.bdDaughter nd.dr g4).1⟩] ∧ ds' = ds := by
  unfold bdBirth at h
  simp only at h
  split at h
  · simp at h
  · simp at h
    obtain ⟨h1, h2⟩ := h
    subst h1 h2
    simp [C18Kernels.bdDaughter]

/-- tie A: the four regenerated termination tests of `birth_death_tree` are the model's `bdStop || xStop` -/
theorem kernel_bd_stop (P : BDParams) (a x : Nat) (t : Int) :
    (bdStop P a t || xStop P a x) =
      ((match P.nTips with | some k => C18Kernels.bdStopExtant a k | none => false) ||
       (match P.nExtinct with | some k => C18Kernels.bdStopExtinct x k | none => false) ||
       (match P.nTotal with | some k => C18Kernels.bdStopTotal a x k | none => false) ||
       (match P.maxTime with | some m => C18Kernels.bdStopTime t m | none => false)) := by
  unfold bdStop xStop C18Kernels.bdStopExtant C18Kernels.bdStopExtinct C18Kernels.bdStopTotal C18Kernels.bdStopTime
  cases P.nTips <;> cases P.nExtinct <;> cases P.nTotal <;> cases P.maxTime <;> simp <;> grind

/-- tie A: the regenerated `total_time <= max_time` test is the model's `eventAllowed` -/
theorem kernel_bd_event_allowed (P : BDParams) (t : Int) :
    eventAllowed P t = (match P.maxTime with | some m => C18Kernels.bdEventAllowed t m | none => true) := by
  unfold eventAllowed C18Kernels.bdEventAllowed
  cases P.maxTime <;> simp

/-- tie A: the regenerated tip-count / max_time tests of `fast_birth_death_tree` are the model's -/
theorem kernel_fbd_stop (P : BDParams) (a : Nat) (t : Int) :
    bdStop P a t = ((match P.nTips with | some k => C18Kernels.fbdStopExtant a k | none => false) ||
                    (match P.maxTime with | some m => C18Kernels.fbdStopTime t m | none => false)) ∧
    eventAllowed P t = (match P.maxTime with | some m => C18Kernels.fbdEventAllowed t m | none => true) := by
  unfold bdStop eventAllowed C18Kernels.fbdStopExtant C18Kernels.fbdStopTime C18Kernels.fbdEventAllowed
  cases P.nTips <;> cases P.maxTime <;> simp <;> grind

/-- tie A: GSA loop head and argument refusal (both simulators) -/
theorem kernel_gsa_tests (a N G : Nat) :
    C18Kernels.bdStopGsa a G = decide (a ≥ G) ∧ C18Kernels.bdGsaRefuse G N = decide (G < N) ∧
    C18Kernels.fbdStopGsa a G = decide (a ≥ G) := by
  unfold C18Kernels.bdStopGsa C18Kernels.bdGsaRefuse C18Kernels.fbdStopGsa
  simp <;> grind

/-- tie A: `fast_birth_death_tree` hands `rng.expovariate` `len(extant_tips) * (birth_rate + death_rate)` -/
theorem kernel_fbd_rate (n : Nat) (b d : Int) :
    (C18Kernels.fbdRate n b d).1 = fbdRate n b d * (C18Kernels.fbdRate n b d).2 ∧ (C18Kernels.fbdRate n b d).2 ≠ 0 := by
  simp [C18Kernels.fbdRate, fbdRate]; try grind

/-- tie A: the regenerated birth test `random() < birth / (birth + death)` is the comparison `fbdEvent` makes -/
theorem kernel_fbd_birth_test (p q b d : Int) (hq : 0 < q) (hbd : 0 < b + d) :
    C18Kernels.fbdBirthTest p q b d = decide (p * (b + d) < b * q) := by
  unfold C18Kernels.fbdBirthTest
  rw [Aux.fracLt_pos _ _ _ _ hq hbd]

/-- tie A: the regenerated `randint` bounds are exactly the indices `fbdEvent` accepts -/
theorem kernel_fbd_pick (n : Nat) (ti : Int) :
    (C18Kernels.fbdPickLo n ≤ ti ∧ ti ≤ C18Kernels.fbdPickHi n) ↔ (0 ≤ ti ∧ ti.toNat < n) := by
  unfold C18Kernels.fbdPickLo C18Kernels.fbdPickHi
  omega

/-- tie A: the regenerated thresholds of `discrete_birth_death_tree` are the comparisons of `genPass` / `addGens`; one generation per pass; `uniform(0, 1)` -/
theorem kernel_dbd_tests (p q b d rs : Int) (hq : 0 < q) (hrs : 0 < rs) :
    C18Kernels.dbdBirth p q b d rs = decide (p * rs < b * q) ∧
    C18Kernels.dbdDeath p q b d rs = (decide (b * q < p * rs) && decide (p * rs < (b + d) * q)) ∧
    C18Kernels.dbdTailStop p q b d rs = decide (p * rs < (b + d) * q) ∧
    C18Kernels.dbdGrow = 1 ∧ C18Kernels.dbdUniformLo = 0 ∧ C18Kernels.dbdUniformHi = 1 := by
  unfold C18Kernels.dbdBirth C18Kernels.dbdDeath C18Kernels.dbdTailStop
  simp only [Aux.fracLt_pos _ _ _ _ hq hrs, Aux.fracLt_pos _ _ _ _ hrs hq]
  simp [C18Kernels.dbdGrow, C18Kernels.dbdUniformLo, C18Kernels.dbdUniformHi]

/-- tie A: `uniform_pure_birth_tree` hands `rng.expovariate` leaves / birth_rate (cross-multiplied equality of fractions) -/
theorem kernel_pb_rate (n : Nat) (b : Int) :
    (C18Kernels.pbRate n b).1 * (pbRate n b).2 = (pbRate n b).1 * (C18Kernels.pbRate n b).2 := by
  simp [C18Kernels.pbRate, pbRate]; try grind

/-- tie A: the regenerated loop test of `uniform_pure_birth_tree` is `pbLoop`'s -/
theorem kernel_pb_continue (leaves n : Nat) : C18Kernels.pbContinue leaves n = !decide (leaves ≥ n) := by
  unfold C18Kernels.pbContinue
  simp <;> grind

/-- tie A: `combinatorics.choose(k, 2)`, computed by its current source for k ≤ 40, is `k (k − 1) / 2` (decided over the regenerated table: a bounded statement) -/
theorem kernel_choose2 : ∀ k, k < 41 → C18Kernels.choose2Table[k]? = some (choose2 k) := by decide

/-- tie A: `time_to_coalescence` hands `rng.expovariate` `choose(n_genes, 2)` (default `n_to_coalesce`) -/
theorem kernel_coal_rate (ch : Int → Int → Int) (n : Int) :
    (C18Kernels.coalRate ch n C18Kernels.coalDefaultK).1 = ch n 2 * (C18Kernels.coalRate ch n C18Kernels.coalDefaultK).2 ∧
    (C18Kernels.coalRate ch n C18Kernels.coalDefaultK).2 ≠ 0 := by
  simp [C18Kernels.coalRate, C18Kernels.coalDefaultK]

/-- tie A: the regenerated `time_units` rule and `tmrca * time_units` are the model's `timeUnits` and `w * timeUnits pop` -/
theorem kernel_coal_time (w : Int) (pop : Nat) :
    (C18Kernels.coalTimeUnits pop).2 = 1 ∧ (C18Kernels.coalTimeUnits pop).1 = timeUnits pop ∧
    (C18Kernels.coalTime w (timeUnits pop)).1 = w * timeUnits pop * (C18Kernels.coalTime w (timeUnits pop)).2 ∧
    (C18Kernels.coalTime w (timeUnits pop)).2 ≠ 0 := by
  unfold C18Kernels.coalTimeUnits C18Kernels.coalTime timeUnits
  cases pop <;> simp <;> grind

/-- tie A: loop test, period test, remaining time, padding test, sample size of `coalesce_nodes` -/
theorem kernel_coal_tests (n : Nat) (t r : Int) :
    C18Kernels.coalContinue n = !decide (n ≤ 1) ∧ C18Kernels.coalWithin t r = withinPeriod (some r) t ∧
    (C18Kernels.coalRemain r t).1 = (r - t) * (C18Kernels.coalRemain r t).2 ∧ (C18Kernels.coalRemain r t).2 ≠ 0 ∧
    C18Kernels.coalPad r = decide (r > 0) ∧ C18Kernels.coalSampleSize = 2 ∧ C18Kernels.coalPoolArg = true := by
  unfold C18Kernels.coalContinue C18Kernels.coalWithin C18Kernels.coalRemain C18Kernels.coalPad withinPeriod
  refine ⟨by simp <;> grind, by simp, by simp, by simp, by simp, by decide, by decide⟩

/-- tie A: `expected_tmrca` is `pop / choose(k, 2)`: in units `1/L` the model's `meanWait` -/
theorem kernel_exp_tmrca (L : Int) (pop k : Nat) (ch : Int → Int → Int) (hc : ch k 2 = choose2 k) (hd : (L * pop) % choose2 k = 0) :
    meanWait L pop k * (C18Kernels.expTmrca ch k C18Kernels.coalDefaultK pop).2 = L * (C18Kernels.expTmrca ch k C18Kernels.coalDefaultK pop).1 := by
  simp only [C18Kernels.expTmrca, C18Kernels.coalDefaultK, hc, meanWait]
  exact Int.ediv_mul_cancel (Int.dvd_of_emod_eq_zero hd)

/-- tie A: the regenerated start value, subtraction and hit test of `weighted_index_choice` -/
theorem kernel_wic (p q S rn rd w : Int) (hrd : 0 < rd) :
    C18Kernels.wicInit p q S = (p * S, q) ∧ C18Kernels.wicSub rn rd w = (rn - w * rd, rd) ∧ C18Kernels.wicHit rn rd = decide (rn < 0) := by
  unfold C18Kernels.wicInit C18Kernels.wicSub C18Kernels.wicHit
  rw [Aux.fracLt_pos _ _ _ _ hrd (by decide)]
  simp

/-- tie A: … are one step of the model's `wicLoop` -/
theorem kernel_wic_step (ud rnd w : Int) (i : Nat) (ws : List Int) (hud : 0 < ud) :
    wicLoop ud rnd i (w :: ws) =
      if C18Kernels.wicHit (C18Kernels.wicSub rnd ud w).1 (C18Kernels.wicSub rnd ud w).2 then some i
      else wicLoop ud (C18Kernels.wicSub rnd ud w).1 (i + 1) ws := by
  obtain ⟨_, h2, _⟩ := kernel_wic 0 1 0 rnd ud w hud
  have h3 := (kernel_wic 0 1 0 (rnd - w * ud) ud w hud).2.2
  rw [h2]
  simp only [h3, wicLoop, decide_eq_true_eq]



/-! ### wave 2: the `treesim` wrapper layer — replicates read consecutive segments of one generator stream -/
namespace Aux

theorem bdIter_cont_consumes (P : BDParams) (s s' : BDState) (ds ds' : List Draw) (h : bdIter P s ds = .ok (.cont s' ds')) :
    ds'.length < ds.length := by
  obtain ⟨pre, hp, _⟩ := bdIter_stream P s ds _ h
  simp only [Step.rest] at hp
  unfold bdIter at h
  split at h
  · simp at h
  · split at h
    · simp at h
    · rename_i w ds1
      -- the pass starts by reading the waiting time
      cases pre with
      | nil =>
        exfalso
        simp at hp
        -- ds' = .w w :: ds1, yet every continuing pass drops at least the waiting time
        split at h
        · simp at h
        · simp only at h
          split at h
          · obtain ⟨pre', hp', _⟩ := bdEvent_stream _ _ _ _ h
            simp only [Step.rest] at hp'
            have : ds1.length = pre'.length + ds'.length := by rw [hp']; simp
            rw [← hp] at this; simp at this; omega
          · simp at h
            have := h.2
            rw [← hp] at this; simp at this
      | cons x xs => rw [hp]; simp; omega
    · simp at h

theorem bdLoop_stream_bound (P : BDParams) : ∀ (f : Nat) (s s' : BDState) (ds ds' : List Draw), bdLoop P f s ds = .ok (s', ds') →
    ∃ pre, ds = pre ++ ds' ∧ ∀ tl f', pre.length + 1 ≤ f' → bdLoop P f' s (pre ++ tl) = .ok (s', tl) := by
  intro f
  induction f with
  | zero => intro s s' ds ds' h; simp [bdLoop] at h
  | succ f ih =>
    intro s s' ds ds' h
    unfold bdLoop at h
    split at h
    · simp at h
    · rename_i s1 ds1 hit
      simp at h
      obtain ⟨rfl, rfl⟩ := h
      obtain ⟨pre, hp, hall⟩ := bdIter_stream _ _ _ _ hit
      refine ⟨pre, by simpa [Step.rest] using hp, ?_⟩
      intro tl f' hf
      obtain ⟨f'', rfl⟩ : ∃ f'', f' = f'' + 1 := ⟨f' - 1, by omega⟩
      unfold bdLoop
      simp [hall tl, Step.setRest]
    · rename_i s1 ds1 hit
      obtain ⟨pre1, hp1, hall1⟩ := bdIter_stream _ _ _ _ hit
      obtain ⟨pre2, hp2, hall2⟩ := ih _ _ _ _ h
      simp only [Step.rest] at hp1
      have hlen := bdIter_cont_consumes P s s1 ds ds1 hit
      have h1 : 1 ≤ pre1.length := by
        have := congrArg List.length hp1; simp at this; omega
      refine ⟨pre1 ++ pre2, by rw [hp1, hp2, List.append_assoc], ?_⟩
      intro tl f' hf
      obtain ⟨f'', rfl⟩ : ∃ f'', f' = f'' + 1 := ⟨f' - 1, by simp at hf; omega⟩
      unfold bdLoop
      rw [List.append_assoc, hall1 (pre2 ++ tl)]
      simp only [Step.setRest]
      exact hall2 tl f'' (by simp at hf; omega)
end Aux

/-- **`birth_death_tree` on a generator stream is the simulator on the segment it reads**: a run that succeeds on a stream and
leaves `rest` has read `used`, and the run on exactly `used` (the definition the driver runs, `bdRun`) returns the same tree -/
theorem bdRunS_direct (P : BDParams) (n0 : Nat) (ds rest : List Draw) (r : SimResult) (h : bdRunS P n0 ds = .ok (r, rest)) :
    ∃ used, ds = used ++ rest ∧ bdRun P n0 used = .ok r := by
  unfold bdRunS at h
  split at h
  · simp at h
  · rename_i s rest1 hl
    obtain ⟨pre, hp, hall⟩ := Aux.bdLoop_stream_bound P _ _ _ _ _ hl
    unfold finishS at h
    split at h
    · rename_i p1 p2 rest'
      split at h
      · rename_i r' hf
        simp at h
        obtain ⟨rfl, rfl⟩ := h
        refine ⟨pre ++ [.perm p1, .perm p2], by rw [hp]; simp, ?_⟩
        unfold bdRun
        rw [hall [.perm p1, .perm p2] _ (by simp)]
        simp only
        split at hf <;> rename_i hr <;> simp [hr, hf]
      · simp at h
    · simp at h

/-- … and conversely: whatever follows in the stream is left untouched -/
theorem bdRunS_of_direct (P : BDParams) (n0 : Nat) (used rest : List Draw) (r : SimResult) (h : bdRun P n0 used = .ok r) :
    bdRunS P n0 (used ++ rest) = .ok (r, rest) := by
  unfold bdRun at h
  split at h
  · simp at h
  · rename_i s tl hl
    obtain ⟨pre, hp, hall⟩ := Aux.bdLoop_stream_bound P _ _ _ _ _ hl
    have htl : ∃ p1 p2, tl = [.perm p1, .perm p2] := by
      split at h
      · unfold finishRetain at h
        split at h
        · exact ⟨_, _, rfl⟩
        · simp at h
      · unfold finish at h
        split at h
        · simp at h
        · split at h
          · exact ⟨_, _, rfl⟩
          · simp at h
    obtain ⟨p1, p2, rfl⟩ := htl
    unfold bdRunS
    rw [hp, List.append_assoc, hall _ _ (by simp)]
    simp only [finishS, List.cons_append, List.nil_append]
    split at h
    · rename_i hr; simp [hr, h]
    · rename_i hr; simp [hr, h]

/-- `k` direct runs of the simulator on consecutive segments, the namespace (when shared) growing from run to run -/
def DirectRuns (P : BDParams) (shared : Bool) : Nat → List (List Draw) → List SimResult → Prop
  | _, [], [] => True
  | n0, seg :: segs, r :: rs => bdRun P n0 seg = .ok r ∧ DirectRuns P shared (if shared then max n0 r.tree.nLeaves else n0) segs rs
  | _, _, _ => False

/-- **`rand_trees` = n direct runs**: the wrapper returns `rs` and leaves `rest` of the generator's stream iff the stream splits
into `k` consecutive segments followed by `rest`, and the simulator run directly on the `i`-th segment returns the `i`-th tree.
Each replicate starts exactly where the previous one stopped; no draw is skipped, re-read or taken from elsewhere. -/
theorem rand_trees_direct_runs (P : BDParams) (shared : Bool) : ∀ (k n0 : Nat) (ds rest : List Draw) (rs : List SimResult),
    randTrees P shared k n0 ds = .ok (rs, rest) ↔
      ∃ segs : List (List Draw), segs.length = k ∧ ds = segs.flatten ++ rest ∧ DirectRuns P shared n0 segs rs := by
  intro k
  induction k with
  | zero =>
    intro n0 ds rest rs
    constructor
    · intro h
      simp [randTrees] at h
      obtain ⟨rfl, rfl⟩ := h
      exact ⟨[], rfl, by simp, trivial⟩
    · rintro ⟨segs, hl, hd, hr⟩
      cases segs with
      | nil =>
        cases rs with
        | nil => simp at hd; simp [randTrees, hd]
        | cons _ _ => simp [DirectRuns] at hr
      | cons _ _ => simp at hl
  | succ k ih =>
    intro n0 ds rest rs
    constructor
    · intro h
      unfold randTrees at h
      split at h
      · simp at h
      · rename_i r mid h1
        split at h
        · simp at h
        · rename_i rs' rest' h2
          simp at h
          obtain ⟨rfl, rfl⟩ := h
          obtain ⟨used, hu, hrun⟩ := bdRunS_direct P n0 ds mid r h1
          obtain ⟨segs, hl, hd, hr⟩ := (ih _ mid rest' rs').1 h2
          exact ⟨used :: segs, by simp [hl], by rw [hu, hd]; simp, ⟨hrun, hr⟩⟩
    · rintro ⟨segs, hl, hd, hr⟩
      cases segs with
      | nil => simp at hl
      | cons seg segs =>
        cases rs with
        | nil => simp [DirectRuns] at hr
        | cons r rs' =>
          obtain ⟨hrun, hr'⟩ := hr
          have h1 := bdRunS_of_direct P n0 seg (segs.flatten ++ rest) r hrun
          have h2 := (ih (if shared then max n0 r.tree.nLeaves else n0) (segs.flatten ++ rest) rest rs').2
            ⟨segs, by simpa using hl, rfl, hr'⟩
          unfold randTrees
          rw [hd]
          simp only [List.flatten_cons, List.append_assoc, h1, h2]

example : (randTrees { nTips := some 2, maxTime := none, b := 2, d := 1 } true 2 1
    [.w 1, .u 1 8, .g 0, .g 0, .g 0, .g 0, .perm [0], .perm [1, 0], .w 3, .u 0 1, .g 0, .g 0, .g 0, .g 0, .perm [1, 0], .perm [0, 1], .w 9]).toOption.map
    (fun r => (r.1.map (fun x => x.taxa), r.2)) = some ([[(1, 0), (0, 1)], [(0, 0), (1, 1)]], [.w 9]) := by decide


namespace Aux
theorem coalEvent_reads (τ : Int) (nodes nodes1 : List GT) (ds ds1 : List Draw) (h : coalEvent τ nodes ds = .ok (nodes1, ds1)) :
    ∃ i j, ds = .samp i j :: ds1 ∧ i ≠ j ∧ i < nodes.length ∧ j < nodes.length := by
  unfold coalEvent at h
  simp only at h
  split at h
  · simp at h
  · rename_i i j ds'
    split at h
    · rename_i a b ha hb
      split at h
      · simp at h
      · rename_i hij
        simp at h
        obtain ⟨_, rfl⟩ := h
        have hi := (List.getElem?_eq_some_iff.1 ha).1
        have hj := (List.getElem?_eq_some_iff.1 hb).1
        simp at hi hj hij
        exact ⟨i, j, rfl, hij, hi, hj⟩
    · simp at h
  · simp at h

theorem coalLoop_script (pop : Nat) : ∀ (f : Nat) (nodes nodes' : List GT) (rem' : Option Int) (ds rest : List Draw),
    coalLoop pop f nodes none ds = .ok (nodes', rem', rest) →
    ∃ ev, ds = coalScript ev ++ rest ∧ nodes'.length + ev.length = nodes.length ∧ ValidCoal nodes.length ev := by
  intro f
  induction f with
  | zero =>
    intro nodes nodes' rem' ds rest h
    unfold coalLoop at h
    split at h
    · simp at h
    · simp at h
      obtain ⟨rfl, _, rfl⟩ := h
      exact ⟨[], by simp [coalScript], by simp, trivial⟩
  | succ f ih =>
    intro nodes nodes' rem' ds rest h
    unfold coalLoop at h
    split at h
    · simp at h
      obtain ⟨rfl, _, rfl⟩ := h
      exact ⟨[], by simp [coalScript], by simp, trivial⟩
    · split at h
      · simp at h
      · rename_i w ds1
        split at h
        · simp at h
        · rename_i hw
          split at h
          · split at h
            · simp at h
            · rename_i nodes1 ds2 hev
              obtain ⟨i, j, hd1, hij, hi, hj⟩ := coalEvent_reads _ _ _ _ _ hev
              have hlen := coalEvent_length _ _ _ _ _ hev
              obtain ⟨ev, he, hl, hv⟩ := ih _ _ _ _ _ h
              refine ⟨(w, i, j) :: ev, ?_, by simp; omega, ?_⟩
              · rw [hd1, he]; simp [coalScript]
              · refine ⟨by omega, hij, hi, hj, ?_⟩
                have : nodes.length - 1 = nodes1.length := by omega
                rw [this]; exact hv
          · rename_i hwi; simp [withinPeriod] at hwi
      · simp at h
end Aux

/-- **the draws `pure_kingman_tree` reads** (converse of `kingman_succeeds`): a successful run has read exactly `n − 1` events
`(waiting time, pair)`, the `j`-th with two distinct positions inside a pool of `n − j` lineages (`ValidCoal`) — so the `j`-th call of
`rng.expovariate` is made with `n − j` lineages, i.e. with rate `choose(n − j, 2)`: the list `kingRates n` -/
theorem kingman_reads_valid_script (n pop : Nat) (ds : List Draw) (t : GT) (h : kingman n pop ds = .ok t) :
    ∃ ev, ds = coalScript ev ∧ ev.length + 1 = n ∧ ValidCoal n ev ∧ (kingRates n).length = ev.length := by
  unfold kingman at h
  split at h
  · simp at h
  · rename_i t' hc
    unfold coalesce at hc
    split at hc
    · simp at hc
    · split at hc
      · simp at hc
      · rename_i nodes' rem dsr hl
        obtain ⟨ev, he, hlen, hv⟩ := Aux.coalLoop_script pop _ _ _ _ _ _ hl
        have hr : rem = none := by
          cases rem with
          | none => rfl
          | some r =>
            exfalso
            have := Aux.coalLoop_none_len pop _ _ _ _ _ _ hl
            simp at this
        subst hr
        simp at hc
        obtain ⟨rfl, rfl⟩ := hc
        simp at hlen hv he
        exact ⟨ev, by simpa using he, by omega, hv, by simp [kingRates]; omega⟩
  all_goals simp at h

example : (kingRates 5) = [10, 6, 3, 1] := by decide

end DendroModel.C18
