import DendroModel.Model.C12
/-! C12 — property theorems about the memo-driven copy model (`cpVal`/`cpFields`/`cpItems` of `Model/C12.lean`,
the definitions the driver runs).

`h` is the heap before the copy (its size `h.size` is "the next free id"), `pre` the pre-seeded memo of the route
(empty: deep copy; namespace and taxa ↦ themselves: namespace-scoped copy; namespace ↦ other namespace, taxa ↦
their label-matched taxa: copy into another namespace).  Property theorems live in `namespace DendroModel.C12`,
helper lemmas in `DendroModel.C12.Aux`. -/
namespace DendroModel.C12
open DendroModel

/-- the targets of a memo (`memo.values()`) -/
def targets (m : Memo) : List Nat := m.map Prod.snd

/-- objects the copy may write although they existed before: pre-seeded targets that are attribute-bound annotations
(`deep_copy_annotations_from` re-targets whatever the memo returns for a bound annotation of the source).  Empty for the
deep copy, and empty for the namespace-scoped routes, whose pre-seeded targets are the namespace and its taxa. -/
def Writable (h : Heap) (pre : Memo) (x : Nat) : Prop := x ∈ targets pre ∧ isBound h x = true

/-- a value "of the copy": a reference is either freshly allocated (`≥ b`) or a pre-seeded target -/
def FreshVal (b : Nat) (pre : Memo) (v : Val) : Prop := ∀ k, v = .ref k → k ∈ targets pre ∨ b ≤ k

/-- `x` is reachable from value `v` through references stored in fields -/
inductive Reach (h : Heap) : Val → Nat → Prop
  | root (i : Nat) : Reach h (.ref i) i
  | step {v : Val} {i k : Nat} {o : Obj} {f : String × Val} :
      Reach h v i → h[i]? = some o → f ∈ o.fields → f.2 = .ref k → Reach h v k

/-- every reference stored in an object of the heap points inside the heap (the exported source graph is closed) -/
def Closed (h : Heap) : Prop :=
  ∀ (i : Nat) (o : Obj), h[i]? = some o → ∀ f ∈ o.fields, ∀ k : Nat, f.2 = Val.ref k → k < h.size

namespace Aux

/-- the invariant of the copy, relative to the heap `h0` before the copy, `b = h0.size` and the pre-seeded memo -/
structure Good (b : Nat) (h0 : Heap) (pre : Memo) (s : St) : Prop where
  base : b ≤ s.h.size
  old : ∀ x, x < b → ¬ Writable h0 pre x → s.h[x]? = h0[x]?
  fresh : ∀ p ∈ s.m, p ∈ pre ∨ b ≤ p.2
  newrefs : ∀ j o, b ≤ j → s.h[j]? = some o → ∀ f ∈ o.fields, FreshVal b pre f.2

theorem lookup_mem {m : Memo} {i j : Nat} (h : m.lookup i = some j) : (i, j) ∈ m := by
  induction m with
  | nil => simp at h
  | cons p r ih =>
    obtain ⟨a, c⟩ := p
    simp only [List.lookup] at h
    by_cases hia : i == a
    · simp [hia] at h; simp at hia; subst hia; subst h; simp
    · simp [hia] at h; exact List.mem_cons_of_mem _ (ih h)

theorem freshVal_atom (b : Nat) (pre : Memo) (a : String) : FreshVal b pre (.atom a) := by
  intro k hk; cases hk

theorem freshVal_new {b : Nat} (pre : Memo) {j : Nat} (h : b ≤ j) : FreshVal b pre (.ref j) := by
  intro k hk; cases hk; exact Or.inr h

theorem freshVal_of_memo {b : Nat} {h0 : Heap} {pre : Memo} {s : St} (g : Good b h0 pre s) {i j : Nat}
    (h : s.m.lookup i = some j) : FreshVal b pre (.ref j) := by
  intro k hk; cases hk
  rcases g.fresh _ (lookup_mem h) with hp | hb
  · left; exact List.mem_map.mpr ⟨_, hp, rfl⟩
  · exact Or.inr hb

theorem mem_setFieldL {name : String} {v : Val} {fs : List (String × Val)} {f : String × Val}
    (h : f ∈ setFieldL name v fs) : f.2 = v ∨ f ∈ fs := by
  induction fs with
  | nil => simp [setFieldL] at h; subst h; exact Or.inl rfl
  | cons p r ih =>
    obtain ⟨k, x⟩ := p
    simp only [setFieldL] at h
    by_cases hk : k == name
    · simp [hk] at h
      rcases h with h | h
      · subst h; exact Or.inl rfl
      · exact Or.inr (List.mem_cons_of_mem _ h)
    · simp [hk] at h
      rcases h with h | h
      · subst h; exact Or.inr (by simp)
      · rcases ih h with h | h
        · exact Or.inl h
        · exact Or.inr (List.mem_cons_of_mem _ h)

theorem mem_dedupVals {l : List Val} {v : Val} (h : v ∈ dedupVals l) : v ∈ l := by
  induction l with
  | nil => simp [dedupVals] at h
  | cons x r ih =>
    rw [dedupVals] at h
    split at h
    · exact List.mem_cons_of_mem _ (ih h)
    · rcases List.mem_cons.mp h with h | h
      · subst h; simp
      · exact List.mem_cons_of_mem _ (ih h)

theorem mem_indexed {pre : String} {k : Nat} {l : List Val} {f : String × Val} (h : f ∈ indexed pre k l) : f.2 ∈ l := by
  induction l generalizing k with
  | nil => simp [indexed] at h
  | cons x r ih =>
    simp only [indexed, List.mem_cons] at h
    rcases h with h | h
    · subst h; simp
    · exact List.mem_cons_of_mem _ (ih h)

theorem mem_dedup_rev {l : List Val} {v : Val} (h : v ∈ (dedupVals l.reverse).reverse) : v ∈ l := by
  have := mem_dedupVals (List.mem_reverse.mp h)
  exact List.mem_reverse.mp this

/-- allocation of an object whose fields are values of the copy -/
theorem good_push {b : Nat} {h0 : Heap} {pre : Memo} {s : St} (g : Good b h0 pre s) (o : Obj)
    (ho : ∀ f ∈ o.fields, FreshVal b pre f.2) : Good b h0 pre ⟨s.h.push o, s.m⟩ where
  base := by have := g.base; simp; omega
  old := by
    intro x hx hw
    have := g.base
    rw [← g.old x hx hw]
    simp [Array.getElem?_push]
    intro hxs; omega
  fresh := g.fresh
  newrefs := by
    intro j o' hj hget f hf
    simp only [Array.getElem?_push] at hget
    by_cases hjs : j = s.h.size
    · simp [hjs] at hget; subst hget; exact ho f hf
    · simp [hjs] at hget; exact g.newrefs j o' hj hget f hf

theorem good_memo {b : Nat} {h0 : Heap} {pre : Memo} {s : St} (g : Good b h0 pre s) (i j : Nat) (hj : b ≤ j) :
    Good b h0 pre ⟨s.h, (i, j) :: s.m⟩ where
  base := g.base
  old := g.old
  fresh := by
    intro p hp
    rcases List.mem_cons.mp hp with h | h
    · subst h; exact Or.inr hj
    · exact g.fresh p h
  newrefs := g.newrefs

/-- overwriting the fields of a fresh object with values of the copy -/
theorem good_setFields {b : Nat} {h0 : Heap} {pre : Memo} {s : St} (g : Good b h0 pre s) (j : Nat) (hj : b ≤ j)
    (fs : List (String × Val)) (hfs : ∀ f ∈ fs, FreshVal b pre f.2) : Good b h0 pre ⟨setFields s.h j fs, s.m⟩ := by
  unfold setFields
  cases hget : s.h[j]? with
  | none => simpa using g
  | some o =>
    simp only
    refine ⟨?_, ?_, g.fresh, ?_⟩
    · have := g.base; simpa using this
    · intro x hx hw
      rw [← g.old x hx hw]
      have : j ≠ x := by omega
      simp [Array.getElem?_setIfInBounds, this]
    · intro j' o' hj' hget' f hf
      simp only [Array.getElem?_setIfInBounds] at hget'
      have hlt : j < s.h.size := (Array.getElem?_eq_some_iff.mp hget).1
      by_cases hjj : j = j'
      · subst hjj
        simp [hlt] at hget'; subst hget'; exact hfs f hf
      · simp [hjj] at hget'; exact g.newrefs j' o' hj' hget' f hf

/-- `obj.__dict__[name] = v` with a value of the copy, on an object that is fresh or writable -/
theorem good_setField {b : Nat} {h0 : Heap} {pre : Memo} {s : St} (g : Good b h0 pre s) (j : Nat)
    (hj : b ≤ j ∨ Writable h0 pre j) (name : String) (v : Val) (hv : FreshVal b pre v) :
    Good b h0 pre ⟨setField s.h j name v, s.m⟩ := by
  unfold setField
  cases hget : s.h[j]? with
  | none => simpa using g
  | some o =>
    simp only
    refine ⟨?_, ?_, g.fresh, ?_⟩
    · have := g.base; simpa using this
    · intro x hx hw
      rw [← g.old x hx hw]
      have : j ≠ x := by
        intro e; subst e
        rcases hj with h | h
        · omega
        · exact hw h
      simp [Array.getElem?_setIfInBounds, this]
    · intro j' o' hj' hget' f hf
      simp only [Array.getElem?_setIfInBounds] at hget'
      have hlt : j < s.h.size := (Array.getElem?_eq_some_iff.mp hget).1
      by_cases hjj : j = j'
      · subst hjj
        simp [hlt] at hget'; subst hget'
        rcases mem_setFieldL hf with h | h
        · rw [h]; exact hv
        · exact g.newrefs j o hj' hget f h
      · simp [hjj] at hget'; exact g.newrefs j' o' hj' hget' f hf

theorem isBound_congr {h1 h2 : Heap} {j : Nat} (e : h1[j]? = h2[j]?) : isBound h1 j = isBound h2 j := by
  unfold isBound; rw [e]

theorem good_retarget {b : Nat} {h0 : Heap} {pre : Memo} {s : St} (g : Good b h0 pre s) (i j : Nat) (hj : b ≤ j)
    (a1 a2 : Val) (ha2 : FreshVal b pre a2) : Good b h0 pre (retarget s i j a1 a2) := by
  unfold retarget
  split
  · rename_i i1 j2
    split
    · rename_i hb
      split
      · rename_i ow nm hbv
        split
        · -- the write: j2 is fresh, or a writable pre-seeded target
          have hj2 : b ≤ j2 ∨ Writable h0 pre j2 := by
            rcases ha2 j2 rfl with hp | hge
            · by_cases hlt : j2 < b
              · by_cases hw : Writable h0 pre j2
                · exact Or.inr hw
                · have e := g.old j2 hlt hw
                  have : isBound h0 j2 = true := by rw [← isBound_congr e]; exact hb
                  exact Or.inr ⟨hp, this⟩
              · exact Or.inl (by omega)
            · exact Or.inl hge
          have g1 := good_push g (Obj.mk .tuple "tuple" ([("#0", .ref j), ("#1", .atom nm)])) (by
            intro f hf
            simp at hf
            rcases hf with hf | hf
            · subst hf; exact freshVal_new pre hj
            · subst hf; exact freshVal_atom b pre nm)
          exact good_setField g1 j2 hj2 "_value" (.ref s.h.size) (freshVal_new pre g.base)
        · exact g
      · exact g
    · exact g
  · exact g

theorem good_attach {b : Nat} {h0 : Heap} {pre : Memo} {s : St} (g : Good b h0 pre s) (a : Nat) (cls : String) (j : Nat)
    (hj : b ≤ j) (items : List Val) (hit : ∀ v ∈ items, FreshVal b pre v) :
    Good b h0 pre (attachAnnotations s a cls j items) := by
  unfold attachAnnotations
  split
  · exact g
  · simp only [pushAnnSet]
    have hb := g.base
    have g1 := good_push g (Obj.mk .plain "list" (indexed "#" 0 (dedupVals items.reverse).reverse)) (by
      intro f hf; exact hit _ (mem_dedup_rev (mem_indexed hf)))
    have g2 := good_push g1 (Obj.mk .plain "set" (indexed "e" 0 (dedupVals items.reverse).reverse)) (by
      intro f hf; exact hit _ (mem_dedup_rev (mem_indexed hf)))
    have g3 := good_push g2 (Obj.mk .annset cls
        [("_item_list", Val.ref s.h.size), ("_item_set", Val.ref (s.h.size + 1)), ("target", Val.ref j)]) (by
      intro f hf
      simp at hf
      rcases hf with hf | hf | hf
      · subst hf; exact freshVal_new pre hb
      · subst hf; exact freshVal_new pre (by omega)
      · subst hf; exact freshVal_new pre hj)
    have g4 := good_setField g3 j (Or.inl hj) "_annotations" (.ref (s.h.size + 2)) (freshVal_new pre (by omega))
    exact good_memo g4 a (s.h.size + 2) (by omega)

/-- postconditions of the three mutually recursive copy functions -/
def PVal (b : Nat) (h0 : Heap) (pre : Memo) (fuel : Nat) : Prop :=
  ∀ s v s' v', Good b h0 pre s → cpVal fuel s v = .ok (s', v') → Good b h0 pre s' ∧ FreshVal b pre v'
def PFields (b : Nat) (h0 : Heap) (pre : Memo) (fuel : Nat) : Prop :=
  ∀ fs s s' fs', Good b h0 pre s → cpFields fuel s fs = .ok (s', fs') → Good b h0 pre s' ∧ ∀ f ∈ fs', FreshVal b pre f.2
def PItems (b : Nat) (h0 : Heap) (pre : Memo) (fuel : Nat) : Prop :=
  ∀ items s i j s' items', Good b h0 pre s → b ≤ j → cpItems fuel s i j items = .ok (s', items') →
    Good b h0 pre s' ∧ ∀ v ∈ items', FreshVal b pre v

theorem pfields_of_pval {b : Nat} {h0 : Heap} {pre : Memo} {fuel : Nat} (hp : PVal b h0 pre fuel) : PFields b h0 pre fuel := by
  intro fs
  induction fs with
  | nil =>
    intro s s' fs' g h
    simp [cpFields] at h
    obtain ⟨h1, h2⟩ := h; subst h1; subst h2
    exact ⟨g, by simp⟩
  | cons kv r ih =>
    intro s s' fs' g h
    obtain ⟨k, v⟩ := kv
    simp only [cpFields] at h
    cases h1 : cpVal fuel s v with
    | error e => simp [h1] at h
    | ok r1 =>
      obtain ⟨s1, v1⟩ := r1
      simp only [h1] at h
      cases h2 : cpFields fuel s1 r with
      | error e => simp [h2] at h
      | ok r2 =>
        obtain ⟨s2, r'⟩ := r2
        simp only [h2] at h
        simp at h
        obtain ⟨e1, e2⟩ := h; subst e1; subst e2
        obtain ⟨g1, f1⟩ := hp s v s1 v1 g h1
        obtain ⟨g2, f2⟩ := ih s1 s2 r' g1 h2
        refine ⟨g2, ?_⟩
        intro f hf
        rcases List.mem_cons.mp hf with hf | hf
        · subst hf; exact f1
        · exact f2 f hf

theorem pitems_of_pval {b : Nat} {h0 : Heap} {pre : Memo} {fuel : Nat} (hp : PVal b h0 pre fuel) : PItems b h0 pre fuel := by
  intro items
  induction items with
  | nil =>
    intro s i j s' items' g hj h
    simp [cpItems] at h
    obtain ⟨h1, h2⟩ := h; subst h1; subst h2
    exact ⟨g, by simp⟩
  | cons a1 r ih =>
    intro s i j s' items' g hj h
    simp only [cpItems] at h
    cases h1 : cpVal fuel s a1 with
    | error e => simp [h1] at h
    | ok r1 =>
      obtain ⟨s1, a2⟩ := r1
      simp only [h1] at h
      cases h2 : cpItems fuel (retarget s1 i j a1 a2) i j r with
      | error e => simp [h2] at h
      | ok r2 =>
        obtain ⟨s2, r'⟩ := r2
        simp only [h2] at h
        simp at h
        obtain ⟨e1, e2⟩ := h; subst e1; subst e2
        obtain ⟨g1, f1⟩ := hp s a1 s1 a2 g h1
        obtain ⟨g2, f2⟩ := ih (retarget s1 i j a1 a2) i j s2 r' (good_retarget g1 i j hj a1 a2 f1) hj h2
        refine ⟨g2, ?_⟩
        intro v hv
        rcases List.mem_cons.mp hv with hv | hv
        · subst hv; exact f1
        · exact f2 v hv

theorem pval_zero (b : Nat) (h0 : Heap) (pre : Memo) : PVal b h0 pre 0 := by
  intro s v s' v' g h
  cases v with
  | atom a =>
    simp [cpVal] at h
    obtain ⟨e1, e2⟩ := h; subst e1; subst e2
    exact ⟨g, freshVal_atom b pre a⟩
  | ref i =>
    simp only [cpVal] at h
    cases hl : s.m.lookup i with
    | none => simp [hl] at h
    | some j =>
      simp [hl] at h
      obtain ⟨e1, e2⟩ := h; subst e1; subst e2
      exact ⟨g, freshVal_of_memo g hl⟩

theorem pval_succ {b : Nat} {h0 : Heap} {pre : Memo} {fuel : Nat} (hp : PVal b h0 pre fuel) : PVal b h0 pre (fuel + 1) := by
  have hq := pfields_of_pval hp
  have hr := pitems_of_pval hp
  intro s v s' v' g h
  cases v with
  | atom a =>
    simp [cpVal] at h
    obtain ⟨e1, e2⟩ := h; subst e1; subst e2
    exact ⟨g, freshVal_atom b pre a⟩
  | ref i =>
    simp only [cpVal] at h
    cases hl : s.m.lookup i with
    | some j =>
      simp [hl] at h
      obtain ⟨e1, e2⟩ := h; subst e1; subst e2
      exact ⟨g, freshVal_of_memo g hl⟩
    | none =>
      simp only [hl] at h
      cases ho : s.h[i]? with
      | none => simp [ho] at h
      | some o =>
        simp only [ho] at h
        split at h
        · -- AnnotationSet.__deepcopy__
          split at h
          · rename_i tv items htv hitems
            cases h1 : cpVal fuel s tv with
            | error e => simp [h1] at h
            | ok r1 =>
              obtain ⟨s1, tv'⟩ := r1
              simp only [h1] at h
              obtain ⟨g1, ft⟩ := hp s tv s1 tv' g h1
              have hb1 := g1.base
              have g2 := good_memo (good_push g1 (Obj.mk .annset o.cls ([])) (by simp)) i s1.h.size hb1
              cases h2 : cpFields fuel ⟨s1.h.push (Obj.mk .annset o.cls []), (i, s1.h.size) :: s1.m⟩ items with
              | error e => simp [h2] at h
              | ok r2 =>
                obtain ⟨s3, items'⟩ := r2
                simp only [h2] at h
                simp at h
                obtain ⟨e1, e2⟩ := h; subst e1; subst e2
                obtain ⟨g3, fi⟩ := hq items _ s3 items' g2 h2
                have hb3 := g3.base
                have hvals : ∀ v ∈ (dedupVals (items'.map Prod.snd).reverse).reverse, FreshVal b pre v := by
                  intro v hv
                  have := mem_dedup_rev hv
                  obtain ⟨f, hf, e⟩ := List.mem_map.mp this
                  subst e; exact fi f hf
                have g4 := good_push g3 (Obj.mk .plain "list" (indexed "#" 0 (dedupVals (items'.map Prod.snd).reverse).reverse)) (by
                  intro f hf; exact hvals _ (mem_indexed hf))
                have g5 := good_push g4 (Obj.mk .plain "set" (indexed "e" 0 (dedupVals (items'.map Prod.snd).reverse).reverse)) (by
                  intro f hf; exact hvals _ (mem_indexed hf))
                refine ⟨good_setFields g5 s1.h.size hb1 _ ?_, freshVal_new pre hb1⟩
                intro f hf
                simp at hf
                rcases hf with hf | hf | hf
                · subst hf; exact freshVal_new pre hb3
                · subst hf; exact freshVal_new pre (by omega)
                · subst hf; exact ft
          · simp at h
        · -- attribute-wise copy; annotations last
          have hb := g.base
          have g1 := good_memo (good_push g { o with fields := [] } (by simp)) i s.h.size hb
          cases h1 : cpFields fuel ⟨s.h.push { o with fields := [] }, (i, s.h.size) :: s.m⟩ (planFields o) with
          | error e => simp [h1] at h
          | ok r1 =>
            obtain ⟨s2, fs'⟩ := r1
            simp only [h1] at h
            obtain ⟨g2, ff⟩ := hq _ _ s2 fs' g1 h1
            have g3 := good_setFields g2 s.h.size hb fs' ff
            split at h
            · simp at h
              obtain ⟨e1, e2⟩ := h; subst e1; subst e2
              exact ⟨g3, freshVal_new pre hb⟩
            · rename_i a ha
              split at h
              · rename_i ao items hao hitems
                cases h2 : cpItems fuel ⟨setFields s2.h s.h.size fs', s2.m⟩ i s.h.size (items.map Prod.snd) with
                | error e => simp [h2] at h
                | ok r2 =>
                  obtain ⟨s4, items'⟩ := r2
                  simp only [h2] at h
                  simp at h
                  obtain ⟨e1, e2⟩ := h; subst e1; subst e2
                  obtain ⟨g4, fi⟩ := hr _ _ i s.h.size s4 items' g3 hb h2
                  exact ⟨good_attach g4 a ao.cls s.h.size hb items' fi, freshVal_new pre hb⟩
              · simp at h

theorem pval_all (b : Nat) (h0 : Heap) (pre : Memo) : ∀ fuel, PVal b h0 pre fuel
  | 0 => pval_zero b h0 pre
  | fuel + 1 => pval_succ (pval_all b h0 pre fuel)

theorem good_init (h : Heap) (pre : Memo) : Good h.size h pre ⟨h, pre⟩ where
  base := Nat.le_refl _
  old := fun _ _ _ => rfl
  fresh := fun p hp => Or.inl hp
  newrefs := by
    intro j o hj hget
    have : h[j]? = none := by simp; omega
    rw [this] at hget; cases hget

end Aux

open Aux

/-! ## the property theorems -/

/-- **copy_fresh**: every object the copy maps a source object to is either a pre-seeded target or freshly allocated
(`≥ h.size`); in particular nothing of the source is reused unless the route's pre-seeding says so. -/
theorem copy_fresh (fuel : Nat) (h : Heap) (pre : Memo) (v : Val) (s' : St) (v' : Val)
    (hr : cpVal fuel ⟨h, pre⟩ v = .ok (s', v')) :
    ∀ p ∈ s'.m, p ∈ pre ∨ h.size ≤ p.2 :=
  ((pval_all h.size h pre fuel) _ _ _ _ (good_init h pre) hr).1.fresh

/-- **copy_no_write**: the copy never writes to an object that existed before, except possibly to a pre-seeded target that
is an attribute-bound annotation (re-targeting). -/
theorem copy_no_write (fuel : Nat) (h : Heap) (pre : Memo) (v : Val) (s' : St) (v' : Val)
    (hr : cpVal fuel ⟨h, pre⟩ v = .ok (s', v')) :
    ∀ x, x < h.size → ¬ Writable h pre x → s'.h[x]? = h[x]? :=
  ((pval_all h.size h pre fuel) _ _ _ _ (good_init h pre) hr).1.old

/-- deep copy (empty memo): the source heap is untouched. -/
theorem copy_no_write_deep (fuel : Nat) (h : Heap) (v : Val) (s' : St) (v' : Val)
    (hr : cpVal fuel ⟨h, []⟩ v = .ok (s', v')) :
    ∀ x, x < h.size → s'.h[x]? = h[x]? := by
  intro x hx
  exact copy_no_write fuel h [] v s' v' hr x hx (by intro hw; simp [Writable, targets] at hw)

/-- namespace-scoped copy: if no pre-seeded target is a bound annotation (the targets are the namespace and its taxa),
the whole heap that existed before — source, namespace and taxa — is untouched. -/
theorem copy_no_write_scoped (fuel : Nat) (h : Heap) (pre : Memo) (v : Val) (s' : St) (v' : Val)
    (hpre : ∀ x ∈ targets pre, isBound h x = false)
    (hr : cpVal fuel ⟨h, pre⟩ v = .ok (s', v')) :
    ∀ x, x < h.size → s'.h[x]? = h[x]? := by
  intro x hx
  exact copy_no_write fuel h pre v s' v' hr x hx (by
    intro hw; have := hpre x hw.1; rw [hw.2] at this; cases this)

/-- **copy_disjoint** (local form): the value returned and every reference stored in an object allocated by the copy is
either fresh or a pre-seeded target — the copy points into the old heap only through the pre-seeded range. -/
theorem copy_disjoint (fuel : Nat) (h : Heap) (pre : Memo) (v : Val) (s' : St) (v' : Val)
    (hr : cpVal fuel ⟨h, pre⟩ v = .ok (s', v')) :
    FreshVal h.size pre v' ∧
    ∀ j o, h.size ≤ j → s'.h[j]? = some o → ∀ f ∈ o.fields, FreshVal h.size pre f.2 :=
  let r := (pval_all h.size h pre fuel) _ _ _ _ (good_init h pre) hr
  ⟨r.2, r.1.newrefs⟩

/-- **copy_disjoint** (reachability form, "shares exactly the pre-seeded range"): an old object reachable from the copy
is reachable from a pre-seeded target. -/
theorem copy_shares_only_preseeded (fuel : Nat) (h : Heap) (pre : Memo) (v : Val) (s' : St) (v' : Val)
    (hr : cpVal fuel ⟨h, pre⟩ v = .ok (s', v')) :
    ∀ x, Reach s'.h v' x → x < h.size → ∃ r ∈ targets pre, Reach s'.h (.ref r) x := by
  obtain ⟨hv, hnew⟩ := copy_disjoint fuel h pre v s' v' hr
  clear hr
  intro x hx
  induction hx with
  | root i =>
    intro hlt
    rcases hv i rfl with hp | hge
    · exact ⟨i, hp, Reach.root i⟩
    · omega
  | @step v0 i k o f hri hget hf hfk ih =>
    intro hlt
    by_cases hi : i < h.size
    · obtain ⟨r, hr1, hr2⟩ := ih hv hi
      exact ⟨r, hr1, Reach.step hr2 hget hf hfk⟩
    · rcases hnew i o (by omega) hget f hf k hfk with hp | hge
      · exact ⟨k, hp, Reach.root k⟩
      · omega

/-- deep copy: nothing that existed before is reachable from the copy — it shares no part with its source. -/
theorem deep_copy_shares_nothing (fuel : Nat) (h : Heap) (v : Val) (s' : St) (v' : Val)
    (hr : cpVal fuel ⟨h, []⟩ v = .ok (s', v')) :
    ∀ x, Reach s'.h v' x → h.size ≤ x := by
  intro x hx
  by_cases hlt : x < h.size
  · obtain ⟨r, hr1, _⟩ := copy_shares_only_preseeded fuel h [] v s' v' hr x hx hlt
    simp [targets] at hr1
  · omega

/-- **frame, source side**: any later write (an arbitrary replacement `o'` of the object) to an old object `x` that is not
reachable from a pre-seeded target leaves the copy untouched: the same objects are reachable from the copy and each of
them is unchanged. -/
theorem frame_source_write (fuel : Nat) (h : Heap) (pre : Memo) (v : Val) (s' : St) (v' : Val)
    (hr : cpVal fuel ⟨h, pre⟩ v = .ok (s', v'))
    (x : Nat) (hx : x < h.size) (hnot : ∀ r ∈ targets pre, ¬ Reach s'.h (.ref r) x) (o' : Obj) :
    ∀ y, (Reach (s'.h.setIfInBounds x o') v' y ↔ Reach s'.h v' y) ∧
         (Reach s'.h v' y → (s'.h.setIfInBounds x o')[y]? = s'.h[y]?) := by
  have hne : ∀ y, Reach s'.h v' y → y ≠ x := by
    intro y hy e; subst e
    obtain ⟨r, hr1, hr2⟩ := copy_shares_only_preseeded fuel h pre v s' v' hr y hy hx
    exact hnot r hr1 hr2
  have hsame : ∀ y, Reach s'.h v' y → (s'.h.setIfInBounds x o')[y]? = s'.h[y]? := by
    intro y hy
    have := hne y hy
    simp [Array.getElem?_setIfInBounds, Ne.symm this]
  clear hne hr
  intro y
  refine ⟨⟨?_, ?_⟩, hsame y⟩
  · intro hy
    induction hy with
    | root i => exact Reach.root i
    | step _ hget hf hfk ih => exact Reach.step (ih hsame) (by rw [← hsame _ (ih hsame)]; exact hget) hf hfk
  · intro hy
    induction hy with
    | root i => exact Reach.root i
    | step hri hget hf hfk ih => exact Reach.step (ih hsame) (by rw [hsame _ hri]; exact hget) hf hfk

/-- **frame, copy side**: any later write to an object allocated by the copy leaves every old object unchanged, and — when the
source heap is closed and no pre-seeded target is writable — everything reachable from any old object stays old and unchanged:
no change of the copy is visible through the source. -/
theorem frame_copy_write (fuel : Nat) (h : Heap) (pre : Memo) (v : Val) (s' : St) (v' : Val)
    (hclosed : Closed h) (hpre : ∀ x ∈ targets pre, isBound h x = false)
    (hr : cpVal fuel ⟨h, pre⟩ v = .ok (s', v'))
    (y : Nat) (hy : h.size ≤ y) (o' : Obj) (r : Nat) (hrlt : r < h.size) :
    ∀ x, Reach (s'.h.setIfInBounds y o') (.ref r) x → x < h.size ∧ (s'.h.setIfInBounds y o')[x]? = h[x]? := by
  have hold := copy_no_write_scoped fuel h pre v s' v' hpre hr
  have hsame : ∀ x, x < h.size → (s'.h.setIfInBounds y o')[x]? = h[x]? := by
    intro x hx
    have : y ≠ x := by omega
    simp [Array.getElem?_setIfInBounds, this, hold x hx]
  intro x hx
  generalize hv : Val.ref r = v0 at hx
  induction hx with
  | root i => cases hv; exact ⟨hrlt, hsame _ hrlt⟩
  | step _ hget hf hfk ih =>
    obtain ⟨hi, _⟩ := ih hv
    rw [hsame _ hi] at hget
    have := hclosed _ _ hget _ hf _ hfk
    exact ⟨this, hsame _ this⟩

/-- **bound_annotation_retarget**: after the re-targeting step, an attribute-bound copy whose source was bound to the
source owner `i` is bound to the copy `j` (same attribute name). -/
theorem bound_annotation_retarget (s : St) (i j i1 j2 : Nat) (nm : String)
    (hb : isBound s.h j2 = true) (hv : boundValue s.h i1 = some (.ref i, .atom nm)) :
    boundValue (retarget s i j (.ref i1) (.ref j2)).h j2 = some (.ref j, .atom nm) := by
  have hlt : j2 < s.h.size := by
    unfold isBound at hb
    cases hg : s.h[j2]? with
    | none => simp [hg] at hb
    | some o => exact (Array.getElem?_eq_some_iff.mp hg).1
  simp only [retarget, hb, hv, if_true, beq_self_eq_true]
  obtain ⟨o, ho⟩ : ∃ o, s.h[j2]? = some o := ⟨s.h[j2], by simp [hlt]⟩
  have hne : j2 ≠ s.h.size := by omega
  have hlookup : ∀ (fs : List (String × Val)) (v : Val), (setFieldL "_value" v fs).lookup "_value" = some v := by
    intro fs v
    induction fs with
    | nil => simp [setFieldL, List.lookup]
    | cons p r ih =>
      obtain ⟨k, x⟩ := p
      simp only [setFieldL]
      by_cases hk : k == "_value"
      · simp at hk; subst hk; simp [List.lookup]
      · have hk' : ("_value" == k) = false := by
          simp at hk ⊢; exact fun e => hk e.symm
        simp [hk, List.lookup, hk', ih]
  unfold boundValue setField
  simp [Array.getElem?_push, hne, ho, Array.getElem?_setIfInBounds, hlt, Nat.lt_succ_of_lt hlt, Obj.get, hlookup,
    Nat.ne_of_gt hlt, List.lookup]

/-- **copy_independent_partial**: freshness + no write + disjointness + both frame directions, bundled for the deep copy.
What is missing for the full statement: `copy_iso` — that the copy is field-wise equal to the source under the memo
(structural equality of source and copy) is *not* proved here; it is covered by the per-case comparison with the real copy
and by the fingerprint oracle only.  Nor is fuel sufficiency proved (the driver reports `err fuel`, it never defaults). -/
theorem copy_independent_partial (fuel : Nat) (h : Heap) (v : Val) (s' : St) (v' : Val)
    (hr : cpVal fuel ⟨h, []⟩ v = .ok (s', v')) :
    (∀ p ∈ s'.m, h.size ≤ p.2) ∧
    (∀ x, x < h.size → s'.h[x]? = h[x]?) ∧
    (∀ x, Reach s'.h v' x → h.size ≤ x) ∧
    (∀ x o' y, x < h.size → Reach s'.h v' y → (s'.h.setIfInBounds x o')[y]? = s'.h[y]?) := by
  refine ⟨?_, copy_no_write_deep fuel h v s' v' hr, deep_copy_shares_nothing fuel h v s' v' hr, ?_⟩
  · intro p hp
    rcases copy_fresh fuel h [] v s' v' hr p hp with h1 | h1
    · cases h1
    · exact h1
  · intro x o' y hx hy
    exact ((frame_source_write fuel h [] v s' v' hr x hx (by intro r hr1; simp [targets] at hr1) o') y).2 hy

/-! ## the thin structural clone -/

mutual
/-- leaf taxa, left to right -/
def X.leaves : X → List String
  | .node t _ _ _ [] => [t]
  | .node _ _ _ _ (c :: cs) => X.leavesL (c :: cs)
def X.leavesL : List X → List String
  | [] => []
  | c :: cs => X.leaves c ++ X.leavesL cs
end

mutual
/-- no node with exactly one child -/
def X.noUnary : X → Bool
  | .node _ _ _ _ cs => cs.length != 1 && X.noUnaryL cs
def X.noUnaryL : List X → Bool
  | [] => true
  | c :: cs => X.noUnary c && X.noUnaryL cs
end

namespace Aux
theorem withLen_leaves (k : X) (l : Option Frac) : (k.withLen l).leaves = k.leaves := by
  cases k with
  | node t l' s e cs => cases cs <;> simp [X.withLen, X.leaves]

theorem withLen_noUnary (k : X) (l : Option Frac) : (k.withLen l).noUnary = k.noUnary := by
  cases k with
  | node t l' s e cs => simp [X.withLen, X.noUnary]

theorem extractL_length (sup : Bool) (tax elb : Nat → String) (cs : List T) : (extractL sup tax elb cs).length = cs.length := by
  induction cs with
  | nil => simp [extractL]
  | cons c cs ih => simp [extractL, ih]
end Aux

mutual
/-- **extract_leaves**: the extracted tree carries exactly the leaf taxa of its source, in the same order, with or
without suppression of unifurcations (taxa are referenced, never copied or dropped). -/
theorem extract_leaves (sup : Bool) (tax elb : Nat → String) : ∀ t : T,
    (extract sup tax elb t).leaves = (t.leaves.map (fun x => tax x.id))
  | .node i x l s [] => by
    cases sup <;> simp [extract, extractL, X.leaves, T.leaves, T.id]
  | .node i x l s (c :: cs) => by
    have ih := extractL_leaves sup tax elb (c :: cs)
    simp only [T.leaves]
    rw [← ih]
    cases hks : extractL sup tax elb (c :: cs) with
    | nil => simp [extractL] at hks
    | cons k ks =>
      cases ks with
      | nil => cases sup <;> simp [extract, hks, X.leaves, X.leavesL, withLen_leaves]
      | cons k2 ks2 => cases sup <;> simp [extract, hks, X.leaves]
theorem extractL_leaves (sup : Bool) (tax elb : Nat → String) : ∀ ts : List T,
    X.leavesL (extractL sup tax elb ts) = ((T.leavesL ts).map (fun x => tax x.id))
  | [] => by simp [extractL, X.leavesL, T.leavesL]
  | c :: cs => by
    simp [extractL, X.leavesL, T.leavesL, extract_leaves sup tax elb c, extractL_leaves sup tax elb cs]
end

mutual
/-- **extract_suppresses**: with `suppress_unifurcations` the extracted tree has no node of outdegree one. -/
theorem extract_suppresses (tax elb : Nat → String) : ∀ t : T, (extract true tax elb t).noUnary = true
  | .node i x l s cs => by
    have ih := extractL_suppresses tax elb cs
    cases hks : extractL true tax elb cs with
    | nil => simp [extract, hks, X.noUnary, X.noUnaryL]
    | cons k ks =>
      rw [hks] at ih
      cases ks with
      | nil =>
        simp [X.noUnaryL] at ih
        simp [extract, hks, withLen_noUnary, ih]
      | cons k2 ks2 => simp [extract, hks, X.noUnary, ih]
theorem extractL_suppresses (tax elb : Nat → String) : ∀ ts : List T, X.noUnaryL (extractL true tax elb ts) = true
  | [] => by simp [extractL, X.noUnaryL]
  | c :: cs => by
    simp [extractL, X.noUnaryL, extract_suppresses tax elb c, extractL_suppresses tax elb cs]
end

/-! ## non-vacuity: the hypotheses are satisfiable and the conclusions are not empty -/

/-- a cyclic 2-object heap: a node 0 with a reference to 1, which points back to 0 -/
def exHeap : Heap := #[
  { kind := .plain, cls := "Node", fields := [("p", .ref 1), ("w", .atom "None")] },
  { kind := .plain, cls := "Node", fields := [("c", .ref 0)] }]

/-- deep copy of the cycle: two fresh objects, the cycle is reproduced among them -/
example : ∃ s' v', cpVal 2 ⟨exHeap, []⟩ (.ref 0) = .ok (s', v') ∧ v' = .ref 2 ∧ s'.h.size = 4 := by
  simp [cpVal, cpFields, exHeap, planFields, annotationsRef, setFields, List.lookup]
  exact ⟨_, _, ⟨rfl, rfl⟩, rfl, rfl⟩
/-- with object 1 pre-seeded to itself only one object is allocated and it references the shared object 1 -/
example : ∃ s' v', cpVal 2 ⟨exHeap, [(1, 1)]⟩ (.ref 0) = .ok (s', v') ∧ v' = .ref 2 ∧ s'.h.size = 3 := by
  simp [cpVal, cpFields, exHeap, planFields, annotationsRef, setFields, List.lookup]
  exact ⟨_, _, ⟨rfl, rfl⟩, rfl, rfl⟩
example : Closed exHeap := by
  intro i o hget f hf k hk
  have hi : i < 2 := (Array.getElem?_eq_some_iff.mp hget).1
  match i, hi with
  | 0, _ =>
    simp [exHeap] at hget; subst hget; simp at hf
    rcases hf with h | h <;> subst h <;> simp at hk
    subst hk; decide
  | 1, _ =>
    simp [exHeap] at hget; subst hget; simp at hf
    subst hf; simp at hk; subst hk; decide
example : ∀ x ∈ targets [(1, 1)], isBound exHeap x = false := by
  intro x hx; simp [targets] at hx; subst hx; rfl

end DendroModel.C12
