import DendroModel.Model.C12
import DendroModel.Theory.C08Len
import DendroModel.Gen.C12Copy
import DendroModel.Gen.C08Kernels
/-! C12 — property theorems about the memo-driven copy model (`cpVal`/`cpFields`/`cpItems` of `Model/C12.lean`,
the definitions the driver runs).

`h` is the heap before the copy (its size `h.size` is "the next free id"), `pre` the pre-seeded memo of the route
(empty: deep copy; namespace and taxa ↦ themselves: namespace-scoped copy; namespace ↦ other namespace, taxa ↦
their label-matched taxa: copy into another namespace).  Property theorems live in `namespace DendroModel.C12`,
helper lemmas in `DendroModel.C12.Aux`. -/
namespace DendroModel.C12
open DendroModel DendroModel.C08

/-- the targets of a memo (`memo.values()`) -/
def targets (m : Memo) : List Nat := m.map Prod.snd

/-- objects the copy may write although they existed before: pre-seeded targets that are attribute-bound annotations
(`deep_copy_annotations_from` re-targets whatever the memo returns for a bound annotation of the source).  Empty for the
deep copy, and empty for the namespace-scoped routes, whose pre-seeded targets are the namespace and its taxa. -/
def Writable (h : Heap) (pre : Memo) (x : Nat) : Prop := x ∈ targets pre ∧ isBound h x = true

/-- a value "of the copy": a reference is either freshly allocated (`≥ b`) or a pre-seeded target -/
def FreshVal (b : Nat) (pre : Memo) (v : Val) : Prop := ∀ k, v = .ref k → k ∈ targets pre ∨ b ≤ k

/-- `x` is reachable from value `v` through references stored in fields -/
inductive Reach (h : Heap) : Val → Nat → Prop
  | root (i : Nat) : Reach h (.ref i) i
  | step {v : Val} {i k : Nat} {o : Obj} {f : String × Val} :
      Reach h v i → h[i]? = some o → f ∈ o.fields → f.2 = .ref k → Reach h v k

/-- every reference stored in an object of the heap points inside the heap (the exported source graph is closed) -/
def Closed (h : Heap) : Prop :=
  ∀ (i : Nat) (o : Obj), h[i]? = some o → ∀ f ∈ o.fields, ∀ k : Nat, f.2 = Val.ref k → k < h.size

namespace Aux

/-- the invariant of the copy, relative to the heap `h0` before the copy, `b = h0.size` and the pre-seeded memo -/
structure Good (b : Nat) (h0 : Heap) (pre : Memo) (s : St) : Prop where
  base : b ≤ s.h.size
  old : ∀ x, x < b → ¬ Writable h0 pre x → s.h[x]? = h0[x]?
  fresh : ∀ p ∈ s.m, p ∈ pre ∨ b ≤ p.2
  newrefs : ∀ j o, b ≤ j → s.h[j]? = some o → ∀ f ∈ o.fields, FreshVal b pre f.2
  /-- (when the pre-seeded targets exist) every memo target is an allocated object -/
  lt : (∀ p ∈ pre, p.2 < b) → ∀ p ∈ s.m, p.2 < s.h.size
  /-- (when the pre-seeded targets exist) a fresh target is the copy of one source only -/
  inj : (∀ p ∈ pre, p.2 < b) → ∀ p q, p ∈ s.m → q ∈ s.m → b ≤ p.2 → p.2 = q.2 → p.1 = q.1

theorem size_setField (h : Heap) (j : Nat) (n : String) (v : Val) : (setField h j n v).size = h.size := by
  unfold setField; split <;> simp
theorem size_setFields (h : Heap) (j : Nat) (fs : List (String × Val)) : (setFields h j fs).size = h.size := by
  unfold setFields; split <;> simp

theorem lookup_mem {m : Memo} {i j : Nat} (h : m.lookup i = some j) : (i, j) ∈ m := by
  induction m with
  | nil => simp at h
  | cons p r ih =>
    obtain ⟨a, c⟩ := p
    simp only [List.lookup] at h
    by_cases hia : i == a
    · simp [hia] at h; simp at hia; subst hia; subst h; simp
    · simp [hia] at h; exact List.mem_cons_of_mem _ (ih h)

theorem freshVal_atom (b : Nat) (pre : Memo) (a : String) : FreshVal b pre (.atom a) := by
  intro k hk; cases hk

theorem freshVal_new {b : Nat} (pre : Memo) {j : Nat} (h : b ≤ j) : FreshVal b pre (.ref j) := by
  intro k hk; cases hk; exact Or.inr h

theorem freshVal_of_memo {b : Nat} {h0 : Heap} {pre : Memo} {s : St} (g : Good b h0 pre s) {i j : Nat}
    (h : s.m.lookup i = some j) : FreshVal b pre (.ref j) := by
  intro k hk; cases hk
  rcases g.fresh _ (lookup_mem h) with hp | hb
  · left; exact List.mem_map.mpr ⟨_, hp, rfl⟩
  · exact Or.inr hb

theorem mem_setFieldL {name : String} {v : Val} {fs : List (String × Val)} {f : String × Val}
    (h : f ∈ setFieldL name v fs) : f.2 = v ∨ f ∈ fs := by
  induction fs with
  | nil => simp [setFieldL] at h; subst h; exact Or.inl rfl
  | cons p r ih =>
    obtain ⟨k, x⟩ := p
    simp only [setFieldL] at h
    by_cases hk : k == name
    · simp [hk] at h
      rcases h with h | h
      · subst h; exact Or.inl rfl
      · exact Or.inr (List.mem_cons_of_mem _ h)
    · simp [hk] at h
      rcases h with h | h
      · subst h; exact Or.inr (by simp)
      · rcases ih h with h | h
        · exact Or.inl h
        · exact Or.inr (List.mem_cons_of_mem _ h)

theorem mem_dedupVals {l : List Val} {v : Val} (h : v ∈ dedupVals l) : v ∈ l := by
  induction l with
  | nil => simp [dedupVals] at h
  | cons x r ih =>
    rw [dedupVals] at h
    split at h
    · exact List.mem_cons_of_mem _ (ih h)
    · rcases List.mem_cons.mp h with h | h
      · subst h; simp
      · exact List.mem_cons_of_mem _ (ih h)

theorem mem_indexed {pre : String} {k : Nat} {l : List Val} {f : String × Val} (h : f ∈ indexed pre k l) : f.2 ∈ l := by
  induction l generalizing k with
  | nil => simp [indexed] at h
  | cons x r ih =>
    simp only [indexed, List.mem_cons] at h
    rcases h with h | h
    · subst h; simp
    · exact List.mem_cons_of_mem _ (ih h)

theorem mem_dedup_rev {l : List Val} {v : Val} (h : v ∈ (dedupVals l.reverse).reverse) : v ∈ l := by
  have := mem_dedupVals (List.mem_reverse.mp h)
  exact List.mem_reverse.mp this

/-- allocation of an object whose fields are values of the copy -/
theorem good_push {b : Nat} {h0 : Heap} {pre : Memo} {s : St} (g : Good b h0 pre s) (o : Obj)
    (ho : ∀ f ∈ o.fields, FreshVal b pre f.2) : Good b h0 pre ⟨s.h.push o, s.m⟩ where
  base := by have := g.base; simp; omega
  old := by
    intro x hx hw
    have := g.base
    rw [← g.old x hx hw]
    simp [Array.getElem?_push]
    intro hxs; omega
  fresh := g.fresh
  newrefs := by
    intro j o' hj hget f hf
    simp only [Array.getElem?_push] at hget
    by_cases hjs : j = s.h.size
    · simp [hjs] at hget; subst hget; exact ho f hf
    · simp [hjs] at hget; exact g.newrefs j o' hj hget f hf
  lt := by
    intro hp p hm
    have := g.lt hp p hm
    simp; omega
  inj := g.inj

theorem good_memo {b : Nat} {h0 : Heap} {pre : Memo} {s : St} (g : Good b h0 pre s) (i j : Nat) (hj : b ≤ j)
    (hjlt : j < s.h.size) (hjnew : (∀ p ∈ pre, p.2 < b) → ∀ p ∈ s.m, p.2 ≠ j) :
    Good b h0 pre ⟨s.h, (i, j) :: s.m⟩ where
  base := g.base
  old := g.old
  fresh := by
    intro p hp
    rcases List.mem_cons.mp hp with h | h
    · subst h; exact Or.inr hj
    · exact g.fresh p h
  newrefs := g.newrefs
  lt := by
    intro hp p hm
    rcases List.mem_cons.mp hm with h | h
    · subst h; exact hjlt
    · exact g.lt hp p h
  inj := by
    intro hp p q hpm hqm hb he
    rcases List.mem_cons.mp hpm with h1 | h1 <;> rcases List.mem_cons.mp hqm with h2 | h2
    · subst h1; subst h2; rfl
    · subst h1; exact absurd he.symm (hjnew hp q h2)
    · subst h2; exact absurd he (hjnew hp p h1)
    · exact g.inj hp p q h1 h2 hb he

/-- overwriting the fields of a fresh object with values of the copy -/
theorem good_setFields {b : Nat} {h0 : Heap} {pre : Memo} {s : St} (g : Good b h0 pre s) (j : Nat) (hj : b ≤ j)
    (fs : List (String × Val)) (hfs : ∀ f ∈ fs, FreshVal b pre f.2) : Good b h0 pre ⟨setFields s.h j fs, s.m⟩ := by
  unfold setFields
  cases hget : s.h[j]? with
  | none => simpa using g
  | some o =>
    simp only
    refine ⟨?_, ?_, g.fresh, ?_, ?_, g.inj⟩
    rotate_right
    · intro hp p hm; have := g.lt hp p hm; simpa using this
    · have := g.base; simpa using this
    · intro x hx hw
      rw [← g.old x hx hw]
      have : j ≠ x := by omega
      simp [Array.getElem?_setIfInBounds, this]
    · intro j' o' hj' hget' f hf
      simp only [Array.getElem?_setIfInBounds] at hget'
      have hlt : j < s.h.size := (Array.getElem?_eq_some_iff.mp hget).1
      by_cases hjj : j = j'
      · subst hjj
        simp [hlt] at hget'; subst hget'; exact hfs f hf
      · simp [hjj] at hget'; exact g.newrefs j' o' hj' hget' f hf

/-- `obj.__dict__[name] = v` with a value of the copy, on an object that is fresh or writable -/
theorem good_setField {b : Nat} {h0 : Heap} {pre : Memo} {s : St} (g : Good b h0 pre s) (j : Nat)
    (hj : b ≤ j ∨ Writable h0 pre j) (name : String) (v : Val) (hv : FreshVal b pre v) :
    Good b h0 pre ⟨setField s.h j name v, s.m⟩ := by
  unfold setField
  cases hget : s.h[j]? with
  | none => simpa using g
  | some o =>
    simp only
    refine ⟨?_, ?_, g.fresh, ?_, ?_, g.inj⟩
    rotate_right
    · intro hp p hm; have := g.lt hp p hm; simpa using this
    · have := g.base; simpa using this
    · intro x hx hw
      rw [← g.old x hx hw]
      have : j ≠ x := by
        intro e; subst e
        rcases hj with h | h
        · omega
        · exact hw h
      simp [Array.getElem?_setIfInBounds, this]
    · intro j' o' hj' hget' f hf
      simp only [Array.getElem?_setIfInBounds] at hget'
      have hlt : j < s.h.size := (Array.getElem?_eq_some_iff.mp hget).1
      by_cases hjj : j = j'
      · subst hjj
        simp [hlt] at hget'; subst hget'
        rcases mem_setFieldL hf with h | h
        · rw [h]; exact hv
        · exact g.newrefs j o hj' hget f h
      · simp [hjj] at hget'; exact g.newrefs j' o' hj' hget' f hf

theorem isBound_congr {h1 h2 : Heap} {j : Nat} (e : h1[j]? = h2[j]?) : isBound h1 j = isBound h2 j := by
  unfold isBound; rw [e]

theorem good_retarget {b : Nat} {h0 : Heap} {pre : Memo} {s : St} (g : Good b h0 pre s) (i j : Nat) (hj : b ≤ j)
    (a1 a2 : Val) (ha2 : FreshVal b pre a2) : Good b h0 pre (retarget s i j a1 a2) := by
  unfold retarget
  split
  · rename_i i1 j2
    split
    · rename_i hb
      split
      · rename_i ow nm hbv
        split
        · -- the write: j2 is fresh, or a writable pre-seeded target
          have hj2 : b ≤ j2 ∨ Writable h0 pre j2 := by
            rcases ha2 j2 rfl with hp | hge
            · by_cases hlt : j2 < b
              · by_cases hw : Writable h0 pre j2
                · exact Or.inr hw
                · have e := g.old j2 hlt hw
                  have : isBound h0 j2 = true := by rw [← isBound_congr e]; exact hb
                  exact Or.inr ⟨hp, this⟩
              · exact Or.inl (by omega)
            · exact Or.inl hge
          have g1 := good_push g (Obj.mk .tuple "tuple" ([("#0", .ref j), ("#1", .atom nm)])) (by
            intro f hf
            simp at hf
            rcases hf with hf | hf
            · subst hf; exact freshVal_new pre hj
            · subst hf; exact freshVal_atom b pre nm)
          exact good_setField g1 j2 hj2 "_value" (.ref s.h.size) (freshVal_new pre g.base)
        · exact g
      · exact g
    · exact g
  · exact g

theorem good_attach {b : Nat} {h0 : Heap} {pre : Memo} {s : St} (g : Good b h0 pre s) (a : Nat) (cls : String) (j : Nat)
    (hj : b ≤ j) (items : List Val) (hit : ∀ v ∈ items, FreshVal b pre v) :
    Good b h0 pre (attachAnnotations s a cls j items) := by
  unfold attachAnnotations
  split
  · exact g
  · simp only [pushAnnSet]
    have hb := g.base
    have g1 := good_push g (Obj.mk .plain "list" (indexed "#" 0 (dedupVals items.reverse).reverse)) (by
      intro f hf; exact hit _ (mem_dedup_rev (mem_indexed hf)))
    have g2 := good_push g1 (Obj.mk .plain "set" (indexed "e" 0 (dedupVals items.reverse).reverse)) (by
      intro f hf; exact hit _ (mem_dedup_rev (mem_indexed hf)))
    have g3 := good_push g2 (Obj.mk .annset cls
        [("_item_list", Val.ref s.h.size), ("_item_set", Val.ref (s.h.size + 1)), ("target", Val.ref j)]) (by
      intro f hf
      simp at hf
      rcases hf with hf | hf | hf
      · subst hf; exact freshVal_new pre hb
      · subst hf; exact freshVal_new pre (by omega)
      · subst hf; exact freshVal_new pre hj)
    have g4 := good_setField g3 j (Or.inl hj) "_annotations" (.ref (s.h.size + 2)) (freshVal_new pre (by omega))
    exact good_memo g4 a (s.h.size + 2) (by omega) (by simp [size_setField])
      (fun hp p hm => by have := g.lt hp p hm; omega)

/-- postconditions of the three mutually recursive copy functions -/
def PVal (b : Nat) (h0 : Heap) (pre : Memo) (fuel : Nat) : Prop :=
  ∀ s v s' v', Good b h0 pre s → cpVal fuel s v = .ok (s', v') → Good b h0 pre s' ∧ FreshVal b pre v'
def PFields (b : Nat) (h0 : Heap) (pre : Memo) (fuel : Nat) : Prop :=
  ∀ fs s s' fs', Good b h0 pre s → cpFields fuel s fs = .ok (s', fs') → Good b h0 pre s' ∧ ∀ f ∈ fs', FreshVal b pre f.2
def PItems (b : Nat) (h0 : Heap) (pre : Memo) (fuel : Nat) : Prop :=
  ∀ items s i j s' items', Good b h0 pre s → b ≤ j → cpItems fuel s i j items = .ok (s', items') →
    Good b h0 pre s' ∧ ∀ v ∈ items', FreshVal b pre v

theorem pfields_of_pval {b : Nat} {h0 : Heap} {pre : Memo} {fuel : Nat} (hp : PVal b h0 pre fuel) : PFields b h0 pre fuel := by
  intro fs
  induction fs with
  | nil =>
    intro s s' fs' g h
    simp [cpFields] at h
    obtain ⟨h1, h2⟩ := h; subst h1; subst h2
    exact ⟨g, by simp⟩
  | cons kv r ih =>
    intro s s' fs' g h
    obtain ⟨k, v⟩ := kv
    simp only [cpFields] at h
    cases h1 : cpVal fuel s v with
    | error e => simp [h1] at h
    | ok r1 =>
      obtain ⟨s1, v1⟩ := r1
      simp only [h1] at h
      cases h2 : cpFields fuel s1 r with
      | error e => simp [h2] at h
      | ok r2 =>
        obtain ⟨s2, r'⟩ := r2
        simp only [h2] at h
        simp at h
        obtain ⟨e1, e2⟩ := h; subst e1; subst e2
        obtain ⟨g1, f1⟩ := hp s v s1 v1 g h1
        obtain ⟨g2, f2⟩ := ih s1 s2 r' g1 h2
        refine ⟨g2, ?_⟩
        intro f hf
        rcases List.mem_cons.mp hf with hf | hf
        · subst hf; exact f1
        · exact f2 f hf

theorem pitems_of_pval {b : Nat} {h0 : Heap} {pre : Memo} {fuel : Nat} (hp : PVal b h0 pre fuel) : PItems b h0 pre fuel := by
  intro items
  induction items with
  | nil =>
    intro s i j s' items' g hj h
    simp [cpItems] at h
    obtain ⟨h1, h2⟩ := h; subst h1; subst h2
    exact ⟨g, by simp⟩
  | cons a1 r ih =>
    intro s i j s' items' g hj h
    simp only [cpItems] at h
    cases h1 : cpVal fuel s a1 with
    | error e => simp [h1] at h
    | ok r1 =>
      obtain ⟨s1, a2⟩ := r1
      simp only [h1] at h
      cases h2 : cpItems fuel (retarget s1 i j a1 a2) i j r with
      | error e => simp [h2] at h
      | ok r2 =>
        obtain ⟨s2, r'⟩ := r2
        simp only [h2] at h
        simp at h
        obtain ⟨e1, e2⟩ := h; subst e1; subst e2
        obtain ⟨g1, f1⟩ := hp s a1 s1 a2 g h1
        obtain ⟨g2, f2⟩ := ih (retarget s1 i j a1 a2) i j s2 r' (good_retarget g1 i j hj a1 a2 f1) hj h2
        refine ⟨g2, ?_⟩
        intro v hv
        rcases List.mem_cons.mp hv with hv | hv
        · subst hv; exact f1
        · exact f2 v hv

theorem pval_zero (b : Nat) (h0 : Heap) (pre : Memo) : PVal b h0 pre 0 := by
  intro s v s' v' g h
  cases v with
  | atom a =>
    simp [cpVal] at h
    obtain ⟨e1, e2⟩ := h; subst e1; subst e2
    exact ⟨g, freshVal_atom b pre a⟩
  | ref i =>
    simp only [cpVal] at h
    cases hl : s.m.lookup i with
    | none => simp [hl] at h
    | some j =>
      simp [hl] at h
      obtain ⟨e1, e2⟩ := h; subst e1; subst e2
      exact ⟨g, freshVal_of_memo g hl⟩

theorem pval_succ {b : Nat} {h0 : Heap} {pre : Memo} {fuel : Nat} (hp : PVal b h0 pre fuel) : PVal b h0 pre (fuel + 1) := by
  have hq := pfields_of_pval hp
  have hr := pitems_of_pval hp
  intro s v s' v' g h
  cases v with
  | atom a =>
    simp [cpVal] at h
    obtain ⟨e1, e2⟩ := h; subst e1; subst e2
    exact ⟨g, freshVal_atom b pre a⟩
  | ref i =>
    simp only [cpVal] at h
    cases hl : s.m.lookup i with
    | some j =>
      simp [hl] at h
      obtain ⟨e1, e2⟩ := h; subst e1; subst e2
      exact ⟨g, freshVal_of_memo g hl⟩
    | none =>
      simp only [hl] at h
      cases ho : s.h[i]? with
      | none => simp [ho] at h
      | some o =>
        simp only [ho] at h
        split at h
        · -- AnnotationSet.__deepcopy__
          split at h
          · rename_i tv items htv hitems
            cases h1 : cpVal fuel s tv with
            | error e => simp [h1] at h
            | ok r1 =>
              obtain ⟨s1, tv'⟩ := r1
              simp only [h1] at h
              obtain ⟨g1, ft⟩ := hp s tv s1 tv' g h1
              have hb1 := g1.base
              have g2 := good_memo (good_push g1 (Obj.mk .annset o.cls ([])) (by simp)) i s1.h.size hb1 (by simp)
                (fun hp p hm => Nat.ne_of_lt (g1.lt hp p hm))
              cases h2 : cpFields fuel ⟨s1.h.push (Obj.mk .annset o.cls []), (i, s1.h.size) :: s1.m⟩ items with
              | error e => simp [h2] at h
              | ok r2 =>
                obtain ⟨s3, items'⟩ := r2
                simp only [h2] at h
                simp at h
                obtain ⟨e1, e2⟩ := h; subst e1; subst e2
                obtain ⟨g3, fi⟩ := hq items _ s3 items' g2 h2
                have hb3 := g3.base
                have hvals : ∀ v ∈ (dedupVals (items'.map Prod.snd).reverse).reverse, FreshVal b pre v := by
                  intro v hv
                  have := mem_dedup_rev hv
                  obtain ⟨f, hf, e⟩ := List.mem_map.mp this
                  subst e; exact fi f hf
                have g4 := good_push g3 (Obj.mk .plain "list" (indexed "#" 0 (dedupVals (items'.map Prod.snd).reverse).reverse)) (by
                  intro f hf; exact hvals _ (mem_indexed hf))
                have g5 := good_push g4 (Obj.mk .plain "set" (indexed "e" 0 (dedupVals (items'.map Prod.snd).reverse).reverse)) (by
                  intro f hf; exact hvals _ (mem_indexed hf))
                refine ⟨good_setFields g5 s1.h.size hb1 _ ?_, freshVal_new pre hb1⟩
                intro f hf
                simp at hf
                rcases hf with hf | hf | hf
                · subst hf; exact freshVal_new pre hb3
                · subst hf; exact freshVal_new pre (by omega)
                · subst hf; exact ft
          · simp at h
        · -- attribute-wise copy; annotations last
          have hb := g.base
          have g1 := good_memo (good_push g { o with fields := [] } (by simp)) i s.h.size hb (by simp)
            (fun hp p hm => Nat.ne_of_lt (g.lt hp p hm))
          cases h1 : cpFields fuel ⟨s.h.push { o with fields := [] }, (i, s.h.size) :: s.m⟩ (planFields o) with
          | error e => simp [h1] at h
          | ok r1 =>
            obtain ⟨s2, fs'⟩ := r1
            simp only [h1] at h
            obtain ⟨g2, ff⟩ := hq _ _ s2 fs' g1 h1
            have g3 := good_setFields g2 s.h.size hb fs' ff
            split at h
            · simp at h
              obtain ⟨e1, e2⟩ := h; subst e1; subst e2
              exact ⟨g3, freshVal_new pre hb⟩
            · rename_i a ha
              split at h
              · rename_i ao items hao hitems
                cases h2 : cpItems fuel ⟨setFields s2.h s.h.size fs', s2.m⟩ i s.h.size (items.map Prod.snd) with
                | error e => simp [h2] at h
                | ok r2 =>
                  obtain ⟨s4, items'⟩ := r2
                  simp only [h2] at h
                  simp at h
                  obtain ⟨e1, e2⟩ := h; subst e1; subst e2
                  obtain ⟨g4, fi⟩ := hr _ _ i s.h.size s4 items' g3 hb h2
                  exact ⟨good_attach g4 a ao.cls s.h.size hb items' fi, freshVal_new pre hb⟩
              · simp at h

theorem pval_all (b : Nat) (h0 : Heap) (pre : Memo) : ∀ fuel, PVal b h0 pre fuel
  | 0 => pval_zero b h0 pre
  | fuel + 1 => pval_succ (pval_all b h0 pre fuel)

theorem good_init (h : Heap) (pre : Memo) : Good h.size h pre ⟨h, pre⟩ where
  base := Nat.le_refl _
  old := fun _ _ _ => rfl
  fresh := fun p hp => Or.inl hp
  newrefs := by
    intro j o hj hget
    have : h[j]? = none := by simp; omega
    rw [this] at hget; cases hget
  lt := fun hp p hm => hp p hm
  inj := by
    intro hp p q hpm _ hb _
    have := hp p hpm; omega

/-- what `preseed` guarantees about the state `cpVal` starts from (relative to the exported heap `h`) -/
structure PreInv (h : Heap) (pre : List (Nat × PreTarget)) (s : St) : Prop where
  size : h.size ≤ s.h.size
  old : ∀ x, x < h.size → s.h[x]? = h[x]?
  lt : ∀ p ∈ s.m, p.2 < s.h.size
  tgt : ∀ t ∈ targets s.m, (∃ i, (i, PreTarget.existing t) ∈ pre) ∨ h.size ≤ t
  newUnbound : ∀ x, h.size ≤ x → isBound s.h x = false

theorem preinv_init (h : Heap) (pre : List (Nat × PreTarget)) : PreInv h pre ⟨h, []⟩ where
  size := Nat.le_refl _
  old := fun _ _ => rfl
  lt := by intro p hp; cases hp
  tgt := by intro t ht; simp [targets] at ht
  newUnbound := by
    intro x hx
    have : h[x]? = none := by simp; omega
    simp [isBound, this]

theorem isBound_push_lt (h : Heap) (o : Obj) (x : Nat) (hx : x < h.size) : isBound (h.push o) x = isBound h x := by
  apply isBound_congr; simp [Array.getElem?_push]; omega

theorem preseed_inv (h : Heap) (pre : List (Nat × PreTarget)) : ∀ (r : List (Nat × PreTarget)) (s s0 : St),
    PreInv h pre s → (∀ e ∈ r, e ∈ pre) → preseed s r = .ok s0 → PreInv h pre s0 := by
  intro r
  induction r with
  | nil => intro s s0 g _ hr; simp [preseed] at hr; subst hr; exact g
  | cons e r ih =>
    intro s s0 g hsub hr
    obtain ⟨i, t⟩ := e
    have hsub' : ∀ e ∈ r, e ∈ pre := fun e he => hsub e (List.mem_cons_of_mem _ he)
    cases t with
    | existing j =>
      simp only [preseed] at hr
      by_cases hj : j < s.h.size
      · simp only [hj, if_true] at hr
        refine ih ⟨s.h, (i, j) :: s.m⟩ s0 ⟨g.size, g.old, ?_, ?_, g.newUnbound⟩ hsub' hr
        · intro p hp
          rcases List.mem_cons.mp hp with e | e
          · subst e; exact hj
          · exact g.lt p e
        · intro t ht
          simp only [targets, List.map_cons, List.mem_cons] at ht
          rcases ht with e | e
          · subst e; exact Or.inl ⟨i, hsub _ (by simp)⟩
          · exact g.tgt t e
      · simp [hj] at hr
    | sameAs k =>
      simp only [preseed] at hr
      cases hl : s.m.lookup k with
      | none => simp [hl] at hr
      | some j =>
        simp only [hl] at hr
        have hmem := lookup_mem hl
        refine ih ⟨s.h, (i, j) :: s.m⟩ s0 ⟨g.size, g.old, ?_, ?_, g.newUnbound⟩ hsub' hr
        · intro p hp
          rcases List.mem_cons.mp hp with e | e
          · subst e; exact g.lt (k, j) hmem
          · exact g.lt p e
        · intro t ht
          simp only [targets, List.map_cons, List.mem_cons] at ht
          rcases ht with e | e
          · rw [e]; exact g.tgt j (List.mem_map.mpr ⟨(k, j), hmem, rfl⟩)
          · exact g.tgt t e
    | fresh =>
      simp only [preseed] at hr
      cases ho : s.h[i]? with
      | none => simp [ho] at hr
      | some o =>
        simp only [ho] at hr
        cases hlab : o.get "_label" with
        | none => simp [hlab] at hr
        | some lab =>
          simp only [hlab, newTaxon] at hr
          have hsz := g.size
          have step := fun g' => ih _ s0 g' hsub' hr
          apply step
          refine ⟨?_, ?_, ?_, ?_, ?_⟩
          · simp; omega
          · intro x hx
            rw [← g.old x hx]
            simp [Array.getElem?_push]
            have h1 : x ≠ s.h.size + 1 := by omega
            have h2 : x ≠ s.h.size := by omega
            simp [h1, h2]
          · intro p hp
            rcases List.mem_cons.mp hp with e | e
            · subst e; simp
            · have := g.lt p e; simp; omega
          · intro t ht
            simp only [targets, List.map_cons, List.mem_cons] at ht
            rcases ht with e | e
            · subst e; exact Or.inr (by omega)
            · exact g.tgt t e
          · intro x hx
            by_cases h1 : x < s.h.size
            · rw [isBound_push_lt _ _ _ (by simp; omega), isBound_push_lt _ _ _ h1]; exact g.newUnbound x hx
            · by_cases h2 : x = s.h.size
              · subst h2
                rw [isBound_push_lt _ _ _ (by simp)]
                simp [isBound, Obj.get, List.lookup]
              · by_cases h3 : x = s.h.size + 1
                · subst h3
                  have e : ∀ (a : Heap) (o1 o2 : Obj), ((a.push o1).push o2)[a.size + 1]? = some o2 := by
                    intro a o1 o2; simp [Array.getElem_push]
                  unfold isBound
                  dsimp only
                  rw [e]
                  simp [Obj.get, List.lookup]
                · unfold isBound
                  dsimp only
                  rw [Array.getElem?_eq_none (by simp; omega)]

end Aux

open Aux

/-! ## the property theorems -/

/-- **copy_fresh**: every object the copy maps a source object to is either a pre-seeded target or freshly allocated
(`≥ h.size`); in particular nothing of the source is reused unless the route's pre-seeding says so. -/
theorem copy_fresh (fuel : Nat) (h : Heap) (pre : Memo) (v : Val) (s' : St) (v' : Val)
    (hr : cpVal fuel ⟨h, pre⟩ v = .ok (s', v')) :
    ∀ p ∈ s'.m, p ∈ pre ∨ h.size ≤ p.2 :=
  ((pval_all h.size h pre fuel) _ _ _ _ (good_init h pre) hr).1.fresh

/-- **copy_no_write**: the copy never writes to an object that existed before, except possibly to a pre-seeded target that
is an attribute-bound annotation (re-targeting). -/
theorem copy_no_write (fuel : Nat) (h : Heap) (pre : Memo) (v : Val) (s' : St) (v' : Val)
    (hr : cpVal fuel ⟨h, pre⟩ v = .ok (s', v')) :
    ∀ x, x < h.size → ¬ Writable h pre x → s'.h[x]? = h[x]? :=
  ((pval_all h.size h pre fuel) _ _ _ _ (good_init h pre) hr).1.old

/-- deep copy (empty memo): the source heap is untouched. -/
theorem copy_no_write_deep (fuel : Nat) (h : Heap) (v : Val) (s' : St) (v' : Val)
    (hr : cpVal fuel ⟨h, []⟩ v = .ok (s', v')) :
    ∀ x, x < h.size → s'.h[x]? = h[x]? := by
  intro x hx
  exact copy_no_write fuel h [] v s' v' hr x hx (by intro hw; simp [Writable, targets] at hw)

/-- namespace-scoped copy: if no pre-seeded target is a bound annotation (the targets are the namespace and its taxa),
the whole heap that existed before — source, namespace and taxa — is untouched. -/
theorem copy_no_write_scoped (fuel : Nat) (h : Heap) (pre : Memo) (v : Val) (s' : St) (v' : Val)
    (hpre : ∀ x ∈ targets pre, isBound h x = false)
    (hr : cpVal fuel ⟨h, pre⟩ v = .ok (s', v')) :
    ∀ x, x < h.size → s'.h[x]? = h[x]? := by
  intro x hx
  exact copy_no_write fuel h pre v s' v' hr x hx (by
    intro hw; have := hpre x hw.1; rw [hw.2] at this; cases this)

/-- **copy_disjoint** (local form): the value returned and every reference stored in an object allocated by the copy is
either fresh or a pre-seeded target — the copy points into the old heap only through the pre-seeded range. -/
theorem copy_disjoint (fuel : Nat) (h : Heap) (pre : Memo) (v : Val) (s' : St) (v' : Val)
    (hr : cpVal fuel ⟨h, pre⟩ v = .ok (s', v')) :
    FreshVal h.size pre v' ∧
    ∀ j o, h.size ≤ j → s'.h[j]? = some o → ∀ f ∈ o.fields, FreshVal h.size pre f.2 :=
  let r := (pval_all h.size h pre fuel) _ _ _ _ (good_init h pre) hr
  ⟨r.2, r.1.newrefs⟩

/-- **copy_disjoint** (reachability form, "shares exactly the pre-seeded range"): an old object reachable from the copy
is reachable from a pre-seeded target. -/
theorem copy_shares_only_preseeded (fuel : Nat) (h : Heap) (pre : Memo) (v : Val) (s' : St) (v' : Val)
    (hr : cpVal fuel ⟨h, pre⟩ v = .ok (s', v')) :
    ∀ x, Reach s'.h v' x → x < h.size → ∃ r ∈ targets pre, Reach s'.h (.ref r) x := by
  obtain ⟨hv, hnew⟩ := copy_disjoint fuel h pre v s' v' hr
  clear hr
  intro x hx
  induction hx with
  | root i =>
    intro hlt
    rcases hv i rfl with hp | hge
    · exact ⟨i, hp, Reach.root i⟩
    · omega
  | @step v0 i k o f hri hget hf hfk ih =>
    intro hlt
    by_cases hi : i < h.size
    · obtain ⟨r, hr1, hr2⟩ := ih hv hi
      exact ⟨r, hr1, Reach.step hr2 hget hf hfk⟩
    · rcases hnew i o (by omega) hget f hf k hfk with hp | hge
      · exact ⟨k, hp, Reach.root k⟩
      · omega

/-- deep copy: nothing that existed before is reachable from the copy — it shares no part with its source. -/
theorem deep_copy_shares_nothing (fuel : Nat) (h : Heap) (v : Val) (s' : St) (v' : Val)
    (hr : cpVal fuel ⟨h, []⟩ v = .ok (s', v')) :
    ∀ x, Reach s'.h v' x → h.size ≤ x := by
  intro x hx
  by_cases hlt : x < h.size
  · obtain ⟨r, hr1, _⟩ := copy_shares_only_preseeded fuel h [] v s' v' hr x hx hlt
    simp [targets] at hr1
  · omega

/-- **frame, source side**: any later write (an arbitrary replacement `o'` of the object) to an old object `x` that is not
reachable from a pre-seeded target leaves the copy untouched: the same objects are reachable from the copy and each of
them is unchanged. -/
theorem frame_source_write (fuel : Nat) (h : Heap) (pre : Memo) (v : Val) (s' : St) (v' : Val)
    (hr : cpVal fuel ⟨h, pre⟩ v = .ok (s', v'))
    (x : Nat) (hx : x < h.size) (hnot : ∀ r ∈ targets pre, ¬ Reach s'.h (.ref r) x) (o' : Obj) :
    ∀ y, (Reach (s'.h.setIfInBounds x o') v' y ↔ Reach s'.h v' y) ∧
         (Reach s'.h v' y → (s'.h.setIfInBounds x o')[y]? = s'.h[y]?) := by
  have hne : ∀ y, Reach s'.h v' y → y ≠ x := by
    intro y hy e; subst e
    obtain ⟨r, hr1, hr2⟩ := copy_shares_only_preseeded fuel h pre v s' v' hr y hy hx
    exact hnot r hr1 hr2
  have hsame : ∀ y, Reach s'.h v' y → (s'.h.setIfInBounds x o')[y]? = s'.h[y]? := by
    intro y hy
    have := hne y hy
    simp [Array.getElem?_setIfInBounds, Ne.symm this]
  clear hne hr
  intro y
  refine ⟨⟨?_, ?_⟩, hsame y⟩
  · intro hy
    induction hy with
    | root i => exact Reach.root i
    | step _ hget hf hfk ih => exact Reach.step (ih hsame) (by rw [← hsame _ (ih hsame)]; exact hget) hf hfk
  · intro hy
    induction hy with
    | root i => exact Reach.root i
    | step hri hget hf hfk ih => exact Reach.step (ih hsame) (by rw [hsame _ hri]; exact hget) hf hfk

/-- **frame, copy side**: any later write to an object allocated by the copy leaves every old object unchanged, and — when the
source heap is closed and no pre-seeded target is writable — everything reachable from any old object stays old and unchanged:
no change of the copy is visible through the source. -/
theorem frame_copy_write (fuel : Nat) (h : Heap) (pre : Memo) (v : Val) (s' : St) (v' : Val)
    (hclosed : Closed h) (hpre : ∀ x ∈ targets pre, isBound h x = false)
    (hr : cpVal fuel ⟨h, pre⟩ v = .ok (s', v'))
    (y : Nat) (hy : h.size ≤ y) (o' : Obj) (r : Nat) (hrlt : r < h.size) :
    ∀ x, Reach (s'.h.setIfInBounds y o') (.ref r) x → x < h.size ∧ (s'.h.setIfInBounds y o')[x]? = h[x]? := by
  have hold := copy_no_write_scoped fuel h pre v s' v' hpre hr
  have hsame : ∀ x, x < h.size → (s'.h.setIfInBounds y o')[x]? = h[x]? := by
    intro x hx
    have : y ≠ x := by omega
    simp [Array.getElem?_setIfInBounds, this, hold x hx]
  intro x hx
  generalize hv : Val.ref r = v0 at hx
  induction hx with
  | root i => cases hv; exact ⟨hrlt, hsame _ hrlt⟩
  | step _ hget hf hfk ih =>
    obtain ⟨hi, _⟩ := ih hv
    rw [hsame _ hi] at hget
    have := hclosed _ _ hget _ hf _ hfk
    exact ⟨this, hsame _ this⟩

/-- **retarget_step_partial**: the re-targeting step of `deep_copy_annotations_from` binds the copied annotation to the copy
`j` (same attribute name) when its source was bound to the source owner `i`.
PARTIAL: this is a statement about the single step `retarget`, immediately after it; the FINAL-state statement is
`bound_annotation_follows` (proved). What is missing for the clause "bound
annotations of the copy follow the copy's attributes": that in the FINAL state of `cpVal` every bound annotation of the copy
whose source was bound to `i` is bound to `memo(i)` — later steps could in principle overwrite `_value` again (they do not
on any of the compared cases; the harness checks owner identity and value-following on the real copy for every case). -/
theorem retarget_step_partial (s : St) (i j i1 j2 : Nat) (nm : String)
    (hb : isBound s.h j2 = true) (hv : boundValue s.h i1 = some (.ref i, .atom nm)) :
    boundValue (retarget s i j (.ref i1) (.ref j2)).h j2 = some (.ref j, .atom nm) := by
  have hlt : j2 < s.h.size := by
    unfold isBound at hb
    cases hg : s.h[j2]? with
    | none => simp [hg] at hb
    | some o => exact (Array.getElem?_eq_some_iff.mp hg).1
  simp only [retarget, hb, hv, if_true, beq_self_eq_true]
  obtain ⟨o, ho⟩ : ∃ o, s.h[j2]? = some o := ⟨s.h[j2], by simp [hlt]⟩
  have hne : j2 ≠ s.h.size := by omega
  have hlookup : ∀ (fs : List (String × Val)) (v : Val), (setFieldL "_value" v fs).lookup "_value" = some v := by
    intro fs v
    induction fs with
    | nil => simp [setFieldL, List.lookup]
    | cons p r ih =>
      obtain ⟨k, x⟩ := p
      simp only [setFieldL]
      by_cases hk : k == "_value"
      · simp at hk; subst hk; simp [List.lookup]
      · have hk' : ("_value" == k) = false := by
          simp at hk ⊢; exact fun e => hk e.symm
        simp [hk, List.lookup, hk', ih]
  unfold boundValue setField
  simp [Array.getElem?_push, hne, ho, Array.getElem?_setIfInBounds, hlt, Nat.lt_succ_of_lt hlt, Obj.get, hlookup,
    Nat.ne_of_gt hlt, List.lookup]

/-- **copy_independent_partial**: freshness + no write + disjointness + both frame directions, bundled for the deep copy.
What is missing for the full statement: `copy_iso` — that the copy is field-wise equal to the source under the memo
(structural equality of source and copy) is proved at object level in `copy_iso_partial` (below), not for the membership of
annotation sets; the rest is covered by the per-case comparison with the real copy
and by the fingerprint oracle only.  Fuel sufficiency is proved separately (`copy_total`, `route_total`: on a well-formed heap the run
returns `ok`), so the hypothesis `hr` of this bundle is satisfiable for every well-formed input. -/
theorem copy_independent_partial (fuel : Nat) (h : Heap) (v : Val) (s' : St) (v' : Val)
    (hr : cpVal fuel ⟨h, []⟩ v = .ok (s', v')) :
    (∀ p ∈ s'.m, h.size ≤ p.2) ∧
    (∀ x, x < h.size → s'.h[x]? = h[x]?) ∧
    (∀ x, Reach s'.h v' x → h.size ≤ x) ∧
    (∀ x o' y, x < h.size → Reach s'.h v' y → (s'.h.setIfInBounds x o')[y]? = s'.h[y]?) := by
  refine ⟨?_, copy_no_write_deep fuel h v s' v' hr, deep_copy_shares_nothing fuel h v s' v' hr, ?_⟩
  · intro p hp
    rcases copy_fresh fuel h [] v s' v' hr p hp with h1 | h1
    · cases h1
    · exact h1
  · intro x o' y hx hy
    exact ((frame_source_write fuel h [] v s' v' hr x hx (by intro r hr1; simp [targets] at hr1) o') y).2 hy

/-- **copy_memo_injective**: when the pre-seeded targets exist, every memo target is an allocated object and every freshly
allocated target is the copy of exactly one source object (distinct sources get distinct copies). -/
theorem copy_memo_injective (fuel : Nat) (h : Heap) (pre : Memo) (v : Val) (s' : St) (v' : Val)
    (hpre : ∀ p ∈ pre, p.2 < h.size) (hr : cpVal fuel ⟨h, pre⟩ v = .ok (s', v')) :
    (∀ p ∈ s'.m, p.2 < s'.h.size) ∧
    (∀ p q, p ∈ s'.m → q ∈ s'.m → h.size ≤ p.2 → p.2 = q.2 → p.1 = q.1) :=
  let g := ((pval_all h.size h pre fuel) _ _ _ _ (good_init h pre) hr).1
  ⟨g.lt hpre, g.inj hpre⟩

/-! ### the routes the driver runs (`copyRoute` = `preseed` then `cpVal`) -/

/-- **route_spec**: what `copyRoute` — the function the driver runs — does: it pre-seeds (leaving every exported object
unchanged, allocating only new taxa, seeding only targets that exist and are either listed `.existing` targets of the route
or new objects, none of which is a bound annotation) and then runs `cpVal` with fuel `2 * h.size + 1` from that state.
Every theorem about `cpVal` above therefore applies to the driver's run with `h := s0.h`, `pre := s0.m`. -/
theorem route_spec (h : Heap) (pre : List (Nat × PreTarget)) (root : Val) (s' : St) (v' : Val)
    (hr : copyRoute h pre root = .ok (s', v')) :
    ∃ s0, preseed ⟨h, []⟩ pre = .ok s0 ∧ cpVal (2 * h.size + 1) s0 root = .ok (s', v') ∧
      h.size ≤ s0.h.size ∧ (∀ x, x < h.size → s0.h[x]? = h[x]?) ∧ (∀ p ∈ s0.m, p.2 < s0.h.size) ∧
      (∀ t ∈ targets s0.m, (∃ i, (i, PreTarget.existing t) ∈ pre) ∨ h.size ≤ t) ∧
      (∀ x, h.size ≤ x → isBound s0.h x = false) := by
  unfold copyRoute at hr
  cases hp : preseed ⟨h, []⟩ pre with
  | error e => simp [hp] at hr
  | ok s0 =>
    simp only [hp] at hr
    have g := preseed_inv h pre pre ⟨h, []⟩ s0 (preinv_init h pre) (fun _ he => he) hp
    exact ⟨s0, rfl, hr, g.size, g.old, g.lt, g.tgt, g.newUnbound⟩

/-- **route_no_write**: on every route whose listed `.existing` targets (the namespace and its taxa; the members of the other
namespace) are not bound annotations, the run of the driver's `copyRoute` leaves every exported object untouched —
copying never changes the source, the namespace or the taxa. -/
theorem route_no_write (h : Heap) (pre : List (Nat × PreTarget)) (root : Val) (s' : St) (v' : Val)
    (hT : ∀ i t, (i, PreTarget.existing t) ∈ pre → isBound h t = false)
    (hr : copyRoute h pre root = .ok (s', v')) :
    ∀ x, x < h.size → s'.h[x]? = h[x]? := by
  obtain ⟨s0, _, hc, hsz, hold, _, htgt, hnb⟩ := route_spec h pre root s' v' hr
  intro x hx
  have hunb : ∀ t ∈ targets s0.m, isBound s0.h t = false := by
    intro t ht
    by_cases hlt : t < h.size
    · rcases htgt t ht with ⟨i, hi⟩ | hge
      · rw [isBound_congr (hold t hlt)]; exact hT i t hi
      · omega
    · exact hnb t (by omega)
  obtain ⟨s0h, s0m⟩ := s0
  rw [← hold x hx]
  exact copy_no_write_scoped (2 * h.size + 1) s0h s0m root s' v' hunb hc x (by simp at hsz; omega)

/-- **route_shares_only_preseeded**: an exported (old) object reachable from the result of the driver's `copyRoute` is
reachable from a seeded target, and every seeded target is a listed `.existing` target of the route or a new taxon (index `≥ h.size`).
Note the second disjunct: a new taxon carries the source taxon's `_label` VALUE verbatim (`newTaxon`, as `Taxon(label=t1.label)`
does), so a reference-valued label would be shared through it and this theorem allows that; exported labels are atoms. With
`pre = []` (deep copy) no exported object is reachable from the copy at all. -/
theorem route_shares_only_preseeded (h : Heap) (pre : List (Nat × PreTarget)) (root : Val) (s' : St) (v' : Val)
    (hr : copyRoute h pre root = .ok (s', v')) :
    ∀ x, Reach s'.h v' x → x < h.size →
      ∃ t, ((∃ i, (i, PreTarget.existing t) ∈ pre) ∨ h.size ≤ t) ∧ Reach s'.h (.ref t) x := by
  obtain ⟨s0, _, hc, hsz, _, _, htgt, _⟩ := route_spec h pre root s' v' hr
  intro x hx hlt
  obtain ⟨s0h, s0m⟩ := s0
  obtain ⟨r, hr1, hr2⟩ := copy_shares_only_preseeded (2 * h.size + 1) s0h s0m root s' v' hc x hx (by simp at hsz; omega)
  exact ⟨r, htgt r hr1, hr2⟩

/-! ### fuel -/
namespace Aux
def MV (f : Nat) : Prop := ∀ s v r, cpVal f s v = .ok r → cpVal (f + 1) s v = .ok r
def MF (f : Nat) : Prop := ∀ fs s r, cpFields f s fs = .ok r → cpFields (f + 1) s fs = .ok r
def MI (f : Nat) : Prop := ∀ items s i j r, cpItems f s i j items = .ok r → cpItems (f + 1) s i j items = .ok r

theorem mf_of_mv {f : Nat} (hv : MV f) : MF f := by
  intro fs
  induction fs with
  | nil => intro s r h; simp [cpFields] at h ⊢; exact h
  | cons kv rest ih =>
    intro s r h
    obtain ⟨k, v⟩ := kv
    simp only [cpFields] at h ⊢
    cases h1 : cpVal f s v with
    | error e => simp [h1] at h
    | ok r1 =>
      obtain ⟨s1, v1⟩ := r1
      simp only [h1] at h
      rw [hv s v _ h1]
      cases h2 : cpFields f s1 rest with
      | error e => simp [h2] at h
      | ok r2 =>
        simp only [h2] at h
        simp only [ih s1 _ h2]
        exact h

theorem mi_of_mv {f : Nat} (hv : MV f) : MI f := by
  intro items
  induction items with
  | nil => intro s i j r h; simp [cpItems] at h ⊢; exact h
  | cons a1 rest ih =>
    intro s i j r h
    simp only [cpItems] at h ⊢
    cases h1 : cpVal f s a1 with
    | error e => simp [h1] at h
    | ok r1 =>
      obtain ⟨s1, a2⟩ := r1
      simp only [h1] at h
      rw [hv s a1 _ h1]
      cases h2 : cpItems f (retarget s1 i j a1 a2) i j rest with
      | error e => simp [h2] at h
      | ok r2 =>
        simp only [h2] at h
        simp only [ih _ i j _ h2]
        exact h

theorem mv_zero : MV 0 := by
  intro s v r h
  cases v with
  | atom a => simp [cpVal] at h ⊢; exact h
  | ref i =>
    simp only [cpVal] at h ⊢
    cases hl : s.m.lookup i with
    | none => simp [hl] at h
    | some j => simp only [hl] at h ⊢; exact h

theorem mv_succ {f : Nat} (hv : MV f) : MV (f + 1) := by
  have hf := mf_of_mv hv
  have hi := mi_of_mv hv
  intro s v r h
  cases v with
  | atom a => simp [cpVal] at h ⊢; exact h
  | ref i =>
    simp only [cpVal] at h ⊢
    cases hl : s.m.lookup i with
    | some j => simp only [hl] at h ⊢; exact h
    | none =>
      simp only [hl] at h ⊢
      cases ho : s.h[i]? with
      | none => simp [ho] at h
      | some o =>
        simp only [ho] at h ⊢
        cases hk : o.kind <;> simp only [hk] at h ⊢
        case annset =>
          cases ht : o.get "target" <;> cases hit : itemFields s.h i <;> simp only [ht, hit] at h ⊢ <;> try (exact absurd h (by simp))
          rename_i tv items
          cases h1 : cpVal f s tv with
          | error e => simp [h1] at h
          | ok r1 =>
            obtain ⟨s1, tv'⟩ := r1
            simp only [h1] at h
            simp only [hv s tv _ h1]
            cases h2 : cpFields f ⟨s1.h.push { kind := Kind.annset, cls := o.cls, fields := [] }, (i, s1.h.size) :: s1.m⟩ items with
            | error e => simp [h2] at h
            | ok r2 =>
              simp only [h2] at h
              simp only [hf _ _ _ h2]
              exact h
        all_goals
          split at h
          · simp at h
          · rename_i s2 fs' heq
            simp only [hf _ _ _ heq]
            cases ha : annotationsRef o with
            | none => simp only [ha] at h ⊢; exact h
            | some a =>
              simp only [ha] at h ⊢
              split at h
              · rename_i ao items hao hit
                try simp only [hao, hit]
                split at h
                · simp at h
                · rename_i s4 items' heq2
                  simp only [hi _ _ _ _ _ heq2]
                  exact h
              · simp at h

theorem mv_all : ∀ f, MV f
  | 0 => mv_zero
  | f + 1 => mv_succ (mv_all f)
end Aux

/-- **fuel_mono**: a run that succeeds keeps its result with any larger fuel — the only outcome that depends on the fuel is
`err fuel` (which the driver reports and never replaces by a default). -/
theorem fuel_mono (f f' : Nat) (hle : f ≤ f') (s : St) (v : Val) (r : St × Val) (h : cpVal f s v = .ok r) :
    cpVal f' s v = .ok r := by
  obtain ⟨d, rfl⟩ := Nat.exists_eq_add_of_le hle
  induction d with
  | zero => exact h
  | succ d ih => exact Aux.mv_all (f + d) s v r (ih (Nat.le_add_right _ _))

/-- **fuel_result_unique**: two successful runs with different fuels return the same heap, memo and value: the theorems,
which hold for every fuel, speak about the one result the driver prints. -/
theorem fuel_result_unique (f f' : Nat) (s : St) (v : Val) (r r' : St × Val)
    (h : cpVal f s v = .ok r) (h' : cpVal f' s v = .ok r') : r = r' := by
  have h1 := fuel_mono f (max f f') (Nat.le_max_left _ _) s v r h
  have h2 := fuel_mono f' (max f f') (Nat.le_max_right _ _) s v r' h'
  rw [h1] at h2
  cases h2; rfl

/-! ### fuel sufficiency: the copy succeeds on every well-formed heap -/

/-- a source value: an atom or a reference into the source region `[0, c)` -/
def SrcVal (c : Nat) (v : Val) : Prop := ∀ i, v = .ref i → i < c

/-- well-formedness of the exported source region `[0, c)` of a heap: references stay inside the region, every annotation set
(an `annset` object, or whatever an annotation-aware object's `_annotations` refers to) has an item list, and the `target` of an
annotation set is not itself an annotation set. -/
structure WellFormed (c : Nat) (h : Heap) : Prop where
  le : c ≤ h.size
  closed : ∀ (i : Nat) (o : Obj), i < c → h[i]? = some o → ∀ f ∈ o.fields, SrcVal c f.2
  annset : ∀ (i : Nat) (o : Obj), i < c → h[i]? = some o → o.kind = .annset →
    ∃ tv items, o.get "target" = some tv ∧ itemFields h i = some items ∧
      (∀ t ot, tv = .ref t → h[t]? = some ot → ot.kind ≠ .annset)
  ann : ∀ (i : Nat) (o : Obj) (a : Nat), i < c → h[i]? = some o → annotationsRef o = some a →
    ∃ items, itemFields h a = some items

namespace Aux

/-- the body of `cpVal (fuel+1)` for an object that is not an annotation set -/
def objBody (fuel : Nat) (s : St) (i : Nat) (o : Obj) : Except Err (St × Val) :=
  match cpFields fuel ⟨s.h.push { o with fields := [] }, (i, s.h.size) :: s.m⟩ (planFields o) with
  | .error e => .error e
  | .ok (s2, fs') =>
    match annotationsRef o with
    | none => .ok (⟨setFields s2.h s.h.size fs', s2.m⟩, .ref s.h.size)
    | some a =>
      match (setFields s2.h s.h.size fs')[a]?, itemFields (setFields s2.h s.h.size fs') a with
      | some ao, some items =>
        match cpItems fuel ⟨setFields s2.h s.h.size fs', s2.m⟩ i s.h.size (items.map Prod.snd) with
        | .error e => .error e
        | .ok (s4, items') => .ok (attachAnnotations s4 a ao.cls s.h.size items', .ref s.h.size)
      | _, _ => .error .malformed

/-- the body of `cpVal (fuel+1)` for an annotation set -/
def setBody (fuel : Nat) (s : St) (i : Nat) (o : Obj) : Except Err (St × Val) :=
  match o.get "target", itemFields s.h i with
  | some tv, some items =>
    match cpVal fuel s tv with
    | .error e => .error e
    | .ok (s1, tv') =>
      match cpFields fuel ⟨s1.h.push { kind := .annset, cls := o.cls, fields := [] }, (i, s1.h.size) :: s1.m⟩ items with
      | .error e => .error e
      | .ok (s3, items') =>
        .ok (⟨setFields ((s3.h.push (Obj.mk .plain "list" (indexed "#" 0 (dedupVals (items'.map Prod.snd).reverse).reverse))).push
              (Obj.mk .plain "set" (indexed "e" 0 (dedupVals (items'.map Prod.snd).reverse).reverse)))
            s1.h.size [("_item_list", .ref s3.h.size), ("_item_set", .ref (s3.h.size + 1)), ("target", tv')], s3.m⟩,
          .ref s1.h.size)
  | _, _ => .error .malformed

theorem cpVal_obj_eq (fuel : Nat) (s : St) (i : Nat) (o : Obj) (hl : s.m.lookup i = none) (ho : s.h[i]? = some o)
    (hk : o.kind ≠ .annset) : cpVal (fuel + 1) s (.ref i) = objBody fuel s i o := by
  simp only [cpVal, hl, ho, objBody]
  cases hk' : o.kind <;> first | exact absurd hk' hk | rfl

theorem cpVal_set_eq (fuel : Nat) (s : St) (i : Nat) (o : Obj) (hl : s.m.lookup i = none) (ho : s.h[i]? = some o)
    (hk : o.kind = .annset) : cpVal (fuel + 1) s (.ref i) = setBody fuel s i o := by
  simp only [cpVal, hl, ho, setBody, hk]
  rfl


/-! #### counting what is still to be copied -/
def need (c : Nat) (m : Memo) : Nat := ((List.range c).filter (fun i => (m.lookup i).isNone)).length
def DomLe (m m' : Memo) : Prop := ∀ i, (m.lookup i).isSome = true → (m'.lookup i).isSome = true

theorem domLe_refl (m : Memo) : DomLe m m := fun _ h => h
theorem domLe_trans {a b c : Memo} (h1 : DomLe a b) (h2 : DomLe b c) : DomLe a c := fun i h => h2 i (h1 i h)
theorem domLe_cons (m : Memo) (i j : Nat) : DomLe m ((i, j) :: m) := by
  intro k hk
  simp only [List.lookup]
  by_cases e : k == i <;> simp [e, hk]

theorem filter_length_mono (l : List Nat) (p q : Nat → Bool) (h : ∀ x, p x = true → q x = true) :
    (l.filter p).length ≤ (l.filter q).length := by
  induction l with
  | nil => simp
  | cons x r ih =>
    simp only [List.filter_cons]
    by_cases hp : p x = true
    · simp [hp, h x hp]; exact ih
    · by_cases hq : q x = true
      · simp [hp, hq]; omega
      · simp [hp, hq]; exact ih

theorem filter_length_lt (l : List Nat) (p q : Nat → Bool) (h : ∀ x, p x = true → q x = true) (i : Nat) (hi : i ∈ l)
    (hq : q i = true) (hp : p i = false) : (l.filter p).length < (l.filter q).length := by
  induction l with
  | nil => cases hi
  | cons x r ih =>
    simp only [List.filter_cons]
    rcases List.mem_cons.mp hi with e | e
    · subst e
      have := filter_length_mono r p q h
      simp [hp, hq]; omega
    · have := ih e
      by_cases hpx : p x = true
      · simp [hpx, h x hpx]; exact this
      · by_cases hqx : q x = true
        · simp [hpx, hqx]; omega
        · simp [hpx, hqx]; exact this

theorem need_mono {c : Nat} {m m' : Memo} (h : DomLe m m') : need c m' ≤ need c m := by
  apply filter_length_mono
  intro x hx
  have hx' : (m'.lookup x).isNone = true := hx
  cases hm : m.lookup x with
  | none => rfl
  | some j =>
    have h2 := h x (by rw [hm]; rfl)
    cases hm' : m'.lookup x with
    | none => rw [hm'] at h2; cases h2
    | some _ => rw [hm'] at hx'; cases hx'

theorem need_lt {c : Nat} {m m' : Memo} (h : DomLe m m') (i : Nat) (hi : i < c) (h0 : m.lookup i = none)
    (h1 : (m'.lookup i).isSome = true) : need c m' < need c m := by
  apply filter_length_lt _ _ _ _ i (List.mem_range.mpr hi)
  · simp [h0]
  · cases hm : m'.lookup i <;> simp_all
  · intro x hx
    have hx' : (m'.lookup x).isNone = true := hx
    cases hm : m.lookup x with
    | none => rfl
    | some j =>
      have h2 := h x (by rw [hm]; rfl)
      cases hm' : m'.lookup x with
      | none => rw [hm'] at h2; cases h2
      | some _ => rw [hm'] at hx'; cases hx'

theorem need_le (c : Nat) (m : Memo) : need c m ≤ c := by
  unfold need
  have := List.length_filter_le (fun i => (m.lookup i).isNone) (List.range c)
  simpa using this

theorem need_pos {c : Nat} {m : Memo} (i : Nat) (hi : i < c) (h0 : m.lookup i = none) : 0 < need c m := by
  unfold need
  apply List.length_pos_of_mem (a := i)
  simp [List.mem_filter, hi, h0]

/-! #### reading the source region -/
theorem get_mem {o : Obj} {k : String} {v : Val} (h : o.get k = some v) : (k, v) ∈ o.fields := by
  unfold Obj.get at h
  generalize o.fields = fs at h
  induction fs with
  | nil => simp at h
  | cons p r ih =>
    obtain ⟨a, x⟩ := p
    simp only [List.lookup] at h
    by_cases e : k == a
    · simp [e] at h; simp at e; subst e; subst h; simp
    · simp [e] at h; exact List.mem_cons_of_mem _ (ih h)

theorem annotationsRef_mem {o : Obj} {a : Nat} (h : annotationsRef o = some a) : ("_annotations", Val.ref a) ∈ o.fields := by
  have key : (match o.get "_annotations" with | some (Val.ref a) => some a | _ => none) = some a →
      ("_annotations", Val.ref a) ∈ o.fields := by
    intro h
    cases hg : o.get "_annotations" with
    | none => simp [hg] at h
    | some v =>
      cases v with
      | atom x => simp [hg] at h
      | ref a' => simp [hg] at h; subst h; exact get_mem hg
  cases hk : o.kind <;> simp only [annotationsRef, hk] at h <;> first | exact key h | cases h

theorem planFields_sub {o : Obj} {f : String × Val} (h : f ∈ planFields o) : f ∈ o.fields := by
  cases hk : o.kind <;> simp only [planFields, hk] at h <;>
    first
    | exact h
    | exact (List.mem_filter.mp h).1
    | (rcases List.mem_append.mp h with h | h <;> exact (List.mem_filter.mp h).1)

theorem itemFields_congr {c : Nat} {h0 h1 : Heap} (wf : WellFormed c h0) (hs : ∀ x, x < c → h1[x]? = h0[x]?) (a : Nat) (ha : a < c) :
    itemFields h1 a = itemFields h0 a := by
  unfold itemFields
  rw [hs a ha]
  cases hget : h0[a]? with
  | none => rfl
  | some so =>
    simp only
    cases hl : so.get "_item_list" with
    | none => rfl
    | some v =>
      cases v with
      | atom x => rfl
      | ref l =>
        have : l < c := wf.closed a so ha hget _ (get_mem hl) l rfl
        simp only [hs l this]

theorem itemFields_src {c : Nat} {h0 : Heap} (wf : WellFormed c h0) (a : Nat) (ha : a < c) (items : List (String × Val))
    (h : itemFields h0 a = some items) : ∀ f ∈ items, SrcVal c f.2 := by
  unfold itemFields at h
  cases hget : h0[a]? with
  | none => simp [hget] at h
  | some so =>
    simp only [hget] at h
    cases hl : so.get "_item_list" with
    | none => simp [hl] at h
    | some v =>
      cases v with
      | atom x => simp [hl] at h
      | ref l =>
        simp only [hl] at h
        have hlc : l < c := wf.closed a so ha hget _ (get_mem hl) l rfl
        cases hgl : h0[l]? with
        | none => simp [hgl] at h
        | some lo =>
          simp only [hgl] at h
          cases h
          exact wf.closed l lo hlc hgl

theorem retarget_m (s : St) (i j : Nat) (a1 a2 : Val) : (retarget s i j a1 a2).m = s.m := by
  unfold retarget
  split
  · split
    · split
      · split <;> rfl
      · rfl
    · rfl
  · rfl

theorem attach_domLe (s : St) (a : Nat) (cls : String) (j : Nat) (items : List Val) :
    DomLe s.m (attachAnnotations s a cls j items).m := by
  unfold attachAnnotations
  split
  · exact domLe_refl _
  · exact domLe_cons _ _ _

theorem old_all {b : Nat} {h0 : Heap} {pre : Memo} {s : St} (g : Good b h0 pre s)
    (hnw : ∀ x ∈ targets pre, isBound h0 x = false) : ∀ x, x < b → s.h[x]? = h0[x]? := by
  intro x hx
  exact g.old x hx (by intro hw; have := hnw x hw.1; rw [hw.2] at this; cases this)

/-! #### totality -/
section total
variable (c : Nat) (h0 : Heap) (pre : Memo)

def TV (f : Nat) : Prop := ∀ s v, Good h0.size h0 pre s → SrcVal c v → 2 * need c s.m ≤ f →
  ∃ s' v', cpVal f s v = .ok (s', v') ∧ DomLe s.m s'.m
def TV' (f : Nat) : Prop := ∀ s v, Good h0.size h0 pre s → SrcVal c v →
  (∀ t ot, v = .ref t → h0[t]? = some ot → ot.kind ≠ .annset) → 2 * need c s.m ≤ f + 1 →
  ∃ s' v', cpVal f s v = .ok (s', v') ∧ DomLe s.m s'.m
def TF (f : Nat) : Prop := ∀ fs s, Good h0.size h0 pre s → (∀ x ∈ fs, SrcVal c x.2) → 2 * need c s.m ≤ f →
  ∃ s' fs', cpFields f s fs = .ok (s', fs') ∧ DomLe s.m s'.m
def TI (f : Nat) : Prop := ∀ items s i j, Good h0.size h0 pre s → h0.size ≤ j → (∀ v ∈ items, SrcVal c v) → 2 * need c s.m ≤ f →
  ∃ s' items', cpItems f s i j items = .ok (s', items') ∧ DomLe s.m s'.m

variable {c h0 pre}

theorem tf_of_tv {f : Nat} (hv : TV c h0 pre f) : TF c h0 pre f := by
  intro fs
  induction fs with
  | nil => intro s _ _ _; exact ⟨s, [], by simp [cpFields], domLe_refl _⟩
  | cons kv r ih =>
    intro s g hsrc hn
    obtain ⟨k, v⟩ := kv
    obtain ⟨s1, v1, e1, d1⟩ := hv s v g (hsrc (k, v) (by simp)) hn
    have g1 := ((pval_all h0.size h0 pre f) s v s1 v1 g e1).1
    obtain ⟨s2, r', e2, d2⟩ := ih s1 g1 (fun x hx => hsrc x (List.mem_cons_of_mem _ hx)) (by have := need_mono (c := c) d1; omega)
    exact ⟨s2, (k, v1) :: r', by simp [cpFields, e1, e2], domLe_trans d1 d2⟩

theorem ti_of_tv {f : Nat} (hv : TV c h0 pre f) : TI c h0 pre f := by
  intro items
  induction items with
  | nil => intro s i j _ _ _ _; exact ⟨s, [], by simp [cpItems], domLe_refl _⟩
  | cons a1 r ih =>
    intro s i j g hj hsrc hn
    obtain ⟨s1, a2, e1, d1⟩ := hv s a1 g (hsrc a1 (by simp)) hn
    obtain ⟨g1, f1⟩ := (pval_all h0.size h0 pre f) s a1 s1 a2 g e1
    have g1' := good_retarget g1 i j hj a1 a2 f1
    have hm := retarget_m s1 i j a1 a2
    obtain ⟨s2, r', e2, d2⟩ := ih (retarget s1 i j a1 a2) i j g1' hj (fun x hx => hsrc x (List.mem_cons_of_mem _ hx))
      (by rw [hm]; have := need_mono (c := c) d1; omega)
    refine ⟨s2, a2 :: r', by simp [cpItems, e1, e2], ?_⟩
    rw [hm] at d2
    exact domLe_trans d1 d2


theorem tv_zero : TV c h0 pre 0 := by
  intro s v g hsv hn
  cases v with
  | atom a => exact ⟨s, .atom a, by simp [cpVal], domLe_refl _⟩
  | ref i =>
    cases hl : s.m.lookup i with
    | some j => exact ⟨s, .ref j, by simp [cpVal, hl], domLe_refl _⟩
    | none => have := need_pos (c := c) i (hsv i rfl) hl; omega

theorem tv'_zero : TV' c h0 pre 0 := by
  intro s v g hsv _ hn
  cases v with
  | atom a => exact ⟨s, .atom a, by simp [cpVal], domLe_refl _⟩
  | ref i =>
    cases hl : s.m.lookup i with
    | some j => exact ⟨s, .ref j, by simp [cpVal, hl], domLe_refl _⟩
    | none => have := need_pos (c := c) i (hsv i rfl) hl; omega

theorem tv'_succ (wf : WellFormed c h0) (hnw : ∀ x ∈ targets pre, isBound h0 x = false) {f : Nat}
    (hv : TV c h0 pre f) : TV' c h0 pre (f + 1) := by
  have hF := tf_of_tv hv
  have hI := ti_of_tv hv
  intro s v g hsv hna hn
  cases v with
  | atom a => exact ⟨s, .atom a, by simp [cpVal], domLe_refl _⟩
  | ref i =>
    cases hl : s.m.lookup i with
    | some j => exact ⟨s, .ref j, by simp [cpVal, hl], domLe_refl _⟩
    | none =>
      have hic : i < c := hsv i rfl
      have hib : i < h0.size := Nat.lt_of_lt_of_le hic wf.le
      have hold := old_all g hnw
      obtain ⟨o, ho0⟩ : ∃ o, h0[i]? = some o := ⟨h0[i], by simp [hib]⟩
      have ho : s.h[i]? = some o := by rw [hold i hib]; exact ho0
      have hk : o.kind ≠ .annset := hna i o rfl ho0
      rw [cpVal_obj_eq f s i o hl ho hk]
      have hb := g.base
      have g1 := good_memo (good_push g { o with fields := [] } (by simp)) i s.h.size hb (by simp)
        (fun hp p hm => Nat.ne_of_lt (g.lt hp p hm))
      have hn1 : need c ((i, s.h.size) :: s.m) < need c s.m :=
        need_lt (domLe_cons _ _ _) i hic hl (by simp [List.lookup])
      obtain ⟨s2, fs', e1, d1⟩ := hF (planFields o) _ g1
        (fun x hx => wf.closed i o hic ho0 x (planFields_sub hx)) (by simp only; omega)
      obtain ⟨g2, ff⟩ := (pfields_of_pval (pval_all h0.size h0 pre f)) _ _ s2 fs' g1 e1
      have g3 := good_setFields g2 s.h.size hb fs' ff
      unfold objBody
      simp only [e1]
      cases ha : annotationsRef o with
      | none => exact ⟨_, _, rfl, domLe_trans (domLe_cons _ _ _) d1⟩
      | some a =>
        simp only
        have hac : a < c := wf.closed i o hic ho0 _ (annotationsRef_mem ha) a rfl
        have hab : a < h0.size := Nat.lt_of_lt_of_le hac wf.le
        obtain ⟨items, hit0⟩ := wf.ann i o a hic ho0 ha
        have hold3 := old_all g3 hnw
        have hit : itemFields (setFields s2.h s.h.size fs') a = some items := by
          rw [itemFields_congr wf (fun x hx => hold3 x (Nat.lt_of_lt_of_le hx wf.le)) a hac]; exact hit0
        obtain ⟨ao, hao0⟩ : ∃ ao, h0[a]? = some ao := ⟨h0[a], by simp [hab]⟩
        have hao : (setFields s2.h s.h.size fs')[a]? = some ao := by rw [hold3 a hab]; exact hao0
        simp only [hao, hit]
        have hn2 : need c s2.m ≤ need c ((i, s.h.size) :: s.m) := need_mono d1
        obtain ⟨s4, items', e2, d2⟩ := hI (items.map Prod.snd) _ i s.h.size g3 hb
          (by
            intro v hv
            obtain ⟨fv, hfv, e⟩ := List.mem_map.mp hv
            subst e; exact itemFields_src wf a hac items hit0 fv hfv)
          (by simp only; omega)
        simp only [e2]
        exact ⟨_, _, rfl, domLe_trans (domLe_trans (domLe_trans (domLe_cons _ _ _) d1) d2) (attach_domLe _ _ _ _ _)⟩

theorem tv_succ (wf : WellFormed c h0) (hnw : ∀ x ∈ targets pre, isBound h0 x = false) {f : Nat}
    (hv : TV c h0 pre f) (hv' : TV' c h0 pre f) (hv1 : TV' c h0 pre (f + 1)) : TV c h0 pre (f + 1) := by
  have hF := tf_of_tv hv
  intro s v g hsv hn
  cases v with
  | atom a => exact ⟨s, .atom a, by simp [cpVal], domLe_refl _⟩
  | ref i =>
    cases hl : s.m.lookup i with
    | some j => exact ⟨s, .ref j, by simp [cpVal, hl], domLe_refl _⟩
    | none =>
      have hic : i < c := hsv i rfl
      have hib : i < h0.size := Nat.lt_of_lt_of_le hic wf.le
      have hold := old_all g hnw
      obtain ⟨o, ho0⟩ : ∃ o, h0[i]? = some o := ⟨h0[i], by simp [hib]⟩
      have ho : s.h[i]? = some o := by rw [hold i hib]; exact ho0
      by_cases hk : o.kind = .annset
      · obtain ⟨tv, items, htv, hit0, hnot⟩ := wf.annset i o hic ho0 hk
        rw [cpVal_set_eq f s i o hl ho hk]
        unfold setBody
        have hit : itemFields s.h i = some items := by
          rw [itemFields_congr wf (fun x hx => hold x (Nat.lt_of_lt_of_le hx wf.le)) i hic]; exact hit0
        simp only [htv, hit]
        obtain ⟨s1, tv', e1, d1⟩ := hv' s tv g (wf.closed i o hic ho0 _ (get_mem htv)) hnot (by omega)
        obtain ⟨g1, ft⟩ := (pval_all h0.size h0 pre f) s tv s1 tv' g e1
        simp only [e1]
        have hb1 := g1.base
        have g2 := good_memo (good_push g1 (Obj.mk .annset o.cls []) (by simp)) i s1.h.size hb1 (by simp)
          (fun hp p hm => Nat.ne_of_lt (g1.lt hp p hm))
        have hn1 : need c ((i, s1.h.size) :: s1.m) < need c s.m :=
          need_lt (domLe_trans d1 (domLe_cons _ _ _)) i hic hl (by simp [List.lookup])
        obtain ⟨s3, items', e2, d2⟩ := hF items _ g2 (itemFields_src wf i hic items hit0) (by simp only; omega)
        simp only [e2]
        exact ⟨_, _, rfl, domLe_trans d1 (domLe_trans (domLe_cons _ _ _) d2)⟩
      · exact hv1 s (.ref i) g hsv
          (fun t ot e hot => by cases e; rw [ho0] at hot; cases hot; exact hk) (by omega)

theorem tv_all (wf : WellFormed c h0) (hnw : ∀ x ∈ targets pre, isBound h0 x = false) :
    ∀ f, TV c h0 pre f ∧ TV' c h0 pre f
  | 0 => ⟨tv_zero, tv'_zero⟩
  | f + 1 =>
    have ih := tv_all wf hnw f
    have h1 := tv'_succ wf hnw ih.1
    ⟨tv_succ wf hnw ih.1 ih.2 h1, h1⟩

theorem wf_congr {c : Nat} {h0 h1 : Heap} (wf : WellFormed c h0) (hs : ∀ x, x < c → h1[x]? = h0[x]?) (hle : c ≤ h1.size) :
    WellFormed c h1 where
  le := hle
  closed := by intro i o hi hg; rw [hs i hi] at hg; exact wf.closed i o hi hg
  annset := by
    intro i o hi hg hk
    rw [hs i hi] at hg
    obtain ⟨tv, items, h1', h2, h3⟩ := wf.annset i o hi hg hk
    refine ⟨tv, items, h1', by rw [itemFields_congr wf hs i hi]; exact h2, ?_⟩
    intro t ot e hot
    have htc : t < c := wf.closed i o hi hg _ (get_mem h1') t e
    rw [hs t htc] at hot
    exact h3 t ot e hot
  ann := by
    intro i o a hi hg ha
    rw [hs i hi] at hg
    obtain ⟨items, h2⟩ := wf.ann i o a hi hg ha
    have hac : a < c := wf.closed i o hi hg _ (annotationsRef_mem ha) a rfl
    exact ⟨items, by rw [itemFields_congr wf hs a hac]; exact h2⟩
end total
end Aux
open Aux

/-- **copy_total** (fuel sufficiency): on a well-formed source region `[0, c)` — closed under references, annotation sets with item
lists, no annotation set as target of another — with no pre-seeded target a bound annotation, the copy of any source value
SUCCEEDS with any fuel `≥ 2 * c` (the driver's `2 * h.size + 1` in particular): every copy theorem above applies unconditionally. -/
theorem copy_total (c : Nat) (h : Heap) (pre : Memo) (v : Val) (wf : WellFormed c h)
    (hnw : ∀ x ∈ targets pre, isBound h x = false) (hv : SrcVal c v) (fuel : Nat) (hf : 2 * c ≤ fuel) :
    ∃ s' v', cpVal fuel ⟨h, pre⟩ v = .ok (s', v') := by
  obtain ⟨s', v', e, _⟩ := (tv_all wf hnw fuel).1 ⟨h, pre⟩ v (good_init h pre) hv (by have := need_le c pre; simp only; omega)
  exact ⟨s', v', e⟩

/-- **route_total**: whenever the route's pre-seeding is accepted, the run of the driver's `copyRoute` on a well-formed exported heap
(whose listed targets are not bound annotations) from any exported root SUCCEEDS — so `route_no_write`, `route_shares_only_preseeded`
and all `copy_*` theorems hold for the driver's run unconditionally. -/
theorem route_total (h : Heap) (pre : List (Nat × PreTarget)) (root : Val) (wf : WellFormed h.size h)
    (hT : ∀ i t, (i, PreTarget.existing t) ∈ pre → isBound h t = false) (hroot : SrcVal h.size root)
    (s0 : St) (hp : preseed ⟨h, []⟩ pre = .ok s0) : ∃ s' v', copyRoute h pre root = .ok (s', v') := by
  have g := preseed_inv h pre pre ⟨h, []⟩ s0 (preinv_init h pre) (fun _ he => he) hp
  have wf0 : WellFormed h.size s0.h := wf_congr wf g.old g.size
  have hunb : ∀ t ∈ targets s0.m, isBound s0.h t = false := by
    intro t ht
    by_cases hlt : t < h.size
    · rcases g.tgt t ht with ⟨i, hi⟩ | hge
      · rw [isBound_congr (g.old t hlt)]; exact hT i t hi
      · omega
    · exact g.newUnbound t (by omega)
  unfold copyRoute
  simp only [hp]
  obtain ⟨s0h, s0m⟩ := s0
  exact copy_total h.size s0h s0m root wf0 hunb hroot (2 * h.size + 1) (by omega)

/-! ### equality: the copy corresponds to its source through the memo -/

/-- two values correspond through the memo: equal atoms, or a source reference and (one of) its copies -/
def ValRel (m : Memo) : Val → Val → Prop
  | .atom a, .atom b => a = b
  | .ref i, .ref j => (i, j) ∈ m
  | _, _ => False

def isB (o : Obj) : Bool := o.get "is_attribute" == some (.atom "True")
def annAware : Kind → Bool
  | .annotable | .taxon | .namespace => true
  | _ => false

/-- one attribute of the copy against the source attribute at the same position of the copy plan: same name, and the value is
the memo-image — except `_value` of an attribute-bound annotation (`b` = the copy is attribute-bound), which is re-targeted -/
def FieldRel (m : Memo) (b : Bool) (f f' : String × Val) : Prop :=
  f'.1 = f.1 ∧ (ValRel m f.2 f'.2 ∨ (f.1 = "_value" ∧ b = true))

/-- the copy `o'` of a source object `o` carries the same class and kind and — IN THE SAME ORDER (`__dict__` order) — the attributes
of the source's copy plan (`planFields`: every attribute except `_annotations` of annotation-aware classes; `_taxa` first for a
namespace), position by position with the same name and the memo-image as value (except `_value` of an attribute-bound annotation,
which is re-targeted), followed by nothing or — for annotation-aware classes only — by the separately rebuilt `_annotations` link,
which therefore is the LAST attribute of the copy -/
def ObjRel (m : Memo) (o o' : Obj) : Prop :=
  o'.kind = o.kind ∧ o'.cls = o.cls ∧
  ∃ core tail, o'.fields = core ++ tail ∧ List.Forall₂ (FieldRel m (isB o')) (planFields o) core ∧
    (tail = [] ∨ (annAware o.kind = true ∧ ∃ a', tail = [("_annotations", Val.ref a')]))

/-- the completed copy `o'` of an annotation set `o` (source index `p.1`): exactly the three attributes of a fresh `AnnotationSet`;
its item list — an object that is no memo target, so nothing writes to it later — holds IN ORDER the memo-images of the source's
items, repeated images dropped after their first occurrence (`OrderedSet.add`); its target is the memo-image of the source's
target (`AnnotationSet.__deepcopy__`) or the copy `j` of an owner `i` whose `_annotations` the source is
(`deep_copy_annotations_from`) -/
def SetRel (h0 : Heap) (s : St) (p : Nat × Nat) (o o' : Obj) : Prop :=
  ∃ l tv' srcitems imgs lo, o'.fields = [("_item_list", .ref l), ("_item_set", .ref (l + 1)), ("target", tv')] ∧
    itemFields h0 p.1 = some srcitems ∧ s.h[l]? = some lo ∧ (∀ q ∈ s.m, q.2 ≠ l) ∧
    lo.fields = indexed "#" 0 (dedupVals imgs.reverse).reverse ∧
    List.Forall₂ (ValRel s.m) (srcitems.map Prod.snd) imgs ∧
    ((∃ tv, o.get "target" = some tv ∧ ValRel s.m tv tv') ∨
     (∃ i j oi, tv' = .ref j ∧ (i, j) ∈ s.m ∧ h0[i]? = some oi ∧ annotationsRef oi = some p.1))
/-- the memo is a function of the source object: two entries with the same key have the same target — except for annotation-set
keys (`deep_copy_annotations_from` re-registers `memo[id(other._annotations)]`, overwriting an entry a container route may have
made) and for pairs that were both pre-seeded (the route's business) -/
def FunM (h0 : Heap) (pre : Memo) (m : Memo) : Prop :=
  ∀ p ∈ m, ∀ q ∈ m, p.1 = q.1 → p.2 = q.2 ∨ (∃ o, h0[p.1]? = some o ∧ o.kind = .annset) ∨ (p ∈ pre ∧ q ∈ pre)

namespace Aux

theorem valRel_mono {m m' : Memo} (h : ∀ p ∈ m, p ∈ m') {v v' : Val} (hv : ValRel m v v') : ValRel m' v v' := by
  cases v <;> cases v' <;> simp_all [ValRel]

theorem fieldRel_mono {m m' : Memo} (h : ∀ p ∈ m, p ∈ m') {b : Bool} {f f' : String × Val} (hr : FieldRel m b f f') :
    FieldRel m' b f f' := ⟨hr.1, hr.2.imp (valRel_mono h) id⟩

theorem objRel_mono {m m' : Memo} (h : ∀ p ∈ m, p ∈ m') {o o' : Obj} (hr : ObjRel m o o') : ObjRel m' o o' := by
  obtain ⟨h1, h2, core, tail, e, hf, ht⟩ := hr
  exact ⟨h1, h2, core, tail, e, hf.imp (fun _ _ r => fieldRel_mono h r), ht⟩

theorem forall2_right {α β : Type} {R : α → β → Prop} {l : List α} {l' : List β} (h : List.Forall₂ R l l') :
    ∀ y ∈ l', ∃ x ∈ l, R x y := by
  induction h with
  | nil => intro y hy; cases hy
  | cons hab _ ih =>
    intro y hy
    rcases List.mem_cons.mp hy with e | e
    · subst e; exact ⟨_, by simp, hab⟩
    · obtain ⟨x, hx, r⟩ := ih y e
      exact ⟨x, List.mem_cons_of_mem _ hx, r⟩

theorem forall2_left {α β : Type} {R : α → β → Prop} {l : List α} {l' : List β} (h : List.Forall₂ R l l') :
    ∀ x ∈ l, ∃ y ∈ l', R x y := by
  induction h with
  | nil => intro y hy; cases hy
  | cons hab _ ih =>
    intro y hy
    rcases List.mem_cons.mp hy with e | e
    · subst e; exact ⟨_, by simp, hab⟩
    · obtain ⟨x, hx, r⟩ := ih y e
      exact ⟨x, List.mem_cons_of_mem _ hx, r⟩

/-- the unordered reading of `ObjRel`: every attribute of the copy is the rebuilt `_annotations`, a re-targeted `_value`, or the
memo-image of a same-named source attribute; and every planned source attribute has a same-named counterpart -/
theorem objRel_sets {m : Memo} {o o' : Obj} (hr : ObjRel m o o') :
    (∀ f' ∈ o'.fields, (f'.1 = "_annotations" ∧ annAware o.kind = true) ∨ (f'.1 = "_value" ∧ isB o' = true) ∨
      ∃ f ∈ planFields o, f.1 = f'.1 ∧ ValRel m f.2 f'.2) ∧
    (∀ f ∈ planFields o, ∃ f' ∈ o'.fields, f'.1 = f.1 ∧ (ValRel m f.2 f'.2 ∨ (f.1 = "_value" ∧ isB o' = true))) := by
  obtain ⟨_, _, core, tail, e, hf, ht⟩ := hr
  constructor
  · intro f' hf'
    rw [e] at hf'
    rcases List.mem_append.mp hf' with h | h
    · obtain ⟨x, hx, en, r⟩ := forall2_right hf f' h
      rcases r with r | r
      · exact Or.inr (Or.inr ⟨x, hx, en.symm, r⟩)
      · exact Or.inr (Or.inl ⟨by rw [en]; exact r.1, r.2⟩)
    · rcases ht with ht | ⟨ha, a', ht⟩
      · rw [ht] at h; cases h
      · rw [ht] at h; simp at h; subst h; exact Or.inl ⟨rfl, ha⟩
  · intro f hf0
    obtain ⟨y, hy, en, r⟩ := forall2_left hf f hf0
    exact ⟨y, by rw [e]; exact List.mem_append.mpr (Or.inl hy), en, r⟩

theorem mem_setFieldL' {name : String} {v : Val} {fs : List (String × Val)} {f : String × Val}
    (h : f ∈ setFieldL name v fs) : f = (name, v) ∨ f ∈ fs := by
  induction fs with
  | nil => simp [setFieldL] at h; exact Or.inl h
  | cons p r ih =>
    obtain ⟨k, x⟩ := p
    simp only [setFieldL] at h
    by_cases hk : k == name
    · simp [hk] at h
      rcases h with h | h
      · simp at hk; subst hk; exact Or.inl h
      · exact Or.inr (List.mem_cons_of_mem _ h)
    · simp [hk] at h
      rcases h with h | h
      · exact Or.inr (by rw [h]; simp)
      · exact (ih h).imp id (List.mem_cons_of_mem _)

theorem mem_setFieldL_self (name : String) (v : Val) (fs : List (String × Val)) : (name, v) ∈ setFieldL name v fs := by
  induction fs with
  | nil => simp [setFieldL]
  | cons p r ih =>
    obtain ⟨k, x⟩ := p
    simp only [setFieldL]
    by_cases hk : k == name
    · simp at hk; subst hk; simp
    · simp [hk]; exact Or.inr ih

theorem mem_setFieldL_of_ne {name : String} {v : Val} {fs : List (String × Val)} {f : String × Val}
    (h : f ∈ fs) (hne : f.1 ≠ name) : f ∈ setFieldL name v fs := by
  induction fs with
  | nil => cases h
  | cons p r ih =>
    obtain ⟨k, x⟩ := p
    simp only [setFieldL]
    rcases List.mem_cons.mp h with e | e
    · subst e
      have : (k == name) = false := by simpa using hne
      simp [this]
    · by_cases hk : k == name
      · simp [hk]; exact Or.inr e
      · simp [hk]; exact Or.inr (ih e)

theorem lookup_setFieldL_ne {name k : String} (v : Val) (fs : List (String × Val)) (hne : k ≠ name) :
    (setFieldL name v fs).lookup k = fs.lookup k := by
  induction fs with
  | nil =>
    have : (k == name) = false := by simpa using hne
    simp [setFieldL, List.lookup, this]
  | cons p r ih =>
    obtain ⟨a, x⟩ := p
    simp only [setFieldL]
    by_cases ha : a == name
    · simp at ha; subst ha
      have : (k == a) = false := by simpa using hne
      simp [List.lookup, this]
    · simp only [ha]
      by_cases hka : k == a
      · simp [List.lookup, hka]
      · simp [List.lookup, hka, ih]

theorem setFieldL_append_notin (n : String) (v : Val) (tail : List (String × Val)) :
    ∀ core : List (String × Val), (∀ f ∈ core, f.1 ≠ n) → setFieldL n v (core ++ tail) = core ++ setFieldL n v tail := by
  intro core
  induction core with
  | nil => intro _; rfl
  | cons p r ih =>
    intro h
    obtain ⟨k, x⟩ := p
    have hk : (k == n) = false := by simpa using h (k, x) (by simp)
    simp only [List.cons_append, setFieldL, hk]
    rw [ih (fun f hf => h f (List.mem_cons_of_mem _ hf))]
    rfl

/-- overwriting `_value` in place: the first `_value` attribute sits inside the planned part, its position and name stay -/
theorem forall2_setValue {m : Memo} (v : Val) (tail : List (String × Val)) {pf core : List (String × Val)}
    (h : List.Forall₂ (FieldRel m true) pf core) (hv : ∃ w, ("_value", w) ∈ pf) :
    ∃ core', setFieldL "_value" v (core ++ tail) = core' ++ tail ∧ List.Forall₂ (FieldRel m true) pf core' := by
  induction h with
  | nil => obtain ⟨w, hw⟩ := hv; cases hw
  | @cons a b pf' core0 hab hrest ih =>
    obtain ⟨k, x⟩ := b
    by_cases hk : k = "_value"
    · subst hk
      refine ⟨("_value", v) :: core0, by simp [setFieldL], List.Forall₂.cons ⟨hab.1, Or.inr ⟨hab.1.symm, rfl⟩⟩ hrest⟩
    · have hk' : (k == "_value") = false := by simpa using hk
      obtain ⟨w, hw⟩ := hv
      have hw' : ("_value", w) ∈ pf' := by
        rcases List.mem_cons.mp hw with e | e
        · exfalso; apply hk; have := hab.1; rw [← e] at this; exact this
        · exact e
      obtain ⟨core', e1, e2⟩ := ih ⟨w, hw'⟩
      refine ⟨(k, x) :: core', ?_, List.Forall₂.cons hab e2⟩
      simp only [List.cons_append, setFieldL, hk']
      rw [e1]; rfl

/-- rewriting `_value` of a bound copy (whose source has a `_value` attribute) keeps the correspondence, order included -/
theorem objRel_setValue {m : Memo} {o o' : Obj} (v : Val) (hb : isB o' = true) (hv : ∃ w, ("_value", w) ∈ planFields o)
    (hr : ObjRel m o o') : ObjRel m o { o' with fields := setFieldL "_value" v o'.fields } := by
  obtain ⟨h1, h2, core, tail, e, hf, ht⟩ := hr
  have hb' : isB { o' with fields := setFieldL "_value" v o'.fields } = true := by
    unfold isB Obj.get at hb ⊢
    simp only
    rw [lookup_setFieldL_ne v o'.fields (by decide)]; exact hb
  rw [hb] at hf
  obtain ⟨core', e1, e2⟩ := forall2_setValue v tail hf hv
  refine ⟨h1, h2, core', tail, by simp only; rw [e, e1], by rw [hb']; exact e2, ht⟩

/-- attaching the rebuilt `_annotations` to a copy of an annotation-aware object keeps the correspondence: it becomes (or replaces)
the last attribute -/
theorem objRel_setAnn {m : Memo} {o o' : Obj} (a' : Nat) (ha : annAware o.kind = true) (hr : ObjRel m o o') :
    ObjRel m o { o' with fields := setFieldL "_annotations" (.ref a') o'.fields } := by
  obtain ⟨h1, h2, core, tail, e, hf, ht⟩ := hr
  have hb' : isB { o' with fields := setFieldL "_annotations" (.ref a') o'.fields } = isB o' := by
    unfold isB Obj.get
    simp only
    rw [lookup_setFieldL_ne _ o'.fields (by decide)]
  have hplan : ∀ f ∈ planFields o, f.1 ≠ "_annotations" := by
    intro f hf
    cases hk : o.kind <;> simp [annAware, hk] at ha <;> simp only [planFields, hk] at hf
    · have := (List.mem_filter.mp hf).2; simpa using this
    · have := (List.mem_filter.mp hf).2; simpa using this
    · rcases List.mem_append.mp hf with hf | hf
      · have := (List.mem_filter.mp hf).2
        intro e; rw [e] at this; simp at this
      · have := (List.mem_filter.mp hf).2
        intro e; rw [e] at this; simp at this
  have hcore : ∀ f ∈ core, f.1 ≠ "_annotations" := by
    intro f' hf'
    obtain ⟨x, hx, en, _⟩ := forall2_right hf f' hf'
    rw [en]; exact hplan x hx
  have htail : setFieldL "_annotations" (.ref a') tail = [("_annotations", Val.ref a')] := by
    rcases ht with ht | ⟨_, a0, ht⟩
    · rw [ht]; rfl
    · rw [ht]; simp [setFieldL]
  refine ⟨h1, h2, core, [("_annotations", Val.ref a')], ?_, by rw [hb']; exact hf, Or.inr ⟨ha, a', rfl⟩⟩
  simp only
  rw [e, setFieldL_append_notin _ _ _ core hcore, htail]

theorem planFields_mem_of_ne {o : Obj} {f : String × Val} (h : f ∈ o.fields) (hne : f.1 ≠ "_annotations") : f ∈ planFields o := by
  have hb : (f.1 != "_annotations") = true := by simpa using hne
  cases hk : o.kind <;> simp only [planFields, hk]
  · exact List.mem_filter.mpr ⟨h, hb⟩
  · exact List.mem_filter.mpr ⟨h, hb⟩
  · by_cases ht : f.1 = "_taxa"
    · exact List.mem_append.mpr (Or.inl (List.mem_filter.mpr ⟨h, by simpa using ht⟩))
    · exact List.mem_append.mpr (Or.inr (List.mem_filter.mpr ⟨h, by simp [hne, ht]⟩))
  · exact h
  · exact h
  · exact h

/-! #### the correspondence invariant -/
def Blank (h0 : Heap) (s : St) (p : Nat × Nat) : Prop :=
  ∃ o o', h0[p.1]? = some o ∧ s.h[p.2]? = some o' ∧ o'.fields = [] ∧ (o.kind = .annset ∨ (o'.kind = o.kind ∧ o'.cls = o.cls))
/-- what the copy's `_value` looks like when the source's is read by `boundValue` as `(ref ow, atom nm)`: either still the
generic copy of the source's `_value` object (a memo-image of it), or a re-targeting tuple `(ref j, atom nm)` — an object that is
no memo target — whose owner `j` is a memo-image of the source's owner -/
def VC (h0 : Heap) (s : St) (p : Nat × Nat) (o o' : Obj) : Prop :=
  ∀ tv ow nm, o.get "_value" = some (.ref tv) → (∀ v, ("_value", v) ∈ o.fields → v = .ref tv) →
    boundValue h0 p.1 = some (.ref ow, .atom nm) →
    (∃ t, o'.get "_value" = some (.ref t) ∧ (tv, t) ∈ s.m) ∨
    (∃ t j ot, o'.get "_value" = some (.ref t) ∧ s.h[t]? = some ot ∧ ot.get "#0" = some (.ref j) ∧
      ot.get "#1" = some (.atom nm) ∧ (∀ q ∈ s.m, q.2 ≠ t) ∧ (ow, j) ∈ s.m)
def Done (h0 : Heap) (s : St) (p : Nat × Nat) : Prop :=
  ∃ o o', h0[p.1]? = some o ∧ s.h[p.2]? = some o' ∧
    ((o.kind = .annset ∧ SetRel h0 s p o o') ∨ (ObjRel s.m o o' ∧ VC h0 s p o o'))
/-- every memo entry is pre-seeded, or a pending (in-progress, still blank) copy listed in `P`, or a completed copy; and the memo
is functional -/
structure Iso (h0 : Heap) (pre : Memo) (P : List (Nat × Nat)) (s : St) : Prop where
  ent : ∀ p ∈ s.m, p ∈ pre ∨ (p ∈ P ∧ Blank h0 s p) ∨ Done h0 s p
  fn : FunM h0 pre s.m
def MemoSub (s s' : St) : Prop := ∀ p ∈ s.m, p ∈ s'.m

theorem lt_of_get {h : Heap} {x : Nat} {o : Obj} (hg : h[x]? = some o) : x < h.size :=
  (Array.getElem?_eq_some_iff.mp hg).1

/-- transport of a completed entry across a step that keeps every object except possibly `w`, where `w` is a memo target or a
new index, and adds only memo entries with new targets -/
theorem done_transport {h0 : Heap} {s s' : St} {p : Nat × Nat} (w : Nat) (hd : Done h0 s p) (hm : MemoSub s s')
    (hn : ∀ q ∈ s'.m, q ∈ s.m ∨ s.h.size ≤ q.2)
    (hk : ∀ x ox, s.h[x]? = some ox → x ≠ w → s'.h[x]? = some ox)
    (hw : (∃ q ∈ s.m, q.2 = w) ∨ s.h.size ≤ w) (hp : p.2 ≠ w) : Done h0 s' p := by
  obtain ⟨o, o', h1, h2, h3⟩ := hd
  refine ⟨o, o', h1, hk _ _ h2 hp, ?_⟩
  rcases h3 with ⟨a, l, tv', si, imgs, lo, f1, f2, f3, f4, f5, f6, f7⟩ | ⟨r, v⟩
  · have hlw : l ≠ w := by
      rcases hw with ⟨q, hq, e'⟩ | hge
      · intro e''; exact f4 q hq (by rw [e', e''])
      · have := lt_of_get f3; omega
    refine Or.inl ⟨a, l, tv', si, imgs, lo, f1, f2, hk _ _ f3 hlw, ?_, f5, f6.imp (fun _ _ r => valRel_mono hm r), ?_⟩
    · intro q hq
      rcases hn q hq with h' | h'
      · exact f4 q h'
      · have := lt_of_get f3; omega
    · rcases f7 with ⟨tv, g1, g2⟩ | ⟨i, j, oi, g1, g2, g3, g4⟩
      · exact Or.inl ⟨tv, g1, valRel_mono hm g2⟩
      · exact Or.inr ⟨i, j, oi, g1, hm _ g2, g3, g4⟩
  · refine Or.inr ⟨objRel_mono hm r, ?_⟩
    intro tv ow nm e1 hu e2
    rcases v tv ow nm e1 hu e2 with ⟨t, a, b⟩ | ⟨t, j, ot, a, b, c, d, e, f⟩
    · exact Or.inl ⟨t, a, hm _ b⟩
    · have htw : t ≠ w := by
        rcases hw with ⟨q, hq, e'⟩ | hge
        · intro e''; exact e q hq (by rw [e', e''])
        · have := lt_of_get b; omega
      refine Or.inr ⟨t, j, ot, a, hk _ _ b htw, c, d, ?_, hm _ f⟩
      intro q hq
      rcases hn q hq with h' | h'
      · exact e q h'
      · have := lt_of_get b; omega

theorem blank_transport {h0 : Heap} {s s' : St} {p : Nat × Nat} (w : Nat) (hd : Blank h0 s p)
    (hk : ∀ x ox, s.h[x]? = some ox → x ≠ w → s'.h[x]? = some ox) (hp : p.2 ≠ w) : Blank h0 s' p := by
  obtain ⟨o, o', h1, h2, h3⟩ := hd
  exact ⟨o, o', h1, hk _ _ h2 hp, h3⟩

theorem keep_push (h : Heap) (o : Obj) : ∀ x ox, h[x]? = some ox → x ≠ h.size → (h.push o)[x]? = some ox := by
  intro x ox hx _
  have := lt_of_get hx
  rw [← hx]; simp [Array.getElem?_push]; omega
theorem keep_set (h : Heap) (j : Nat) (o : Obj) : ∀ x ox, h[x]? = some ox → x ≠ j → (h.setIfInBounds j o)[x]? = some ox := by
  intro x ox hx hne
  rw [← hx]; simp [Array.getElem?_setIfInBounds, Ne.symm hne]

theorem iso_push {h0 : Heap} {pre : Memo} {P : List (Nat × Nat)} {s : St} (hi : Iso h0 pre P s) (o : Obj) :
    Iso h0 pre P ⟨s.h.push o, s.m⟩ := by
  refine ⟨?_, hi.fn⟩
  intro p hp
  rcases hi.ent p hp with a | ⟨hP, hb⟩ | hd
  · exact Or.inl a
  · obtain ⟨_, ox, _, hx, _⟩ := id hb
    exact Or.inr (Or.inl ⟨hP, blank_transport s.h.size hb (keep_push s.h o) (Nat.ne_of_lt (lt_of_get hx))⟩)
  · obtain ⟨_, ox, _, hx, _⟩ := id hd
    exact Or.inr (Or.inr (done_transport s.h.size hd (fun _ h => h) (fun q hq => Or.inl hq) (keep_push s.h o)
      (Or.inr (Nat.le_refl _)) (Nat.ne_of_lt (lt_of_get hx))))

theorem funM_cons {h0 : Heap} {pre m : Memo} (hf : FunM h0 pre m) (i j : Nat)
    (hkey : m.lookup i = none ∨ ∃ oi, h0[i]? = some oi ∧ oi.kind = .annset) : FunM h0 pre ((i, j) :: m) := by
  have hnone : m.lookup i = none → ∀ q ∈ m, q.1 ≠ i := by
    intro hl q hq e
    have := List.lookup_eq_none_iff.mp hl q hq
    rw [e] at this; simp at this
  intro p hp q hq e
  rcases List.mem_cons.mp hp with ep | ep <;> rcases List.mem_cons.mp hq with eq | eq
  · subst ep; subst eq; exact Or.inl rfl
  · subst ep
    rcases hkey with hl | ha
    · exact absurd e.symm (hnone hl q eq)
    · exact Or.inr (Or.inl ha)
  · subst eq
    rcases hkey with hl | ha
    · exact absurd e (hnone hl p ep)
    · exact Or.inr (Or.inl (by rw [e]; exact ha))
  · exact hf p ep q eq e

/-- allocation of a new object registered at once in the memo -/
theorem iso_alloc {h0 : Heap} {pre : Memo} {P : List (Nat × Nat)} {s : St} (hi : Iso h0 pre P s) (o : Obj) (i : Nat)
    (hnew : ((i, s.h.size) ∈ P ∧ Blank h0 ⟨s.h.push o, (i, s.h.size) :: s.m⟩ (i, s.h.size)) ∨
      Done h0 ⟨s.h.push o, (i, s.h.size) :: s.m⟩ (i, s.h.size))
    (hkey : s.m.lookup i = none ∨ ∃ oi, h0[i]? = some oi ∧ oi.kind = .annset) :
    Iso h0 pre P ⟨s.h.push o, (i, s.h.size) :: s.m⟩ := by
  refine ⟨?_, funM_cons hi.fn i s.h.size hkey⟩
  intro p hp
  rcases List.mem_cons.mp hp with e | e
  · subst e
    rcases hnew with a | a
    · exact Or.inr (Or.inl a)
    · exact Or.inr (Or.inr a)
  · rcases hi.ent p e with a | ⟨hP, hb⟩ | hd
    · exact Or.inl a
    · obtain ⟨_, ox, _, hx, _⟩ := id hb
      exact Or.inr (Or.inl ⟨hP, blank_transport s.h.size hb (keep_push s.h o) (Nat.ne_of_lt (lt_of_get hx))⟩)
    · obtain ⟨_, ox, _, hx, _⟩ := id hd
      refine Or.inr (Or.inr (done_transport s.h.size hd (fun q h => List.mem_cons_of_mem _ h) ?_ (keep_push s.h o)
        (Or.inr (Nat.le_refl _)) (Nat.ne_of_lt (lt_of_get hx))))
      intro q hq
      rcases List.mem_cons.mp hq with e' | e'
      · subst e'; exact Or.inr (Nat.le_refl _)
      · exact Or.inl e'

/-- replacing object `j` (a memo target): the entries with another target are unaffected, those with target `j` are re-established
by the caller -/
theorem iso_update {h0 : Heap} {pre : Memo} {P P' : List (Nat × Nat)} {s : St} (hi : Iso h0 pre P s) (j : Nat) (onew : Obj)
    (hjt : ∃ q ∈ s.m, q.2 = j) (hP : ∀ p ∈ P, p.2 ≠ j → p ∈ P')
    (hj : ∀ p ∈ s.m, p.2 = j → p ∈ pre ∨ (p ∈ P' ∧ Blank h0 ⟨s.h.setIfInBounds j onew, s.m⟩ p) ∨
      Done h0 ⟨s.h.setIfInBounds j onew, s.m⟩ p) :
    Iso h0 pre P' ⟨s.h.setIfInBounds j onew, s.m⟩ := by
  refine ⟨?_, hi.fn⟩
  intro p hp
  by_cases e : p.2 = j
  · exact hj p hp e
  · rcases hi.ent p hp with a | ⟨hp', hb⟩ | hd
    · exact Or.inl a
    · exact Or.inr (Or.inl ⟨hP p hp' e, blank_transport j hb (keep_set s.h j onew) e⟩)
    · exact Or.inr (Or.inr (done_transport j hd (fun _ h => h) (fun q hq => Or.inl hq) (keep_set s.h j onew) (Or.inl hjt) e))

theorem iso_weaken {h0 : Heap} {pre : Memo} {P P' : List (Nat × Nat)} {s : St} (hi : Iso h0 pre P s)
    (hP : ∀ p ∈ P, p ∈ P') : Iso h0 pre P' s := by
  refine ⟨?_, hi.fn⟩
  intro p hp
  rcases hi.ent p hp with a | ⟨b, c⟩ | d
  · exact Or.inl a
  · exact Or.inr (Or.inl ⟨hP p b, c⟩)
  · exact Or.inr (Or.inr d)

theorem pend_drop {P : List (Nat × Nat)} {i j : Nat} : ∀ p ∈ (i, j) :: P, p.2 ≠ j → p ∈ P := by
  intro p hp hne
  rcases List.mem_cons.mp hp with e | e
  · subst e; exact absurd rfl hne
  · exact e

theorem setField_eq {h : Heap} {j : Nat} {o : Obj} (hg : h[j]? = some o) (n : String) (v : Val) :
    setField h j n v = h.setIfInBounds j { o with fields := setFieldL n v o.fields } := by
  unfold setField; rw [hg]
theorem setFields_eq {h : Heap} {j : Nat} {o : Obj} (hg : h[j]? = some o) (fs : List (String × Val)) :
    setFields h j fs = h.setIfInBounds j { o with fields := fs } := by
  unfold setFields; rw [hg]
theorem getElem?_set_self {h : Heap} {j : Nat} {o : Obj} (hg : h[j]? = some o) (onew : Obj) :
    (h.setIfInBounds j onew)[j]? = some onew := by
  have := (Array.getElem?_eq_some_iff.mp hg).1
  simp [Array.getElem?_setIfInBounds, this]

theorem isBound_eq_isB {h : Heap} {j : Nat} {o : Obj} (hg : h[j]? = some o) : isBound h j = isB o := by
  unfold isBound isB; rw [hg]

theorem get_setFieldL_self (n : String) (v : Val) (fs : List (String × Val)) : (setFieldL n v fs).lookup n = some v := by
  induction fs with
  | nil => simp [setFieldL, List.lookup]
  | cons p r ih =>
    obtain ⟨k, x⟩ := p
    simp only [setFieldL]
    by_cases hk : k == n
    · simp at hk; subst hk; simp [List.lookup]
    · have hk' : (n == k) = false := by
        simp at hk ⊢; exact fun e => hk e.symm
      simp [hk, List.lookup, hk', ih]

/-- the state after the re-targeting write, and what it establishes for the entries whose target is the re-targeted object -/
theorem done_retargeted {b : Nat} {h0 : Heap} {pre : Memo} {s : St} (g : Good b h0 pre s) (hpre : ∀ p ∈ pre, p.2 < b)
    (i j i1 j2 : Nat) (nm : String) (o2 : Obj) (ho2 : s.h[j2]? = some o2) (hbo : isB o2 = true)
    (hbv : boundValue h0 i1 = some (.ref i, .atom nm)) (hij : (i, j) ∈ s.m) (h12 : (i1, j2) ∈ s.m) (hj2 : b ≤ j2)
    (p : Nat × Nat) (hp : p ∈ s.m) (e : p.2 = j2) (hd : Done h0 s p) :
    Done h0 ⟨(s.h.push (Obj.mk .tuple "tuple" [("#0", .ref j), ("#1", .atom nm)])).setIfInBounds j2
      { o2 with fields := setFieldL "_value" (.ref s.h.size) o2.fields }, s.m⟩ p := by
  have hlt := lt_of_get ho2
  have ho2' : (s.h.push (Obj.mk .tuple "tuple" [("#0", .ref j), ("#1", .atom nm)]))[j2]? = some o2 := by
    rw [← ho2]; simp [Array.getElem?_push]; omega
  have hp1 : p.1 = i1 := (g.inj hpre (i1, j2) p h12 hp hj2 e.symm).symm
  obtain ⟨so, o', h1, h2, h3⟩ := hd
  rw [e] at h2; rw [ho2] at h2; cases h2
  refine ⟨so, _, h1, by rw [e]; exact getElem?_set_self ho2' _, ?_⟩
  rcases h3 with ⟨_, l, tv', si, imgs, lo, f1, _⟩ | ⟨r, _⟩
  · exfalso
    simp [isB, Obj.get, f1, List.lookup] at hbo
  · have hvso : ∃ w, ("_value", w) ∈ planFields so := by
      rw [hp1] at h1
      unfold boundValue at hbv
      rw [h1] at hbv
      simp only at hbv
      cases hgv : so.get "_value" with
      | none => simp [hgv] at hbv
      | some w => exact ⟨w, planFields_mem_of_ne (get_mem hgv) (by simp)⟩
    refine Or.inr ⟨objRel_setValue _ hbo hvso r, ?_⟩
    intro tv ow nm' e1 _ e2
    rw [hp1, hbv] at e2
    cases e2
    refine Or.inr ⟨s.h.size, j, Obj.mk .tuple "tuple" [("#0", .ref j), ("#1", .atom nm)], ?_, ?_, ?_, ?_, ?_, hij⟩
    · simp only [Obj.get]; exact get_setFieldL_self _ _ _
    · have : j2 ≠ s.h.size := by omega
      simp [Array.getElem?_setIfInBounds, this]
    · simp [Obj.get, List.lookup]
    · simp [Obj.get, List.lookup]
    · intro q hq; exact Nat.ne_of_lt (g.lt hpre q hq)

/-- facts about the re-targeting step that the invariants need: the source annotation is read in the unchanged source region, the
owner's copy is registered, and the re-targeted object is a registered copy of the item -/
structure RtCtx (b : Nat) (h0 : Heap) (pre : Memo) (s : St) (i j : Nat) (a1 a2 : Val) : Prop where
  good : Good b h0 pre s
  hpre : ∀ p ∈ pre, p.2 < b
  hnw : ∀ x ∈ targets pre, isBound h0 x = false
  same : ∀ i1, a1 = .ref i1 → boundValue s.h i1 = boundValue h0 i1
  hij : (i, j) ∈ s.m
  rel : ∀ i1 j2, a1 = .ref i1 → a2 = .ref j2 → (i1, j2) ∈ s.m

theorem rt_fresh {b : Nat} {h0 : Heap} {pre : Memo} {s : St} {i j : Nat} {a1 a2 : Val} (cx : RtCtx b h0 pre s i j a1 a2)
    (i1 j2 : Nat) (e1 : a1 = .ref i1) (e2 : a2 = .ref j2) (hb : isBound s.h j2 = true) : b ≤ j2 := by
  by_cases hlt : j2 < b
  · exfalso
    rcases cx.good.fresh _ (cx.rel i1 j2 e1 e2) with hp | hge
    · have ht : j2 ∈ targets pre := List.mem_map.mpr ⟨_, hp, rfl⟩
      have := cx.hnw j2 ht
      have hs := old_all cx.good cx.hnw j2 hlt
      rw [isBound_congr hs] at hb
      rw [this] at hb; cases hb
    · simp at hge; omega
  · omega

theorem iso_retarget {b : Nat} {h0 : Heap} {pre : Memo} {P : List (Nat × Nat)} {s : St} (i j : Nat) (a1 a2 : Val)
    (cx : RtCtx b h0 pre s i j a1 a2) (hi : Iso h0 pre P s) : Iso h0 pre P (retarget s i j a1 a2) := by
  unfold retarget
  split
  · rename_i i1 j2
    split
    · rename_i hb
      split
      · rename_i ow nm hbv
        split
        · rename_i how
          have howi : ow = i := by simpa using how
          subst howi
          obtain ⟨o2, ho2⟩ : ∃ o2, s.h[j2]? = some o2 := by
            unfold isBound at hb
            cases hg : s.h[j2]? with
            | none => simp [hg] at hb
            | some o => exact ⟨o, rfl⟩
          have hlt := lt_of_get ho2
          have hbo : isB o2 = true := by rw [← isBound_eq_isB ho2]; exact hb
          have hj2 := rt_fresh cx i1 j2 rfl rfl hb
          have h12 := cx.rel i1 j2 rfl rfl
          have hbv0 : boundValue h0 i1 = some (.ref ow, .atom nm) := by rw [← cx.same i1 rfl]; exact hbv
          have hi1 := iso_push hi (Obj.mk .tuple "tuple" [("#0", .ref j), ("#1", .atom nm)])
          have ho2' : (s.h.push (Obj.mk .tuple "tuple" [("#0", .ref j), ("#1", .atom nm)]))[j2]? = some o2 := by
            rw [← ho2]; simp [Array.getElem?_push]; omega
          show Iso h0 pre P ⟨setField (s.h.push (Obj.mk .tuple "tuple" [("#0", .ref j), ("#1", .atom nm)])) j2 "_value"
            (.ref s.h.size), s.m⟩
          rw [setField_eq ho2']
          apply iso_update hi1 j2 _ ⟨(i1, j2), h12, rfl⟩ (fun p hp _ => hp)
          intro p hp e
          rcases hi.ent p hp with a | ⟨_, so, o', _, h1, h2, _⟩ | hd
          · exact Or.inl a
          · exfalso
            rw [e] at h1; rw [ho2] at h1; cases h1
            simp [isB, Obj.get, h2] at hbo
          · exact Or.inr (Or.inr (done_retargeted cx.good cx.hpre ow j i1 j2 nm o2 ho2 hbo hbv0 cx.hij h12 hj2 p hp e hd))
        · exact hi
      · exact hi
    · exact hi
  · exact hi

/-- what a (sub-)call guarantees about what was already there: memo entries stay, new entries have new targets, blank
(in-progress) and completed copies stay so -/
structure Stable (h0 : Heap) (s s' : St) : Prop where
  sub : MemoSub s s'
  size : s.h.size ≤ s'.h.size
  newtgt : ∀ q ∈ s'.m, q ∈ s.m ∨ s.h.size ≤ q.2
  blank : ∀ p, Blank h0 s p → Blank h0 s' p
  done : ∀ p ∈ s.m, Done h0 s p → Done h0 s' p

theorem stable_refl (h0 : Heap) (s : St) : Stable h0 s s :=
  ⟨fun _ h => h, Nat.le_refl _, fun _ h => Or.inl h, fun _ h => h, fun _ _ h => h⟩
theorem stable_trans {h0 : Heap} {a b c : St} (h1 : Stable h0 a b) (h2 : Stable h0 b c) : Stable h0 a c :=
  ⟨fun p h => h2.sub p (h1.sub p h), Nat.le_trans h1.size h2.size,
    fun q hq => by
      rcases h2.newtgt q hq with h | h
      · exact h1.newtgt q h
      · exact Or.inr (Nat.le_trans h1.size h),
    fun p h => h2.blank p (h1.blank p h), fun p hp h => h2.done p (h1.sub p hp) (h1.done p hp h)⟩

theorem stable_push (h0 : Heap) (s : St) (o : Obj) : Stable h0 s ⟨s.h.push o, s.m⟩ := by
  refine ⟨fun _ h => h, by simp, fun _ h => Or.inl h, ?_, ?_⟩
  · intro p hb
    obtain ⟨_, ox, _, hx, _⟩ := id hb
    exact blank_transport s.h.size hb (keep_push s.h o) (Nat.ne_of_lt (lt_of_get hx))
  · intro p _ hd
    obtain ⟨_, ox, _, hx, _⟩ := id hd
    exact done_transport s.h.size hd (fun _ h => h) (fun q hq => Or.inl hq) (keep_push s.h o)
      (Or.inr (Nat.le_refl _)) (Nat.ne_of_lt (lt_of_get hx))

theorem stable_alloc (h0 : Heap) (s : St) (o : Obj) (i : Nat) : Stable h0 s ⟨s.h.push o, (i, s.h.size) :: s.m⟩ := by
  have hn : ∀ q ∈ (i, s.h.size) :: s.m, q ∈ s.m ∨ s.h.size ≤ q.2 := by
    intro q hq
    rcases List.mem_cons.mp hq with e' | e'
    · subst e'; exact Or.inr (Nat.le_refl _)
    · exact Or.inl e'
  refine ⟨fun p h => List.mem_cons_of_mem _ h, by simp, hn, ?_, ?_⟩
  · intro p hb
    obtain ⟨_, ox, _, hx, _⟩ := id hb
    exact blank_transport s.h.size hb (keep_push s.h o) (Nat.ne_of_lt (lt_of_get hx))
  · intro p _ hd
    obtain ⟨_, ox, _, hx, _⟩ := id hd
    exact done_transport s.h.size hd (fun q h => List.mem_cons_of_mem _ h) hn (keep_push s.h o)
      (Or.inr (Nat.le_refl _)) (Nat.ne_of_lt (lt_of_get hx))

/-- overwriting an object that did not exist in `s` (allocated since, a memo target now) cannot disturb what `s` knew -/
theorem stable_update_new {h0 : Heap} {s s2 : St} (h : Stable h0 s s2) (j : Nat) (hj : s.h.size ≤ j) (onew : Obj)
    (hjt : ∃ q ∈ s2.m, q.2 = j) : Stable h0 s ⟨s2.h.setIfInBounds j onew, s2.m⟩ := by
  refine ⟨h.sub, by simpa using h.size, h.newtgt, ?_, ?_⟩
  · intro p hp
    obtain ⟨_, ox, _, hx, _⟩ := id hp
    have := lt_of_get hx
    exact blank_transport j (h.blank p hp) (keep_set s2.h j onew) (by omega)
  · intro p hpm hp
    obtain ⟨_, ox, _, hx, _⟩ := id hp
    have := lt_of_get hx
    exact done_transport j (h.done p hpm hp) (fun _ h => h) (fun q hq => Or.inl hq) (keep_set s2.h j onew) (Or.inl hjt) (by omega)

theorem stable_retarget {b : Nat} {h0 : Heap} {pre : Memo} {s : St} (i j : Nat) (a1 a2 : Val)
    (cx : RtCtx b h0 pre s i j a1 a2) : Stable h0 s (retarget s i j a1 a2) := by
  unfold retarget
  split
  · rename_i i1 j2
    split
    · rename_i hb
      split
      · rename_i ow nm hbv
        split
        · rename_i how
          have howi : ow = i := by simpa using how
          subst howi
          obtain ⟨o2, ho2⟩ : ∃ o2, s.h[j2]? = some o2 := by
            unfold isBound at hb
            cases hg : s.h[j2]? with
            | none => simp [hg] at hb
            | some o => exact ⟨o, rfl⟩
          have hlt := lt_of_get ho2
          have hbo : isB o2 = true := by rw [← isBound_eq_isB ho2]; exact hb
          have hj2 := rt_fresh cx i1 j2 rfl rfl hb
          have h12 := cx.rel i1 j2 rfl rfl
          have hbv0 : boundValue h0 i1 = some (.ref ow, .atom nm) := by rw [← cx.same i1 rfl]; exact hbv
          have ho2' : (s.h.push (Obj.mk .tuple "tuple" [("#0", .ref j), ("#1", .atom nm)]))[j2]? = some o2 := by
            rw [← ho2]; simp [Array.getElem?_push]; omega
          show Stable h0 s ⟨setField (s.h.push (Obj.mk .tuple "tuple" [("#0", .ref j), ("#1", .atom nm)])) j2 "_value"
            (.ref s.h.size), s.m⟩
          rw [setField_eq ho2']
          have sp := stable_push h0 s (Obj.mk .tuple "tuple" [("#0", .ref j), ("#1", .atom nm)])
          refine ⟨fun _ h => h, by simp, fun _ h => Or.inl h, ?_, ?_⟩
          · intro p hp
            by_cases e : p.2 = j2
            · exfalso
              obtain ⟨so, o', a, b', c, d⟩ := hp
              rw [e] at b'; rw [ho2] at b'; cases b'
              simp [isB, Obj.get, c] at hbo
            · exact blank_transport j2 (sp.blank p hp) (keep_set _ j2 _) e
          · intro p hpm hp
            by_cases e : p.2 = j2
            · exact done_retargeted cx.good cx.hpre ow j i1 j2 nm o2 ho2 hbo hbv0 cx.hij h12 hj2 p hpm e hp
            · exact done_transport j2 (sp.done p hpm hp) (fun _ h => h) (fun q hq => Or.inl hq) (keep_set _ j2 _)
                (Or.inl ⟨(i1, j2), h12, rfl⟩) e
        · exact stable_refl _ _
      · exact stable_refl _ _
    · exact stable_refl _ _
  · exact stable_refl _ _

theorem annotationsRef_aware {o : Obj} {a : Nat} (h : annotationsRef o = some a) : annAware o.kind = true := by
  cases hk : o.kind <;> simp only [annotationsRef, hk] at h <;> first | rfl | cases h

theorem lookup_of_mem_key {k : String} {v : Val} {fs : List (String × Val)} (h : (k, v) ∈ fs) :
    ∃ x, fs.lookup k = some x ∧ (k, x) ∈ fs := by
  induction fs with
  | nil => cases h
  | cons p r ih =>
    obtain ⟨a, y⟩ := p
    by_cases e : k == a
    · simp at e; subst e; exact ⟨y, by simp [List.lookup], by simp⟩
    · rcases List.mem_cons.mp h with h' | h'
      · cases h'; simp at e
      · obtain ⟨x, hx1, hx2⟩ := ih h'
        exact ⟨x, by simp [List.lookup, e, hx1], List.mem_cons_of_mem _ hx2⟩

/-- attaching `_annotations` to the completed copy of an annotation-aware object keeps it completed -/
theorem done_setAnn {h0 : Heap} {s : St} {p : Nat × Nat} (a' : Nat) (hd : Done h0 s p)
    (haw : ∀ o, h0[p.1]? = some o → annAware o.kind = true) (hjt : ∃ q ∈ s.m, q.2 = p.2) :
    ∃ o', s.h[p.2]? = some o' ∧
      Done h0 ⟨s.h.setIfInBounds p.2 { o' with fields := setFieldL "_annotations" (.ref a') o'.fields }, s.m⟩ p := by
  obtain ⟨o, o', h1, h2, h3⟩ := hd
  refine ⟨o', h2, o, _, h1, getElem?_set_self h2 _, ?_⟩
  rcases h3 with ⟨a, _⟩ | ⟨r, vc⟩
  · exfalso
    have := haw o h1
    rw [a] at this; cases this
  · refine Or.inr ⟨objRel_setAnn _ (haw o h1) r, ?_⟩
    have hget : ({ o' with fields := setFieldL "_annotations" (.ref a') o'.fields } : Obj).get "_value" = o'.get "_value" := by
      simp only [Obj.get]; exact lookup_setFieldL_ne _ o'.fields (by decide)
    intro tv ow nm e1 hu e2
    rcases vc tv ow nm e1 hu e2 with ⟨t, a, b⟩ | ⟨t, j, ot, a, b, c', d, e, f⟩
    · exact Or.inl ⟨t, by rw [hget]; exact a, b⟩
    · obtain ⟨q, hq, eq⟩ := hjt
      have : t ≠ p.2 := by intro e'; exact e q hq (by rw [eq, e'])
      exact Or.inr ⟨t, j, ot, by rw [hget]; exact a, keep_set s.h p.2 _ t ot b this, c', d, e, f⟩

theorem boundValue_congr {c : Nat} {h0 h1 : Heap} (wf : WellFormed c h0) (hs : ∀ x, x < c → h1[x]? = h0[x]?) (i1 : Nat)
    (hi : i1 < c) : boundValue h1 i1 = boundValue h0 i1 := by
  unfold boundValue
  rw [hs i1 hi]
  cases hget : h0[i1]? with
  | none => rfl
  | some a =>
    simp only
    cases hv : a.get "_value" with
    | none => rfl
    | some v =>
      cases v with
      | atom x => rfl
      | ref t =>
        have : t < c := wf.closed i1 a hi hget _ (get_mem hv) t rfl
        simp only [hs t this]

theorem get_push2 (h : Heap) (L S : Obj) : ((h.push L).push S)[h.size]? = some L := by
  rw [Array.getElem?_push]
  simp
theorem get_push3 (h : Heap) (L S A : Obj) : (((h.push L).push S).push A)[h.size]? = some L := by
  rw [Array.getElem?_push]
  have : ¬ (h.size = ((h.push L).push S).size) := by simp; omega
  rw [if_neg this]
  exact get_push2 h L S

theorem forall2_map_snd {m : Memo} {fs fs' : List (String × Val)}
    (h : List.Forall₂ (fun x f' => f'.1 = x.1 ∧ ValRel m x.2 f'.2) fs fs') :
    List.Forall₂ (ValRel m) (fs.map Prod.snd) (fs'.map Prod.snd) := by
  induction h with
  | nil => exact List.Forall₂.nil
  | cons hab _ ih => exact List.Forall₂.cons hab.2 ih

section iso
variable (c : Nat) (h0 : Heap) (pre : Memo)

def QV (f : Nat) : Prop := ∀ (P : List (Nat × Nat)) s v s' v', Good h0.size h0 pre s → Iso h0 pre P s → SrcVal c v → cpVal f s v = .ok (s', v') →
  Iso h0 pre P s' ∧ Stable h0 s s' ∧ ValRel s'.m v v'
def QF (f : Nat) : Prop := ∀ fs (P : List (Nat × Nat)) s s' fs', Good h0.size h0 pre s → Iso h0 pre P s → (∀ x ∈ fs, SrcVal c x.2) →
  cpFields f s fs = .ok (s', fs') →
  Iso h0 pre P s' ∧ Stable h0 s s' ∧ List.Forall₂ (fun x f' => f'.1 = x.1 ∧ ValRel s'.m x.2 f'.2) fs fs'
def QI (f : Nat) : Prop := ∀ items (P : List (Nat × Nat)) s i j s' items', Good h0.size h0 pre s → Iso h0 pre P s → h0.size ≤ j →
  (i, j) ∈ s.m → (∀ v ∈ items, SrcVal c v) → cpItems f s i j items = .ok (s', items') →
    Iso h0 pre P s' ∧ Stable h0 s s' ∧ List.Forall₂ (ValRel s'.m) items items'

variable {c h0 pre}

theorem qf_of_qv {f : Nat} (hq : QV c h0 pre f) : QF c h0 pre f := by
  intro fs
  induction fs with
  | nil =>
    intro P s s' fs' g hi _ h
    simp [cpFields] at h
    obtain ⟨e1, e2⟩ := h; subst e1; subst e2
    exact ⟨hi, stable_refl _ _, List.Forall₂.nil⟩
  | cons kv r ih =>
    intro P s s' fs' g hi hsrc h
    obtain ⟨k, v⟩ := kv
    simp only [cpFields] at h
    cases h1 : cpVal f s v with
    | error e => simp [h1] at h
    | ok r1 =>
      obtain ⟨s1, v1⟩ := r1
      simp only [h1] at h
      cases h2 : cpFields f s1 r with
      | error e => simp [h2] at h
      | ok r2 =>
        obtain ⟨s2, r'⟩ := r2
        simp only [h2] at h
        simp at h
        obtain ⟨e1, e2⟩ := h; subst e1; subst e2
        obtain ⟨i1, st1, rv⟩ := hq P s v s1 v1 g hi (hsrc (k, v) (by simp)) h1
        have g1 := ((pval_all h0.size h0 pre f) s v s1 v1 g h1).1
        obtain ⟨i2, st2, ra⟩ := ih P s1 s2 r' g1 i1 (fun x hx => hsrc x (List.mem_cons_of_mem _ hx)) h2
        exact ⟨i2, stable_trans st1 st2, List.Forall₂.cons ⟨rfl, valRel_mono st2.sub rv⟩ ra⟩

theorem qi_of_qv (wf : WellFormed c h0) (hnw : ∀ x ∈ targets pre, isBound h0 x = false) (hpre : ∀ p ∈ pre, p.2 < h0.size)
    {f : Nat} (hq : QV c h0 pre f) : QI c h0 pre f := by
  intro items
  induction items with
  | nil =>
    intro P s i j s' items' g hi _ _ _ h
    simp [cpItems] at h
    obtain ⟨e1, e2⟩ := h; subst e1; subst e2
    exact ⟨hi, stable_refl _ _, List.Forall₂.nil⟩
  | cons a1 r ih =>
    intro P s i j s' items' g hi hj hij hsrc h
    simp only [cpItems] at h
    cases h1 : cpVal f s a1 with
    | error e => simp [h1] at h
    | ok r1 =>
      obtain ⟨s1, a2⟩ := r1
      simp only [h1] at h
      cases h2 : cpItems f (retarget s1 i j a1 a2) i j r with
      | error e => simp [h2] at h
      | ok r2 =>
        obtain ⟨s2, r'⟩ := r2
        simp only [h2] at h
        simp at h
        obtain ⟨e1, e2⟩ := h; subst e1; subst e2
        obtain ⟨i1, st1, rv⟩ := hq P s a1 s1 a2 g hi (hsrc a1 (by simp)) h1
        obtain ⟨g1, f1⟩ := (pval_all h0.size h0 pre f) s a1 s1 a2 g h1
        have g1' := good_retarget g1 i j hj a1 a2 f1
        have hold1 := old_all g1 hnw
        have cx : RtCtx h0.size h0 pre s1 i j a1 a2 :=
          { good := g1, hpre := hpre, hnw := hnw,
            same := fun x e => boundValue_congr wf (fun y hy => hold1 y (Nat.lt_of_lt_of_le hy wf.le)) x (hsrc a1 (by simp) x e),
            hij := st1.sub _ hij,
            rel := fun x y e1 e2 => by subst e1; subst e2; exact rv }
        have i1' := iso_retarget i j a1 a2 cx i1
        have str := stable_retarget i j a1 a2 cx
        have hij' : (i, j) ∈ (retarget s1 i j a1 a2).m := str.sub _ (st1.sub _ hij)
        obtain ⟨i2, st2, r2⟩ := ih P (retarget s1 i j a1 a2) i j s2 r' g1' i1' hj hij' (fun x hx => hsrc x (List.mem_cons_of_mem _ hx)) h2
        exact ⟨i2, stable_trans st1 (stable_trans str st2), List.Forall₂.cons (valRel_mono st2.sub (valRel_mono str.sub rv)) r2⟩

theorem qv_zero : QV c h0 pre 0 := by
  intro P s v s' v' g hi _ h
  cases v with
  | atom a =>
    simp [cpVal] at h
    obtain ⟨e1, e2⟩ := h; subst e1; subst e2
    exact ⟨hi, stable_refl _ _, by simp [ValRel]⟩
  | ref i =>
    simp only [cpVal] at h
    cases hl : s.m.lookup i with
    | none => simp [hl] at h
    | some j =>
      simp [hl] at h
      obtain ⟨e1, e2⟩ := h; subst e1; subst e2
      exact ⟨hi, stable_refl _ _, lookup_mem hl⟩


theorem qv_succ (wf : WellFormed c h0) (hnw : ∀ x ∈ targets pre, isBound h0 x = false) (hpre : ∀ p ∈ pre, p.2 < h0.size)
    (hann : ∀ (i : Nat) (o : Obj) (a : Nat), i < c → h0[i]? = some o → annotationsRef o = some a →
      ∃ ao, h0[a]? = some ao ∧ ao.kind = .annset)
    {f : Nat} (hq : QV c h0 pre f) : QV c h0 pre (f + 1) := by
  have hF := qf_of_qv hq
  have hI := qi_of_qv wf hnw hpre hq
  intro P s v s' v' g hi hsv h
  cases v with
  | atom a =>
    simp [cpVal] at h
    obtain ⟨e1, e2⟩ := h; subst e1; subst e2
    exact ⟨hi, stable_refl _ _, by simp [ValRel]⟩
  | ref i =>
    cases hl : s.m.lookup i with
    | some j =>
      simp [cpVal, hl] at h
      obtain ⟨e1, e2⟩ := h; subst e1; subst e2
      exact ⟨hi, stable_refl _ _, lookup_mem hl⟩
    | none =>
      have hic : i < c := hsv i rfl
      have hib : i < h0.size := Nat.lt_of_lt_of_le hic wf.le
      have hold := old_all g hnw
      obtain ⟨o, ho0⟩ : ∃ o, h0[i]? = some o := ⟨h0[i], by simp [hib]⟩
      have ho : s.h[i]? = some o := by rw [hold i hib]; exact ho0
      have hb := g.base
      by_cases hk : o.kind = .annset
      · obtain ⟨tv, items, htv, hit0, _⟩ := wf.annset i o hic ho0 hk
        rw [cpVal_set_eq f s i o hl ho hk] at h
        unfold setBody at h
        have hit : itemFields s.h i = some items := by
          rw [itemFields_congr wf (fun x hx => hold x (Nat.lt_of_lt_of_le hx wf.le)) i hic]; exact hit0
        simp only [htv, hit] at h
        cases e1 : cpVal f s tv with
        | error e => simp [e1] at h
        | ok r1 =>
          obtain ⟨s1, tv'⟩ := r1
          simp only [e1] at h
          obtain ⟨i1, st1, rtv⟩ := hq P s tv s1 tv' g hi (wf.closed i o hic ho0 _ (get_mem htv)) e1
          obtain ⟨g1, _⟩ := (pval_all h0.size h0 pre f) s tv s1 tv' g e1
          have hb1 := g1.base
          have g2 := good_memo (good_push g1 (Obj.mk .annset o.cls []) (by simp)) i s1.h.size hb1 (by simp)
            (fun hp p hm => Nat.ne_of_lt (g1.lt hp p hm))
          have hA : (s1.h.push (Obj.mk .annset o.cls []))[s1.h.size]? = some (Obj.mk .annset o.cls []) := by simp
          have i2 := iso_alloc (iso_weaken i1 (P' := (i, s1.h.size) :: P) (fun p hp => List.mem_cons_of_mem _ hp))
            (Obj.mk .annset o.cls []) i (Or.inl ⟨by simp, o, _, ho0, hA, rfl, Or.inl hk⟩) (Or.inr ⟨o, ho0, hk⟩)
          have st2 := stable_alloc h0 s1 (Obj.mk .annset o.cls []) i
          cases e2 : cpFields f ⟨s1.h.push (Obj.mk .annset o.cls []), (i, s1.h.size) :: s1.m⟩ items with
          | error e => simp [e2] at h
          | ok r2 =>
            obtain ⟨s3, items'⟩ := r2
            simp only [e2] at h
            simp at h
            obtain ⟨e1', e2'⟩ := h; subst e1'; subst e2'
            obtain ⟨i3, st3, ritems⟩ := hF items ((i, s1.h.size) :: P) _ s3 items' g2 i2 (itemFields_src wf i hic items hit0) e2
            obtain ⟨g3, _⟩ := (pfields_of_pval (pval_all h0.size h0 pre f)) items _ s3 items' g2 e2
            have hmem : (i, s1.h.size) ∈ s3.m := st3.sub _ (by simp)
            have hjlt : s1.h.size < s3.h.size := g3.lt hpre _ hmem
            generalize hL : (Obj.mk .plain "list" (indexed "#" 0 (dedupVals (items'.map Prod.snd).reverse).reverse)) = L
            generalize hS : (Obj.mk .plain "set" (indexed "e" 0 (dedupVals (items'.map Prod.snd).reverse).reverse)) = S
            have hlt2 : s1.h.size < ((s3.h.push L).push S).size := by simp; omega
            obtain ⟨oj, hoj⟩ : ∃ oj, ((s3.h.push L).push S)[s1.h.size]? = some oj :=
              ⟨((s3.h.push L).push S)[s1.h.size], by simp [hlt2]⟩
            rw [setFields_eq hoj]
            have stA : Stable h0 s ⟨(s3.h.push L).push S, s3.m⟩ :=
              stable_trans st1 (stable_trans st2 (stable_trans st3
                (stable_trans (stable_push h0 s3 L) (stable_push h0 ⟨s3.h.push L, s3.m⟩ S))))
            refine ⟨?_, stable_update_new stA s1.h.size st1.size _ ⟨(i, s1.h.size), hmem, rfl⟩, hmem⟩
            apply iso_update (iso_push (iso_push i3 L) S) s1.h.size _ ⟨(i, s1.h.size), hmem, rfl⟩ pend_drop
            intro p hp e
            have hpi : i = p.1 := g3.inj hpre (i, s1.h.size) p hmem hp hb1 e.symm
            have hne13 : s1.h.size ≠ s3.h.size := by omega
            refine Or.inr (Or.inr ⟨o, _, by rw [← hpi]; exact ho0, by rw [e]; exact getElem?_set_self hoj _, Or.inl ⟨hk, ?_⟩⟩)
            refine ⟨s3.h.size, tv', items, items'.map Prod.snd, L, rfl, by rw [← hpi]; exact hit0, ?_,
              fun q hq => Nat.ne_of_lt (g3.lt hpre q hq), by rw [← hL], forall2_map_snd ritems,
              Or.inl ⟨tv, htv, valRel_mono (fun q hq => st3.sub q (st2.sub q hq)) rtv⟩⟩
            show (((s3.h.push L).push S).setIfInBounds s1.h.size _)[s3.h.size]? = some L
            rw [Array.getElem?_setIfInBounds_ne hne13]
            exact get_push2 s3.h L S
      · rw [cpVal_obj_eq f s i o hl ho hk] at h
        unfold objBody at h
        have g1 := good_memo (good_push g { o with fields := [] } (by simp)) i s.h.size hb (by simp)
          (fun hp p hm => Nat.ne_of_lt (g.lt hp p hm))
        have hA : (s.h.push { o with fields := [] })[s.h.size]? = some { o with fields := [] } := by simp
        have i1 := iso_alloc (iso_weaken hi (P' := (i, s.h.size) :: P) (fun p hp => List.mem_cons_of_mem _ hp))
          { o with fields := [] } i (Or.inl ⟨by simp, o, _, ho0, hA, rfl, Or.inr ⟨rfl, rfl⟩⟩) (Or.inl hl)
        have st1 := stable_alloc h0 s { o with fields := [] } i
        cases e1 : cpFields f ⟨s.h.push { o with fields := [] }, (i, s.h.size) :: s.m⟩ (planFields o) with
        | error e => simp [e1] at h
        | ok r1 =>
          obtain ⟨s2, fs'⟩ := r1
          simp only [e1] at h
          obtain ⟨i2, st2, rfs⟩ := hF (planFields o) ((i, s.h.size) :: P) _ s2 fs' g1 i1
            (fun x hx => wf.closed i o hic ho0 x (planFields_sub hx)) e1
          have ra : ∀ f' ∈ fs', ∃ x ∈ planFields o, x.1 = f'.1 ∧ ValRel s2.m x.2 f'.2 := by
            intro f' hf'
            obtain ⟨x, hx, e, r⟩ := forall2_right rfs f' hf'
            exact ⟨x, hx, e.symm, r⟩
          have rb : ∀ x ∈ planFields o, ∃ f' ∈ fs', f'.1 = x.1 ∧ ValRel s2.m x.2 f'.2 := forall2_left rfs
          obtain ⟨g2, ff⟩ := (pfields_of_pval (pval_all h0.size h0 pre f)) _ _ s2 fs' g1 e1
          have g3 := good_setFields g2 s.h.size hb fs' ff
          have hmem : (i, s.h.size) ∈ s2.m := st2.sub _ (by simp)
          -- the in-progress object is still blank, with the kind and class of its source
          obtain ⟨so, oj, hso, hoj, _, hkc⟩ := st2.blank (i, s.h.size) ⟨o, _, ho0, hA, rfl, Or.inr ⟨rfl, rfl⟩⟩
          simp only at hso hoj
          rw [ho0] at hso; cases hso
          have hkc' : oj.kind = o.kind ∧ oj.cls = o.cls := hkc.resolve_left hk
          have hdone : ObjRel s2.m o { oj with fields := fs' } :=
            ⟨hkc'.1, hkc'.2, fs', [], by simp, rfs.imp (fun _ _ r => ⟨r.1, Or.inl r.2⟩), Or.inl rfl⟩
          have hvc : ∀ hh : Heap, VC h0 ⟨hh, s2.m⟩ (i, s.h.size) o { oj with fields := fs' } := by
            intro hh tv ow nm e1 hu e2
            left
            have hin : ("_value", Val.ref tv) ∈ planFields o :=
              planFields_mem_of_ne (get_mem e1) (by simp)
            obtain ⟨f', hf', ek, _⟩ := rb _ hin
            have hf'' : ("_value", f'.2) ∈ fs' := by
              have : f' = ("_value", f'.2) := Prod.ext ek rfl
              rw [← this]; exact hf'
            obtain ⟨x, hx1, hx2⟩ := lookup_of_mem_key hf''
            obtain ⟨y, hy, eyk, ryx⟩ := ra _ hx2
            have hy' : ("_value", y.2) ∈ o.fields := by
              have h1 := planFields_sub hy
              have : y = ("_value", y.2) := Prod.ext eyk rfl
              rw [← this]; exact h1
            have ey : y.2 = .ref tv := hu _ hy'
            rw [ey] at ryx
            cases x with
            | atom z => simp [ValRel] at ryx
            | ref t => exact ⟨t, hx1, ryx⟩
          have hd3 : Done h0 ⟨setFields s2.h s.h.size fs', s2.m⟩ (i, s.h.size) := by
            rw [setFields_eq hoj]
            exact ⟨o, _, ho0, getElem?_set_self hoj _, Or.inr ⟨hdone, hvc _⟩⟩
          have i3 : Iso h0 pre P ⟨setFields s2.h s.h.size fs', s2.m⟩ := by
            have hd3' := hd3
            rw [setFields_eq hoj] at hd3' ⊢
            apply iso_update i2 s.h.size _ ⟨(i, s.h.size), hmem, rfl⟩ pend_drop
            intro p hp e
            have hpi : i = p.1 := g2.inj hpre (i, s.h.size) p hmem hp hb e.symm
            have : p = (i, s.h.size) := Prod.ext hpi.symm e
            rw [this]; exact Or.inr (Or.inr hd3')
          have st3 : Stable h0 s ⟨setFields s2.h s.h.size fs', s2.m⟩ := by
            rw [setFields_eq hoj]
            exact stable_update_new (stable_trans st1 st2) s.h.size (Nat.le_refl _) _ ⟨(i, s.h.size), hmem, rfl⟩
          cases ha : annotationsRef o with
          | none =>
            simp only [ha] at h
            simp at h
            obtain ⟨e1', e2'⟩ := h; subst e1'; subst e2'
            exact ⟨i3, st3, hmem⟩
          | some a =>
            simp only [ha] at h
            have hac : a < c := wf.closed i o hic ho0 _ (annotationsRef_mem ha) a rfl
            have hab : a < h0.size := Nat.lt_of_lt_of_le hac wf.le
            obtain ⟨items, hit0⟩ := wf.ann i o a hic ho0 ha
            obtain ⟨ao, hao0, haok⟩ := hann i o a hic ho0 ha
            have hold3 := old_all g3 hnw
            have hit : itemFields (setFields s2.h s.h.size fs') a = some items := by
              rw [itemFields_congr wf (fun x hx => hold3 x (Nat.lt_of_lt_of_le hx wf.le)) a hac]; exact hit0
            have hao : (setFields s2.h s.h.size fs')[a]? = some ao := by rw [hold3 a hab]; exact hao0
            simp only [hao, hit] at h
            cases e2 : cpItems f ⟨setFields s2.h s.h.size fs', s2.m⟩ i s.h.size (items.map Prod.snd) with
            | error e => simp [e2] at h
            | ok r2 =>
              obtain ⟨s4, items'⟩ := r2
              simp only [e2] at h
              simp at h
              obtain ⟨e1', e2'⟩ := h; subst e1'; subst e2'
              obtain ⟨i4, st4, ritems⟩ := hI (items.map Prod.snd) P _ i s.h.size s4 items' g3 i3 hb hmem
                (by
                  intro v hv
                  obtain ⟨fv, hfv, e⟩ := List.mem_map.mp hv
                  subst e; exact itemFields_src wf a hac items hit0 fv hfv) e2
              obtain ⟨g4, _⟩ := (pitems_of_pval (pval_all h0.size h0 pre f)) _ _ i s.h.size s4 items' g3 hb e2
              have hmem4 : (i, s.h.size) ∈ s4.m := st4.sub _ hmem
              have hd4 := st4.done _ hmem hd3
              have st04 := stable_trans st3 st4
              -- attach
              unfold attachAnnotations
              split
              · exact ⟨i4, st04, hmem4⟩
              · simp only [pushAnnSet]
                generalize hL : (Obj.mk .plain "list" (indexed "#" 0 (dedupVals items'.reverse).reverse)) = L
                generalize hS : (Obj.mk .plain "set" (indexed "e" 0 (dedupVals items'.reverse).reverse)) = S
                generalize hAS : (Obj.mk .annset ao.cls [("_item_list", Val.ref s4.h.size), ("_item_set", Val.ref (s4.h.size + 1)),
                  ("target", Val.ref s.h.size)]) = AS
                have hjlt : s.h.size < s4.h.size := g4.lt hpre _ hmem4
                -- the state after the three allocations, the annotation set registered
                have hmL : (i, s.h.size) ∈ (⟨s4.h.push L, s4.m⟩ : St).m := hmem4
                have hmS : (i, s.h.size) ∈ (⟨(s4.h.push L).push S, s4.m⟩ : St).m := hmem4
                have stY : Stable h0 s4 ⟨((s4.h.push L).push S).push AS, (a, s4.h.size + 2) :: s4.m⟩ := by
                  have h3 := stable_alloc h0 ⟨(s4.h.push L).push S, s4.m⟩ AS a
                  simp only [Array.size_push] at h3
                  exact stable_trans (stable_push h0 s4 L) (stable_trans (stable_push h0 ⟨s4.h.push L, s4.m⟩ S) h3)
                have hmY : (i, s.h.size) ∈ (a, s4.h.size + 2) :: s4.m := List.mem_cons_of_mem _ hmem4
                have hdY := stY.done _ hmem4 hd4
                obtain ⟨ojY, hojY, hdA⟩ := done_setAnn (s4.h.size + 2) hdY
                  (by intro o2 ho2; simp only at ho2; rw [ho0] at ho2; cases ho2; exact annotationsRef_aware ha)
                  ⟨(i, s.h.size), hmY, rfl⟩
                simp only at hojY hdA
                rw [setField_eq hojY]
                have hASget : (((s4.h.push L).push S).push AS)[s4.h.size + 2]? = some AS := by
                  simp [Array.getElem?_push]
                  simp [Array.getElem_push]
                have iY : Iso h0 pre P ⟨((s4.h.push L).push S).push AS, (a, s4.h.size + 2) :: s4.m⟩ := by
                  have hLget : (((s4.h.push L).push S).push AS)[s4.h.size]? = some L := get_push3 s4.h L S AS
                  have hsr : SetRel h0 ⟨((s4.h.push L).push S).push AS, (a, s4.h.size + 2) :: s4.m⟩ (a, s4.h.size + 2) ao AS := by
                    refine ⟨s4.h.size, .ref s.h.size, items, items', L, by rw [← hAS], hit0, hLget, ?_, by rw [← hL],
                      ritems.imp (fun _ _ r => valRel_mono (fun q hq => List.mem_cons_of_mem _ hq) r),
                      Or.inr ⟨i, s.h.size, o, rfl, hmY, ho0, ha⟩⟩
                    intro q hq
                    rcases List.mem_cons.mp hq with e' | e'
                    · rw [e']; simp
                    · exact Nat.ne_of_lt (g4.lt hpre q e')
                  have h3 := iso_alloc (iso_push (iso_push i4 L) S) AS a
                    (Or.inr ⟨ao, AS, hao0, by simpa using hASget, Or.inl ⟨haok, by simpa only [Array.size_push] using hsr⟩⟩)
                    (Or.inr ⟨ao, hao0, haok⟩)
                  simpa only [Array.size_push] using h3
                refine ⟨?_, stable_update_new (stable_trans st04 stY) s.h.size (Nat.le_refl _) _ ⟨(i, s.h.size), hmY, rfl⟩, hmY⟩
                apply iso_update iY s.h.size _ ⟨(i, s.h.size), hmY, rfl⟩ (fun p hp _ => hp)
                intro p hp e
                rcases List.mem_cons.mp hp with e' | e'
                · exfalso; rw [e'] at e; simp at e; omega
                · have hpi : i = p.1 := g4.inj hpre (i, s.h.size) p hmem4 e' hb e.symm
                  have : p = (i, s.h.size) := Prod.ext hpi.symm e
                  rw [this]; exact Or.inr (Or.inr hdA)

theorem qv_all (wf : WellFormed c h0) (hnw : ∀ x ∈ targets pre, isBound h0 x = false) (hpre : ∀ p ∈ pre, p.2 < h0.size)
    (hann : ∀ (i : Nat) (o : Obj) (a : Nat), i < c → h0[i]? = some o → annotationsRef o = some a →
      ∃ ao, h0[a]? = some ao ∧ ao.kind = .annset) : ∀ f, QV c h0 pre f
  | 0 => qv_zero
  | f + 1 => qv_succ wf hnw hpre hann (qv_all wf hnw hpre hann f)
end iso
end Aux
open Aux

/-- **copy_iso** (the equality half of the property, object level, FULL): on a well-formed source region, after a successful copy
(`copy_total` shows it succeeds) the returned value is the memo-image of the value copied, and EVERY memo entry `(i, j)` that was not
pre-seeded pairs a source object with a completed copy — none is left half-built:
* an object that is not an annotation set (nodes, edges, trees, lists, dicts, tuples, taxa, sequences, Annotation objects and their
  values alike, through cycles) with a copy of the same kind and class whose attributes are, IN `__dict__` ORDER, the source's
  planned attributes (`planFields`) with the same names and the memo-images as values, followed only by the rebuilt `_annotations`
  link of an annotation-aware class (`ObjRel`; the one exemption, `_value` of an attribute-bound annotation, is settled by
  `bound_annotation_follows`);
* an annotation set with a fresh `AnnotationSet` of exactly three attributes whose item list holds IN ORDER the memo-images of the
  source's items (first occurrences) and whose target is the memo-image of the source's target or the copy of the owner (`SetRel`);
and the memo is FUNCTIONAL (`FunM`): one copy per source object, except for annotation-set keys (which
`deep_copy_annotations_from` re-registers) and for pairs both pre-seeded by the route.
What was `copy_iso_partial`: items (1) annotation-set membership/order, (2) attribute order and (3) functionality of the memo are now
proved.  Still outside: the content of the `_item_set` twin of the item list (same values; hash order is not modelled), and
pre-seeded pairs (`p ∈ pre`): that a taxon is seeded to the taxon of the same label of the other namespace is decided by the harness
(its own label match), not by a theorem.  Route-level form: `route_iso`. -/
theorem copy_iso (c : Nat) (h : Heap) (pre : Memo) (v : Val) (fuel : Nat) (s' : St) (v' : Val)
    (wf : WellFormed c h) (hnw : ∀ x ∈ targets pre, isBound h x = false) (hpre : ∀ p ∈ pre, p.2 < h.size)
    (hann : ∀ (i : Nat) (o : Obj) (a : Nat), i < c → h[i]? = some o → annotationsRef o = some a →
      ∃ ao, h[a]? = some ao ∧ ao.kind = .annset)
    (hv : SrcVal c v) (hr : cpVal fuel ⟨h, pre⟩ v = .ok (s', v')) :
    ValRel s'.m v v' ∧
    (∀ p ∈ s'.m, p ∈ pre ∨
      ∃ o o', h[p.1]? = some o ∧ s'.h[p.2]? = some o' ∧ ((o.kind = .annset ∧ SetRel h s' p o o') ∨ ObjRel s'.m o o')) ∧
    FunM h pre s'.m ∧ (∀ p ∈ pre, p ∈ s'.m) := by
  have hi0 : Iso h pre [] ⟨h, pre⟩ := ⟨fun p hp => Or.inl hp, fun p hp q hq _ => Or.inr (Or.inr ⟨hp, hq⟩)⟩
  obtain ⟨hi, hst, hrel⟩ := qv_all wf hnw hpre hann fuel [] ⟨h, pre⟩ v s' v' (good_init h pre) hi0 hv hr
  refine ⟨hrel, ?_, hi.fn, hst.sub⟩
  intro p hp
  rcases hi.ent p hp with a | ⟨b, _⟩ | ⟨o, o', d1, d2, d3⟩
  · exact Or.inl a
  · cases b
  · exact Or.inr ⟨o, o', d1, d2, d3.imp id (fun x => x.1)⟩

/-- **copy_memo_functional**: with a functional pre-seeding, two memo entries for the same source object that is not an annotation set
name the same copy: the memo-image used in `copy_iso` is a function. -/
theorem copy_memo_functional (c : Nat) (h : Heap) (pre : Memo) (v : Val) (fuel : Nat) (s' : St) (v' : Val)
    (wf : WellFormed c h) (hnw : ∀ x ∈ targets pre, isBound h x = false) (hpre : ∀ p ∈ pre, p.2 < h.size)
    (hann : ∀ (i : Nat) (o : Obj) (a : Nat), i < c → h[i]? = some o → annotationsRef o = some a →
      ∃ ao, h[a]? = some ao ∧ ao.kind = .annset)
    (hv : SrcVal c v) (hr : cpVal fuel ⟨h, pre⟩ v = .ok (s', v'))
    (hpf : ∀ p ∈ pre, ∀ q ∈ pre, p.1 = q.1 → p.2 = q.2) :
    ∀ i j j', (i, j) ∈ s'.m → (i, j') ∈ s'.m → (∀ o, h[i]? = some o → o.kind ≠ .annset) → j = j' := by
  obtain ⟨_, _, hf, _⟩ := copy_iso c h pre v fuel s' v' wf hnw hpre hann hv hr
  intro i j j' h1 h2 hk
  rcases hf _ h1 _ h2 rfl with e | ⟨o, ho, hka⟩ | ⟨p1, p2⟩
  · exact e
  · exact absurd hka (hk o ho)
  · exact hpf _ p1 _ p2 rfl

/-- **copy_shares_preseeded** (the POSITIVE direction of "shares exactly the namespace and its taxa"): in the completed copy `o'` of a
source object `o` that was not itself pre-seeded, position by position, an attribute whose source value refers to a pre-seeded
object `t ↦ t'` (not an annotation set) holds `t'` ITSELF — for the namespace-scoped routes (`t' = t`) the copy's `_taxon_namespace`,
`taxon`, `_taxa` items … are the very objects of the source; for the copy into another namespace they are the label-matched objects
of that namespace.  (The only attribute exempt is the re-targeted `_value` of an attribute-bound annotation.)  Together with
`copy_shares_only_preseeded` (nothing else of the old heap is reachable from the copy) this is "exactly". -/
theorem copy_shares_preseeded (c : Nat) (h : Heap) (pre : Memo) (v : Val) (fuel : Nat) (s' : St) (v' : Val)
    (wf : WellFormed c h) (hnw : ∀ x ∈ targets pre, isBound h x = false) (hpre : ∀ p ∈ pre, p.2 < h.size)
    (hann : ∀ (i : Nat) (o : Obj) (a : Nat), i < c → h[i]? = some o → annotationsRef o = some a →
      ∃ ao, h[a]? = some ao ∧ ao.kind = .annset)
    (hv : SrcVal c v) (hr : cpVal fuel ⟨h, pre⟩ v = .ok (s', v'))
    (hpf : ∀ p ∈ pre, ∀ q ∈ pre, p.1 = q.1 → p.2 = q.2)
    (i j : Nat) (hm : (i, j) ∈ s'.m) (hnp : (i, j) ∉ pre) (o : Obj) (ho : h[i]? = some o) (hk : o.kind ≠ .annset) :
    ∃ o' core tail, s'.h[j]? = some o' ∧ o'.fields = core ++ tail ∧
      List.Forall₂ (fun f f' => f'.1 = f.1 ∧ ∀ t t', f.2 = .ref t → (t, t') ∈ pre → (∀ ot, h[t]? = some ot → ot.kind ≠ .annset) →
        (f.1 ≠ "_value" ∨ isB o' = false) → f'.2 = .ref t') (planFields o) core := by
  obtain ⟨_, hall, hf, hsub⟩ := copy_iso c h pre v fuel s' v' wf hnw hpre hann hv hr
  rcases hall (i, j) hm with a | ⟨o1, o', d1, d2, d3⟩
  · exact absurd a hnp
  · simp only at d1 d2
    rw [ho] at d1; cases d1
    rcases d3 with ⟨a, _⟩ | ⟨_, _, core, tail, e, hfr, _⟩
    · exact absurd a hk
    · refine ⟨o', core, tail, d2, e, hfr.imp ?_⟩
      intro f f' r
      refine ⟨r.1, ?_⟩
      intro t t' ef hp hna hval
      rcases r.2 with rv | ⟨e1, e2⟩
      · rw [ef] at rv
        cases hf' : f'.2 with
        | atom z => rw [hf'] at rv; simp [ValRel] at rv
        | ref j2 =>
          rw [hf'] at rv
          have hmem : (t, j2) ∈ s'.m := rv
          rcases hf _ hmem _ (hsub _ hp) rfl with e' | ⟨ot, hot, hka⟩ | ⟨p1, p2⟩
          · simp only at e'; rw [e']
          · exact absurd hka (hna ot hot)
          · have := hpf _ p1 _ p2 rfl
            simp only at this; rw [this]
      · rcases hval with h1 | h1
        · exact absurd e1 h1
        · rw [h1] at e2; cases e2

namespace Aux
/-- the copy of a two-element tuple object holds the memo-images of its two elements -/
theorem tuple_image {m : Memo} {ot ot' : Obj} {v0 v1 : Val} (r : ObjRel m ot ot') (hf : ot.fields = [("#0", v0), ("#1", v1)]) :
    ∃ x0 x1, ot'.get "#0" = some x0 ∧ ot'.get "#1" = some x1 ∧ ValRel m v0 x0 ∧ ValRel m v1 x1 := by
  obtain ⟨d1, d2⟩ := objRel_sets r
  have key : ∀ (k : String) (v : Val), (k, v) ∈ ot.fields → k ≠ "_annotations" → k ≠ "_value" →
      (∀ w, (k, w) ∈ ot.fields → w = v) → ∃ x, ot'.get k = some x ∧ ValRel m v x := by
    intro k v hkv hna hnv hun
    obtain ⟨f', hf', ek, rv⟩ := d2 (k, v) (planFields_mem_of_ne hkv hna)
    have hf'' : (k, f'.2) ∈ ot'.fields := by
      have : f' = (k, f'.2) := Prod.ext ek rfl
      rw [← this]; exact hf'
    obtain ⟨x, hx1, hx2⟩ := lookup_of_mem_key hf''
    refine ⟨x, hx1, ?_⟩
    rcases d1 (k, x) hx2 with ⟨a, _⟩ | ⟨a, _⟩ | ⟨y, hy, ey, ry⟩
    · exact absurd a hna
    · exact absurd a hnv
    · have hy' : (k, y.2) ∈ ot.fields := by
        have h1 := planFields_sub hy
        have : y = (k, y.2) := Prod.ext ey rfl
        rw [← this]; exact h1
      rw [hun _ hy'] at ry; exact ry
  obtain ⟨x0, g0, r0⟩ := key "#0" v0 (by rw [hf]; simp) (by decide) (by decide) (by
    intro w hw; rw [hf] at hw; simp at hw; exact hw)
  obtain ⟨x1, g1, r1⟩ := key "#1" v1 (by rw [hf]; simp) (by decide) (by decide) (by
    intro w hw; rw [hf] at hw; simp at hw; exact hw)
  exact ⟨x0, x1, g0, g1, r0, r1⟩
end Aux

/-- **bound_annotation_follows**: in the FINAL state of a successful copy, the copy `a2` of an attribute-bound annotation `a1`
(whose `_value` is the tuple `(owner, attribute name)`) is bound to a memo-image `j` of the source's owner and to the same attribute
name — `boundValue s'.h a2 = (ref j, nm)` with `(ow, j) ∈ memo` — whatever happened in between: the generic copy of the `_value` tuple
already yields it (the owner is memoised before the copy descends) and every later re-targeting re-establishes it; nothing else
writes `_value`.  This lifts the `_value` exemption of `ObjRel` (`copy_iso_partial`) at `boundValue` level.
Hypotheses beyond `copy_iso_partial`'s, all facts about the exported heap that the harness checks per case: the annotation is not an
annotation set and has one `_value` attribute; its `_value` object is a two-element tuple object `(ref ow, atom nm)`, not pre-seeded. -/
theorem bound_annotation_follows (c : Nat) (h : Heap) (pre : Memo) (v : Val) (fuel : Nat) (s' : St) (v' : Val)
    (wf : WellFormed c h) (hnw : ∀ x ∈ targets pre, isBound h x = false) (hpre : ∀ p ∈ pre, p.2 < h.size)
    (hann : ∀ (i : Nat) (o : Obj) (a : Nat), i < c → h[i]? = some o → annotationsRef o = some a →
      ∃ ao, h[a]? = some ao ∧ ao.kind = .annset)
    (hv : SrcVal c v) (hr : cpVal fuel ⟨h, pre⟩ v = .ok (s', v'))
    (a1 a2 : Nat) (hm : (a1, a2) ∈ s'.m) (hnp : (a1, a2) ∉ pre)
    (o : Obj) (tv ow : Nat) (nm : String) (ho : h[a1]? = some o) (hk : o.kind ≠ .annset)
    (hval : o.get "_value" = some (.ref tv)) (huniq : ∀ w, ("_value", w) ∈ o.fields → w = .ref tv)
    (hbv : boundValue h a1 = some (.ref ow, .atom nm))
    (ot : Obj) (hot : h[tv]? = some ot) (hotk : ot.kind ≠ .annset) (hotf : ot.fields = [("#0", .ref ow), ("#1", .atom nm)])
    (htvpre : ∀ q ∈ pre, q.1 ≠ tv) :
    ∃ j, boundValue s'.h a2 = some (.ref j, .atom nm) ∧ (ow, j) ∈ s'.m := by
  have hi0 : Iso h pre [] ⟨h, pre⟩ := ⟨fun p hp => Or.inl hp, fun p hp q hq _ => Or.inr (Or.inr ⟨hp, hq⟩)⟩
  obtain ⟨hi, _, _⟩ := qv_all wf hnw hpre hann fuel [] ⟨h, pre⟩ v s' v' (good_init h pre) hi0 hv hr
  rcases hi.ent (a1, a2) hm with a | ⟨b, _⟩ | ⟨o1, o', d1, d2, d3⟩
  · exact absurd a hnp
  · cases b
  · simp only at d1 d2
    rw [ho] at d1; cases d1
    rcases d3 with a | ⟨_, vc⟩
    · exact absurd a.1 hk
    · rcases vc tv ow nm hval huniq hbv with ⟨t, ht, hmt⟩ | ⟨t, j, ot2, a, b, c', d, _, f⟩
      · rcases hi.ent (tv, t) hmt with a | ⟨b, _⟩ | ⟨ot1, ot', e1, e2, e3⟩
        · exact absurd rfl (htvpre _ a)
        · cases b
        · simp only at e1 e2
          rw [hot] at e1; cases e1
          rcases e3 with a | ⟨rt, _⟩
          · exact absurd a.1 hotk
          · obtain ⟨x0, x1, g0, g1, r0, r1⟩ := tuple_image rt hotf
            cases x0 with
            | atom z => simp [ValRel] at r0
            | ref j =>
              cases x1 with
              | ref z => simp [ValRel] at r1
              | atom z =>
                have : nm = z := by simpa [ValRel] using r1
                subst this
                refine ⟨j, ?_, r0⟩
                simp only [Obj.get] at ht g0 g1
                simp [boundValue, d2, Obj.get, ht, e2, g0, g1]
      · refine ⟨j, ?_, f⟩
        simp only [Obj.get] at a c' d
        simp [boundValue, d2, Obj.get, a, b, c', d]

/-- **copy_root_corresponds**: in particular the copy of a source object that was not pre-seeded is an object of the same class
whose attributes are the memo-images of the source's. -/
theorem copy_root_corresponds (c : Nat) (h : Heap) (pre : Memo) (r : Nat) (fuel : Nat) (s' : St) (v' : Val)
    (wf : WellFormed c h) (hnw : ∀ x ∈ targets pre, isBound h x = false) (hpre : ∀ p ∈ pre, p.2 < h.size)
    (hann : ∀ (i : Nat) (o : Obj) (a : Nat), i < c → h[i]? = some o → annotationsRef o = some a →
      ∃ ao, h[a]? = some ao ∧ ao.kind = .annset)
    (hrc : r < c) (hr : cpVal fuel ⟨h, pre⟩ (.ref r) = .ok (s', v')) :
    ∃ j, v' = .ref j ∧ (r, j) ∈ s'.m ∧
      ((r, j) ∈ pre ∨ ∃ o o', h[r]? = some o ∧ s'.h[j]? = some o' ∧
        ((o.kind = .annset ∧ SetRel h s' (r, j) o o') ∨ ObjRel s'.m o o')) := by
  obtain ⟨hrel, hall, _⟩ := copy_iso c h pre (.ref r) fuel s' v' wf hnw hpre hann (by intro i e; cases e; exact hrc) hr
  cases v' with
  | atom a => simp [ValRel] at hrel
  | ref j => exact ⟨j, rfl, hrel, hall (r, j) hrel⟩

/-- **route_iso**: `copy_iso` for the function the driver runs: after `copyRoute` on a well-formed exported heap, the
result is the memo-image of the root and every memo entry is either one the pre-seeding produced (`s0.m`) or pairs an object of the
pre-seeded heap `s0.h` (which agrees with the exported heap on every exported index) with a corresponding copy (ordered attributes,
ordered annotation-set items); the memo is functional up to the pairs the pre-seeding made. -/
theorem route_iso (h : Heap) (pre : List (Nat × PreTarget)) (root : Val) (s' : St) (v' : Val)
    (wf : WellFormed h.size h) (hT : ∀ i t, (i, PreTarget.existing t) ∈ pre → isBound h t = false)
    (hann : ∀ (i : Nat) (o : Obj) (a : Nat), i < h.size → h[i]? = some o → annotationsRef o = some a →
      ∃ ao, h[a]? = some ao ∧ ao.kind = .annset)
    (hroot : SrcVal h.size root) (hr : copyRoute h pre root = .ok (s', v')) :
    ∃ s0, preseed ⟨h, []⟩ pre = .ok s0 ∧ (∀ x, x < h.size → s0.h[x]? = h[x]?) ∧ ValRel s'.m root v' ∧
      (∀ p ∈ s'.m, p ∈ s0.m ∨
        ∃ o o', s0.h[p.1]? = some o ∧ s'.h[p.2]? = some o' ∧ ((o.kind = .annset ∧ SetRel s0.h s' p o o') ∨ ObjRel s'.m o o')) ∧
      FunM s0.h s0.m s'.m ∧ (∀ p ∈ s0.m, p ∈ s'.m) := by
  obtain ⟨s0, hp, hc, hsz, hold, hlt, htgt, hnb⟩ := route_spec h pre root s' v' hr
  have wf0 : WellFormed h.size s0.h := wf_congr wf hold hsz
  have hunb : ∀ t ∈ targets s0.m, isBound s0.h t = false := by
    intro t ht
    by_cases hl : t < h.size
    · rcases htgt t ht with ⟨i, hi⟩ | hge
      · rw [isBound_congr (hold t hl)]; exact hT i t hi
      · omega
    · exact hnb t (by omega)
  have hann0 : ∀ (i : Nat) (o : Obj) (a : Nat), i < h.size → s0.h[i]? = some o → annotationsRef o = some a →
      ∃ ao, s0.h[a]? = some ao ∧ ao.kind = .annset := by
    intro i o a hi hg ha
    rw [hold i hi] at hg
    obtain ⟨ao, h1, h2⟩ := hann i o a hi hg ha
    have hac : a < h.size := wf.closed i o hi hg _ (annotationsRef_mem ha) a rfl
    exact ⟨ao, by rw [hold a hac]; exact h1, h2⟩
  obtain ⟨s0h, s0m⟩ := s0
  obtain ⟨r1, r2, r3, r4⟩ := copy_iso h.size s0h s0m root (2 * h.size + 1) s' v' wf0 hunb hlt hann0 hroot hc
  exact ⟨⟨s0h, s0m⟩, hp, hold, r1, r2, r3, r4⟩

/-! ### the memo the route's own pre-seeding produces, and positive sharing for `copyRoute` -/
namespace Aux

/-- one step of `preseed`: whatever the target kind, the rest is pre-seeded from a state whose memo got exactly one new entry for `i`
(with the listed target when it is `.existing`) -/
theorem preseed_step {s s0 : St} {i : Nat} {t : PreTarget} {r : List (Nat × PreTarget)}
    (hr : preseed s ((i, t) :: r) = .ok s0) :
    ∃ h' j, preseed ⟨h', (i, j) :: s.m⟩ r = .ok s0 ∧ (∀ t', t = .existing t' → j = t') := by
  cases t with
  | existing j =>
    simp only [preseed] at hr
    by_cases hj : j < s.h.size
    · simp only [hj, if_true] at hr
      exact ⟨s.h, j, hr, fun t' e => by cases e; rfl⟩
    · simp [hj] at hr
  | sameAs k =>
    simp only [preseed] at hr
    cases hl : s.m.lookup k with
    | none => simp [hl] at hr
    | some j =>
      simp only [hl] at hr
      exact ⟨s.h, j, hr, fun t' e => by cases e⟩
  | fresh =>
    simp only [preseed] at hr
    cases ho : s.h[i]? with
    | none => simp [ho] at hr
    | some o =>
      simp only [ho] at hr
      cases hlab : o.get "_label" with
      | none => simp [hlab] at hr
      | some lab =>
        simp only [hlab, newTaxon] at hr
        exact ⟨_, _, hr, fun t' e => by cases e⟩

/-- the memo after `preseed`: old entries stay, every `.existing` entry of the list is there with its listed target, and every new
entry has a key of the list -/
theorem preseed_memo : ∀ (r : List (Nat × PreTarget)) (s s0 : St), preseed s r = .ok s0 →
    (∀ p ∈ s.m, p ∈ s0.m) ∧ (∀ i t, (i, PreTarget.existing t) ∈ r → (i, t) ∈ s0.m) ∧
    (∀ p ∈ s0.m, p ∈ s.m ∨ p.1 ∈ r.map Prod.fst) := by
  intro r
  induction r with
  | nil =>
    intro s s0 hr
    simp [preseed] at hr; subst hr
    exact ⟨fun _ h => h, fun _ _ h => (by cases h), fun _ h => Or.inl h⟩
  | cons e r ih =>
    intro s s0 hr
    obtain ⟨i, t⟩ := e
    obtain ⟨h', j, hr', hj⟩ := preseed_step hr
    obtain ⟨a, b, c⟩ := ih _ s0 hr'
    refine ⟨fun p hp => a p (List.mem_cons_of_mem _ hp), ?_, ?_⟩
    · intro i' t' hm
      rcases List.mem_cons.mp hm with e | e
      · cases e
        have := hj t' rfl
        subst this
        exact a _ (by simp)
      · exact b i' t' e
    · intro p hp
      rcases c p hp with h1 | h1
      · rcases List.mem_cons.mp h1 with e | e
        · subst e; exact Or.inr (by simp)
        · exact Or.inl e
      · exact Or.inr (by simp only [List.map_cons, List.mem_cons]; exact Or.inr h1)

/-- with pairwise distinct source keys the pre-seeded memo is a function -/
theorem preseed_functional : ∀ (r : List (Nat × PreTarget)) (s s0 : St), preseed s r = .ok s0 →
    (r.map Prod.fst).Nodup → (∀ p ∈ s.m, p.1 ∉ r.map Prod.fst) →
    (∀ p ∈ s.m, ∀ q ∈ s.m, p.1 = q.1 → p.2 = q.2) → ∀ p ∈ s0.m, ∀ q ∈ s0.m, p.1 = q.1 → p.2 = q.2 := by
  intro r
  induction r with
  | nil =>
    intro s s0 hr _ _ hf
    simp [preseed] at hr; subst hr; exact hf
  | cons e r ih =>
    intro s s0 hr hnd hdis hf
    obtain ⟨i, t⟩ := e
    obtain ⟨h', j, hr', _⟩ := preseed_step hr
    simp only [List.map_cons, List.nodup_cons] at hnd
    apply ih _ s0 hr' hnd.2
    · intro p hp
      rcases List.mem_cons.mp hp with e | e
      · subst e; exact hnd.1
      · intro hin; exact hdis p e (by simp only [List.map_cons, List.mem_cons]; exact Or.inr hin)
    · intro p hp q hq e
      have hni : ∀ x ∈ s.m, x.1 ≠ i := by
        intro x hx e'; exact hdis x hx (by simp [e'])
      rcases List.mem_cons.mp hp with ep | ep <;> rcases List.mem_cons.mp hq with eq | eq
      · subst ep; subst eq; rfl
      · subst ep; exact absurd e.symm (hni q eq)
      · subst eq; exact absurd e (hni p ep)
      · exact hf p ep q eq e
end Aux

/-- **route_memo_functional**: when the route lists every source object at most once (as the harness does: the namespace and each of
its taxa once), the memo `preseed` hands to `cpVal` is a function, contains every `.existing` entry with its listed target, and seeds
nothing but listed keys. -/
theorem route_memo_functional (h : Heap) (pre : List (Nat × PreTarget)) (s0 : St) (hp : preseed ⟨h, []⟩ pre = .ok s0)
    (hnd : (pre.map Prod.fst).Nodup) :
    (∀ p ∈ s0.m, ∀ q ∈ s0.m, p.1 = q.1 → p.2 = q.2) ∧ (∀ i t, (i, PreTarget.existing t) ∈ pre → (i, t) ∈ s0.m) ∧
    (∀ p ∈ s0.m, p.1 ∈ pre.map Prod.fst) := by
  obtain ⟨_, b, c⟩ := preseed_memo pre ⟨h, []⟩ s0 hp
  refine ⟨preseed_functional pre ⟨h, []⟩ s0 hp hnd (by intro p hp; cases hp) (by intro p hp; cases hp), b, ?_⟩
  intro p hp
  rcases c p hp with h1 | h1
  · cases h1
  · exact h1

/-- **route_shares_existing** (`copy_shares_preseeded` for the function the driver runs — the POSITIVE direction of "shares exactly
the namespace and its taxa" at route level): after `copyRoute` on a well-formed exported heap whose route lists every source object
at most once, the completed copy `o'` of an exported object `i` that the route did not list carries, position by position, for every
attribute whose source value is a listed object `t` with `.existing` target `t'` (not an annotation set), the reference `t'` ITSELF:
with the namespace-scoped seeding (`t' = t`) the copy's `_taxon_namespace`, `taxon`, … are the very objects of the source; with the
other-namespace seeding they are the listed objects of that namespace. -/
theorem route_shares_existing (h : Heap) (pre : List (Nat × PreTarget)) (root : Val) (s' : St) (v' : Val)
    (wf : WellFormed h.size h) (hT : ∀ i t, (i, PreTarget.existing t) ∈ pre → isBound h t = false)
    (hann : ∀ (i : Nat) (o : Obj) (a : Nat), i < h.size → h[i]? = some o → annotationsRef o = some a →
      ∃ ao, h[a]? = some ao ∧ ao.kind = .annset)
    (hroot : SrcVal h.size root) (hr : copyRoute h pre root = .ok (s', v'))
    (hnd : (pre.map Prod.fst).Nodup)
    (i j : Nat) (hm : (i, j) ∈ s'.m) (hnl : i ∉ pre.map Prod.fst) (hi : i < h.size)
    (o : Obj) (ho : h[i]? = some o) (hk : o.kind ≠ .annset) :
    ∃ o' core tail, s'.h[j]? = some o' ∧ o'.fields = core ++ tail ∧
      List.Forall₂ (fun f f' => f'.1 = f.1 ∧ ∀ t t', f.2 = .ref t → (t, PreTarget.existing t') ∈ pre → t < h.size →
        (∀ ot, h[t]? = some ot → ot.kind ≠ .annset) → (f.1 ≠ "_value" ∨ isB o' = false) → f'.2 = .ref t') (planFields o) core := by
  obtain ⟨s0, hp, hc, hsz, hold, hlt, htgt, hnb⟩ := route_spec h pre root s' v' hr
  obtain ⟨hfun, hex, hkeys⟩ := route_memo_functional h pre s0 hp hnd
  have wf0 : WellFormed h.size s0.h := wf_congr wf hold hsz
  have hunb : ∀ t ∈ targets s0.m, isBound s0.h t = false := by
    intro t ht
    by_cases hl : t < h.size
    · rcases htgt t ht with ⟨i, hi⟩ | hge
      · rw [isBound_congr (hold t hl)]; exact hT i t hi
      · omega
    · exact hnb t (by omega)
  have hann0 : ∀ (i : Nat) (o : Obj) (a : Nat), i < h.size → s0.h[i]? = some o → annotationsRef o = some a →
      ∃ ao, s0.h[a]? = some ao ∧ ao.kind = .annset := by
    intro i o a hi hg ha
    rw [hold i hi] at hg
    obtain ⟨ao, h1, h2⟩ := hann i o a hi hg ha
    have hac : a < h.size := wf.closed i o hi hg _ (annotationsRef_mem ha) a rfl
    exact ⟨ao, by rw [hold a hac]; exact h1, h2⟩
  obtain ⟨s0h, s0m⟩ := s0
  obtain ⟨o', core, tail, h1, h2, h3⟩ := copy_shares_preseeded h.size s0h s0m root (2 * h.size + 1) s' v' wf0 hunb hlt hann0 hroot hc
    hfun i j hm (fun hin => hnl (hkeys _ hin)) o (by rw [hold i hi]; exact ho) hk
  refine ⟨o', core, tail, h1, h2, h3.imp ?_⟩
  intro f f' r
  refine ⟨r.1, ?_⟩
  intro t t' ef hpe htl hna hval
  exact r.2 t t' ef (hex t t' hpe) (by intro ot hot; rw [hold t htl] at hot; exact hna ot hot) hval

/-- **bound_annotation_follows_owner** (forward- and backward-bound owners alike): in the FINAL state the copy `a2` of an
attribute-bound annotation `a1` is bound to THE copy `jo` of the source's owner `ow` — any owner: the holder itself, an object the
traversal had visited before the annotation, or one it reaches only later (then the `_value` tuple's own deep copy creates and
memoises the owner's copy on the spot, and the later visit finds it in the memo).  `bound_annotation_follows` gives a memo-image of
the owner; the functional memo (`copy_memo_functional`) makes it the one every other reference to the owner's copy uses. -/
theorem bound_annotation_follows_owner (c : Nat) (h : Heap) (pre : Memo) (v : Val) (fuel : Nat) (s' : St) (v' : Val)
    (wf : WellFormed c h) (hnw : ∀ x ∈ targets pre, isBound h x = false) (hpre : ∀ p ∈ pre, p.2 < h.size)
    (hann : ∀ (i : Nat) (o : Obj) (a : Nat), i < c → h[i]? = some o → annotationsRef o = some a →
      ∃ ao, h[a]? = some ao ∧ ao.kind = .annset)
    (hv : SrcVal c v) (hr : cpVal fuel ⟨h, pre⟩ v = .ok (s', v'))
    (hpf : ∀ p ∈ pre, ∀ q ∈ pre, p.1 = q.1 → p.2 = q.2)
    (a1 a2 : Nat) (hm : (a1, a2) ∈ s'.m) (hnp : (a1, a2) ∉ pre)
    (o : Obj) (tv ow : Nat) (nm : String) (ho : h[a1]? = some o) (hk : o.kind ≠ .annset)
    (hval : o.get "_value" = some (.ref tv)) (huniq : ∀ w, ("_value", w) ∈ o.fields → w = .ref tv)
    (hbv : boundValue h a1 = some (.ref ow, .atom nm))
    (ot : Obj) (hot : h[tv]? = some ot) (hotk : ot.kind ≠ .annset) (hotf : ot.fields = [("#0", .ref ow), ("#1", .atom nm)])
    (htvpre : ∀ q ∈ pre, q.1 ≠ tv)
    (jo : Nat) (hjo : (ow, jo) ∈ s'.m) (hown : ∀ oo, h[ow]? = some oo → oo.kind ≠ .annset) :
    boundValue s'.h a2 = some (.ref jo, .atom nm) := by
  obtain ⟨j, hb, hj⟩ := bound_annotation_follows c h pre v fuel s' v' wf hnw hpre hann hv hr a1 a2 hm hnp o tv ow nm ho hk hval huniq
    hbv ot hot hotk hotf htvpre
  have := copy_memo_functional c h pre v fuel s' v' wf hnw hpre hann hv hr hpf ow j jo hj hjo hown
  rw [← this]; exact hb

/-! ### histories of later changes -/

/-- a later change of the heap: overwrite an existing object, or allocate a new one -/
inductive Op where
  | write (x : Nat) (o : Obj)
  | alloc (o : Obj)

def applyOp (h : Heap) : Op → Heap
  | .write x o => h.setIfInBounds x o
  | .alloc o => h.push o

def applyOps (h : Heap) (ops : List Op) : Heap := ops.foldl applyOp h

namespace Aux
theorem applyOps_size_le (ops : List Op) : ∀ h : Heap, h.size ≤ (applyOps h ops).size := by
  induction ops with
  | nil => intro h; exact Nat.le_refl _
  | cons op r ih =>
    intro h
    have := ih (applyOp h op)
    cases op <;> simp [applyOps, applyOp] at this ⊢ <;> simp [applyOps] at ih <;> omega

/-- objects outside the written set survive any history (writes elsewhere, allocations) -/
theorem applyOps_untouched (ops : List Op) : ∀ (h : Heap) (y : Nat), y < h.size →
    (∀ x o, Op.write x o ∈ ops → x ≠ y) → (applyOps h ops)[y]? = h[y]? := by
  induction ops with
  | nil => intro h y _ _; rfl
  | cons op r ih =>
    intro h y hy hw
    have hw' : ∀ x o, Op.write x o ∈ r → x ≠ y := fun x o hm => hw x o (List.mem_cons_of_mem _ hm)
    show (applyOps (applyOp h op) r)[y]? = h[y]?
    cases op with
    | write x o =>
      have hne : x ≠ y := hw x o (by simp)
      rw [ih (applyOp h (.write x o)) y (by simp [applyOp]; exact hy) hw']
      simp [applyOp, Array.getElem?_setIfInBounds, hne]
    | alloc o =>
      rw [ih (applyOp h (.alloc o)) y (by simp [applyOp]; omega) hw']
      simp [applyOp, Array.getElem?_push]; omega
end Aux

/-- **frame_source_history**: for EVERY history of later changes on the source side — any sequence of allocations and of
overwrites of old objects that are not reachable from a pre-seeded target, or of objects allocated after the copy — every
object of the copy (reachable from the copy's root in the heap the copy returned) is unchanged at the end. -/
theorem frame_source_history (fuel : Nat) (h : Heap) (pre : Memo) (v : Val) (s' : St) (v' : Val)
    (hr : cpVal fuel ⟨h, pre⟩ v = .ok (s', v')) (ops : List Op)
    (hops : ∀ x o, Op.write x o ∈ ops →
      (x < h.size ∧ ∀ r ∈ targets pre, ¬ Reach s'.h (.ref r) x) ∨ s'.h.size ≤ x) :
    ∀ y, Reach s'.h v' y → y < s'.h.size → (applyOps s'.h ops)[y]? = s'.h[y]? := by
  intro y hy hlt
  apply applyOps_untouched ops s'.h y hlt
  intro x o hm e
  subst e
  rcases hops x o hm with ⟨hx, hnot⟩ | hge
  · obtain ⟨r, hr1, hr2⟩ := copy_shares_only_preseeded fuel h pre v s' v' hr x hy hx
    exact hnot r hr1 hr2
  · omega

/-- **frame_copy_history** (a heap fact plus `copy_no_write_scoped`; its hypothesis on the writes — index `≥ h.size` — IS "no exported object
is written", so the copy-specific content is nil; the statement with source- and copy-side writes interleaved, whose copy half rests
on `copy_shares_only_preseeded`, is `frame_interleaved_history`): for EVERY history of later changes on the copy side — any sequence of allocations and of
overwrites of objects allocated by the copy or later — every exported object is unchanged at the end (given that no
pre-seeded target is a bound annotation), so no change of the copy is visible through the source. -/
theorem frame_copy_history (fuel : Nat) (h : Heap) (pre : Memo) (v : Val) (s' : St) (v' : Val)
    (hpre : ∀ x ∈ targets pre, isBound h x = false)
    (hr : cpVal fuel ⟨h, pre⟩ v = .ok (s', v')) (ops : List Op)
    (hops : ∀ x o, Op.write x o ∈ ops → h.size ≤ x) :
    ∀ x, x < h.size → (applyOps s'.h ops)[x]? = h[x]? := by
  intro x hx
  have hb := ((pval_all h.size h pre fuel) _ _ _ _ (good_init h pre) hr).1.base
  rw [applyOps_untouched ops s'.h x (by omega) (by intro x' o hm e; subst e; have := hops _ o hm; omega)]
  exact copy_no_write_scoped fuel h pre v s' v' hpre hr x hx

namespace Aux
/-- dropping writes that never hit `y` from a history does not change what `y` holds at the end (sizes evolve identically) -/
theorem applyOps_drop (drop : Nat → Bool) (y : Nat) : ∀ (ops : List Op) (h1 h2 : Heap), h1.size = h2.size → h1[y]? = h2[y]? →
    (∀ x o, Op.write x o ∈ ops → drop x = true → x ≠ y) →
    (applyOps h1 ops)[y]? =
      (applyOps h2 (ops.filter (fun op => match op with | .write x _ => !drop x | .alloc _ => true)))[y]? := by
  intro ops
  induction ops with
  | nil => intro h1 h2 _ e _; simpa [applyOps] using e
  | cons op r ih =>
    intro h1 h2 hs e hw
    have hw' : ∀ x o, Op.write x o ∈ r → drop x = true → x ≠ y := fun x o hm => hw x o (List.mem_cons_of_mem _ hm)
    cases op with
    | alloc o =>
      simp only [List.filter_cons]
      show (applyOps (h1.push o) r)[y]? = (applyOps (h2.push o) _)[y]?
      apply ih _ _ (by simp [hs]) _ hw'
      simp only [Array.getElem?_push, hs]
      split
      · rfl
      · exact e
    | write x o =>
      by_cases hd : drop x = true
      · have hne : x ≠ y := hw x o (by simp) hd
        simp only [List.filter_cons, hd]
        show (applyOps (h1.setIfInBounds x o) r)[y]? = (applyOps h2 _)[y]?
        apply ih _ _ (by simp [hs]) _ hw'
        simp [Array.getElem?_setIfInBounds, hne]; exact e
      · have hd' : drop x = false := by simpa using hd
        simp only [List.filter_cons, hd']
        show (applyOps (h1.setIfInBounds x o) r)[y]? = (applyOps (h2.setIfInBounds x o) _)[y]?
        apply ih _ _ (by simp [hs]) _ hw'
        simp only [Array.getElem?_setIfInBounds, hs]
        split
        · split <;> rfl
        · exact e
end Aux
open Aux

/-- **frame_interleaved_history**: for EVERY interleaved history of later changes — allocations, overwrites of source-side objects
(old objects not reachable from a pre-seeded target) and overwrites of copy-side objects (allocated by the copy or later), in any
order — (1) what any object of the copy holds at the end is what it would hold had the source-side overwrites never happened, and
(2) what any exported object holds at the end is what it would hold had the copy-side overwrites never happened: no change of either
side is visible through the other.  (1) is the copy-specific half (it rests on `copy_shares_only_preseeded`); (2) is a plain heap
fact (copy-side objects have indices `≥ h.size`); together with `copy_no_write*` the exported objects start from their old content. -/
theorem frame_interleaved_history (fuel : Nat) (h : Heap) (pre : Memo) (v : Val) (s' : St) (v' : Val)
    (hr : cpVal fuel ⟨h, pre⟩ v = .ok (s', v')) (ops : List Op)
    (hops : ∀ x o, Op.write x o ∈ ops → (x < h.size → ∀ r ∈ targets pre, ¬ Reach s'.h (.ref r) x)) :
    (∀ y, Reach s'.h v' y →
      (applyOps s'.h ops)[y]? =
        (applyOps s'.h (ops.filter (fun op => match op with | .write x _ => !(decide (x < h.size)) | .alloc _ => true)))[y]?) ∧
    (∀ y, y < h.size →
      (applyOps s'.h ops)[y]? =
        (applyOps s'.h (ops.filter (fun op => match op with | .write x _ => !(decide (h.size ≤ x)) | .alloc _ => true)))[y]?) := by
  constructor
  · intro y hy
    apply applyOps_drop (fun x => decide (x < h.size)) y ops s'.h s'.h rfl rfl
    intro x o hm hd e
    subst e
    have hx : x < h.size := by simpa using hd
    obtain ⟨r, hr1, hr2⟩ := copy_shares_only_preseeded fuel h pre v s' v' hr x hy hx
    exact hops x o hm hx r hr1 hr2
  · intro y hy
    apply applyOps_drop (fun x => decide (h.size ≤ x)) y ops s'.h s'.h rfl rfl
    intro x o _ hd e
    subst e
    have : h.size ≤ x := by simpa using hd
    omega

/-! ## the thin structural clone -/

mutual
/-- leaf taxa, left to right -/
def X.leaves : X → List String
  | .node t _ _ _ [] => [t]
  | .node _ _ _ _ (c :: cs) => X.leavesL (c :: cs)
def X.leavesL : List X → List String
  | [] => []
  | c :: cs => X.leaves c ++ X.leavesL cs
end

mutual
/-- no node with exactly one child -/
def X.noUnary : X → Bool
  | .node _ _ _ _ cs => cs.length != 1 && X.noUnaryL cs
def X.noUnaryL : List X → Bool
  | [] => true
  | c :: cs => X.noUnary c && X.noUnaryL cs
end

namespace Aux
theorem withLen_leaves (k : X) (l : Option Frac) : (k.withLen l).leaves = k.leaves := by
  cases k with
  | node t l' s e cs => cases cs <;> simp [X.withLen, X.leaves]

theorem withLen_noUnary (k : X) (l : Option Frac) : (k.withLen l).noUnary = k.noUnary := by
  cases k with
  | node t l' s e cs => simp [X.withLen, X.noUnary]

theorem extractL_length (sup : Bool) (tax elb : Nat → String) (cs : List T) : (extractL sup tax elb cs).length = cs.length := by
  induction cs with
  | nil => simp [extractL]
  | cons c cs ih => simp [extractL, ih]
end Aux

mutual
/-- **extract_leaves**: the extracted tree carries exactly the leaf taxa of its source, in the same order, with or
without suppression of unifurcations (taxa are referenced, never copied or dropped). -/
theorem extract_leaves (sup : Bool) (tax elb : Nat → String) : ∀ t : T,
    (extract sup tax elb t).leaves = (t.leaves.map (fun x => tax x.id))
  | .node i x l s [] => by
    cases sup <;> simp [extract, extractL, X.leaves, T.leaves, T.id]
  | .node i x l s (c :: cs) => by
    have ih := extractL_leaves sup tax elb (c :: cs)
    simp only [T.leaves]
    rw [← ih]
    cases hks : extractL sup tax elb (c :: cs) with
    | nil => simp [extractL] at hks
    | cons k ks =>
      cases ks with
      | nil => cases sup <;> simp [extract, hks, X.leaves, X.leavesL, withLen_leaves]
      | cons k2 ks2 => cases sup <;> simp [extract, hks, X.leaves]
theorem extractL_leaves (sup : Bool) (tax elb : Nat → String) : ∀ ts : List T,
    X.leavesL (extractL sup tax elb ts) = ((T.leavesL ts).map (fun x => tax x.id))
  | [] => by simp [extractL, X.leavesL, T.leavesL]
  | c :: cs => by
    simp [extractL, X.leavesL, T.leavesL, extract_leaves sup tax elb c, extractL_leaves sup tax elb cs]
end

mutual
/-- **extract_suppresses**: with `suppress_unifurcations` the extracted tree has no node of outdegree one. -/
theorem extract_suppresses (tax elb : Nat → String) : ∀ t : T, (extract true tax elb t).noUnary = true
  | .node i x l s cs => by
    have ih := extractL_suppresses tax elb cs
    cases hks : extractL true tax elb cs with
    | nil => simp [extract, hks, X.noUnary, X.noUnaryL]
    | cons k ks =>
      rw [hks] at ih
      cases ks with
      | nil =>
        simp [X.noUnaryL] at ih
        simp [extract, hks, withLen_noUnary, ih]
      | cons k2 ks2 => simp [extract, hks, X.noUnary, ih]
theorem extractL_suppresses (tax elb : Nat → String) : ∀ ts : List T, X.noUnaryL (extractL true tax elb ts) = true
  | [] => by simp [extractL, X.noUnaryL]
  | c :: cs => by
    simp [extractL, X.noUnaryL, extract_suppresses tax elb c, extractL_suppresses tax elb cs]
end

mutual
/-- pre-order list of what a clone carries: (taxon, edge length, node label, edge label) -/
def X.attrs : X → List (String × Option Frac × String × String)
  | .node t l s e cs => (t, l, s, e) :: X.attrsL cs
def X.attrsL : List X → List (String × Option Frac × String × String)
  | [] => []
  | c :: cs => X.attrs c ++ X.attrsL cs
end

mutual
/-- the same list read off the source tree -/
def srcAttrs (tax elb : Nat → String) : T → List (String × Option Frac × String × String)
  | .node i _ l s cs => (tax i, l, encodeStr s, elb i) :: srcAttrsL tax elb cs
def srcAttrsL (tax elb : Nat → String) : List T → List (String × Option Frac × String × String)
  | [] => []
  | c :: cs => srcAttrs tax elb c ++ srcAttrsL tax elb cs
end

mutual
/-- pre-order (taxon, node label, edge label) of the source nodes that are not unifurcations -/
def srcLabsSup (tax elb : Nat → String) : T → List (String × String × String)
  | .node i _ _ s cs => (if cs.length = 1 then [] else [(tax i, encodeStr s, elb i)]) ++ srcLabsSupL tax elb cs
def srcLabsSupL (tax elb : Nat → String) : List T → List (String × String × String)
  | [] => []
  | c :: cs => srcLabsSup tax elb c ++ srcLabsSupL tax elb cs
end

def X.labs (x : X) : List (String × String × String) := x.attrs.map (fun a => (a.1, a.2.2.1, a.2.2.2))
def X.labsL (xs : List X) : List (String × String × String) := (X.attrsL xs).map (fun a => (a.1, a.2.2.1, a.2.2.2))

namespace Aux
theorem withLen_labs (k : X) (l : Option Frac) : (k.withLen l).labs = k.labs := by
  cases k with
  | node t l' s e cs => simp [X.withLen, X.labs, X.attrs]
theorem labsL_cons (c : X) (cs : List X) : X.labsL (c :: cs) = c.labs ++ X.labsL cs := by
  simp [X.labsL, X.labs, X.attrsL]
end Aux

mutual
/-- **extract_nosup_attrs**: without suppression every node of the source is cloned, in the same (pre-)order, with exactly its
taxon, edge length, node label and edge label — structure, lengths, labels and taxa are all carried over. -/
theorem extract_nosup_attrs (tax elb : Nat → String) : ∀ t : T, (extract false tax elb t).attrs = srcAttrs tax elb t
  | .node i x l s cs => by
    have ih := extractL_nosup_attrs tax elb cs
    cases hks : extractL false tax elb cs with
    | nil => rw [hks] at ih; simp [extract, hks, X.attrs, srcAttrs, ← ih]
    | cons k ks =>
      rw [hks] at ih
      cases ks with
      | nil => simp [extract, hks, X.attrs, srcAttrs, ← ih]
      | cons k2 ks2 => simp [extract, hks, X.attrs, srcAttrs, ← ih]
theorem extractL_nosup_attrs (tax elb : Nat → String) : ∀ ts : List T,
    X.attrsL (extractL false tax elb ts) = srcAttrsL tax elb ts
  | [] => by simp [extractL, X.attrsL, srcAttrsL]
  | c :: cs => by
    simp [extractL, X.attrsL, srcAttrsL, extract_nosup_attrs tax elb c, extractL_nosup_attrs tax elb cs]
end

mutual
/-- **extract_sup_labels**: with suppression the clone consists of exactly the source nodes that are not unifurcations, in
pre-order, each with its own taxon, node label and edge label (lengths of removed nodes are absorbed by `absorb`). -/
theorem extract_sup_labels (tax elb : Nat → String) : ∀ t : T, (extract true tax elb t).labs = srcLabsSup tax elb t
  | .node i x l s cs => by
    have ih := extractL_sup_labels tax elb cs
    have hlen := extractL_length true tax elb cs
    cases hks : extractL true tax elb cs with
    | nil =>
      rw [hks] at ih hlen
      have : cs.length ≠ 1 := by simp at hlen; omega
      simp [extract, hks, X.labs, X.attrs, srcLabsSup, this, ← ih, X.labsL]
    | cons k ks =>
      rw [hks] at ih hlen
      cases ks with
      | nil =>
        have : cs.length = 1 := by simp at hlen; omega
        have e : extract true tax elb (.node i x l s cs) = k.withLen (absorb l k.len) := by simp [extract, hks]
        rw [e, withLen_labs]
        simp only [srcLabsSup, this, if_true, List.nil_append, ← ih, labsL_cons]
        simp [X.labsL, X.attrsL]
      | cons k2 ks2 =>
        have : cs.length ≠ 1 := by simp at hlen; omega
        simp [extract, hks, X.labs, X.attrs, srcLabsSup, this, ← ih, X.labsL]
theorem extractL_sup_labels (tax elb : Nat → String) : ∀ ts : List T,
    X.labsL (extractL true tax elb ts) = srcLabsSupL tax elb ts
  | [] => by simp [extractL, X.labsL, X.attrsL, srcLabsSupL]
  | c :: cs => by
    simp [extractL, labsL_cons, srcLabsSupL, extract_sup_labels tax elb c, extractL_sup_labels tax elb cs]
end

mutual
/-- root-to-leaf length sums (in ℚ, `None` counts 0, the root's own edge included on top of `acc`), leaves left to right -/
def X.leafSums (acc : ℚ) : X → List ℚ
  | .node _ l _ _ [] => [acc + oval l]
  | .node _ l _ _ (c :: cs) => X.leafSumsL (acc + oval l) (c :: cs)
def X.leafSumsL (acc : ℚ) : List X → List ℚ
  | [] => []
  | c :: cs => X.leafSums acc c ++ X.leafSumsL acc cs
end

mutual
def srcLeafSums (acc : ℚ) : T → List ℚ
  | .node _ _ l _ [] => [acc + oval l]
  | .node _ _ l _ (c :: cs) => srcLeafSumsL (acc + oval l) (c :: cs)
def srcLeafSumsL (acc : ℚ) : List T → List ℚ
  | [] => []
  | c :: cs => srcLeafSums acc c ++ srcLeafSumsL acc cs
end

namespace Aux
theorem absorb_oval {p c : Option Frac} (hp : OWF p) (hc : OWF c) : oval (absorb p c) = oval p + oval c ∧ OWF (absorb p c) := by
  cases p <;> cases c <;> simp_all [absorb, oval, OWF]
  rename_i x y
  refine ⟨?_, by show (Frac.add y x).den ≠ 0; exact C08.Aux.mk'_den _ _⟩
  have := C08.Aux.add_fval hc hp
  rw [show Frac.add y x = y + x from rfl, this]; ring

theorem leafSums_withLen (acc : ℚ) (k : X) (L : Option Frac) :
    (k.withLen L).leafSums acc = k.leafSums (acc + oval L - oval k.len) := by
  cases k with
  | node t l s e cs => cases cs <;> simp [X.withLen, X.leafSums, X.len]

theorem withLen_len (k : X) (L : Option Frac) : (k.withLen L).len = L := by
  cases k; rfl
end Aux

mutual
theorem extract_sup_pathsums_aux (tax elb : Nat → String) : ∀ (t : T) (acc : ℚ), LensWF t →
    (extract true tax elb t).leafSums acc = srcLeafSums acc t ∧ OWF (extract true tax elb t).len
  | .node i x l s cs, acc, hw => by
    obtain ⟨hl, hcs⟩ : OWF l ∧ LensWFL cs := by simpa [LensWF] using hw
    have ih := extractL_sup_pathsums_aux tax elb cs
    have hlen := Aux.extractL_length true tax elb cs
    cases hks : extractL true tax elb cs with
    | nil =>
      rw [hks] at hlen
      have : cs = [] := by cases cs <;> simp_all
      subst this
      simp [extract, extractL, X.leafSums, srcLeafSums, X.len, hl]
    | cons k ks =>
      cases ks with
      | nil =>
        rw [hks] at hlen
        obtain ⟨c, rfl⟩ : ∃ c, cs = [c] := by
          match cs, hlen with
          | [c], _ => exact ⟨c, rfl⟩
        have hk : k = extract true tax elb c := by simp [extractL] at hks; exact hks.symm
        have hc : LensWF c := by simpa [LensWFL] using hcs
        obtain ⟨ihs, ihw⟩ := extract_sup_pathsums_aux tax elb c (acc + oval l) hc
        have e : extract true tax elb (.node i x l s [c]) = k.withLen (absorb l k.len) := by simp [extract, hks]
        have hkw : OWF k.len := by rw [hk]; exact ihw
        obtain ⟨ho, hwf⟩ := Aux.absorb_oval hl hkw
        rw [e, Aux.leafSums_withLen, Aux.withLen_len, ho]
        refine ⟨?_, hwf⟩
        simp only [srcLeafSums, srcLeafSumsL, List.append_nil]
        rw [hk] at *
        rw [← ihs]; congr 1; ring
      | cons k2 ks2 =>
        have e : extract true tax elb (.node i x l s cs) = .node (tax i) l (encodeStr s) (elb i) (k :: k2 :: ks2) := by
          simp [extract, hks]
        rw [e]
        refine ⟨?_, by simpa [X.len] using hl⟩
        have := (ih (acc + oval l) hcs)
        rw [hks] at this
        cases cs with
        | nil => simp [extractL] at hks
        | cons c cs' => simp only [X.leafSums, srcLeafSums]; exact this
theorem extractL_sup_pathsums_aux (tax elb : Nat → String) : ∀ (ts : List T) (acc : ℚ), LensWFL ts →
    X.leafSumsL acc (extractL true tax elb ts) = srcLeafSumsL acc ts
  | [], _, _ => by simp [extractL, X.leafSumsL, srcLeafSumsL]
  | c :: cs, acc, hw => by
    obtain ⟨hc, hcs⟩ : LensWF c ∧ LensWFL cs := by simpa [LensWFL] using hw
    simp [extractL, X.leafSumsL, srcLeafSumsL, (extract_sup_pathsums_aux tax elb c acc hc).1,
      extractL_sup_pathsums_aux tax elb cs acc hcs]
end

/-- **extract_sup_pathsums**: suppressing unifurcations never changes a root-to-leaf length sum (in ℚ, `None` = 0, the seed's own
edge included): the extracted tree has, leaf by leaf in order, the path lengths of its source — `absorb` moves lengths, it never loses
or duplicates one.  (`LensWF`: every length read off the protocol has a non-zero denominator, `C08.Aux.parseTree_lensWF`.) -/
theorem extract_sup_pathsums (tax elb : Nat → String) (t : T) (hw : LensWF t) :
    (extract true tax elb t).leafSums 0 = srcLeafSums 0 t :=
  (extract_sup_pathsums_aux tax elb t 0 hw).1


/-! ## non-vacuity: the hypotheses are satisfiable and the conclusions are not empty -/

/-- a cyclic 2-object heap: a node 0 with a reference to 1, which points back to 0 -/
def exHeap : Heap := #[
  { kind := .plain, cls := "Node", fields := [("p", .ref 1), ("w", .atom "None")] },
  { kind := .plain, cls := "Node", fields := [("c", .ref 0)] }]

/-- deep copy of the cycle: two fresh objects, the cycle is reproduced among them -/
example : ∃ s' v', cpVal 2 ⟨exHeap, []⟩ (.ref 0) = .ok (s', v') ∧ v' = .ref 2 ∧ s'.h.size = 4 := by
  simp [cpVal, cpFields, exHeap, planFields, annotationsRef, setFields, List.lookup]
  try exact ⟨_, _, ⟨rfl, rfl⟩, rfl, rfl⟩
/-- with object 1 pre-seeded to itself only one object is allocated and it references the shared object 1 -/
example : ∃ s' v', cpVal 2 ⟨exHeap, [(1, 1)]⟩ (.ref 0) = .ok (s', v') ∧ v' = .ref 2 ∧ s'.h.size = 3 := by
  simp [cpVal, cpFields, exHeap, planFields, annotationsRef, setFields, List.lookup]
  try exact ⟨_, _, ⟨rfl, rfl⟩, rfl, rfl⟩
example : Closed exHeap := by
  intro i o hget f hf k hk
  have hi : i < 2 := (Array.getElem?_eq_some_iff.mp hget).1
  match i, hi with
  | 0, _ =>
    simp [exHeap] at hget; subst hget; simp at hf
    rcases hf with h | h <;> subst h <;> simp at hk
    subst hk; decide
  | 1, _ =>
    simp [exHeap] at hget; subst hget; simp at hf
    subst hf; simp at hk; subst hk; decide
/-- a tree with an annotation set holding one attribute-bound annotation (bound to the tree's `weight`) -/
def exAnn : Heap := #[
  { kind := .annotable, cls := "Tree", fields := [("weight", .atom "None"), ("_annotations", .ref 1)] },
  { kind := .annset, cls := "AnnotationSet", fields := [("_item_list", .ref 2), ("_item_set", .ref 3), ("target", .ref 0)] },
  { kind := .plain, cls := "list", fields := [("#0", .ref 4)] },
  { kind := .plain, cls := "set", fields := [("e0", .ref 4)] },
  { kind := .annotable, cls := "Annotation", fields := [("_value", .ref 5), ("is_attribute", .atom "True")] },
  { kind := .tuple, cls := "tuple", fields := [("#0", .ref 0), ("#1", .atom "weight")] }]
/-- the driver's deep-copy route succeeds on it with the fuel the driver uses; in the FINAL heap the copied annotation (7) is
bound to the copy of the tree (6), not to the source (0) -/
example : ∃ s' v', copyRoute exAnn [] (.ref 0) = .ok (s', v') ∧ v' = .ref 6 ∧ s'.h.size = 13 ∧
    boundValue s'.h 7 = some (.ref 6, .atom "weight") ∧ (4, 7) ∈ s'.m ∧ (0, 6) ∈ s'.m := by
  simp [copyRoute, preseed, cpVal, cpFields, cpItems, exAnn, planFields, annotationsRef, setFields, setField, setFieldL, List.lookup,
    itemFields, Obj.get, retarget, isBound, boundValue, attachAnnotations, pushAnnSet, dedupVals, indexed]
  try exact ⟨_, _, ⟨rfl, rfl⟩, rfl, by simp, by simp [List.lookup]⟩
/-- a node with a taxon, copied into another namespace that has no taxon of that label (`.fresh`) -/
def exNs : Heap := #[
  { kind := .annotable, cls := "Node", fields := [("taxon", .ref 1)] },
  { kind := .taxon, cls := "Taxon", fields := [("_label", .atom "str:A")] }]
example : ∃ s' v', copyRoute exNs [(1, .fresh)] (.ref 0) = .ok (s', v') ∧ v' = .ref 4 ∧
    s'.h[4]? = some { kind := .annotable, cls := "Node", fields := [("taxon", .ref 3)] } := by
  simp [copyRoute, preseed, newTaxon, cpVal, cpFields, exNs, planFields, annotationsRef, setFields, List.lookup, Obj.get]
  try exact ⟨_, _, ⟨rfl, rfl⟩, rfl, by simp⟩
/-- the namespace-scoped route (taxon seeded to itself) shares the taxon: `route_no_write`'s hypothesis holds, the copy references 1 -/
example : ∃ s' v', copyRoute exNs [(1, .existing 1)] (.ref 0) = .ok (s', v') ∧
    s'.h[2]? = some { kind := .annotable, cls := "Node", fields := [("taxon", .ref 1)] } := by
  simp [copyRoute, preseed, cpVal, cpFields, exNs, planFields, annotationsRef, setFields, List.lookup, Obj.get]
example : ∀ i t, (i, PreTarget.existing t) ∈ [(1, PreTarget.existing 1)] → isBound exNs t = false := by
  intro i t h
  simp at h
  obtain ⟨_, rfl⟩ := h
  rfl
/-- nothing is defaulted: a repeated label whose first occurrence was not seeded is refused -/
example : copyRoute exNs [(1, .sameAs 0)] (.ref 0) = .error .malformed := by
  simp [copyRoute, preseed, List.lookup]
/-- a history of later changes on the source side (overwrite of old object 0, an allocation, overwrite of the new object) -/
example : applyOps exHeap [.write 0 { kind := .plain, cls := "X", fields := [] }, .alloc default, .write 2 default] =
    #[{ kind := .plain, cls := "X", fields := [] }, { kind := .plain, cls := "Node", fields := [("c", .ref 0)] }, default] := by
  simp [applyOps, applyOp, exHeap]
example : (extract true (fun i => if i = 2 then "leaf" else "inner") (fun _ => "-")
    (.node 0 none none none [.node 1 none (some ⟨1, 1⟩) none [.node 2 (some 0) (some ⟨2, 1⟩) none []]])).labs
      = [("leaf", "-", "-")] := by
  simp [extract, extractL, X.withLen, X.labs, X.attrs, X.attrsL, encodeStr, absorb, X.len]
/-- the cyclic two-object heap is well-formed, so `copy_total` applies to it (with and without pre-seeding) -/
example : WellFormed 2 exHeap := by
  have hcl : ∀ (i : Nat) (o : Obj), i < 2 → exHeap[i]? = some o → ∀ f ∈ o.fields, SrcVal 2 f.2 := by
    intro i o hi hget f hf k hk
    match i, hi with
    | 0, _ =>
      simp [exHeap] at hget; subst hget; simp at hf
      rcases hf with h | h <;> subst h <;> simp at hk
      subst hk; decide
    | 1, _ =>
      simp [exHeap] at hget; subst hget; simp at hf
      subst hf; simp at hk; subst hk; decide
  refine ⟨by decide, hcl, ?_, ?_⟩
  · intro i o hi hget hk
    match i, hi with
    | 0, _ => simp [exHeap] at hget; subst hget; cases hk
    | 1, _ => simp [exHeap] at hget; subst hget; cases hk
  · intro i o a hi hget ha
    match i, hi with
    | 0, _ => simp [exHeap] at hget; subst hget; simp [annotationsRef] at ha
    | 1, _ => simp [exHeap] at hget; subst hget; simp [annotationsRef] at ha
example : SrcVal 2 (.ref 0) := by intro i h; cases h; decide
/-- the correspondence relation on the copy of the cyclic heap: object 2 is the copy of object 0 under the memo [(1,3),(0,2)] -/
example : ObjRel [(1, 3), (0, 2)] { kind := .plain, cls := "Node", fields := [("p", .ref 1), ("w", .atom "None")] }
    { kind := .plain, cls := "Node", fields := [("p", .ref 3), ("w", .atom "None")] } := by
  refine ⟨rfl, rfl, [("p", .ref 3), ("w", .atom "None")], [], rfl, ?_, Or.inl rfl⟩
  simp only [planFields]
  exact List.Forall₂.cons ⟨rfl, Or.inl (by simp [ValRel])⟩ (List.Forall₂.cons ⟨rfl, Or.inl (by simp [ValRel])⟩ List.Forall₂.nil)
/-- … and the order matters: the same attributes in another order do not correspond -/
example : ¬ ObjRel [(1, 3), (0, 2)] { kind := .plain, cls := "Node", fields := [("p", .ref 1), ("w", .atom "None")] }
    { kind := .plain, cls := "Node", fields := [("w", .atom "None"), ("p", .ref 3)] } := by
  rintro ⟨_, _, core, tail, e, hf, ht⟩
  simp only [planFields] at hf
  cases hf with
  | cons h1 h2 =>
    cases h2 with
    | cons h3 h4 =>
      cases h4
      simp at e
      have := h1.1
      rcases ht with ht | ⟨ha, _⟩
      · subst ht; simp at e; rw [← e.1] at this; simp at this
      · simp [annAware] at ha
example : ∀ x ∈ targets [(1, 1)], isBound exHeap x = false := by
  intro x hx; simp [targets] at hx; subst hx; rfl

namespace Aux
theorem srcVal_of_all (c : Nat) (o : Obj)
    (h : (o.fields.all (fun f => match f.2 with | .ref k => decide (k < c) | .atom _ => true)) = true) :
    ∀ f ∈ o.fields, SrcVal c f.2 := by
  intro f hf k hk
  have := List.all_eq_true.mp h f hf
  rw [hk] at this
  simpa using this
end Aux
open Aux

/-- the annotated tree `exAnn` (annotation set, attribute-bound annotation, `_value` tuple) satisfies every hypothesis of
`copy_total` / `copy_iso`: it is well-formed and its `_annotations` refers to an annotation set -/
theorem Aux.exAnn_wf : WellFormed 6 exAnn ∧
    (∀ (i : Nat) (o : Obj) (a : Nat), i < 6 → exAnn[i]? = some o → annotationsRef o = some a →
      ∃ ao, exAnn[a]? = some ao ∧ ao.kind = .annset) := by
  have cases6 : ∀ i, i < 6 → i = 0 ∨ i = 1 ∨ i = 2 ∨ i = 3 ∨ i = 4 ∨ i = 5 := by intro i hi; omega
  have hit : itemFields exAnn 1 = some [("#0", .ref 4)] := by
    simp [itemFields, exAnn, Obj.get, List.lookup]
  refine ⟨⟨by decide, ?_, ?_, ?_⟩, ?_⟩
  · intro i o hi hget
    rcases cases6 i hi with rfl | rfl | rfl | rfl | rfl | rfl <;> simp [exAnn] at hget <;> subst hget <;>
      exact srcVal_of_all 6 _ (by decide)
  · intro i o hi hget hk
    rcases cases6 i hi with rfl | rfl | rfl | rfl | rfl | rfl <;> simp [exAnn] at hget <;> subst hget <;>
      first
      | (refine ⟨.ref 0, [("#0", .ref 4)], by simp [Obj.get, List.lookup], hit, ?_⟩
         intro t ot e hot
         cases e
         simp [exAnn] at hot; subst hot; decide)
      | cases hk
  · intro i o a hi hget ha
    rcases cases6 i hi with rfl | rfl | rfl | rfl | rfl | rfl <;> simp [exAnn] at hget <;> subst hget <;>
      simp [annotationsRef, Obj.get, List.lookup] at ha
    subst ha; exact ⟨_, hit⟩
  · intro i o a hi hget ha
    rcases cases6 i hi with rfl | rfl | rfl | rfl | rfl | rfl <;> simp [exAnn] at hget <;> subst hget <;>
      simp [annotationsRef, Obj.get, List.lookup] at ha
    subst ha
    exact ⟨{ kind := .annset, cls := "AnnotationSet", fields := [("_item_list", .ref 2), ("_item_set", .ref 3), ("target", .ref 0)] },
      by simp [exAnn], rfl⟩

/-- `bound_annotation_follows` instantiated on `exAnn`: every hypothesis is discharged for the bound annotation 4 (`_value` tuple 5,
owner 0, attribute "weight"); the run exists (`copyRoute exAnn [] (.ref 0)` above evaluates to a state whose memo contains `(4, 7)`
and where `boundValue s'.h 7 = (ref 6, "weight")`), so the conclusion is not vacuous -/
example (fuel : Nat) (s' : St) (v' : Val) (hr : cpVal fuel ⟨exAnn, []⟩ (.ref 0) = .ok (s', v')) (a2 : Nat) (hm : (4, a2) ∈ s'.m) :
    ∃ j, boundValue s'.h a2 = some (.ref j, .atom "weight") ∧ (0, j) ∈ s'.m :=
  bound_annotation_follows 6 exAnn [] (.ref 0) fuel s' v' Aux.exAnn_wf.1 (by simp [targets]) (by simp) Aux.exAnn_wf.2
    (by intro i e; cases e; decide) hr 4 a2 hm (by simp)
    { kind := .annotable, cls := "Annotation", fields := [("_value", .ref 5), ("is_attribute", .atom "True")] } 5 0 "weight"
    (by simp [exAnn]) (by decide) (by simp [Obj.get, List.lookup])
    (by intro w hw; simp at hw; exact hw)
    (by simp [boundValue, exAnn, Obj.get, List.lookup])
    { kind := .tuple, cls := "tuple", fields := [("#0", .ref 0), ("#1", .atom "weight")] } (by simp [exAnn]) (by decide) rfl
    (by simp)

/-- `copy_iso` instantiated on `exAnn`: the copy of the annotation set 1 (registered by `deep_copy_annotations_from`) is a fresh
three-attribute `AnnotationSet` whose item list holds the memo-image of annotation 4; the copy of the tree has `weight` first and the
rebuilt `_annotations` last -/
example (fuel : Nat) (s' : St) (v' : Val) (hr : cpVal fuel ⟨exAnn, []⟩ (.ref 0) = .ok (s', v')) :
    ValRel s'.m (.ref 0) v' ∧ (∀ p ∈ s'.m, p ∈ ([] : Memo) ∨ ∃ o o', exAnn[p.1]? = some o ∧ s'.h[p.2]? = some o' ∧
      ((o.kind = .annset ∧ SetRel exAnn s' p o o') ∨ ObjRel s'.m o o')) ∧ FunM exAnn [] s'.m ∧ (∀ p ∈ ([] : Memo), p ∈ s'.m) :=
  copy_iso 6 exAnn [] (.ref 0) fuel s' v' Aux.exAnn_wf.1 (by simp [targets]) (by simp) Aux.exAnn_wf.2
    (by intro i e; cases e; decide) hr

/-- `exNs` (a node referring to a taxon) satisfies the hypotheses of `copy_iso` / `copy_shares_preseeded` -/
theorem Aux.exNs_wf : WellFormed 2 exNs ∧
    (∀ (i : Nat) (o : Obj) (a : Nat), i < 2 → exNs[i]? = some o → annotationsRef o = some a →
      ∃ ao, exNs[a]? = some ao ∧ ao.kind = .annset) := by
  have cases2 : ∀ i, i < 2 → i = 0 ∨ i = 1 := by intro i hi; omega
  refine ⟨⟨by decide, ?_, ?_, ?_⟩, ?_⟩
  · intro i o hi hget
    rcases cases2 i hi with rfl | rfl <;> simp [exNs] at hget <;> subst hget <;> exact srcVal_of_all 2 _ (by decide)
  · intro i o hi hget hk
    rcases cases2 i hi with rfl | rfl <;> simp [exNs] at hget <;> subst hget <;> cases hk
  · intro i o a hi hget ha
    rcases cases2 i hi with rfl | rfl <;> simp [exNs] at hget <;> subst hget <;>
      simp [annotationsRef, Obj.get, List.lookup] at ha
  · intro i o a hi hget ha
    rcases cases2 i hi with rfl | rfl <;> simp [exNs] at hget <;> subst hget <;>
      simp [annotationsRef, Obj.get, List.lookup] at ha

/-- `copy_shares_preseeded` on the namespace-scoped copy of `exNs` (taxon 1 seeded to itself): whatever object `j` the node 0 was copied
to, its `taxon` attribute is the source's taxon object 1 itself (the run exists: see the `.existing` example above) -/
example (fuel : Nat) (s' : St) (v' : Val) (hr : cpVal fuel ⟨exNs, [(1, 1)]⟩ (.ref 0) = .ok (s', v')) (j : Nat) (hm : (0, j) ∈ s'.m) :
    ∃ o', s'.h[j]? = some o' ∧ ∃ rest, o'.fields = ("taxon", .ref 1) :: rest := by
  obtain ⟨o', core, tail, h1, h2, h3⟩ := copy_shares_preseeded 2 exNs [(1, 1)] (.ref 0) fuel s' v' Aux.exNs_wf.1
    (by intro x hx; simp [targets] at hx; subst hx; rfl) (by simp; decide) Aux.exNs_wf.2 (by intro i e; cases e; decide) hr
    (by intro p hp q hq _; simp at hp hq; rw [hp, hq]) 0 j hm (by simp)
    { kind := .annotable, cls := "Node", fields := [("taxon", .ref 1)] } (by simp [exNs]) (by decide)
  refine ⟨o', h1, ?_⟩
  simp only [planFields] at h3
  cases h3 with
  | @cons _ b _ core' hab hrest =>
    cases hrest
    obtain ⟨k, x⟩ := b
    have hx := hab.2 1 1 rfl (by simp) (by intro ot hot; simp [exNs] at hot; subst hot; decide) (Or.inl (by decide))
    have hk := hab.1
    simp only at hx hk
    exact ⟨tail, by rw [h2, hx, hk]; rfl⟩

/-- a FORWARD-bound owner: node 0 has children A (1) and B (6); A's annotation (5) is bound to `length` of B, which the copy
traversal reaches only after A (with its annotations) is complete -/
def exFwd : Heap := #[
  { kind := .annotable, cls := "Node", fields := [("a", .ref 1), ("b", .ref 6)] },
  { kind := .annotable, cls := "Node", fields := [("_annotations", .ref 2)] },
  { kind := .annset, cls := "AnnotationSet", fields := [("_item_list", .ref 3), ("_item_set", .ref 4), ("target", .ref 1)] },
  { kind := .plain, cls := "list", fields := [("#0", .ref 5)] },
  { kind := .plain, cls := "set", fields := [("e0", .ref 5)] },
  { kind := .annotable, cls := "Annotation", fields := [("_value", .ref 7), ("is_attribute", .atom "True")] },
  { kind := .annotable, cls := "Node", fields := [("length", .atom "float:1.0")] },
  { kind := .tuple, cls := "tuple", fields := [("#0", .ref 6), ("#1", .atom "length")] }]
/-- the run: the annotation's copy (10) is bound to B's copy (12) — created while the annotation was being copied — and the root's
copy (8) refers to that same object 12 as its `b`, not to the source's B (6) -/
example : ∃ s' v', copyRoute exFwd [] (.ref 0) = .ok (s', v') ∧ boundValue s'.h 10 = some (.ref 12, .atom "length") ∧
    (5, 10) ∈ s'.m ∧ (6, 12) ∈ s'.m ∧
    s'.h[8]? = some { kind := .annotable, cls := "Node", fields := [("a", .ref 9), ("b", .ref 12)] } := by
  simp [copyRoute, preseed, cpVal, cpFields, cpItems, exFwd, planFields, annotationsRef, setFields, setField, setFieldL, List.lookup,
    itemFields, Obj.get, retarget, isBound, boundValue, attachAnnotations, pushAnnSet, dedupVals, indexed]
/-- the namespace-scoped route of `exNs` lists each key once: `route_memo_functional` / `route_shares_existing` apply -/
example : ([(1, PreTarget.existing 1)].map Prod.fst).Nodup := by simp

/-! ### the shallow routes (model and correspondence only; examples of what they share) -/

/-- a tree list holding one tree (object 2) in its `_trees` list (object 1); object 3 is the instance `TreeList.__copy__` has just
constructed (its own empty `_trees` list is object 4) -/
def exTl : Heap := #[
  { kind := .annotable, cls := "TreeList", fields := [("_label", .atom "str:a"), ("_trees", .ref 1)] },
  { kind := .plain, cls := "list", fields := [("#0", .ref 2)] },
  { kind := .annotable, cls := "Tree", fields := [("_label", .atom "None")] },
  { kind := .annotable, cls := "TreeList", fields := [("_label", .atom "str:a"), ("_trees", .ref 4)] },
  { kind := .plain, cls := "list", fields := [] }]
/-- `copy.copy(tree_list)`: a new list object (6) holding the SAME tree (2) inside a new `TreeList` (5) -/
example : ∃ s' , shallowMembers exTl 0 3 "_trees" = .ok (s', .ref 5) ∧
    s'.h[5]? = some { kind := .annotable, cls := "TreeList", fields := [("_label", .atom "str:a"), ("_trees", .ref 6)] } ∧
    s'.h[6]? = some { kind := .plain, cls := "list", fields := [("#0", .ref 2)] } := by
  simp [shallowMembers, exTl, Obj.get, List.lookup, setFieldL, annotationsRef]
/-- a namespace (0) with one taxon (2) in its `_taxa` list (1) -/
def exNsp : Heap := #[
  { kind := .namespace, cls := "TaxonNamespace", fields := [("_label", .atom "None"), ("_taxa", .ref 1)] },
  { kind := .plain, cls := "list", fields := [("#0", .ref 2)] },
  { kind := .taxon, cls := "Taxon", fields := [("_label", .atom "str:A")] }]
/-- `TaxonNamespace(ns)`: a new namespace (3) with a new `_taxa` list (4) holding the SAME taxon (2) -/
example : ∃ s', shallowNs exNsp 0 = .ok (s', .ref 3) ∧
    s'.h[3]? = some { kind := .namespace, cls := "TaxonNamespace", fields := [("_taxa", .ref 4), ("_label", .atom "None")] } ∧
    s'.h[4]? = some { kind := .plain, cls := "list", fields := [("#0", .ref 2)] } := by
  simp [shallowNs, exNsp, Obj.get, List.lookup, cpFields, cpVal, planFields, annotationsRef, setFields, seedSelf, itemVals]

/-- every old object as its own (shareable) image: the sharing a shallow copy is allowed -/
def preAll (h : Heap) : Memo := (List.range h.size).map (fun x => (x, x))

namespace Aux
theorem mem_targets_preAll {h : Heap} {x : Nat} (hx : x < h.size) : x ∈ targets (preAll h) := by
  simp only [targets, preAll, List.map_map]
  exact List.mem_map.mpr ⟨x, List.mem_range.mpr hx, rfl⟩

/-- the state `shallowMembers` starts the annotation copy from satisfies the copy invariant relative to the source heap, with every
old object declared shareable -/
theorem good_shallow_init (h : Heap) (hcl : Closed h) (src : Nat) (J lo : Obj)
    (hJ : ∀ f ∈ J.fields, ∀ k, f.2 = Val.ref k → k < h.size ∨ k = h.size + 1)
    (hlo : ∀ f ∈ lo.fields, ∀ k, f.2 = Val.ref k → k < h.size) :
    Good h.size h (preAll h) ⟨(h.push J).push lo, [(src, h.size)]⟩ where
  base := by simp; omega
  old := by
    intro x hx _
    simp [Array.getElem?_push]
    have h1 : x ≠ h.size + 1 := by omega
    have h2 : x ≠ h.size := by omega
    simp [h1, h2]
  fresh := by intro p hp; simp at hp; subst hp; exact Or.inr (Nat.le_refl _)
  newrefs := by
    intro j o hj hget f hf k hk
    have hlt : j < ((h.push J).push lo).size := lt_of_get hget
    simp at hlt
    by_cases e1 : j = h.size
    · subst e1
      have : ((h.push J).push lo)[h.size]? = some J := get_push2 h J lo
      rw [this] at hget; cases hget
      rcases hJ f hf k hk with h1 | h1
      · exact Or.inl (mem_targets_preAll h1)
      · exact Or.inr (by omega)
    · have e2 : j = h.size + 1 := by omega
      subst e2
      have : ((h.push J).push lo)[h.size + 1]? = some lo := by simp [Array.getElem_push]
      rw [this] at hget; cases hget
      exact Or.inl (mem_targets_preAll (hlo f hf k hk))
  lt := by intro _ p hp; simp at hp; subst hp; simp
  inj := by intro _ p q hp hq _ _; simp at hp hq; rw [hp, hq]
end Aux

/-- **shallow_members_frame_partial** (`TreeList.__copy__` / `CharacterMatrix.__copy__`, the function the driver runs): on a closed
exported heap a successful shallow copy returns the NEW object `h.size`; it writes to no old
object that is not an attribute-bound annotation — the source, its member container, the members, the namespace and the constructed
instance are untouched, i.e. the members are shared and never modified; every memo target is an old object mapped to itself or a new
object; and every object the route allocates (the copy, its new member container, the copied annotations) refers only to old
objects or to new ones.
PARTIAL — what is missing: that an old attribute-bound annotation is not re-targeted either (the invariant, which declares every old
object shareable, cannot exclude an identity entry for it in the memo), and the content of the new member container in the final
state (`lo` with the source's member references: true at allocation, see the `exTl` example; covered per case by the comparison with
the real copy). -/
theorem shallow_members_frame_partial (h : Heap) (hcl : Closed h) (src b : Nat) (mem : String) (s' : St) (v' : Val)
    (hr : shallowMembers h src b mem = .ok (s', v')) :
    v' = .ref h.size ∧
    (∀ x, x < h.size → isBound h x = false → s'.h[x]? = h[x]?) ∧
    (∀ p ∈ s'.m, p.1 = p.2 ∨ h.size ≤ p.2) ∧
    (∀ j o, h.size ≤ j → s'.h[j]? = some o → ∀ f ∈ o.fields, ∀ k, f.2 = .ref k → k < h.size ∨ h.size ≤ k) := by
  unfold shallowMembers at hr
  cases hs : h[src]? with
  | none => simp [hs] at hr
  | some o =>
    cases hb : h[b]? with
    | none => simp [hs, hb] at hr
    | some ob =>
      simp only [hs, hb] at hr
      cases hm : o.get mem with
      | none => simp [hm] at hr
      | some mv =>
        cases mv with
        | atom z => simp [hm] at hr
        | ref l =>
          simp only [hm] at hr
          cases hl : h[l]? with
          | none => simp [hl] at hr
          | some lo =>
            simp only [hl] at hr
            have g0 := good_shallow_init h hcl src { ob with fields := setFieldL mem (.ref (h.size + 1)) ob.fields } lo
              (by
                intro f hf k hk
                rcases mem_setFieldL' hf with e | e
                · subst e; simp at hk; exact Or.inr hk.symm
                · exact Or.inl (hcl b ob hb f e k hk))
              (fun f hf k hk => hcl l lo hl f hf k hk)
            have fin : ∀ sf : St, Good h.size h (preAll h) sf →
                (∀ x, x < h.size → isBound h x = false → sf.h[x]? = h[x]?) ∧
                (∀ p ∈ sf.m, p.1 = p.2 ∨ h.size ≤ p.2) ∧
                (∀ j o, h.size ≤ j → sf.h[j]? = some o → ∀ f ∈ o.fields, ∀ k, f.2 = .ref k → k < h.size ∨ h.size ≤ k) := by
              intro sf g
              refine ⟨?_, ?_, ?_⟩
              · intro x hx hnb
                exact g.old x hx (by intro hw; rw [hw.2] at hnb; cases hnb)
              · intro p hp
                rcases g.fresh p hp with h1 | h1
                · simp only [preAll, List.mem_map] at h1
                  obtain ⟨x, _, e⟩ := h1
                  subst e; exact Or.inl rfl
                · exact Or.inr h1
              · intro j oj hj hget f hf k hk
                by_cases hk' : k < h.size
                · exact Or.inl hk'
                · exact Or.inr (by omega)
            cases ha : annotationsRef o with
            | none =>
              simp only [ha] at hr
              simp at hr
              obtain ⟨e1, e2⟩ := hr
              subst e1; subst e2
              exact ⟨rfl, fin _ g0⟩
            | some a =>
              simp only [ha] at hr
              split at hr
              · rename_i ao items hao hit
                cases hc : cpItems (2 * h.size + 1) ⟨(h.push { ob with fields := setFieldL mem (.ref (h.size + 1)) ob.fields }).push lo,
                    [(src, h.size)]⟩ src h.size (items.map Prod.snd) with
                | error e => simp [hc] at hr
                | ok r =>
                  obtain ⟨s4, items'⟩ := r
                  simp only [hc] at hr
                  simp at hr
                  obtain ⟨e1, e2⟩ := hr
                  subst e1; subst e2
                  obtain ⟨g4, hfr⟩ := (pitems_of_pval (pval_all h.size h (preAll h) (2 * h.size + 1))) _ _ src h.size s4 items' g0
                    (Nat.le_refl _) hc
                  have g5 := good_attach g4 a ao.cls h.size (Nat.le_refl _) items' hfr
                  exact ⟨rfl, fin _ g5⟩
              · simp at hr

/-- the hypothesis of `shallow_members_frame_partial` holds of `exTl` (and the run exists: see the `exTl` example above) -/
example : Closed exTl := by
  intro i o hget f hf k hk
  have hi : i < 5 := lt_of_get hget
  have c5 : i = 0 ∨ i = 1 ∨ i = 2 ∨ i = 3 ∨ i = 4 := by omega
  have : k < 5 := by
    rcases c5 with rfl | rfl | rfl | rfl | rfl <;> simp [exTl] at hget <;> subst hget <;>
      exact srcVal_of_all 5 _ (by decide) f hf k hk
  simpa [exTl] using this

/-! ### tie A: the kernels regenerated from the source on every run equal the model's -/

/-- **planFields_bridge**: the copy plan of the model is the one the three attribute-wise `__deepcopy__` loops of the current source
implement (`Gen/C12Copy.lean`: which attributes each loop skips, what `TaxonNamespace.__deepcopy__` copies first; each generator run
also checks that `deep_copy_annotations_from` comes after the loop). -/
theorem planFields_bridge (o : Obj) :
    planFields o = match o.kind with
      | .annotable => o.fields.filter (fun f => !(C12Copy.skipAnnotable.contains f.1))
      | .taxon => o.fields.filter (fun f => !(C12Copy.skipTaxon.contains f.1))
      | .namespace => o.fields.filter (fun f => C12Copy.firstNamespace.contains f.1) ++
          o.fields.filter (fun f => !(C12Copy.skipNamespace.contains f.1))
      | _ => o.fields := by
  cases hk : o.kind <;> simp only [planFields, hk, C12Copy.skipAnnotable, C12Copy.skipTaxon, C12Copy.skipNamespace,
    C12Copy.firstNamespace]
  · congr 1; funext f; simp [bne, beq_eq_decide]
  · congr 1; funext f; simp [bne, beq_eq_decide]
  · congr 1
    · congr 1; funext f; simp [beq_eq_decide]
    · congr 1; funext f; simp [bne, beq_eq_decide]

/-- **cloneDepth_bridge**: `clone(depth)` selects the route the current source's `DataObject.clone` selects; every other depth is
refused. -/
theorem cloneDepth_bridge (d : Nat) :
    cloneDepth d = (C12Copy.cloneTable.lookup d).bind (fun s =>
      if s = "shallow" then some Depth.shallow else if s = "scoped" then some Depth.scoped else if s = "deep" then some Depth.deep
      else none) := by
  rcases d with _ | _ | _ | d <;> simp [cloneDepth, C12Copy.cloneTable, List.lookup]

/-- **retarget_bridge**: the re-targeting of the model (`retarget`: `isBound` of the COPY `j2`, owner of the SOURCE annotation `i1`
compared with the source owner; `attachAnnotations` registers the annotation set in the memo) and the self-seeding of the
namespace-scoped routes are those of the current source. -/
theorem retarget_bridge :
    C12Copy.retargetBoundTestOn = "copy" ∧ C12Copy.retargetOwnerTestOn = "source" ∧ C12Copy.registersAnnotationSet = true ∧
    C12Copy.seedsNamespace = true ∧ C12Copy.seedsTaxa = true := by decide

/-- **absorb_bridge**: the length arithmetic of the unifurcation branch of `extract` is the merge read off the current
`Node.extract_subtree` (`Gen/C08Kernels.lean`), and `extract_tree()` suppresses unifurcations by default (the harness's `extract`
route sends `1`). -/
theorem absorb_bridge (p c : Option Frac) :
    absorb p c = C08Kernels.mergeExtract c p ∧
    C08Kernels.defaults.lookup "extractTree.suppress_unifurcations" = some true := by
  refine ⟨?_, by decide⟩
  cases p <;> cases c <;> rfl

/-- a unary chain with lengths 1 and 2 above a leaf: the lengths are well-formed, so `extract_sup_pathsums` applies -/
example : LensWF (.node 0 none none none [.node 1 none (some ⟨1, 1⟩) none [.node 2 (some 0) (some ⟨2, 1⟩) none []]]) := by
  simp [LensWF, LensWFL, OWF]
example := extract_sup_pathsums (fun _ => "t") (fun _ => "-")
  (.node 0 none none none [.node 1 none (some ⟨1, 1⟩) none [.node 2 (some 0) (some ⟨2, 1⟩) none []]]) (by simp [LensWF, LensWFL, OWF])

end DendroModel.C12
