import DendroModel.Model.C12
/-! C12 — property theorems about the memo-driven copy model (`cpVal`/`cpFields`/`cpItems` of `Model/C12.lean`,
the definitions the driver runs).

`h` is the heap before the copy (its size `h.size` is "the next free id"), `pre` the pre-seeded memo of the route
(empty: deep copy; namespace and taxa ↦ themselves: namespace-scoped copy; namespace ↦ other namespace, taxa ↦
their label-matched taxa: copy into another namespace).  Property theorems live in `namespace DendroModel.C12`,
helper lemmas in `DendroModel.C12.Aux`. -/
namespace DendroModel.C12
open DendroModel

/-- the targets of a memo (`memo.values()`) -/
def targets (m : Memo) : List Nat := m.map Prod.snd

/-- objects the copy may write although they existed before: pre-seeded targets that are attribute-bound annotations
(`deep_copy_annotations_from` re-targets whatever the memo returns for a bound annotation of the source).  Empty for the
deep copy, and empty for the namespace-scoped routes, whose pre-seeded targets are the namespace and its taxa. -/
def Writable (h : Heap) (pre : Memo) (x : Nat) : Prop := x ∈ targets pre ∧ isBound h x = true

/-- a value "of the copy": a reference is either freshly allocated (`≥ b`) or a pre-seeded target -/
def FreshVal (b : Nat) (pre : Memo) (v : Val) : Prop := ∀ k, v = .ref k → k ∈ targets pre ∨ b ≤ k

/-- `x` is reachable from value `v` through references stored in fields -/
inductive Reach (h : Heap) : Val → Nat → Prop
  | root (i : Nat) : Reach h (.ref i) i
  | step {v : Val} {i k : Nat} {o : Obj} {f : String × Val} :
      Reach h v i → h[i]? = some o → f ∈ o.fields → f.2 = .ref k → Reach h v k

/-- every reference stored in an object of the heap points inside the heap (the exported source graph is closed) -/
def Closed (h : Heap) : Prop :=
  ∀ (i : Nat) (o : Obj), h[i]? = some o → ∀ f ∈ o.fields, ∀ k : Nat, f.2 = Val.ref k → k < h.size

namespace Aux

/-- the invariant of the copy, relative to the heap `h0` before the copy, `b = h0.size` and the pre-seeded memo -/
structure Good (b : Nat) (h0 : Heap) (pre : Memo) (s : St) : Prop where
  base : b ≤ s.h.size
  old : ∀ x, x < b → ¬ Writable h0 pre x → s.h[x]? = h0[x]?
  fresh : ∀ p ∈ s.m, p ∈ pre ∨ b ≤ p.2
  newrefs : ∀ j o, b ≤ j → s.h[j]? = some o → ∀ f ∈ o.fields, FreshVal b pre f.2
  /-- (when the pre-seeded targets exist) every memo target is an allocated object -/
  lt : (∀ p ∈ pre, p.2 < b) → ∀ p ∈ s.m, p.2 < s.h.size
  /-- (when the pre-seeded targets exist) a fresh target is the copy of one source only -/
  inj : (∀ p ∈ pre, p.2 < b) → ∀ p q, p ∈ s.m → q ∈ s.m → b ≤ p.2 → p.2 = q.2 → p.1 = q.1

theorem size_setField (h : Heap) (j : Nat) (n : String) (v : Val) : (setField h j n v).size = h.size := by
  unfold setField; split <;> simp
theorem size_setFields (h : Heap) (j : Nat) (fs : List (String × Val)) : (setFields h j fs).size = h.size := by
  unfold setFields; split <;> simp

theorem lookup_mem {m : Memo} {i j : Nat} (h : m.lookup i = some j) : (i, j) ∈ m := by
  induction m with
  | nil => simp at h
  | cons p r ih =>
    obtain ⟨a, c⟩ := p
    simp only [List.lookup] at h
    by_cases hia : i == a
    · simp [hia] at h; simp at hia; subst hia; subst h; simp
    · simp [hia] at h; exact List.mem_cons_of_mem _ (ih h)

theorem freshVal_atom (b : Nat) (pre : Memo) (a : String) : FreshVal b pre (.atom a) := by
  intro k hk; cases hk

theorem freshVal_new {b : Nat} (pre : Memo) {j : Nat} (h : b ≤ j) : FreshVal b pre (.ref j) := by
  intro k hk; cases hk; exact Or.inr h

theorem freshVal_of_memo {b : Nat} {h0 : Heap} {pre : Memo} {s : St} (g : Good b h0 pre s) {i j : Nat}
    (h : s.m.lookup i = some j) : FreshVal b pre (.ref j) := by
  intro k hk; cases hk
  rcases g.fresh _ (lookup_mem h) with hp | hb
  · left; exact List.mem_map.mpr ⟨_, hp, rfl⟩
  · exact Or.inr hb

theorem mem_setFieldL {name : String} {v : Val} {fs : List (String × Val)} {f : String × Val}
    (h : f ∈ setFieldL name v fs) : f.2 = v ∨ f ∈ fs := by
  induction fs with
  | nil => simp [setFieldL] at h; subst h; exact Or.inl rfl
  | cons p r ih =>
    obtain ⟨k, x⟩ := p
    simp only [setFieldL] at h
    by_cases hk : k == name
    · simp [hk] at h
      rcases h with h | h
      · subst h; exact Or.inl rfl
      · exact Or.inr (List.mem_cons_of_mem _ h)
    · simp [hk] at h
      rcases h with h | h
      · subst h; exact Or.inr (by simp)
      · rcases ih h with h | h
        · exact Or.inl h
        · exact Or.inr (List.mem_cons_of_mem _ h)

theorem mem_dedupVals {l : List Val} {v : Val} (h : v ∈ dedupVals l) : v ∈ l := by
  induction l with
  | nil => simp [dedupVals] at h
  | cons x r ih =>
    rw [dedupVals] at h
    split at h
    · exact List.mem_cons_of_mem _ (ih h)
    · rcases List.mem_cons.mp h with h | h
      · subst h; simp
      · exact List.mem_cons_of_mem _ (ih h)

theorem mem_indexed {pre : String} {k : Nat} {l : List Val} {f : String × Val} (h : f ∈ indexed pre k l) : f.2 ∈ l := by
  induction l generalizing k with
  | nil => simp [indexed] at h
  | cons x r ih =>
    simp only [indexed, List.mem_cons] at h
    rcases h with h | h
    · subst h; simp
    · exact List.mem_cons_of_mem _ (ih h)

theorem mem_dedup_rev {l : List Val} {v : Val} (h : v ∈ (dedupVals l.reverse).reverse) : v ∈ l := by
  have := mem_dedupVals (List.mem_reverse.mp h)
  exact List.mem_reverse.mp this

/-- allocation of an object whose fields are values of the copy -/
theorem good_push {b : Nat} {h0 : Heap} {pre : Memo} {s : St} (g : Good b h0 pre s) (o : Obj)
    (ho : ∀ f ∈ o.fields, FreshVal b pre f.2) : Good b h0 pre ⟨s.h.push o, s.m⟩ where
  base := by have := g.base; simp; omega
  old := by
    intro x hx hw
    have := g.base
    rw [← g.old x hx hw]
    simp [Array.getElem?_push]
    intro hxs; omega
  fresh := g.fresh
  newrefs := by
    intro j o' hj hget f hf
    simp only [Array.getElem?_push] at hget
    by_cases hjs : j = s.h.size
    · simp [hjs] at hget; subst hget; exact ho f hf
    · simp [hjs] at hget; exact g.newrefs j o' hj hget f hf
  lt := by
    intro hp p hm
    have := g.lt hp p hm
    simp; omega
  inj := g.inj

theorem good_memo {b : Nat} {h0 : Heap} {pre : Memo} {s : St} (g : Good b h0 pre s) (i j : Nat) (hj : b ≤ j)
    (hjlt : j < s.h.size) (hjnew : (∀ p ∈ pre, p.2 < b) → ∀ p ∈ s.m, p.2 ≠ j) :
    Good b h0 pre ⟨s.h, (i, j) :: s.m⟩ where
  base := g.base
  old := g.old
  fresh := by
    intro p hp
    rcases List.mem_cons.mp hp with h | h
    · subst h; exact Or.inr hj
    · exact g.fresh p h
  newrefs := g.newrefs
  lt := by
    intro hp p hm
    rcases List.mem_cons.mp hm with h | h
    · subst h; exact hjlt
    · exact g.lt hp p h
  inj := by
    intro hp p q hpm hqm hb he
    rcases List.mem_cons.mp hpm with h1 | h1 <;> rcases List.mem_cons.mp hqm with h2 | h2
    · subst h1; subst h2; rfl
    · subst h1; exact absurd he.symm (hjnew hp q h2)
    · subst h2; exact absurd he (hjnew hp p h1)
    · exact g.inj hp p q h1 h2 hb he

/-- overwriting the fields of a fresh object with values of the copy -/
theorem good_setFields {b : Nat} {h0 : Heap} {pre : Memo} {s : St} (g : Good b h0 pre s) (j : Nat) (hj : b ≤ j)
    (fs : List (String × Val)) (hfs : ∀ f ∈ fs, FreshVal b pre f.2) : Good b h0 pre ⟨setFields s.h j fs, s.m⟩ := by
  unfold setFields
  cases hget : s.h[j]? with
  | none => simpa using g
  | some o =>
    simp only
    refine ⟨?_, ?_, g.fresh, ?_, ?_, g.inj⟩
    rotate_right
    · intro hp p hm; have := g.lt hp p hm; simpa using this
    · have := g.base; simpa using this
    · intro x hx hw
      rw [← g.old x hx hw]
      have : j ≠ x := by omega
      simp [Array.getElem?_setIfInBounds, this]
    · intro j' o' hj' hget' f hf
      simp only [Array.getElem?_setIfInBounds] at hget'
      have hlt : j < s.h.size := (Array.getElem?_eq_some_iff.mp hget).1
      by_cases hjj : j = j'
      · subst hjj
        simp [hlt] at hget'; subst hget'; exact hfs f hf
      · simp [hjj] at hget'; exact g.newrefs j' o' hj' hget' f hf

/-- `obj.__dict__[name] = v` with a value of the copy, on an object that is fresh or writable -/
theorem good_setField {b : Nat} {h0 : Heap} {pre : Memo} {s : St} (g : Good b h0 pre s) (j : Nat)
    (hj : b ≤ j ∨ Writable h0 pre j) (name : String) (v : Val) (hv : FreshVal b pre v) :
    Good b h0 pre ⟨setField s.h j name v, s.m⟩ := by
  unfold setField
  cases hget : s.h[j]? with
  | none => simpa using g
  | some o =>
    simp only
    refine ⟨?_, ?_, g.fresh, ?_, ?_, g.inj⟩
    rotate_right
    · intro hp p hm; have := g.lt hp p hm; simpa using this
    · have := g.base; simpa using this
    · intro x hx hw
      rw [← g.old x hx hw]
      have : j ≠ x := by
        intro e; subst e
        rcases hj with h | h
        · omega
        · exact hw h
      simp [Array.getElem?_setIfInBounds, this]
    · intro j' o' hj' hget' f hf
      simp only [Array.getElem?_setIfInBounds] at hget'
      have hlt : j < s.h.size := (Array.getElem?_eq_some_iff.mp hget).1
      by_cases hjj : j = j'
      · subst hjj
        simp [hlt] at hget'; subst hget'
        rcases mem_setFieldL hf with h | h
        · rw [h]; exact hv
        · exact g.newrefs j o hj' hget f h
      · simp [hjj] at hget'; exact g.newrefs j' o' hj' hget' f hf

theorem isBound_congr {h1 h2 : Heap} {j : Nat} (e : h1[j]? = h2[j]?) : isBound h1 j = isBound h2 j := by
  unfold isBound; rw [e]

theorem good_retarget {b : Nat} {h0 : Heap} {pre : Memo} {s : St} (g : Good b h0 pre s) (i j : Nat) (hj : b ≤ j)
    (a1 a2 : Val) (ha2 : FreshVal b pre a2) : Good b h0 pre (retarget s i j a1 a2) := by
  unfold retarget
  split
  · rename_i i1 j2
    split
    · rename_i hb
      split
      · rename_i ow nm hbv
        split
        · -- the write: j2 is fresh, or a writable pre-seeded target
          have hj2 : b ≤ j2 ∨ Writable h0 pre j2 := by
            rcases ha2 j2 rfl with hp | hge
            · by_cases hlt : j2 < b
              · by_cases hw : Writable h0 pre j2
                · exact Or.inr hw
                · have e := g.old j2 hlt hw
                  have : isBound h0 j2 = true := by rw [← isBound_congr e]; exact hb
                  exact Or.inr ⟨hp, this⟩
              · exact Or.inl (by omega)
            · exact Or.inl hge
          have g1 := good_push g (Obj.mk .tuple "tuple" ([("#0", .ref j), ("#1", .atom nm)])) (by
            intro f hf
            simp at hf
            rcases hf with hf | hf
            · subst hf; exact freshVal_new pre hj
            · subst hf; exact freshVal_atom b pre nm)
          exact good_setField g1 j2 hj2 "_value" (.ref s.h.size) (freshVal_new pre g.base)
        · exact g
      · exact g
    · exact g
  · exact g

theorem good_attach {b : Nat} {h0 : Heap} {pre : Memo} {s : St} (g : Good b h0 pre s) (a : Nat) (cls : String) (j : Nat)
    (hj : b ≤ j) (items : List Val) (hit : ∀ v ∈ items, FreshVal b pre v) :
    Good b h0 pre (attachAnnotations s a cls j items) := by
  unfold attachAnnotations
  split
  · exact g
  · simp only [pushAnnSet]
    have hb := g.base
    have g1 := good_push g (Obj.mk .plain "list" (indexed "#" 0 (dedupVals items.reverse).reverse)) (by
      intro f hf; exact hit _ (mem_dedup_rev (mem_indexed hf)))
    have g2 := good_push g1 (Obj.mk .plain "set" (indexed "e" 0 (dedupVals items.reverse).reverse)) (by
      intro f hf; exact hit _ (mem_dedup_rev (mem_indexed hf)))
    have g3 := good_push g2 (Obj.mk .annset cls
        [("_item_list", Val.ref s.h.size), ("_item_set", Val.ref (s.h.size + 1)), ("target", Val.ref j)]) (by
      intro f hf
      simp at hf
      rcases hf with hf | hf | hf
      · subst hf; exact freshVal_new pre hb
      · subst hf; exact freshVal_new pre (by omega)
      · subst hf; exact freshVal_new pre hj)
    have g4 := good_setField g3 j (Or.inl hj) "_annotations" (.ref (s.h.size + 2)) (freshVal_new pre (by omega))
    exact good_memo g4 a (s.h.size + 2) (by omega) (by simp [size_setField])
      (fun hp p hm => by have := g.lt hp p hm; omega)

/-- postconditions of the three mutually recursive copy functions -/
def PVal (b : Nat) (h0 : Heap) (pre : Memo) (fuel : Nat) : Prop :=
  ∀ s v s' v', Good b h0 pre s → cpVal fuel s v = .ok (s', v') → Good b h0 pre s' ∧ FreshVal b pre v'
def PFields (b : Nat) (h0 : Heap) (pre : Memo) (fuel : Nat) : Prop :=
  ∀ fs s s' fs', Good b h0 pre s → cpFields fuel s fs = .ok (s', fs') → Good b h0 pre s' ∧ ∀ f ∈ fs', FreshVal b pre f.2
def PItems (b : Nat) (h0 : Heap) (pre : Memo) (fuel : Nat) : Prop :=
  ∀ items s i j s' items', Good b h0 pre s → b ≤ j → cpItems fuel s i j items = .ok (s', items') →
    Good b h0 pre s' ∧ ∀ v ∈ items', FreshVal b pre v

theorem pfields_of_pval {b : Nat} {h0 : Heap} {pre : Memo} {fuel : Nat} (hp : PVal b h0 pre fuel) : PFields b h0 pre fuel := by
  intro fs
  induction fs with
  | nil =>
    intro s s' fs' g h
    simp [cpFields] at h
    obtain ⟨h1, h2⟩ := h; subst h1; subst h2
    exact ⟨g, by simp⟩
  | cons kv r ih =>
    intro s s' fs' g h
    obtain ⟨k, v⟩ := kv
    simp only [cpFields] at h
    cases h1 : cpVal fuel s v with
    | error e => simp [h1] at h
    | ok r1 =>
      obtain ⟨s1, v1⟩ := r1
      simp only [h1] at h
      cases h2 : cpFields fuel s1 r with
      | error e => simp [h2] at h
      | ok r2 =>
        obtain ⟨s2, r'⟩ := r2
        simp only [h2] at h
        simp at h
        obtain ⟨e1, e2⟩ := h; subst e1; subst e2
        obtain ⟨g1, f1⟩ := hp s v s1 v1 g h1
        obtain ⟨g2, f2⟩ := ih s1 s2 r' g1 h2
        refine ⟨g2, ?_⟩
        intro f hf
        rcases List.mem_cons.mp hf with hf | hf
        · subst hf; exact f1
        · exact f2 f hf

theorem pitems_of_pval {b : Nat} {h0 : Heap} {pre : Memo} {fuel : Nat} (hp : PVal b h0 pre fuel) : PItems b h0 pre fuel := by
  intro items
  induction items with
  | nil =>
    intro s i j s' items' g hj h
    simp [cpItems] at h
    obtain ⟨h1, h2⟩ := h; subst h1; subst h2
    exact ⟨g, by simp⟩
  | cons a1 r ih =>
    intro s i j s' items' g hj h
    simp only [cpItems] at h
    cases h1 : cpVal fuel s a1 with
    | error e => simp [h1] at h
    | ok r1 =>
      obtain ⟨s1, a2⟩ := r1
      simp only [h1] at h
      cases h2 : cpItems fuel (retarget s1 i j a1 a2) i j r with
      | error e => simp [h2] at h
      | ok r2 =>
        obtain ⟨s2, r'⟩ := r2
        simp only [h2] at h
        simp at h
        obtain ⟨e1, e2⟩ := h; subst e1; subst e2
        obtain ⟨g1, f1⟩ := hp s a1 s1 a2 g h1
        obtain ⟨g2, f2⟩ := ih (retarget s1 i j a1 a2) i j s2 r' (good_retarget g1 i j hj a1 a2 f1) hj h2
        refine ⟨g2, ?_⟩
        intro v hv
        rcases List.mem_cons.mp hv with hv | hv
        · subst hv; exact f1
        · exact f2 v hv

theorem pval_zero (b : Nat) (h0 : Heap) (pre : Memo) : PVal b h0 pre 0 := by
  intro s v s' v' g h
  cases v with
  | atom a =>
    simp [cpVal] at h
    obtain ⟨e1, e2⟩ := h; subst e1; subst e2
    exact ⟨g, freshVal_atom b pre a⟩
  | ref i =>
    simp only [cpVal] at h
    cases hl : s.m.lookup i with
    | none => simp [hl] at h
    | some j =>
      simp [hl] at h
      obtain ⟨e1, e2⟩ := h; subst e1; subst e2
      exact ⟨g, freshVal_of_memo g hl⟩

theorem pval_succ {b : Nat} {h0 : Heap} {pre : Memo} {fuel : Nat} (hp : PVal b h0 pre fuel) : PVal b h0 pre (fuel + 1) := by
  have hq := pfields_of_pval hp
  have hr := pitems_of_pval hp
  intro s v s' v' g h
  cases v with
  | atom a =>
    simp [cpVal] at h
    obtain ⟨e1, e2⟩ := h; subst e1; subst e2
    exact ⟨g, freshVal_atom b pre a⟩
  | ref i =>
    simp only [cpVal] at h
    cases hl : s.m.lookup i with
    | some j =>
      simp [hl] at h
      obtain ⟨e1, e2⟩ := h; subst e1; subst e2
      exact ⟨g, freshVal_of_memo g hl⟩
    | none =>
      simp only [hl] at h
      cases ho : s.h[i]? with
      | none => simp [ho] at h
      | some o =>
        simp only [ho] at h
        split at h
        · -- AnnotationSet.__deepcopy__
          split at h
          · rename_i tv items htv hitems
            cases h1 : cpVal fuel s tv with
            | error e => simp [h1] at h
            | ok r1 =>
              obtain ⟨s1, tv'⟩ := r1
              simp only [h1] at h
              obtain ⟨g1, ft⟩ := hp s tv s1 tv' g h1
              have hb1 := g1.base
              have g2 := good_memo (good_push g1 (Obj.mk .annset o.cls ([])) (by simp)) i s1.h.size hb1 (by simp)
                (fun hp p hm => Nat.ne_of_lt (g1.lt hp p hm))
              cases h2 : cpFields fuel ⟨s1.h.push (Obj.mk .annset o.cls []), (i, s1.h.size) :: s1.m⟩ items with
              | error e => simp [h2] at h
              | ok r2 =>
                obtain ⟨s3, items'⟩ := r2
                simp only [h2] at h
                simp at h
                obtain ⟨e1, e2⟩ := h; subst e1; subst e2
                obtain ⟨g3, fi⟩ := hq items _ s3 items' g2 h2
                have hb3 := g3.base
                have hvals : ∀ v ∈ (dedupVals (items'.map Prod.snd).reverse).reverse, FreshVal b pre v := by
                  intro v hv
                  have := mem_dedup_rev hv
                  obtain ⟨f, hf, e⟩ := List.mem_map.mp this
                  subst e; exact fi f hf
                have g4 := good_push g3 (Obj.mk .plain "list" (indexed "#" 0 (dedupVals (items'.map Prod.snd).reverse).reverse)) (by
                  intro f hf; exact hvals _ (mem_indexed hf))
                have g5 := good_push g4 (Obj.mk .plain "set" (indexed "e" 0 (dedupVals (items'.map Prod.snd).reverse).reverse)) (by
                  intro f hf; exact hvals _ (mem_indexed hf))
                refine ⟨good_setFields g5 s1.h.size hb1 _ ?_, freshVal_new pre hb1⟩
                intro f hf
                simp at hf
                rcases hf with hf | hf | hf
                · subst hf; exact freshVal_new pre hb3
                · subst hf; exact freshVal_new pre (by omega)
                · subst hf; exact ft
          · simp at h
        · -- attribute-wise copy; annotations last
          have hb := g.base
          have g1 := good_memo (good_push g { o with fields := [] } (by simp)) i s.h.size hb (by simp)
            (fun hp p hm => Nat.ne_of_lt (g.lt hp p hm))
          cases h1 : cpFields fuel ⟨s.h.push { o with fields := [] }, (i, s.h.size) :: s.m⟩ (planFields o) with
          | error e => simp [h1] at h
          | ok r1 =>
            obtain ⟨s2, fs'⟩ := r1
            simp only [h1] at h
            obtain ⟨g2, ff⟩ := hq _ _ s2 fs' g1 h1
            have g3 := good_setFields g2 s.h.size hb fs' ff
            split at h
            · simp at h
              obtain ⟨e1, e2⟩ := h; subst e1; subst e2
              exact ⟨g3, freshVal_new pre hb⟩
            · rename_i a ha
              split at h
              · rename_i ao items hao hitems
                cases h2 : cpItems fuel ⟨setFields s2.h s.h.size fs', s2.m⟩ i s.h.size (items.map Prod.snd) with
                | error e => simp [h2] at h
                | ok r2 =>
                  obtain ⟨s4, items'⟩ := r2
                  simp only [h2] at h
                  simp at h
                  obtain ⟨e1, e2⟩ := h; subst e1; subst e2
                  obtain ⟨g4, fi⟩ := hr _ _ i s.h.size s4 items' g3 hb h2
                  exact ⟨good_attach g4 a ao.cls s.h.size hb items' fi, freshVal_new pre hb⟩
              · simp at h

theorem pval_all (b : Nat) (h0 : Heap) (pre : Memo) : ∀ fuel, PVal b h0 pre fuel
  | 0 => pval_zero b h0 pre
  | fuel + 1 => pval_succ (pval_all b h0 pre fuel)

theorem good_init (h : Heap) (pre : Memo) : Good h.size h pre ⟨h, pre⟩ where
  base := Nat.le_refl _
  old := fun _ _ _ => rfl
  fresh := fun p hp => Or.inl hp
  newrefs := by
    intro j o hj hget
    have : h[j]? = none := by simp; omega
    rw [this] at hget; cases hget
  lt := fun hp p hm => hp p hm
  inj := by
    intro hp p q hpm _ hb _
    have := hp p hpm; omega

/-- what `preseed` guarantees about the state `cpVal` starts from (relative to the exported heap `h`) -/
structure PreInv (h : Heap) (pre : List (Nat × PreTarget)) (s : St) : Prop where
  size : h.size ≤ s.h.size
  old : ∀ x, x < h.size → s.h[x]? = h[x]?
  lt : ∀ p ∈ s.m, p.2 < s.h.size
  tgt : ∀ t ∈ targets s.m, (∃ i, (i, PreTarget.existing t) ∈ pre) ∨ h.size ≤ t
  newUnbound : ∀ x, h.size ≤ x → isBound s.h x = false

theorem preinv_init (h : Heap) (pre : List (Nat × PreTarget)) : PreInv h pre ⟨h, []⟩ where
  size := Nat.le_refl _
  old := fun _ _ => rfl
  lt := by intro p hp; cases hp
  tgt := by intro t ht; simp [targets] at ht
  newUnbound := by
    intro x hx
    have : h[x]? = none := by simp; omega
    simp [isBound, this]

theorem isBound_push_lt (h : Heap) (o : Obj) (x : Nat) (hx : x < h.size) : isBound (h.push o) x = isBound h x := by
  apply isBound_congr; simp [Array.getElem?_push]; omega

theorem preseed_inv (h : Heap) (pre : List (Nat × PreTarget)) : ∀ (r : List (Nat × PreTarget)) (s s0 : St),
    PreInv h pre s → (∀ e ∈ r, e ∈ pre) → preseed s r = .ok s0 → PreInv h pre s0 := by
  intro r
  induction r with
  | nil => intro s s0 g _ hr; simp [preseed] at hr; subst hr; exact g
  | cons e r ih =>
    intro s s0 g hsub hr
    obtain ⟨i, t⟩ := e
    have hsub' : ∀ e ∈ r, e ∈ pre := fun e he => hsub e (List.mem_cons_of_mem _ he)
    cases t with
    | existing j =>
      simp only [preseed] at hr
      by_cases hj : j < s.h.size
      · simp only [hj, if_true] at hr
        refine ih ⟨s.h, (i, j) :: s.m⟩ s0 ⟨g.size, g.old, ?_, ?_, g.newUnbound⟩ hsub' hr
        · intro p hp
          rcases List.mem_cons.mp hp with e | e
          · subst e; exact hj
          · exact g.lt p e
        · intro t ht
          simp only [targets, List.map_cons, List.mem_cons] at ht
          rcases ht with e | e
          · subst e; exact Or.inl ⟨i, hsub _ (by simp)⟩
          · exact g.tgt t e
      · simp [hj] at hr
    | sameAs k =>
      simp only [preseed] at hr
      cases hl : s.m.lookup k with
      | none => simp [hl] at hr
      | some j =>
        simp only [hl] at hr
        have hmem := lookup_mem hl
        refine ih ⟨s.h, (i, j) :: s.m⟩ s0 ⟨g.size, g.old, ?_, ?_, g.newUnbound⟩ hsub' hr
        · intro p hp
          rcases List.mem_cons.mp hp with e | e
          · subst e; exact g.lt (k, j) hmem
          · exact g.lt p e
        · intro t ht
          simp only [targets, List.map_cons, List.mem_cons] at ht
          rcases ht with e | e
          · rw [e]; exact g.tgt j (List.mem_map.mpr ⟨(k, j), hmem, rfl⟩)
          · exact g.tgt t e
    | fresh =>
      simp only [preseed] at hr
      cases ho : s.h[i]? with
      | none => simp [ho] at hr
      | some o =>
        simp only [ho] at hr
        cases hlab : o.get "_label" with
        | none => simp [hlab] at hr
        | some lab =>
          simp only [hlab, newTaxon] at hr
          have hsz := g.size
          have step := fun g' => ih _ s0 g' hsub' hr
          apply step
          refine ⟨?_, ?_, ?_, ?_, ?_⟩
          · simp; omega
          · intro x hx
            rw [← g.old x hx]
            simp [Array.getElem?_push]
            have h1 : x ≠ s.h.size + 1 := by omega
            have h2 : x ≠ s.h.size := by omega
            simp [h1, h2]
          · intro p hp
            rcases List.mem_cons.mp hp with e | e
            · subst e; simp
            · have := g.lt p e; simp; omega
          · intro t ht
            simp only [targets, List.map_cons, List.mem_cons] at ht
            rcases ht with e | e
            · subst e; exact Or.inr (by omega)
            · exact g.tgt t e
          · intro x hx
            by_cases h1 : x < s.h.size
            · rw [isBound_push_lt _ _ _ (by simp; omega), isBound_push_lt _ _ _ h1]; exact g.newUnbound x hx
            · by_cases h2 : x = s.h.size
              · subst h2
                rw [isBound_push_lt _ _ _ (by simp)]
                simp [isBound, Obj.get, List.lookup]
              · by_cases h3 : x = s.h.size + 1
                · subst h3
                  have e : ∀ (a : Heap) (o1 o2 : Obj), ((a.push o1).push o2)[a.size + 1]? = some o2 := by
                    intro a o1 o2; simp [Array.getElem_push]
                  unfold isBound
                  dsimp only
                  rw [e]
                  simp [Obj.get, List.lookup]
                · unfold isBound
                  dsimp only
                  rw [Array.getElem?_eq_none (by simp; omega)]

end Aux

open Aux

/-! ## the property theorems -/

/-- **copy_fresh**: every object the copy maps a source object to is either a pre-seeded target or freshly allocated
(`≥ h.size`); in particular nothing of the source is reused unless the route's pre-seeding says so. -/
theorem copy_fresh (fuel : Nat) (h : Heap) (pre : Memo) (v : Val) (s' : St) (v' : Val)
    (hr : cpVal fuel ⟨h, pre⟩ v = .ok (s', v')) :
    ∀ p ∈ s'.m, p ∈ pre ∨ h.size ≤ p.2 :=
  ((pval_all h.size h pre fuel) _ _ _ _ (good_init h pre) hr).1.fresh

/-- **copy_no_write**: the copy never writes to an object that existed before, except possibly to a pre-seeded target that
is an attribute-bound annotation (re-targeting). -/
theorem copy_no_write (fuel : Nat) (h : Heap) (pre : Memo) (v : Val) (s' : St) (v' : Val)
    (hr : cpVal fuel ⟨h, pre⟩ v = .ok (s', v')) :
    ∀ x, x < h.size → ¬ Writable h pre x → s'.h[x]? = h[x]? :=
  ((pval_all h.size h pre fuel) _ _ _ _ (good_init h pre) hr).1.old

/-- deep copy (empty memo): the source heap is untouched. -/
theorem copy_no_write_deep (fuel : Nat) (h : Heap) (v : Val) (s' : St) (v' : Val)
    (hr : cpVal fuel ⟨h, []⟩ v = .ok (s', v')) :
    ∀ x, x < h.size → s'.h[x]? = h[x]? := by
  intro x hx
  exact copy_no_write fuel h [] v s' v' hr x hx (by intro hw; simp [Writable, targets] at hw)

/-- namespace-scoped copy: if no pre-seeded target is a bound annotation (the targets are the namespace and its taxa),
the whole heap that existed before — source, namespace and taxa — is untouched. -/
theorem copy_no_write_scoped (fuel : Nat) (h : Heap) (pre : Memo) (v : Val) (s' : St) (v' : Val)
    (hpre : ∀ x ∈ targets pre, isBound h x = false)
    (hr : cpVal fuel ⟨h, pre⟩ v = .ok (s', v')) :
    ∀ x, x < h.size → s'.h[x]? = h[x]? := by
  intro x hx
  exact copy_no_write fuel h pre v s' v' hr x hx (by
    intro hw; have := hpre x hw.1; rw [hw.2] at this; cases this)

/-- **copy_disjoint** (local form): the value returned and every reference stored in an object allocated by the copy is
either fresh or a pre-seeded target — the copy points into the old heap only through the pre-seeded range. -/
theorem copy_disjoint (fuel : Nat) (h : Heap) (pre : Memo) (v : Val) (s' : St) (v' : Val)
    (hr : cpVal fuel ⟨h, pre⟩ v = .ok (s', v')) :
    FreshVal h.size pre v' ∧
    ∀ j o, h.size ≤ j → s'.h[j]? = some o → ∀ f ∈ o.fields, FreshVal h.size pre f.2 :=
  let r := (pval_all h.size h pre fuel) _ _ _ _ (good_init h pre) hr
  ⟨r.2, r.1.newrefs⟩

/-- **copy_disjoint** (reachability form, "shares exactly the pre-seeded range"): an old object reachable from the copy
is reachable from a pre-seeded target. -/
theorem copy_shares_only_preseeded (fuel : Nat) (h : Heap) (pre : Memo) (v : Val) (s' : St) (v' : Val)
    (hr : cpVal fuel ⟨h, pre⟩ v = .ok (s', v')) :
    ∀ x, Reach s'.h v' x → x < h.size → ∃ r ∈ targets pre, Reach s'.h (.ref r) x := by
  obtain ⟨hv, hnew⟩ := copy_disjoint fuel h pre v s' v' hr
  clear hr
  intro x hx
  induction hx with
  | root i =>
    intro hlt
    rcases hv i rfl with hp | hge
    · exact ⟨i, hp, Reach.root i⟩
    · omega
  | @step v0 i k o f hri hget hf hfk ih =>
    intro hlt
    by_cases hi : i < h.size
    · obtain ⟨r, hr1, hr2⟩ := ih hv hi
      exact ⟨r, hr1, Reach.step hr2 hget hf hfk⟩
    · rcases hnew i o (by omega) hget f hf k hfk with hp | hge
      · exact ⟨k, hp, Reach.root k⟩
      · omega

/-- deep copy: nothing that existed before is reachable from the copy — it shares no part with its source. -/
theorem deep_copy_shares_nothing (fuel : Nat) (h : Heap) (v : Val) (s' : St) (v' : Val)
    (hr : cpVal fuel ⟨h, []⟩ v = .ok (s', v')) :
    ∀ x, Reach s'.h v' x → h.size ≤ x := by
  intro x hx
  by_cases hlt : x < h.size
  · obtain ⟨r, hr1, _⟩ := copy_shares_only_preseeded fuel h [] v s' v' hr x hx hlt
    simp [targets] at hr1
  · omega

/-- **frame, source side**: any later write (an arbitrary replacement `o'` of the object) to an old object `x` that is not
reachable from a pre-seeded target leaves the copy untouched: the same objects are reachable from the copy and each of
them is unchanged. -/
theorem frame_source_write (fuel : Nat) (h : Heap) (pre : Memo) (v : Val) (s' : St) (v' : Val)
    (hr : cpVal fuel ⟨h, pre⟩ v = .ok (s', v'))
    (x : Nat) (hx : x < h.size) (hnot : ∀ r ∈ targets pre, ¬ Reach s'.h (.ref r) x) (o' : Obj) :
    ∀ y, (Reach (s'.h.setIfInBounds x o') v' y ↔ Reach s'.h v' y) ∧
         (Reach s'.h v' y → (s'.h.setIfInBounds x o')[y]? = s'.h[y]?) := by
  have hne : ∀ y, Reach s'.h v' y → y ≠ x := by
    intro y hy e; subst e
    obtain ⟨r, hr1, hr2⟩ := copy_shares_only_preseeded fuel h pre v s' v' hr y hy hx
    exact hnot r hr1 hr2
  have hsame : ∀ y, Reach s'.h v' y → (s'.h.setIfInBounds x o')[y]? = s'.h[y]? := by
    intro y hy
    have := hne y hy
    simp [Array.getElem?_setIfInBounds, Ne.symm this]
  clear hne hr
  intro y
  refine ⟨⟨?_, ?_⟩, hsame y⟩
  · intro hy
    induction hy with
    | root i => exact Reach.root i
    | step _ hget hf hfk ih => exact Reach.step (ih hsame) (by rw [← hsame _ (ih hsame)]; exact hget) hf hfk
  · intro hy
    induction hy with
    | root i => exact Reach.root i
    | step hri hget hf hfk ih => exact Reach.step (ih hsame) (by rw [hsame _ hri]; exact hget) hf hfk

/-- **frame, copy side**: any later write to an object allocated by the copy leaves every old object unchanged, and — when the
source heap is closed and no pre-seeded target is writable — everything reachable from any old object stays old and unchanged:
no change of the copy is visible through the source. -/
theorem frame_copy_write (fuel : Nat) (h : Heap) (pre : Memo) (v : Val) (s' : St) (v' : Val)
    (hclosed : Closed h) (hpre : ∀ x ∈ targets pre, isBound h x = false)
    (hr : cpVal fuel ⟨h, pre⟩ v = .ok (s', v'))
    (y : Nat) (hy : h.size ≤ y) (o' : Obj) (r : Nat) (hrlt : r < h.size) :
    ∀ x, Reach (s'.h.setIfInBounds y o') (.ref r) x → x < h.size ∧ (s'.h.setIfInBounds y o')[x]? = h[x]? := by
  have hold := copy_no_write_scoped fuel h pre v s' v' hpre hr
  have hsame : ∀ x, x < h.size → (s'.h.setIfInBounds y o')[x]? = h[x]? := by
    intro x hx
    have : y ≠ x := by omega
    simp [Array.getElem?_setIfInBounds, this, hold x hx]
  intro x hx
  generalize hv : Val.ref r = v0 at hx
  induction hx with
  | root i => cases hv; exact ⟨hrlt, hsame _ hrlt⟩
  | step _ hget hf hfk ih =>
    obtain ⟨hi, _⟩ := ih hv
    rw [hsame _ hi] at hget
    have := hclosed _ _ hget _ hf _ hfk
    exact ⟨this, hsame _ this⟩

/-- **retarget_step_partial**: the re-targeting step of `deep_copy_annotations_from` binds the copied annotation to the copy
`j` (same attribute name) when its source was bound to the source owner `i`.
PARTIAL: this is a statement about the single step `retarget`, immediately after it. What is missing for the clause "bound
annotations of the copy follow the copy's attributes": that in the FINAL state of `cpVal` every bound annotation of the copy
whose source was bound to `i` is bound to `memo(i)` — later steps could in principle overwrite `_value` again (they do not
on any of the compared cases; the harness checks owner identity and value-following on the real copy for every case). -/
theorem retarget_step_partial (s : St) (i j i1 j2 : Nat) (nm : String)
    (hb : isBound s.h j2 = true) (hv : boundValue s.h i1 = some (.ref i, .atom nm)) :
    boundValue (retarget s i j (.ref i1) (.ref j2)).h j2 = some (.ref j, .atom nm) := by
  have hlt : j2 < s.h.size := by
    unfold isBound at hb
    cases hg : s.h[j2]? with
    | none => simp [hg] at hb
    | some o => exact (Array.getElem?_eq_some_iff.mp hg).1
  simp only [retarget, hb, hv, if_true, beq_self_eq_true]
  obtain ⟨o, ho⟩ : ∃ o, s.h[j2]? = some o := ⟨s.h[j2], by simp [hlt]⟩
  have hne : j2 ≠ s.h.size := by omega
  have hlookup : ∀ (fs : List (String × Val)) (v : Val), (setFieldL "_value" v fs).lookup "_value" = some v := by
    intro fs v
    induction fs with
    | nil => simp [setFieldL, List.lookup]
    | cons p r ih =>
      obtain ⟨k, x⟩ := p
      simp only [setFieldL]
      by_cases hk : k == "_value"
      · simp at hk; subst hk; simp [List.lookup]
      · have hk' : ("_value" == k) = false := by
          simp at hk ⊢; exact fun e => hk e.symm
        simp [hk, List.lookup, hk', ih]
  unfold boundValue setField
  simp [Array.getElem?_push, hne, ho, Array.getElem?_setIfInBounds, hlt, Nat.lt_succ_of_lt hlt, Obj.get, hlookup,
    Nat.ne_of_gt hlt, List.lookup]

/-- **copy_independent_partial**: freshness + no write + disjointness + both frame directions, bundled for the deep copy.
What is missing for the full statement: `copy_iso` — that the copy is field-wise equal to the source under the memo
(structural equality of source and copy) is *not* proved here; it is covered by the per-case comparison with the real copy
and by the fingerprint oracle only.  Nor is fuel sufficiency proved: every copy theorem is conditional on the run returning
`ok` (the driver reports `err fuel` per case, it never defaults; `fuel_mono`/`fuel_result_unique` show that success and the
result do not depend on the amount of fuel). -/
theorem copy_independent_partial (fuel : Nat) (h : Heap) (v : Val) (s' : St) (v' : Val)
    (hr : cpVal fuel ⟨h, []⟩ v = .ok (s', v')) :
    (∀ p ∈ s'.m, h.size ≤ p.2) ∧
    (∀ x, x < h.size → s'.h[x]? = h[x]?) ∧
    (∀ x, Reach s'.h v' x → h.size ≤ x) ∧
    (∀ x o' y, x < h.size → Reach s'.h v' y → (s'.h.setIfInBounds x o')[y]? = s'.h[y]?) := by
  refine ⟨?_, copy_no_write_deep fuel h v s' v' hr, deep_copy_shares_nothing fuel h v s' v' hr, ?_⟩
  · intro p hp
    rcases copy_fresh fuel h [] v s' v' hr p hp with h1 | h1
    · cases h1
    · exact h1
  · intro x o' y hx hy
    exact ((frame_source_write fuel h [] v s' v' hr x hx (by intro r hr1; simp [targets] at hr1) o') y).2 hy

/-- **copy_memo_injective**: when the pre-seeded targets exist, every memo target is an allocated object and every freshly
allocated target is the copy of exactly one source object (distinct sources get distinct copies). -/
theorem copy_memo_injective (fuel : Nat) (h : Heap) (pre : Memo) (v : Val) (s' : St) (v' : Val)
    (hpre : ∀ p ∈ pre, p.2 < h.size) (hr : cpVal fuel ⟨h, pre⟩ v = .ok (s', v')) :
    (∀ p ∈ s'.m, p.2 < s'.h.size) ∧
    (∀ p q, p ∈ s'.m → q ∈ s'.m → h.size ≤ p.2 → p.2 = q.2 → p.1 = q.1) :=
  let g := ((pval_all h.size h pre fuel) _ _ _ _ (good_init h pre) hr).1
  ⟨g.lt hpre, g.inj hpre⟩

/-! ### the routes the driver runs (`copyRoute` = `preseed` then `cpVal`) -/

/-- **route_spec**: what `copyRoute` — the function the driver runs — does: it pre-seeds (leaving every exported object
unchanged, allocating only new taxa, seeding only targets that exist and are either listed `.existing` targets of the route
or new objects, none of which is a bound annotation) and then runs `cpVal` with fuel `h.size + 1` from that state.
Every theorem about `cpVal` above therefore applies to the driver's run with `h := s0.h`, `pre := s0.m`. -/
theorem route_spec (h : Heap) (pre : List (Nat × PreTarget)) (root : Val) (s' : St) (v' : Val)
    (hr : copyRoute h pre root = .ok (s', v')) :
    ∃ s0, preseed ⟨h, []⟩ pre = .ok s0 ∧ cpVal (h.size + 1) s0 root = .ok (s', v') ∧
      h.size ≤ s0.h.size ∧ (∀ x, x < h.size → s0.h[x]? = h[x]?) ∧ (∀ p ∈ s0.m, p.2 < s0.h.size) ∧
      (∀ t ∈ targets s0.m, (∃ i, (i, PreTarget.existing t) ∈ pre) ∨ h.size ≤ t) ∧
      (∀ x, h.size ≤ x → isBound s0.h x = false) := by
  unfold copyRoute at hr
  cases hp : preseed ⟨h, []⟩ pre with
  | error e => simp [hp] at hr
  | ok s0 =>
    simp only [hp] at hr
    have g := preseed_inv h pre pre ⟨h, []⟩ s0 (preinv_init h pre) (fun _ he => he) hp
    exact ⟨s0, rfl, hr, g.size, g.old, g.lt, g.tgt, g.newUnbound⟩

/-- **route_no_write**: on every route whose listed `.existing` targets (the namespace and its taxa; the members of the other
namespace) are not bound annotations, the run of the driver's `copyRoute` leaves every exported object untouched —
copying never changes the source, the namespace or the taxa. -/
theorem route_no_write (h : Heap) (pre : List (Nat × PreTarget)) (root : Val) (s' : St) (v' : Val)
    (hT : ∀ i t, (i, PreTarget.existing t) ∈ pre → isBound h t = false)
    (hr : copyRoute h pre root = .ok (s', v')) :
    ∀ x, x < h.size → s'.h[x]? = h[x]? := by
  obtain ⟨s0, _, hc, hsz, hold, _, htgt, hnb⟩ := route_spec h pre root s' v' hr
  intro x hx
  have hunb : ∀ t ∈ targets s0.m, isBound s0.h t = false := by
    intro t ht
    by_cases hlt : t < h.size
    · rcases htgt t ht with ⟨i, hi⟩ | hge
      · rw [isBound_congr (hold t hlt)]; exact hT i t hi
      · omega
    · exact hnb t (by omega)
  obtain ⟨s0h, s0m⟩ := s0
  rw [← hold x hx]
  exact copy_no_write_scoped (h.size + 1) s0h s0m root s' v' hunb hc x (by simp at hsz; omega)

/-- **route_shares_only_preseeded**: an exported (old) object reachable from the result of the driver's `copyRoute` is
reachable from a seeded target, and every seeded target is a listed `.existing` target of the route or a new taxon. With
`pre = []` (deep copy) no exported object is reachable from the copy at all. -/
theorem route_shares_only_preseeded (h : Heap) (pre : List (Nat × PreTarget)) (root : Val) (s' : St) (v' : Val)
    (hr : copyRoute h pre root = .ok (s', v')) :
    ∀ x, Reach s'.h v' x → x < h.size →
      ∃ t, ((∃ i, (i, PreTarget.existing t) ∈ pre) ∨ h.size ≤ t) ∧ Reach s'.h (.ref t) x := by
  obtain ⟨s0, _, hc, hsz, _, _, htgt, _⟩ := route_spec h pre root s' v' hr
  intro x hx hlt
  obtain ⟨s0h, s0m⟩ := s0
  obtain ⟨r, hr1, hr2⟩ := copy_shares_only_preseeded (h.size + 1) s0h s0m root s' v' hc x hx (by simp at hsz; omega)
  exact ⟨r, htgt r hr1, hr2⟩

/-! ### fuel -/
namespace Aux
def MV (f : Nat) : Prop := ∀ s v r, cpVal f s v = .ok r → cpVal (f + 1) s v = .ok r
def MF (f : Nat) : Prop := ∀ fs s r, cpFields f s fs = .ok r → cpFields (f + 1) s fs = .ok r
def MI (f : Nat) : Prop := ∀ items s i j r, cpItems f s i j items = .ok r → cpItems (f + 1) s i j items = .ok r

theorem mf_of_mv {f : Nat} (hv : MV f) : MF f := by
  intro fs
  induction fs with
  | nil => intro s r h; simp [cpFields] at h ⊢; exact h
  | cons kv rest ih =>
    intro s r h
    obtain ⟨k, v⟩ := kv
    simp only [cpFields] at h ⊢
    cases h1 : cpVal f s v with
    | error e => simp [h1] at h
    | ok r1 =>
      obtain ⟨s1, v1⟩ := r1
      simp only [h1] at h
      rw [hv s v _ h1]
      cases h2 : cpFields f s1 rest with
      | error e => simp [h2] at h
      | ok r2 =>
        simp only [h2] at h
        simp only [ih s1 _ h2]
        exact h

theorem mi_of_mv {f : Nat} (hv : MV f) : MI f := by
  intro items
  induction items with
  | nil => intro s i j r h; simp [cpItems] at h ⊢; exact h
  | cons a1 rest ih =>
    intro s i j r h
    simp only [cpItems] at h ⊢
    cases h1 : cpVal f s a1 with
    | error e => simp [h1] at h
    | ok r1 =>
      obtain ⟨s1, a2⟩ := r1
      simp only [h1] at h
      rw [hv s a1 _ h1]
      cases h2 : cpItems f (retarget s1 i j a1 a2) i j rest with
      | error e => simp [h2] at h
      | ok r2 =>
        simp only [h2] at h
        simp only [ih _ i j _ h2]
        exact h

theorem mv_zero : MV 0 := by
  intro s v r h
  cases v with
  | atom a => simp [cpVal] at h ⊢; exact h
  | ref i =>
    simp only [cpVal] at h ⊢
    cases hl : s.m.lookup i with
    | none => simp [hl] at h
    | some j => simp only [hl] at h ⊢; exact h

theorem mv_succ {f : Nat} (hv : MV f) : MV (f + 1) := by
  have hf := mf_of_mv hv
  have hi := mi_of_mv hv
  intro s v r h
  cases v with
  | atom a => simp [cpVal] at h ⊢; exact h
  | ref i =>
    simp only [cpVal] at h ⊢
    cases hl : s.m.lookup i with
    | some j => simp only [hl] at h ⊢; exact h
    | none =>
      simp only [hl] at h ⊢
      cases ho : s.h[i]? with
      | none => simp [ho] at h
      | some o =>
        simp only [ho] at h ⊢
        cases hk : o.kind <;> simp only [hk] at h ⊢
        case annset =>
          cases ht : o.get "target" <;> cases hit : itemFields s.h i <;> simp only [ht, hit] at h ⊢ <;> try (exact absurd h (by simp))
          rename_i tv items
          cases h1 : cpVal f s tv with
          | error e => simp [h1] at h
          | ok r1 =>
            obtain ⟨s1, tv'⟩ := r1
            simp only [h1] at h
            simp only [hv s tv _ h1]
            cases h2 : cpFields f ⟨s1.h.push { kind := Kind.annset, cls := o.cls, fields := [] }, (i, s1.h.size) :: s1.m⟩ items with
            | error e => simp [h2] at h
            | ok r2 =>
              simp only [h2] at h
              simp only [hf _ _ _ h2]
              exact h
        all_goals
          split at h
          · simp at h
          · rename_i s2 fs' heq
            simp only [hf _ _ _ heq]
            cases ha : annotationsRef o with
            | none => simp only [ha] at h ⊢; exact h
            | some a =>
              simp only [ha] at h ⊢
              split at h
              · rename_i ao items hao hit
                try simp only [hao, hit]
                split at h
                · simp at h
                · rename_i s4 items' heq2
                  simp only [hi _ _ _ _ _ heq2]
                  exact h
              · simp at h

theorem mv_all : ∀ f, MV f
  | 0 => mv_zero
  | f + 1 => mv_succ (mv_all f)
end Aux

/-- **fuel_mono**: a run that succeeds keeps its result with any larger fuel — the only outcome that depends on the fuel is
`err fuel` (which the driver reports and never replaces by a default). -/
theorem fuel_mono (f f' : Nat) (hle : f ≤ f') (s : St) (v : Val) (r : St × Val) (h : cpVal f s v = .ok r) :
    cpVal f' s v = .ok r := by
  obtain ⟨d, rfl⟩ := Nat.exists_eq_add_of_le hle
  induction d with
  | zero => exact h
  | succ d ih => exact Aux.mv_all (f + d) s v r (ih (Nat.le_add_right _ _))

/-- **fuel_result_unique**: two successful runs with different fuels return the same heap, memo and value: the theorems,
which hold for every fuel, speak about the one result the driver prints. -/
theorem fuel_result_unique (f f' : Nat) (s : St) (v : Val) (r r' : St × Val)
    (h : cpVal f s v = .ok r) (h' : cpVal f' s v = .ok r') : r = r' := by
  have h1 := fuel_mono f (max f f') (Nat.le_max_left _ _) s v r h
  have h2 := fuel_mono f' (max f f') (Nat.le_max_right _ _) s v r' h'
  rw [h1] at h2
  cases h2; rfl

/-! ### histories of later changes -/

/-- a later change of the heap: overwrite an existing object, or allocate a new one -/
inductive Op where
  | write (x : Nat) (o : Obj)
  | alloc (o : Obj)

def applyOp (h : Heap) : Op → Heap
  | .write x o => h.setIfInBounds x o
  | .alloc o => h.push o

def applyOps (h : Heap) (ops : List Op) : Heap := ops.foldl applyOp h

namespace Aux
theorem applyOps_size_le (ops : List Op) : ∀ h : Heap, h.size ≤ (applyOps h ops).size := by
  induction ops with
  | nil => intro h; exact Nat.le_refl _
  | cons op r ih =>
    intro h
    have := ih (applyOp h op)
    cases op <;> simp [applyOps, applyOp] at this ⊢ <;> simp [applyOps] at ih <;> omega

/-- objects outside the written set survive any history (writes elsewhere, allocations) -/
theorem applyOps_untouched (ops : List Op) : ∀ (h : Heap) (y : Nat), y < h.size →
    (∀ x o, Op.write x o ∈ ops → x ≠ y) → (applyOps h ops)[y]? = h[y]? := by
  induction ops with
  | nil => intro h y _ _; rfl
  | cons op r ih =>
    intro h y hy hw
    have hw' : ∀ x o, Op.write x o ∈ r → x ≠ y := fun x o hm => hw x o (List.mem_cons_of_mem _ hm)
    show (applyOps (applyOp h op) r)[y]? = h[y]?
    cases op with
    | write x o =>
      have hne : x ≠ y := hw x o (by simp)
      rw [ih (applyOp h (.write x o)) y (by simp [applyOp]; exact hy) hw']
      simp [applyOp, Array.getElem?_setIfInBounds, hne]
    | alloc o =>
      rw [ih (applyOp h (.alloc o)) y (by simp [applyOp]; omega) hw']
      simp [applyOp, Array.getElem?_push]; omega
end Aux

/-- **frame_source_history**: for EVERY history of later changes on the source side — any sequence of allocations and of
overwrites of old objects that are not reachable from a pre-seeded target, or of objects allocated after the copy — every
object of the copy (reachable from the copy's root in the heap the copy returned) is unchanged at the end. -/
theorem frame_source_history (fuel : Nat) (h : Heap) (pre : Memo) (v : Val) (s' : St) (v' : Val)
    (hr : cpVal fuel ⟨h, pre⟩ v = .ok (s', v')) (ops : List Op)
    (hops : ∀ x o, Op.write x o ∈ ops →
      (x < h.size ∧ ∀ r ∈ targets pre, ¬ Reach s'.h (.ref r) x) ∨ s'.h.size ≤ x) :
    ∀ y, Reach s'.h v' y → y < s'.h.size → (applyOps s'.h ops)[y]? = s'.h[y]? := by
  intro y hy hlt
  apply applyOps_untouched ops s'.h y hlt
  intro x o hm e
  subst e
  rcases hops x o hm with ⟨hx, hnot⟩ | hge
  · obtain ⟨r, hr1, hr2⟩ := copy_shares_only_preseeded fuel h pre v s' v' hr x hy hx
    exact hnot r hr1 hr2
  · omega

/-- **frame_copy_history**: for EVERY history of later changes on the copy side — any sequence of allocations and of
overwrites of objects allocated by the copy or later — every exported object is unchanged at the end (given that no
pre-seeded target is a bound annotation), so no change of the copy is visible through the source. -/
theorem frame_copy_history (fuel : Nat) (h : Heap) (pre : Memo) (v : Val) (s' : St) (v' : Val)
    (hpre : ∀ x ∈ targets pre, isBound h x = false)
    (hr : cpVal fuel ⟨h, pre⟩ v = .ok (s', v')) (ops : List Op)
    (hops : ∀ x o, Op.write x o ∈ ops → h.size ≤ x) :
    ∀ x, x < h.size → (applyOps s'.h ops)[x]? = h[x]? := by
  intro x hx
  have hb := ((pval_all h.size h pre fuel) _ _ _ _ (good_init h pre) hr).1.base
  rw [applyOps_untouched ops s'.h x (by omega) (by intro x' o hm e; subst e; have := hops _ o hm; omega)]
  exact copy_no_write_scoped fuel h pre v s' v' hpre hr x hx

/-! ## the thin structural clone -/

mutual
/-- leaf taxa, left to right -/
def X.leaves : X → List String
  | .node t _ _ _ [] => [t]
  | .node _ _ _ _ (c :: cs) => X.leavesL (c :: cs)
def X.leavesL : List X → List String
  | [] => []
  | c :: cs => X.leaves c ++ X.leavesL cs
end

mutual
/-- no node with exactly one child -/
def X.noUnary : X → Bool
  | .node _ _ _ _ cs => cs.length != 1 && X.noUnaryL cs
def X.noUnaryL : List X → Bool
  | [] => true
  | c :: cs => X.noUnary c && X.noUnaryL cs
end

namespace Aux
theorem withLen_leaves (k : X) (l : Option Frac) : (k.withLen l).leaves = k.leaves := by
  cases k with
  | node t l' s e cs => cases cs <;> simp [X.withLen, X.leaves]

theorem withLen_noUnary (k : X) (l : Option Frac) : (k.withLen l).noUnary = k.noUnary := by
  cases k with
  | node t l' s e cs => simp [X.withLen, X.noUnary]

theorem extractL_length (sup : Bool) (tax elb : Nat → String) (cs : List T) : (extractL sup tax elb cs).length = cs.length := by
  induction cs with
  | nil => simp [extractL]
  | cons c cs ih => simp [extractL, ih]
end Aux

mutual
/-- **extract_leaves**: the extracted tree carries exactly the leaf taxa of its source, in the same order, with or
without suppression of unifurcations (taxa are referenced, never copied or dropped). -/
theorem extract_leaves (sup : Bool) (tax elb : Nat → String) : ∀ t : T,
    (extract sup tax elb t).leaves = (t.leaves.map (fun x => tax x.id))
  | .node i x l s [] => by
    cases sup <;> simp [extract, extractL, X.leaves, T.leaves, T.id]
  | .node i x l s (c :: cs) => by
    have ih := extractL_leaves sup tax elb (c :: cs)
    simp only [T.leaves]
    rw [← ih]
    cases hks : extractL sup tax elb (c :: cs) with
    | nil => simp [extractL] at hks
    | cons k ks =>
      cases ks with
      | nil => cases sup <;> simp [extract, hks, X.leaves, X.leavesL, withLen_leaves]
      | cons k2 ks2 => cases sup <;> simp [extract, hks, X.leaves]
theorem extractL_leaves (sup : Bool) (tax elb : Nat → String) : ∀ ts : List T,
    X.leavesL (extractL sup tax elb ts) = ((T.leavesL ts).map (fun x => tax x.id))
  | [] => by simp [extractL, X.leavesL, T.leavesL]
  | c :: cs => by
    simp [extractL, X.leavesL, T.leavesL, extract_leaves sup tax elb c, extractL_leaves sup tax elb cs]
end

mutual
/-- **extract_suppresses**: with `suppress_unifurcations` the extracted tree has no node of outdegree one. -/
theorem extract_suppresses (tax elb : Nat → String) : ∀ t : T, (extract true tax elb t).noUnary = true
  | .node i x l s cs => by
    have ih := extractL_suppresses tax elb cs
    cases hks : extractL true tax elb cs with
    | nil => simp [extract, hks, X.noUnary, X.noUnaryL]
    | cons k ks =>
      rw [hks] at ih
      cases ks with
      | nil =>
        simp [X.noUnaryL] at ih
        simp [extract, hks, withLen_noUnary, ih]
      | cons k2 ks2 => simp [extract, hks, X.noUnary, ih]
theorem extractL_suppresses (tax elb : Nat → String) : ∀ ts : List T, X.noUnaryL (extractL true tax elb ts) = true
  | [] => by simp [extractL, X.noUnaryL]
  | c :: cs => by
    simp [extractL, X.noUnaryL, extract_suppresses tax elb c, extractL_suppresses tax elb cs]
end

mutual
/-- pre-order list of what a clone carries: (taxon, edge length, node label, edge label) -/
def X.attrs : X → List (String × Option Frac × String × String)
  | .node t l s e cs => (t, l, s, e) :: X.attrsL cs
def X.attrsL : List X → List (String × Option Frac × String × String)
  | [] => []
  | c :: cs => X.attrs c ++ X.attrsL cs
end

mutual
/-- the same list read off the source tree -/
def srcAttrs (tax elb : Nat → String) : T → List (String × Option Frac × String × String)
  | .node i _ l s cs => (tax i, l, encodeStr s, elb i) :: srcAttrsL tax elb cs
def srcAttrsL (tax elb : Nat → String) : List T → List (String × Option Frac × String × String)
  | [] => []
  | c :: cs => srcAttrs tax elb c ++ srcAttrsL tax elb cs
end

mutual
/-- pre-order (taxon, node label, edge label) of the source nodes that are not unifurcations -/
def srcLabsSup (tax elb : Nat → String) : T → List (String × String × String)
  | .node i _ _ s cs => (if cs.length = 1 then [] else [(tax i, encodeStr s, elb i)]) ++ srcLabsSupL tax elb cs
def srcLabsSupL (tax elb : Nat → String) : List T → List (String × String × String)
  | [] => []
  | c :: cs => srcLabsSup tax elb c ++ srcLabsSupL tax elb cs
end

def X.labs (x : X) : List (String × String × String) := x.attrs.map (fun a => (a.1, a.2.2.1, a.2.2.2))
def X.labsL (xs : List X) : List (String × String × String) := (X.attrsL xs).map (fun a => (a.1, a.2.2.1, a.2.2.2))

namespace Aux
theorem withLen_labs (k : X) (l : Option Frac) : (k.withLen l).labs = k.labs := by
  cases k with
  | node t l' s e cs => simp [X.withLen, X.labs, X.attrs]
theorem labsL_cons (c : X) (cs : List X) : X.labsL (c :: cs) = c.labs ++ X.labsL cs := by
  simp [X.labsL, X.labs, X.attrsL]
end Aux

mutual
/-- **extract_nosup_attrs**: without suppression every node of the source is cloned, in the same (pre-)order, with exactly its
taxon, edge length, node label and edge label — structure, lengths, labels and taxa are all carried over. -/
theorem extract_nosup_attrs (tax elb : Nat → String) : ∀ t : T, (extract false tax elb t).attrs = srcAttrs tax elb t
  | .node i x l s cs => by
    have ih := extractL_nosup_attrs tax elb cs
    cases hks : extractL false tax elb cs with
    | nil => rw [hks] at ih; simp [extract, hks, X.attrs, srcAttrs, ← ih]
    | cons k ks =>
      rw [hks] at ih
      cases ks with
      | nil => simp [extract, hks, X.attrs, srcAttrs, ← ih]
      | cons k2 ks2 => simp [extract, hks, X.attrs, srcAttrs, ← ih]
theorem extractL_nosup_attrs (tax elb : Nat → String) : ∀ ts : List T,
    X.attrsL (extractL false tax elb ts) = srcAttrsL tax elb ts
  | [] => by simp [extractL, X.attrsL, srcAttrsL]
  | c :: cs => by
    simp [extractL, X.attrsL, srcAttrsL, extract_nosup_attrs tax elb c, extractL_nosup_attrs tax elb cs]
end

mutual
/-- **extract_sup_labels**: with suppression the clone consists of exactly the source nodes that are not unifurcations, in
pre-order, each with its own taxon, node label and edge label (lengths of removed nodes are absorbed by `absorb`). -/
theorem extract_sup_labels (tax elb : Nat → String) : ∀ t : T, (extract true tax elb t).labs = srcLabsSup tax elb t
  | .node i x l s cs => by
    have ih := extractL_sup_labels tax elb cs
    have hlen := extractL_length true tax elb cs
    cases hks : extractL true tax elb cs with
    | nil =>
      rw [hks] at ih hlen
      have : cs.length ≠ 1 := by simp at hlen; omega
      simp [extract, hks, X.labs, X.attrs, srcLabsSup, this, ← ih, X.labsL]
    | cons k ks =>
      rw [hks] at ih hlen
      cases ks with
      | nil =>
        have : cs.length = 1 := by simp at hlen; omega
        have e : extract true tax elb (.node i x l s cs) = k.withLen (absorb l k.len) := by simp [extract, hks]
        rw [e, withLen_labs]
        simp only [srcLabsSup, this, if_true, List.nil_append, ← ih, labsL_cons]
        simp [X.labsL, X.attrsL]
      | cons k2 ks2 =>
        have : cs.length ≠ 1 := by simp at hlen; omega
        simp [extract, hks, X.labs, X.attrs, srcLabsSup, this, ← ih, X.labsL]
theorem extractL_sup_labels (tax elb : Nat → String) : ∀ ts : List T,
    X.labsL (extractL true tax elb ts) = srcLabsSupL tax elb ts
  | [] => by simp [extractL, X.labsL, X.attrsL, srcLabsSupL]
  | c :: cs => by
    simp [extractL, labsL_cons, srcLabsSupL, extract_sup_labels tax elb c, extractL_sup_labels tax elb cs]
end

/-! ## non-vacuity: the hypotheses are satisfiable and the conclusions are not empty -/

/-- a cyclic 2-object heap: a node 0 with a reference to 1, which points back to 0 -/
def exHeap : Heap := #[
  { kind := .plain, cls := "Node", fields := [("p", .ref 1), ("w", .atom "None")] },
  { kind := .plain, cls := "Node", fields := [("c", .ref 0)] }]

/-- deep copy of the cycle: two fresh objects, the cycle is reproduced among them -/
example : ∃ s' v', cpVal 2 ⟨exHeap, []⟩ (.ref 0) = .ok (s', v') ∧ v' = .ref 2 ∧ s'.h.size = 4 := by
  simp [cpVal, cpFields, exHeap, planFields, annotationsRef, setFields, List.lookup]
  exact ⟨_, _, ⟨rfl, rfl⟩, rfl, rfl⟩
/-- with object 1 pre-seeded to itself only one object is allocated and it references the shared object 1 -/
example : ∃ s' v', cpVal 2 ⟨exHeap, [(1, 1)]⟩ (.ref 0) = .ok (s', v') ∧ v' = .ref 2 ∧ s'.h.size = 3 := by
  simp [cpVal, cpFields, exHeap, planFields, annotationsRef, setFields, List.lookup]
  exact ⟨_, _, ⟨rfl, rfl⟩, rfl, rfl⟩
example : Closed exHeap := by
  intro i o hget f hf k hk
  have hi : i < 2 := (Array.getElem?_eq_some_iff.mp hget).1
  match i, hi with
  | 0, _ =>
    simp [exHeap] at hget; subst hget; simp at hf
    rcases hf with h | h <;> subst h <;> simp at hk
    subst hk; decide
  | 1, _ =>
    simp [exHeap] at hget; subst hget; simp at hf
    subst hf; simp at hk; subst hk; decide
/-- a tree with an annotation set holding one attribute-bound annotation (bound to the tree's `weight`) -/
def exAnn : Heap := #[
  { kind := .annotable, cls := "Tree", fields := [("weight", .atom "None"), ("_annotations", .ref 1)] },
  { kind := .annset, cls := "AnnotationSet", fields := [("_item_list", .ref 2), ("_item_set", .ref 3), ("target", .ref 0)] },
  { kind := .plain, cls := "list", fields := [("#0", .ref 4)] },
  { kind := .plain, cls := "set", fields := [("e0", .ref 4)] },
  { kind := .annotable, cls := "Annotation", fields := [("_value", .ref 5), ("is_attribute", .atom "True")] },
  { kind := .tuple, cls := "tuple", fields := [("#0", .ref 0), ("#1", .atom "weight")] }]
/-- the driver's deep-copy route succeeds on it with the fuel the driver uses; in the FINAL heap the copied annotation (7) is
bound to the copy of the tree (6), not to the source (0) -/
example : ∃ s' v', copyRoute exAnn [] (.ref 0) = .ok (s', v') ∧ v' = .ref 6 ∧ s'.h.size = 13 ∧
    boundValue s'.h 7 = some (.ref 6, .atom "weight") := by
  simp [copyRoute, preseed, cpVal, cpFields, cpItems, exAnn, planFields, annotationsRef, setFields, setField, setFieldL, List.lookup,
    itemFields, Obj.get, retarget, isBound, boundValue, attachAnnotations, pushAnnSet, dedupVals, indexed]
  exact ⟨_, _, ⟨rfl, rfl⟩, rfl, by simp, by simp [List.lookup]⟩
/-- a node with a taxon, copied into another namespace that has no taxon of that label (`.fresh`) -/
def exNs : Heap := #[
  { kind := .annotable, cls := "Node", fields := [("taxon", .ref 1)] },
  { kind := .taxon, cls := "Taxon", fields := [("_label", .atom "str:A")] }]
example : ∃ s' v', copyRoute exNs [(1, .fresh)] (.ref 0) = .ok (s', v') ∧ v' = .ref 4 ∧
    s'.h[4]? = some { kind := .annotable, cls := "Node", fields := [("taxon", .ref 3)] } := by
  simp [copyRoute, preseed, newTaxon, cpVal, cpFields, exNs, planFields, annotationsRef, setFields, List.lookup, Obj.get]
  exact ⟨_, _, ⟨rfl, rfl⟩, rfl, by simp⟩
/-- the namespace-scoped route (taxon seeded to itself) shares the taxon: `route_no_write`'s hypothesis holds, the copy references 1 -/
example : ∃ s' v', copyRoute exNs [(1, .existing 1)] (.ref 0) = .ok (s', v') ∧
    s'.h[2]? = some { kind := .annotable, cls := "Node", fields := [("taxon", .ref 1)] } := by
  simp [copyRoute, preseed, cpVal, cpFields, exNs, planFields, annotationsRef, setFields, List.lookup, Obj.get]
example : ∀ i t, (i, PreTarget.existing t) ∈ [(1, PreTarget.existing 1)] → isBound exNs t = false := by
  intro i t h
  simp at h
  obtain ⟨_, rfl⟩ := h
  rfl
/-- nothing is defaulted: a repeated label whose first occurrence was not seeded is refused -/
example : copyRoute exNs [(1, .sameAs 0)] (.ref 0) = .error .malformed := by
  simp [copyRoute, preseed, List.lookup]
/-- a history of later changes on the source side (overwrite of old object 0, an allocation, overwrite of the new object) -/
example : applyOps exHeap [.write 0 { kind := .plain, cls := "X", fields := [] }, .alloc default, .write 2 default] =
    #[{ kind := .plain, cls := "X", fields := [] }, { kind := .plain, cls := "Node", fields := [("c", .ref 0)] }, default] := by
  simp [applyOps, applyOp, exHeap]
example : (extract true (fun i => if i = 2 then "leaf" else "inner") (fun _ => "-")
    (.node 0 none none none [.node 1 none (some ⟨1, 1⟩) none [.node 2 (some 0) (some ⟨2, 1⟩) none []]])).labs
      = [("leaf", "-", "-")] := by
  simp [extract, extractL, X.withLen, X.labs, X.attrs, X.attrsL, encodeStr, absorb, X.len]
example : ∀ x ∈ targets [(1, 1)], isBound exHeap x = false := by
  intro x hx; simp [targets] at hx; subst hx; rfl

end DendroModel.C12
